import UgoVerif.Proofs.ModStore
import UgoVerif.Proofs.Copy
import UgoVerif.Proofs.ModCache
/-
  C12 — a module is loaded once per run and every import sees the same object.

  Compile side: Model/ModStore.lean (moduleStore, checkCyclicImports, the store part of
  compileImportExpr), tied by request `ms` of the `modules` stream.
  Run side: the VM model (VM/Step.lean `execLoadModule`, `execStoreModule`, VM/Copy.lean),
  tied by the lock-step `vm` requests of the `modules` stream.
-/
namespace UgoVerif.Props.C12
open UgoVerif UgoVerif.Go UgoVerif.VM
open UgoVerif.Model.ModStore UgoVerif.Proofs.ModStore UgoVerif.Proofs.Copy UgoVerif.Proofs.ModCache

/-! ## compile side -/

private theorem main_post {mm : ModMap} {fuel : Nat} {imports : List String} {st : St}
    (hmain : mm.get "(main)" ≠ some .builtin) (h : compileMain mm fuel imports = .ok st) :
    Post mm ["(main)"] imports {} st :=
  (compile_post mm fuel).2 ["(main)"] imports {} st
    (by intro p hp; simp at hp; subst hp; exact hmain) (inv_empty mm) h

/-- One (kind, constant index, module index) per module name, across all forked compilers:
    every LOADMODULE emitted anywhere during the compilation carries the store's triple for its
    module name, so two import expressions naming the same module are compiled with identical
    operands; and every module index is below `NumModules`. -/
theorem store_functional (mm : ModMap) (fuel : Nat) (imports : List String) (st : St)
    (hmain : mm.get "(main)" ≠ some .builtin) (h : compileMain mm fuel imports = .ok st) :
    (∀ n it1 it2, (n, it1) ∈ st.emitted → (n, it2) ∈ st.emitted → it1 = it2) ∧
    (∀ n it, (n, it) ∈ st.emitted → it.modIdx < numModules st) := by
  obtain ⟨⟨hok, hem, _, _⟩, _, _, _⟩ := main_post hmain h
  constructor
  · intro n it1 it2 h1 h2
    have a := hem _ h1
    have b := hem _ h2
    simp at a b
    rw [a] at b
    exact Option.some.inj b
  · intro n it h1
    exact hok n it (hem _ h1)

/-- … and the triple of a name never changes while compilation proceeds (forks share the store):
    compiling further imports leaves every stored triple as it is. -/
theorem store_stable (mm : ModMap) (fuel : Nat) (path names : List String) (st st' : St)
    (hp : PathOK mm path) (hinv : Inv mm st) (h : compileImports mm fuel path names st = .ok st') :
    ∀ n it, st.store.get n = some it → st'.store.get n = some it :=
  ((compile_post mm fuel).2 path names st st' hp hinv h).2.1

/-- A static import cycle of any length is a compile error: if compilation succeeds, no module
    that was compiled (every module reachable from the main script's imports is) lies on a chain
    of import edges leading back to itself. -/
theorem cycle_rejected (mm : ModMap) (fuel : Nat) (imports : List String) (st : St)
    (hmain : mm.get "(main)" ≠ some .builtin) (h : compileMain mm fuel imports = .ok st) :
    ∀ m, (st.store.get m).isSome → ¬ Chain mm m m := by
  obtain ⟨⟨hok, _, htopo, _⟩, _, _, _⟩ := main_post hmain h
  intro m hm hc
  cases hg : st.store.get m with
  | none => rw [hg] at hm; cases hm
  | some it =>
    obtain ⟨it', h1, h2⟩ := chain_decreases htopo hc it hg
    rw [hg] at h1
    cases h1
    exact Nat.lt_irrefl _ h2

/-- everything reachable is compiled: the modules the main script imports are stored, and so are
    the imports of every stored source module -/
theorem reachable_compiled (mm : ModMap) (fuel : Nat) (imports : List String) (st : St)
    (hmain : mm.get "(main)" ≠ some .builtin) (h : compileMain mm fuel imports = .ok st) :
    (∀ m ∈ imports, (st.store.get m).isSome) ∧
    (∀ m is, (st.store.get m).isSome → mm.get m = some (.source is) → ∀ i ∈ is, (st.store.get i).isSome) := by
  obtain ⟨⟨_, _, htopo, _⟩, _, hall, _⟩ := main_post hmain h
  refine ⟨hall, ?_⟩
  intro m is hm hsrc i hi
  cases hg : st.store.get m with
  | none => rw [hg] at hm; cases hm
  | some it =>
    obtain ⟨it', h1, _⟩ := htopo m it is hg hsrc i hi
    simp [h1]

/-- the local form of cycle detection: importing a module that is being compiled (it is on the
    path of parent compilers and not stored yet) is the error "cyclic module import" -/
theorem cycle_rejected_at (mm : ModMap) (fuel : Nat) (path : List String) (name : String) (st : St)
    (is : List String) (hsrc : mm.get name = some (.source is)) (hp : name ∈ path)
    (hn : st.store.get name = none) :
    compileImport mm (fuel+1) path name st = .error (.cyclic name) := by
  simp [compileImport, hsrc, hn, checkCyclic, hp]

/-- An unknown module is a compile error at the import expression … -/
theorem unknown_rejected_at (mm : ModMap) (fuel : Nat) (path : List String) (name : String) (st : St)
    (h : mm.get name = none) : compileImport mm (fuel+1) path name st = .error (.notFound name) := by
  simp [compileImport, h]

/-- … hence a successful compilation stored only modules the module map knows, and every import
    expression of every compiled module names a known module. -/
theorem unknown_rejected (mm : ModMap) (fuel : Nat) (imports : List String) (st : St)
    (hmain : mm.get "(main)" ≠ some .builtin) (h : compileMain mm fuel imports = .ok st) :
    (∀ m ∈ imports, (mm.get m).isSome) ∧
    (∀ m is, (st.store.get m).isSome → mm.get m = some (.source is) → ∀ i ∈ is, (mm.get i).isSome) := by
  obtain ⟨⟨_, _, _, hknown⟩, _, _, _⟩ := main_post hmain h
  obtain ⟨r1, r2⟩ := reachable_compiled mm fuel imports st hmain h
  constructor
  · intro m hm
    cases hg : st.store.get m with
    | none => have := r1 m hm; rw [hg] at this; cases this
    | some it => exact hknown m it hg
  · intro m is hm hsrc i hi
    cases hg : st.store.get i with
    | none => have := r2 m is hm hsrc i hi; rw [hg] at this; cases this
    | some it => exact hknown i it hg

/-- non-vacuity: a diamond over a builtin module compiles, a 3-cycle and an unknown module do not -/
example : (compileMain [("a", .source ["b", "c"]), ("b", .source ["d"]), ("c", .source ["d", "b"]), ("d", .builtin)] 50 ["a", "c"]).toOption.map
    (fun st => (numModules st, st.emitted.length)) = some (4, 7) := by decide
example : (match compileMain [("a", .source ["b"]), ("b", .source ["c"]), ("c", .source ["a"])] 50 ["a"] with
    | .error e => some e | .ok _ => none) = some (.cyclic "a") := by decide
example : (match compileMain [("a", .source ["zz"])] 50 ["a"] with
    | .error e => some e | .ok _ => none) = some (.notFound "zz") := by decide

/-! ## run side -/

/-- `copy_fresh`: the value STOREMODULE caches is built from fresh objects only — every array, map,
    function, error object reachable from it (through arrays and maps, to any depth `d`) lies at
    an address that did not exist before the copy, and nothing that existed is modified.  Hence
    the cached module shares no mutable object with the Bytecode constant it was copied from
    (nor with the Go-side attribute map): builtin-module state is private per VM.  (Captured
    variable boxes of closures are shared on purpose — `CompiledFunction.Copy` keeps `Free` —
    and constants never carry free variables.) -/
theorem copy_fresh (fuel : Nat) (h : Array Cell) (v v' : V) (h' : Array Cell)
    (hc : copyVal fuel h v = some (v', h')) :
    (h.size ≤ h'.size ∧ ∀ i, i < h.size → h'[i]? = h[i]?) ∧ ∀ d, FreshVal h.size h' d v' :=
  copyVal_spec fuel h v v' h' hc

/-- non-vacuity: copying the nested constant `{k: [1]}` -/
example : ∃ v' h', copyVal 5 #[.arr #[.int 1], .map [([107], .arr 0 0 1)]] (.map 1) = some (v', h') ∧ v' = .map 3 :=
  ⟨_, _, rfl, rfl⟩

/-- `only_storemodule_writes_cache`: no instruction other than STOREMODULE changes the module
    cache — whatever the instruction does, including raising errors, unwinding frames, panicking
    or leaving the modelled subset; in particular LOADMODULE only reads it. -/
theorem only_storemodule_writes_cache (F : FloatOps) (op : Nat) (hop : op ≠ OpStoreModule)
    (s : State) : (exec (dispatch F op) s).2.modules = s.modules :=
  (pm_dispatch F op hop).h s

/-- … and neither do the instruction fetch and the H1 trace record, so a whole `step` whose
    opcode is not STOREMODULE leaves the cache as it is (`exec_step`: `step` = fetch ; dispatch). -/
theorem step_keeps_cache (F : FloatOps) (s s1 : State) (op : Nat)
    (hf : exec fetchOp s = (.ok op, s1)) (hop : op ≠ OpStoreModule) :
    (exec (step F) s).2.modules = s.modules := by
  rw [exec_step, hf]
  simp only
  rw [(pm_dispatch F op hop).h s1]
  have := pm_fetchOp.h s
  rw [hf] at this
  exact this

/-- STOREMODULE leaves the cache alone (when it fails) or overwrites exactly the entry named by
    its operand -/
theorem storemodule_writes_one (s : State) :
    (exec execStoreModule s).2.modules = s.modules ∨
    ∃ midx v, exec (opnd2 1) s = (.ok midx, s) ∧ (exec execStoreModule s).2.modules = s.modules.set! midx v :=
  storeModule_spec s

/-- the prologue of `Run` only grows the cache: what is loaded stays loaded (a VM that is run
    again, REPL), new entries are nil -/
theorem prologue_grows_cache (g : V) (args : List V) (s : State) (j : Nat) (hj : j < s.modules.size) :
    (exec (prologue g args) s).2.modules[j]? = s.modules[j]? :=
  (pg_prologue g args).h s j hj

/-- ### the trace invariant with ghost counters

    `stores m` counts the executed STOREMODULE m instructions, `misses m` the LOADMODULE m
    instructions that found entry m nil (`gstep`; its state component is exactly `step`'s:
    `gstep_state`).  Along every execution (`Reach`: any number of instructions, any interleaving
    of opcodes, from any state satisfying the invariant — e.g. a new VM after its prologue: all
    entries nil, all counters 0):
      a cache entry that is not nil has an executed STOREMODULE behind it, i.e.
      `stores m = 0 → cache[m] = nil`: LOADMODULE m can only hit after a STOREMODULE m. -/
theorem cache_nil_until_stored (F : FloatOps) (a b : Ghost × State)
    (hr : Reach F a b) (hinv : GInv a.1 a.2) : GInv b.1 b.2 :=
  reach_inv F hr hinv

theorem ghost_is_step (F : FloatOps) (g : Ghost) (s : State) : (gstep F (g, s)).2 = (exec (step F) s).2 :=
  gstep_state F g s

/-- non-vacuity: the state of a new VM with three module slots satisfies the invariant -/
example : GInv {} { (default : State) with modules := #[.nil, .nil, .nil] } := by
  intro m v hm hv
  have : v = .nil := by
    match m, hm with
    | 0, hm => simp at hm; exact hm.symm
    | 1, hm => simp at hm; exact hm.symm
    | 2, hm => simp at hm; exact hm.symm
    | n+3, hm => simp at hm
  exact absurd this hv

/-- The full run-side statement: along every execution from a new VM, every module is missed
    (= a load of it, for a source module its body, is started) at most once.
    This is FALSE of the code — `known_findings.jsonl` `C12:body-rerun-after-throw` (a body that ends
    in an error leaves the entry nil, the next import misses again) and
    `C12:body-reentered-via-global` (through a function stored in the globals a body reaches an
    import of its own module while its entry is still nil); both are reproduced on the real VM and
    in the model by the `modules` stream on every check.  What the theorems above establish instead:
    the only writer of the cache is STOREMODULE, a hit is only possible after a STOREMODULE of that
    module and then yields the stored object, so at most one *completed* load is ever observed,
    and a second *start* needs a miss, i.e. an earlier start that did not (yet) complete. -/
def C12_full : Prop :=
  ∀ (F : FloatOps) (s0 : State) (b : Ghost × State),
    (∀ (m : Nat) (v : V), s0.modules[m]? = some v → v = V.nil) → Reach F ({}, s0) b → ∀ m, b.1.misses m ≤ 1

/-- what is proved of it (the partial statement): with the same premises, every entry that is
    not nil at the end has been stored, and the store counters only grow. -/
theorem C12_partial (F : FloatOps) (s0 : State) (b : Ghost × State)
    (h0 : ∀ (m : Nat) (v : V), s0.modules[m]? = some v → v = V.nil) (hr : Reach F ({}, s0) b) :
    ∀ (m : Nat) (v : V), b.2.modules[m]? = some v → v ≠ V.nil → 0 < b.1.stores m :=
  reach_inv F hr (fun m v hm hv => absurd (h0 m v hm) hv)

end UgoVerif.Props.C12
