import UgoVerif.Proofs.VMRun
/-
  C06 — with recovery enabled, running a script never panics the host.

  All theorems are about the hand-written VM model `UgoVerif/VM/{Types,Base,Step,Run}.lean`
  (vm.go in Go statement order; every Go index/slice/nil-dereference/type-assertion is an
  explicit `Exc.panic` branch that keeps the partial state).  The model is tied to /repo by
  the lock-step correspondence streams `vmtrace` and `vmfail`.

  The theorems quantify over EVERY state satisfying the invariants and over ARBITRARY
  bytecode (not only compiler output), every fuel, globals and arguments.
-/
set_option linter.unusedSimpArgs false
set_option linter.unusedVariables false
set_option mvcgen.warning false
namespace UgoVerif.Props.C06
open UgoVerif UgoVerif.Go UgoVerif.VM UgoVerif.Proofs.VM Std.Do

/-! ### the invariants (definitions in `Proofs/VMInv.lean`)

`VInv s` — what the recovery path depends on; holds at every instruction boundary AND in
the partial state at every panic site:
  * `s.frames.size = 1024`, `s.stack.size = 2048`, `s.curFrame < 1024`;
  * (I1) every frame that has an error handler has a non-nil function;
  * (I2) every handler's saved `sp` is ≥ 0.
`VInvB s` — at instruction boundaries: `VInv s ∧ 0 ≤ s.sp ∧ the current frame has a function`. -/

example (s : State) : VInv s ↔
    s.frames.size = frameSize ∧ s.stack.size = stackSize ∧ s.curFrame < frameSize ∧
      ∀ i (h : i < s.frames.size),
        (hasHandler s.frames[i] = true → s.frames[i].fn ≠ none) ∧
        (∀ hs, s.frames[i].handlers = some hs → ∀ h ∈ hs, 0 ≤ h.sp) := Iff.rfl

example (s : State) : VInvB s ↔ VInv s ∧ 0 ≤ s.sp ∧ (s.frames[s.curFrame]!).fn ≠ none := Iff.rfl

/-- **step_VInv.** One instruction from ANY boundary state (arbitrary bytecode): whichever way it
    ends — `continue`, return from `loop`, Go panic at any panic site, or leaving the modelled
    subset — the resulting (partial) state satisfies `VInv`; after `continue` it is a boundary
    state again; a return without error leaves `1 ≤ sp` (the epilogue reads `stack[sp-1]`).
    `(step F).run.run s` returns the state at the panic site in its second component. -/
theorem step_VInv (F : FloatOps) (s : State) (hs : VInvB s) (he : s.err = none) :
    (∀ s', (step F).run.run s = (.ok .next, s') → VInvB s' ∧ s'.err = none ∧ s'.noPanic = s.noPanic) ∧
    (∀ s', (step F).run.run s = (.ok .ret, s') → VInv s' ∧ s'.noPanic = s.noPanic ∧ (s'.err = none → 1 ≤ s'.sp)) ∧
    (∀ e s', (step F).run.run s = (.error e, s') → VInv s' ∧ s'.noPanic = s.noPanic) := by
  have h := step_run s.noPanic F s ⟨hs, he, rfl⟩
  refine ⟨fun s' hr => ?_, fun s' hr => ?_, fun e s' hr => h.2 e s' hr⟩
  · have := h.1 _ _ hr
    exact ⟨⟨this.1, this.2.2.1, this.2.2.2.1⟩, this.2.2.2.2, this.2.1⟩
  · have := h.1 _ _ hr
    exact ⟨this.1, this.2.1, this.2.2⟩

/-- `loop` (any number of instructions) lifts `step_VInv`. -/
theorem loop_VInv (F : FloatOps) (fuel : Nat) (s : State) (hs : VInvB s) (he : s.err = none) :
    (∀ r s', (loopF F fuel).run.run s = (.ok r, s') →
        VInv s' ∧ s'.noPanic = s.noPanic ∧ (r = some () → s'.err = none → 1 ≤ s'.sp)) ∧
    (∀ e s', (loopF F fuel).run.run s = (.error e, s') → VInv s' ∧ s'.noPanic = s.noPanic) :=
  loop_run s.noPanic F fuel s ⟨hs, he, rfl⟩

/-- **throw_fuel_adequate.** `throwF (← throwFuel)` (vm.go throw/handleThrownError with the
    model's recursion budget) never reaches the fuel-exhausted branch: from a `VInv` state it
    raises no `unsupported` exception at all. -/
theorem throw_fuel_adequate (err : Addr) (s : State) (hv : VInv s) :
    ∀ m s', (do let f ← throwFuel; throwF f err : M (Option Addr)).run.run s ≠ (.error (.unsupported m), s') := by
  have tf := throwF_spec False True
  have key : ⦃fun s => ⌜VInv s⌝⦄ (do let f ← throwFuel; throwF f err : M (Option Addr))
      ⦃post⟨fun _ _ => ⌜True⌝, fun e _ => ⌜∀ m, e ≠ .unsupported m⌝⟩⦄ := by
    apply triple_of_fixed'; intro s0 hv0
    mvcgen [throwFuel_spec, tf]
    all_goals subst_vars
    all_goals (try simp only [wrap_iff])
    · rename_i s1 n s h
      have hs := (same_iff _ _).mp h.1
      refine ⟨trivial, ?_, fun f => f.elim, fun _ => h.2⟩
      simp only [VInv] at hv0 ⊢; rw [hs.1, hs.2.2.1, hs.2.2.2.2.1]; exact hv0
    · intros; trivial
    · intro ⟨_, _, hm⟩ m hem
      subst hem; exact hm trivial
  intro m s' hr
  exact (run_of_triple key s hv).2 _ _ hr m rfl

/-- **recovery_total.** From any `VInv` state (in particular the partial state at any panic
    site) `handlePanic` — which runs in the deferred function of `run()`, outside `recover` —
    raises nothing: it returns normally, preserves `VInv` and the recovery switch, and if it
    leaves `vm.err` unset the VM is at an instruction boundary again (the loop is re-entered). -/
theorem recovery_total (msg : String) (s : State) (hv : VInv s) :
    ∃ s', (handlePanic msg).run.run s = (.ok (), s') ∧ VInv s' ∧ s'.noPanic = s.noPanic ∧
      (s'.err = none → VInvB s') := by
  obtain ⟨s', h1, h2, h3, h4⟩ := handlePanic_run msg s hv
  exact ⟨s', h1, h2, h3, fun h => (h4 h).1⟩

/-- **delivered_or_returned.** A recovered panic is either *delivered*: it is the pending error
    of the innermost handler of the (new) current frame, `ip` points at that handler's catch —
    or, when the catch is consumed, finally — block and `sp` is the handler's saved `sp`; or it is
    *returned*: `vm.err` is set and `Run` returns it as an error. -/
theorem delivered_or_returned (msg : String) (s : State) (hv : VInv s) :
    ∃ s', (handlePanic msg).run.run s = (.ok (), s') ∧
      ((s'.err = none ∧ ∃ ra h, lastHandler (s'.frames[s'.curFrame]!) = some h ∧ h.err = some ra ∧ s'.sp = h.sp ∧
          ((0 < h.catch_ ∧ s'.ip = h.catch_ - 1) ∨ (¬ 0 < h.catch_ ∧ 0 < h.finally_ ∧ s'.ip = h.finally_ - 1)))
       ∨ (∃ e, s'.err = some e ∧ (runFrom.finish s').1 = .error e)) := by
  obtain ⟨s', h1, h2, h3, h4⟩ := handlePanic_run msg s hv
  refine ⟨s', h1, ?_⟩
  cases he : s'.err with
  | none =>
    obtain ⟨ra, h, hh⟩ := (h4 he).2
    exact Or.inl ⟨rfl, ra, h, hh⟩
  | some e => exact Or.inr ⟨e, rfl, by simp [runFrom.finish, he]⟩

/-- well-formedness of the main function needed by the prologue of `Run`, which runs outside
    `recover` (`initLocals` slices `vm.stack[:NumLocals]` and indexes `locals[NumParams-1]`);
    the compiler guarantees `NumLocals ≤ 256` and `NumParams ≤ NumLocals`. -/
abbrev MainWF := UgoVerif.Proofs.VM.MainWF

/-- **Run_no_panic.** With the recovery switch on, from any `VInv` state (a new VM or one that
    ran anything before), for all bytecode, fuel, globals and arguments, `Run` never lets a Go
    panic escape: the outcome is a value, an error, or one of the two model outcomes
    (`unsupported`, `outOfFuel`) — never `goPanic`. -/
theorem Run_no_panic (F : FloatOps) (fuel : Nat) (g : V) (args : List V) (s : State)
    (hnp : s.noPanic = true) (hv : VInv s) (hwf : MainWF s) :
    ∀ m, (runFrom F fuel g args s).1 ≠ .goPanic m := by
  have hp := prologue_run true g args s hv hwf hnp
  unfold runFrom
  rcases hr : (prologue g args).run.run s with ⟨(e | u), s'⟩
  · have := hp.2 e s' hr
    cases e with
    | panic m => exact absurd rfl (this.2.2 m)
    | unsupported m => intro m'; simp
  · exact (go_ok true F fuel fuel s' (hp.1 u s' hr)).2.2 rfl

/-- **reusable.** Whatever happened (value, error, recovered or — with recovery off — escaped
    panic, budget exhausted), the state `Run` leaves satisfies `VInv` again and keeps the recovery
    switch, so the hypotheses of `Run_no_panic` hold for the next `Run` on the same VM. -/
theorem reusable (F : FloatOps) (fuel : Nat) (g : V) (args : List V) (s : State)
    (hv : VInv s) (hwf : MainWF s) :
    VInv (runFrom F fuel g args s).2 ∧ (runFrom F fuel g args s).2.noPanic = s.noPanic := by
  have hp := prologue_run s.noPanic g args s hv hwf rfl
  unfold runFrom
  rcases hr : (prologue g args).run.run s with ⟨(e | u), s'⟩
  · have := hp.2 e s' hr
    cases e with
    | panic m => exact absurd rfl (this.2.2 m)
    | unsupported m => exact ⟨this.1, this.2.1⟩
  · have := go_ok s.noPanic F fuel fuel s' (hp.1 u s' hr)
    exact ⟨this.1, this.2.1⟩

/-! ### non-vacuity -/

/-- a new VM satisfies `VInv` -/
theorem newState_VInv (codes : Array Code) (heap : Array Cell) (consts : Array V) (mainFn : Addr) (nm : Nat) :
    VInv (newState codes heap consts mainFn nm) := by
  refine ⟨by simp [newState, emptyFrames], by simp [newState], by simp [newState, frameSize], ?_⟩
  intro i h
  have : (newState codes heap consts mainFn nm).frames[i] = ({} : Frame) := by
    simp [newState, emptyFrames]
  rw [this]
  exact frameOK_noHandlers rfl

/-- the bytecode `POP` as main function with no locals: the very first instruction panics
    (`vm.sp--; vm.stack[-1] = nil`) -/
def popMain : State :=
  { newState #[{ insts := #[22], numParams := 0, numLocals := 0, variadic := false }] #[.fn 0 none] #[] 0 0 with
    noPanic := true }

theorem popMain_VInv : VInv popMain :=
  newState_VInv #[{ insts := #[22], numParams := 0, numLocals := 0, variadic := false }] #[.fn 0 none] #[] 0 0

theorem popMain_WF : MainWF popMain := by
  intro c free h
  simp [popMain, newState] at h
  obtain ⟨h1, _⟩ := h; subst h1
  simp [popMain, newState, stackSize]

/-- the hypotheses of `Run_no_panic` are satisfiable (and this script does panic inside `loop`) -/
example : popMain.noPanic = true ∧ VInv popMain ∧ MainWF popMain := ⟨rfl, popMain_VInv, popMain_WF⟩

example (F : FloatOps) : ∀ m, (runFrom F 10 .nil [] popMain).1 ≠ .goPanic m :=
  Run_no_panic F 10 .nil [] popMain rfl popMain_VInv popMain_WF

end UgoVerif.Props.C06
