import Lean
/-
  `#audit_ns Foo.Bar` prints, for every theorem in namespace `Foo.Bar`, one line
     AUDIT <name> AXIOMS <comma separated axiom names>
  so that bin/check can verify that each property theorem depends only on
  propext / Classical.choice / Quot.sound.
-/
open Lean Elab Command

elab "#audit_ns " ns:ident : command => do
  let env ← getEnv
  let pfx := ns.getId
  let mut names : Array Name := #[]
  for (n, ci) in env.constants.toList do
    let last := match n with | .str _ s => s | _ => ""
    let auto := last.startsWith "eq_" || last.startsWith "match_" || last.startsWith "proof_" ||
      last.startsWith "sizeOf" || last == "induct" || last.startsWith "injEq" || last.startsWith "noConfusion"
    if pfx.isPrefixOf n && !n.isInternal && !auto then
      match ci with
      | .thmInfo _ => names := names.push n
      | _ => pure ()
  let sorted := names.qsort (fun a b => a.toString < b.toString)
  for n in sorted do
    let axs ← liftCoreM <| Lean.collectAxioms n
    let axs := axs.qsort (fun a b => a.toString < b.toString)
    logInfo m!"AUDIT {n} AXIOMS {", ".intercalate (axs.toList.map toString)}"
