import UgoVerif.Go.Basic
/-
  Pure (structural) uGO values, used by the value-level properties (C15, C20,
  C04, C17, C19).  Aliasing is not observable in those properties, so containers
  are plain lists; the VM model has its own heap-based values and re-uses the
  scalar cells generated over this type's payloads.
-/
namespace UgoVerif.Go

inductive Val where
  | undefined
  | int (v : BitVec 64)
  | uint (v : BitVec 64)
  | float (v : F64)
  | char (v : BitVec 32)
  | bool (b : Bool)
  | str (s : Bytes)
  | bytes (s : Bytes)
  | array (xs : List Val)
  | map (kvs : List (Bytes × Val))        -- keys unique; order is not observable
  | opaque (tn : String) (id : Nat)       -- functions, errors, …: a type name and an identity
  deriving Repr, Inhabited

def Val.typeName : Val → String
  | .undefined => "undefined"
  | .int _ => "int"
  | .uint _ => "uint"
  | .float _ => "float"
  | .char _ => "char"
  | .bool _ => "bool"
  | .str _ => "string"
  | .bytes _ => "bytes"
  | .array _ => "array"
  | .map _ => "map"
  | .opaque tn _ => tn

/-- Operations on objects that are Go library calls (`strconv`, `fmt`): parameters. -/
structure ObjOps where
  toStr : Val → Bytes          -- Object.String()

/-- Literal nodes of the parser AST that the optimizer's folding tables look at. -/
inductive Lit where
  | int (v : BitVec 64)
  | uint (v : BitVec 64)
  | float (v : F64)
  | char (v : BitVec 32)
  | bool (b : Bool)
  | str (s : Bytes)
  | undefined
  | other
  deriving Repr, Inhabited, DecidableEq

end UgoVerif.Go
