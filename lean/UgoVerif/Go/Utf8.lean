import UgoVerif.Go.Basic
/-
  `unicode/utf8.DecodeRune` / `DecodeRuneInString` (Go library; hand model, exercised by
  the `json` stream through every escaped string).  Returns (rune, size); invalid or
  short encodings give (RuneError, 1), the empty input (RuneError, 0).
-/
namespace UgoVerif.Go

def runeError : Nat := 0xFFFD

def isCont (b : UInt8) : Bool := 0x80 ≤ b && b ≤ 0xBF

/-- `acceptRanges`: bounds of the second byte -/
def lo3 (c0 : Nat) : UInt8 := if c0 == 0xE0 then 0xA0 else 0x80
def hi3 (c0 : Nat) : UInt8 := if c0 == 0xED then 0x9F else 0xBF
def lo4 (c0 : Nat) : UInt8 := if c0 == 0xF0 then 0x90 else 0x80
def hi4 (c0 : Nat) : UInt8 := if c0 == 0xF4 then 0x8F else 0xBF

def decodeRune : Bytes → Nat × Nat
  | [] => (runeError, 0)
  | b0 :: r =>
    let c0 := b0.toNat
    if c0 < 0x80 then (c0, 1)
    else if c0 < 0xC2 then (runeError, 1)
    else if c0 < 0xE0 then
      match r with
      | b1 :: _ =>
        if isCont b1 then (((c0 &&& 0x1F) <<< 6) ||| (b1.toNat &&& 0x3F), 2) else (runeError, 1)
      | _ => (runeError, 1)
    else if c0 < 0xF0 then
      match r with
      | b1 :: b2 :: _ =>
        if lo3 c0 ≤ b1 && b1 ≤ hi3 c0 && isCont b2 then
          (((c0 &&& 0x0F) <<< 12) ||| ((b1.toNat &&& 0x3F) <<< 6) ||| (b2.toNat &&& 0x3F), 3)
        else (runeError, 1)
      | _ => (runeError, 1)
    else if c0 < 0xF5 then
      match r with
      | b1 :: b2 :: b3 :: _ =>
        if lo4 c0 ≤ b1 && b1 ≤ hi4 c0 && isCont b2 && isCont b3 then
          (((c0 &&& 0x07) <<< 18) ||| ((b1.toNat &&& 0x3F) <<< 12) ||| ((b2.toNat &&& 0x3F) <<< 6)
            ||| (b3.toNat &&& 0x3F), 4)
        else (runeError, 1)
      | _ => (runeError, 1)
    else (runeError, 1)

end UgoVerif.Go
