/-
  Go primitive semantics made explicit.  Core Lean only (this file is linked
  into the native driver `ugomodel`).

  * `Res α` : result of a modelled Go function: value, uGO error, or Go panic.
  * Signed/unsigned fixed-width integer operations on `BitVec w` following the
    Go specification (wrap-around, truncated division, shift rules, and the
    run-time panics for `/ %` by zero and negative shift counts).
  * IEEE-754 binary64 comparison defined on bit patterns; float arithmetic is a
    parameter (`FloatOps`) over which every theorem is universally quantified.
-/
namespace UgoVerif.Go

/-- Byte strings: Go `string` and `[]byte` are byte sequences. -/
abbrev Bytes := List UInt8

/-- uGO error kinds that operators can raise (Name of the `*Error`). -/
inductive Err where
  | zeroDivision
  | operandType (tok : String) (left right : String)   -- TypeError: unsupported operand types
  | typeErr (msg : String)
  | invalidOperator (msg : String)
  | other (name msg : String)
  deriving Repr, DecidableEq, Inhabited

inductive Res (α : Type) where
  | ok (a : α)
  | err (e : Err)
  | panic (msg : String)
  deriving Repr, DecidableEq, Inhabited

namespace Res
@[inline] def bind {α β} (x : Res α) (f : α → Res β) : Res β :=
  match x with
  | .ok a => f a
  | .err e => .err e
  | .panic m => .panic m
instance : Monad Res where
  pure := .ok
  bind := bind
def isPanic {α} : Res α → Bool
  | .panic _ => true
  | _ => false
def isOk {α} : Res α → Bool
  | .ok _ => true
  | _ => false
@[simp] theorem bind_ok {α β} (a : α) (f : α → Res β) : (Res.ok a >>= f) = f a := rfl
@[simp] theorem bind_err {α β} (e : Err) (f : α → Res β) : (Res.err e >>= f) = Res.err e := rfl
@[simp] theorem bind_panic {α β} (m : String) (f : α → Res β) : (Res.panic m >>= f) = Res.panic m := rfl
@[simp] theorem pure_eq {α} (a : α) : (pure a : Res α) = .ok a := rfl
end Res

/-- Binary/unary operator tokens of package `token` that reach `BinaryOp`/`xOpUnary`. -/
inductive Tok where
  | Add | Sub | Mul | Quo | Rem | And | Or | Xor | Shl | Shr | AndNot
  | Less | Greater | LessEq | GreaterEq | Equal | NotEqual | Not | LAnd | LOr
  | Other (n : Nat)
  deriving Repr, DecidableEq, Inhabited

def Tok.str : Tok → String
  | .Add => "+" | .Sub => "-" | .Mul => "*" | .Quo => "/" | .Rem => "%"
  | .And => "&" | .Or => "|" | .Xor => "^" | .Shl => "<<" | .Shr => ">>"
  | .AndNot => "&^" | .Less => "<" | .Greater => ">" | .LessEq => "<="
  | .GreaterEq => ">=" | .Equal => "==" | .NotEqual => "!=" | .Not => "!"
  | .LAnd => "&&" | .LOr => "||" | .Other n => s!"tok{n}"

/-! ### integers -/

section ints
variable {w : Nat}

/-- Go `a / b` on signed integers: truncated; panics when `b = 0`. -/
def quoS (a b : BitVec w) : Res (BitVec w) :=
  if b == 0#w then .panic "runtime error: integer divide by zero" else .ok (BitVec.sdiv a b)
/-- Go `a % b` on signed integers; panics when `b = 0`. -/
def remS (a b : BitVec w) : Res (BitVec w) :=
  if b == 0#w then .panic "runtime error: integer divide by zero" else .ok (BitVec.srem a b)
def quoU (a b : BitVec w) : Res (BitVec w) :=
  if b == 0#w then .panic "runtime error: integer divide by zero" else .ok (BitVec.udiv a b)
def remU (a b : BitVec w) : Res (BitVec w) :=
  if b == 0#w then .panic "runtime error: integer divide by zero" else .ok (BitVec.umod a b)

/-- `a << n`, unsigned count: counts ≥ width give 0 (BitVec.shiftLeft already does). -/
def shlN (a : BitVec w) (n : Nat) : BitVec w := if n ≥ w then 0#w else a <<< n
def shrN (a : BitVec w) (n : Nat) : BitVec w := if n ≥ w then 0#w else a >>> n
/-- arithmetic shift right; counts ≥ width fill with the sign bit -/
def sshrN (a : BitVec w) (n : Nat) : BitVec w :=
  if n ≥ w then (if a.msb then BitVec.allOnes w else 0#w) else BitVec.sshiftRight a n
def shlU (a n : BitVec w) : BitVec w := shlN a n.toNat
/-- `a >> n` on an unsigned value, unsigned count. -/
def shrUU (a n : BitVec w) : BitVec w := shrN a n.toNat
/-- `a >> n` on a signed value, unsigned count (arithmetic). -/
def shrSU (a n : BitVec w) : BitVec w := sshrN a n.toNat

/-- `a << n` with a *signed* count: Go panics when `n < 0`. -/
def shlS (a n : BitVec w) : Res (BitVec w) :=
  if n.msb then .panic "runtime error: negative shift amount" else .ok (shlN a n.toNat)
/-- `a >> n`, signed value and signed count. -/
def shrSS (a n : BitVec w) : Res (BitVec w) :=
  if n.msb then .panic "runtime error: negative shift amount" else .ok (sshrN a n.toNat)
end ints

/-! ### IEEE-754 binary64 on bit patterns -/

abbrev F64 := BitVec 64

def F64.isNaN (x : F64) : Bool :=
  (x &&& 0x7FF0000000000000#64) == 0x7FF0000000000000#64 && (x &&& 0x000FFFFFFFFFFFFF#64) != 0#64
def F64.isZero (x : F64) : Bool := (x &&& 0x7FFFFFFFFFFFFFFF#64) == 0#64
/-- total-order key for non-NaN values: negative values are reflected so that the
    integer order on keys is the IEEE order (−0 and +0 share key 0). -/
def F64.key (x : F64) : Int :=
  let mag : Int := (x &&& 0x7FFFFFFFFFFFFFFF#64).toNat
  if x.msb then -mag else mag
def feq (a b : F64) : Bool := !a.isNaN && !b.isNaN && a.key == b.key
def flt (a b : F64) : Bool := !a.isNaN && !b.isNaN && decide (a.key < b.key)
def fle (a b : F64) : Bool := !a.isNaN && !b.isNaN && decide (a.key ≤ b.key)

/-- Float arithmetic and conversions: a parameter.  Theorems quantify over every
    instance; the driver instantiates it with the hardware operations. -/
structure FloatOps where
  add : F64 → F64 → F64
  sub : F64 → F64 → F64
  mul : F64 → F64 → F64
  div : F64 → F64 → F64
  neg : F64 → F64
  ofInt : BitVec 64 → F64      -- float64(int64)
  ofUint : BitVec 64 → F64     -- float64(uint64)

/-! ### byte strings -/

def bytesCompare : Bytes → Bytes → Int
  | [], [] => 0
  | [], _ :: _ => -1
  | _ :: _, [] => 1
  | a :: as, b :: bs => if a < b then -1 else if b < a then 1 else bytesCompare as bs

def bytesLt (a b : Bytes) : Bool := bytesCompare a b == -1
def bytesLe (a b : Bytes) : Bool := bytesCompare a b != 1

/-- `utf8.AppendRune` / `strings.Builder.WriteRune` / `string(rune)`: invalid code
    points encode as U+FFFD. -/
def utf8EncodeRune (r : BitVec 32) : Bytes :=
  let n := r.toNat
  let b (x : Nat) : UInt8 := UInt8.ofNat x
  if r.msb then [0xEF, 0xBF, 0xBD]
  else if n < 0x80 then [b n]
  else if n < 0x800 then [b (0xC0 ||| (n >>> 6)), b (0x80 ||| (n &&& 0x3F))]
  else if 0xD800 ≤ n && n ≤ 0xDFFF then [0xEF, 0xBF, 0xBD]
  else if n < 0x10000 then
    [b (0xE0 ||| (n >>> 12)), b (0x80 ||| ((n >>> 6) &&& 0x3F)), b (0x80 ||| (n &&& 0x3F))]
  else if n ≤ 0x10FFFF then
    [b (0xF0 ||| (n >>> 18)), b (0x80 ||| ((n >>> 12) &&& 0x3F)),
     b (0x80 ||| ((n >>> 6) &&& 0x3F)), b (0x80 ||| (n &&& 0x3F))]
  else [0xEF, 0xBF, 0xBD]

end UgoVerif.Go

namespace UgoVerif.Go
/-- the guarded shifts are the BitVec shifts (the guard only keeps the executable
    definition from building astronomically large naturals) -/
theorem shlN_eq {w} (a : BitVec w) (n : Nat) : shlN a n = a <<< n := by
  unfold shlN; split
  · rename_i h; exact (BitVec.shiftLeft_eq_zero h).symm
  · rfl
theorem shrN_eq {w} (a : BitVec w) (n : Nat) : shrN a n = a >>> n := by
  unfold shrN; split
  · rename_i h; exact (BitVec.ushiftRight_eq_zero h).symm
  · rfl
end UgoVerif.Go
