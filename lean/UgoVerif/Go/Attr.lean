import Lean.Meta.Tactic.Simp.RegisterCommand
/- simp sets for regenerated definitions, so that proofs do not name individual cells -/
register_simp_attr ugo_cells
