import UgoVerif.Go.Basic
/-
  Values on both sides of the Go boundary (C20): `Obj` is a uGO `Object` as the
  conversion functions of ugo.go see it, `GoVal` is a Go `any`.  Core Lean only.

  Unlike `Go.Val` (which identifies nil and empty containers because uGO scripts
  cannot tell them apart) these types keep the distinctions the conversions can
  observe: nil vs empty `[]byte` / `[]any` / `map[string]any` / `[]Object` /
  `map[string]Object`, typed nil pointers of the registry types, every Go integer
  and float width.  Go maps are association lists (keys unique; order is not
  observable).  `int`, `uint`, `uintptr` are 64 bits wide (64-bit targets).
-/
namespace UgoVerif.Go

/-- a uGO `Object` (dynamic type and payload) -/
inductive Obj where
  | goNil                                    -- the nil `Object` interface value
  | undefined                                -- `Undefined` (*UndefinedType)
  | int (v : BitVec 64)
  | uint (v : BitVec 64)
  | float (v : F64)
  | char (v : BitVec 32)
  | bool (b : Bool)
  | str (s : Bytes)
  | bytesNil                                 -- `Bytes(nil)`
  | bytes (s : Bytes)                        -- non-nil `Bytes`
  | array (xs : List Obj)
  | map (kvs : List (Bytes × Obj))
  | syncMapNil                               -- `(*SyncMap)(nil)`
  | syncMap (kvs : List (Bytes × Obj))
  | func (id : Nat)                          -- `&Function{Value: f}`, f = Go func #id
  | error (msg : Bytes) (id : Nat)           -- `&Error{Message: msg, Cause: e}`, e = Go error #id
  | timeNil                                  -- stdlib/time `(*Time)(nil)`
  | time (t : Nat)                           -- `&Time{Value: t}`
  | locationNil                              -- stdlib/time `(*Location)(nil)`
  | location (l : Option Nat)                -- `&Location{Value: l}` (l may be a nil *time.Location)
  | rawMessageNil                            -- stdlib/json `(*RawMessage)(nil)`
  | rawMessage (b : Option Bytes)            -- `&RawMessage{Value: b}` (b may be nil Bytes)
  | scanArgNil                               -- stdlib/fmt `(*scanArg)(nil)`
  | scanArg (arg : Option (String × Nat))    -- `&scanArg{argValue: …}`: Arg() is a Go pointer (type name, identity)
  | other (tn : String) (id : Nat)           -- any other Object implementation
  deriving Repr, Inhabited

/-- a Go `any` -/
inductive GoVal where
  | nil
  | int64 (v : BitVec 64)
  | int (v : BitVec 64)
  | int32 (v : BitVec 32)                    -- = rune
  | int16 (v : BitVec 16)
  | int8 (v : BitVec 8)
  | uint64 (v : BitVec 64)
  | uint (v : BitVec 64)
  | uintptr (v : BitVec 64)
  | uint32 (v : BitVec 32)
  | uint16 (v : BitVec 16)
  | uint8 (v : BitVec 8)                     -- = byte
  | float64 (v : F64)
  | float32 (v : BitVec 32)
  | bool (b : Bool)
  | string (s : Bytes)
  | bytesNil
  | bytes (s : Bytes)                        -- non-nil []byte
  | sliceNil
  | slice (xs : List GoVal)                  -- non-nil []any
  | mapNil
  | map (kvs : List (Bytes × GoVal))         -- non-nil map[string]any
  | objSliceNil
  | objSlice (xs : List Obj)                 -- []Object
  | objMapNil
  | objMap (kvs : List (Bytes × Obj))        -- map[string]Object
  | object (o : Obj)                         -- a non-nil interface holding an Object
  | callableNil
  | callable (id : Nat)                      -- CallableFunc
  | errorNilPtr (tn : String)                -- an `error` holding a nil pointer of type tn (not an Object)
  | error (msg : Bytes) (id : Nat)           -- any other `error` that is not an Object; msg = v.Error()
  | duration (v : BitVec 64)                 -- time.Duration
  | time (t : Nat)                           -- time.Time
  | timePtrNil
  | timePtr (t : Nat)                        -- *time.Time
  | locPtrNil
  | locPtr (l : Nat)                         -- *time.Location
  | rawNil
  | raw (s : Bytes)                          -- encoding/json.RawMessage
  | ptr (tn : String) (id : Nat)             -- pointer to a basic Go value (scanArg.Arg())
  | unsupported (tn : String)                -- any other Go type; tn = fmt's %T
  deriving Repr, Inhabited

/-- `%T` -/
def GoVal.typeName : GoVal → String
  | .nil => "<nil>"
  | .int64 _ => "int64" | .int _ => "int" | .int32 _ => "int32" | .int16 _ => "int16" | .int8 _ => "int8"
  | .uint64 _ => "uint64" | .uint _ => "uint" | .uintptr _ => "uintptr" | .uint32 _ => "uint32"
  | .uint16 _ => "uint16" | .uint8 _ => "uint8"
  | .float64 _ => "float64" | .float32 _ => "float32" | .bool _ => "bool" | .string _ => "string"
  | .bytesNil | .bytes _ => "[]uint8"
  | .sliceNil | .slice _ => "[]interface {}"
  | .mapNil | .map _ => "map[string]interface {}"
  | .objSliceNil | .objSlice _ => "[]ugo.Object"
  | .objMapNil | .objMap _ => "map[string]ugo.Object"
  | .object _ => "ugo.Object"
  | .callableNil | .callable _ => "func(...ugo.Object) (ugo.Object, error)"
  | .errorNilPtr tn => tn
  | .error _ _ => "error"
  | .duration _ => "time.Duration" | .time _ => "time.Time"
  | .timePtrNil | .timePtr _ => "*time.Time"
  | .locPtrNil | .locPtr _ => "*time.Location"
  | .rawNil | .raw _ => "json.RawMessage"
  | .ptr tn _ => tn
  | .unsupported tn => tn

/-- Conversions that are Go library / hardware operations: parameters. -/
structure ConvOps where
  f32to64 : BitVec 32 → F64       -- float64(float32): exact by the Go specification

/-- One converter registered with package `registry` (regenerated table `Gen/ConvReg`). -/
structure RegEntry where
  dir : String        -- "obj": RegisterObjectConverter (ToObject), "any": RegisterAnyConverter (ToInterface)
  ty : String         -- the registered Go type
  isPtr : Bool        -- it is a pointer type
  nilSafe : Bool      -- every dereference of the asserted pointer is behind a nil guard
  deriving Repr, DecidableEq, Inhabited

end UgoVerif.Go
