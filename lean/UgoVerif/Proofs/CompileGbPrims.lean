import UgoVerif.Proofs.CompileGbInv
/-
  C13 over the compiler model: the block / loop / function combinators and every non-recursive
  compile function keep the GETBUILTIN invariant (`GB.Inv`).  Counterpart of
  `Proofs/CompilePrims.lean` (builder-c05) for the judgment of `Proofs/CompileGbInv.lean`.
  The two places that emit GETBUILTIN are `good_compileIdent` (operand = index of the BUILTIN-scope
  symbol `Resolve` returned: acceptable by `goodP_resolve`) and `good_compileAssign` (`:makeArray`).
-/
namespace UgoVerif.Compile.GB
open UgoVerif UgoVerif.Go UgoVerif.Ast UgoVerif.Compile

variable {c : Ctx}

theorem tablesOK_cons {t : Table} {ts : List Table} (ht : StoreOK c t.store) (h : TablesOK c ts) : TablesOK c (t :: ts) := by
  intro t' ht'
  simp at ht'
  rcases ht' with ht' | ht'
  · subst ht'; exact ht
  · exact h t' ht'

theorem tablesOK_tail {t : Table} {ts : List Table} (h : TablesOK c (t :: ts)) : TablesOK c ts :=
  fun t' ht' => h t' (by simp [ht'])

theorem storeOK_nil : StoreOK c [] := fun _ h => by simp at h

theorem TabsInv.cons {t : Table} {ts : List Table} (h : TabsInv c ts) (ht : StoreOK c t.store) : TabsInv c (t :: ts) :=
  ⟨by simp, tablesOK_cons ht h.ok, fun n hn => by rw [rootDisabled_cons_ne h.ne]; exact h.dis n hn⟩

theorem TabsInv.tail {t : Table} {ts : List Table} (h : TabsInv c (t :: ts)) (hne : ts ≠ []) : TabsInv c ts :=
  ⟨hne, tablesOK_tail h.ok, fun n hn => by have := h.dis n hn; rwa [rootDisabled_cons_ne hne] at this⟩

/-- replacing the head table by one with an acceptable store and the same disabled set -/
theorem TabsInv.head {t t' : Table} {r : List Table} (h : TabsInv c (t :: r)) (ht : StoreOK c t'.store)
    (hd : t'.disabled = t.disabled) : TabsInv c (t' :: r) :=
  ⟨by simp, tablesOK_cons ht (tablesOK_tail h.ok), fun n hn => by rw [rootDisabled_head r hd]; exact h.dis n hn⟩

theorem exists_cons_of_ne {ts : List Table} (h : ts ≠ []) : ∃ t r, ts = t :: r := by
  cases ts with
  | nil => exact absurd rfl h
  | cons t r => exact ⟨t, r, rfl⟩

theorem runCM_headTable {s : CState} {t : Table} {r : List Table} (h : s.tables = t :: r) :
    runCM headTable s = (.ok t, s) := by
  unfold headTable
  rw [runCM_bind, runCM_get]
  simp only [h]
  rfl

theorem runCM_forkTable {s : CState} {t : Table} {r : List Table} (block : Bool) (h : s.tables = t :: r) :
    runCM (forkTable block) s = (.ok (), { s with tables :=
      { block := block, disableParams := t.disableParams, hasParentConstLit := t.hasConstLit || t.hasParentConstLit } :: s.tables }) := by
  unfold forkTable
  rw [runCM_bind, runCM_headTable h]
  rfl

theorem runCM_popTable {s : CState} {t : Table} {r : List Table} (h : s.tables = t :: r) :
    runCM popTable s = (.ok t, { s with tables := r }) := by
  unfold popTable
  rw [runCM_bind, runCM_headTable h]
  simp only
  rw [runCM_bind]
  unfold modTables
  rw [runCM_modify]
  simp [h, runCM_pure]

/-- `Fork(true)` … `Parent(false)`: the forked block scope is governed by the same root -/
theorem good_withBlock {body : CM Unit} (hb : Good c body) : Good c (withBlock body) := by
  intro s hs
  obtain ⟨t, r, htr⟩ := exists_cons_of_ne hs.ne
  unfold withBlock
  apply Sat.bind_of_run (runCM_forkTable true htr)
  generalize hs1 : ({ s with tables := _ :: s.tables } : CState) = s1
  have hi1 : Inv c s1 := by
    subst hs1
    exact hs.of_tables (hs.tinv.cons storeOK_nil) rfl rfl rfl
  have ht1 : s1.tables.length = s.tables.length + 1 := by subst hs1; simp
  have hin1 : s1.insts = s.insts := by subst hs1; rfl
  have hl1 : s1.loops = s.loops := by subst hs1; rfl
  apply Sat.bind
  apply Sat.mono (hb s1 hi1)
  intro _ s2 ⟨hi2, hr2, _⟩
  obtain ⟨t2, r2, htr2⟩ := exists_cons_of_ne hi2.ne
  apply Sat.bind_of_run (runCM_popTable htr2)
  apply Sat.pure
  have hlen : r2.length = s.tables.length := by
    have := hr2.tlen
    rw [htr2, ht1] at this
    simpa using this
  refine ⟨hi2.of_tables ?_ rfl rfl rfl, hr2.transfer hin1 hl1 rfl rfl hlen, trivial⟩
  have := hi2.tinv
  rw [htr2] at this
  exact this.tail (ne_nil_of_length_eq hlen hs.ne)

theorem good_blockOf {body : List Stmt} {act : CM Unit} (h : Good c act) : Good c (blockOf body act) := by
  unfold blockOf
  split
  · exact GoodP.pure trivial
  · exact good_withBlock h

/-! ### loops -/

theorem st_withLoop_bind {β} {body : CM Unit} {f : Loop → CM β} {s0 s : CState} {ps : List Nat}
    {Q : β → CState → Prop} (hb : Good c body) (hst : St c s0 ps s)
    (h : ∀ loop s', St c s0 (loop.breaks ++ loop.continues ++ ps) s' → Sat c (f loop) s' Q) :
    Sat c (withLoop body >>= f) s Q := by
  apply Sat.bind
  unfold withLoop pushLoop
  apply Sat.bind
  apply Sat.modify
  generalize hs1 : ({ s with loops := { lastTryCatchIndex := s.tryCatchIndex } :: s.loops } : CState) = s1
  have hi1 : Inv c s1 := by
    subst hs1
    refine ⟨hst.inv.ne, hst.inv.bs, hst.inv.tabs, hst.inv.dis, hst.inv.walk, ?_, hst.inv.consts, hst.inv.gb⟩
    intro l hl p hp
    simp at hl
    rcases hl with hl | hl
    · subst hl; simp at hp
    · exact hst.inv.loops l hl p hp
  have hin1 : s1.insts = s.insts := by subst hs1; rfl
  have ht1 : s1.tables = s.tables := by subst hs1; rfl
  have hl1 : s1.loops = { lastTryCatchIndex := s.tryCatchIndex } :: s.loops := by subst hs1; rfl
  apply Sat.bind
  apply Sat.mono (hb s1 hi1)
  intro _ s2 ⟨hi2, hr2, _⟩
  unfold popLoop
  apply Sat.bind
  apply Sat.get
  apply Sat.bind
  apply Sat.set
  apply Sat.pure
  -- the loop stack after the body: the loop object on top of the old stack
  obtain ⟨l2, hl2⟩ : ∃ l2, s2.loops = l2 :: s.loops := by
    have h1 := hr2.llen
    have h2 := hr2.ltail
    rw [hl1] at h1 h2
    cases h3 : s2.loops with
    | nil => rw [h3] at h1; simp at h1
    | cons a b => rw [h3] at h2; simp at h2; exact ⟨a, by rw [h2]⟩
  simp only [hl2, List.head?_cons, Option.getD_some, List.drop_succ_cons, List.drop_zero]
  apply h
  have hsz : s.insts.size ≤ s2.insts.size := by rw [← hin1]; exact hr2.pre.1
  have hpre : Pre s.insts s2.insts := by rw [← hin1]; exact hr2.pre
  refine ⟨⟨hi2.ne, hi2.bs, hi2.tabs, hi2.dis, hi2.walk, ?_, hi2.consts, hi2.gb⟩, ?_, ?_⟩
  · intro l hl p hp
    exact hi2.loops l (by rw [hl2]; simp [hl]) p hp
  · refine ⟨by rw [← hst.rel.tlen, ← ht1]; exact hr2.tlen, hst.rel.pre.trans hpre, hst.rel.llen, hst.rel.ltail, ?_⟩
    intro l l' h1 h2 p
    have := hst.rel.lhead l l' h1 h2 p
    exact this
  · intro p hp
    simp only [List.mem_append] at hp
    have hh := hr2.lhead { lastTryCatchIndex := s.tryCatchIndex } l2 (by rw [hl1]; rfl) (by rw [hl2]; rfl) p
    have hs0 := hst.rel.pre.1
    rcases hp with (hp | hp) | hp
    · refine ⟨hi2.loops l2 (by rw [hl2]; simp) p (.inl hp), ?_⟩
      rcases hh.1 hp with h' | h'
      · simp at h'
      · rw [hin1] at h'; omega
    · refine ⟨hi2.loops l2 (by rw [hl2]; simp) p (.inr hp), ?_⟩
      rcases hh.2 hp with h' | h'
      · simp at h'
      · rw [hin1] at h'; omega
    · exact ⟨⟨(hst.pend p hp).1.1.pre hpre, (hst.pend p hp).1.2.pre hpre⟩, (hst.pend p hp).2⟩

/-! ### a small tactic for compositional goals `Good c (do …)` -/

/-- side goals `GbArgs c op args` for an opcode that is not GETBUILTIN -/
syntax "gne" : tactic
macro_rules | `(tactic| gne) => `(tactic| first
  | exact gbArgs_of_ne (by decide)
  | (split <;> exact gbArgs_of_ne (by decide)))

syntax "gb_leaf" : tactic
macro_rules | `(tactic| gb_leaf) => `(tactic| first
  | with_reducible assumption
  | with_reducible exact GoodP.pure trivial
  | with_reducible exact GoodP.cerr | with_reducible exact GoodP.throw
  | with_reducible exact GoodP.cpanic | with_reducible exact GoodP.cunsupported
  | ((with_reducible refine good_emit_ ?_) <;> gne)
  | ((with_reducible refine good_emit ?_) <;> gne)
  | with_reducible exact good_addConstant _
  | with_reducible exact good_get | with_reducible exact good_curPos
  | with_reducible exact good_currentLoop | with_reducible exact good_headTable
  | with_reducible exact (goodP_resolve _).good
  | with_reducible exact good_updateMaxDefs _
  | (with_reducible apply good_withBlock) | (with_reducible apply good_blockOf))

syntax "gb_bind" : tactic
macro_rules | `(tactic| gb_bind) => `(tactic| (refine GoodP.bind (P := fun _ => True) ?_ (fun _ _ => ?_)))

syntax "gb" : tactic
macro_rules | `(tactic| gb) => `(tactic| repeat' (first | gb_leaf | gb_bind | split))

theorem good_emitConstant (pos : Pos) (v : CVal) : Good c (emitConstant pos v) := by
  unfold emitConstant; gb

macro_rules | `(tactic| gb_leaf) => `(tactic| with_reducible exact good_emitConstant _ _)

/-- `emitFnConstant` for a function whose GETBUILTIN operands are acceptable -/
theorem sat_emitFnConstant {pos : Pos} {fn : CFn} {nfree : Nat} {s : CState} (hs : Inv c s)
    (hf : GbOK c fn.insts) :
    Sat c (emitFnConstant pos fn nfree) s (fun _ s' => Inv c s' ∧ Rel s s' ∧ True) := by
  unfold emitFnConstant
  apply Sat.bind
  apply sat_addFnConstant hs hf
  intro i s1 hi1 hr1 _
  split
  · apply Sat.mono (good_emit_ (gbArgs_of_ne (by decide)) s1 hi1)
    intro _ s2 ⟨hi2, hr2, _⟩
    exact ⟨hi2, hr1.trans hr2, trivial⟩
  · apply Sat.mono (good_emit_ (gbArgs_of_ne (by decide)) s1 hi1)
    intro _ s2 ⟨hi2, hr2, _⟩
    exact ⟨hi2, hr1.trans hr2, trivial⟩

theorem good_findSymbolSelf (name : String) : Good c (findSymbolSelf name) := by
  unfold findSymbolSelf; gb

theorem good_hasAnyConstLit : Good c hasAnyConstLit := by
  unfold hasAnyConstLit; gb

theorem good_defineLocal (name : String) : Good c (defineLocal name) := by
  unfold defineLocal
  gb
  exact good_modHead (fun t ht => by simpa using putSym_ok (symOK_of_ne (by simp)) ht) (fun t => by simp)

theorem good_setParamsLoop (pos : Pos) : ∀ (ps : List String) (k : Nat), Good c (setParamsLoop pos ps k)
  | [], _ => by unfold setParamsLoop; gb
  | p :: r, k => by
    have := good_setParamsLoop pos r (k + 1)
    have hk : Good c (modHead fun t => { t with numParams := k }) := good_modHead (fun t ht => ht) (fun t => rfl)
    unfold setParamsLoop
    gb
    exact good_modHead (fun t ht => by simpa using putSym_ok (symOK_of_ne (by simp)) ht) (fun t => by simp)

theorem good_setParams (pos : Pos) (ps : List String) : Good c (setParams pos ps) := by
  have := good_setParamsLoop (c := c) pos ps 0
  unfold setParams
  gb
  exact good_modHead (fun t ht => ht) (fun t => rfl)

theorem good_defineConstLitSym (name : String) (v : Option CVal) : Good c (defineConstLitSym name v) := by
  unfold defineConstLitSym
  gb
  exact good_modHead (fun t ht => by
    simpa using putSym_ok (y := { name := name, index := -1, scope := .constLit, constant := true, constLit := v })
      (symOK_of_ne (by simp)) ht) (fun t => by simp)

macro_rules | `(tactic| gb_leaf) => `(tactic| first
  | with_reducible exact good_defineConstLitSym _ _
  | with_reducible exact good_findSymbolSelf _
  | with_reducible exact good_hasAnyConstLit)

theorem good_defineConstLit (name : String) (v : VSum) : Good c (defineConstLit name v) := by
  unfold defineConstLit
  gb

theorem lookupSym_putSym_self (n : String) (y : Symbol) : ∀ st : List (String × Symbol), lookupSym n (putSym n y st) = some y
  | [] => by simp [putSym, lookupSym]
  | (k, v) :: r => by
    simp only [putSym]
    split
    · simp [lookupSym]
    · rename_i h
      simp only [lookupSym, h]
      exact lookupSym_putSym_self n y r

theorem runCM_modTables (g : List Table → List Table) (s : CState) :
    runCM (modTables g) s = (.ok (), { s with tables := g s.tables }) := rfl

theorem runCM_modHead (f : Table → Table) {s : CState} {t : Table} {r : List Table} (h : s.tables = t :: r) :
    runCM (modHead f) s = (.ok (), { s with tables := f t :: r }) := by
  unfold modHead
  rw [runCM_modTables, h]

/-- `updateSym` when the symbol under `name` in the head table is known -/
theorem sat_updateSym_at {name : String} {f : Symbol → Symbol} {s : CState} {t : Table} {r : List Table} {sym : Symbol}
    {Q : Unit → CState → Prop} (hs : Inv c s) (htr : s.tables = t :: r) (hl : lookupSym name t.store = some sym)
    (hf : SymOK c (f sym)) (h : ∀ s', Inv c s' → Rel s s' → Q () s') : Sat c (updateSym name f) s Q := by
  unfold updateSym
  apply Sat.of_run (runCM_modHead _ htr)
  simp only [hl]
  have hti := hs.tinv
  rw [htr] at hti
  apply h
  · exact hs.of_tables (hti.head (t' := { t with store := putSym name (f sym) t.store })
      (putSym_ok hf (hs.tabs t (by simp [htr]))) rfl) rfl rfl rfl
  · exact Rel.of_same (by simp [htr]) rfl rfl

theorem good_compileDefine (pos : Pos) (ident : String) (allow : Bool) (keyword : Nat) :
    Good c (compileDefine pos ident allow keyword) := by
  have := good_defineLocal (c := c) ident
  have : Good c (updateSym ident fun y => { y with constant := keyword == tConst && ident != "_" }) :=
    good_updateSym fun y hy hb => hy hb
  unfold compileDefine
  gb

theorem good_compileAssignSym (pos : Pos) (sym : Symbol) (ident : String) : Good c (compileAssignSym pos sym ident) := by
  unfold compileAssignSym; gb

theorem good_emitConstLit (pos : Pos) (v : CVal) : Good c (emitConstLit pos v) := by
  unfold emitConstLit; gb

/-- **compileIdent**: the only GETBUILTIN a script can ask for.  The operand is the index of the
    symbol `Resolve` returned in scope BUILTIN, which is acceptable (`goodP_resolve`). -/
theorem good_compileIdent (pos : Pos) (name : String) : Good c (compileIdent pos name) := by
  unfold compileIdent
  refine GoodP.bind (goodP_resolve name) fun r hr => ?_
  split
  · gb
  · rename_i sym
    have hok := hr sym rfl
    have hcl := good_emitConstLit (c := c) pos
    split
    · gb
    · gb
    · rename_i hsc
      obtain ⟨i, hi, hoki⟩ := hok hsc
      exact good_emit_ (fun _ => ⟨i, by rw [hi], .inr hoki⟩)
    · gb
    · split
      · split
        · exact hcl _
        · gb
      · gb

theorem good_compileValueIdent (pos : Pos) (tok : Nat) (name : String) {act : CM Unit} (ha : Good c act) (sum : VSum) :
    Good c (compileValueIdent pos tok name act sum) := by
  have := good_defineConstLit (c := c) name sum
  have := good_compileDefine (c := c) pos name false tok
  unfold compileValueIdent
  gb

theorem good_compileIdentsNoValue (pos : Pos) (tok : Nat) {last : Option (CM Unit × VSum)}
    (hl : ∀ x, last = some x → Good c x.1) : ∀ ids : List (Pos × String), Good c (compileIdentsNoValue pos tok last ids)
  | [] => by unfold compileIdentsNoValue; gb
  | (ipos, name) :: rest => by
    have := good_compileIdentsNoValue pos tok hl rest
    unfold compileIdentsNoValue
    split
    · rename_i act sum h
      refine GoodP.bind (P := fun _ => True) ?_ (fun _ _ => this)
      refine good_compileValueIdent pos tok name (hl (act, sum) ?_) sum
      split at h
      · exact h
      · cases h
    · refine GoodP.bind (P := fun _ => True) ?_ (fun _ _ => this)
      exact good_compileValueIdent pos tok name (good_emit_ (gbArgs_of_ne (by decide))) _

theorem good_declParamVariadic (pos : Pos) : ∀ l : List (Pos × String × Bool), Good c (declParamVariadic pos l)
  | [] => by unfold declParamVariadic; gb
  | (_, _, va) :: rest => by
    have := good_declParamVariadic pos rest
    have : Good c (modify (fun s : CState => { s with variadic := true }) : CM Unit) :=
      good_modify_misc (fun _ => rfl) (fun _ => rfl) (fun _ => rfl)
    unfold declParamVariadic
    gb

/-- `global` declarations: the symbol whose index is rewritten is a GLOBAL-scope symbol -/
theorem good_declGlobals (pos : Pos) : ∀ l : List (Pos × String × Bool), Good c (declGlobals pos l)
  | [] => by unfold declGlobals; gb
  | (_, name, _) :: rest => by
    have ih := good_declGlobals pos rest
    intro s hs
    obtain ⟨t, r, htr⟩ := exists_cons_of_ne hs.ne
    unfold declGlobals
    apply Sat.bind
    apply Sat.get
    apply Sat.bind_of_run (runCM_headTable htr)
    split
    · rename_i sym hl
      split
      · exact Sat.cerr hs.tinv
      · rename_i hsc
        have hg : sym.scope = .global := by simpa using hsc
        apply Sat.bind
        apply sat_addConstant hs
        intro idx s1 hi1 hr1 _ ht1
        apply Sat.bind
        apply sat_updateSym_at hi1 (ht1.trans htr) hl (symOK_of_ne (by simp [hg]))
        intro s2 hi2 hr2
        apply Sat.mono (ih s2 hi2)
        intro _ s3 ⟨hi3, hr3, _⟩
        exact ⟨hi3, hr1.trans (hr2.trans hr3), trivial⟩
    · apply Sat.bind_of_run (runCM_modHead _ htr)
      generalize ht1 : shadowBuiltin s.builtins name
        { t with store := putSym name { name := name, index := -1, scope := .global } t.store } = t1
      have hst1 : t1.store = putSym name { name := name, index := -1, scope := .global } t.store := by subst ht1; simp
      have hd1 : t1.disabled = t.disabled := by subst ht1; simp
      have hti := hs.tinv
      rw [htr] at hti
      have hi1 : Inv c { s with tables := t1 :: r } :=
        hs.of_tables (hti.head (by rw [hst1]; exact putSym_ok (symOK_of_ne (by simp)) (hs.tabs t (by simp [htr]))) hd1)
          rfl rfl rfl
      have hr1 : Rel s { s with tables := t1 :: r } := Rel.of_same (by simp [htr]) rfl rfl
      apply Sat.bind
      apply sat_addConstant hi1
      intro idx s2 hi2 hr2 _ ht2
      apply Sat.bind
      apply sat_updateSym_at hi2 ht2 (by rw [hst1]; exact lookupSym_putSym_self _ _ _) (symOK_of_ne (by simp))
      intro s3 hi3 hr3
      apply Sat.mono (ih s3 hi3)
      intro _ s4 ⟨hi4, hr4, _⟩
      exact ⟨hi4, hr1.trans (hr2.trans (hr3.trans hr4)), trivial⟩

theorem good_emitFreePtrs (pos : Pos) : ∀ l : List Symbol, Good c (emitFreePtrs pos l)
  | [] => by unfold emitFreePtrs; gb
  | y :: r => by
    have := good_emitFreePtrs pos r
    unfold emitFreePtrs
    gb

theorem good_defineCatchIdent (pos : Pos) (name : String) : Good c (defineCatchIdent pos name) := by
  have := good_defineLocal (c := c) name
  unfold defineCatchIdent; gb

theorem good_forinVar (pos : Pos) (it : Int) {op : Nat} (ha : GbArgs c op []) (name : String) :
    Good c (forinVar pos it op name) := by
  have := good_defineLocal (c := c) name
  have : Good c (emit_ pos op) := good_emit_ ha
  unfold forinVar; gb

/-- adding a pending position to the innermost loop -/
theorem sat_modLoop_add {f : Loop → Loop} {p : Nat} {s0 s : CState} {ps : List Nat} (hst : St c s0 ps s) (hp : p ∈ ps)
    (hf : ∀ l q, (q ∈ (f l).breaks → q ∈ l.breaks ∨ q = p) ∧ (q ∈ (f l).continues → q ∈ l.continues ∨ q = p)) :
    Sat c (modLoop f) s (fun _ s' => Inv c s' ∧ Rel s0 s' ∧ True) := by
  unfold modLoop
  apply Sat.modify
  obtain ⟨hbd, hge⟩ := hst.pend p hp
  cases hl : s.loops with
  | nil =>
    simp only
    refine ⟨⟨hst.inv.ne, hst.inv.bs, hst.inv.tabs, hst.inv.dis, hst.inv.walk, fun l h => by simp at h, hst.inv.consts, hst.inv.gb⟩,
      ⟨hst.rel.tlen, hst.rel.pre, ?_, ?_, fun l0 l' _ h' => by simp at h'⟩, trivial⟩
    · have := hst.rel.llen; rw [hl] at this; simpa using this
    · have := hst.rel.ltail; rw [hl] at this; simpa using this
  | cons l r =>
    simp only [hl]
    refine ⟨⟨hst.inv.ne, hst.inv.bs, hst.inv.tabs, hst.inv.dis, hst.inv.walk, ?_, hst.inv.consts, hst.inv.gb⟩,
      ⟨hst.rel.tlen, hst.rel.pre, ?_, ?_, ?_⟩, trivial⟩
    · intro l' hl' q hq
      simp at hl'
      rcases hl' with hl' | hl'
      · subst hl'
        have hold := hst.inv.loops l (by simp [hl]) q
        rcases hq with hq | hq
        · rcases (hf l q).1 hq with h | h
          · exact hold (.inl h)
          · subst h; exact hbd
        · rcases (hf l q).2 hq with h | h
          · exact hold (.inr h)
          · subst h; exact hbd
      · exact hst.inv.loops l' (by simp [hl, hl']) q hq
    · have := hst.rel.llen; rw [hl] at this; simpa using this
    · have := hst.rel.ltail; rw [hl] at this; simpa using this
    · intro l0 l' h0 h' q
      simp at h'
      subst h'
      have := hst.rel.lhead l0 l h0 (by simp [hl]) q
      constructor
      · intro hq
        rcases (hf l q).1 hq with h | h
        · exact this.1 h
        · subst h; exact .inr hge
      · intro hq
        rcases (hf l q).2 hq with h | h
        · exact this.2 h
        · subst h; exact .inr hge

theorem good_compileBranch (pos : Pos) (tok : Nat) : Good c (compileBranch pos tok) := by
  intro s hs
  have hst := St.init hs
  unfold compileBranch
  split
  · apply st_good_bind good_currentLoop hst
    intro cl s1 _ hst
    split
    · exact Sat.cerr hst.tinv
    · apply st_good_bind good_get hst
      intro st s2 _ hst
      have hf : Good c (if (‹Loop›.lastTryCatchIndex != st.tryCatchIndex) = true then
          emit_ pos OpFinalizer [‹Loop›.lastTryCatchIndex + 1] else Pure.pure ()) := by gb
      apply st_good_bind hf hst
      intro _ s3 _ hst
      apply st_emit_bind hst (.inl rfl)
      intro s4 hst
      split
      · exact sat_modLoop_add (p := s3.insts.size) hst (by simp) (fun l q => by simp; exact fun h => .inl h)
      · exact sat_modLoop_add (p := s3.insts.size) hst (by simp) (fun l q => by simp; exact fun h => .inl h)
  · exact Sat.cerr hs.tinv

/-- `Bytecode()`: the collected function is the current stream -/
theorem goodP_finishTail (lastOp : Nat) (pend : List Nat) :
    GoodP c (fun fn => GbOK c fn.insts) (finishTail lastOp pend) := by
  intro s hs
  unfold finishTail
  have h1 : Good c (if (lastOp != OpReturn || !pend.isEmpty) = true then emit_ 0 OpReturn [0] else Pure.pure ()) := by gb
  apply Sat.bind
  apply Sat.mono (h1 s hs)
  intro _ s1 ⟨hi1, hr1, _⟩
  apply Sat.bind
  apply Sat.get
  apply Sat.bind
  apply Sat.mono (good_headTable s1 hi1)
  intro t s2 ⟨hi2, hr2, _⟩
  apply Sat.pure
  exact ⟨hi2, hr1.trans hr2, hi1.gb⟩

theorem goodP_finishFn : GoodP c (fun fn => GbOK c fn.insts) finishFn := by
  intro s hs
  unfold finishFn
  apply Sat.bind
  apply Sat.get
  split
  · exact Sat.cpanic hs.tinv
  · exact goodP_finishTail _ _ s hs

/-- `compileFuncLit`: the forked compiler (a fresh stream), `Fork(false)` (a function scope of the same
    root), `SetParams`, the body, `Bytecode()`: the compiled function has acceptable GETBUILTIN operands -/
theorem goodP_withFn (pos : Pos) (variadic : Bool) (params : List String) {body : CM Unit} (hb : Good c body) :
    GoodP c (fun r => GbOK c r.1.insts) (withFn pos variadic params body) := by
  intro s hs
  obtain ⟨t, r, htr⟩ := exists_cons_of_ne hs.ne
  unfold withFn
  unfold enterFn
  apply Sat.bind
  apply Sat.bind
  apply Sat.get
  apply Sat.bind
  apply Sat.set
  apply Sat.pure
  generalize hs3 : ({ s with insts := #[], sourceMap := [], loops := [], tryCatchIndex := -1, iotaVal := -1, variadic := variadic } : CState) = s3
  have hi3 : Inv c s3 := by
    subst hs3
    exact ⟨hs.ne, hs.bs, hs.tabs, hs.dis, Walk.refl 0, fun l hl => by simp at hl, hs.consts, gbOK_empty⟩
  have ht3 : s3.tables = s.tables := by subst hs3; rfl
  apply Sat.bind_of_run (runCM_forkTable false (ht3.trans htr))
  generalize hs1 : ({ s3 with tables := _ :: s3.tables } : CState) = s1
  have hi1 : Inv c s1 := by
    subst hs1
    exact hi3.of_tables (hi3.tinv.cons storeOK_nil) rfl rfl rfl
  have ht1 : s1.tables.length = s.tables.length + 1 := by subst hs1; simp [ht3]
  apply Sat.bind
  apply Sat.mono (good_setParams pos params s1 hi1)
  intro _ s2 ⟨hi2, hr2, _⟩
  apply Sat.bind
  apply Sat.mono (hb s2 hi2)
  intro _ s4 ⟨hi4, hr4, _⟩
  apply Sat.bind
  apply Sat.mono (goodP_finishFn s4 hi4)
  intro fn s5 ⟨hi5, hr5, hfn⟩
  obtain ⟨t5, r5, htr5⟩ := exists_cons_of_ne hi5.ne
  unfold leaveFn
  apply Sat.bind
  apply Sat.bind
  apply Sat.get
  apply Sat.bind_of_run (runCM_popTable htr5)
  apply Sat.bind
  apply Sat.get
  apply Sat.bind
  apply Sat.set
  apply Sat.pure
  apply Sat.pure
  have hlen : r5.length = s.tables.length := by
    have h5 := hr5.tlen
    have h4 := hr4.tlen
    have h2 := hr2.tlen
    rw [htr5] at h5
    simp at h5
    omega
  have hti := hi5.tinv
  rw [htr5] at hti
  have hti' := hti.tail (ne_nil_of_length_eq hlen hs.ne)
  exact ⟨⟨hti'.ne, hs.bs, hti'.ok, hti'.dis, hs.walk, hs.loops, hi5.consts, hs.gb⟩,
    Rel.of_same hlen rfl rfl, hfn⟩

/-- **destructuring**: the other GETBUILTIN, always the private `:makeArray` -/
theorem good_compileAssign (pos : Pos) (lhs : List Expr) (nrhs : Nat) {rhsAct lhs0Act defAssign0 : CM Unit}
    {destruct : Int → CM Unit} (op : Nat) (h1 : Good c rhsAct) (h2 : Good c lhs0Act) (h3 : Good c defAssign0)
    (h4 : ∀ i, Good c (destruct i)) : Good c (compileAssign pos lhs nrhs rhsAct lhs0Act defAssign0 destruct op) := by
  have := good_defineLocal (c := c) ":array"
  have : Good c (emit_ pos OpGetBuiltin [Gen.builtinMakeArray]) :=
    good_emit_ (fun _ => ⟨Gen.builtinMakeArray, rfl, .inl rfl⟩)
  unfold compileAssign
  gb
  exact h4 _

end UgoVerif.Compile.GB
