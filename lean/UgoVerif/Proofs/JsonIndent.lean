import UgoVerif.Proofs.JsonCompact2
/-
  C17: `indentBuffer` returns bytes exactly for the inputs the scanner accepts (its scanner
  trajectory is the one of `checkValid`).
-/
namespace UgoVerif.Proofs.Json
set_option linter.unusedSimpArgs false
set_option linter.unusedVariables false
open UgoVerif UgoVerif.Go UgoVerif.Spec.Json UgoVerif.Model.JsonScan UgoVerif.Gen.JsonTables

theorem indentLoop_scan (pre ind : Bytes) : ∀ (rest : Bytes) (st : IndentSt), WF st.scan →
    ∃ st', indentLoop pre ind st rest = .ok st' ∧ WF st'.scan ∧
      ((st'.scan.err = false ∧ ∃ s'' op, eof st'.scan = .ok (s'', op) ∧ op ≠ .error) ↔ resid st.scan rest = true)
  | [], st, hw => by
    refine ⟨st, rfl, hw, ?_⟩
    obtain ⟨s2, op2, he2, hr⟩ := eof_resid st.scan hw
    constructor
    · rintro ⟨_, s'', op, he, hop⟩
      rw [he] at he2; injection he2 with he2; injection he2 with _ h2; subst h2
      rw [← hr]; simpa using hop
    · intro h
      have hop : op2 ≠ .error := by rw [← hr] at h; simpa using h
      exact ⟨eof_err_false _ _ _ he2 hop, s2, op2, he2, hop⟩
  | c :: rest, st, hw => by
    obtain ⟨sc, v, e, hwsc, hop, hv⟩ := step_resid st.scan c rest hw
    unfold indentLoop
    rw [e]
    simp only []
    by_cases hve : v = .error
    · subst hve
      simp only [show (Op.error == Op.skipSpace) = false by decide, show (Op.error == Op.error) = true by decide,
        Bool.false_eq_true, if_false, if_true]
      refine ⟨_, rfl, hwsc, ?_⟩
      have herr : sc.err = true := hwsc.err.mpr (hop rfl)
      constructor
      · rintro ⟨h, _⟩; simp only [] at h; rw [herr] at h; cases h
      · intro h; rw [hv] at h; simp [resid, hop rfl] at h
    · have hve' : (v == Op.error) = false := by simpa using hve
      simp only [hve', Bool.false_eq_true, if_false]
      have key : ∀ X : IndentSt, X.scan = sc → ∃ st', indentLoop pre ind X rest = .ok st' ∧ WF st'.scan ∧
          ((st'.scan.err = false ∧ ∃ s'' op, eof st'.scan = .ok (s'', op) ∧ op ≠ .error) ↔
            resid st.scan (c :: rest) = true) := by
        intro X hX
        obtain ⟨st', e', hw', hiff⟩ := indentLoop_scan pre ind rest X (by rw [hX]; exact hwsc)
        exact ⟨st', e', hw', by rw [hv, ← hX]; exact hiff⟩
      repeat' split
      all_goals exact key _ rfl

/-- `indent` returns bytes exactly when `valid` accepts the input (any prefix and indent) -/
theorem indent_some_iff (pre ind src : Bytes) :
    (∃ out, indent pre ind src = .ok (some out)) ↔ valid src = .ok true := by
  obtain ⟨st', e', hw', hiff⟩ := indentLoop_scan pre ind src
    { scan := Scanner.new, out := [], needIndent := false, depth := 0 } wf_new
  have hval : valid src = .ok (resid Scanner.new src) := checkLoop_resid src Scanner.new wf_new
  obtain ⟨s'', op, he, _⟩ := eof_resid st'.scan hw'
  unfold indent
  simp only [e', Res.bind_ok, he]
  constructor
  · rintro ⟨out, h⟩
    by_cases hop : op = .error
    · subst hop; simp at h
    · rw [hval, hiff.mp ⟨eof_err_false _ _ _ he hop, s'', op, he, hop⟩]
  · intro h
    rw [hval] at h; injection h with h
    obtain ⟨_, s2, op2, he2, hop2⟩ := hiff.mpr h
    rw [he] at he2; injection he2 with he2; injection he2 with _ h2; subst h2
    have : (op == Op.error) = false := by simpa using hop2
    exact ⟨st'.out, by simp [this]⟩

end UgoVerif.Proofs.Json
