import UgoVerif.Proofs.VMStep
/-
  C06 helper layer 5: `loop`, the `Run` prologue, and the `run()`/recover wrapper.
-/
set_option linter.unusedSimpArgs false
set_option linter.unusedVariables false
set_option mvcgen.warning false
namespace UgoVerif.Proofs.VM
open UgoVerif UgoVerif.Go UgoVerif.VM Std.Do

/-- `loop()` returned (`some ()`) or the model's step budget ran out (`none`) -/
def LoopOk (np : Bool) (r : Option Unit) (s : State) : Prop :=
  VInv s ∧ s.noPanic = np ∧ (r = some () → s.err = none → 1 ≤ s.sp)

theorem loopF_spec (np : Bool) (F : FloatOps) (fuel : Nat) :
    ⦃fun s => ⌜StepPre np s⌝⦄ loopF F fuel ⦃post⟨fun r s => ⌜LoopOk np r s⌝, fun _ s => ⌜StepExc np s⌝⟩⦄ := by
  induction fuel with
  | zero =>
    apply triple_of_fixed'; intro s0 hpre
    unfold loopF
    mvcgen
    subst_vars; rw [wrap_iff]
    exact ⟨hpre.1.1, hpre.2.2, by simp⟩
  | succ fuel ih =>
    apply triple_of_fixed'; intro s0 hpre
    have st := step_ok np F
    unfold loopF
    mvcgen [getS, modS, st, ih]
    all_goals subst_vars
    all_goals (try simp only [wrap_iff, LoopOk, StepOk, StepExc, StepPre, VInvB] at *)
    all_goals (try split_ands)
    all_goals (try (simp_all +zetaDelta; done))
    all_goals (simp only [VInv] at *; simp_all +zetaDelta)

/-! ### the prologue of `Run` (outside `recover`) -/

/-- well-formedness of the main function, as the compiler guarantees it (`NumLocals ≤ 256`,
    `NumParams ≤ NumLocals`): `initLocals` slices `vm.stack[:NumLocals]` and indexes
    `locals[NumParams-1]` outside `recover` -/
def MainWF (s : State) : Prop :=
  ∀ c free, s.heap[s.mainFn]? = some (.fn c free) →
    (s.codes[c]!).numLocals ≤ stackSize ∧ (s.codes[c]!).numParams ≤ (s.codes[c]!).numLocals

theorem fillUndefined_total (lo : Int) (n : Nat) (c0 : CP) :
    ⦃fun s => ⌜c0 = cp s ∧ 0 ≤ lo ∧ lo + n ≤ 2048⌝⦄ fillUndefined lo n
    ⦃post⟨fun _ s => ⌜cp s = c0⌝, fun _ _ => ⌜False⌝⟩⦄ := by
  unfold fillUndefined
  mvcgen [stackSet, modS, UgoVerif.VM.panic]
  invariants
  · post⟨fun _ s => ⌜cp s = c0⌝, fun _ _ => ⌜False⌝⟩
  all_goals try (have hlt := range_cur_lt (by assumption))
  all_goals simp_all +zetaDelta [cp, stackSize]
  all_goals omega

theorem copyLocals_total (numLocals : Nat) (xs : List V) (c0 : CP) :
    ⦃fun s => ⌜c0 = cp s ∧ numLocals ≤ 2048⌝⦄ copyLocals numLocals xs
    ⦃post⟨fun _ s => ⌜cp s = c0⌝, fun _ _ => ⌜False⌝⟩⦄ := by
  mvcgen [copyLocals, stackSet, modS, UgoVerif.VM.panic]
  invariants
  · post⟨fun _ s => ⌜cp s = c0⌝, fun _ _ => ⌜False⌝⟩
  all_goals simp_all +zetaDelta [cp, stackSize]
  all_goals omega

theorem setLocal_total (numLocals : Nat) (i : Int) (v : V) (c0 : CP) :
    ⦃fun s => ⌜c0 = cp s ∧ 0 ≤ i ∧ i < numLocals ∧ numLocals ≤ 2048⌝⦄ setLocal numLocals i v
    ⦃post⟨fun _ s => ⌜cp s = c0⌝, fun _ _ => ⌜False⌝⟩⦄ := by
  mvcgen [setLocal, stackSet, modS, UgoVerif.VM.panic]
  all_goals simp_all +zetaDelta [cp, stackSize]
  all_goals omega

/-- the main function is still well-formed after `initGlobals` allocated the globals map -/
theorem mainWF_push {s : State} (h : MainWF s) (x : Cell) (hx : ∀ c f, x ≠ .fn c f) :
    ∀ c free, (s.heap.push x)[s.mainFn]? = some (.fn c free) →
      (s.codes[c]!).numLocals ≤ stackSize ∧ (s.codes[c]!).numParams ≤ (s.codes[c]!).numLocals := by
  intro c free hc
  rw [Array.getElem?_push] at hc
  split at hc
  · simp at hc; exact absurd hc (hx c free)
  · exact h c free hc

theorem newArray_total (xs : List V) (c0 : CP) :
    ⦃fun s => ⌜c0 = cp s⌝⦄ newArray xs ⦃post⟨fun _ s => ⌜cp s = c0⌝, fun _ _ => ⌜False⌝⟩⦄ := by
  unfold newArray
  mvcgen
  all_goals simp_all

def PrologueExc (np : Bool) (e : Exc) (s : State) : Prop :=
  VInv s ∧ s.noPanic = np ∧ ∀ m, e ≠ .panic m

set_option maxHeartbeats 3200000 in
theorem prologue_spec (np : Bool) (g : V) (args : List V) :
    ⦃fun s => ⌜VInv s ∧ MainWF s ∧ s.noPanic = np⌝⦄ prologue g args
    ⦃post⟨fun _ s => ⌜StepPre np s⌝, fun e s => ⌜PrologueExc np e s⌝⟩⦄ := by
  apply triple_of_fixed'; intro s0 ⟨hv, hwf, hnp⟩
  mvcgen [prologue, initLocals, initCurrentFrame, fnCell, heapGet, alloc, getS, modS, UgoVerif.VM.panic, unsupported,
    fillUndefined_total, copyLocals_total, setLocal_total, newArray_total, -newArray_spec, -fillUndefined_spec]
  all_goals subst_vars
  all_goals (first
     | have hb := mainWF_push hwf (Cell.map []) (fun _ _ => by simp) _ _ (by assumption)
     | have hb := hwf _ _ (by assumption)
     | skip)
  all_goals (try simp only [wrap_iff, PrologueExc, StepPre, VInvB, VInv, curFn] at *)
  all_goals (try simp only [cp, CP.mk.injEq] at *)
  all_goals (try split_ands)
  all_goals (try (simp_all +zetaDelta [stackSize]; done))
  all_goals (try (simp_all +zetaDelta [stackSize]; omega))
  all_goals (
    simp_all +zetaDelta [stackSize]
    have h0 : (0 : Nat) < frameSize := by decide
    first
    | exact (hv.modify 0 _ (by exact frameOK_noHandlers rfl)).cur 0 h0
    | (refine ⟨(hv.modify 0 _ (by exact frameOK_noHandlers rfl)).cur 0 h0, ?_⟩
       rw [get!_modify_self _ _ _ (by rw [hv.1]; exact h0)]; simp))

/-! ### run semantics (plain statements about `(m.run.run s)`) -/

theorem step_run (np : Bool) (F : FloatOps) (s : State) (h : StepPre np s) :
    (∀ r s', (step F).run.run s = (.ok r, s') → StepOk np r s') ∧
    (∀ e s', (step F).run.run s = (.error e, s') → StepExc np s') :=
  run_of_triple (step_ok np F) s h

theorem loop_run (np : Bool) (F : FloatOps) (fuel : Nat) (s : State) (h : StepPre np s) :
    (∀ r s', (loopF F fuel).run.run s = (.ok r, s') → LoopOk np r s') ∧
    (∀ e s', (loopF F fuel).run.run s = (.error e, s') → StepExc np s') :=
  run_of_triple (loopF_spec np F fuel) s h

theorem prologue_run (np : Bool) (g : V) (args : List V) (s : State) (hv : VInv s) (hwf : MainWF s) (hnp : s.noPanic = np) :
    (∀ r s', (prologue g args).run.run s = (.ok r, s') → StepPre np s') ∧
    (∀ e s', (prologue g args).run.run s = (.error e, s') → PrologueExc np e s') :=
  run_of_triple (prologue_spec np g args) s ⟨hv, hwf, hnp⟩

/-- `handlePanic` is total on `VInv` states -/
theorem handlePanic_run (msg : String) (s : State) (hv : VInv s) :
    ∃ s', (handlePanic msg).run.run s = (.ok (), s') ∧ VInv s' ∧ s'.noPanic = s.noPanic ∧
      (s'.err = none → VInvB s' ∧ ∃ ra, Delivered ra s') := by
  have := run_of_triple (handlePanic_spec msg (cp s)) s ⟨rfl, hv⟩
  rcases hr : (handlePanic msg).run.run s with ⟨(e | a), s'⟩
  · exact (this.2 e s' hr).elim
  · have h := this.1 a s' hr
    exact ⟨s', rfl, h.1, by simpa [cp] using h.2.1, h.2.2⟩

def clearedF (f : Frame) : Frame := { f with free := none, fn := none, handlers := none }

theorem clearCurrentFrame_run (s : State) (hv : VInv s) :
    ∃ s', clearCurrentFrame.run.run s = (.ok (), s') ∧ VInv s' ∧ s'.noPanic = s.noPanic ∧ s'.err = s.err ∧ s'.sp = s.sp := by
  refine ⟨{ s with frames := s.frames.modify s.curFrame clearedF }, rfl, ?_, rfl, rfl, rfl⟩
  exact vinv_setCur hv clearedF rfl rfl rfl (frameOK_noHandlers rfl)

/-- the epilogue reads `stack[sp-1]`: no panic when `1 ≤ sp < 2048` -/
theorem resultValue_spec (c0 : CP) :
    ⦃fun s => ⌜c0 = cp s ∧ 1 ≤ s.sp ∧ s.sp < 2048⌝⦄ resultValue
    ⦃post⟨fun _ s => ⌜cp s = c0⌝, fun e s => ⌜cp s = c0 ∧ ∀ m, e ≠ .panic m⌝⟩⦄ := by
  mvcgen [resultValue, getSp, getS, stackGet, heapGet, UgoVerif.VM.panic, unsupported]
  all_goals simp_all +zetaDelta [cp, stackSize]
  all_goals omega

theorem finish_ok (s : State) (hv : VInv s) (h : s.err = none → 1 ≤ s.sp) :
    VInv (runFrom.finish s).2 ∧ (runFrom.finish s).2.noPanic = s.noPanic ∧ ∀ m, (runFrom.finish s).1 ≠ .goPanic m := by
  unfold runFrom.finish
  split
  · exact ⟨hv, rfl, fun m => by simp⟩
  · rename_i he
    split
    · rename_i hsp
      have := run_of_triple (resultValue_spec (cp s)) s ⟨rfl, h he, by simpa [stackSize] using hsp⟩
      split <;> rename_i heq
      · have hs := (same_iff _ _).mp (this.1 _ _ heq)
        refine ⟨by simp only [VInv]; rw [hs.1, hs.2.2.1, hs.2.2.2.2.1]; exact hv, hs.2.2.2.2.2.2.1, fun m => by simp⟩
      · exact absurd rfl ((this.2 _ _ heq).2 _)
      · have hs := (same_iff _ _).mp (this.2 _ _ heq).1
        refine ⟨by simp only [VInv]; rw [hs.1, hs.2.2.1, hs.2.2.2.2.1]; exact hv, hs.2.2.2.2.2.2.1, fun m => by simp⟩
    · exact ⟨hv, rfl, fun m => by simp⟩

/-- the `for run := true; run; { run = vm.run() }` loop of `Run` with the epilogue -/
theorem go_ok (np : Bool) (F : FloatOps) : ∀ (reruns fuel : Nat) (s : State), StepPre np s →
    VInv (runFrom.go F reruns fuel s).2 ∧ (runFrom.go F reruns fuel s).2.noPanic = np ∧
      (np = true → ∀ m, (runFrom.go F reruns fuel s).1 ≠ .goPanic m) := by
  intro reruns
  induction reruns with
  | zero =>
    intro fuel s h
    simp only [runFrom.go]
    exact ⟨h.1.1, h.2.2, fun _ m => by simp⟩
  | succ reruns ih =>
    intro fuel s h
    have hl := loop_run np F fuel s h
    simp only [runFrom.go]
    rcases hr : (loopF F fuel).run.run s with ⟨(e | r), s'⟩
    · -- loop ended with an exception
      have hx := hl.2 e s' hr
      cases e with
      | unsupported m => exact ⟨hx.1, hx.2, fun _ m' => by simp⟩
      | panic m =>
        simp only
        by_cases hnp : s'.noPanic = true
        · simp only [hnp, if_true]
          obtain ⟨s'', hp, hv'', hnp'', hd⟩ := handlePanic_run m s' hx.1
          rw [hp]
          simp only
          by_cases he : s''.err.isNone = true
          · simp only [he, if_true]
            have he' : s''.err = none := by simpa using he
            exact ih _ s'' ⟨(hd he').1, he', by rw [hnp'', hx.2]⟩
          · have he0 : s''.err.isNone = false := by cases hh : s''.err.isNone <;> simp_all
            simp only [he0, Bool.false_eq_true, if_false]
            have := finish_ok s'' hv'' (fun h0 => by simp [h0] at he)
            exact ⟨this.1, by rw [this.2.1, hnp'', hx.2], fun _ => this.2.2⟩
        · simp only [hnp]
          refine ⟨hx.1, hx.2, fun hnpt => ?_⟩
          rw [← hx.2] at hnpt; exact absurd hnpt hnp
    · -- loop returned or the step budget ran out
      have hx := hl.1 r s' hr
      cases r with
      | none => exact ⟨hx.1, hx.2.1, fun _ m => by simp⟩
      | some u =>
        simp only
        obtain ⟨s'', hc, hv'', hnp'', he'', hsp''⟩ := clearCurrentFrame_run s' hx.1
        rw [hc]
        simp only
        have := finish_ok s'' hv'' (fun h0 => by rw [hsp'']; exact hx.2.2 rfl (by rw [← he'']; exact h0))
        exact ⟨this.1, by rw [this.2.1, hnp'', hx.2.1], fun _ => this.2.2⟩

end UgoVerif.Proofs.VM
