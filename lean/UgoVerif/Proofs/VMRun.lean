import UgoVerif.Proofs.VMStep
/-
  C06 helper layer 5: `loop`, the `Run` prologue, and the `run()`/recover wrapper.
-/
set_option linter.unusedSimpArgs false
set_option linter.unusedVariables false
set_option mvcgen.warning false
namespace UgoVerif.Proofs.VM
open UgoVerif UgoVerif.Go UgoVerif.VM Std.Do

/-- `loop()` returned (`some ()`) or the model's step budget ran out (`none`) -/
def LoopOk (np : Bool) (r : Option Unit) (s : State) : Prop :=
  VInv s ∧ s.noPanic = np ∧ (r = some () → s.err = none → 1 ≤ s.sp)

theorem loopF_spec (np : Bool) (F : FloatOps) (fuel : Nat) :
    ⦃fun s => ⌜StepPre np s⌝⦄ loopF F fuel ⦃post⟨fun r s => ⌜LoopOk np r s⌝, fun _ s => ⌜StepExc np s⌝⟩⦄ := by
  induction fuel with
  | zero =>
    apply triple_of_fixed'; intro s0 hpre
    unfold loopF
    mvcgen
    subst_vars; rw [wrap_iff]
    exact ⟨hpre.1.1, hpre.2.2, by simp⟩
  | succ fuel ih =>
    apply triple_of_fixed'; intro s0 hpre
    have st := step_ok np F
    unfold loopF
    mvcgen [getS, modS, st, ih]
    all_goals subst_vars
    all_goals (try simp only [wrap_iff, LoopOk, StepOk, StepExc, StepPre, VInvB] at *)
    all_goals (try split_ands)
    all_goals (try (simp_all +zetaDelta; done))
    all_goals (simp only [VInv] at *; simp_all +zetaDelta)

/-! ### the prologue of `Run` (outside `recover`) -/

/-- well-formedness of the main function, as the compiler guarantees it (`NumLocals ≤ 256`,
    `NumParams ≤ NumLocals`): `initLocals` slices `vm.stack[:NumLocals]` and indexes
    `locals[NumParams-1]` outside `recover` -/
def MainWF (s : State) : Prop :=
  ∀ c free, s.heap[s.mainFn]? = some (.fn c free) →
    (s.codes[c]!).numLocals ≤ stackSize ∧ (s.codes[c]!).numParams ≤ (s.codes[c]!).numLocals

theorem fillUndefined_total (lo : Int) (n : Nat) (c0 : CP) :
    ⦃fun s => ⌜c0 = cp s ∧ 0 ≤ lo ∧ lo + n ≤ 2048⌝⦄ fillUndefined lo n
    ⦃post⟨fun _ s => ⌜cp s = c0⌝, fun _ _ => ⌜False⌝⟩⦄ := by
  unfold fillUndefined
  mvcgen [stackSet, modS, UgoVerif.VM.panic]
  invariants
  · post⟨fun _ s => ⌜cp s = c0⌝, fun _ _ => ⌜False⌝⟩
  all_goals try (have hlt := range_cur_lt (by assumption))
  all_goals simp_all +zetaDelta [cp, stackSize]
  all_goals omega

theorem copyLocals_total (numLocals : Nat) (xs : List V) (c0 : CP) :
    ⦃fun s => ⌜c0 = cp s ∧ numLocals ≤ 2048⌝⦄ copyLocals numLocals xs
    ⦃post⟨fun _ s => ⌜cp s = c0⌝, fun _ _ => ⌜False⌝⟩⦄ := by
  mvcgen [copyLocals, stackSet, modS, UgoVerif.VM.panic]
  invariants
  · post⟨fun _ s => ⌜cp s = c0⌝, fun _ _ => ⌜False⌝⟩
  all_goals simp_all +zetaDelta [cp, stackSize]
  all_goals omega

theorem setLocal_total (numLocals : Nat) (i : Int) (v : V) (c0 : CP) :
    ⦃fun s => ⌜c0 = cp s ∧ 0 ≤ i ∧ i < numLocals ∧ numLocals ≤ 2048⌝⦄ setLocal numLocals i v
    ⦃post⟨fun _ s => ⌜cp s = c0⌝, fun _ _ => ⌜False⌝⟩⦄ := by
  mvcgen [setLocal, stackSet, modS, UgoVerif.VM.panic]
  all_goals simp_all +zetaDelta [cp, stackSize]
  all_goals omega

/-- the main function is still well-formed after `initGlobals` allocated the globals map -/
theorem mainWF_push {s : State} (h : MainWF s) (x : Cell) (hx : ∀ c f, x ≠ .fn c f) :
    ∀ c free, (s.heap.push x)[s.mainFn]? = some (.fn c free) →
      (s.codes[c]!).numLocals ≤ stackSize ∧ (s.codes[c]!).numParams ≤ (s.codes[c]!).numLocals := by
  intro c free hc
  rw [Array.getElem?_push] at hc
  split at hc
  · simp at hc; exact absurd hc (hx c free)
  · exact h c free hc

theorem newArray_total (xs : List V) (c0 : CP) :
    ⦃fun s => ⌜c0 = cp s⌝⦄ newArray xs ⦃post⟨fun _ s => ⌜cp s = c0⌝, fun _ _ => ⌜False⌝⟩⦄ := by
  unfold newArray
  mvcgen
  all_goals simp_all

def PrologueExc (np : Bool) (e : Exc) (s : State) : Prop :=
  VInv s ∧ s.noPanic = np ∧ ∀ m, e ≠ .panic m

set_option maxHeartbeats 3200000 in
theorem prologue_spec (np : Bool) (g : V) (args : List V) :
    ⦃fun s => ⌜VInv s ∧ MainWF s ∧ s.noPanic = np⌝⦄ prologue g args
    ⦃post⟨fun _ s => ⌜StepPre np s⌝, fun e s => ⌜PrologueExc np e s⌝⟩⦄ := by
  apply triple_of_fixed'; intro s0 ⟨hv, hwf, hnp⟩
  mvcgen [prologue, initLocals, initCurrentFrame, fnCell, heapGet, alloc, getS, modS, UgoVerif.VM.panic, unsupported,
    fillUndefined_total, copyLocals_total, setLocal_total, newArray_total, -newArray_spec, -fillUndefined_spec]
  all_goals subst_vars
  all_goals (first
     | have hb := mainWF_push hwf (Cell.map []) (fun _ _ => by simp) _ _ (by assumption)
     | have hb := hwf _ _ (by assumption)
     | skip)
  all_goals (try simp only [wrap_iff, PrologueExc, StepPre, VInvB, VInv, curFn] at *)
  all_goals (try simp only [cp, CP.mk.injEq] at *)
  all_goals (try split_ands)
  all_goals (try (simp_all +zetaDelta [stackSize]; done))
  all_goals (try (simp_all +zetaDelta [stackSize]; omega))
  all_goals (
    simp_all +zetaDelta [stackSize]
    have h0 : (0 : Nat) < frameSize := by decide
    first
    | exact (hv.modify 0 _ (by exact frameOK_noHandlers rfl)).cur 0 h0
    | (refine ⟨(hv.modify 0 _ (by exact frameOK_noHandlers rfl)).cur 0 h0, ?_⟩
       rw [get!_modify_self _ _ _ (by rw [hv.1]; exact h0)]; simp))

end UgoVerif.Proofs.VM
