import UgoVerif.Proofs.CompileMono
import UgoVerif.Proofs.CompileMain
/-
  C10: every function of the compiler's mutual block is monotone (`MonoP`, Proofs/CompileMono.lean):
  the root symbol table and the constant pool only grow, whatever the outcome.  Strong induction
  on the size of the AST, as in Proofs/CompileMain.lean (C05).
-/
namespace UgoVerif.Compile
open UgoVerif UgoVerif.Go UgoVerif.Ast

/-- `compileDefineAssign` is called with `allowRedefine` only for keywords other than `const` -/
abbrev AllowOK (kw : Nat) (allow : Bool) : Prop := allow = true → kw ≠ tConst

structure AllMono (n : Nat) : Prop where
  expr : ∀ e, sizeOf e < n → Mono (compileExpr e)
  exprs : ∀ es, sizeOf es < n → Mono (compileExprs es)
  mapElems : ∀ pos ms, sizeOf ms < n → Mono (compileMapElems pos ms)
  indexChain : ∀ e self, sizeOf e < n → Mono self → Mono (compileIndexChain e self)
  selChain : ∀ e, sizeOf e < n → Mono (compileSelChain e)
  stmts : ∀ ss, sizeOf ss < n → Mono (compileStmts ss)
  defineAssign : ∀ pos lhs kw op allow, sizeOf lhs < n → AllowOK kw allow → Mono (compileDefineAssign pos lhs kw op allow)
  destructure : ∀ pos kw op num tmp es k found, sizeOf es < n → Mono (compileDestructure pos kw op num tmp es k found)
  valueIdents : ∀ pos tok ids vals last, sizeOf vals < n → LastMono last →
    MonoP LastMono (compileValueIdents pos tok ids vals last)
  valueSpecs : ∀ pos tok specs last, sizeOf specs < n → LastMono last → Mono (compileValueSpecs pos tok specs last)
  stmt : ∀ st, sizeOf st < n → Mono (compileStmt st)

theorem mstep_exprs {n : Nat} (ih : AllMono n) : ∀ es, sizeOf es < n + 1 → Mono (compileExprs es)
  | [], _ => by unfold compileExprs; mono
  | e :: r, hsz => by
    have h1 := ih.expr e (by sz)
    have h2 := ih.exprs r (by sz)
    unfold compileExprs
    mono

theorem mstep_mapElems {n : Nat} (ih : AllMono n) (pos : Pos) : ∀ ms, sizeOf ms < n + 1 → Mono (compileMapElems pos ms)
  | [], _ => by unfold compileMapElems; mono
  | (k, v) :: r, hsz => by
    have h1 := ih.expr v (by sz)
    have h2 := ih.mapElems pos r (by sz)
    unfold compileMapElems
    mono

theorem mstep_stmts {n : Nat} (ih : AllMono n) : ∀ ss, sizeOf ss < n + 1 → Mono (compileStmts ss)
  | [], _ => by unfold compileStmts; mono
  | st :: r, hsz => by
    have h1 := ih.stmt st (by sz)
    have h2 := ih.stmts r (by sz)
    unfold compileStmts
    mono

theorem mstep_indexChain {n : Nat} (ih : AllMono n) (e : Expr) (self : CM Unit) (hsz : sizeOf e < n + 1)
    (hself : Mono self) : Mono (compileIndexChain e self) := by
  unfold compileIndexChain
  split
  · rename_i e' i
    have h0 := ih.expr e' (by sz)
    have h1 := ih.indexChain e' (compileExpr e') (by sz) h0
    have h2 := ih.expr i (by sz)
    mono
  · mono

theorem mstep_selChain {n : Nat} (ih : AllMono n) (e : Expr) (hsz : sizeOf e < n + 1) : Mono (compileSelChain e) := by
  unfold compileSelChain
  split
  · rename_i e' i
    have h1 := ih.selChain e' (by sz)
    have h2 := ih.expr i (by sz)
    mono
  · rename_i e' i
    have h1 := ih.selChain e' (by sz)
    have h2 := ih.expr i (by sz)
    mono
  · mono

theorem mstep_defineAssign {n : Nat} (ih : AllMono n) (pos : Pos) (lhs : Expr) (kw op : Nat) (allow : Bool)
    (hsz : sizeOf lhs < n + 1) (hak : AllowOK kw allow) : Mono (compileDefineAssign pos lhs kw op allow) := by
  have hd := mono_compileDefine pos (lhsName lhs) allow kw hak
  unfold compileDefineAssign
  split
  · rename_i e last
    have h1 := ih.selChain e (by sz)
    have h2 := ih.expr last (by sz)
    mono
  · rename_i e last
    have h1 := ih.selChain e (by sz)
    have h2 := ih.expr last (by sz)
    mono
  · mono

theorem mstep_destructure {n : Nat} (ih : AllMono n) (pos : Pos) (kw op num : Nat) (tmp : Int) :
    ∀ es k found, sizeOf es < n + 1 → Mono (compileDestructure pos kw op num tmp es k found)
  | [], _, _, _ => by unfold compileDestructure; mono
  | e :: r, k, found, hsz => by
    have h1 := ih.defineAssign pos e kw op (kw != tConst) (by sz) (by intro h; simpa using h)
    have h2 := fun k f => ih.destructure pos kw op num tmp r k f (by sz)
    unfold compileDestructure
    mono
    exact h2 _ _

theorem mstep_valueIdents {n : Nat} (ih : AllMono n) (pos : Pos) (tok : Nat) :
    ∀ (ids : List (Pos × String)) (vals : List (Option Expr)) (last : Option (CM Unit × VSum)),
      sizeOf vals < n + 1 → LastMono last → MonoP LastMono (compileValueIdents pos tok ids vals last)
  | [], vals, last, _, hl => by
    unfold compileValueIdents
    exact MonoP.pure hl
  | id :: irest, [], last, _, hl => by
    unfold compileValueIdents
    exact MonoP.bind (mono_compileIdentsNoValue pos tok hl _) fun _ _ => MonoP.pure hl
  | (ipos, name) :: irest, some e :: vrest, last, hsz, hl => by
    have he := ih.expr e (by sz)
    unfold compileValueIdents
    refine MonoP.bind (mono_compileValueIdent pos tok name he _) fun _ _ => ?_
    exact ih.valueIdents pos tok irest vrest _ (by sz) (fun x hx => by injection hx with hx; subst hx; exact he)
  | (ipos, name) :: irest, none :: vrest, last, hsz, hl => by
    unfold compileValueIdents
    refine MonoP.bind (mono_lastMatch pos tok ipos name hl) fun _ _ => ?_
    exact ih.valueIdents pos tok irest vrest _ (by sz) hl

theorem mono_modify_misc {f : CState → CState} (h1 : ∀ s, (f s).tables = s.tables) (h2 : ∀ s, (f s).constants = s.constants) :
    Mono (modify f : CM Unit) := Frame.mono (Frame.modify h1 h2)

theorem mstep_valueSpecs {n : Nat} (ih : AllMono n) (pos : Pos) (tok : Nat) :
    ∀ specs last, sizeOf specs < n + 1 → LastMono last → Mono (compileValueSpecs pos tok specs last)
  | [], _, _, _ => by unfold compileValueSpecs; mono
  | (iota, ids, vals) :: rest, last, hsz, hl => by
    have h1 := ih.valueIdents pos tok ids vals last (by sz) hl
    have h2 := fun l hl => ih.valueSpecs pos tok rest l (by sz) hl
    have hm : ∀ v : Int, Mono (modify (fun s : CState => { s with iotaVal := v }) : CM Unit) :=
      fun v => mono_modify_misc (fun _ => rfl) (fun _ => rfl)
    unfold compileValueSpecs
    refine MonoP.bind (P := fun _ => True) ?_ (fun _ _ => ?_)
    · split
      · split
        · exact hm _
        · mono
      · mono
    · exact MonoP.bind h1 fun l hl' => h2 l hl'

theorem mstep_expr {n : Nat} (ih : AllMono n) (e : Expr) (hsz : sizeOf e < n + 1) : Mono (compileExpr e) := by
  cases e with
  | paren _ e =>
    have := ih.expr e (by sz)
    unfold compileExpr; exact this
  | binary pos tok l r =>
    have h1 := ih.expr l (by sz)
    have h2 := ih.expr r (by sz)
    unfold compileExpr; mono
  | int pos v => unfold compileExpr; mono
  | uint pos v => unfold compileExpr; mono
  | float pos v => unfold compileExpr; mono
  | bool pos b => unfold compileExpr; mono
  | str pos v => unfold compileExpr; mono
  | char pos v => unfold compileExpr; mono
  | undef pos => unfold compileExpr; mono
  | unary pos tok e =>
    have := ih.expr e (by sz)
    unfold compileExpr; mono
  | ident pos name => unfold compileExpr; mono
  | array pos es =>
    have := ih.exprs es (by sz)
    unfold compileExpr; mono
  | map pos ms =>
    have := ih.mapElems pos ms (by sz)
    unfold compileExpr; mono
  | selector pos e sel =>
    have h0 := ih.expr e (by sz)
    have h1 := ih.indexChain e (compileExpr e) (by sz) h0
    have h2 := ih.expr sel (by sz)
    unfold compileExpr; mono
  | index pos e i =>
    have h0 := ih.expr e (by sz)
    have h1 := ih.indexChain e (compileExpr e) (by sz) h0
    have h2 := ih.expr i (by sz)
    unfold compileExpr; mono
  | slice pos e lo hi =>
    have h0 := ih.expr e (by sz)
    have hlo : Mono (match lo with | some x => compileExpr x | none => emit_ pos OpNull) := by
      cases lo with
      | none => mono
      | some x => exact ih.expr x (by sz)
    have hhi : Mono (match hi with | some x => compileExpr x | none => emit_ pos OpNull) := by
      cases hi with
      | none => mono
      | some x => exact ih.expr x (by sz)
    unfold compileExpr; mono
  | func pos variadic params bp body =>
    have hb := ih.stmts body (by sz)
    have hw := mono_withFn pos variadic params (mono_blockOf (body := body) hb)
    unfold compileExpr; mono
  | call pos ell f args =>
    have ha := ih.exprs args (by sz)
    have hf := ih.expr f (by sz)
    unfold compileExpr
    split
    · rename_i p se ssel
      have h1 := ih.expr se (by sz)
      have h2 := ih.expr ssel (by sz)
      mono
    · mono
  | import_ pos name => unfold compileExpr; mono
  | cond pos c t f =>
    have hc := ih.expr c (by sz)
    have ht := ih.expr t (by sz)
    have hf := ih.expr f (by sz)
    unfold compileExpr; mono

theorem mono_optStmt {n : Nat} (ih : AllMono n) (o : Option Stmt) (hsz : sizeOf o < n) :
    Mono (match o with | some i => compileStmt i | none => Pure.pure ()) := by
  cases o with
  | none => mono
  | some i => exact ih.stmt i (by sz)

theorem mono_tryIdx (f : Int → Int) : Mono (modify (fun s : CState => { s with tryCatchIndex := f s.tryCatchIndex }) : CM Unit) :=
  mono_modify_misc (fun _ => rfl) (fun _ => rfl)

set_option maxHeartbeats 1600000 in
theorem mstep_try {n : Nat} (ih : AllMono n) (pos bp : Pos) (body : List Stmt)
    (c : Option (Pos × Option String × Pos × List Stmt)) (f : Option (Pos × Pos × List Stmt))
    (hsz : sizeOf (Stmt.try_ pos bp body c f) < n + 1) : Mono (compileStmt (.try_ pos bp body c f)) := by
  have hbody := ih.stmts body (by sz)
  have h1 := mono_tryIdx (· + 1)
  have h2 := mono_tryIdx (· - 1)
  have hfin : MonoP (fun _ => True) (match f with
      | some (fpos, _, fbody) => do let p ← emit fpos OpSetupFinally; compileStmts fbody; Pure.pure p
      | none => emit pos OpSetupFinally) := by
    cases f with
    | none => mono
    | some fv =>
      obtain ⟨f1, f2, f3⟩ := fv
      have hfb := ih.stmts f3 (by sz)
      mono
  rw [compileStmt_eq]; simp only
  refine MonoP.bind (P := fun _ => True) (mono_withBlock ?_) (fun _ _ => ?_)
  · refine MonoP.bind (P := fun _ => True) h1 (fun _ _ => ?_)
    refine MonoP.bind (P := fun _ => True) (Frame.mono (frame_emit _ _ _)) (fun _ _ => ?_)
    refine MonoP.bind (P := fun _ => True) hbody (fun _ _ => ?_)
    cases c with
    | none =>
      simp only
      exact MonoP.bind hfin fun _ _ => Frame.mono (frame_changeOperand _ _)
    | some cv =>
      obtain ⟨cpos, ident, c3, cbody⟩ := cv
      have hcb := ih.stmts cbody (by sz)
      have hid1 : Mono (match ident with
          | some name => do emit_ cpos OpNull; defineCatchIdent pos name
          | none => Pure.pure ()) := by cases ident <;> mono
      have hid2 : Mono (match ident with
          | some name => defineCatchIdent cpos name
          | none => emit_ cpos OpPop) := by cases ident <;> mono
      simp only
      refine MonoP.bind (P := fun _ => True) hid1 (fun _ _ => ?_)
      refine MonoP.bind (P := fun _ => True) (Frame.mono (frame_emit _ _ _)) (fun _ _ => ?_)
      refine MonoP.bind (P := fun _ => True) (Frame.mono frame_curPos) (fun _ _ => ?_)
      refine MonoP.bind (P := fun _ => True) (Frame.mono (frame_emit_ _ _ _)) (fun _ _ => ?_)
      refine MonoP.bind (P := fun _ => True) hid2 (fun _ _ => ?_)
      refine MonoP.bind (P := fun _ => True) hcb (fun _ _ => ?_)
      refine MonoP.bind (P := fun _ => True) hfin (fun _ _ => ?_)
      exact MonoP.bind (P := fun _ => True) (Frame.mono (frame_changeOperand _ _)) fun _ _ => Frame.mono (frame_changeOperand _ _)
  · mono

set_option maxHeartbeats 1600000 in
theorem mstep_ctl {n : Nat} (ih : AllMono n) (st : Stmt) (hsz : sizeOf st < n + 1)
    (hk : (match st with | .if_ .. | .for_ .. | .forin .. => true | _ => false) = true) : Mono (compileStmt st) := by
  cases st with
  | if_ pos init cond bp body els =>
    clear hk
    have hinit := mono_optStmt ih init (by sz)
    have hc := ih.expr cond (by sz)
    have hb : Mono (blockOf body (compileStmts body)) := mono_blockOf (ih.stmts body (by sz))
    have htail : ∀ j : Nat, Mono (match els with
        | some e => do
          let j2 ← emit pos OpJump [0]
          changeOperand j [(← curPos)]
          compileStmt e
          changeOperand j2 [(← curPos)]
        | none => do changeOperand j [(← curPos)]) := by
      intro j
      cases els with
      | none => mono
      | some e =>
        have := ih.stmt e (by sz)
        mono
    rw [compileStmt_eq]; simp only
    apply mono_withBlock
    refine MonoP.bind (P := fun _ => True) hinit (fun _ _ => ?_)
    split
    · exact hb
    · exact MonoP.bind (P := fun _ => True) (Frame.mono (frame_emit _ _ _)) fun j _ => htail j
    · refine MonoP.bind (P := fun _ => True) hc (fun _ _ => ?_)
      refine MonoP.bind (P := fun _ => True) (Frame.mono (frame_emit _ _ _)) (fun j _ => ?_)
      exact MonoP.bind (P := fun _ => True) hb fun _ _ => htail j
  | for_ pos init cond post bp body =>
    clear hk
    have hinit := mono_optStmt ih init (by sz)
    have hpost := mono_optStmt ih post (by sz)
    have hb : Mono (blockOf body (compileStmts body)) := mono_blockOf (ih.stmts body (by sz))
    have hcond : Mono (match cond with
        | some c => do compileExpr c; let p ← emit pos OpJumpFalsy [0]; Pure.pure (some p)
        | none => Pure.pure none) := by
      cases cond with
      | none => mono
      | some c =>
        have hc := ih.expr c (by sz)
        mono
    rw [compileStmt_eq]; simp only
    apply mono_withBlock
    refine MonoP.bind (P := fun _ => True) hinit (fun _ _ => ?_)
    refine MonoP.bind (P := fun _ => True) (Frame.mono frame_curPos) (fun _ _ => ?_)
    refine MonoP.bind (P := fun _ => True) hcond (fun pc _ => ?_)
    refine MonoP.bind (P := fun _ => True) (mono_withLoop hb) (fun _ _ => ?_)
    refine MonoP.bind (P := fun _ => True) (Frame.mono frame_curPos) (fun _ _ => ?_)
    refine MonoP.bind (P := fun _ => True) hpost (fun _ _ => ?_)
    refine MonoP.bind (P := fun _ => True) (Frame.mono (frame_emit_ _ _ _)) (fun _ _ => ?_)
    refine MonoP.bind (P := fun _ => True) (Frame.mono frame_curPos) (fun _ _ => ?_)
    refine MonoP.bind (P := fun _ => True) ?_ (fun _ _ => ?_)
    · cases pc <;> mono
    · exact MonoP.bind (P := fun _ => True) (Frame.mono (frame_patchAll _ _)) fun _ _ => Frame.mono (frame_patchAll _ _)
  | forin pos key value iter bp body =>
    clear hk
    have hit := ih.expr iter (by sz)
    have hb : Mono (blockOf body (compileStmts body)) := mono_blockOf (ih.stmts body (by sz))
    rw [compileStmt_eq]; simp only
    apply mono_withBlock
    refine MonoP.bind (P := fun _ => True) (mono_defineLocal ":it") (fun x _ => ?_)
    obtain ⟨itSym, ex⟩ := x
    simp only
    split
    · exact MonoP.cerr
    · have hbody : Mono (do
          forinVar pos itSym.index OpIterKey key
          forinVar pos itSym.index OpIterValue value
          blockOf body (compileStmts body)) :=
        MonoP.bind (mono_forinVar pos _ _ key) fun _ _ => MonoP.bind (mono_forinVar pos _ _ value) fun _ _ => hb
      have hl := mono_withLoop hbody
      mono
  | _ => simp at hk

theorem mstep_stmt {n : Nat} (ih : AllMono n) (st : Stmt) (hsz : sizeOf st < n + 1) : Mono (compileStmt st) := by
  cases st with
  | empty pos => rw [compileStmt_eq]; simp only; mono
  | expr pos e =>
    have := ih.expr e (by sz)
    rw [compileStmt_eq]; simp only; mono
  | incdec pos tok tokPos e =>
    have h1 := ih.expr e (by sz)
    have h2 := ih.defineAssign pos e tVar (if tok == tDec then tSubAssign else tAddAssign) false (by sz) (by intro h; cases h)
    rw [compileStmt_eq]; simp only; mono
  | assign pos tok lhs rhs =>
    have h1 := ih.exprs rhs (by sz)
    rw [compileStmt_eq]; simp only
    cases lhs with
    | nil =>
      apply mono_compileAssign
      · exact h1
      · exact MonoP.cpanic
      · exact MonoP.cpanic
      · intro i; unfold compileDestructure; mono
    | cons e0 rest =>
      apply mono_compileAssign
      · exact h1
      · exact ih.expr e0 (by sz)
      · exact ih.defineAssign pos e0 tVar tok false (by sz) (by intro h; cases h)
      · intro i
        exact ih.destructure pos tVar tok _ i (e0 :: rest) 0 0 (by sz)
  | block pos body =>
    have := ih.stmts body (by sz)
    rw [compileStmt_eq]; simp only; mono
  | if_ pos init cond bp body els => exact mstep_ctl ih _ hsz rfl
  | for_ pos init cond post bp body => exact mstep_ctl ih _ hsz rfl
  | forin pos key value iter bp body => exact mstep_ctl ih _ hsz rfl
  | branch pos tok => rw [compileStmt_eq]; simp only; mono
  | return_ pos e =>
    cases e with
    | none => rw [compileStmt_eq]; simp only; mono
    | some x =>
      have := ih.expr x (by sz)
      rw [compileStmt_eq]; simp only; mono
  | try_ pos bp body c f => exact mstep_try ih pos bp body c f hsz
  | throw pos e =>
    cases e with
    | none => rw [compileStmt_eq]; simp only; mono
    | some x =>
      have := ih.expr x (by sz)
      rw [compileStmt_eq]; simp only; mono
  | declParam pos specs => rw [compileStmt_eq]; simp only; mono
  | declGlobal pos specs => rw [compileStmt_eq]; simp only; mono
  | declValue pos tok specs =>
    have := ih.valueSpecs pos tok specs none (by sz) (fun x hx => by cases hx)
    have : Mono (modify (fun s : CState => { s with iotaVal := -1 }) : CM Unit) :=
      mono_modify_misc (fun _ => rfl) (fun _ => rfl)
    rw [compileStmt_eq]; simp only; mono

theorem allMono : ∀ n, AllMono n
  | 0 => ⟨fun _ h => by omega, fun _ h => by omega, fun _ _ h => by omega, fun _ _ h => by omega,
          fun _ h => by omega, fun _ h => by omega, fun _ _ _ _ _ h => by omega,
          fun _ _ _ _ _ _ _ _ h => by omega, fun _ _ _ _ _ h => by omega, fun _ _ _ _ h => by omega,
          fun _ h => by omega⟩
  | n + 1 =>
    have ih := allMono n
    ⟨mstep_expr ih, mstep_exprs ih, fun pos => mstep_mapElems ih pos, fun e self h1 h2 => mstep_indexChain ih e self h1 h2,
     mstep_selChain ih, mstep_stmts ih, fun pos lhs kw op allow => mstep_defineAssign ih pos lhs kw op allow,
     fun pos kw op num tmp => mstep_destructure ih pos kw op num tmp,
     fun pos tok => mstep_valueIdents ih pos tok, fun pos tok => mstep_valueSpecs ih pos tok, mstep_stmt ih⟩

/-- every statement list: the root table and the constant pool only grow, whatever the outcome -/
theorem mono_compileStmts (ss : List Stmt) : Mono (compileStmts ss) :=
  (allMono (sizeOf ss + 1)).stmts ss (by omega)

theorem mono_compileExpr (e : Expr) : Mono (compileExpr e) :=
  (allMono (sizeOf e + 1)).expr e (by omega)

end UgoVerif.Compile
