import UgoVerif.Proofs.RelocRun
import UgoVerif.Proofs.RelocThrow
import UgoVerif.Proofs.RelocCall
import UgoVerif.Proofs.RelocGetIndex
import UgoVerif.Proofs.RelocStore
/-
  Relocation relation: all opcode lemmas together (`opsOK`), the prologue of `Run` on two new
  VMs (`prologue_RB`), and the run-level theorem `vm_reloc`.
-/
set_option linter.unusedVariables false
set_option linter.unusedSimpArgs false
namespace UgoVerif.VM.Reloc
open UgoVerif UgoVerif.Go UgoVerif.VM

variable {P : Params}

/-- every opcode of the VM model keeps the relocation relation -/
theorem opsOK (hP : P.OK) : OpsOK P :=
  { fail := rel_failWith
    call := fun ci c o hB hc hop => rel_execCall hP rel_failWith hB hop
    callName := fun ci c o hB hc hop => rel_execCallName hP rel_failWith hB hop
    ret := fun ci c o hB hc hop => rel_execReturn hP hB hop
    setupCatch := fun ci c o hB hc hop => rel_execSetupCatch hP hB hop
    setupFinally := fun ci c o hB hc hop => rel_execSetupFinally hP hB hop
    throw_ := fun ci c o hB hc hop => rel_execThrow hP hB hop
    finalizer := fun ci c o hB hc hop => rel_execFinalizer hP hB hop
    getIndex := fun ci c o hB hc hop => rel_execGetIndex (hP.rel c hc) hB rel_failWith hop
    storeModule := fun ci c o hB hc hop => rel_execStoreModule (hP.rel c hc) hB rel_failWith hop }

/-- **`Machine.Equivariant` for the VM model**: one instruction of the source VM (layout `P.wide`)
    and of the VM model, from states related at an instruction boundary -/
theorem vm_step (hP : P.OK) (F : FloatOps) : RelQ (RB P) (CtlPost P) (RM P) (stepW P.wide F) (step F) :=
  rel_step hP (opsOK hP) F

/-! ### the prologue on two new VMs -/

/-- two VMs before `Run`: same data, code `P.cs` / `P.ct`, no frame in use; `ip`, `frameIndex`,
    `curFrame` are arbitrary (the prologue sets them) -/
structure D (P : Params) (s t : State) : Prop where
  stack : t.stack = s.stack
  sp : t.sp = s.sp
  heap : t.heap = s.heap
  codesS : s.codes = P.cs
  codesT : t.codes = P.ct
  consts : t.consts = s.consts
  mainFn : t.mainFn = s.mainFn
  numModules : t.numModules = s.numModules
  globals : t.globals = s.globals
  modules : t.modules = s.modules
  err : t.err = s.err
  abort : t.abort = s.abort
  steps : t.steps = s.steps
  traceOn : t.traceOn = s.traceOn
  noPanic : t.noPanic = s.noPanic
  framesS : s.frames = emptyFrames
  framesT : t.frames = emptyFrames
  fnok : ∀ (a : Nat) k fr, s.heap[a]? = some (Cell.fn k fr) → P.Entry k

theorem relD_stackSet (i : Int) (v : V) : RelE (D P) (D P) (fun _ _ => True) Eq (stackSet i v) (stackSet i v) := by
  apply RelE.mk'
  intro s t h
  rw [VM.exec_stackSet, VM.exec_stackSet]
  by_cases hb : (decide (i < 0) || decide (i ≥ (stackSize : Int))) = true
  · rw [if_pos hb, if_pos hb]; exact ⟨rfl, trivial⟩
  · rw [if_neg hb, if_neg hb]
    exact ⟨rfl, { h with stack := by show t.stack.set! _ _ = s.stack.set! _ _; rw [h.stack] }⟩

theorem relD_alloc (x : Cell) (hx : ∀ k fr, x ≠ Cell.fn k fr) :
    RelE (D P) (D P) (fun _ _ => True) Eq (alloc x) (alloc x) := by
  apply RelE.mk'
  intro s t h
  show (_ ∧ _)
  refine ⟨by show s.heap.size = t.heap.size; rw [h.heap], ?_⟩
  show D P { s with heap := s.heap.push x } { t with heap := t.heap.push x }
  refine { h with heap := by show t.heap.push x = s.heap.push x; rw [h.heap], fnok := ?_ }
  intro a k fr hk
  have hk' : (s.heap.push x)[a]? = some (Cell.fn k fr) := hk
  rw [Array.getElem?_push] at hk'
  split at hk'
  · cases hk'; exact absurd rfl (hx k fr)
  · exact h.fnok a k fr hk'

/-- the function cell of `Main`: the two VMs read the two codes of one enterable function -/
theorem relD_fnCell (a : Addr) : RelE (D P) (D P) (fun _ _ => True)
    (fun x y => x.2 = y.2 ∧ ∃ k, x.1 = P.cs[k]! ∧ y.1 = P.ct[k]! ∧ P.Entry k) (fnCell a) (fnCell a) := by
  apply RelE.mk'
  intro s t h
  rw [exec_fnCell, exec_fnCell, h.heap]
  cases hc : s.heap[a]? with
  | none => exact ⟨rfl, trivial⟩
  | some x =>
    cases x with
    | fn k fr =>
      refine ⟨⟨rfl, k, ?_, ?_, h.fnok a k fr hc⟩, h⟩
      · show s.codes[k]! = P.cs[k]!
        rw [h.codesS]
      · show t.codes[k]! = P.ct[k]!
        rw [h.codesT]
    | _ => exact ⟨rfl, trivial⟩

theorem relD_getS : RelE (D P) (D P) (fun _ _ => True) (fun a b => D P a b) getS getS := by
  apply RelE.mk'
  intro s t h
  exact ⟨h, h⟩

syntax "rld_prim" : tactic
macro_rules | `(tactic| rld_prim) => `(tactic| exact RelE.pure rfl)
macro_rules | `(tactic| rld_prim) => `(tactic| exact RelE.panic _ (fun _ _ _ => trivial))
macro_rules | `(tactic| rld_prim) => `(tactic| exact RelE.unsupported _ (fun _ _ _ => trivial))
macro_rules | `(tactic| rld_prim) => `(tactic| exact relD_stackSet _ _)
macro_rules | `(tactic| rld_prim) => `(tactic| rlc_hyp)

/-- `rlc` for the relation `D P` -/
syntax "rld" : tactic
set_option hygiene false in
macro_rules | `(tactic| rld) => `(tactic|
  repeat (first
    | with_reducible rld_prim
    | exact relD_alloc _ (by intro k fr e; cases e)
    | exact RelE.panic (B := fun _ _ => False) _ (fun _ _ _ => trivial)
    | exact RelE.ofFalse
    | apply RelE.bindEq
    | apply RelE.ite
    | apply RelE.forIn_range
    | apply RelE.forIn_list
    | ((first | lift_lets | skip); intro jp__;
       first
       | (have hjp__ : RelE (D P) (D P) (fun _ _ => True) Eq jp__ jp__ := by
            (dsimp only [jp__]; rld)
          clear_value jp__)
       | (have hjp__ : ∀ a__, RelE (D P) (D P) (fun _ _ => True) Eq (jp__ a__) (jp__ a__) := by
            (intro a__; dsimp only [jp__]; rld)
          clear_value jp__)
       | (have hjp__ : ∀ a__ b__, RelE (D P) (D P) (fun _ _ => True) Eq (jp__ a__ b__) (jp__ a__ b__) := by
            (intro a__ b__; dsimp only [jp__]; rld)
          clear_value jp__)
       | clear_value jp__)
    | intro _
    | split
    | dsimp only))

theorem relD_newArray (xs : List V) : RelE (D P) (D P) (fun _ _ => True) Eq (newArray xs) (newArray xs) := by
  unfold newArray; rld
macro_rules | `(tactic| rld_prim) => `(tactic| exact relD_newArray _)
theorem relD_fillUndefined (lo : Int) (n : Nat) :
    RelE (D P) (D P) (fun _ _ => True) Eq (fillUndefined lo n) (fillUndefined lo n) := by
  unfold fillUndefined; rld
macro_rules | `(tactic| rld_prim) => `(tactic| exact relD_fillUndefined _ _)
theorem relD_setLocal (nl : Nat) (i : Int) (v : V) :
    RelE (D P) (D P) (fun _ _ => True) Eq (setLocal nl i v) (setLocal nl i v) := by
  unfold setLocal; rld
macro_rules | `(tactic| rld_prim) => `(tactic| exact relD_setLocal _ _ _)
theorem relD_copyLocals (nl : Nat) (xs : List V) :
    RelE (D P) (D P) (fun _ _ => True) Eq (copyLocals nl xs) (copyLocals nl xs) := by
  unfold copyLocals; rld
macro_rules | `(tactic| rld_prim) => `(tactic| exact relD_copyLocals _ _)

/-- `initLocals` after the function cell of `Main` has been read -/
def initLocalsRest (args : List V) (numParams : Int) (numLocals : Nat) (variadic : Bool) : M Unit := do
  if numLocals > stackSize then
    panic s!"runtime error: slice bounds out of range [:{numLocals}] with capacity {stackSize}"
  fillUndefined 0 numLocals
  if numParams ≤ 0 then return
  if (args.length : Int) < numParams then
    if variadic then setLocal numLocals (numParams - 1) (← newArray [])
    copyLocals numLocals args
    return
  if variadic then
    let vargs := args.drop (numParams - 1).toNat
    setLocal numLocals (numParams - 1) (← newArray vargs)
  else
    setLocal numLocals (numParams - 1) (args[(numParams - 1).toNat]!)
  copyLocals numLocals (args.take (numParams - 1).toNat)

theorem initLocals_eq (args : List V) : initLocals args = (do
    let s ← getS
    let cf ← fnCell s.mainFn
    initLocalsRest args cf.1.numParams cf.1.numLocals cf.1.variadic) := rfl

theorem relD_initLocalsRest (args : List V) (np : Int) (nl : Nat) (va : Bool) :
    RelE (D P) (D P) (fun _ _ => True) Eq (initLocalsRest args np nl va) (initLocalsRest args np nl va) := by
  unfold initLocalsRest; rld

theorem relD_initLocals (hP : P.OK) (args : List V) :
    RelE (D P) (D P) (fun _ _ => True) Eq (initLocals args) (initLocals args) := by
  rw [initLocals_eq]
  refine RelE.bind relD_getS ?_
  intro a b hab
  rw [hab.mainFn]
  refine RelE.bind (relD_fnCell _) ?_
  rintro x y ⟨_, k, hx, hy, _⟩
  rw [hx, hy, hP.numParams k, hP.numLocals k, hP.variadic k]
  exact relD_initLocalsRest _ _ _ _

theorem relD_prologueA (g : V) : RelE (D P) (D P) (fun _ _ => True) Eq (prologueA g) (prologueA g) := by
  unfold prologueA
  refine RelE.bind (VR := Eq) (B := D P) (RelE.modS (fun s t h => { h with err := rfl, abort := rfl })) ?_
  intro _ _ _
  refine RelE.bind (VR := Eq) (B := D P) ?_ ?_
  · cases g <;> first
      | exact RelE.pure rfl
      | (refine RelE.bind (VR := Eq) (relD_alloc _ (by intro k fr e; cases e)) ?_
         intro a b hab; subst hab; exact RelE.pure rfl)
  · intro a b hab
    subst hab
    exact RelE.modS (fun s t h => { h with globals := rfl })

theorem emptyFrames_get (i : Nat) : emptyFrames[i]! = ({} : Frame) := by
  unfold emptyFrames
  by_cases hi : i < frameSize
  · simp [hi]
  · simp [hi]; rfl

/-- the last part of the prologue makes frame 0 current and enters `Main` at offset 0 -/
theorem prologueB_RB (hP : P.OK) {s t : State} (h : D P s t) :
    ProRB P (exec prologueB s) (exec prologueB t) := by
  have hheap : t.heap[s.mainFn]? = s.heap[s.mainFn]? := by rw [h.heap]
  cases hc : s.heap[s.mainFn]? with
  | none =>
    rw [hc] at hheap
    simp [prologueB, initCurrentFrame, exec_bind, exec_getS, exec_fnCell, exec_modS, hc, hheap, ProRB, h.mainFn]
  | some x =>
    rw [hc] at hheap
    cases x with
    | fn k fr =>
      have hE := h.fnok _ k fr hc
      have hsz : (0 : Nat) < emptyFrames.size := by simp [emptyFrames, frameSize]
      simp only [prologueB, initCurrentFrame, exec_bind, exec_getS, exec_fnCell, exec_modS, hc, hheap, ProRB,
        h.mainFn]
      refine ⟨fun _ => k, k, 0, ?_⟩
      have hfs : ∀ i, (s.frames.modify 0 fun f =>
          { f with fn := some s.mainFn, free := fr, handlers := none, bp := 0, discard := false })[i]! =
          if 0 = i ∧ i < s.frames.size then
            ({ (s.frames[i]!) with fn := some s.mainFn, free := fr, handlers := none, bp := 0, discard := false } : Frame)
          else s.frames[i]! := fun i => getElem!_modify _ _ _ _
      have hft : ∀ i, (t.frames.modify 0 fun f =>
          { f with fn := some s.mainFn, free := fr, handlers := none, bp := 0, discard := false })[i]! =
          if 0 = i ∧ i < t.frames.size then
            ({ (t.frames[i]!) with fn := some s.mainFn, free := fr, handlers := none, bp := 0, discard := false } : Frame)
          else t.frames[i]! := fun i => getElem!_modify _ _ _ _
      exact {
        stack := h.stack, sp := by
          show ((t.codes[k]!).numLocals : Int) = ((s.codes[k]!).numLocals : Int)
          rw [h.codesS, h.codesT, hP.numLocals k], heap := h.heap,
        codesS := h.codesS, codesT := h.codesT, consts := h.consts, mainFn := rfl,
        numModules := h.numModules, globals := h.globals,
        modules := by simp [h.modules, h.numModules], err := h.err, abort := h.abort, steps := h.steps,
        traceOn := h.traceOn, noPanic := h.noPanic,
        ip := ⟨hE.2.1, by simp, by simp [hE.2.2]⟩,
        curFrame := rfl, frameIndex := rfl, link := by simp,
        fsS := by simp [h.framesS, emptyFrames], fsT := by simp [h.framesT, emptyFrames],
        cur := by simp [frameSize], curc := rfl, cok := hE.1, cis := fun _ _ => hE.1,
        frames := by
          intro i hi
          show FrRel _ _ _ (_ : Frame) (_ : Frame)
          rw [hfs, hft, h.framesS, h.framesT]
          by_cases h0 : 0 = i
          · subst h0
            simp only [hsz, and_self, if_true]
            exact ⟨rfl, rfl, rfl, rfl, trivial, fun hf => absurd hf (Nat.lt_irrefl 0)⟩
          · simp only [h0, false_and, if_false, emptyFrames_get]
            exact ⟨rfl, rfl, rfl, rfl, trivial, fun hf => absurd hf (Nat.not_lt_zero _)⟩,
        code := by
          intro i hi a ha
          have hi0 : i = 0 := Nat.le_zero.mp hi
          subst hi0
          have ha' := ha
          change ((s.frames.modify 0 _)[0]!).fn = some a at ha'
          rw [hfs, h.framesS] at ha'
          simp only [hsz, and_self, if_true] at ha'
          cases ha'
          refine ⟨?_, ?_⟩
          · rcases Nat.lt_or_ge s.mainFn s.heap.size with hl | hl
            · exact hl
            · rw [Array.getElem?_eq_none hl] at hc; cases hc
          · intro k' fr' hk
            have : s.heap[s.mainFn]? = some (Cell.fn k' fr') := hk
            rw [hc] at this
            cases this
            exact ⟨rfl, hE.1⟩,
        fnok := h.fnok }
    | _ => simp [prologueB, initCurrentFrame, exec_bind, exec_getS, exec_fnCell, exec_modS, hc, hheap, ProRB, h.mainFn]

/-- the prologue of `Run` on two VMs that hold the two programs and no frame in use ends the same
    way and leaves them related at offset 0 of `Main` -/
theorem prologue_RB (hP : P.OK) (g : V) (args : List V) {s t : State} (h : D P s t) :
    ProRB P (exec (prologue g args) s) (exec (prologue g args) t) := by
  rw [prologue_eq]
  rcases (relD_prologueA g).elim h with ⟨a, b, s1, t1, e1, e2, _, h1⟩ | ⟨e, s1, t1, e1, e2, _⟩
  · rcases (relD_initLocals hP args).elim h1 with ⟨a', b', s2, t2, e3, e4, _, h2⟩ | ⟨e, s2, t2, e3, e4, _⟩
    · simp only [exec_bind, e1, e2, e3, e4]
      exact prologueB_RB hP h2
    · simp only [exec_bind, e1, e2, e3, e4, ProRB]
  · simp only [exec_bind, e1, e2, ProRB]

/-- two new VMs (`NewVM`) over the two programs -/
theorem D_new (P : Params) (heap : Array Cell) (consts : Array V) (mainFn : Addr) (nm : Nat)
    (hfn : ∀ (a : Nat) k fr, heap[a]? = some (Cell.fn k fr) → P.Entry k) :
    D P (newState P.cs heap consts mainFn nm) (newState P.ct heap consts mainFn nm) :=
  { stack := rfl, sp := rfl, heap := rfl, codesS := rfl, codesT := rfl, consts := rfl, mainFn := rfl,
    numModules := rfl, globals := rfl, modules := rfl, err := rfl, abort := rfl, steps := rfl, traceOn := rfl,
    noPanic := rfl, framesS := rfl, framesT := rfl, fnok := hfn }

/-- **Run-level relocation theorem for the VM model.**  `P` describes two programs: per function the
    source stream (layout `P.wide`), the target stream (current layout), the offset map and the
    instruction offsets, related by `CodeRel`.  From two VMs holding the same data (`D`), `Run` on the
    source VM and `VM.runFrom` (the VM model) on the target return the same outcome, for every fuel,
    globals and arguments, whether or not panics are recovered. -/
theorem vm_reloc (hP : P.OK) (F : FloatOps) (fuel : Nat) (g : V) (args : List V) {s0 t0 : State} (h : D P s0 t0) :
    (runFromW P.wide F fuel g args s0).1 = (runFrom F fuel g args t0).1 := by
  rw [← runFromG_step]
  exact rel_runFromG (vm_step hP F) rel_handlePanic fuel g args s0 t0 (prologue_RB hP g args h)

end UgoVerif.VM.Reloc
