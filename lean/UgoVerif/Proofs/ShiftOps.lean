import UgoVerif.Proofs.Shift
/-
  C14, `frame_shift`: the covered opcodes preserve the offset relation `Sh` (Proofs/Shift.lean).
-/
set_option linter.unusedSimpArgs false
set_option linter.unusedVariables false
namespace UgoVerif.Proofs.Shift
open UgoVerif UgoVerif.Go UgoVerif.VM

/-- after one covered instruction: both VMs continue in related states, or the child's loop
    returns with `vm.err` set (an error nobody in the callee handles: the child's `Run` returns it) -/
def PostC (bp k L : Nat) (r r' : Ctl) (s t : State) : Prop :=
  (r = .next ∧ r' = .next ∧ ShB bp k L s t) ∨ (r = .ret ∧ s.err ≠ none)

section
variable {bp k N L : Nat} {a : Int}

theorem sh_next (ha : a ≤ N) (hL : L ≤ N) :
    RelS (Sh bp k N a) (PostC bp k L) (pure Ctl.next) (pure Ctl.next) :=
  RelS.pure (fun s t h => Or.inl ⟨rfl, rfl, N, a, h, ha, hL⟩)

theorem sh_pushV (v : V) (ha : a ≤ N) :
    RelS (Sh bp k N a) (PQ (fun _ _ => True) (Sh bp k (max N (a.toNat + 1)) (a + 1))) (pushV v) (pushV v) := by
  unfold pushV
  refine RelS.bindV sh_getSp ?_
  rintro _ _ ⟨rfl, rfl⟩
  refine RelS.bindV (sh_stackSet _ _ _ rfl (max N (a.toNat + 1)) (by intro h0; omega)) ?_
  intro _ _ _
  exact sh_setSp _ _ (by omega)


/-! ### an error nobody in the callee handles -/

theorem foldl_fuel_ge (g : Nat → Frame → Nat) (hg : ∀ n f, n ≤ g n f) (l : List Frame) (n : Nat) : n ≤ l.foldl g n := by
  induction l generalizing n with
  | nil => exact Nat.le_refl _
  | cons f r ih => exact Nat.le_trans (hg n f) (ih _)

/-- `failWith` in the child (frame 0 is the only frame, it has no handler): the error is not
    handled, `vm.err` is set and the loop returns -/
theorem failWith_child (e : OpErr) (s : State) (hc : s.curFrame = 0) (hfi : s.frameIndex = 1)
    (hh : (s.frames[0]!).handlers = none) :
    ∀ r s', exec (failWith e) s = (.ok r, s') → r = .ret ∧ s'.err ≠ none := by
  intro r s' h
  simp only [failWith, throwGenErr, exec_bind] at h
  have l1 := (foot_rtErrOfOpErr e).loc s
  rcases e1 : exec (rtErrOfOpErr e) s with ⟨r1, s1⟩
  rw [e1] at h l1
  simp only at l1
  cases r1 with
  | error x => simp at h
  | ok ra =>
    simp only at h
    have hc1 : s1.curFrame = 0 := by rw [l1]; exact hc
    have hfi1 : s1.frameIndex = 1 := by rw [l1]; exact hfi
    have hh1 : (s1.frames[0]!).handlers = none := by rw [l1]; exact hh
    have ef : ∃ n, exec throwFuel s1 = (.ok (n + 1), s1) := by
      have : exec throwFuel s1 = (.ok (s1.frames.foldl (fun n f => n + (match f.handlers with | some hs => hs.length | none => 0) + 1) 4), s1) := rfl
      rw [this]
      have hge : 4 ≤ s1.frames.foldl (fun n f => n + (match f.handlers with | some hs => hs.length | none => 0) + 1) 4 := by
        rw [← Array.foldl_toList]
        exact foldl_fuel_ge _ (fun n f => by omega) _ _
      exact ⟨s1.frames.foldl (fun n f => n + (match f.handlers with | some hs => hs.length | none => 0) + 1) 4 - 1, by
        congr 2; omega⟩
    obtain ⟨n, ef⟩ := ef
    rw [ef] at h
    simp only at h
    have et : exec (throwF (n + 1) ra) s1 = (.ok (some ra), s1) := by
      unfold throwF
      have hcf : exec curFrame s1 = (.ok (s1.frames[0]!), s1) := by
        have : exec curFrame s1 = (.ok (s1.frames[s1.curFrame]!), s1) := rfl
        rw [this, hc1]
      have hnh : hasHandler (s1.frames[0]!) = false := by simp [hasHandler, hh1]
      simp only [exec_bind, hcf, hnh, Bool.false_eq_true, if_false, exec_getS, hfi1]
      have : ((1 : Int) - 1).toNat = 0 := by decide
      rw [this]
      simp [searchFrames, exec_pure, exec_bind]
    rw [et] at h
    simp only [exec_bind, exec_modS, exec_pure, Prod.mk.injEq, Except.ok.injEq] at h
    obtain ⟨rfl, rfl⟩ := h
    exact ⟨rfl, by simp⟩

theorem sh_failWith (e : OpErr) : RelS (Sh bp k N a) (PostC bp k L) (failWith e) (failWith e) := by
  intro s t h r s' r' t' h1 h2
  have := failWith_child e s h.curS h.fiS h.frame.hS r s' h1
  exact Or.inr this

/-! ### more primitive rules -/

/-- the local-variable operand of the current instruction is below `L` (= `NumLocals`) -/
def OpLt (L : Nat) (s : State) : Prop := ∀ idx s', exec (opnd1 1) s = (.ok idx, s') → idx < L

theorem sh_opnd1_lt :
    RelS (fun s t => Sh bp k N a s t ∧ OpLt L s) (PQ (fun x y => x = y ∧ x < L) (Sh bp k N a)) (opnd1 1) (opnd1 1) := by
  intro s t h x s' y t' h1 h2
  have := sh_foot (foot_opnd1 1) s t h.1 x s' y t' h1 h2
  exact ⟨⟨this.1, h.2 x s' h1⟩, this.2⟩

theorem sh_getS : RelS (Sh bp k N a) (PQ (Sh bp k N a) (Sh bp k N a)) getS getS := by
  intro s t h x s' y t' h1 h2
  simp only [exec_getS, Prod.mk.injEq, Except.ok.injEq] at h1 h2
  obtain ⟨rfl, rfl⟩ := h1
  obtain ⟨rfl, rfl⟩ := h2
  exact ⟨h, h⟩

theorem sh_setModule (i : Nat) (v : V) :
    RelS (Sh bp k N a) (PQ (fun _ _ => True) (Sh bp k N a))
      (modS fun s => { s with modules := s.modules.set! i v }) (modS fun s => { s with modules := s.modules.set! i v }) := by
  intro s t h x s' y t' h1 h2
  simp only [exec_modS, Prod.mk.injEq, Except.ok.injEq] at h1 h2
  obtain ⟨_, rfl⟩ := h1
  obtain ⟨_, rfl⟩ := h2
  exact ⟨trivial, { h with modules := by simp [h.modules], shapeS := ⟨h.shapeS.stack, h.shapeS.frames⟩,
                            shapeT := ⟨h.shapeT.stack, h.shapeT.frames⟩ }⟩

theorem exec_stackSlice' (lo hi : Int) (s : State) :
    exec (stackSlice lo hi) s =
      if lo < 0 || hi > (stackSize : Int) || lo > hi then
        (.error (.panic s!"runtime error: slice bounds out of range [{lo}:{hi}]"), s)
      else (.ok ((s.stack.toList.drop lo.toNat).take (hi - lo).toNat), s) := by
  unfold stackSlice
  split
  · rfl
  · simp only [exec_bind, exec_getS, exec_pure]

theorem sh_stackSlice (lo hi lo' hi' : Int) (h1 : lo' = lo + bp) (h2 : hi' = hi + bp) (hN : hi ≤ N) :
    RelS (Sh bp k N a) (PQ Eq (Sh bp k N a)) (stackSlice lo hi) (stackSlice lo' hi') := by
  intro s t h x s' y t' e1 e2
  rw [exec_stackSlice'] at e1 e2
  by_cases hb : (decide (lo < 0) || decide (hi > (stackSize : Int)) || decide (lo > hi)) = true
  · rw [if_pos hb] at e1; simp at e1
  · rw [if_neg hb] at e1
    by_cases hb' : (decide (lo' < 0) || decide (hi' > (stackSize : Int)) || decide (lo' > hi')) = true
    · rw [if_pos hb'] at e2; simp at e2
    · rw [if_neg hb'] at e2
      simp only [Prod.mk.injEq, Except.ok.injEq] at e1 e2
      obtain ⟨rfl, rfl⟩ := e1
      obtain ⟨rfl, rfl⟩ := e2
      simp only [Bool.or_eq_true, decide_eq_true_eq, not_or, Int.not_lt, ge_iff_le, Int.not_le] at hb hb'
      refine ⟨?_, h⟩
      apply List.ext_getElem?
      intro i
      have e : (hi' - lo').toNat = (hi - lo).toNat := by omega
      rw [e]
      simp only [List.getElem?_take, List.getElem?_drop]
      by_cases hlt : i < (hi - lo).toNat
      · simp only [hlt, if_true]
        have hs := h.stack (lo.toNat + i) (by omega)
        have hsz1 := h.shapeS.stack
        have hsz2 := h.shapeT.stack
        have l1 : lo.toNat + i < s.stack.size := by rw [hsz1]; omega
        have l2 : lo'.toNat + i < t.stack.size := by rw [hsz2]; omega
        have e' : bp + (lo.toNat + i) = lo'.toNat + i := by omega
        rw [e', getElem!_pos s.stack _ l1, getElem!_pos t.stack _ l2] at hs
        simp only [Array.getElem?_toList, Array.getElem?_eq_getElem l1, Array.getElem?_eq_getElem l2, hs]
      · simp only [hlt, if_false]

theorem sh_stackSet_grow (i j : Int) (v : V) (hj : j = i + bp) (hi : i ≤ N) :
    RelS (Sh bp k N a) (PQ (fun _ _ => True) (Sh bp k (max N (i.toNat + 1)) a)) (stackSet i v) (stackSet j v) :=
  sh_stackSet i j v hj _ (by intro h0; omega)

/-! ### automation -/

syntax "sh_prim" : tactic
syntax "sh1" : tactic
syntax "shrun" : tactic
macro_rules | `(tactic| sh_prim) => `(tactic| first
  | exact sh_getSp
  | exact sh_setSp _ _ (by omega)
  | exact sh_stackGet _ _ (by omega) (by omega)
  | exact sh_stackSet_grow _ _ _ (by omega) (by omega)
  | exact sh_stackSet _ _ _ (by omega) _ (fun _ => Or.inl (Nat.le_refl _))
  | exact sh_stackSlice _ _ _ _ (by omega) (by omega) (by omega)
  | exact sh_pushV _ (by omega)
  | exact sh_setIp _
  | exact sh_bumpIp _
  | exact sh_setModule _ _
  | (apply sh_foot; foot; all_goals fail "foot: stuck")
  | (refine RelS.forIn_upto (VR := Eq) _ _ _ _ _ rfl ?_
     intro i__ hi__ b__ b'__ hb__
     subst hb__
     shrun)
  | (refine RelS.forIn_upto (VR := fun _ _ => True) _ _ _ _ _ trivial ?_
     intro i__ hi__ b__ b'__ hb__
     shrun))

macro_rules | `(tactic| sh1) => `(tactic| first
  | exact sh_failWith _
  | exact sh_next (by omega) (by omega)
  | exact RelS.errL _
  | exact RelS.pure (fun _ _ h => ⟨Or.inl ⟨_, _, rfl, rfl, rfl⟩, Sh.mono h (by omega)⟩)
  | exact RelS.pure (fun _ _ h => ⟨Or.inl ⟨_, _, rfl, rfl, trivial⟩, Sh.mono h (by omega)⟩)
  | ((with_reducible apply RelS.bindV)
     · sh_prim
     intro x__ y__ h__
     first
       | (obtain ⟨h1__, h2__⟩ := h__; subst h1__; subst h2__)
       | subst h__
       | skip)
  | ((with_reducible apply RelS.bindV)
     · exact sh_curFrame
     intro f__ g__ h__
     obtain ⟨fn1__, fr1__, ip1__, bp1__, hs1__, d1__⟩ := f__
     obtain ⟨fn2__, fr2__, ip2__, bp2__, hs2__, d2__⟩ := g__
     obtain ⟨e1__, e2__, e3__, e4__, e5__, e6__, e7__⟩ := h__
     simp only at e1__ e2__ e3__ e4__ e5__ e6__ e7__
     subst e1__ e2__ e3__ e4__ e5__ e6__ e7__
     dsimp only)
  | ((with_reducible apply RelS.bindV)
     · exact sh_getS
     intro x__ y__ h__
     have hm__ := h__.modules
     have hg__ := h__.globals
     simp only [hm__, hg__]
     clear hm__ hg__ h__)
  | apply RelS.ite
  | split
  | simp only [bind_assoc, pure_bind]
  | dsimp only)

macro_rules | `(tactic| shrun) => `(tactic| repeat sh1)

theorem sh_execPop (ha : a ≤ N) (hL : L ≤ N) : RelS (Sh bp k N a) (PostC bp k L) execPop execPop := by
  unfold execPop; shrun
theorem sh_execNull (ha : a ≤ N) (hL : L ≤ N) : RelS (Sh bp k N a) (PostC bp k L) execNull execNull := by
  unfold execNull; shrun
theorem sh_execTrue (ha : a ≤ N) (hL : L ≤ N) : RelS (Sh bp k N a) (PostC bp k L) execTrue execTrue := by
  unfold execTrue; shrun
theorem sh_execFalse (ha : a ≤ N) (hL : L ≤ N) : RelS (Sh bp k N a) (PostC bp k L) execFalse execFalse := by
  unfold execFalse; shrun
theorem sh_execNoOp (ha : a ≤ N) (hL : L ≤ N) : RelS (Sh bp k N a) (PostC bp k L) execNoOp execNoOp := by
  unfold execNoOp; shrun
theorem sh_execConstant (ha : a ≤ N) (hL : L ≤ N) : RelS (Sh bp k N a) (PostC bp k L) execConstant execConstant := by
  unfold execConstant; shrun
theorem sh_execGetBuiltin (ha : a ≤ N) (hL : L ≤ N) : RelS (Sh bp k N a) (PostC bp k L) execGetBuiltin execGetBuiltin := by
  unfold execGetBuiltin; shrun
theorem sh_execJump (ha : a ≤ N) (hL : L ≤ N) : RelS (Sh bp k N a) (PostC bp k L) execJump execJump := by
  unfold execJump; shrun
theorem sh_execJumpFalsy (ha : a ≤ N) (hL : L ≤ N) : RelS (Sh bp k N a) (PostC bp k L) execJumpFalsy execJumpFalsy := by
  unfold execJumpFalsy; shrun
theorem sh_execAndJump (ha : a ≤ N) (hL : L ≤ N) : RelS (Sh bp k N a) (PostC bp k L) execAndJump execAndJump := by
  unfold execAndJump; shrun
theorem sh_execOrJump (ha : a ≤ N) (hL : L ≤ N) : RelS (Sh bp k N a) (PostC bp k L) execOrJump execOrJump := by
  unfold execOrJump; shrun
theorem sh_execEqual (F : FloatOps) (op : Nat) (ha : a ≤ N) (hL : L ≤ N) :
    RelS (Sh bp k N a) (PostC bp k L) (execEqual F op) (execEqual F op) := by
  unfold execEqual; shrun
theorem sh_execBinaryOp (F : FloatOps) (ha : a ≤ N) (hL : L ≤ N) :
    RelS (Sh bp k N a) (PostC bp k L) (execBinaryOp F) (execBinaryOp F) := by
  unfold execBinaryOp; shrun
theorem sh_execUnary (F : FloatOps) (ha : a ≤ N) (hL : L ≤ N) :
    RelS (Sh bp k N a) (PostC bp k L) (execUnary F) (execUnary F) := by
  unfold execUnary; shrun


theorem sh_execGetLocal (ha : a ≤ N) (hL : L ≤ N) :
    RelS (fun s t => Sh bp k N a s t ∧ OpLt L s) (PostC bp k L) execGetLocal execGetLocal := by
  unfold execGetLocal
  refine RelS.bindV sh_opnd1_lt ?_
  intro idx _ ⟨h1, hidx⟩
  subst h1
  shrun
theorem sh_execSetLocal (ha : a ≤ N) (hL : L ≤ N) :
    RelS (fun s t => Sh bp k N a s t ∧ OpLt L s) (PostC bp k L) execSetLocal execSetLocal := by
  unfold execSetLocal
  refine RelS.bindV sh_opnd1_lt ?_
  intro idx _ ⟨h1, hidx⟩
  subst h1
  shrun
theorem sh_execGetLocalPtr (ha : a ≤ N) (hL : L ≤ N) :
    RelS (fun s t => Sh bp k N a s t ∧ OpLt L s) (PostC bp k L) execGetLocalPtr execGetLocalPtr := by
  unfold execGetLocalPtr
  refine RelS.bindV sh_opnd1_lt ?_
  intro idx _ ⟨h1, hidx⟩
  subst h1
  shrun
theorem sh_execDefineLocal (ha : a ≤ N) (hL : L ≤ N) : RelS (Sh bp k N a) (PostC bp k L) execDefineLocal execDefineLocal := by
  unfold execDefineLocal; shrun
theorem sh_execGetFree (ha : a ≤ N) (hL : L ≤ N) : RelS (Sh bp k N a) (PostC bp k L) execGetFree execGetFree := by
  unfold execGetFree; shrun
theorem sh_execSetFree (ha : a ≤ N) (hL : L ≤ N) : RelS (Sh bp k N a) (PostC bp k L) execSetFree execSetFree := by
  unfold execSetFree; shrun
theorem sh_execGetFreePtr (ha : a ≤ N) (hL : L ≤ N) : RelS (Sh bp k N a) (PostC bp k L) execGetFreePtr execGetFreePtr := by
  unfold execGetFreePtr; shrun
theorem sh_execGetGlobal (ha : a ≤ N) (hL : L ≤ N) : RelS (Sh bp k N a) (PostC bp k L) execGetGlobal execGetGlobal := by
  unfold execGetGlobal; shrun
theorem sh_execSetGlobal (ha : a ≤ N) (hL : L ≤ N) : RelS (Sh bp k N a) (PostC bp k L) execSetGlobal execSetGlobal := by
  unfold execSetGlobal; shrun
theorem sh_execSetIndex (ha : a ≤ N) (hL : L ≤ N) : RelS (Sh bp k N a) (PostC bp k L) execSetIndex execSetIndex := by
  unfold execSetIndex; shrun
set_option maxHeartbeats 3200000 in
theorem sh_execSliceIndex (ha : a ≤ N) (hL : L ≤ N) : RelS (Sh bp k N a) (PostC bp k L) execSliceIndex execSliceIndex := by
  unfold execSliceIndex; shrun
theorem sh_execIterInit (ha : a ≤ N) (hL : L ≤ N) : RelS (Sh bp k N a) (PostC bp k L) execIterInit execIterInit := by
  unfold execIterInit; shrun
set_option maxHeartbeats 3200000 in
theorem sh_execIterNext (op : Nat) (ha : a ≤ N) (hL : L ≤ N) :
    RelS (Sh bp k N a) (PostC bp k L) (execIterNext op) (execIterNext op) := by
  unfold execIterNext; shrun
theorem sh_execLoadModule (ha : a ≤ N) (hL : L ≤ N) : RelS (Sh bp k N a) (PostC bp k L) execLoadModule execLoadModule := by
  unfold execLoadModule; shrun
theorem sh_execStoreModule (ha : a ≤ N) (hL : L ≤ N) : RelS (Sh bp k N a) (PostC bp k L) execStoreModule execStoreModule := by
  unfold execStoreModule; shrun

theorem sh_execArray (ha : a ≤ N) (hL : L ≤ N) : RelS (Sh bp k N a) (PostC bp k L) execArray execArray := by
  unfold execArray; shrun
theorem sh_execClosure (ha : a ≤ N) (hL : L ≤ N) : RelS (Sh bp k N a) (PostC bp k L) execClosure execClosure := by
  unfold execClosure; shrun

theorem sh_execGetIndex (ha : a ≤ N) (hL : L ≤ N) : RelS (Sh bp k N a) (PostC bp k L) execGetIndex execGetIndex := by
  unfold execGetIndex
  sh1; sh1; sh1
  refine RelS.bind (RelS.forIn_upto_exit (A := Sh bp k N a)
      (VR := fun u u' => u = u' ∧ u.1 = none)
      (E := fun u u' s t => ∃ r r', u.1 = some r ∧ u'.1 = some r' ∧ PostC bp k L r r' s t) _ _ _ _ _ ⟨rfl, rfl⟩ ?_) ?_
  · intro i hi b b' hb
    obtain ⟨hb1, hb2⟩ := hb
    subst hb1
    refine RelS.bindV (sh_stackGet _ _ (by omega) (by omega)) ?_
    intro index _ h; subst h
    refine RelS.bindV (sh_stackSet _ _ _ (by omega) _ (fun _ => Or.inl (Nat.le_refl _))) ?_
    intro _ _ _
    refine RelS.bindV (sh_foot (foot_vIndexGet _ _)) ?_
    intro res _ h; subst h
    split
    · -- error: the adjusted error is thrown
      refine RelS.bindV (B := Sh bp k N a) (VR := Eq) ?_ ?_
      · apply sh_foot; foot
      · intro e' _ h; subst h
        refine RelS.bind (sh_failWith (L := L) e') ?_
        intro r r'
        exact RelS.pure (fun s t h => Or.inr ⟨_, _, rfl, rfl, r, r', rfl, rfl, h⟩)
    · exact RelS.pure (fun s t h => Or.inl ⟨_, _, rfl, rfl, ⟨rfl, rfl⟩, h⟩)
  · intro x y
    refine RelS.pre_or ?_ ?_
    · refine RelS.pre_and fun hxy => ?_
      obtain ⟨h1, h2⟩ := hxy
      subst h1
      obtain ⟨o, v1, v2⟩ := x
      simp only at h2
      subst h2
      dsimp only
      shrun
    · refine RelS.pre_exists fun r => RelS.pre_exists fun r' => ?_
      refine RelS.pre_and fun hx => RelS.pre_and fun hy => ?_
      rw [hx, hy]
      exact RelS.pure (fun s t h => h)

/-- the operand of MAP (number of stack items: keys and values) is even -/
def OpEven (s : State) : Prop := ∀ n s', exec (opnd2 1) s = (.ok n, s') → n % 2 = 0

theorem sh_opnd2_even :
    RelS (fun s t => Sh bp k N a s t ∧ OpEven s) (PQ (fun x y => x = y ∧ x % 2 = 0) (Sh bp k N a)) (opnd2 1) (opnd2 1) := by
  intro s t h x s' y t' h1 h2
  have := sh_foot (foot_opnd2 1) s t h.1 x s' y t' h1 h2
  exact ⟨⟨this.1, h.2 x s' h1⟩, this.2⟩

theorem sh_execMap (ha : a ≤ N) (hL : L ≤ N) :
    RelS (fun s t => Sh bp k N a s t ∧ OpEven s) (PostC bp k L) execMap execMap := by
  unfold execMap
  refine RelS.bindV sh_opnd2_even ?_
  intro n _ ⟨h1, hn⟩
  subst h1
  shrun

/-! ### dispatch and `step` -/

/-- the opcodes covered by `frame_shift_partial`: everything except CALL, CALLNAME, RETURN, THROW and
    SETUPTRY / SETUPCATCH / SETUPFINALLY / FINALIZER (handler stack) -/
def coveredOps : List Nat :=
  [OpNoOp, OpConstant, OpGetGlobal, OpSetGlobal, OpGetLocal, OpSetLocal, OpGetBuiltin, OpBinaryOp, OpUnary,
   OpEqual, OpNotEqual, OpJump, OpJumpFalsy, OpAndJump, OpOrJump, OpArray, OpSliceIndex, OpSetIndex, OpNull, OpPop,
   OpGetFree, OpSetFree, OpGetLocalPtr, OpGetFreePtr, OpClosure, OpIterInit, OpIterNext, OpIterKey, OpIterValue,
   OpLoadModule, OpStoreModule, OpDefineLocal, OpTrue, OpFalse, OpMap, OpGetIndex]

/-- the covered opcodes that READ a local slot addressed by their operand -/
def localReadOps : List Nat := [OpGetLocal, OpSetLocal, OpGetLocalPtr]

theorem sh_dispatch (F : FloatOps) (op : Nat) (hcov : op ∈ coveredOps) (ha : a ≤ N) (hL : L ≤ N) :
    RelS (fun s t => Sh bp k N a s t ∧ (op ∈ localReadOps → OpLt L s) ∧ (op = OpMap → OpEven s)) (PostC bp k L)
      (dispatch F op) (dispatch F op) := by
  have weak : ∀ {m : M Ctl}, RelS (Sh bp k N a) (PostC bp k L) m m →
      RelS (fun s t => Sh bp k N a s t ∧ (op ∈ localReadOps → OpLt L s) ∧ (op = OpMap → OpEven s)) (PostC bp k L) m m :=
    fun h => h.conseq (fun _ _ h => h.1) (fun _ _ _ _ h => h)
  simp only [coveredOps, List.mem_cons, List.not_mem_nil, or_false] at hcov
  rcases hcov with h | h | h | h | h | h | h | h | h | h | h | h | h | h | h | h | h | h | h | h | h | h | h | h | h | h | h | h | h | h | h | h | h | h | h | h <;> subst h
  · exact weak (sh_execNoOp ha hL)
  · exact weak (sh_execConstant ha hL)
  · exact weak (sh_execGetGlobal ha hL)
  · exact weak (sh_execSetGlobal ha hL)
  · exact (sh_execGetLocal ha hL).conseq (fun _ _ h => ⟨h.1, h.2.1 (by simp [localReadOps])⟩) (fun _ _ _ _ h => h)
  · exact (sh_execSetLocal ha hL).conseq (fun _ _ h => ⟨h.1, h.2.1 (by simp [localReadOps])⟩) (fun _ _ _ _ h => h)
  · exact weak (sh_execGetBuiltin ha hL)
  · exact weak (sh_execBinaryOp F ha hL)
  · exact weak (sh_execUnary F ha hL)
  · exact weak (sh_execEqual F _ ha hL)
  · exact weak (sh_execEqual F _ ha hL)
  · exact weak (sh_execJump ha hL)
  · exact weak (sh_execJumpFalsy ha hL)
  · exact weak (sh_execAndJump ha hL)
  · exact weak (sh_execOrJump ha hL)
  · exact weak (sh_execArray ha hL)
  · exact weak (sh_execSliceIndex ha hL)
  · exact weak (sh_execSetIndex ha hL)
  · exact weak (sh_execNull ha hL)
  · exact weak (sh_execPop ha hL)
  · exact weak (sh_execGetFree ha hL)
  · exact weak (sh_execSetFree ha hL)
  · exact (sh_execGetLocalPtr ha hL).conseq (fun _ _ h => ⟨h.1, h.2.1 (by simp [localReadOps])⟩) (fun _ _ _ _ h => h)
  · exact weak (sh_execGetFreePtr ha hL)
  · exact weak (sh_execClosure ha hL)
  · exact weak (sh_execIterInit ha hL)
  · exact weak (sh_execIterNext _ ha hL)
  · exact weak (sh_execIterNext _ ha hL)
  · exact weak (sh_execIterNext _ ha hL)
  · exact weak (sh_execLoadModule ha hL)
  · exact weak (sh_execStoreModule ha hL)
  · exact weak (sh_execDefineLocal ha hL)
  · exact weak (sh_execTrue ha hL)
  · exact weak (sh_execFalse ha hL)
  · exact (sh_execMap ha hL).conseq (fun _ _ h => ⟨h.1, h.2.2 rfl⟩) (fun _ _ _ _ h => h)
  · exact weak (sh_execGetIndex ha hL)

/-- `vm.ip++ ; vm.curInsts[vm.ip]` -/
def fetchOp : M Nat := do
  bumpIp 1
  instAt (← getIp)

theorem step_eq (F : FloatOps) : step F = (fetchOp >>= fun op => noteTrace op >>= fun _ => dispatch F op) := by
  simp only [step, fetchOp, bind_assoc]

/-- what is asked of the instruction about to be executed by the child: it is a covered opcode;
    if it reads a local slot, its operand is below `L` (`NumLocals` of the function); if it is MAP, its
    operand (keys + values) is even -/
def StepOk (L : Nat) (s : State) : Prop :=
  ∀ op s1, exec fetchOp s = (.ok op, s1) → op ∈ coveredOps ∧ (op ∈ localReadOps → OpLt L s1) ∧ (op = OpMap → OpEven s1)

theorem sh_fetchOp : RelS (Sh bp k N a) (PQ Eq (Sh bp k N a)) fetchOp fetchOp := by
  unfold fetchOp
  refine RelS.bindV (sh_bumpIp 1) ?_
  intro _ _ _
  refine RelS.bindV sh_getIp ?_
  intro x y h
  subst h
  exact sh_foot (foot_instAt _)

theorem OpLt_noteTrace (op : Nat) (s s' : State) (r : Unit) (h : OpLt L s) (e : exec (noteTrace op) s = (.ok r, s')) :
    OpLt L s' := by
  have hv : view s' = view s := by
    have : ∃ tr st, exec (noteTrace op) s = (.ok (), { s with trace := tr, steps := st }) := by
      unfold noteTrace
      simp only [exec_bind, exec_getS]
      split
      · exact ⟨_, _, rfl⟩
      · exact ⟨_, _, rfl⟩
    obtain ⟨tr, st, e'⟩ := this
    rw [e'] at e
    simp only [Prod.mk.injEq, Except.ok.injEq] at e
    rw [← e.2]
    rfl
  intro idx s'' e1
  have d := (foot_opnd1 1).dep s' s hv
  rw [e1] at d
  rcases e2 : exec (opnd1 1) s with ⟨r2, s2⟩
  rw [e2] at d
  simp only at d
  exact h idx s2 (by rw [e2, ← d.1])

theorem OpEven_noteTrace (op : Nat) (s s' : State) (r : Unit) (h : OpEven s) (e : exec (noteTrace op) s = (.ok r, s')) :
    OpEven s' := by
  have hv : view s' = view s := by
    have : ∃ tr st, exec (noteTrace op) s = (.ok (), { s with trace := tr, steps := st }) := by
      unfold noteTrace
      simp only [exec_bind, exec_getS]
      split
      · exact ⟨_, _, rfl⟩
      · exact ⟨_, _, rfl⟩
    obtain ⟨tr, st, e'⟩ := this
    rw [e'] at e
    simp only [Prod.mk.injEq, Except.ok.injEq] at e
    rw [← e.2]
    rfl
  intro n s'' e1
  have d := (foot_opnd2 1).dep s' s hv
  rw [e1] at d
  rcases e2 : exec (opnd2 1) s with ⟨r2, s2⟩
  rw [e2] at d
  simp only at d
  exact h n s2 (by rw [e2, ← d.1])

/-- **frame_shift_partial.**  One instruction of the child (frame 0, base 0) and one instruction of
    the parent inside the callee's frame (frame k, base bp), started in `ShB`-related states, when the
    instruction is a covered opcode: if both `step`s end normally, either both continue and the states
    are `ShB`-related again, or the child's loop returns with `vm.err` set (the error was raised inside
    the callee, which has no handler: the child's `Run` returns it to the Go caller). -/
theorem frame_shift_partial (F : FloatOps) :
    RelS (fun s t => ShB bp k L s t ∧ StepOk L s) (PostC bp k L) (step F) (step F) := by
  intro s t ⟨⟨N, a, h, ha, hL⟩, hok⟩ r s' r' t' h1 h2
  rw [step_eq, exec_bind] at h1 h2
  rcases e1 : exec fetchOp s with ⟨r1, s1⟩
  rcases e2 : exec fetchOp t with ⟨r2, t1⟩
  rw [e1] at h1
  rw [e2] at h2
  cases r1 with
  | error e => simp at h1
  | ok op =>
    cases r2 with
    | error e => simp at h2
    | ok op' =>
      simp only at h1 h2
      obtain ⟨hop, hs1⟩ := sh_fetchOp s t h op s1 op' t1 e1 e2
      subst hop
      obtain ⟨hcov, hloc, hev⟩ := hok op s1 e1
      rw [exec_bind] at h1 h2
      rcases e3 : exec (noteTrace op) s1 with ⟨r3, s2⟩
      rcases e4 : exec (noteTrace op) t1 with ⟨r4, t2⟩
      rw [e3] at h1
      rw [e4] at h2
      cases r3 with
      | error e => simp at h1
      | ok u =>
        cases r4 with
        | error e => simp at h2
        | ok u' =>
          simp only at h1 h2
          have hs2 := (sh_noteTrace op s1 t1 hs1 u s2 u' t2 e3 e4).2
          exact sh_dispatch F op hcov ha hL s2 t2 ⟨hs2, fun hl => OpLt_noteTrace op s1 s2 u (hloc hl) e3, fun hm => OpEven_noteTrace op s1 s2 u (hev hm) e3⟩ r s' r' t' h1 h2

/-! ### several instructions -/

/-- `n` iterations of the loop body (no abort check): `none` = a Go panic / outside the model -/
def runSteps (F : FloatOps) : Nat → State → Option (Ctl × State)
  | 0, s => some (.next, s)
  | n+1, s =>
    match exec (step F) s with
    | (.ok .next, s') => runSteps F n s'
    | (.ok .ret, s') => some (.ret, s')
    | (.error _, _) => none

/-- every instruction the child executes during its next `n` steps is a covered one -/
def CoveredRun (F : FloatOps) (L : Nat) : Nat → State → Prop
  | 0, _ => True
  | n+1, s => StepOk L s ∧ ∀ s', exec (step F) s = (.ok .next, s') → CoveredRun F L n s'

/-- **steps_shift_partial.**  `frame_shift_partial` iterated: after any number of covered instructions,
    if neither VM panicked or left the model, both are still running in `ShB`-related states, or the
    child has stopped with `vm.err` set. -/
theorem steps_shift_partial (F : FloatOps) (n : Nat) : ∀ s t, ShB bp k L s t → CoveredRun F L n s →
    ∀ r s' r' t', runSteps F n s = some (r, s') → runSteps F n t = some (r', t') → PostC bp k L r r' s' t' := by
  induction n with
  | zero =>
    intro s t h _ r s' r' t' h1 h2
    simp only [runSteps, Option.some.injEq, Prod.mk.injEq] at h1 h2
    obtain ⟨rfl, rfl⟩ := h1
    obtain ⟨rfl, rfl⟩ := h2
    exact Or.inl ⟨rfl, rfl, h⟩
  | succ n ih =>
    intro s t h hc r s' r' t' h1 h2
    obtain ⟨hok, hnext⟩ := hc
    simp only [runSteps] at h1 h2
    rcases e1 : exec (step F) s with ⟨r1, s1⟩
    rcases e2 : exec (step F) t with ⟨r2, t1⟩
    rw [e1] at h1
    rw [e2] at h2
    cases r1 with
    | error e => simp at h1
    | ok c1 =>
      cases r2 with
      | error e => simp at h2
      | ok c2 =>
        have hp := frame_shift_partial F s t ⟨h, hok⟩ c1 s1 c2 t1 e1 e2
        rcases hp with ⟨rfl, rfl, hsh⟩ | ⟨rfl, herr⟩
        · simp only at h1 h2
          exact ih s1 t1 hsh (hnext s1 e1) r s' r' t' h1 h2
        · simp only [Option.some.injEq, Prod.mk.injEq] at h1
          obtain ⟨rfl, rfl⟩ := h1
          exact Or.inr ⟨rfl, herr⟩

end
end UgoVerif.Proofs.Shift
