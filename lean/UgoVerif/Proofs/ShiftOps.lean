import UgoVerif.Proofs.Shift
/-
  C14, `frame_shift`: the covered opcodes preserve the offset relation `Sh` (Proofs/Shift.lean).
-/
set_option linter.unusedSimpArgs false
set_option linter.unusedVariables false
namespace UgoVerif.Proofs.Shift
open UgoVerif UgoVerif.Go UgoVerif.VM

/-- after one covered instruction: both VMs continue in related states, or the child's loop
    returns with `vm.err` set (an error nobody in the callee handles: the child's `Run` returns it) -/
def PostC (bp k L : Nat) (r r' : Ctl) (s t : State) : Prop :=
  (r = .next ∧ r' = .next ∧ ShB bp k L s t) ∨ (r = .ret ∧ s.err ≠ none)

section
variable {bp k N L : Nat} {a : Int}

theorem sh_next (ha : a ≤ N) (hL : L ≤ N) :
    RelS (Sh bp k N a) (PostC bp k L) (pure Ctl.next) (pure Ctl.next) :=
  RelS.pure (fun s t h => Or.inl ⟨rfl, rfl, N, a, h, ha, hL⟩)

theorem sh_pushV (v : V) (ha : a ≤ N) :
    RelS (Sh bp k N a) (PQ (fun _ _ => True) (Sh bp k (max N (a.toNat + 1)) (a + 1))) (pushV v) (pushV v) := by
  unfold pushV
  refine RelS.bindV sh_getSp ?_
  rintro _ _ ⟨rfl, rfl⟩
  refine RelS.bindV (sh_stackSet _ _ _ rfl (max N (a.toNat + 1)) (by intro h0; omega)) ?_
  intro _ _ _
  exact sh_setSp _ _ (by omega)


/-! ### an error nobody in the callee handles -/

theorem foldl_fuel_ge (g : Nat → Frame → Nat) (hg : ∀ n f, n ≤ g n f) (l : List Frame) (n : Nat) : n ≤ l.foldl g n := by
  induction l generalizing n with
  | nil => exact Nat.le_refl _
  | cons f r ih => exact Nat.le_trans (hg n f) (ih _)

/-- `failWith` in the child (frame 0 is the only frame, it has no handler): the error is not
    handled, `vm.err` is set and the loop returns -/
theorem failWith_child (e : OpErr) (s : State) (hc : s.curFrame = 0) (hfi : s.frameIndex = 1)
    (hh : (s.frames[0]!).handlers = none) :
    ∀ r s', exec (failWith e) s = (.ok r, s') → r = .ret ∧ s'.err ≠ none := by
  intro r s' h
  simp only [failWith, throwGenErr, exec_bind] at h
  have l1 := (foot_rtErrOfOpErr e).loc s
  rcases e1 : exec (rtErrOfOpErr e) s with ⟨r1, s1⟩
  rw [e1] at h l1
  simp only at l1
  cases r1 with
  | error x => simp at h
  | ok ra =>
    simp only at h
    have hc1 : s1.curFrame = 0 := by rw [l1]; exact hc
    have hfi1 : s1.frameIndex = 1 := by rw [l1]; exact hfi
    have hh1 : (s1.frames[0]!).handlers = none := by rw [l1]; exact hh
    have ef : ∃ n, exec throwFuel s1 = (.ok (n + 1), s1) := by
      have : exec throwFuel s1 = (.ok (s1.frames.foldl (fun n f => n + (match f.handlers with | some hs => hs.length | none => 0) + 1) 4), s1) := rfl
      rw [this]
      have hge : 4 ≤ s1.frames.foldl (fun n f => n + (match f.handlers with | some hs => hs.length | none => 0) + 1) 4 := by
        rw [← Array.foldl_toList]
        exact foldl_fuel_ge _ (fun n f => by omega) _ _
      exact ⟨s1.frames.foldl (fun n f => n + (match f.handlers with | some hs => hs.length | none => 0) + 1) 4 - 1, by
        congr 2; omega⟩
    obtain ⟨n, ef⟩ := ef
    rw [ef] at h
    simp only at h
    have et : exec (throwF (n + 1) ra) s1 = (.ok (some ra), s1) := by
      unfold throwF
      have hcf : exec curFrame s1 = (.ok (s1.frames[0]!), s1) := by
        have : exec curFrame s1 = (.ok (s1.frames[s1.curFrame]!), s1) := rfl
        rw [this, hc1]
      have hnh : hasHandler (s1.frames[0]!) = false := by simp [hasHandler, hh1]
      simp only [exec_bind, hcf, hnh, Bool.false_eq_true, if_false, exec_getS, hfi1]
      have : ((1 : Int) - 1).toNat = 0 := by decide
      rw [this]
      simp [searchFrames, exec_pure, exec_bind]
    rw [et] at h
    simp only [exec_bind, exec_modS, exec_pure, Prod.mk.injEq, Except.ok.injEq] at h
    obtain ⟨rfl, rfl⟩ := h
    exact ⟨rfl, by simp⟩

theorem sh_failWith (e : OpErr) : RelS (Sh bp k N a) (PostC bp k L) (failWith e) (failWith e) := by
  intro s t h r s' r' t' h1 h2
  have := failWith_child e s h.curS h.fiS h.frame.hS r s' h1
  exact Or.inr this

/-! ### automation -/

syntax "sh_prim" : tactic
macro_rules | `(tactic| sh_prim) => `(tactic| first
  | exact sh_getSp
  | exact sh_setSp _ _ (by omega)
  | exact sh_stackGet _ _ (by omega) (by omega)
  | exact sh_stackSet _ _ _ (by omega) _ (fun _ => Or.inl (Nat.le_refl _))
  | exact sh_pushV _ (by omega)
  | exact sh_setIp _
  | exact sh_bumpIp _
  | exact sh_foot (by foot))

syntax "sh1" : tactic
macro_rules | `(tactic| sh1) => `(tactic| first
  | exact sh_failWith _
  | exact sh_next (by omega) (by omega)
  | ((with_reducible apply RelS.bindV)
     · sh_prim
     intro x__ y__ h__
     first
       | (obtain ⟨h1__, h2__⟩ := h__; subst h1__; subst h2__)
       | subst h__
       | skip)
  | apply RelS.ite
  | split)

syntax "shrun" : tactic
macro_rules | `(tactic| shrun) => `(tactic| repeat sh1)

theorem sh_execPop (ha : a ≤ N) (hL : L ≤ N) : RelS (Sh bp k N a) (PostC bp k L) execPop execPop := by
  unfold execPop; shrun
theorem sh_execNull (ha : a ≤ N) (hL : L ≤ N) : RelS (Sh bp k N a) (PostC bp k L) execNull execNull := by
  unfold execNull; shrun
theorem sh_execTrue (ha : a ≤ N) (hL : L ≤ N) : RelS (Sh bp k N a) (PostC bp k L) execTrue execTrue := by
  unfold execTrue; shrun
theorem sh_execFalse (ha : a ≤ N) (hL : L ≤ N) : RelS (Sh bp k N a) (PostC bp k L) execFalse execFalse := by
  unfold execFalse; shrun
theorem sh_execNoOp (ha : a ≤ N) (hL : L ≤ N) : RelS (Sh bp k N a) (PostC bp k L) execNoOp execNoOp := by
  unfold execNoOp; shrun
theorem sh_execConstant (ha : a ≤ N) (hL : L ≤ N) : RelS (Sh bp k N a) (PostC bp k L) execConstant execConstant := by
  unfold execConstant; shrun
theorem sh_execGetBuiltin (ha : a ≤ N) (hL : L ≤ N) : RelS (Sh bp k N a) (PostC bp k L) execGetBuiltin execGetBuiltin := by
  unfold execGetBuiltin; shrun
theorem sh_execJump (ha : a ≤ N) (hL : L ≤ N) : RelS (Sh bp k N a) (PostC bp k L) execJump execJump := by
  unfold execJump; shrun
theorem sh_execJumpFalsy (ha : a ≤ N) (hL : L ≤ N) : RelS (Sh bp k N a) (PostC bp k L) execJumpFalsy execJumpFalsy := by
  unfold execJumpFalsy; shrun
theorem sh_execAndJump (ha : a ≤ N) (hL : L ≤ N) : RelS (Sh bp k N a) (PostC bp k L) execAndJump execAndJump := by
  unfold execAndJump; shrun
theorem sh_execOrJump (ha : a ≤ N) (hL : L ≤ N) : RelS (Sh bp k N a) (PostC bp k L) execOrJump execOrJump := by
  unfold execOrJump; shrun
theorem sh_execEqual (F : FloatOps) (op : Nat) (ha : a ≤ N) (hL : L ≤ N) :
    RelS (Sh bp k N a) (PostC bp k L) (execEqual F op) (execEqual F op) := by
  unfold execEqual; shrun
theorem sh_execBinaryOp (F : FloatOps) (ha : a ≤ N) (hL : L ≤ N) :
    RelS (Sh bp k N a) (PostC bp k L) (execBinaryOp F) (execBinaryOp F) := by
  unfold execBinaryOp; shrun
theorem sh_execUnary (F : FloatOps) (ha : a ≤ N) (hL : L ≤ N) :
    RelS (Sh bp k N a) (PostC bp k L) (execUnary F) (execUnary F) := by
  unfold execUnary; shrun

end
end UgoVerif.Proofs.Shift
