import UgoVerif.Proofs.ShiftThrow
/-
  C14, `frame_shift`: the opcodes that touch neither the frame stack nor the handler stack preserve the
  offset relation `Sh` (Proofs/Shift.lean).
-/
set_option linter.unusedSimpArgs false
set_option linter.unusedVariables false
set_option maxHeartbeats 1600000
namespace UgoVerif.Proofs.Shift
open UgoVerif UgoVerif.Go UgoVerif.VM

section
variable {T0 : State} {bp k d H N : Nat} {a : Int}

theorem sh_execPop (ha : a ≤ N) (hH : H ≤ N) : RelS (Sh T0 bp k d H N a) (PostC T0 bp k) execPop execPop := by
  unfold execPop; shrun
theorem sh_execNull (ha : a ≤ N) (hH : H ≤ N) : RelS (Sh T0 bp k d H N a) (PostC T0 bp k) execNull execNull := by
  unfold execNull; shrun
theorem sh_execTrue (ha : a ≤ N) (hH : H ≤ N) : RelS (Sh T0 bp k d H N a) (PostC T0 bp k) execTrue execTrue := by
  unfold execTrue; shrun
theorem sh_execFalse (ha : a ≤ N) (hH : H ≤ N) : RelS (Sh T0 bp k d H N a) (PostC T0 bp k) execFalse execFalse := by
  unfold execFalse; shrun
theorem sh_execNoOp (ha : a ≤ N) (hH : H ≤ N) : RelS (Sh T0 bp k d H N a) (PostC T0 bp k) execNoOp execNoOp := by
  unfold execNoOp; shrun
theorem sh_execConstant (ha : a ≤ N) (hH : H ≤ N) : RelS (Sh T0 bp k d H N a) (PostC T0 bp k) execConstant execConstant := by
  unfold execConstant; shrun
theorem sh_execGetBuiltin (ha : a ≤ N) (hH : H ≤ N) : RelS (Sh T0 bp k d H N a) (PostC T0 bp k) execGetBuiltin execGetBuiltin := by
  unfold execGetBuiltin; shrun
theorem sh_execJump (ha : a ≤ N) (hH : H ≤ N) : RelS (Sh T0 bp k d H N a) (PostC T0 bp k) execJump execJump := by
  unfold execJump; shrun
theorem sh_execJumpFalsy (ha : a ≤ N) (hH : H ≤ N) : RelS (Sh T0 bp k d H N a) (PostC T0 bp k) execJumpFalsy execJumpFalsy := by
  unfold execJumpFalsy; shrun
theorem sh_execAndJump (ha : a ≤ N) (hH : H ≤ N) : RelS (Sh T0 bp k d H N a) (PostC T0 bp k) execAndJump execAndJump := by
  unfold execAndJump; shrun
theorem sh_execOrJump (ha : a ≤ N) (hH : H ≤ N) : RelS (Sh T0 bp k d H N a) (PostC T0 bp k) execOrJump execOrJump := by
  unfold execOrJump; shrun
theorem sh_execEqual (F : FloatOps) (op : Nat) (ha : a ≤ N) (hH : H ≤ N) :
    RelS (Sh T0 bp k d H N a) (PostC T0 bp k) (execEqual F op) (execEqual F op) := by
  unfold execEqual; shrun
theorem sh_execBinaryOp (F : FloatOps) (ha : a ≤ N) (hH : H ≤ N) :
    RelS (Sh T0 bp k d H N a) (PostC T0 bp k) (execBinaryOp F) (execBinaryOp F) := by
  unfold execBinaryOp; shrun
theorem sh_execUnary (F : FloatOps) (ha : a ≤ N) (hH : H ≤ N) :
    RelS (Sh T0 bp k d H N a) (PostC T0 bp k) (execUnary F) (execUnary F) := by
  unfold execUnary; shrun


theorem sh_execGetLocal (ha : a ≤ N) (hH : H ≤ N) :
    RelS (fun s t => Sh T0 bp k d H N a s t ∧ OpLt s) (PostC T0 bp k) execGetLocal execGetLocal := by
  unfold execGetLocal
  refine RelS.bind sh_opnd1_lt ?_
  intro idx idx'
  refine RelS.pre_and fun h1 => ?_
  subst h1
  refine RelS.bindV (sh_curFrame_lt _) ?_
  rintro ⟨fn1, fr1, ip1, bp1, hs1, d1⟩ ⟨fn2, fr2, ip2, bp2, hs2, d2⟩ ⟨⟨e1, e2, e3, e4, e5, e6⟩, hlt⟩
  simp only at e1 e2 e3 e4 e5 e6 hlt
  subst e1 e2 e3 e5
  dsimp only
  shrun
theorem getSp_ro : ∀ (s : State) (x : Int) (s' : State), exec getSp s = (.ok x, s') → s' = s := by
  intro s x s' h
  have e : exec getSp s = (.ok s.sp, s) := rfl
  rw [e] at h
  simp only [Prod.mk.injEq] at h
  exact h.2.symm

theorem stackGet_ro (i : Int) : ∀ (s : State) (x : V) (s' : State), exec (stackGet i) s = (.ok x, s') → s' = s := by
  intro s x s' h
  rw [exec_stackGet'] at h
  split at h
  · simp at h
  · simp only [Prod.mk.injEq] at h
    exact h.2.symm

/-- a fact about the child's state carried over an action that does not change it -/
theorem RelS.keepL {α β} {A : State → State → Prop} {Q : α → β → State → State → Prop} {P : State → Prop} {m₁ : M α} {m₂ : M β}
    (hm : RelS A Q m₁ m₂) (hro : ∀ s x s', exec m₁ s = (.ok x, s') → s' = s) :
    RelS (fun s t => A s t ∧ P s) (fun x y s t => Q x y s t ∧ P s) m₁ m₂ := by
  intro s t h x s' y t' h1 h2
  have := hro s x s' h1
  subst this
  exact ⟨hm _ t h.1 x _ y t' h1 h2, h.2⟩

theorem sh_execSetLocal (ha : a ≤ N) (hH : H ≤ N) :
    RelS (fun s t => Sh T0 bp k d H N a s t ∧ OpLt s) (PostC T0 bp k) execSetLocal execSetLocal := by
  unfold execSetLocal
  refine RelS.bind sh_opnd1_lt ?_
  intro idx idx'
  refine RelS.pre_and fun h1 => ?_
  subst h1
  refine RelS.bind (RelS.keepL sh_getSp getSp_ro) ?_
  intro sp sp'
  refine RelS.conseq (A := fun s t => (a = sp ∧ a + bp = sp') ∧ (Sh T0 bp k d H N a s t ∧ (s.frames[d]!).bp + (idx : Int) < a)) ?_
    (fun s t h => ⟨h.1.1, h.1.2, h.2⟩) (fun _ _ _ _ h => h)
  refine RelS.pre_and fun hsp => ?_
  obtain ⟨hsp1, hsp2⟩ := hsp
  subst hsp1; subst hsp2
  refine RelS.bind (RelS.keepL (sh_stackGet _ _ (by omega) (by omega)) (stackGet_ro _)) ?_
  intro v v'
  refine RelS.conseq (A := fun s t => v = v' ∧ (Sh T0 bp k d H N a s t ∧ (s.frames[d]!).bp + (idx : Int) < a)) ?_
    (fun s t h => ⟨h.1.1, h.1.2, h.2⟩) (fun _ _ _ _ h => h)
  refine RelS.pre_and fun hv => ?_
  subst hv
  refine RelS.bindV (sh_curFrame_lt _) ?_
  rintro ⟨fn1, fr1, ip1, bp1, hs1, d1⟩ ⟨fn2, fr2, ip2, bp2, hs2, d2⟩ ⟨⟨e1, e2, e3, e4, e5, e6⟩, hlt⟩
  simp only at e1 e2 e3 e4 e5 e6 hlt
  subst e1 e2 e3 e5
  dsimp only
  shrun
theorem sh_execGetLocalPtr (ha : a ≤ N) (hH : H ≤ N) :
    RelS (fun s t => Sh T0 bp k d H N a s t ∧ OpLt s) (PostC T0 bp k) execGetLocalPtr execGetLocalPtr := by
  unfold execGetLocalPtr
  refine RelS.bind sh_opnd1_lt ?_
  intro idx idx'
  refine RelS.pre_and fun h1 => ?_
  subst h1
  refine RelS.bindV (sh_curFrame_lt _) ?_
  rintro ⟨fn1, fr1, ip1, bp1, hs1, d1⟩ ⟨fn2, fr2, ip2, bp2, hs2, d2⟩ ⟨⟨e1, e2, e3, e4, e5, e6⟩, hlt⟩
  simp only at e1 e2 e3 e4 e5 e6 hlt
  subst e1 e2 e3 e5
  dsimp only
  shrun
theorem sh_execDefineLocal (ha : a ≤ N) (hH : H ≤ N) : RelS (Sh T0 bp k d H N a) (PostC T0 bp k) execDefineLocal execDefineLocal := by
  unfold execDefineLocal; shrun
theorem sh_execGetFree (ha : a ≤ N) (hH : H ≤ N) : RelS (Sh T0 bp k d H N a) (PostC T0 bp k) execGetFree execGetFree := by
  unfold execGetFree; shrun
theorem sh_execSetFree (ha : a ≤ N) (hH : H ≤ N) : RelS (Sh T0 bp k d H N a) (PostC T0 bp k) execSetFree execSetFree := by
  unfold execSetFree; shrun
theorem sh_execGetFreePtr (ha : a ≤ N) (hH : H ≤ N) : RelS (Sh T0 bp k d H N a) (PostC T0 bp k) execGetFreePtr execGetFreePtr := by
  unfold execGetFreePtr; shrun
theorem sh_execGetGlobal (ha : a ≤ N) (hH : H ≤ N) : RelS (Sh T0 bp k d H N a) (PostC T0 bp k) execGetGlobal execGetGlobal := by
  unfold execGetGlobal; shrun
theorem sh_execSetGlobal (ha : a ≤ N) (hH : H ≤ N) : RelS (Sh T0 bp k d H N a) (PostC T0 bp k) execSetGlobal execSetGlobal := by
  unfold execSetGlobal; shrun
theorem sh_execSetIndex (ha : a ≤ N) (hH : H ≤ N) : RelS (Sh T0 bp k d H N a) (PostC T0 bp k) execSetIndex execSetIndex := by
  unfold execSetIndex; shrun
set_option maxHeartbeats 3200000 in
theorem sh_execSliceIndex (ha : a ≤ N) (hH : H ≤ N) : RelS (Sh T0 bp k d H N a) (PostC T0 bp k) execSliceIndex execSliceIndex := by
  unfold execSliceIndex; shrun
theorem sh_execIterInit (ha : a ≤ N) (hH : H ≤ N) : RelS (Sh T0 bp k d H N a) (PostC T0 bp k) execIterInit execIterInit := by
  unfold execIterInit; shrun
set_option maxHeartbeats 3200000 in
theorem sh_execIterNext (op : Nat) (ha : a ≤ N) (hH : H ≤ N) :
    RelS (Sh T0 bp k d H N a) (PostC T0 bp k) (execIterNext op) (execIterNext op) := by
  unfold execIterNext; shrun
theorem sh_execLoadModule (ha : a ≤ N) (hH : H ≤ N) : RelS (Sh T0 bp k d H N a) (PostC T0 bp k) execLoadModule execLoadModule := by
  unfold execLoadModule; shrun
theorem sh_execStoreModule (ha : a ≤ N) (hH : H ≤ N) : RelS (Sh T0 bp k d H N a) (PostC T0 bp k) execStoreModule execStoreModule := by
  unfold execStoreModule; shrun

theorem sh_execArray (ha : a ≤ N) (hH : H ≤ N) : RelS (Sh T0 bp k d H N a) (PostC T0 bp k) execArray execArray := by
  unfold execArray; shrun
theorem sh_execClosure (ha : a ≤ N) (hH : H ≤ N) : RelS (Sh T0 bp k d H N a) (PostC T0 bp k) execClosure execClosure := by
  unfold execClosure; shrun

theorem sh_execGetIndex (ha : a ≤ N) (hH : H ≤ N) : RelS (Sh T0 bp k d H N a) (PostC T0 bp k) execGetIndex execGetIndex := by
  unfold execGetIndex
  sh1; sh1; sh1
  refine RelS.bind (RelS.forIn_upto_exit (A := Sh T0 bp k d H N a)
      (VR := fun u u' => u = u' ∧ u.1 = none)
      (E := fun u u' s t => ∃ r r', u.1 = some r ∧ u'.1 = some r' ∧ PostC T0 bp k r r' s t) _ _ _ _ _ ⟨rfl, rfl⟩ ?_) ?_
  · intro i hi b b' hb
    obtain ⟨hb1, hb2⟩ := hb
    subst hb1
    refine RelS.bindV (sh_stackGet _ _ (by omega) (by omega)) ?_
    intro index _ h; subst h
    refine RelS.bindV (sh_stackSet _ _ _ (by omega) _ (fun _ => Or.inl (Nat.le_refl _))) ?_
    intro _ _ _
    refine RelS.bindV (sh_foot (foot_vIndexGet _ _)) ?_
    intro res _ h; subst h
    split
    · -- error: the adjusted error is thrown
      refine RelS.bindV (B := Sh T0 bp k d H N a) (VR := Eq) ?_ ?_
      · apply sh_foot; foot
      · intro e' _ h; subst h
        refine RelS.bind (sh_failWith e' (by omega) (by omega)) ?_
        intro r r'
        exact RelS.pure (fun s t h => Or.inr ⟨_, _, rfl, rfl, r, r', rfl, rfl, h⟩)
    · exact RelS.pure (fun s t h => Or.inl ⟨_, _, rfl, rfl, ⟨rfl, rfl⟩, h⟩)
  · intro x y
    refine RelS.pre_or ?_ ?_
    · refine RelS.pre_and fun hxy => ?_
      obtain ⟨h1, h2⟩ := hxy
      subst h1
      obtain ⟨o, v1, v2⟩ := x
      simp only at h2
      subst h2
      dsimp only
      shrun
    · refine RelS.pre_exists fun r => RelS.pre_exists fun r' => ?_
      refine RelS.pre_and fun hx => RelS.pre_and fun hy => ?_
      rw [hx, hy]
      exact RelS.pure (fun s t h => h)

/-- the operand of MAP (number of stack items: keys and values) is even -/
def OpEven (s : State) : Prop := ∀ n s', exec (opnd2 1) s = (.ok n, s') → n % 2 = 0

theorem sh_opnd2_even :
    RelS (fun s t => Sh T0 bp k d H N a s t ∧ OpEven s) (PQ (fun x y => x = y ∧ x % 2 = 0) (Sh T0 bp k d H N a)) (opnd2 1) (opnd2 1) := by
  intro s t h x s' y t' h1 h2
  have := sh_foot (foot_opnd2 1) s t h.1 x s' y t' h1 h2
  exact ⟨⟨this.1, h.2 x s' h1⟩, this.2⟩

theorem sh_execMap (ha : a ≤ N) (hH : H ≤ N) :
    RelS (fun s t => Sh T0 bp k d H N a s t ∧ OpEven s) (PostC T0 bp k) execMap execMap := by
  unfold execMap
  refine RelS.bindV sh_opnd2_even ?_
  intro n _ ⟨h1, hn⟩
  subst h1
  shrun

/-! ### dispatch and `step` -/

/-- the opcodes covered by `frame_shift_partial`: everything except CALL, CALLNAME, RETURN, THROW and
    SETUPTRY / SETUPCATCH / SETUPFINALLY / FINALIZER (handler stack) -/
def coveredOps : List Nat :=
  [OpNoOp, OpConstant, OpGetGlobal, OpSetGlobal, OpGetLocal, OpSetLocal, OpGetBuiltin, OpBinaryOp, OpUnary,
   OpEqual, OpNotEqual, OpJump, OpJumpFalsy, OpAndJump, OpOrJump, OpArray, OpSliceIndex, OpSetIndex, OpNull, OpPop,
   OpGetFree, OpSetFree, OpGetLocalPtr, OpGetFreePtr, OpClosure, OpIterInit, OpIterNext, OpIterKey, OpIterValue,
   OpLoadModule, OpStoreModule, OpDefineLocal, OpTrue, OpFalse, OpMap, OpGetIndex]

/-- the covered opcodes that READ a local slot addressed by their operand -/
def localReadOps : List Nat := [OpGetLocal, OpSetLocal, OpGetLocalPtr]

theorem sh_dispatch (F : FloatOps) (op : Nat) (hcov : op ∈ coveredOps) (ha : a ≤ N) (hH : H ≤ N) :
    RelS (fun s t => Sh T0 bp k d H N a s t ∧ (op ∈ localReadOps → OpLt s) ∧ (op = OpMap → OpEven s)) (PostC T0 bp k)
      (dispatch F op) (dispatch F op) := by
  have weak : ∀ {m : M Ctl}, RelS (Sh T0 bp k d H N a) (PostC T0 bp k) m m →
      RelS (fun s t => Sh T0 bp k d H N a s t ∧ (op ∈ localReadOps → OpLt s) ∧ (op = OpMap → OpEven s)) (PostC T0 bp k) m m :=
    fun h => h.conseq (fun _ _ h => h.1) (fun _ _ _ _ h => h)
  simp only [coveredOps, List.mem_cons, List.not_mem_nil, or_false] at hcov
  rcases hcov with h | h | h | h | h | h | h | h | h | h | h | h | h | h | h | h | h | h | h | h | h | h | h | h | h | h | h | h | h | h | h | h | h | h | h | h <;> subst h
  · exact weak (sh_execNoOp ha hH)
  · exact weak (sh_execConstant ha hH)
  · exact weak (sh_execGetGlobal ha hH)
  · exact weak (sh_execSetGlobal ha hH)
  · exact (sh_execGetLocal ha hH).conseq (fun _ _ h => ⟨h.1, h.2.1 (by simp [localReadOps])⟩) (fun _ _ _ _ h => h)
  · exact (sh_execSetLocal ha hH).conseq (fun _ _ h => ⟨h.1, h.2.1 (by simp [localReadOps])⟩) (fun _ _ _ _ h => h)
  · exact weak (sh_execGetBuiltin ha hH)
  · exact weak (sh_execBinaryOp F ha hH)
  · exact weak (sh_execUnary F ha hH)
  · exact weak (sh_execEqual F _ ha hH)
  · exact weak (sh_execEqual F _ ha hH)
  · exact weak (sh_execJump ha hH)
  · exact weak (sh_execJumpFalsy ha hH)
  · exact weak (sh_execAndJump ha hH)
  · exact weak (sh_execOrJump ha hH)
  · exact weak (sh_execArray ha hH)
  · exact weak (sh_execSliceIndex ha hH)
  · exact weak (sh_execSetIndex ha hH)
  · exact weak (sh_execNull ha hH)
  · exact weak (sh_execPop ha hH)
  · exact weak (sh_execGetFree ha hH)
  · exact weak (sh_execSetFree ha hH)
  · exact (sh_execGetLocalPtr ha hH).conseq (fun _ _ h => ⟨h.1, h.2.1 (by simp [localReadOps])⟩) (fun _ _ _ _ h => h)
  · exact weak (sh_execGetFreePtr ha hH)
  · exact weak (sh_execClosure ha hH)
  · exact weak (sh_execIterInit ha hH)
  · exact weak (sh_execIterNext _ ha hH)
  · exact weak (sh_execIterNext _ ha hH)
  · exact weak (sh_execIterNext _ ha hH)
  · exact weak (sh_execLoadModule ha hH)
  · exact weak (sh_execStoreModule ha hH)
  · exact weak (sh_execDefineLocal ha hH)
  · exact weak (sh_execTrue ha hH)
  · exact weak (sh_execFalse ha hH)
  · exact (sh_execMap ha hH).conseq (fun _ _ h => ⟨h.1, h.2.2 rfl⟩) (fun _ _ _ _ h => h)
  · exact weak (sh_execGetIndex ha hH)

/-- `vm.ip++ ; vm.curInsts[vm.ip]` -/
def fetchOp : M Nat := do
  bumpIp 1
  instAt (← getIp)

theorem step_eq (F : FloatOps) : step F = (fetchOp >>= fun op => noteTrace op >>= fun _ => dispatch F op) := by
  simp only [step, fetchOp, bind_assoc]

theorem sh_fetchOp : RelS (Sh T0 bp k d H N a) (PQ Eq (Sh T0 bp k d H N a)) fetchOp fetchOp := by
  unfold fetchOp
  refine RelS.bindV (sh_bumpIp 1) ?_
  intro _ _ _
  refine RelS.bindV sh_getIp ?_
  intro x y h
  subst h
  exact sh_foot (foot_instAt _)

theorem OpLt_noteTrace (op : Nat) (s s' : State) (r : Unit) (h : OpLt s) (e : exec (noteTrace op) s = (.ok r, s')) :
    OpLt s' := by
  have : ∃ tr st, exec (noteTrace op) s = (.ok (), { s with trace := tr, steps := st }) := by
    unfold noteTrace
    simp only [exec_bind, exec_getS]
    split
    · exact ⟨_, _, rfl⟩
    · exact ⟨_, _, rfl⟩
  obtain ⟨tr, st, e'⟩ := this
  rw [e'] at e
  simp only [Prod.mk.injEq, Except.ok.injEq] at e
  obtain ⟨_, rfl⟩ := e
  intro idx s'' e1
  have d := (foot_opnd1 1).dep { s with trace := tr, steps := st } s rfl
  rw [e1] at d
  rcases e2 : exec (opnd1 1) s with ⟨r2, s2⟩
  rw [e2] at d
  simp only at d
  exact h idx s2 (by rw [e2, ← d.1])

theorem OpEven_noteTrace (op : Nat) (s s' : State) (r : Unit) (h : OpEven s) (e : exec (noteTrace op) s = (.ok r, s')) :
    OpEven s' := by
  have hv : view s' = view s := by
    have : ∃ tr st, exec (noteTrace op) s = (.ok (), { s with trace := tr, steps := st }) := by
      unfold noteTrace
      simp only [exec_bind, exec_getS]
      split
      · exact ⟨_, _, rfl⟩
      · exact ⟨_, _, rfl⟩
    obtain ⟨tr, st, e'⟩ := this
    rw [e'] at e
    simp only [Prod.mk.injEq, Except.ok.injEq] at e
    rw [← e.2]
    rfl
  intro n s'' e1
  have d := (foot_opnd2 1).dep s' s hv
  rw [e1] at d
  rcases e2 : exec (opnd2 1) s with ⟨r2, s2⟩
  rw [e2] at d
  simp only at d
  exact h n s2 (by rw [e2, ← d.1])


end
end UgoVerif.Proofs.Shift
