import UgoVerif.VM.Copy
/-
  `Copy()` produces fresh containers (helper lemmas for Props/C12.copy_fresh).
-/
namespace UgoVerif.Proofs.Copy
open UgoVerif UgoVerif.Go UgoVerif.VM

/-- `h'` extends `h`: nothing that existed is changed -/
def Ext (h h' : Array Cell) : Prop := h.size ≤ h'.size ∧ ∀ i, i < h.size → h'[i]? = h[i]?

theorem Ext.refl (h : Array Cell) : Ext h h := ⟨Nat.le_refl _, fun _ _ => rfl⟩
theorem Ext.trans {a b c : Array Cell} (h1 : Ext a b) (h2 : Ext b c) : Ext a c :=
  ⟨Nat.le_trans h1.1 h2.1, fun i hi => by rw [h2.2 i (Nat.lt_of_lt_of_le hi h1.1), h1.2 i hi]⟩
theorem Ext.push (h : Array Cell) (c : Cell) : Ext h (h.push c) :=
  ⟨by simp, fun i hi => by simp [Array.getElem?_push]; omega⟩

/-- every container/function/error object reachable from `v` through arrays and maps (to depth
    `d`) lives at an address in `[n, h.size)`.  Boxes (`*ObjectPtr`) are not traversed:
    `Copy()` shares them on purpose. -/
def FreshVal (n : Nat) (h : Array Cell) : Nat → V → Prop
  | 0, _ => True
  | d+1, .arr a off len => n ≤ a ∧ a < h.size ∧
      ∀ xs, h[a]? = some (.arr xs) → ∀ x ∈ (xs.toList.drop off).take len, FreshVal n h d x
  | d+1, .map a => n ≤ a ∧ a < h.size ∧
      ∀ kvs, h[a]? = some (.map kvs) → ∀ p ∈ kvs, FreshVal n h d p.2
  | _+1, .cfun a => n ≤ a ∧ a < h.size
  | _+1, .err a => n ≤ a ∧ a < h.size
  | _+1, .rterr a => n ≤ a ∧ a < h.size ∧ ∀ e, h[a]? = some (.rterr (some e)) → n ≤ e ∧ e < h.size
  | _+1, _ => True

theorem fresh_ext {n : Nat} {h h' : Array Cell} (he : Ext h h') : ∀ d v, FreshVal n h d v → FreshVal n h' d v := by
  intro d
  induction d with
  | zero => intro v _; simp [FreshVal]
  | succ d ih =>
    intro v hv
    cases v <;> simp only [FreshVal] at hv ⊢ <;> try trivial
    · obtain ⟨h1, h2, h3⟩ := hv
      refine ⟨h1, Nat.lt_of_lt_of_le h2 he.1, ?_⟩
      intro xs hx x hxm
      rw [he.2 _ h2] at hx
      exact ih x (h3 xs hx x hxm)
    · obtain ⟨h1, h2, h3⟩ := hv
      refine ⟨h1, Nat.lt_of_lt_of_le h2 he.1, ?_⟩
      intro kvs hx p hpm
      rw [he.2 _ h2] at hx
      exact ih p.2 (h3 kvs hx p hpm)
    · exact ⟨hv.1, Nat.lt_of_lt_of_le hv.2 he.1⟩
    · exact ⟨hv.1, Nat.lt_of_lt_of_le hv.2 he.1⟩
    · obtain ⟨h1, h2, h3⟩ := hv
      refine ⟨h1, Nat.lt_of_lt_of_le h2 he.1, ?_⟩
      intro e hx
      rw [he.2 _ h2] at hx
      exact ⟨(h3 e hx).1, Nat.lt_of_lt_of_le (h3 e hx).2 he.1⟩

theorem fresh_mono {n n' : Nat} {h : Array Cell} (hn : n ≤ n') : ∀ d v, FreshVal n' h d v → FreshVal n h d v := by
  intro d
  induction d with
  | zero => intro v _; simp [FreshVal]
  | succ d ih =>
    intro v hv
    cases v <;> simp only [FreshVal] at hv ⊢ <;> try trivial
    · exact ⟨by omega, hv.2.1, fun xs hx x hxm => ih x (hv.2.2 xs hx x hxm)⟩
    · exact ⟨by omega, hv.2.1, fun kvs hx p hpm => ih p.2 (hv.2.2 kvs hx p hpm)⟩
    · exact ⟨by omega, hv.2⟩
    · exact ⟨by omega, hv.2⟩
    · exact ⟨by omega, hv.2.1, fun e hx => ⟨by have := (hv.2.2 e hx).1; omega, (hv.2.2 e hx).2⟩⟩

/-- the specification of one copy step -/
def CopySpec (f : Array Cell → V → Option (V × Array Cell)) : Prop :=
  ∀ h v v' h', f h v = some (v', h') → Ext h h' ∧ ∀ d, FreshVal h.size h' d v'

theorem mapHeap_spec {f : Array Cell → V → Option (V × Array Cell)} (hf : CopySpec f) :
    ∀ xs h ys h', mapHeap f h xs = some (ys, h') → Ext h h' ∧ ∀ y ∈ ys, ∀ d, FreshVal h.size h' d y := by
  intro xs
  induction xs with
  | nil => intro h ys h' hm; simp [mapHeap] at hm; obtain ⟨rfl, rfl⟩ := hm; exact ⟨Ext.refl _, by simp⟩
  | cons x xs ih =>
    intro h ys h' hm
    simp only [mapHeap] at hm
    split at hm
    · cases hm
    · rename_i y h1 hx
      split at hm
      · cases hm
      · rename_i ys' h2 hxs
        simp at hm
        obtain ⟨rfl, rfl⟩ := hm
        obtain ⟨e1, f1⟩ := hf h x y h1 hx
        obtain ⟨e2, f2⟩ := ih h1 ys' h2 hxs
        refine ⟨Ext.trans e1 e2, ?_⟩
        intro z hz d
        simp at hz
        rcases hz with rfl | hz
        · exact fresh_ext e2 d _ (f1 d)
        · exact fresh_mono e1.1 d _ (f2 z hz d)

theorem mapHeapKV_spec {f : Array Cell → V → Option (V × Array Cell)} (hf : CopySpec f) :
    ∀ xs h ys h', mapHeapKV f h xs = some (ys, h') → Ext h h' ∧ ∀ p ∈ ys, ∀ d, FreshVal h.size h' d p.2 := by
  intro xs
  induction xs with
  | nil => intro h ys h' hm; simp [mapHeapKV] at hm; obtain ⟨rfl, rfl⟩ := hm; exact ⟨Ext.refl _, by simp⟩
  | cons x xs ih =>
    intro h ys h' hm
    obtain ⟨k, x⟩ := x
    simp only [mapHeapKV] at hm
    split at hm
    · cases hm
    · rename_i y h1 hx
      split at hm
      · cases hm
      · rename_i ys' h2 hxs
        simp at hm
        obtain ⟨rfl, rfl⟩ := hm
        obtain ⟨e1, f1⟩ := hf h x y h1 hx
        obtain ⟨e2, f2⟩ := ih h1 ys' h2 hxs
        refine ⟨Ext.trans e1 e2, ?_⟩
        intro z hz d
        simp at hz
        rcases hz with rfl | hz
        · exact fresh_ext e2 d _ (f1 d)
        · exact fresh_mono e1.1 d _ (f2 z hz d)

theorem copyVal_spec : ∀ fuel, CopySpec (copyVal fuel) := by
  intro fuel
  induction fuel with
  | zero => intro h v v' h' hc; simp [copyVal] at hc
  | succ fuel ih =>
    intro h v v' h' hc
    cases v <;> simp only [copyVal] at hc
    case arr a off len =>
      split at hc
      · rename_i xs hxs
        split at hc
        · rename_i ys h1 hm
          simp at hc
          obtain ⟨rfl, rfl⟩ := hc
          obtain ⟨e1, f1⟩ := mapHeap_spec ih _ _ _ _ hm
          refine ⟨Ext.trans e1 (Ext.push _ _), ?_⟩
          intro d
          cases d with
          | zero => simp [FreshVal]
          | succ d =>
            simp only [FreshVal]
            refine ⟨e1.1, by simp, ?_⟩
            intro zs hz x hx
            simp at hz
            subst hz
            simp at hx
            exact fresh_ext (Ext.push _ _) d x (f1 x hx d)
        · cases hc
      · cases hc
    case map a =>
      split at hc
      · rename_i kvs hk
        split at hc
        · rename_i kvs' h1 hm
          simp at hc
          obtain ⟨rfl, rfl⟩ := hc
          obtain ⟨e1, f1⟩ := mapHeapKV_spec ih _ _ _ _ hm
          refine ⟨Ext.trans e1 (Ext.push _ _), ?_⟩
          intro d
          cases d with
          | zero => simp [FreshVal]
          | succ d =>
            simp only [FreshVal]
            refine ⟨e1.1, by simp, ?_⟩
            intro zs hz p hp
            simp at hz
            subst hz
            exact fresh_ext (Ext.push _ _) d p.2 (f1 p hp d)
        · cases hc
      · cases hc
    case cfun a =>
      split at hc
      · simp at hc
        obtain ⟨rfl, rfl⟩ := hc
        refine ⟨Ext.push _ _, ?_⟩
        intro d; cases d <;> simp [FreshVal]
      · cases hc
    case err a =>
      split at hc
      · simp at hc
        obtain ⟨rfl, rfl⟩ := hc
        refine ⟨Ext.push _ _, ?_⟩
        intro d; cases d <;> simp [FreshVal]
      · cases hc
    case rterr a =>
      split at hc
      · simp at hc
        obtain ⟨rfl, rfl⟩ := hc
        refine ⟨Ext.push _ _, ?_⟩
        intro d; cases d <;> simp [FreshVal]
      · split at hc
        · simp at hc
          obtain ⟨rfl, rfl⟩ := hc
          refine ⟨Ext.trans (Ext.push _ _) (Ext.push _ _), ?_⟩
          intro d; cases d <;> simp [FreshVal]
          intro e he
          rw [Array.getElem_push] at he
          simp at he
          exact ⟨Nat.le_of_eq he, by rw [← he]; exact Nat.lt_succ_of_lt (Nat.lt_succ_self _)⟩
        · cases hc
      · cases hc
    case host => cases hc
    all_goals
      simp at hc
      obtain ⟨rfl, rfl⟩ := hc
      refine ⟨Ext.refl _, ?_⟩
      intro d; cases d <;> simp [FreshVal]

end UgoVerif.Proofs.Copy
