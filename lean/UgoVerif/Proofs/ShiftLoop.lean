import UgoVerif.Proofs.ShiftRun
import UgoVerif.Proofs.C08Mod
import UgoVerif.VM.Invoke
/-
  C14: the child's real loop (`loopF`: abort check, then one instruction) and the epilogue of `Run`
  (`runFrom.finish`) on top of `invoke_eq_call_partial`.
-/
set_option linter.unusedSimpArgs false
set_option linter.unusedVariables false
namespace UgoVerif.Proofs.Shift
open UgoVerif UgoVerif.Go UgoVerif.VM

theorem loopF_succ' (F : FloatOps) (n : Nat) (s : State) (hab : s.abort = false) :
    exec (loopF F (n + 1)) s = match exec (step F) s with
      | (.ok .ret, s1) => (.ok (some ()), s1)
      | (.ok .next, s1) => exec (loopF F n) s1
      | (.error e, s1) => (.error e, s1) := by
  conv => lhs; unfold loopF
  simp only [exec_bind, exec_getS, hab, Bool.false_eq_true, if_false]
  rcases exec (step F) s with ⟨r, s1⟩
  cases r with
  | error e => rfl
  | ok c => cases c <;> rfl

theorem loopF_abort (F : FloatOps) (n : Nat) (s : State) (hab : s.abort = true) :
    exec (loopF F (n + 1)) s = (.ok (some ()), { s with err := some .aborted }) := by
  conv => lhs; unfold loopF
  simp only [exec_bind, exec_getS, hab, if_true, exec_modS, exec_pure]

/-- the loop of `Run` that ends (`loop()` returns): the VM was aborted, or it executed `m ≤ n` instructions of which
    the last one ended the loop -/
theorem loopF_ret (F : FloatOps) : ∀ (n : Nat) (s s' : State), exec (loopF F n) s = (.ok (some ()), s') →
    (∃ m, m ≤ n ∧ runSteps F m s = some (.ret, s')) ∨ s'.err = some .aborted := by
  intro n
  induction n with
  | zero =>
    intro s s' h
    unfold loopF at h
    simp at h
  | succ n ih =>
    intro s s' h
    by_cases hab : s.abort = true
    · rw [loopF_abort F n s hab] at h
      simp only [Prod.mk.injEq, Except.ok.injEq] at h
      right
      rw [← h.2]
    · have hab' : s.abort = false := by simpa using hab
      rw [loopF_succ' F n s hab'] at h
      rcases e1 : exec (step F) s with ⟨r1, s1⟩
      rw [e1] at h
      cases r1 with
      | error e => simp at h
      | ok c =>
        cases c with
        | ret =>
          simp only [Prod.mk.injEq, Except.ok.injEq] at h
          left
          refine ⟨1, by omega, ?_⟩
          simp only [runSteps, e1]
          rw [← h.2]
        | next =>
          simp only at h
          rcases ih s1 s' h with ⟨m, hm, hr⟩ | ha
          · left
            refine ⟨m + 1, by omega, ?_⟩
            simp only [runSteps, e1]
            exact hr
          · exact Or.inr ha

theorem OkRun.mono (F : FloatOps) : ∀ (m n : Nat) (s t : State), m ≤ n → OkRun F n s t → OkRun F m s t := by
  intro m
  induction m with
  | zero => intro n s t _ _; trivial
  | succ m ih =>
    intro n s t hmn h
    cases n with
    | zero => omega
    | succ n =>
      obtain ⟨h1, h2, h3⟩ := h
      exact ⟨h1, h2, fun s' t' e1 e2 => ih n s' t' (by omega) (h3 s' t' e1 e2)⟩

/-- `invoke_eq_call_partial` for the child's real loop: `loopF` (abort check before every instruction) -/
theorem invoke_loop_partial {T0 : State} {bp k : Nat} (F : FloatOps) (hk : 1 ≤ k) (hbp : 1 ≤ bp) (n : Nat) (s t : State)
    (h : ∃ d, ShB T0 bp k d s t) (hok : OkRun F n s t) (s' : State)
    (hs : exec (loopF F n) s = (.ok (some ()), s')) (hna : s'.err ≠ some .aborted) :
    ∃ m s0, m < n ∧ runSteps F m s = some (.next, s0) ∧ exec (step F) s0 = (.ok .ret, s') ∧
      ∀ r0 t0, runSteps F m t = some (r0, t0) → r0 = .next ∧
        ∀ r' t', exec (step F) t0 = (.ok r', t') → EndQ T0 bp k r' s' t' := by
  rcases loopF_ret F n s s' hs with ⟨m, hm, hr⟩ | ha
  · obtain ⟨m', s0, h1, h2, h3, h4⟩ := invoke_eq_call_partial F hk hbp m s t h (OkRun.mono F m n s t hm hok) s' hr
    exact ⟨m', s0, by omega, h2, h3, h4⟩
  · exact absurd ha hna

/-! ### the epilogue of `Run` -/

/-- `Run` after a loop that ended without error: the value in `stack[sp-1]` (not a raw pointer) -/
theorem finish_value (s : State) (herr : s.err = none) (hsp : 1 ≤ s.sp ∧ s.sp < (stackSize : Int))
    (hnb : ∀ a, s.stack[(s.sp - 1).toNat]! ≠ .box a) :
    (runFrom.finish (exec clearCurrentFrame s).2).1 = .value (s.stack[(s.sp - 1).toNat]!) := by
  have e : (exec clearCurrentFrame s).2 =
      { s with frames := s.frames.modify s.curFrame (fun f => { f with free := none, fn := none, handlers := none }) } := rfl
  unfold runFrom.finish
  have h1 : (exec clearCurrentFrame s).2.err = none := by rw [e]; exact herr
  have h2 : (exec clearCurrentFrame s).2.sp < (stackSize : Int) := by rw [e]; exact hsp.2
  rw [h1]
  simp only [h2, if_true]
  have hsp' : 1 ≤ s.sp ∧ s.sp ≤ (stackSize : Int) := ⟨hsp.1, by have := hsp.2; omega⟩
  have hv := resultValue_of_slot (exec clearCurrentFrame s).2 (by rw [e]; exact hsp')
    (by rw [e]; exact hnb)
  have hr' : resultValue.run.run (exec clearCurrentFrame s).2 = _ := hv
  rw [hr']
  rw [e]

/-- `Run` after a loop that ended with `vm.err` set: that error -/
theorem finish_error (s : State) (e : VmErr) (herr : s.err = some e) :
    (runFrom.finish (exec clearCurrentFrame s).2).1 = .error e := by
  have e' : (exec clearCurrentFrame s).2 =
      { s with frames := s.frames.modify s.curFrame (fun f => { f with free := none, fn := none, handlers := none }) } := rfl
  unfold runFrom.finish
  have h1 : (exec clearCurrentFrame s).2.err = some e := by rw [e']; exact herr
  rw [h1]

/-! ### the host-aware loop of a child that meets no host function -/

/-- the part of `fetch` after the trace: is the instruction a CALL of a host function? -/
def hostCheck (op : Nat) : M (Nat × Option (Nat × Int × Int)) :=
  if op == OpCall then do
    let numArgs ← opnd1 1
    let flags ← opnd1 2
    let callee ← stackGet ((← getSp) - numArgs - 1)
    match callee with
    | .host k => pure (op, some (k, (numArgs : Int), (flags : Int)))
    | _ => pure (op, none)
  else pure (op, none)

theorem fetch_eq : fetch = (fetchOp >>= fun op => noteTrace op >>= fun _ => hostCheck op) := by
  unfold fetch fetchOp hostCheck
  simp only [bind_assoc, pure_bind]
  rfl

theorem reader_stackGet (i : Int) : Reader (stackGet i) := by
  intro s
  rw [exec_stackGet']
  split <;> rfl

/-- an instruction that ends normally is not a call of a host function (`xOpCallObject` of a host object is outside
    `step`): the host check of the host-aware loop is negative and changes nothing -/
theorem hostCheck_of_dispatch (F : FloatOps) (op : Nat) (s : State) (r : Ctl) (s1 : State)
    (h : exec (dispatch F op) s = (.ok r, s1)) : exec (hostCheck op) s = (.ok (op, none), s) := by
  unfold hostCheck
  by_cases hop : op = OpCall
  · subst hop
    have hd : dispatch F OpCall = execCall := rfl
    rw [hd] at h
    unfold execCall at h
    simp only [beq_self_eq_true, if_true]
    rw [exec_bind_reader (reader_opnd1 1)] at h ⊢
    cases h1 : (exec (opnd1 1) s).1 with
    | error e => rw [h1] at h; simp at h
    | ok n =>
      rw [h1] at h
      simp only at h ⊢
      rw [exec_bind_reader (reader_opnd1 2)] at h ⊢
      cases h2 : (exec (opnd1 2) s).1 with
      | error e => rw [h2] at h; simp at h
      | ok fl =>
        rw [h2] at h
        simp only at h ⊢
        rw [exec_bind_reader reader_getSp] at h ⊢
        have e0 : (exec getSp s).1 = .ok s.sp := rfl
        rw [e0] at h ⊢
        simp only at h ⊢
        rw [exec_bind_reader (reader_stackGet _)] at h ⊢
        cases h3 : (exec (stackGet (s.sp - (n : Int) - 1)) s).1 with
        | error e => rw [h3] at h; simp at h
        | ok callee =>
          rw [h3] at h
          simp only at h ⊢
          cases callee <;> first | rfl | skip
          -- host callee: `callObject` is unsupported
          exfalso
          simp only [callAny, callObject, exec_bind, exec_unsupported] at h
          simp at h
  · have : (op == OpCall) = false := by simpa using hop
    simp only [this, Bool.false_eq_true, if_false, exec_pure]

theorem fetch_of_step (F : FloatOps) (s : State) (r : Ctl) (s1 : State) (h : exec (step F) s = (.ok r, s1)) :
    ∃ op sm, exec fetch s = (.ok (op, none), sm) ∧ exec (dispatch F op) sm = (.ok r, s1) := by
  rw [step_eq, exec_bind] at h
  rw [fetch_eq, exec_bind]
  rcases e1 : exec fetchOp s with ⟨r1, s2⟩
  rw [e1] at h
  cases r1 with
  | error e => simp at h
  | ok op =>
    simp only at h ⊢
    rw [exec_bind] at h ⊢
    rcases e2 : exec (noteTrace op) s2 with ⟨r2, s3⟩
    rw [e2] at h
    cases r2 with
    | error e => simp at h
    | ok u =>
      simp only at h ⊢
      exact ⟨op, s3, hostCheck_of_dispatch F op s3 r s1 h, h⟩

/-- **the host-aware loop.**  A child whose loop ends (no Go panic, nothing outside the model — in particular no call of a
    host function) runs the same under `loopI` -/
theorem loopI_of_loopF (F : FloatOps) (cfg : HostCfg) (root : State) (rc : ChildRun) :
    ∀ (n : Nat) (w : World) (s s' : State), exec (loopF F n) s = (.ok (some ()), s') →
      loopI F cfg root rc n w s = (.ok (some ()), w, s') := by
  intro n
  induction n with
  | zero =>
    intro w s s' h
    unfold loopF at h
    simp at h
  | succ n ih =>
    intro w s s' h
    by_cases hab : s.abort = true
    · rw [loopF_abort F n s hab] at h
      simp only [Prod.mk.injEq, Except.ok.injEq] at h
      unfold loopI
      rw [if_pos hab, ← h.2]
    · have hab' : s.abort = false := by simpa using hab
      rw [loopF_succ' F n s hab'] at h
      unfold loopI
      rw [if_neg hab]
      rcases e1 : exec (step F) s with ⟨r1, s1⟩
      rw [e1] at h
      cases r1 with
      | error e => simp at h
      | ok c =>
        obtain ⟨op, sm, hf, hd⟩ := fetch_of_step F s c s1 e1
        have hf' : fetch.run.run s = (.ok (op, none), sm) := hf
        have hd' : (dispatch F op).run.run sm = (.ok c, s1) := hd
        rw [hf']
        simp only
        rw [hd']
        cases c with
        | ret =>
          simp only [Prod.mk.injEq, Except.ok.injEq] at h
          simp only
          rw [← h.2]
        | next =>
          simp only at h ⊢
          exact ih w s1 s' h

/-- `Run` of a child through the host-aware loop when its (first) loop ends: epilogue of that state -/
theorem runWithW_of_loop (F : FloatOps) (cfg : HostCfg) (root : State) (rc : ChildRun) (fuel : Nat) (w : World) (g : V)
    (args : List V) (c c0 c1 : State) (hp : exec (prologue g args) c = (.ok (), c0))
    (hl : exec (loopF F fuel) c0 = (.ok (some ()), c1)) :
    runWithW F cfg root rc fuel w g args c =
      ((runFrom.finish (exec clearCurrentFrame c1).2).1, w, (runFrom.finish (exec clearCurrentFrame c1).2).2) := by
  unfold runWithW
  have hp' : (prologue g args).run.run c = (.ok (), c0) := hp
  rw [hp']
  simp only
  cases fuel with
  | zero => unfold loopF at hl; simp at hl
  | succ n =>
    unfold goW
    rw [loopI_of_loopF F cfg root rc (n + 1) w c0 c1 hl]
    rfl

end UgoVerif.Proofs.Shift
