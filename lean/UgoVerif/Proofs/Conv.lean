import UgoVerif.Model.Conv
/-
  Helper lemmas for C20: mutual inductions over nested `Obj` / `GoVal` values.
-/
set_option linter.unusedSimpArgs false
set_option linter.unusedVariables false
namespace UgoVerif.Proofs.Conv
open UgoVerif UgoVerif.Go UgoVerif.Gen.Conv UgoVerif.Model.Conv

mutual
theorem rt_obj (C : ConvOps) (o : Obj) (h : plain o = true) :
    ∃ g, toInterface o = .ok g ∧ canon g = true ∧ toObject C g = .ok (normObj o) := by
  cases o <;> simp [plain] at h
  case array xs =>
    obtain ⟨gs, h1, h2, h3⟩ := rt_list C xs h
    exact ⟨.slice gs, by simp [toInterface, h1], by simp [canon, h2], by simp [toObject, h3, normObj]⟩
  case map kvs =>
    obtain ⟨gs, h1, h2, h3⟩ := rt_kvs C kvs h
    exact ⟨.map gs, by simp [toInterface, h1], by simp [canon, h2], by simp [toObject, h3, normObj]⟩
  all_goals first
    | (simp [toInterface, toObject, normObj, canon]; done)
    | (rename_i b; cases b <;> simp [toInterface, toObject, normObj, canon])
theorem rt_list (C : ConvOps) (xs : List Obj) (h : plainList xs = true) :
    ∃ gs, toInterface_list xs = .ok gs ∧ canonList gs = true ∧ toObject_list C gs = .ok (normObjList xs) := by
  cases xs with
  | nil => exact ⟨[], by simp [toInterface_list], by simp [canonList], by simp [toObject_list, normObjList]⟩
  | cons x xs =>
    simp [plainList] at h
    obtain ⟨g, h1, h2, h3⟩ := rt_obj C x h.1
    obtain ⟨gs, k1, k2, k3⟩ := rt_list C xs h.2
    exact ⟨g :: gs, by simp [toInterface_list, h1, k1], by simp [canonList, h2, k2],
      by simp [toObject_list, h3, k3, normObjList]⟩
theorem rt_kvs (C : ConvOps) (kvs : List (Bytes × Obj)) (h : plainKvs kvs = true) :
    ∃ gs, toInterface_kvs kvs = .ok gs ∧ canonKvs gs = true ∧ toObject_kvs C gs = .ok (normObjKvs kvs) := by
  cases kvs with
  | nil => exact ⟨[], by simp [toInterface_kvs], by simp [canonKvs], by simp [toObject_kvs, normObjKvs]⟩
  | cons p rest =>
    obtain ⟨k, x⟩ := p
    simp [plainKvs] at h
    obtain ⟨g, h1, h2, h3⟩ := rt_obj C x h.1
    obtain ⟨gs, k1, k2, k3⟩ := rt_kvs C rest h.2
    exact ⟨(k, g) :: gs, by simp [toInterface_kvs, h1, k1], by simp [canonKvs, h2, k2],
      by simp [toObject_kvs, h3, k3, normObjKvs]⟩
end

/-! ### the same round trip through ToObjectAlt (no chars) -/
mutual
theorem rtAlt_obj (C : ConvOps) (o : Obj) (h : plainAlt o = true) :
    ∃ g, toInterface o = .ok g ∧ canonAlt g = true ∧ toObjectAlt C g = .ok (normObj o) := by
  cases o <;> simp [plainAlt] at h
  case array xs =>
    obtain ⟨gs, h1, h2, h3⟩ := rtAlt_list C xs h
    exact ⟨.slice gs, by simp [toInterface, h1], by simp [canonAlt, h2], by simp [toObjectAlt, h3, normObj]⟩
  case map kvs =>
    obtain ⟨gs, h1, h2, h3⟩ := rtAlt_kvs C kvs h
    exact ⟨.map gs, by simp [toInterface, h1], by simp [canonAlt, h2], by simp [toObjectAlt, h3, normObj]⟩
  all_goals first
    | (simp [toInterface, toObjectAlt, normObj, canonAlt]; done)
    | (rename_i b; cases b <;> simp [toInterface, toObjectAlt, normObj, canonAlt])
theorem rtAlt_list (C : ConvOps) (xs : List Obj) (h : plainAltList xs = true) :
    ∃ gs, toInterface_list xs = .ok gs ∧ canonAltList gs = true ∧ toObjectAlt_list C gs = .ok (normObjList xs) := by
  cases xs with
  | nil => exact ⟨[], by simp [toInterface_list], by simp [canonAltList], by simp [toObjectAlt_list, normObjList]⟩
  | cons x xs =>
    simp [plainAltList] at h
    obtain ⟨g, h1, h2, h3⟩ := rtAlt_obj C x h.1
    obtain ⟨gs, k1, k2, k3⟩ := rtAlt_list C xs h.2
    exact ⟨g :: gs, by simp [toInterface_list, h1, k1], by simp [canonAltList, h2, k2],
      by simp [toObjectAlt_list, h3, k3, normObjList]⟩
theorem rtAlt_kvs (C : ConvOps) (kvs : List (Bytes × Obj)) (h : plainAltKvs kvs = true) :
    ∃ gs, toInterface_kvs kvs = .ok gs ∧ canonAltKvs gs = true ∧ toObjectAlt_kvs C gs = .ok (normObjKvs kvs) := by
  cases kvs with
  | nil => exact ⟨[], by simp [toInterface_kvs], by simp [canonAltKvs], by simp [toObjectAlt_kvs, normObjKvs]⟩
  | cons p rest =>
    obtain ⟨k, x⟩ := p
    simp [plainAltKvs] at h
    obtain ⟨g, h1, h2, h3⟩ := rtAlt_obj C x h.1
    obtain ⟨gs, k1, k2, k3⟩ := rtAlt_kvs C rest h.2
    exact ⟨(k, g) :: gs, by simp [toInterface_kvs, h1, k1], by simp [canonAltKvs, h2, k2],
      by simp [toObjectAlt_kvs, h3, k3, normObjKvs]⟩
end

/-! ### Go → uGO → Go -/
mutual
theorem rt_go (C : ConvOps) (g : GoVal) (h : canon g = true) :
    ∃ o, toObject C g = .ok o ∧ plain o = true ∧ toInterface o = .ok (normGo g) := by
  cases g <;> simp [canon] at h
  case slice xs =>
    obtain ⟨os, h1, h2, h3⟩ := rt_goList C xs h
    exact ⟨.array os, by simp [toObject, h1], by simp [plain, h2], by simp [toInterface, h3, normGo]⟩
  case map kvs =>
    obtain ⟨os, h1, h2, h3⟩ := rt_goKvs C kvs h
    exact ⟨.map os, by simp [toObject, h1], by simp [plain, h2], by simp [toInterface, h3, normGo]⟩
  case bool b => cases b <;> simp [toObject, toInterface, normGo, plain]
  all_goals simp [toObject, toObject_list, toObject_kvs, toInterface, toInterface_list, toInterface_kvs, normGo, plain, plainList, plainKvs]
theorem rt_goList (C : ConvOps) (xs : List GoVal) (h : canonList xs = true) :
    ∃ os, toObject_list C xs = .ok os ∧ plainList os = true ∧ toInterface_list os = .ok (normGoList xs) := by
  cases xs with
  | nil => exact ⟨[], by simp [toObject_list], by simp [plainList], by simp [toInterface_list, normGoList]⟩
  | cons x xs =>
    simp [canonList] at h
    obtain ⟨o, h1, h2, h3⟩ := rt_go C x h.1
    obtain ⟨os, k1, k2, k3⟩ := rt_goList C xs h.2
    exact ⟨o :: os, by simp [toObject_list, h1, k1], by simp [plainList, h2, k2],
      by simp [toInterface_list, h3, k3, normGoList]⟩
theorem rt_goKvs (C : ConvOps) (kvs : List (Bytes × GoVal)) (h : canonKvs kvs = true) :
    ∃ os, toObject_kvs C kvs = .ok os ∧ plainKvs os = true ∧ toInterface_kvs os = .ok (normGoKvs kvs) := by
  cases kvs with
  | nil => exact ⟨[], by simp [toObject_kvs], by simp [plainKvs], by simp [toInterface_kvs, normGoKvs]⟩
  | cons p rest =>
    obtain ⟨k, x⟩ := p
    simp [canonKvs] at h
    obtain ⟨o, h1, h2, h3⟩ := rt_go C x h.1
    obtain ⟨os, k1, k2, k3⟩ := rt_goKvs C rest h.2
    exact ⟨(k, o) :: os, by simp [toObject_kvs, h1, k1], by simp [plainKvs, h2, k2],
      by simp [toInterface_kvs, h3, k3, normGoKvs]⟩
end

mutual
theorem rtAlt_go (C : ConvOps) (g : GoVal) (h : canonAlt g = true) :
    ∃ o, toObjectAlt C g = .ok o ∧ plainAlt o = true ∧ toInterface o = .ok (normGo g) := by
  cases g <;> simp [canonAlt] at h
  case slice xs =>
    obtain ⟨os, h1, h2, h3⟩ := rtAlt_goList C xs h
    exact ⟨.array os, by simp [toObjectAlt, h1], by simp [plainAlt, h2], by simp [toInterface, h3, normGo]⟩
  case map kvs =>
    obtain ⟨os, h1, h2, h3⟩ := rtAlt_goKvs C kvs h
    exact ⟨.map os, by simp [toObjectAlt, h1], by simp [plainAlt, h2], by simp [toInterface, h3, normGo]⟩
  case bool b => cases b <;> simp [toObjectAlt, toInterface, normGo, plainAlt]
  all_goals simp [toObjectAlt, toObjectAlt_list, toObjectAlt_kvs, toInterface, toInterface_list, toInterface_kvs, normGo, plainAlt, plainAltList, plainAltKvs]
theorem rtAlt_goList (C : ConvOps) (xs : List GoVal) (h : canonAltList xs = true) :
    ∃ os, toObjectAlt_list C xs = .ok os ∧ plainAltList os = true ∧ toInterface_list os = .ok (normGoList xs) := by
  cases xs with
  | nil => exact ⟨[], by simp [toObjectAlt_list], by simp [plainAltList], by simp [toInterface_list, normGoList]⟩
  | cons x xs =>
    simp [canonAltList] at h
    obtain ⟨o, h1, h2, h3⟩ := rtAlt_go C x h.1
    obtain ⟨os, k1, k2, k3⟩ := rtAlt_goList C xs h.2
    exact ⟨o :: os, by simp [toObjectAlt_list, h1, k1], by simp [plainAltList, h2, k2],
      by simp [toInterface_list, h3, k3, normGoList]⟩
theorem rtAlt_goKvs (C : ConvOps) (kvs : List (Bytes × GoVal)) (h : canonAltKvs kvs = true) :
    ∃ os, toObjectAlt_kvs C kvs = .ok os ∧ plainAltKvs os = true ∧ toInterface_kvs os = .ok (normGoKvs kvs) := by
  cases kvs with
  | nil => exact ⟨[], by simp [toObjectAlt_kvs], by simp [plainAltKvs], by simp [toInterface_kvs, normGoKvs]⟩
  | cons p rest =>
    obtain ⟨k, x⟩ := p
    simp [canonAltKvs] at h
    obtain ⟨o, h1, h2, h3⟩ := rtAlt_go C x h.1
    obtain ⟨os, k1, k2, k3⟩ := rtAlt_goKvs C rest h.2
    exact ⟨(k, o) :: os, by simp [toObjectAlt_kvs, h1, k1], by simp [plainAltKvs, h2, k2],
      by simp [toInterface_kvs, h3, k3, normGoKvs]⟩
end

/-! ### `normGo` is idempotent, so `g' = normGo g` gives `g' ≃ g` -/
mutual
theorem normGo_idem (g : GoVal) : normGo (normGo g) = normGo g := by
  cases g
  case slice xs => simp [normGo, normGoList_idem xs]
  case map kvs => simp [normGo, normGoKvs_idem kvs]
  all_goals simp [normGo, normGoList, normGoKvs]
theorem normGoList_idem (xs : List GoVal) : normGoList (normGoList xs) = normGoList xs := by
  cases xs with
  | nil => simp [normGoList]
  | cons x xs => simp [normGoList, normGo_idem x, normGoList_idem xs]
theorem normGoKvs_idem (kvs : List (Bytes × GoVal)) : normGoKvs (normGoKvs kvs) = normGoKvs kvs := by
  cases kvs with
  | nil => simp [normGoKvs]
  | cons p rest =>
    obtain ⟨k, x⟩ := p
    simp [normGoKvs, normGo_idem x, normGoKvs_idem rest]
end

theorem sim_of_eq_norm {g g' : GoVal} (h : g' = normGo g) : g' ≃ g := by
  unfold GoSim; rw [h, normGo_idem]

/-! ### no panics -/
theorem bind_isPanic {α β} {x : Res α} {f : α → Res β} (hx : x.isPanic = false)
    (hf : ∀ a, (f a).isPanic = false) : (x >>= f).isPanic = false := by
  cases x <;> simp_all [Res.isPanic]

theorem toObjectDefault_no_panic (g : GoVal) : (toObjectDefault g).isPanic = false := by
  cases g <;>
    simp [toObjectDefault, regToObject, goRegType, regFind, Gen.ConvReg.registry, objConverter, Res.isPanic]

theorem toInterfaceDefault_total (o : Obj) : ∃ g, toInterfaceDefault o = .ok g := by
  cases o <;>
    simp [toInterfaceDefault, regToInterface, objRegType, regFind, Gen.ConvReg.registry, anyConverter]
  case location l => cases l <;> simp [anyConverter]
  case rawMessage b => cases b <;> simp [anyConverter]
  case scanArg a =>
    rcases a with _ | ⟨tn, id⟩ <;> simp [anyConverter]

mutual
theorem toObject_no_panic (C : ConvOps) (g : GoVal) : (toObject C g).isPanic = false := by
  cases g
  case slice xs =>
    simp only [toObject]
    exact bind_isPanic (toObject_list_no_panic C xs) (fun _ => rfl)
  case map kvs =>
    simp only [toObject]
    exact bind_isPanic (toObject_kvs_no_panic C kvs) (fun _ => rfl)
  case bool b => cases b <;> simp [toObject, Res.isPanic]
  all_goals first
    | (simp [toObject, toObject_list, toObject_kvs, Res.isPanic]; done)
    | (simp only [toObject]; exact toObjectDefault_no_panic _)
theorem toObject_list_no_panic (C : ConvOps) (xs : List GoVal) : (toObject_list C xs).isPanic = false := by
  cases xs with
  | nil => simp [toObject_list, Res.isPanic]
  | cons x xs =>
    simp only [toObject_list]
    exact bind_isPanic (toObject_no_panic C x) (fun _ => bind_isPanic (toObject_list_no_panic C xs) (fun _ => rfl))
theorem toObject_kvs_no_panic (C : ConvOps) (kvs : List (Bytes × GoVal)) : (toObject_kvs C kvs).isPanic = false := by
  cases kvs with
  | nil => simp [toObject_kvs, Res.isPanic]
  | cons p rest =>
    obtain ⟨k, x⟩ := p
    simp only [toObject_kvs]
    exact bind_isPanic (toObject_no_panic C x) (fun _ => bind_isPanic (toObject_kvs_no_panic C rest) (fun _ => rfl))
end

mutual
theorem toObjectAlt_no_panic (C : ConvOps) (g : GoVal) : (toObjectAlt C g).isPanic = false := by
  cases g
  case slice xs =>
    simp only [toObjectAlt]
    exact bind_isPanic (toObjectAlt_list_no_panic C xs) (fun _ => rfl)
  case map kvs =>
    simp only [toObjectAlt]
    exact bind_isPanic (toObjectAlt_kvs_no_panic C kvs) (fun _ => rfl)
  case bool b => cases b <;> simp [toObjectAlt, Res.isPanic]
  all_goals first
    | (simp [toObjectAlt, toObjectAlt_list, toObjectAlt_kvs, Res.isPanic]; done)
    | (simp only [toObjectAlt]; exact toObjectDefault_no_panic _)
theorem toObjectAlt_list_no_panic (C : ConvOps) (xs : List GoVal) : (toObjectAlt_list C xs).isPanic = false := by
  cases xs with
  | nil => simp [toObjectAlt_list, Res.isPanic]
  | cons x xs =>
    simp only [toObjectAlt_list]
    exact bind_isPanic (toObjectAlt_no_panic C x) (fun _ => bind_isPanic (toObjectAlt_list_no_panic C xs) (fun _ => rfl))
theorem toObjectAlt_kvs_no_panic (C : ConvOps) (kvs : List (Bytes × GoVal)) : (toObjectAlt_kvs C kvs).isPanic = false := by
  cases kvs with
  | nil => simp [toObjectAlt_kvs, Res.isPanic]
  | cons p rest =>
    obtain ⟨k, x⟩ := p
    simp only [toObjectAlt_kvs]
    exact bind_isPanic (toObjectAlt_no_panic C x) (fun _ => bind_isPanic (toObjectAlt_kvs_no_panic C rest) (fun _ => rfl))
end

/-! ToInterface has no error result and (on the repaired tree) no panic: it is total -/
mutual
theorem toInterface_total (o : Obj) : ∃ g, toInterface o = .ok g := by
  cases o
  case array xs =>
    obtain ⟨gs, h⟩ := toInterface_list_total xs
    exact ⟨.slice gs, by simp [toInterface, h]⟩
  case map kvs =>
    obtain ⟨gs, h⟩ := toInterface_kvs_total kvs
    exact ⟨.map gs, by simp [toInterface, h]⟩
  case syncMap kvs =>
    obtain ⟨gs, h⟩ := toInterface_kvs_total kvs
    exact ⟨.map gs, by simp [toInterface, h]⟩
  all_goals first
    | (simp [toInterface]; done)
    | (simp only [toInterface]; exact toInterfaceDefault_total _)
theorem toInterface_list_total (xs : List Obj) : ∃ gs, toInterface_list xs = .ok gs := by
  cases xs with
  | nil => exact ⟨[], by simp [toInterface_list]⟩
  | cons x xs =>
    obtain ⟨g, h⟩ := toInterface_total x
    obtain ⟨gs, k⟩ := toInterface_list_total xs
    exact ⟨g :: gs, by simp [toInterface_list, h, k]⟩
theorem toInterface_kvs_total (kvs : List (Bytes × Obj)) : ∃ gs, toInterface_kvs kvs = .ok gs := by
  cases kvs with
  | nil => exact ⟨[], by simp [toInterface_kvs]⟩
  | cons p rest =>
    obtain ⟨k, x⟩ := p
    obtain ⟨g, h⟩ := toInterface_total x
    obtain ⟨gs, hk⟩ := toInterface_kvs_total rest
    exact ⟨(k, g) :: gs, by simp [toInterface_kvs, h, hk]⟩
end

/-! ### unsupported types -/
theorem toObjectDefault_unsupported (g : GoVal) (h : hasUnsupported g = true) (hc : isContainer g = false) :
    toObjectDefault g = .err (.other "error" ("cannot convert to object: " ++ g.typeName)) := by
  cases g <;> simp [hasUnsupported, isContainer] at h hc <;>
    simp [toObjectDefault, regToObject, goRegType]

mutual
theorem toObject_ok_supported (C : ConvOps) (g : GoVal) (o : Obj) (h : toObject C g = .ok o) :
    hasUnsupported g = false := by
  cases g
  case slice xs =>
    simp only [toObject] at h
    cases hl : toObject_list C xs <;> simp [hl] at h
    simp [hasUnsupported, toObject_list_ok_supported C xs _ hl]
  case map kvs =>
    simp only [toObject] at h
    cases hl : toObject_kvs C kvs <;> simp [hl] at h
    simp [hasUnsupported, toObject_kvs_ok_supported C kvs _ hl]
  case unsupported tn => simp [toObject, toObjectDefault, regToObject, goRegType] at h
  case ptr tn id => simp [toObject, toObjectDefault, regToObject, goRegType] at h
  all_goals simp [hasUnsupported]
theorem toObject_list_ok_supported (C : ConvOps) (xs : List GoVal) (os : List Obj) (h : toObject_list C xs = .ok os) :
    hasUnsupportedList xs = false := by
  cases xs with
  | nil => simp [hasUnsupportedList]
  | cons x xs =>
    simp only [toObject_list] at h
    cases h1 : toObject C x <;> simp [h1] at h
    cases h2 : toObject_list C xs <;> simp [h2] at h
    simp [hasUnsupportedList, toObject_ok_supported C x _ h1, toObject_list_ok_supported C xs _ h2]
theorem toObject_kvs_ok_supported (C : ConvOps) (kvs : List (Bytes × GoVal)) (os : List (Bytes × Obj))
    (h : toObject_kvs C kvs = .ok os) : hasUnsupportedKvs kvs = false := by
  cases kvs with
  | nil => simp [hasUnsupportedKvs]
  | cons p rest =>
    obtain ⟨k, x⟩ := p
    simp only [toObject_kvs] at h
    cases h1 : toObject C x <;> simp [h1] at h
    cases h2 : toObject_kvs C rest <;> simp [h2] at h
    simp [hasUnsupportedKvs, toObject_ok_supported C x _ h1, toObject_kvs_ok_supported C rest _ h2]
end

mutual
theorem toObjectAlt_ok_supported (C : ConvOps) (g : GoVal) (o : Obj) (h : toObjectAlt C g = .ok o) :
    hasUnsupported g = false := by
  cases g
  case slice xs =>
    simp only [toObjectAlt] at h
    cases hl : toObjectAlt_list C xs <;> simp [hl] at h
    simp [hasUnsupported, toObjectAlt_list_ok_supported C xs _ hl]
  case map kvs =>
    simp only [toObjectAlt] at h
    cases hl : toObjectAlt_kvs C kvs <;> simp [hl] at h
    simp [hasUnsupported, toObjectAlt_kvs_ok_supported C kvs _ hl]
  case unsupported tn => simp [toObjectAlt, toObjectDefault, regToObject, goRegType] at h
  case ptr tn id => simp [toObjectAlt, toObjectDefault, regToObject, goRegType] at h
  all_goals simp [hasUnsupported]
theorem toObjectAlt_list_ok_supported (C : ConvOps) (xs : List GoVal) (os : List Obj) (h : toObjectAlt_list C xs = .ok os) :
    hasUnsupportedList xs = false := by
  cases xs with
  | nil => simp [hasUnsupportedList]
  | cons x xs =>
    simp only [toObjectAlt_list] at h
    cases h1 : toObjectAlt C x <;> simp [h1] at h
    cases h2 : toObjectAlt_list C xs <;> simp [h2] at h
    simp [hasUnsupportedList, toObjectAlt_ok_supported C x _ h1, toObjectAlt_list_ok_supported C xs _ h2]
theorem toObjectAlt_kvs_ok_supported (C : ConvOps) (kvs : List (Bytes × GoVal)) (os : List (Bytes × Obj))
    (h : toObjectAlt_kvs C kvs = .ok os) : hasUnsupportedKvs kvs = false := by
  cases kvs with
  | nil => simp [hasUnsupportedKvs]
  | cons p rest =>
    obtain ⟨k, x⟩ := p
    simp only [toObjectAlt_kvs] at h
    cases h1 : toObjectAlt C x <;> simp [h1] at h
    cases h2 : toObjectAlt_kvs C rest <;> simp [h2] at h
    simp [hasUnsupportedKvs, toObjectAlt_ok_supported C x _ h1, toObjectAlt_kvs_ok_supported C rest _ h2]
end

theorem err_of_not_ok_not_panic {α} (r : Res α) (h1 : ∀ a, r ≠ .ok a) (h2 : r.isPanic = false) : ∃ e, r = .err e := by
  cases r <;> simp_all [Res.isPanic]

end UgoVerif.Proofs.Conv
