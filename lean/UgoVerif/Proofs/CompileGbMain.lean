import UgoVerif.Proofs.CompileGbPrims
import UgoVerif.Proofs.CompileMain
/-
  C13 over the compiler model: every function of the compiler's mutual block keeps the GETBUILTIN
  invariant (`GB.Inv`, Proofs/CompileGbInv.lean), for ALL ASTs: strong induction on the size of the
  AST, following Proofs/CompileMain.lean (builder-c05), without its hypothesis on the AST (errors
  and panics of the compiler are acceptable outcomes for the judgment `GB.Sat`).
-/
namespace UgoVerif.Compile.GB
open UgoVerif UgoVerif.Go UgoVerif.Ast UgoVerif.Compile

variable {c : Ctx}

abbrev LastOK (c : Ctx) (last : Option (CM Unit × VSum)) : Prop := ∀ x, last = some x → Good c x.1

/-- the induction hypothesis: everything of size `< n` is fine -/
structure AllGb (c : Ctx) (n : Nat) : Prop where
  expr : ∀ e, sizeOf e < n → Good c (compileExpr e)
  exprs : ∀ es, sizeOf es < n → Good c (compileExprs es)
  mapElems : ∀ pos ms, sizeOf ms < n → Good c (compileMapElems pos ms)
  indexChain : ∀ e self, sizeOf e < n → Good c self → Good c (compileIndexChain e self)
  selChain : ∀ e, sizeOf e < n → Good c (compileSelChain e)
  stmts : ∀ ss, sizeOf ss < n → Good c (compileStmts ss)
  defineAssign : ∀ pos lhs kw op allow, sizeOf lhs < n → Good c (compileDefineAssign pos lhs kw op allow)
  destructure : ∀ pos kw op num tmp es k found, sizeOf es < n →
    Good c (compileDestructure pos kw op num tmp es k found)
  valueIdents : ∀ pos tok ids vals last, sizeOf vals < n → LastOK c last →
    GoodP c (LastOK c) (compileValueIdents pos tok ids vals last)
  valueSpecs : ∀ pos tok specs last, sizeOf specs < n → LastOK c last →
    Good c (compileValueSpecs pos tok specs last)
  stmt : ∀ st, sizeOf st < n → Good c (compileStmt st)


macro_rules | `(tactic| gb_leaf) => `(tactic| with_reducible first
  | exact good_emitConstLit _ _
  | exact good_compileDefine _ _ _ _ | exact good_compileAssignSym _ _ _
  | exact good_compileIdent _ _ | exact good_compileBranch _ _ | exact good_defineLocal _
  | exact good_setParams _ _ | exact good_declParamVariadic _ _ | exact good_declGlobals _ _
  | exact good_emitFreePtrs _ _ | exact good_defineCatchIdent _ _
  | exact goodP_finishFn.good
  | fail)

theorem step_exprs {n : Nat} (ih : AllGb c n) : ∀ es, sizeOf es < n + 1 → Good c (compileExprs es)
  | [], _ => by unfold compileExprs; gb
  | e :: r, hsz => by
    have h1 := ih.expr e (by sz)
    have h2 := ih.exprs r (by sz)
    unfold compileExprs
    gb


theorem step_mapElems {n : Nat} (ih : AllGb c n) (pos : Pos) : ∀ ms, sizeOf ms < n + 1 → Good c (compileMapElems pos ms)
  | [], _ => by unfold compileMapElems; gb
  | (k, v) :: r, hsz => by
    have h1 := ih.expr v (by sz)
    have h2 := ih.mapElems pos r (by sz)
    unfold compileMapElems
    gb

theorem step_stmts {n : Nat} (ih : AllGb c n) : ∀ ss, sizeOf ss < n + 1 → Good c (compileStmts ss)
  | [], _ => by unfold compileStmts; gb
  | st :: r, hsz => by
    have h1 := ih.stmt st (by sz)
    have h2 := ih.stmts r (by sz)
    unfold compileStmts
    gb

theorem step_indexChain {n : Nat} (ih : AllGb c n) (e : Expr) (self : CM Unit) (hsz : sizeOf e < n + 1)
    (hself : Good c self) : Good c (compileIndexChain e self) := by
  unfold compileIndexChain
  split
  · rename_i e' i
    have h0 := ih.expr e' (by sz)
    have h1 := ih.indexChain e' (compileExpr e') (by sz) h0
    have h2 := ih.expr i (by sz)
    gb
  · gb

theorem step_selChain {n : Nat} (ih : AllGb c n) (e : Expr) (hsz : sizeOf e < n + 1)
    : Good c (compileSelChain e) := by
  unfold compileSelChain
  split
  · rename_i e' i
    have h1 := ih.selChain e' (by sz)
    have h2 := ih.expr i (by sz)
    gb
  · rename_i e' i
    have h1 := ih.selChain e' (by sz)
    have h2 := ih.expr i (by sz)
    gb
  · gb

theorem step_defineAssign {n : Nat} (ih : AllGb c n) (pos : Pos) (lhs : Expr) (kw op : Nat) (allow : Bool)
    (hsz : sizeOf lhs < n + 1) : Good c (compileDefineAssign pos lhs kw op allow) := by
  unfold compileDefineAssign
  split
  · rename_i e last
    have h1 := ih.selChain e (by sz)
    have h2 := ih.expr last (by sz)
    gb
  · rename_i e last
    have h1 := ih.selChain e (by sz)
    have h2 := ih.expr last (by sz)
    gb
  · gb

theorem step_destructure {n : Nat} (ih : AllGb c n) (pos : Pos) (kw op num : Nat) (tmp : Int) :
    ∀ es k found, sizeOf es < n + 1 → Good c (compileDestructure pos kw op num tmp es k found)
  | [], _, _, _ => by unfold compileDestructure; gb
  | e :: r, k, found, hsz => by
    have h1 := ih.defineAssign pos e kw op (kw != tConst) (by sz)
    have h2 := fun k f => ih.destructure pos kw op num tmp r k f (by sz)
    unfold compileDestructure
    gb
    exact h2 _ _


theorem good_lastMatch (pos : Pos) (tok : Nat) (ipos : Pos) (name : String) {last : Option (CM Unit × VSum)}
    (hl : LastOK c last) :
    Good c (match (if tok == tConst then last else none) with
     | some (act, sum) => compileValueIdent pos tok name act sum
     | none => compileValueIdent pos tok name (emit_ ipos OpNull) (.lit .undefined)) := by
  split
  · rename_i act sum h
    refine good_compileValueIdent pos tok name (hl (act, sum) ?_) sum
    split at h
    · exact h
    · cases h
  · exact good_compileValueIdent pos tok name (good_emit_ (by gne)) _

theorem step_valueIdents {n : Nat} (ih : AllGb c n) (pos : Pos) (tok : Nat) :
    ∀ (ids : List (Pos × String)) (vals : List (Option Expr)) (last : Option (CM Unit × VSum)),
      sizeOf vals < n + 1 → LastOK c last → GoodP c (LastOK c) (compileValueIdents pos tok ids vals last)
  | [], vals, last, _, hl => by
    unfold compileValueIdents
    exact GoodP.pure hl
  | id :: irest, [], last, _, hl => by
    unfold compileValueIdents
    exact GoodP.bind (good_compileIdentsNoValue pos tok hl _) fun _ _ => GoodP.pure hl
  | (ipos, name) :: irest, some e :: vrest, last, hsz, hl => by
    have he := ih.expr e (by sz)
    unfold compileValueIdents
    refine GoodP.bind (good_compileValueIdent pos tok name he _) fun _ _ => ?_
    exact ih.valueIdents pos tok irest vrest _ (by sz)
      (fun x hx => by injection hx with hx; subst hx; exact he)
  | (ipos, name) :: irest, none :: vrest, last, hsz, hl => by
    unfold compileValueIdents
    refine GoodP.bind (good_lastMatch pos tok ipos name hl) fun _ _ => ?_
    exact ih.valueIdents pos tok irest vrest _ (by sz) hl

theorem step_valueSpecs {n : Nat} (ih : AllGb c n) (pos : Pos) (tok : Nat) :
    ∀ specs last, sizeOf specs < n + 1 → LastOK c last → Good c (compileValueSpecs pos tok specs last)
  | [], _, _, _ => by unfold compileValueSpecs; gb
  | (iota, ids, vals) :: rest, last, hsz, hl => by
    have h1 := ih.valueIdents pos tok ids vals last (by sz) hl
    have h2 := fun l hl => ih.valueSpecs pos tok rest l (by sz) hl
    have hm : ∀ v : Int, Good c (modify (fun s : CState => { s with iotaVal := v }) : CM Unit) :=
      fun v => good_modify_misc (fun _ => rfl) (fun _ => rfl) (fun _ => rfl)
    unfold compileValueSpecs
    refine GoodP.bind (P := fun _ => True) ?_ (fun _ _ => ?_)
    · split
      · split
        · exact hm _
        · gb
      · gb
    · exact GoodP.bind h1 fun l hl' => h2 l hl'


theorem st_done {s0 s : CState} {ps : List Nat} (h : St c s0 ps s) : Inv c s ∧ Rel s0 s ∧ True := ⟨h.inv, h.rel, trivial⟩

theorem step_expr {n : Nat} (ih : AllGb c n) (e : Expr) (hsz : sizeOf e < n + 1) :
    Good c (compileExpr e) := by
  cases e with
  | paren _ e =>
    have := ih.expr e (by sz)
    unfold compileExpr; exact this
  | binary pos tok l r =>
    have h1 := ih.expr l (by sz)
    have h2 := ih.expr r (by sz)
    unfold compileExpr
    split
    · intro s hs
      have hst := St.init hs
      apply st_good_bind h1 hst; intro _ s1 _ hst
      apply st_emit_bind hst (by jmp); intro s2 hst
      apply st_good_bind h2 hst; intro _ s3 _ hst
      apply st_curPos_bind hst; intro hst
      exact st_changeOperand hst (by simp) (fun s' h => st_done h)
    · gb
  | int pos v => unfold compileExpr; gb
  | uint pos v => unfold compileExpr; gb
  | float pos v => unfold compileExpr; gb
  | bool pos b => unfold compileExpr; gb
  | str pos v => unfold compileExpr; gb
  | char pos v => unfold compileExpr; gb
  | undef pos => unfold compileExpr; gb
  | unary pos tok e =>
    have := ih.expr e (by sz)
    unfold compileExpr; gb
  | ident pos name => unfold compileExpr; gb
  | array pos es =>
    have := ih.exprs es (by sz)
    unfold compileExpr; gb
  | map pos ms =>
    have := ih.mapElems pos ms (by sz)
    unfold compileExpr; gb
  | selector pos e sel =>
    have h0 := ih.expr e (by sz)
    have h1 := ih.indexChain e (compileExpr e) (by sz) h0
    have h2 := ih.expr sel (by sz)
    unfold compileExpr; gb
  | index pos e i =>
    have h0 := ih.expr e (by sz)
    have h1 := ih.indexChain e (compileExpr e) (by sz) h0
    have h2 := ih.expr i (by sz)
    unfold compileExpr; gb
  | slice pos e lo hi =>
    have h0 := ih.expr e (by sz)
    have hlo : Good c (match lo with | some x => compileExpr x | none => emit_ pos OpNull) := by
      cases lo with
      | none => gb
      | some x => exact ih.expr x (by sz)
    have hhi : Good c (match hi with | some x => compileExpr x | none => emit_ pos OpNull) := by
      cases hi with
      | none => gb
      | some x => exact ih.expr x (by sz)
    unfold compileExpr; gb
  | func pos variadic params bp body =>
    have hb := ih.stmts body (by sz)
    have hw := goodP_withFn pos variadic params (good_blockOf (body := body) hb)
    unfold compileExpr
    intro s hs
    apply Sat.bind
    apply Sat.mono (hw s hs)
    intro r s1 ⟨hi1, hr1, hfn⟩
    obtain ⟨fn, ft⟩ := r
    simp only
    apply Sat.bind
    apply Sat.mono (good_emitFreePtrs pos ft.frees s1 hi1)
    intro _ s2 ⟨hi2, hr2, _⟩
    split
    · exact Sat.throw hi2.tinv
    · apply Sat.mono (sat_emitFnConstant hi2 hfn)
      intro _ s3 ⟨hi3, hr3, _⟩
      exact ⟨hi3, hr1.trans (hr2.trans hr3), trivial⟩
  | call pos ell f args =>
    have ha := ih.exprs args (by sz)
    have hf := ih.expr f (by sz)
    unfold compileExpr
    split
    · rename_i p se ssel
      have h1 := ih.expr se (by sz)
      have h2 := ih.expr ssel (by sz)
      gb
    · gb
  | import_ pos name => unfold compileExpr; gb
  | cond pos cnd t f =>
    have hc := ih.expr cnd (by sz)
    have ht := ih.expr t (by sz)
    have hf := ih.expr f (by sz)
    unfold compileExpr
    split
    · gb
    · intro s hs
      have hst := St.init hs
      apply st_good_bind hc hst; intro _ s1 _ hst
      apply st_emit_bind hst (by jmp); intro s2 hst
      apply st_good_bind ht hst; intro _ s3 _ hst
      apply st_emit_bind hst (by jmp); intro s4 hst
      apply st_curPos_bind hst; intro hst
      apply st_changeOperand_bind hst (by simp); intro s6 hst
      apply st_good_bind hf hst; intro _ s7 _ hst
      apply st_curPos_bind hst; intro hst
      exact st_changeOperand hst (by simp) (fun s' h => st_done h)


theorem good_tryIdx (f : Int → Int) : Good c (modify (fun s : CState => { s with tryCatchIndex := f s.tryCatchIndex }) : CM Unit) :=
  good_modify_misc (fun _ => rfl) (fun _ => rfl) (fun _ => rfl)

theorem good_optStmt {n : Nat} (ih : AllGb c n) (o : Option Stmt) (hsz : sizeOf o < n) :
    Good c (match o with | some i => compileStmt i | none => Pure.pure ()) := by
  cases o with
  | none => gb
  | some i => exact ih.stmt i (by sz)

/-- the `else` part of an if statement: the pending jump `j` is patched -/
theorem st_ifTail {n : Nat} (ih : AllGb c n) (pos : Pos) (els : Option Stmt) (hsz : sizeOf els < n)
    {s0 s : CState} {ps : List Nat} {j : Nat} (hst : St c s0 ps s) (hj : j ∈ ps) :
    Sat c (match els with
      | some e => do
        let j2 ← emit pos OpJump [0]
        changeOperand j [(← curPos)]
        compileStmt e
        changeOperand j2 [(← curPos)]
      | none => do changeOperand j [(← curPos)]) s (fun _ s' => Inv c s' ∧ Rel s0 s' ∧ True) := by
  cases els with
  | none =>
    simp only
    apply st_curPos_bind hst; intro hst
    exact st_changeOperand hst hj (fun s' h => st_done h)
  | some e =>
    have he := ih.stmt e (by sz)
    simp only
    apply st_emit_bind hst (by jmp); intro s1 hst
    apply st_curPos_bind hst; intro hst
    apply st_changeOperand_bind hst (by simp [hj]); intro s3 hst
    apply st_good_bind he hst; intro _ s4 _ hst
    apply st_curPos_bind hst; intro hst
    exact st_changeOperand hst (by simp) (fun s' h => st_done h)

theorem step_stmt {n : Nat} (ih : AllGb c n) (st : Stmt) (hsz : sizeOf st < n + 1) :
    Good c (compileStmt st) := by
  cases st with
  | empty pos => rw [compileStmt_eq]; simp only; gb
  | expr pos e =>
    have := ih.expr e (by sz)
    rw [compileStmt_eq]; simp only; gb
  | incdec pos tok tokPos e =>
    have h1 := ih.expr e (by sz)
    have h2 := ih.defineAssign pos e tVar (if tok == tDec then tSubAssign else tAddAssign) false (by sz)
    rw [compileStmt_eq]; simp only; gb
  | assign pos tok lhs rhs =>
    have h1 := ih.exprs rhs (by sz)
    rw [compileStmt_eq]; simp only
    cases lhs with
    | nil =>
      apply good_compileAssign
      · exact h1
      · exact GoodP.cpanic
      · exact GoodP.cpanic
      · intro i; unfold compileDestructure; gb
    | cons e0 rest =>
      apply good_compileAssign
      · exact h1
      · exact ih.expr e0 (by sz)
      · exact ih.defineAssign pos e0 tVar tok false (by sz)
      · intro i
        exact ih.destructure pos tVar tok _ i (e0 :: rest) 0 0 (by sz)
  | block pos body =>
    have := ih.stmts body (by sz)
    rw [compileStmt_eq]; simp only; gb
  | if_ pos init cond bp body els =>
    have hinit := good_optStmt ih init (by sz)
    have hc := ih.expr cond (by sz)
    have hb : Good c (blockOf body (compileStmts body)) := good_blockOf (ih.stmts body (by sz))
    have hels : sizeOf els < n := by sz
    rw [compileStmt_eq]; simp only
    apply good_withBlock
    intro s hs
    have hst := St.init hs
    apply st_good_bind hinit hst; intro _ s1 _ hst
    split
    · exact Sat.mono (hb s1 hst.inv) fun _ s' ⟨h1, h2, _⟩ => st_done (hst.step h1 h2)
    · apply st_emit_bind hst (by jmp); intro s2 hst
      exact st_ifTail ih pos els hels hst (by simp)
    · apply st_good_bind hc hst; intro _ s2 _ hst
      apply st_emit_bind hst (by jmp); intro s3 hst
      apply st_good_bind hb hst; intro _ s4 _ hst
      exact st_ifTail ih pos els hels hst (by simp)
  | for_ pos init cond post bp body =>
    have hinit := good_optStmt ih init (by sz)
    have hpost := good_optStmt ih post (by sz)
    have hb : Good c (blockOf body (compileStmts body)) := good_blockOf (ih.stmts body (by sz))
    rw [compileStmt_eq]; simp only
    apply good_withBlock
    intro s hs
    have hst := St.init hs
    apply st_good_bind hinit hst; intro _ s1 _ hst
    apply st_curPos_bind hst; intro hst
    cases cond with
    | none =>
      simp only [pure_bind]
      apply st_withLoop_bind hb hst; intro loop s4 hst
      apply st_curPos_bind hst; intro hst
      apply st_good_bind hpost hst; intro _ s6 _ hst
      apply st_emit__bind hst (by gne); intro s7 hst
      apply st_curPos_bind hst; intro hst
      apply st_patchAll_bind hst (by intro p hp; simp [hp]); intro s9 hst
      exact st_patchAll hst (by intro p hp; simp [hp]) (fun s' h => st_done h)
    | some cnd =>
      have hc := ih.expr cnd (by sz)
      simp only [bind_assoc, pure_bind]
      apply st_good_bind hc hst; intro _ s3 _ hst
      apply st_emit_bind hst (by jmp); intro s3' hst
      apply st_withLoop_bind hb hst; intro loop s4 hst
      apply st_curPos_bind hst; intro hst
      apply st_good_bind hpost hst; intro _ s6 _ hst
      apply st_emit__bind hst (by gne); intro s7 hst
      apply st_curPos_bind hst; intro hst
      apply st_changeOperand_bind hst (by simp); intro s9 hst
      apply st_patchAll_bind hst (by intro p hp; simp [hp]); intro s10 hst
      exact st_patchAll hst (by intro p hp; simp [hp]) (fun s' h => st_done h)
  | forin pos key value iter bp body =>
    have hit := ih.expr iter (by sz)
    have hb : Good c (blockOf body (compileStmts body)) := good_blockOf (ih.stmts body (by sz))
    rw [compileStmt_eq]; simp only
    apply good_withBlock
    intro s hs
    have hst := St.init hs
    apply st_good_bind (good_defineLocal ":it") hst; intro x s1 _ hst
    obtain ⟨itSym, ex⟩ := x
    simp only
    split
    · exact Sat.cerr hst.tinv
    · apply st_good_bind hit hst; intro _ s2 _ hst
      apply st_good_bind (good_emit_ (by gne)) hst; intro _ s3 _ hst
      apply st_good_bind (good_emit_ (by gne)) hst; intro _ s4 _ hst
      apply st_curPos_bind hst; intro hst
      apply st_good_bind (good_emit_ (by gne)) hst; intro _ s6 _ hst
      apply st_good_bind (good_emit_ (by gne)) hst; intro _ s7 _ hst
      apply st_emit_bind hst (by jmp); intro s8 hst
      have hbody : Good c (do
          forinVar pos itSym.index OpIterKey key
          forinVar pos itSym.index OpIterValue value
          blockOf body (compileStmts body)) :=
        GoodP.bind (good_forinVar pos _ (by gne) key) fun _ _ =>
          GoodP.bind (good_forinVar pos _ (by gne) value) fun _ _ => hb
      apply st_withLoop_bind hbody hst; intro loop s9 hst
      apply st_curPos_bind hst; intro hst
      apply st_emit__bind hst (by gne); intro s11 hst
      apply st_curPos_bind hst; intro hst
      apply st_changeOperand_bind hst (by simp); intro s13 hst
      apply st_patchAll_bind hst (by intro p hp; simp [hp]); intro s14 hst
      exact st_patchAll hst (by intro p hp; simp [hp]) (fun s' h => st_done h)
  | branch pos tok => rw [compileStmt_eq]; simp only; gb
  | return_ pos e =>
    cases e with
    | none => rw [compileStmt_eq]; simp only; gb
    | some x =>
      have := ih.expr x (by sz)
      rw [compileStmt_eq]; simp only; gb
  | try_ pos bp body cth f =>
    have hbody := ih.stmts body (by sz)
    -- the `finally` part: emits SETUPFINALLY (its position is the finally target), then the body
    have hfin : ∀ {s0 s : CState} {ps : List Nat} {Q : Unit → CState → Prop} (g : Nat → CM Unit),
        St c s0 ps s →
        (∀ fp s', St c s0 ps s' → Sat c (g fp) s' Q) →
        Sat c ((match f with
          | some (fpos, _, fbody) => do let p ← emit fpos OpSetupFinally; compileStmts fbody; Pure.pure p
          | none => emit pos OpSetupFinally) >>= g) s Q := by
      intro s0 s ps Q g hst hg
      cases f with
      | none =>
        simp only
        apply st_emit_tgt_bind hst (by gne); intro s' hst' _
        exact hg _ s' hst'
      | some fv =>
        obtain ⟨f1, f2, f3⟩ := fv
        have hfb := ih.stmts f3 (by sz)
        simp only [bind_assoc, pure_bind]
        apply st_emit_tgt_bind hst (by gne); intro s' hst' _
        apply st_good_bind hfb hst'; intro _ s'' _ hst''
        exact hg _ s'' hst''
    rw [compileStmt_eq]; simp only
    refine GoodP.bind (P := fun _ => True) (good_withBlock ?_) (fun _ _ => ?_)
    · intro s hs
      have hst := St.init hs
      apply st_good_bind (good_tryIdx (· + 1)) hst; intro _ s1 _ hst
      apply st_emit_bind hst (by jmp); intro s2 hst
      apply st_good_bind hbody hst; intro _ s3 _ hst
      cases cth with
      | none =>
        simp only
        apply hfin _ hst; intro fp s4 hst
        exact st_changeOperand hst (by simp) (fun s' h => st_done h)
      | some cv =>
        obtain ⟨cpos, ident, c3, cbody⟩ := cv
        have hcb := ih.stmts cbody (by sz)
        have hid1 : Good c (match ident with
            | some name => do emit_ cpos OpNull; defineCatchIdent pos name
            | none => Pure.pure ()) := by cases ident <;> gb
        have hid2 : Good c (match ident with
            | some name => defineCatchIdent cpos name
            | none => emit_ cpos OpPop) := by cases ident <;> gb
        simp only
        apply st_good_bind hid1 hst; intro _ s4 _ hst
        apply st_emit_bind hst (by jmp); intro s5 hst
        apply st_curPos_bind hst; intro hst
        apply st_good_bind (good_emit_ (by gne)) hst; intro _ s7 _ hst
        apply st_good_bind hid2 hst; intro _ s8 _ hst
        apply st_good_bind hcb hst; intro _ s9 _ hst
        apply hfin _ hst; intro fp s10 hst
        apply st_changeOperand_bind hst (by simp); intro s11 hst
        exact st_changeOperand hst (by simp) (fun s' h => st_done h)
    · have := good_tryIdx (c := c) (· - 1)
      gb
  | throw pos e =>
    cases e with
    | none => rw [compileStmt_eq]; simp only; gb
    | some x =>
      have := ih.expr x (by sz)
      rw [compileStmt_eq]; simp only; gb
  | declParam pos specs => rw [compileStmt_eq]; simp only; gb
  | declGlobal pos specs => rw [compileStmt_eq]; simp only; gb
  | declValue pos tok specs =>
    have := ih.valueSpecs pos tok specs none (by sz) (fun x hx => by cases hx)
    have : Good c (modify (fun s : CState => { s with iotaVal := -1 }) : CM Unit) :=
      good_modify_misc (fun _ => rfl) (fun _ => rfl) (fun _ => rfl)
    rw [compileStmt_eq]; simp only; gb


theorem allGb (c : Ctx) : ∀ n, AllGb c n
  | 0 => ⟨fun _ h => by omega, fun _ h => by omega, fun _ _ h => by omega, fun _ _ h => by omega,
          fun _ h => by omega, fun _ h => by omega, fun _ _ _ _ _ h => by omega,
          fun _ _ _ _ _ _ _ _ h => by omega, fun _ _ _ _ _ h => by omega, fun _ _ _ _ h => by omega,
          fun _ h => by omega⟩
  | n + 1 =>
    have ih := allGb c n
    ⟨step_expr ih, step_exprs ih, fun pos => step_mapElems ih pos, fun e self h1 h2 => step_indexChain ih e self h1 h2,
     step_selChain ih, step_stmts ih, fun pos lhs kw op allow => step_defineAssign ih pos lhs kw op allow,
     fun pos kw op num tmp => step_destructure ih pos kw op num tmp,
     fun pos tok => step_valueIdents ih pos tok, fun pos tok => step_valueSpecs ih pos tok, step_stmt ih⟩

/-- every statement list, from any state that satisfies the invariant, re-establishes it -/
theorem good_compileStmts (ss : List Stmt) : Good c (compileStmts ss) :=
  (allGb c (sizeOf ss + 1)).stmts ss (by omega)

theorem good_compileExpr (e : Expr) : Good c (compileExpr e) :=
  (allGb c (sizeOf e + 1)).expr e (by omega)

/-- what C13 asks of a Bytecode: the GETBUILTIN operands of the main function and of every compiled
    function of the constant pool are acceptable -/
def BcOK (c : Ctx) (bc : Bytecode) : Prop :=
  GbOK c bc.main.insts ∧ ∀ f, Const.fn f ∈ bc.constants.toList → GbOK c f.insts

theorem goodP_compileProg (file : List Stmt) : GoodP c (BcOK c) (compileProg file) := by
  intro s hs
  unfold compileProg
  apply Sat.bind
  apply Sat.mono (good_compileStmts file s hs)
  intro _ s1 ⟨hi1, hr1, _⟩
  apply Sat.bind
  apply Sat.mono (goodP_finishFn s1 hi1)
  intro fn s2 ⟨hi2, hr2, hfn⟩
  split
  · exact Sat.throw hi2.tinv
  · apply Sat.bind
    apply Sat.get
    apply Sat.pure
    exact ⟨hi2, hr1.trans hr2, hfn, hi2.consts⟩

/-- the start state of `compileFile` satisfies the invariant for `D` = the disabled set handed in -/
theorem inv_initState (builtins : List (String × Nat)) (disabled : List String) :
    Inv ⟨builtins, disabled⟩ (initState builtins disabled) := by
  refine ⟨by simp [initState], rfl, ?_, fun n hn => hn, Walk.refl 0, fun l hl => by simp [initState] at hl,
    fun f hf => by simp [initState] at hf, gbOK_empty⟩
  intro t ht
  simp [initState] at ht
  subst ht
  exact storeOK_nil

end UgoVerif.Compile.GB
