import UgoVerif.Proofs.JsonSpecD
import UgoVerif.Proofs.JsonScan
/-
  C17: the scanner automaton (`Model/JsonScan.lean`) accepts exactly the JSON texts of
  nesting depth ≤ maxNestingDepth (`Spec/JsonDepth.lean`).

  Method: for every scanner configuration `s` (state + parse stack) `resid s : Bytes → Bool`
  is the language that the RECOGNISER still expects (a Brzozowski-style residual written with
  the phrase functions of `Spec/Json`), and one step of the automaton is the derivative:
  `resid s (c :: rest) = resid s' rest` (`step_resid`), `resid s [] = (eof s ≠ scanError)`
  (`eof_resid`).  Hence `checkLoop s bs = ok (resid s bs)` for all `bs`, and
  `resid Scanner.new = isJsonD maxNestingDepth`.
-/
namespace UgoVerif.Proofs.Json
open UgoVerif UgoVerif.Go UgoVerif.Spec.Json UgoVerif.Model.JsonScan UgoVerif.Gen.JsonTables

/-! ### byte classes: the scanner's tests are the recogniser's tests -/

theorem forall_uint8 (P : UInt8 → Prop) (h : ∀ n : Fin 256, P (UInt8.ofNat n.val)) : ∀ c, P c := by
  intro c
  have := h ⟨c.toNat, c.toNat_lt⟩
  simpa using this

set_option maxRecDepth 100000 in
theorem isSpace_eq : ∀ c : UInt8, isSpace c = isWs c := by
  apply forall_uint8; decide
set_option maxRecDepth 100000 in
theorem isHexDig_eq : ∀ c : UInt8, isHexDig c = isHex c := by
  apply forall_uint8; decide
theorem isDig_eq (c : UInt8) : isDig c = isDigit c := rfl
set_option maxRecDepth 100000 in
theorem isDigit_split : ∀ c : UInt8, isDigit c = (c == 0x30 || isDig19 c) := by
  apply forall_uint8; decide
set_option maxRecDepth 100000 in
theorem isEscChar_eq : ∀ c : UInt8, isEscChar c =
    (c == 0x62 || c == 0x66 || c == 0x6E || c == 0x72 || c == 0x74 || c == 0x5C || c == 0x2F || c == 0x22) := by
  apply forall_uint8; decide
set_option maxRecDepth 100000 in
theorem lt20_eq : ∀ c : UInt8, decide (c < 0x20) = (c.toNat < 0x20 : Bool) := by
  apply forall_uint8; decide

/-! ### residual languages -/

def andK (o : Option Bytes) (k : Bytes → Bool) : Bool :=
  match o with
  | none => false
  | some r => k r

@[simp] theorem andK_none (k : Bytes → Bool) : andK none k = false := rfl
@[simp] theorem andK_some (r : Bytes) (k : Bytes → Bool) : andK (some r) k = k r := rfl
theorem andK_bind (o : Option Bytes) (g : Bytes → Option Bytes) (k : Bytes → Bool) :
    andK (o.bind g) k = andK o (fun r => andK (g r) k) := by
  cases o <;> rfl

/-- nesting budget left for a value read directly inside the containers of `ps` -/
def budget (ps : List PS) : Nat := maxNestingDepth - ps.length

/-- what the recogniser expects after a value has been completed inside the containers `ps` -/
def K : List PS → Bytes → Bool
  | [], rest => (skipWs rest).isEmpty
  | .arrayValue :: ps, rest => andK (arrTailC (maxNestingDepth - (ps.length + 1)) rest) (K ps)
  | .objectValue :: ps, rest => andK (objTailC (maxNestingDepth - (ps.length + 1)) rest) (K ps)
  | .objectKey :: ps, rest =>
    match skipWs rest with
    | [] => false
    | c :: r2 =>
      if c == 0x3A then
        andK (valueC (maxNestingDepth - (ps.length + 1)) (skipWs r2))
          (fun r3 => andK (objTailC (maxNestingDepth - (ps.length + 1)) r3) (K ps))
      else false

def afterInt (r : Bytes) : Option Bytes := (fracPart r).bind expPart
def expSign : Bytes → Option Bytes
  | [] => none
  | s :: r => if s == 0x2B || s == 0x2D then digits1 r else digits1 (s :: r)
/-- `n` hex digits, then the rest of the string -/
def hexRest : Nat → Bytes → Option Bytes
  | 0, r => strRest r
  | _ + 1, [] => none
  | n + 1, h :: r => if isHex h then hexRest n r else none
/-- after a backslash inside a string -/
def escRest : Bytes → Option Bytes
  | [] => none
  | e :: r => if isEscChar e then strRest r else if e == 0x75 then hexRest 4 r else none

/-- what is left of the current token, for the states inside a token -/
def tok : St → Bytes → Option Bytes
  | .inString => strRest
  | .inStringEsc => escRest
  | .inStringEscU => hexRest 4
  | .inStringEscU1 => hexRest 3
  | .inStringEscU12 => hexRest 2
  | .inStringEscU123 => hexRest 1
  | .neg => fun r => (intPart r).bind afterInt
  | .s1 => fun r => afterInt (skipDigits r)
  | .s0 => afterInt
  | .dot => fun r => (digits1 r).bind expPart
  | .dot0 => fun r => expPart (skipDigits r)
  | .e => expSign
  | .eSign => digits1
  | .e0 => fun r => some (skipDigits r)
  | .t => lit [0x72, 0x75, 0x65]
  | .tr => lit [0x75, 0x65]
  | .tru => lit [0x65]
  | .f => lit [0x61, 0x6C, 0x73, 0x65]
  | .fa => lit [0x6C, 0x73, 0x65]
  | .fal => lit [0x73, 0x65]
  | .fals => lit [0x65]
  | .n => lit [0x75, 0x6C, 0x6C]
  | .nu => lit [0x6C, 0x6C]
  | .nul => lit [0x6C]
  | _ => fun _ => none

/-- the inputs on which the recogniser succeeds from configuration `s` -/
def resid (s : Scanner) (rest : Bytes) : Bool :=
  match s.step with
  | .beginValue => andK (valueC (budget s.parseState) (skipWs rest)) (K s.parseState)
  | .beginValueOrEmpty =>
    match skipWs rest with
    | [] => false
    | c :: r =>
      if c == 0x5D then K s.parseState (c :: r)
      else andK (valueC (budget s.parseState) (c :: r)) (K s.parseState)
  | .beginStringOrEmpty =>
    match s.parseState with
    | [] => false
    | _ :: ps =>
      match skipWs rest with
      | [] => false
      | c :: r => if c == 0x7D then K ps r else andK (string (c :: r)) (K s.parseState)
  | .beginString => andK (string (skipWs rest)) (K s.parseState)
  | .endValue => K s.parseState rest
  | .endTop => K [] rest
  | .error => false
  | st => andK (tok st rest) (K s.parseState)

/-- flags and state agree (reachable configurations) -/
structure WF (s : Scanner) : Prop where
  err : s.err = true ↔ s.step = .error
  top : s.step = .endTop → s.endTop = true
  top' : s.endTop = true → s.step = .endTop ∨ s.step = .error
  stk : s.step = .beginStringOrEmpty → s.parseState ≠ []

theorem wf_new : WF Scanner.new := by
  constructor <;> simp [Scanner.new]

/-- the result of a step from a configuration whose residual on `c :: rest` is `v` -/
def D (v : Bool) (rest : Bytes) (r : R) : Prop :=
  ∃ s' op, r = .ok (s', op) ∧ WF s' ∧ (op = .error → s'.step = .error) ∧ v = resid s' rest

theorem D_error (s : Scanner) (v : Bool) (rest : Bytes) (hv : v = false) : D v rest s.error := by
  refine ⟨_, _, rfl, ?_, fun _ => rfl, ?_⟩
  · constructor <;> simp
  · simp [resid, hv]

theorem wf_goto (s : Scanner) (st : St) (herr : s.err = false) (hend : s.endTop = false)
    (h1 : st ≠ .error) (h2 : st ≠ .endTop) (h3 : st ≠ .beginStringOrEmpty) : WF { s with step := st } := by
  constructor <;> simp [herr, hend, h1, h2, h3]

theorem D_goto (s : Scanner) (st : St) (op : Op) (v : Bool) (rest : Bytes)
    (herr : s.err = false) (hend : s.endTop = false)
    (h1 : st ≠ .error) (h2 : st ≠ .endTop) (h3 : st ≠ .beginStringOrEmpty) (hop : op ≠ .error)
    (hv : v = resid { s with step := st } rest) : D v rest (goto s st op) :=
  ⟨_, _, rfl, wf_goto s st herr hend h1 h2 h3, fun h => absurd h hop, hv⟩

theorem D_same (s : Scanner) (op : Op) (v : Bool) (rest : Bytes) (h : WF s) (hop : op ≠ .error)
    (hv : v = resid s rest) : D v rest (.ok (s, op)) :=
  ⟨_, _, rfl, h, fun h => absurd h hop, hv⟩


/-! ### facts about the continuation `K` -/

theorem skipWs_ws (c : UInt8) (r : Bytes) (h : isWs c = true) : skipWs (c :: r) = skipWs r := by
  simp [skipWs, h]
theorem skipWs_not (c : UInt8) (r : Bytes) (h : isWs c = false) : skipWs (c :: r) = c :: r := by
  simp [skipWs, h]

theorem budget_cons (p : PS) (ps : List PS) : budget (p :: ps) = maxNestingDepth - (ps.length + 1) := by
  simp [budget]

theorem K_ws (ps : List PS) (c : UInt8) (rest : Bytes) (h : isWs c = true) : K ps (c :: rest) = K ps rest := by
  cases ps with
  | nil => simp only [K, skipWs_ws c rest h]
  | cons p ps =>
    cases p with
    | objectKey => simp only [K, skipWs_ws c rest h]
    | objectValue =>
      simp only [K]
      rw [objTailC_eq _ (c :: rest), objTailC_eq _ rest, skipWs_ws c rest h]
    | arrayValue =>
      simp only [K]
      rw [arrTailC_eq _ (c :: rest), arrTailC_eq _ rest, skipWs_ws c rest h]

theorem K_nil_not (c : UInt8) (rest : Bytes) (h : isWs c = false) : K [] (c :: rest) = false := by
  simp [K, skipWs_not c rest h]

theorem K_arr (ps : List PS) (c : UInt8) (rest : Bytes) (h : isWs c = false) :
    K (.arrayValue :: ps) (c :: rest) =
      if c == 0x5D then K ps rest
      else if c == 0x2C then andK (valueC (budget (.arrayValue :: ps)) (skipWs rest)) (K (.arrayValue :: ps))
      else false := by
  simp only [K, budget_cons]
  rw [arrTailC_eq _ (c :: rest), skipWs_not c rest h]
  simp only []
  by_cases h1 : (c == 0x5D) = true
  · simp only [h1, if_true, andK_some]
  simp only [h1, Bool.false_eq_true, if_false]
  by_cases h2 : (c == 0x2C) = true
  · simp only [h2, if_true, andK_bind]
  simp only [h2, Bool.false_eq_true, if_false, andK_none]

theorem member_K (ps : List PS) (x : Bytes) :
    andK ((memberC (maxNestingDepth - (ps.length + 1)) x).bind (objTailC (maxNestingDepth - (ps.length + 1)))) (K ps)
      = andK (string x) (K (.objectKey :: ps)) := by
  rw [memberC_eq, andK_bind, andK_bind]
  cases string x with
  | none => rfl
  | some r1 =>
    simp only [andK_some, K]
    cases skipWs r1 with
    | nil => rfl
    | cons c r2 =>
      simp only []
      by_cases h : (c == 0x3A) = true
      · simp only [h, if_true]
      · simp only [h, Bool.false_eq_true, if_false, andK_none]

theorem K_objv (ps : List PS) (c : UInt8) (rest : Bytes) (h : isWs c = false) :
    K (.objectValue :: ps) (c :: rest) =
      if c == 0x7D then K ps rest
      else if c == 0x2C then andK (string (skipWs rest)) (K (.objectKey :: ps))
      else false := by
  simp only [K]
  rw [objTailC_eq _ (c :: rest), skipWs_not c rest h]
  simp only []
  by_cases h1 : (c == 0x7D) = true
  · simp only [h1, if_true, andK_some]
  simp only [h1, Bool.false_eq_true, if_false]
  by_cases h2 : (c == 0x2C) = true
  · simp only [h2, if_true]
    exact member_K ps (skipWs rest)
  simp only [h2, Bool.false_eq_true, if_false, andK_none]

theorem K_objk (ps : List PS) (c : UInt8) (rest : Bytes) (h : isWs c = false) :
    K (.objectKey :: ps) (c :: rest) =
      if c == 0x3A then andK (valueC (budget (.objectValue :: ps)) (skipWs rest)) (K (.objectValue :: ps))
      else false := by
  simp only [K, budget_cons, skipWs_not c rest h]

/-! ### `stateEndValue` is the derivative of `K` -/

theorem endValue_D (s : Scanner) (c : UInt8) (rest : Bytes) (herr : s.err = false) (hend : s.endTop = false) :
    D (K s.parseState (c :: rest)) rest (stateEndValue s c) := by
  unfold stateEndValue
  cases hps : s.parseState with
  | nil =>
    simp only []
    unfold stateEndTop
    by_cases hsp : isSpace c = true
    · simp only [hsp, Bool.not_true, Bool.false_eq_true, if_false]
      refine D_same _ _ _ _ ?_ (by simp) ?_
      · constructor <;> simp [herr]
      · rw [K_ws [] c rest (by rw [← isSpace_eq]; exact hsp)]; simp [resid]
    · simp only [hsp, Bool.not_false, if_true]
      refine D_same _ _ _ _ ?_ (by simp) ?_
      · constructor <;> simp
      · rw [K_nil_not c rest (by rw [← isSpace_eq]; simpa using hsp)]; simp [resid]
  | cons p ps =>
    simp only []
    by_cases hsp : isSpace c = true
    · simp only [hsp, if_true]
      apply D_goto s _ _ _ _ herr hend (by simp) (by simp) (by simp) (by simp)
      rw [K_ws _ c rest (by rw [← isSpace_eq]; exact hsp)]
      simp [resid, hps]
    · simp only [hsp, Bool.false_eq_true, if_false]
      have hws : isWs c = false := by rw [← isSpace_eq]; simpa using hsp
      cases p with
      | objectKey =>
        simp only []
        rw [K_objk ps c rest hws]
        by_cases h1 : (c == 0x3A) = true
        · simp only [h1, if_true]
          refine D_same _ _ _ _ ?_ (by simp) ?_
          · constructor <;> simp [herr, hend]
          · simp [resid]
        · simp only [h1, Bool.false_eq_true, if_false]
          exact D_error s _ _ rfl
      | objectValue =>
        simp only []
        rw [K_objv ps c rest hws]
        by_cases h1 : (c == 0x2C) = true
        · have h2 : (c == 0x7D) = false := by
            have : c = 0x2C := by simpa using h1
            subst this; decide
          simp only [h1, h2, if_true, Bool.false_eq_true, if_false]
          refine D_same _ _ _ _ ?_ (by simp) ?_
          · constructor <;> simp [herr, hend]
          · simp [resid]
        · simp only [h1, Bool.false_eq_true, if_false]
          by_cases h2 : (c == 0x7D) = true
          · simp only [h2, if_true]
            unfold Scanner.pop
            rw [hps]
            simp only []
            cases ps with
            | nil =>
              simp only [List.isEmpty_nil, if_true]
              refine D_same _ _ _ _ ?_ (by simp) ?_
              · constructor <;> simp [herr]
              · simp [resid]
            | cons q qs =>
              simp only [List.isEmpty_cons, Bool.false_eq_true, if_false]
              refine D_same _ _ _ _ ?_ (by simp) ?_
              · constructor <;> simp [herr, hend]
              · simp [resid]
          · simp only [h2, Bool.false_eq_true, if_false]
            exact D_error s _ _ rfl
      | arrayValue =>
        simp only []
        rw [K_arr ps c rest hws]
        by_cases h1 : (c == 0x2C) = true
        · have h2 : (c == 0x5D) = false := by
            have : c = 0x2C := by simpa using h1
            subst this; decide
          simp only [h1, h2, if_true, Bool.false_eq_true, if_false]
          apply D_goto s _ _ _ _ herr hend (by simp) (by simp) (by simp) (by simp)
          simp [resid, hps]
        · simp only [h1, Bool.false_eq_true, if_false]
          by_cases h2 : (c == 0x5D) = true
          · simp only [h2, if_true]
            unfold Scanner.pop
            rw [hps]
            simp only []
            cases ps with
            | nil =>
              simp only [List.isEmpty_nil, if_true]
              refine D_same _ _ _ _ ?_ (by simp) ?_
              · constructor <;> simp [herr]
              · simp [resid]
            | cons q qs =>
              simp only [List.isEmpty_cons, Bool.false_eq_true, if_false]
              refine D_same _ _ _ _ ?_ (by simp) ?_
              · constructor <;> simp [herr, hend]
              · simp [resid]
          · simp only [h2, Bool.false_eq_true, if_false]
            exact D_error s _ _ rfl

end UgoVerif.Proofs.Json
