import UgoVerif.Proofs.JsonSpecD
import UgoVerif.Proofs.JsonScan
/-
  C17: the scanner automaton (`Model/JsonScan.lean`) accepts exactly the JSON texts of
  nesting depth ≤ maxNestingDepth (`Spec/JsonDepth.lean`).

  Method: for every scanner configuration `s` (state + parse stack) `resid s : Bytes → Bool`
  is the language that the RECOGNISER still expects (a Brzozowski-style residual written with
  the phrase functions of `Spec/Json`), and one step of the automaton is the derivative:
  `resid s (c :: rest) = resid s' rest` (`step_resid`), `resid s [] = (eof s ≠ scanError)`
  (`eof_resid`).  Hence `checkLoop s bs = ok (resid s bs)` for all `bs`, and
  `resid Scanner.new = isJsonD maxNestingDepth`.
-/
namespace UgoVerif.Proofs.Json
set_option linter.unusedSimpArgs false
open UgoVerif UgoVerif.Go UgoVerif.Spec.Json UgoVerif.Model.JsonScan UgoVerif.Gen.JsonTables

/-! ### byte classes: the scanner's tests are the recogniser's tests -/

theorem forall_uint8 (P : UInt8 → Prop) (h : ∀ n : Fin 256, P (UInt8.ofNat n.val)) : ∀ c, P c := by
  intro c
  have := h ⟨c.toNat, c.toNat_lt⟩
  simpa using this

set_option maxRecDepth 100000 in
theorem isSpace_eq : ∀ c : UInt8, isSpace c = isWs c := by
  apply forall_uint8; decide
set_option maxRecDepth 100000 in
theorem isHexDig_eq : ∀ c : UInt8, isHexDig c = isHex c := by
  apply forall_uint8; decide
theorem isDig_eq (c : UInt8) : isDig c = isDigit c := rfl
set_option maxRecDepth 100000 in
theorem isDigit_split : ∀ c : UInt8, isDigit c = (c == 0x30 || isDig19 c) := by
  apply forall_uint8; decide
set_option maxRecDepth 100000 in
theorem isEscChar_eq : ∀ c : UInt8, isEscChar c =
    (c == 0x62 || c == 0x66 || c == 0x6E || c == 0x72 || c == 0x74 || c == 0x5C || c == 0x2F || c == 0x22) := by
  apply forall_uint8; decide
set_option maxRecDepth 100000 in
theorem lt20_eq : ∀ c : UInt8, decide (c < 0x20) = (c.toNat < 0x20 : Bool) := by
  apply forall_uint8; decide

/-! ### residual languages -/

def andK (o : Option Bytes) (k : Bytes → Bool) : Bool :=
  match o with
  | none => false
  | some r => k r

@[simp] theorem andK_none (k : Bytes → Bool) : andK none k = false := rfl
@[simp] theorem andK_some (r : Bytes) (k : Bytes → Bool) : andK (some r) k = k r := rfl
theorem andK_bind (o : Option Bytes) (g : Bytes → Option Bytes) (k : Bytes → Bool) :
    andK (o.bind g) k = andK o (fun r => andK (g r) k) := by
  cases o <;> rfl

/-- nesting budget left for a value read directly inside the containers of `ps` -/
def budget (ps : List PS) : Nat := maxNestingDepth - ps.length

/-- what the recogniser expects after a value has been completed inside the containers `ps` -/
def K : List PS → Bytes → Bool
  | [], rest => (skipWs rest).isEmpty
  | .arrayValue :: ps, rest => andK (arrTailC (maxNestingDepth - (ps.length + 1)) rest) (K ps)
  | .objectValue :: ps, rest => andK (objTailC (maxNestingDepth - (ps.length + 1)) rest) (K ps)
  | .objectKey :: ps, rest =>
    match skipWs rest with
    | [] => false
    | c :: r2 =>
      if c == 0x3A then
        andK (valueC (maxNestingDepth - (ps.length + 1)) (skipWs r2))
          (fun r3 => andK (objTailC (maxNestingDepth - (ps.length + 1)) r3) (K ps))
      else false

def afterInt (r : Bytes) : Option Bytes := (fracPart r).bind expPart
def expSign : Bytes → Option Bytes
  | [] => none
  | s :: r => if s == 0x2B || s == 0x2D then digits1 r else digits1 (s :: r)
/-- `n` hex digits, then the rest of the string -/
def hexRest : Nat → Bytes → Option Bytes
  | 0, r => strRest r
  | _ + 1, [] => none
  | n + 1, h :: r => if isHex h then hexRest n r else none
/-- after a backslash inside a string -/
def escRest : Bytes → Option Bytes
  | [] => none
  | e :: r => if isEscChar e then strRest r else if e == 0x75 then hexRest 4 r else none

/-- what is left of the current token, for the states inside a token -/
def tok : St → Bytes → Option Bytes
  | .inString => strRest
  | .inStringEsc => escRest
  | .inStringEscU => hexRest 4
  | .inStringEscU1 => hexRest 3
  | .inStringEscU12 => hexRest 2
  | .inStringEscU123 => hexRest 1
  | .neg => fun r => (intPart r).bind afterInt
  | .s1 => fun r => afterInt (skipDigits r)
  | .s0 => afterInt
  | .dot => fun r => (digits1 r).bind expPart
  | .dot0 => fun r => expPart (skipDigits r)
  | .e => expSign
  | .eSign => digits1
  | .e0 => fun r => some (skipDigits r)
  | .t => lit [0x72, 0x75, 0x65]
  | .tr => lit [0x75, 0x65]
  | .tru => lit [0x65]
  | .f => lit [0x61, 0x6C, 0x73, 0x65]
  | .fa => lit [0x6C, 0x73, 0x65]
  | .fal => lit [0x73, 0x65]
  | .fals => lit [0x65]
  | .n => lit [0x75, 0x6C, 0x6C]
  | .nu => lit [0x6C, 0x6C]
  | .nul => lit [0x6C]
  | _ => fun _ => none

/-- the inputs on which the recogniser succeeds from configuration `s` -/
def resid (s : Scanner) (rest : Bytes) : Bool :=
  match s.step with
  | .beginValue => andK (valueC (budget s.parseState) (skipWs rest)) (K s.parseState)
  | .beginValueOrEmpty =>
    match skipWs rest with
    | [] => false
    | c :: r =>
      if c == 0x5D then K s.parseState (c :: r)
      else andK (valueC (budget s.parseState) (c :: r)) (K s.parseState)
  | .beginStringOrEmpty =>
    match s.parseState with
    | [] => false
    | _ :: ps =>
      match skipWs rest with
      | [] => false
      | c :: r => if c == 0x7D then K ps r else andK (string (c :: r)) (K s.parseState)
  | .beginString => andK (string (skipWs rest)) (K s.parseState)
  | .endValue => K s.parseState rest
  | .endTop => K [] rest
  | .error => false
  | st => andK (tok st rest) (K s.parseState)

/-- flags and state agree (reachable configurations) -/
structure WF (s : Scanner) : Prop where
  err : s.err = true ↔ s.step = .error
  top : s.step = .endTop → s.endTop = true
  top' : s.endTop = true → s.step = .endTop ∨ s.step = .error
  stk : s.step = .beginStringOrEmpty → s.parseState ≠ []

theorem wf_new : WF Scanner.new := by
  constructor <;> simp [Scanner.new]

/-- the result of a step from a configuration whose residual on `c :: rest` is `v` -/
def D (v : Bool) (rest : Bytes) (r : R) : Prop :=
  ∃ s' op, r = .ok (s', op) ∧ WF s' ∧ (op = .error → s'.step = .error) ∧ v = resid s' rest

theorem D_error (s : Scanner) (v : Bool) (rest : Bytes) (hv : v = false) : D v rest s.error := by
  refine ⟨_, _, rfl, ?_, fun _ => rfl, ?_⟩
  · constructor <;> simp
  · simp [resid, hv]

theorem wf_goto (s : Scanner) (st : St) (herr : s.err = false) (hend : s.endTop = false)
    (h1 : st ≠ .error) (h2 : st ≠ .endTop) (h3 : st ≠ .beginStringOrEmpty) : WF { s with step := st } := by
  constructor <;> simp [herr, hend, h1, h2, h3]

theorem D_goto (s : Scanner) (st : St) (op : Op) (v : Bool) (rest : Bytes)
    (herr : s.err = false) (hend : s.endTop = false)
    (h1 : st ≠ .error) (h2 : st ≠ .endTop) (h3 : st ≠ .beginStringOrEmpty) (hop : op ≠ .error)
    (hv : v = resid { s with step := st } rest) : D v rest (goto s st op) :=
  ⟨_, _, rfl, wf_goto s st herr hend h1 h2 h3, fun h => absurd h hop, hv⟩

theorem D_same (s : Scanner) (op : Op) (v : Bool) (rest : Bytes) (h : WF s) (hop : op ≠ .error)
    (hv : v = resid s rest) : D v rest (.ok (s, op)) :=
  ⟨_, _, rfl, h, fun h => absurd h hop, hv⟩


/-! ### facts about the continuation `K` -/

theorem skipWs_ws (c : UInt8) (r : Bytes) (h : isWs c = true) : skipWs (c :: r) = skipWs r := by
  simp [skipWs, h]
theorem skipWs_not (c : UInt8) (r : Bytes) (h : isWs c = false) : skipWs (c :: r) = c :: r := by
  simp [skipWs, h]

theorem budget_cons (p : PS) (ps : List PS) : budget (p :: ps) = maxNestingDepth - (ps.length + 1) := by
  simp [budget]

theorem K_ws (ps : List PS) (c : UInt8) (rest : Bytes) (h : isWs c = true) : K ps (c :: rest) = K ps rest := by
  cases ps with
  | nil => simp only [K, skipWs_ws c rest h]
  | cons p ps =>
    cases p with
    | objectKey => simp only [K, skipWs_ws c rest h]
    | objectValue =>
      simp only [K]
      rw [objTailC_eq _ (c :: rest), objTailC_eq _ rest, skipWs_ws c rest h]
    | arrayValue =>
      simp only [K]
      rw [arrTailC_eq _ (c :: rest), arrTailC_eq _ rest, skipWs_ws c rest h]

theorem K_nil_not (c : UInt8) (rest : Bytes) (h : isWs c = false) : K [] (c :: rest) = false := by
  simp [K, skipWs_not c rest h]

theorem K_arr (ps : List PS) (c : UInt8) (rest : Bytes) (h : isWs c = false) :
    K (.arrayValue :: ps) (c :: rest) =
      if c == 0x5D then K ps rest
      else if c == 0x2C then andK (valueC (budget (.arrayValue :: ps)) (skipWs rest)) (K (.arrayValue :: ps))
      else false := by
  simp only [K, budget_cons]
  rw [arrTailC_eq _ (c :: rest), skipWs_not c rest h]
  simp only []
  by_cases h1 : (c == 0x5D) = true
  · simp only [h1, if_true, andK_some]
  simp only [h1, Bool.false_eq_true, if_false]
  by_cases h2 : (c == 0x2C) = true
  · simp only [h2, if_true, andK_bind]
  simp only [h2, Bool.false_eq_true, if_false, andK_none]

theorem member_K (ps : List PS) (x : Bytes) :
    andK ((memberC (maxNestingDepth - (ps.length + 1)) x).bind (objTailC (maxNestingDepth - (ps.length + 1)))) (K ps)
      = andK (string x) (K (.objectKey :: ps)) := by
  rw [memberC_eq, andK_bind, andK_bind]
  cases string x with
  | none => rfl
  | some r1 =>
    simp only [andK_some, K]
    cases skipWs r1 with
    | nil => rfl
    | cons c r2 =>
      simp only []
      by_cases h : (c == 0x3A) = true
      · simp only [h, if_true]
      · simp only [h, Bool.false_eq_true, if_false, andK_none]

theorem K_objv (ps : List PS) (c : UInt8) (rest : Bytes) (h : isWs c = false) :
    K (.objectValue :: ps) (c :: rest) =
      if c == 0x7D then K ps rest
      else if c == 0x2C then andK (string (skipWs rest)) (K (.objectKey :: ps))
      else false := by
  simp only [K]
  rw [objTailC_eq _ (c :: rest), skipWs_not c rest h]
  simp only []
  by_cases h1 : (c == 0x7D) = true
  · simp only [h1, if_true, andK_some]
  simp only [h1, Bool.false_eq_true, if_false]
  by_cases h2 : (c == 0x2C) = true
  · simp only [h2, if_true]
    exact member_K ps (skipWs rest)
  simp only [h2, Bool.false_eq_true, if_false, andK_none]

theorem K_objk (ps : List PS) (c : UInt8) (rest : Bytes) (h : isWs c = false) :
    K (.objectKey :: ps) (c :: rest) =
      if c == 0x3A then andK (valueC (budget (.objectValue :: ps)) (skipWs rest)) (K (.objectValue :: ps))
      else false := by
  simp only [K, budget_cons, skipWs_not c rest h]

/-! ### `stateEndValue` is the derivative of `K` -/

theorem endValue_D (s : Scanner) (c : UInt8) (rest : Bytes) (herr : s.err = false) (hend : s.endTop = false) :
    D (K s.parseState (c :: rest)) rest (stateEndValue s c) := by
  unfold stateEndValue
  cases hps : s.parseState with
  | nil =>
    simp only []
    unfold stateEndTop
    by_cases hsp : isSpace c = true
    · simp only [hsp, Bool.not_true, Bool.false_eq_true, if_false]
      refine D_same _ _ _ _ ?_ (by simp) ?_
      · constructor <;> simp [herr]
      · rw [K_ws [] c rest (by rw [← isSpace_eq]; exact hsp)]; simp [resid]
    · simp only [hsp, Bool.not_false, if_true]
      refine D_same _ _ _ _ ?_ (by simp) ?_
      · constructor <;> simp
      · rw [K_nil_not c rest (by rw [← isSpace_eq]; simpa using hsp)]; simp [resid]
  | cons p ps =>
    simp only []
    by_cases hsp : isSpace c = true
    · simp only [hsp, if_true]
      apply D_goto s _ _ _ _ herr hend (by simp) (by simp) (by simp) (by simp)
      rw [K_ws _ c rest (by rw [← isSpace_eq]; exact hsp)]
      simp [resid, hps]
    · simp only [hsp, Bool.false_eq_true, if_false]
      have hws : isWs c = false := by rw [← isSpace_eq]; simpa using hsp
      cases p with
      | objectKey =>
        simp only []
        rw [K_objk ps c rest hws]
        by_cases h1 : (c == 0x3A) = true
        · simp only [h1, if_true]
          refine D_same _ _ _ _ ?_ (by simp) ?_
          · constructor <;> simp [herr, hend]
          · simp [resid]
        · simp only [h1, Bool.false_eq_true, if_false]
          exact D_error s _ _ rfl
      | objectValue =>
        simp only []
        rw [K_objv ps c rest hws]
        by_cases h1 : (c == 0x2C) = true
        · have h2 : (c == 0x7D) = false := by
            have : c = 0x2C := by simpa using h1
            subst this; decide
          simp only [h1, h2, if_true, Bool.false_eq_true, if_false]
          refine D_same _ _ _ _ ?_ (by simp) ?_
          · constructor <;> simp [herr, hend]
          · simp [resid]
        · simp only [h1, Bool.false_eq_true, if_false]
          by_cases h2 : (c == 0x7D) = true
          · simp only [h2, if_true]
            unfold Scanner.pop
            rw [hps]
            simp only []
            cases ps with
            | nil =>
              simp only [List.isEmpty_nil, if_true]
              refine D_same _ _ _ _ ?_ (by simp) ?_
              · constructor <;> simp [herr]
              · simp [resid]
            | cons q qs =>
              simp only [List.isEmpty_cons, Bool.false_eq_true, if_false]
              refine D_same _ _ _ _ ?_ (by simp) ?_
              · constructor <;> simp [herr, hend]
              · simp [resid]
          · simp only [h2, Bool.false_eq_true, if_false]
            exact D_error s _ _ rfl
      | arrayValue =>
        simp only []
        rw [K_arr ps c rest hws]
        by_cases h1 : (c == 0x2C) = true
        · have h2 : (c == 0x5D) = false := by
            have : c = 0x2C := by simpa using h1
            subst this; decide
          simp only [h1, h2, if_true, Bool.false_eq_true, if_false]
          apply D_goto s _ _ _ _ herr hend (by simp) (by simp) (by simp) (by simp)
          simp [resid, hps]
        · simp only [h1, Bool.false_eq_true, if_false]
          by_cases h2 : (c == 0x5D) = true
          · simp only [h2, if_true]
            unfold Scanner.pop
            rw [hps]
            simp only []
            cases ps with
            | nil =>
              simp only [List.isEmpty_nil, if_true]
              refine D_same _ _ _ _ ?_ (by simp) ?_
              · constructor <;> simp [herr]
              · simp [resid]
            | cons q qs =>
              simp only [List.isEmpty_cons, Bool.false_eq_true, if_false]
              refine D_same _ _ _ _ ?_ (by simp) ?_
              · constructor <;> simp [herr, hend]
              · simp [resid]
          · simp only [h2, Bool.false_eq_true, if_false]
            exact D_error s _ _ rfl


/-! ### derivatives of the token recognisers, phrased with the scanner's tests -/

theorem hexRest4 (r : Bytes) :
    hexRest 4 r = match r with
      | h1 :: h2 :: h3 :: h4 :: r'' => if isHex h1 && isHex h2 && isHex h3 && isHex h4 then strRest r'' else none
      | _ => none := by
  match r with
  | [] => rfl
  | [_] => simp only [hexRest]; split <;> rfl
  | [_, _] => simp only [hexRest]; (repeat' split) <;> rfl
  | [_, _, _] => simp only [hexRest]; (repeat' split) <;> rfl
  | h1 :: h2 :: h3 :: h4 :: r'' =>
    simp only [hexRest]
    cases isHex h1 <;> cases isHex h2 <;> cases isHex h3 <;> cases isHex h4 <;> rfl

theorem strRest_cons (c : UInt8) (r : Bytes) :
    strRest (c :: r) =
      if c == 0x22 then some r else if c == 0x5C then escRest r else if c < 0x20 then none else strRest r := by
  rw [strRest.eq_def]
  simp only []
  by_cases h1 : (c == 0x22) = true
  · simp only [h1, if_true]
  simp only [h1, Bool.false_eq_true, if_false]
  by_cases h2 : (c == 0x5C) = true
  · simp only [h2, if_true]
    cases r with
    | nil => rfl
    | cons e r' =>
      simp only [escRest]
      by_cases h3 : isEscChar e = true
      · simp only [h3, if_true]
      simp only [h3, Bool.false_eq_true, if_false]
      by_cases h4 : (e == 0x75) = true
      · simp only [h4, if_true]; rw [hexRest4]
        rcases r' with _ | ⟨a, _ | ⟨b, _ | ⟨c', _ | ⟨d, r''⟩⟩⟩⟩ <;> rfl
      · simp only [h4, Bool.false_eq_true, if_false]
  · simp only [h2, Bool.false_eq_true, if_false]

theorem escRest_cons (c : UInt8) (r : Bytes) :
    escRest (c :: r) =
      if c == 0x62 || c == 0x66 || c == 0x6E || c == 0x72 || c == 0x74 || c == 0x5C || c == 0x2F || c == 0x22 then strRest r
      else if c == 0x75 then hexRest 4 r else none := by
  rw [escRest, isEscChar_eq]

theorem hexRest_cons (n : Nat) (c : UInt8) (r : Bytes) :
    hexRest (n + 1) (c :: r) = if isHexDig c then hexRest n r else none := by
  rw [hexRest, isHexDig_eq]

theorem lit_cons (x : UInt8) (ws : Bytes) (c : UInt8) (r : Bytes) :
    lit (x :: ws) (c :: r) = if c == x then lit ws r else none := by
  rw [lit]
  by_cases h : c = x
  · subst h; simp
  · have h' : ¬ x = c := fun e => h e.symm
    simp [h, h']

theorem neg_cons (c : UInt8) (r : Bytes) :
    (intPart (c :: r)).bind afterInt =
      if c == 0x30 then afterInt r else if isDig19 c then afterInt (skipDigits r) else none := by
  rw [intPart, isDigit_split]
  by_cases h1 : (c == 0x30) = true
  · simp only [h1, if_true]; rfl
  simp only [h1, Bool.false_eq_true, if_false, Bool.false_or]
  by_cases h2 : isDig19 c = true
  · simp only [h2, if_true]; rfl
  · simp only [h2, Bool.false_eq_true, if_false]; rfl

theorem afterInt_cons (c : UInt8) (r : Bytes) :
    afterInt (c :: r) =
      if c == 0x2E then (digits1 r).bind expPart
      else if c == 0x65 || c == 0x45 then expSign r
      else some (c :: r) := by
  unfold afterInt
  rw [fracPart]
  by_cases h1 : (c == 0x2E) = true
  · simp only [h1, if_true]
  simp only [h1, Bool.false_eq_true, if_false]
  simp only [Option.bind]
  rw [expPart.eq_def]
  simp only []
  by_cases h2 : (c == 0x65 || c == 0x45) = true
  · simp only [h2, if_true]
    cases r <;> rfl
  · simp only [h2, Bool.false_eq_true, if_false]

theorem skipDigits_cons (c : UInt8) (r : Bytes) :
    skipDigits (c :: r) = if isDig c then skipDigits r else c :: r := by
  rw [skipDigits]; rfl

theorem digits1_cons (c : UInt8) (r : Bytes) :
    digits1 (c :: r) = if isDig c then some (skipDigits r) else none := by
  rw [digits1]; rfl

theorem expPart_cons (c : UInt8) (r : Bytes) :
    expPart (c :: r) = if c == 0x65 || c == 0x45 then expSign r else some (c :: r) := by
  rw [expPart.eq_def]
  simp only []
  by_cases h2 : (c == 0x65 || c == 0x45) = true
  · simp only [h2, if_true]
    cases r <;> rfl
  · simp only [h2, Bool.false_eq_true, if_false]

theorem expSign_cons (c : UInt8) (r : Bytes) :
    expSign (c :: r) = if c == 0x2B || c == 0x2D then digits1 r else digits1 (c :: r) := by
  rw [expSign]


/-! ### the structural states -/

theorem number_eq (bs : Bytes) : number bs = (intPart (optMinus bs)).bind afterInt := by
  unfold number afterInt
  cases intPart (optMinus bs) with
  | none => rfl
  | some r1 =>
    simp only [Option.bind]
    cases fracPart r1 <;> rfl

theorem array_K (ps : List PS) (x : Bytes) :
    andK ((valueC (maxNestingDepth - (ps.length + 1)) x).bind (arrTailC (maxNestingDepth - (ps.length + 1)))) (K ps)
      = andK (valueC (maxNestingDepth - (ps.length + 1)) x) (K (.arrayValue :: ps)) := by
  rw [andK_bind]
  cases valueC (maxNestingDepth - (ps.length + 1)) x with
  | none => rfl
  | some r => simp only [andK_some, K]

theorem beginValue_D (s : Scanner) (c : UInt8) (rest : Bytes) (hc : isSpace c = false)
    (herr : s.err = false) (hend : s.endTop = false) :
    D (andK (valueC (budget s.parseState) (c :: rest)) (K s.parseState)) rest (stateBeginValue s c) := by
  unfold stateBeginValue
  simp only [hc, Bool.false_eq_true, if_false]
  rw [valueC_cons]
  by_cases h1 : c = 0x7B
  · subst h1
    simp only [show ((0x7B : UInt8) == 0x22) = false by decide, show ((0x7B : UInt8) == 0x5B) = false by decide,
      show ((0x7B : UInt8) == 0x7B) = true by decide, Bool.false_eq_true, if_false, if_true]
    unfold Scanner.push
    simp only [List.length_cons]
    by_cases hle : s.parseState.length + 1 ≤ maxNestingDepth
    · simp only [hle, if_true]
      have hb : budget s.parseState = (maxNestingDepth - (s.parseState.length + 1)) + 1 := by
        unfold budget; omega
      rw [hb]
      simp only []
      refine D_same _ _ _ _ ?_ (by simp) ?_
      · constructor <;> simp [herr, hend]
      · simp only [resid]
        cases skipWs rest with
        | nil => rfl
        | cons c' r' =>
          simp only []
          by_cases h3 : (c' == 0x7D) = true
          · simp only [h3, if_true, andK_some]
          · simp only [h3, Bool.false_eq_true, if_false]
            exact member_K _ _
    · simp only [hle, if_false]
      have hb : budget s.parseState = 0 := by unfold budget; omega
      rw [hb]
      exact D_error _ _ _ rfl
  have e1 : (c == 0x7B) = false := by simpa using h1
  simp only [e1, Bool.false_eq_true, if_false]
  by_cases h2 : c = 0x5B
  · subst h2
    simp only [show ((0x5B : UInt8) == 0x22) = false by decide,
      show ((0x5B : UInt8) == 0x5B) = true by decide, Bool.false_eq_true, if_false, if_true]
    unfold Scanner.push
    simp only [List.length_cons]
    by_cases hle : s.parseState.length + 1 ≤ maxNestingDepth
    · simp only [hle, if_true]
      have hb : budget s.parseState = (maxNestingDepth - (s.parseState.length + 1)) + 1 := by
        unfold budget; omega
      rw [hb]
      simp only []
      refine D_same _ _ _ _ ?_ (by simp) ?_
      · constructor <;> simp [herr, hend]
      · simp only [resid, budget_cons]
        cases skipWs rest with
        | nil => rfl
        | cons c' r' =>
          simp only []
          by_cases h3 : (c' == 0x5D) = true
          · simp only [h3, if_true, andK_some]
            have : c' = 0x5D := by simpa using h3
            subst this
            rw [K_arr _ _ _ (by decide)]
            simp
          · simp only [h3, Bool.false_eq_true, if_false]
            exact array_K _ _
    · simp only [hle, if_false]
      have hb : budget s.parseState = 0 := by unfold budget; omega
      rw [hb]
      exact D_error _ _ _ rfl
  have e2 : (c == 0x5B) = false := by simpa using h2
  simp only [e2, Bool.false_eq_true, if_false]
  by_cases h3 : (c == 0x22) = true
  · simp only [h3, if_true]
    apply D_goto s _ _ _ _ herr hend (by simp) (by simp) (by simp) (by simp)
    simp [resid, tok]
  simp only [h3, Bool.false_eq_true, if_false]
  by_cases h4 : c = 0x2D
  · subst h4
    simp only [show ((0x2D : UInt8) == 0x74) = false by decide, show ((0x2D : UInt8) == 0x66) = false by decide,
      show ((0x2D : UInt8) == 0x6E) = false by decide, show ((0x2D : UInt8) == 0x2D) = true by decide,
      Bool.false_eq_true, if_false, if_true, Bool.true_or]
    apply D_goto s _ _ _ _ herr hend (by simp) (by simp) (by simp) (by simp)
    simp [resid, tok, number_eq, optMinus]
  have e4 : (c == 0x2D) = false := by simpa using h4
  simp only [e4, Bool.false_eq_true, if_false, Bool.false_or]
  by_cases h5 : c = 0x30
  · subst h5
    simp only [show ((0x30 : UInt8) == 0x74) = false by decide, show ((0x30 : UInt8) == 0x66) = false by decide,
      show ((0x30 : UInt8) == 0x6E) = false by decide, show ((0x30 : UInt8) == 0x30) = true by decide,
      show isDigit 0x30 = true by decide,
      Bool.false_eq_true, if_false, if_true]
    apply D_goto s _ _ _ _ herr hend (by simp) (by simp) (by simp) (by simp)
    simp [resid, tok, number_eq, optMinus, intPart]
  have e5 : (c == 0x30) = false := by simpa using h5
  simp only [e5, Bool.false_eq_true, if_false]
  by_cases h6 : (c == 0x74) = true
  · simp only [h6, if_true]
    apply D_goto s _ _ _ _ herr hend (by simp) (by simp) (by simp) (by simp)
    simp [resid, tok]
  simp only [h6, Bool.false_eq_true, if_false]
  by_cases h7 : (c == 0x66) = true
  · simp only [h7, if_true]
    apply D_goto s _ _ _ _ herr hend (by simp) (by simp) (by simp) (by simp)
    simp [resid, tok]
  simp only [h7, Bool.false_eq_true, if_false]
  by_cases h8 : (c == 0x6E) = true
  · simp only [h8, if_true]
    apply D_goto s _ _ _ _ herr hend (by simp) (by simp) (by simp) (by simp)
    simp [resid, tok]
  simp only [h8, Bool.false_eq_true, if_false]
  rw [isDigit_split, e5, Bool.false_or]
  by_cases h9 : isDig19 c = true
  · simp only [h9, if_true]
    apply D_goto s _ _ _ _ herr hend (by simp) (by simp) (by simp) (by simp)
    have hd : isDigit c = true := by rw [isDigit_split, h9]; simp
    simp [resid, tok, number_eq, optMinus, intPart, e4, e5, hd]
  · simp only [h9, Bool.false_eq_true, if_false]
    exact D_error _ _ _ rfl


/-! ### number states that may end the value -/

theorem state0_D (s : Scanner) (c : UInt8) (rest : Bytes) (herr : s.err = false) (hend : s.endTop = false) :
    D (andK (afterInt (c :: rest)) (K s.parseState)) rest (state0 s c) := by
  unfold state0
  rw [afterInt_cons]
  by_cases h1 : (c == 0x2E) = true
  · simp only [h1, if_true]
    apply D_goto s _ _ _ _ herr hend (by simp) (by simp) (by simp) (by simp)
    simp [resid, tok]
  simp only [h1, Bool.false_eq_true, if_false]
  by_cases h2 : (c == 0x65 || c == 0x45) = true
  · simp only [h2, if_true]
    apply D_goto s _ _ _ _ herr hend (by simp) (by simp) (by simp) (by simp)
    simp [resid, tok]
  · simp only [h2, Bool.false_eq_true, if_false, andK_some]
    exact endValue_D s c rest herr hend

theorem eSign_D (s : Scanner) (c : UInt8) (rest : Bytes) (herr : s.err = false) (hend : s.endTop = false) :
    D (andK (digits1 (c :: rest)) (K s.parseState)) rest (stateESign s c) := by
  unfold stateESign
  rw [digits1_cons]
  by_cases h1 : isDig c = true
  · simp only [h1, if_true]
    apply D_goto s _ _ _ _ herr hend (by simp) (by simp) (by simp) (by simp)
    simp [resid, tok]
  · simp only [h1, Bool.false_eq_true, if_false]
    exact D_error _ _ _ rfl

/-! ### one step of the automaton is the derivative of the residual -/

local macro "dgoto" : tactic =>
  `(tactic| apply D_goto _ _ _ _ _ (by assumption) (by assumption) (by simp) (by simp) (by simp) (by simp))

theorem step_resid (s : Scanner) (c : UInt8) (rest : Bytes) (h : WF s) :
    D (resid s (c :: rest)) rest (step s c) := by
  by_cases hE : s.step = .error
  · have : step s c = .ok (s, .error) := by unfold step; simp only [hE]
    rw [this]
    exact ⟨s, .error, rfl, h, fun _ => hE, by simp [resid, hE]⟩
  have herr : s.err = false := by
    cases he : s.err with
    | false => rfl
    | true => exact absurd (h.err.mp he) hE
  by_cases hT : s.step = .endTop
  · have : step s c = stateEndTop s c := by unfold step; simp only [hT]
    rw [this]; unfold stateEndTop
    have hv : resid s (c :: rest) = K [] (c :: rest) := by simp [resid, hT]
    rw [hv]
    by_cases hsp : isSpace c = true
    · simp only [hsp, Bool.not_true, Bool.false_eq_true, if_false]
      refine D_same _ _ _ _ h (by simp) ?_
      rw [K_ws [] c rest (by rw [← isSpace_eq]; exact hsp)]; simp [resid, hT]
    · simp only [hsp, Bool.not_false, if_true]
      refine D_same _ _ _ _ ?_ (by simp) ?_
      · constructor <;> simp
      · rw [K_nil_not c rest (by rw [← isSpace_eq]; simpa using hsp)]; simp [resid]
  have hend : s.endTop = false := by
    cases he : s.endTop with
    | false => rfl
    | true => rcases h.top' he with h1 | h1 <;> contradiction
  cases hs : s.step with
  | error => exact absurd hs hE
  | endTop => exact absurd hs hT
  | beginValue =>
    have : step s c = stateBeginValue s c := by unfold step; simp only [hs]
    rw [this]
    have hv : resid s (c :: rest) = andK (valueC (budget s.parseState) (skipWs (c :: rest))) (K s.parseState) := by
      simp [resid, hs]
    rw [hv]
    by_cases hsp : isSpace c = true
    · rw [skipWs_ws c rest (by rw [← isSpace_eq]; exact hsp)]
      unfold stateBeginValue; simp only [hsp, if_true]
      exact D_same _ _ _ _ h (by simp) (by simp [resid, hs])
    · have hsp' : isSpace c = false := by simpa using hsp
      rw [skipWs_not c rest (by rw [← isSpace_eq]; exact hsp')]
      exact beginValue_D s c rest hsp' herr hend
  | beginValueOrEmpty =>
    have : step s c = stateBeginValueOrEmpty s c := by unfold step; simp only [hs]
    rw [this]; unfold stateBeginValueOrEmpty
    by_cases hsp : isSpace c = true
    · simp only [hsp, if_true]
      refine D_same _ _ _ _ h (by simp) ?_
      simp only [resid, hs]
      rw [skipWs_ws c rest (by rw [← isSpace_eq]; exact hsp)]
    · have hsp' : isSpace c = false := by simpa using hsp
      have hv : resid s (c :: rest) =
          if c == 0x5D then K s.parseState (c :: rest)
          else andK (valueC (budget s.parseState) (c :: rest)) (K s.parseState) := by
        simp only [resid, hs]
        rw [skipWs_not c rest (by rw [← isSpace_eq]; exact hsp')]
      rw [hv]
      simp only [hsp', Bool.false_eq_true, if_false]
      by_cases h1 : (c == 0x5D) = true
      · simp only [h1, if_true]
        exact endValue_D s c rest herr hend
      · simp only [h1, Bool.false_eq_true, if_false]
        exact beginValue_D s c rest hsp' herr hend
  | beginStringOrEmpty =>
    have : step s c = stateBeginStringOrEmpty s c := by unfold step; simp only [hs]
    rw [this]; unfold stateBeginStringOrEmpty
    by_cases hsp : isSpace c = true
    · simp only [hsp, if_true]
      refine D_same _ _ _ _ h (by simp) ?_
      simp only [resid, hs]
      rw [skipWs_ws c rest (by rw [← isSpace_eq]; exact hsp)]
    · have hsp' : isSpace c = false := by simpa using hsp
      have hws : isWs c = false := by rw [← isSpace_eq]; exact hsp'
      simp only [hsp', Bool.false_eq_true, if_false]
      cases hps : s.parseState with
      | nil => exact absurd hps (h.stk hs)
      | cons p ps =>
        have hv : resid s (c :: rest) =
            if c == 0x7D then K ps rest else andK (string (c :: rest)) (K (p :: ps)) := by
          simp only [resid, hs, hps]
          rw [skipWs_not c rest hws]
        rw [hv]
        by_cases h1 : (c == 0x7D) = true
        · simp only [h1, if_true]
          have h2 := endValue_D { s with parseState := .objectValue :: ps } c rest herr hend
          have : c = 0x7D := by simpa using h1
          subst this
          rw [show K ({ s with parseState := PS.objectValue :: ps } : Scanner).parseState (0x7D :: rest) = K ps rest from by
            simp only []; rw [K_objv ps _ rest (by decide)]; simp] at h2
          exact h2
        · simp only [h1, Bool.false_eq_true, if_false]
          unfold stateBeginString
          simp only [hsp', Bool.false_eq_true, if_false, string]
          by_cases h2 : (c == 0x22) = true
          · simp only [h2, if_true]
            dgoto
            simp [resid, tok, hps]
          · simp only [h2, Bool.false_eq_true, if_false]
            exact D_error _ _ _ rfl
  | beginString =>
    have : step s c = stateBeginString s c := by unfold step; simp only [hs]
    rw [this]; unfold stateBeginString
    by_cases hsp : isSpace c = true
    · simp only [hsp, if_true]
      refine D_same _ _ _ _ h (by simp) ?_
      simp only [resid, hs]
      rw [skipWs_ws c rest (by rw [← isSpace_eq]; exact hsp)]
    · have hsp' : isSpace c = false := by simpa using hsp
      have hws : isWs c = false := by rw [← isSpace_eq]; exact hsp'
      have hv : resid s (c :: rest) = andK (string (c :: rest)) (K s.parseState) := by
        simp only [resid, hs]
        rw [skipWs_not c rest hws]
      rw [hv]
      simp only [hsp', Bool.false_eq_true, if_false, string]
      by_cases h2 : (c == 0x22) = true
      · simp only [h2, if_true]
        dgoto
        simp [resid, tok]
      · simp only [h2, Bool.false_eq_true, if_false]
        exact D_error _ _ _ rfl
  | endValue =>
    have : step s c = stateEndValue s c := by unfold step; simp only [hs]
    rw [this]
    have hv : resid s (c :: rest) = K s.parseState (c :: rest) := by simp [resid, hs]
    rw [hv]
    exact endValue_D s c rest herr hend
  | inString =>
    unfold step; simp only [hs]
    have hv : resid s (c :: rest) = andK (strRest (c :: rest)) (K s.parseState) := by simp [resid, hs, tok]
    rw [hv, strRest_cons]
    by_cases h1 : (c == 0x22) = true
    · simp only [h1, if_true]; dgoto; simp [resid]
    simp only [h1, Bool.false_eq_true, if_false]
    by_cases h2 : (c == 0x5C) = true
    · simp only [h2, if_true]; dgoto; simp [resid, tok]
    simp only [h2, Bool.false_eq_true, if_false]
    by_cases h3 : c < 0x20
    · simp only [h3, if_true]
      exact D_error _ _ _ rfl
    · simp only [h3, if_false]
      exact D_same _ _ _ _ h (by simp) (by simp [resid, hs, tok])
  | inStringEsc =>
    unfold step; simp only [hs]
    have hv : resid s (c :: rest) = andK (escRest (c :: rest)) (K s.parseState) := by simp [resid, hs, tok]
    rw [hv, escRest_cons]
    by_cases h1 : (c == 0x62 || c == 0x66 || c == 0x6E || c == 0x72 || c == 0x74 || c == 0x5C || c == 0x2F || c == 0x22) = true
    · simp only [h1, if_true]; dgoto; simp [resid, tok]
    simp only [h1, Bool.false_eq_true, if_false]
    by_cases h2 : (c == 0x75) = true
    · simp only [h2, if_true]; dgoto; simp [resid, tok]
    · simp only [h2, Bool.false_eq_true, if_false]; exact D_error _ _ _ rfl
  | inStringEscU =>
    unfold step; simp only [hs]
    have hv : resid s (c :: rest) = andK (tok .inStringEscU (c :: rest)) (K s.parseState) := by simp [resid, hs]
    rw [hv]; simp only [tok]; rw [hexRest_cons]
    by_cases h1 : isHexDig c = true
    · simp only [h1, if_true]; dgoto; simp [resid, tok, hexRest]
    · simp only [h1, Bool.false_eq_true, if_false]; exact D_error _ _ _ rfl
  | inStringEscU1 =>
    unfold step; simp only [hs]
    have hv : resid s (c :: rest) = andK (tok .inStringEscU1 (c :: rest)) (K s.parseState) := by simp [resid, hs]
    rw [hv]; simp only [tok]; rw [hexRest_cons]
    by_cases h1 : isHexDig c = true
    · simp only [h1, if_true]; dgoto; simp [resid, tok, hexRest]
    · simp only [h1, Bool.false_eq_true, if_false]; exact D_error _ _ _ rfl
  | inStringEscU12 =>
    unfold step; simp only [hs]
    have hv : resid s (c :: rest) = andK (tok .inStringEscU12 (c :: rest)) (K s.parseState) := by simp [resid, hs]
    rw [hv]; simp only [tok]; rw [hexRest_cons]
    by_cases h1 : isHexDig c = true
    · simp only [h1, if_true]; dgoto; simp [resid, tok, hexRest]
    · simp only [h1, Bool.false_eq_true, if_false]; exact D_error _ _ _ rfl
  | inStringEscU123 =>
    unfold step; simp only [hs]
    have hv : resid s (c :: rest) = andK (tok .inStringEscU123 (c :: rest)) (K s.parseState) := by simp [resid, hs]
    rw [hv]; simp only [tok]; rw [hexRest_cons]
    by_cases h1 : isHexDig c = true
    · simp only [h1, if_true]; dgoto; simp [resid, tok, hexRest]
    · simp only [h1, Bool.false_eq_true, if_false]; exact D_error _ _ _ rfl
  | neg =>
    unfold step; simp only [hs]
    have hv : resid s (c :: rest) = andK ((intPart (c :: rest)).bind afterInt) (K s.parseState) := by
      simp [resid, hs, tok]
    rw [hv, neg_cons]
    by_cases h1 : (c == 0x30) = true
    · simp only [h1, if_true]; dgoto; simp [resid, tok]
    simp only [h1, Bool.false_eq_true, if_false]
    by_cases h2 : isDig19 c = true
    · simp only [h2, if_true]; dgoto; simp [resid, tok]
    · simp only [h2, Bool.false_eq_true, if_false]; exact D_error _ _ _ rfl
  | s1 =>
    unfold step; simp only [hs]
    have hv : resid s (c :: rest) = andK (afterInt (skipDigits (c :: rest))) (K s.parseState) := by
      simp [resid, hs, tok]
    rw [hv, skipDigits_cons]
    by_cases h1 : isDig c = true
    · simp only [h1, if_true]; dgoto; simp [resid, tok]
    · simp only [h1, Bool.false_eq_true, if_false]
      exact state0_D s c rest herr hend
  | s0 =>
    unfold step; simp only [hs]
    have hv : resid s (c :: rest) = andK (afterInt (c :: rest)) (K s.parseState) := by
      simp [resid, hs, tok]
    rw [hv]
    exact state0_D s c rest herr hend
  | dot =>
    unfold step; simp only [hs]
    have hv : resid s (c :: rest) = andK ((digits1 (c :: rest)).bind expPart) (K s.parseState) := by
      simp [resid, hs, tok]
    rw [hv, digits1_cons]
    by_cases h1 : isDig c = true
    · simp only [h1, if_true]; dgoto; simp [resid, tok]
    · simp only [h1, Bool.false_eq_true, if_false]; exact D_error _ _ _ rfl
  | dot0 =>
    unfold step; simp only [hs]
    have hv : resid s (c :: rest) = andK (expPart (skipDigits (c :: rest))) (K s.parseState) := by
      simp [resid, hs, tok]
    rw [hv, skipDigits_cons]
    by_cases h1 : isDig c = true
    · simp only [h1, if_true]
      exact D_same _ _ _ _ h (by simp) (by simp [resid, hs, tok])
    simp only [h1, Bool.false_eq_true, if_false]
    rw [expPart_cons]
    by_cases h2 : (c == 0x65 || c == 0x45) = true
    · simp only [h2, if_true]; dgoto; simp [resid, tok]
    · simp only [h2, Bool.false_eq_true, if_false, andK_some]
      exact endValue_D s c rest herr hend
  | e =>
    unfold step; simp only [hs]
    have hv : resid s (c :: rest) = andK (expSign (c :: rest)) (K s.parseState) := by
      simp [resid, hs, tok]
    rw [hv, expSign_cons]
    by_cases h1 : (c == 0x2B || c == 0x2D) = true
    · simp only [h1, if_true]; dgoto; simp [resid, tok]
    · simp only [h1, Bool.false_eq_true, if_false]
      exact eSign_D s c rest herr hend
  | eSign =>
    unfold step; simp only [hs]
    have hv : resid s (c :: rest) = andK (digits1 (c :: rest)) (K s.parseState) := by
      simp [resid, hs, tok]
    rw [hv]
    exact eSign_D s c rest herr hend
  | e0 =>
    unfold step; simp only [hs]
    have hv : resid s (c :: rest) = K s.parseState (skipDigits (c :: rest)) := by
      simp [resid, hs, tok]
    rw [hv, skipDigits_cons]
    by_cases h1 : isDig c = true
    · simp only [h1, if_true]
      exact D_same _ _ _ _ h (by simp) (by simp [resid, hs, tok])
    · simp only [h1, Bool.false_eq_true, if_false]
      exact endValue_D s c rest herr hend
  | t =>
    unfold step; simp only [hs]
    have hv : resid s (c :: rest) = andK (tok .t (c :: rest)) (K s.parseState) := by simp [resid, hs]
    rw [hv]; simp only [tok]; rw [lit_cons]
    by_cases h1 : (c == 0x72) = true
    · simp only [h1, if_true]; dgoto; simp [resid, tok, lit]
    · simp only [h1, Bool.false_eq_true, if_false]; exact D_error _ _ _ rfl
  | tr =>
    unfold step; simp only [hs]
    have hv : resid s (c :: rest) = andK (tok .tr (c :: rest)) (K s.parseState) := by simp [resid, hs]
    rw [hv]; simp only [tok]; rw [lit_cons]
    by_cases h1 : (c == 0x75) = true
    · simp only [h1, if_true]; dgoto; simp [resid, tok, lit]
    · simp only [h1, Bool.false_eq_true, if_false]; exact D_error _ _ _ rfl
  | tru =>
    unfold step; simp only [hs]
    have hv : resid s (c :: rest) = andK (tok .tru (c :: rest)) (K s.parseState) := by simp [resid, hs]
    rw [hv]; simp only [tok]; rw [lit_cons]
    by_cases h1 : (c == 0x65) = true
    · simp only [h1, if_true]; dgoto; simp [resid, tok, lit]
    · simp only [h1, Bool.false_eq_true, if_false]; exact D_error _ _ _ rfl
  | f =>
    unfold step; simp only [hs]
    have hv : resid s (c :: rest) = andK (tok .f (c :: rest)) (K s.parseState) := by simp [resid, hs]
    rw [hv]; simp only [tok]; rw [lit_cons]
    by_cases h1 : (c == 0x61) = true
    · simp only [h1, if_true]; dgoto; simp [resid, tok, lit]
    · simp only [h1, Bool.false_eq_true, if_false]; exact D_error _ _ _ rfl
  | fa =>
    unfold step; simp only [hs]
    have hv : resid s (c :: rest) = andK (tok .fa (c :: rest)) (K s.parseState) := by simp [resid, hs]
    rw [hv]; simp only [tok]; rw [lit_cons]
    by_cases h1 : (c == 0x6C) = true
    · simp only [h1, if_true]; dgoto; simp [resid, tok, lit]
    · simp only [h1, Bool.false_eq_true, if_false]; exact D_error _ _ _ rfl
  | fal =>
    unfold step; simp only [hs]
    have hv : resid s (c :: rest) = andK (tok .fal (c :: rest)) (K s.parseState) := by simp [resid, hs]
    rw [hv]; simp only [tok]; rw [lit_cons]
    by_cases h1 : (c == 0x73) = true
    · simp only [h1, if_true]; dgoto; simp [resid, tok, lit]
    · simp only [h1, Bool.false_eq_true, if_false]; exact D_error _ _ _ rfl
  | fals =>
    unfold step; simp only [hs]
    have hv : resid s (c :: rest) = andK (tok .fals (c :: rest)) (K s.parseState) := by simp [resid, hs]
    rw [hv]; simp only [tok]; rw [lit_cons]
    by_cases h1 : (c == 0x65) = true
    · simp only [h1, if_true]; dgoto; simp [resid, tok, lit]
    · simp only [h1, Bool.false_eq_true, if_false]; exact D_error _ _ _ rfl
  | n =>
    unfold step; simp only [hs]
    have hv : resid s (c :: rest) = andK (tok .n (c :: rest)) (K s.parseState) := by simp [resid, hs]
    rw [hv]; simp only [tok]; rw [lit_cons]
    by_cases h1 : (c == 0x75) = true
    · simp only [h1, if_true]; dgoto; simp [resid, tok, lit]
    · simp only [h1, Bool.false_eq_true, if_false]; exact D_error _ _ _ rfl
  | nu =>
    unfold step; simp only [hs]
    have hv : resid s (c :: rest) = andK (tok .nu (c :: rest)) (K s.parseState) := by simp [resid, hs]
    rw [hv]; simp only [tok]; rw [lit_cons]
    by_cases h1 : (c == 0x6C) = true
    · simp only [h1, if_true]; dgoto; simp [resid, tok, lit]
    · simp only [h1, Bool.false_eq_true, if_false]; exact D_error _ _ _ rfl
  | nul =>
    unfold step; simp only [hs]
    have hv : resid s (c :: rest) = andK (tok .nul (c :: rest)) (K s.parseState) := by simp [resid, hs]
    rw [hv]; simp only [tok]; rw [lit_cons]
    by_cases h1 : (c == 0x6C) = true
    · simp only [h1, if_true]; dgoto; simp [resid, tok, lit]
    · simp only [h1, Bool.false_eq_true, if_false]; exact D_error _ _ _ rfl


/-! ### end of input -/

theorem K_cons_nil (p : PS) (ps : List PS) : K (p :: ps) [] = false := by
  cases p with
  | objectKey => simp [K, skipWs]
  | objectValue => simp only [K]; rw [objTailC_eq]; simp [skipWs]
  | arrayValue => simp only [K]; rw [arrTailC_eq]; simp [skipWs]

theorem endValue_eof (s : Scanner) (hend : s.endTop = false) :
    ∃ s' op, stateEndValue s 0x20 = .ok (s', op) ∧ s'.endTop = K s.parseState [] := by
  unfold stateEndValue
  cases hps : s.parseState with
  | nil =>
    refine ⟨_, _, rfl, ?_⟩
    simp [K, skipWs]
  | cons p ps =>
    simp only [show isSpace 0x20 = true by decide, if_true]
    exact ⟨_, _, rfl, by simp [hend, K_cons_nil]⟩

theorem eof_aux (s : Scanner) (h : WF s) (herr : s.err = false) (hend : s.endTop = false) :
    ∃ s' op, step s 0x20 = .ok (s', op) ∧ s'.endTop = resid s [] := by
  have hsp : isSpace 0x20 = true := by decide
  cases hs : s.step
  all_goals (unfold step; simp only [hs])
  all_goals first
    | exact absurd (h.top hs) (by simp [hend])
    | exact absurd (h.err.mpr hs) (by simp [herr])
    | (obtain ⟨s', op, e, he⟩ := endValue_eof s hend
       refine ⟨s', op, ?_, ?_⟩
       · simpa [state0, isDig] using e
       · rw [he]; simp [resid, hs, tok, afterInt, skipDigits, fracPart, expPart])
    | (simp [stateBeginValueOrEmpty, stateBeginValue, stateBeginStringOrEmpty, stateBeginString, stateESign,
        hsp, Scanner.error, goto, isHexDig, isDig, isDig19, resid, hs, tok, lit, hend, skipWs, valueC_nil, string,
        strRest, escRest, hexRest, intPart, digits1, expSign]; done)
    | (simp [stateBeginStringOrEmpty, hsp, resid, hs, hend, skipWs]; split <;> rfl)


theorem eof_resid (s : Scanner) (h : WF s) :
    ∃ s' op, eof s = .ok (s', op) ∧ (op != .error) = resid s [] := by
  unfold eof
  by_cases herr : s.err = true
  · simp only [herr, if_true]
    exact ⟨_, _, rfl, by simp [resid, h.err.mp herr]⟩
  have herr' : s.err = false := by simpa using herr
  simp only [herr', Bool.false_eq_true, if_false]
  by_cases hend : s.endTop = true
  · simp only [hend, if_true]
    have hs : s.step = .endTop := by
      rcases h.top' hend with h1 | h1
      · exact h1
      · exact absurd (h.err.mpr h1) herr
    exact ⟨_, _, rfl, by simp [resid, hs, K, skipWs]⟩
  have hend' : s.endTop = false := by simpa using hend
  simp only [hend', Bool.false_eq_true, if_false]
  obtain ⟨s', op, e, he⟩ := eof_aux s h herr' hend'
  rw [e]
  simp only []
  cases hb : s'.endTop with
  | true => simp only [if_true]; exact ⟨_, _, rfl, by rw [← he, hb]; rfl⟩
  | false => simp only [Bool.false_eq_true, if_false]; exact ⟨_, _, rfl, by rw [← he, hb]; rfl⟩

/-- the scanner loop computes the residual language of its configuration -/
theorem checkLoop_resid : ∀ (bs : Bytes) (s : Scanner), WF s → checkLoop s bs = .ok (resid s bs)
  | [], s, h => by
    obtain ⟨s', op, e, hv⟩ := eof_resid s h
    simp only [checkLoop, e, hv]
  | c :: rest, s, h => by
    obtain ⟨s', op, e, hw, hop, hv⟩ := step_resid s c rest h
    simp only [checkLoop, e]
    by_cases ho : op = .error
    · subst ho
      simp only [beq_self_eq_true, if_true]
      rw [hv]; simp [resid, hop rfl]
    · have : (op == Op.error) = false := by simpa using ho
      simp only [this, Bool.false_eq_true, if_false]
      rw [hv]
      exact checkLoop_resid rest s' hw

theorem resid_new (bs : Bytes) : resid Scanner.new bs = isJsonD maxNestingDepth bs := by
  rw [isJsonD_eq]
  simp only [resid, Scanner.new, budget, List.length_nil, Nat.sub_zero, andK]
  cases valueC maxNestingDepth (skipWs bs) <;> rfl

/-- **the scanner accepts exactly the JSON texts nested at most `maxNestingDepth` deep** -/
theorem valid_eq (bs : Bytes) : valid bs = .ok (isJsonD maxNestingDepth bs) := by
  unfold valid
  rw [checkLoop_resid bs Scanner.new wf_new, resid_new]

end UgoVerif.Proofs.Json
