import UgoVerif.Proofs.C07Heap
/-
  C08, shared heap segment: the invariant `Inv n h0` ("VM state `s` holds no reference to a
  mutable cell of the shared segment `[0, n)`, and the segment still equals `h0`"), the result
  carrying invariant calculus `Tr` (a `Keeps` that also passes a predicate of the returned
  value to the continuation), and its structural tactic `trs`.
-/
namespace UgoVerif.VM
open UgoVerif UgoVerif.Go

/-- `v` is not a reference to a mutable cell (array, map, `*ObjectPtr`, iterator) of the shared
    segment `[0, n)`.  References to function and error cells are unrestricted: those cells are
    never written (`function_cells_immutable`; no model primitive overwrites an error cell). -/
def PrivV (n : Nat) : V → Prop
  | .arr a _ _ => n ≤ a
  | .map a => n ≤ a
  | .box a => n ≤ a
  | .iter a => n ≤ a
  | _ => True

/-- what `Copy()` may be applied to: a value that is private, or an (immutable-by-convention)
    array / map / function / error of the shared segment — never a shared box or iterator,
    which `Copy()` would hand out unchanged -/
def CopyOK (n : Nat) : V → Prop
  | .box a => n ≤ a
  | .iter a => n ≤ a
  | _ => True

theorem PrivV.copyOK {n : Nat} {v : V} (h : PrivV n v) : CopyOK n v := by
  cases v <;> simp_all [PrivV, CopyOK]

def GoodIterK (n : Nat) : IterK → Prop
  | .arr a _ _ => n ≤ a
  | .map a _ => n ≤ a
  | _ => True

/-- the cell at address `a`: a private cell (`n ≤ a`) holds private values only; a cell of the
    shared segment holds values that may be copied; free-variable lists of functions (shared or
    not) point to private boxes only (the function constants of a Bytecode have `Free = nil`) -/
def CellOK (n : Nat) (a : Nat) : Cell → Prop
  | .arr xs => ∀ x ∈ xs.toList, CopyOK n x ∧ (n ≤ a → PrivV n x)
  | .map kvs => ∀ p ∈ kvs, CopyOK n p.2 ∧ (n ≤ a → PrivV n p.2)
  | .box v => n ≤ a → PrivV n v
  | .fn _ free => ∀ fr, free = some fr → ∀ x ∈ fr, n ≤ x
  | .iter k _ => n ≤ a → GoodIterK n k
  | _ => True

/-- the heap part: the shared segment is `h0[0:n]`, every cell is `CellOK` -/
structure HeapOK (n : Nat) (h0 : Array Cell) (h : Array Cell) : Prop where
  size : n ≤ h.size
  low : ∀ a, a < n → h[a]? = h0[a]?
  cells : ∀ a c, h[a]? = some c → CellOK n a c

/-- **the invariant**: no root of the VM (any stack slot, the globals, the module cache, the
    free-variable list of any frame) and no private cell refers to a mutable shared cell -/
structure Inv (n : Nat) (h0 : Array Cell) (s : State) : Prop where
  heap : HeapOK n h0 s.heap
  stack : ∀ v ∈ s.stack.toList, PrivV n v
  globals : PrivV n s.globals
  modules : ∀ v ∈ s.modules.toList, PrivV n v
  frames : ∀ f ∈ s.frames.toList, ∀ fr, f.free = some fr → ∀ x ∈ fr, n ≤ x
  /-- the stack is the fixed Go array `[StackSize]Object` -/
  ssize : s.stack.size = stackSize

/-! ### type-directed result predicates -/

class Good (α : Type) where
  good : Nat → α → Prop
export Good (good)

instance : Good V := ⟨PrivV⟩
instance : Good Frame := ⟨fun n f => ∀ fr, f.free = some fr → ∀ x ∈ fr, n ≤ x⟩
instance : Good IterK := ⟨GoodIterK⟩
instance (priority := high) goodAddrs : Good (List Nat) := ⟨fun n l => ∀ x ∈ l, n ≤ x⟩
instance (priority := high) goodBytes : Good (List UInt8) := ⟨fun _ _ => True⟩
instance {α} [Good α] : Good (List α) := ⟨fun n l => ∀ x ∈ l, good n x⟩
instance {α} [Good α] : Good (Option α) := ⟨fun n o => ∀ x, o = some x → good n x⟩
instance {α β} [Good α] [Good β] : Good (α × β) := ⟨fun n p => good n p.1 ∧ good n p.2⟩
instance {α β} [Good α] [Good β] : Good (MProd α β) := ⟨fun n p => good n p.1 ∧ good n p.2⟩
instance {α} [Good α] : Good (ForInStep α) :=
  ⟨fun n r => match r with | .yield b => good n b | .done b => good n b⟩
instance {α} [Good α] : Good (Except OpErr α) := ⟨fun n r => ∀ a, r = .ok a → good n a⟩
instance : Good Unit := ⟨fun _ _ => True⟩
instance : Good Nat := ⟨fun _ _ => True⟩
instance : Good Int := ⟨fun _ _ => True⟩
instance : Good Bool := ⟨fun _ _ => True⟩
instance : Good String := ⟨fun _ _ => True⟩
instance : Good UInt8 := ⟨fun _ _ => True⟩
instance : Good Ctl := ⟨fun _ _ => True⟩
instance : Good Code := ⟨fun _ _ => True⟩
instance : Good Handler := ⟨fun _ _ => True⟩
instance : Good OpErr := ⟨fun _ _ => True⟩
instance : Good VmErr := ⟨fun _ _ => True⟩
instance : Good State := ⟨fun _ _ => True⟩
instance : Good Cell := ⟨fun _ _ => True⟩

@[simp] theorem good_V (n : Nat) (v : V) : good n v = PrivV n v := rfl
@[simp] theorem good_Frame (n : Nat) (f : Frame) : good n f = (∀ fr, f.free = some fr → ∀ x ∈ fr, n ≤ x) := rfl
@[simp] theorem good_IterK (n : Nat) (k : IterK) : good n k = GoodIterK n k := rfl
@[simp] theorem good_addrs (n : Nat) (l : List Nat) : good n l = (∀ x ∈ l, n ≤ x) := rfl
@[simp] theorem good_bytes (n : Nat) (l : List UInt8) : good n l = True := rfl
@[simp] theorem good_listV (n : Nat) (l : List V) : good n l = (∀ x ∈ l, PrivV n x) := rfl
@[simp] theorem good_kvs (n : Nat) (l : List (Bytes × V)) : good n l = (∀ p ∈ l, good n p) := rfl
@[simp] theorem good_option {α} [Good α] (n : Nat) (o : Option α) : good n o = (∀ x, o = some x → good n x) := rfl
@[simp] theorem good_prod {α β} [Good α] [Good β] (n : Nat) (p : α × β) : good n p = (good n p.1 ∧ good n p.2) := rfl
@[simp] theorem good_mprod {α β} [Good α] [Good β] (n : Nat) (p : MProd α β) :
    good n p = (good n p.1 ∧ good n p.2) := rfl
@[simp] theorem good_yield {α} [Good α] (n : Nat) (b : α) : good n (ForInStep.yield b) = good n b := rfl
@[simp] theorem good_done {α} [Good α] (n : Nat) (b : α) : good n (ForInStep.done b) = good n b := rfl
@[simp] theorem good_except {α} [Good α] (n : Nat) (r : Except OpErr α) :
    good n r = (∀ a, r = .ok a → good n a) := rfl
@[simp] theorem good_unit (n : Nat) (u : Unit) : good n u = True := rfl
@[simp] theorem good_nat (n : Nat) (u : Nat) : good n u = True := rfl
@[simp] theorem good_int (n : Nat) (u : Int) : good n u = True := rfl
@[simp] theorem good_bool (n : Nat) (u : Bool) : good n u = True := rfl
@[simp] theorem good_string (n : Nat) (u : String) : good n u = True := rfl
@[simp] theorem good_uint8 (n : Nat) (u : UInt8) : good n u = True := rfl
@[simp] theorem good_ctl (n : Nat) (u : Ctl) : good n u = True := rfl
@[simp] theorem good_code (n : Nat) (u : Code) : good n u = True := rfl
@[simp] theorem good_handler (n : Nat) (u : Handler) : good n u = True := rfl
@[simp] theorem good_operr (n : Nat) (u : OpErr) : good n u = True := rfl
@[simp] theorem good_vmerr (n : Nat) (u : VmErr) : good n u = True := rfl
@[simp] theorem good_state (n : Nat) (u : State) : good n u = True := rfl
@[simp] theorem good_cell (n : Nat) (u : Cell) : good n u = True := rfl

/-! ### the calculus -/

/-- `m` preserves `Inv n h0` on every path, and a normal result satisfies `Q` -/
def Tr (n : Nat) (h0 : Array Cell) {α} (Q : α → Prop) (m : M α) : Prop :=
  ∀ s, Inv n h0 s → Inv n h0 (exec m s).2 ∧ ∀ a, (exec m s).1 = .ok a → Q a

namespace Tr
variable {n : Nat} {h0 : Array Cell}

theorem pure {α} {Q : α → Prop} (a : α) (h : Q a) : Tr n h0 Q (Pure.pure a : M α) := by
  intro s hs; exact ⟨hs, fun b hb => by simp [exec_pure] at hb; subst hb; exact h⟩

theorem throw {α} {Q : α → Prop} (e : Exc) : Tr n h0 Q (MonadExcept.throw e : M α) := by
  intro s hs; exact ⟨hs, fun b hb => by simp [exec_throw] at hb⟩

theorem panic {α} {Q : α → Prop} (m : String) : Tr n h0 Q (VM.panic m : M α) := throw _
theorem unsupported {α} {Q : α → Prop} (m : String) : Tr n h0 Q (VM.unsupported m : M α) := throw _

theorem bind {α β} {Q : α → Prop} {R : β → Prop} {m : M α} {f : α → M β}
    (hm : Tr n h0 Q m) (hf : ∀ a, Q a → Tr n h0 R (f a)) : Tr n h0 R (m >>= f) := by
  intro s hs
  rw [exec_bind]
  have := hm s hs
  rcases h : exec m s with ⟨r, s'⟩
  rw [h] at this
  cases r with
  | ok a => exact hf a (this.2 a rfl) s' this.1
  | error e => exact ⟨this.1, fun b hb => by simp at hb⟩

theorem weaken {α} {Q Q' : α → Prop} {m : M α} (hm : Tr n h0 Q m) (h : ∀ a, Q a → Q' a) : Tr n h0 Q' m :=
  fun s hs => ⟨(hm s hs).1, fun a ha => h a ((hm s hs).2 a ha)⟩

theorem ite {α} {Q : α → Prop} {c : Prop} [Decidable c] {a b : M α} (ha : c → Tr n h0 Q a) (hb : ¬ c → Tr n h0 Q b) :
    Tr n h0 Q (if c then a else b) := by
  split
  · exact ha ‹_›
  · exact hb ‹_›

theorem getS : Tr n h0 (fun s => Inv n h0 s) VM.getS := by
  intro s hs; exact ⟨hs, fun b hb => by simp at hb; subst hb; exact hs⟩

theorem get : Tr n h0 (fun s => Inv n h0 s) (MonadState.get : M State) := getS

theorem modS {f : State → State} (hf : ∀ s, Inv n h0 s → Inv n h0 (f s)) :
    Tr n h0 (good n) (VM.modS f) := fun s hs => ⟨hf s hs, fun _ _ => trivial⟩

theorem set' {s' : State} (h : Inv n h0 s') : Tr n h0 (good n) (MonadStateOf.set s' : M Unit) :=
  fun _ _ => ⟨h, fun _ _ => trivial⟩

theorem of_keeps {α} {m : M α} (h : Keeps (Inv n h0) m) : Tr n h0 (fun _ => True) m :=
  fun s hs => ⟨h.elim s hs, fun _ _ => trivial⟩

theorem keeps {α} {Q : α → Prop} {m : M α} (h : Tr n h0 Q m) : Keeps (Inv n h0) m :=
  Keeps.intro' fun s hs => (h s hs).1

theorem forIn_list {α β} (I : β → Prop) (l : List α) (init : β) (f : α → β → M (ForInStep β))
    (hinit : I init)
    (hf : ∀ a, a ∈ l → ∀ b, I b → Tr n h0 (fun r => match r with | .yield b' => I b' | .done b' => I b') (f a b)) :
    Tr n h0 I (forIn l init f) := by
  induction l generalizing init with
  | nil => exact Tr.pure _ hinit
  | cons a as ih =>
    rw [List.forIn_cons]
    refine Tr.bind (hf a (by simp) init hinit) ?_
    intro x hx
    cases x with
    | done b => exact Tr.pure _ hx
    | yield b => exact ih b hx (fun a ha => hf a (by simp [ha]))

theorem forIn_range {β} (I : β → Prop) (r : Std.Legacy.Range) (init : β) (f : Nat → β → M (ForInStep β))
    (hinit : I init)
    (hf : ∀ a b, I b → Tr n h0 (fun r => match r with | .yield b' => I b' | .done b' => I b') (f a b)) :
    Tr n h0 I (forIn r init f) := by
  rw [Std.Legacy.Range.forIn_eq_forIn_range']
  exact forIn_list I _ _ _ hinit (fun a _ => hf a)

theorem elim {α} {Q : α → Prop} {m : M α} (h : Tr n h0 Q m) (s : State) (hs : Inv n h0 s) :
    Inv n h0 (exec m s).2 ∧ ∀ a, (exec m s).1 = .ok a → Q a := h s hs

theorem intro' {α} {Q : α → Prop} {m : M α}
    (h : ∀ s, Inv n h0 s → Inv n h0 (exec m s).2 ∧ ∀ a, (exec m s).1 = .ok a → Q a) : Tr n h0 Q m := h

end Tr
attribute [irreducible] Tr

end UgoVerif.VM
