import UgoVerif.Model.ModStore
/-
  Invariants of the compile-time module store (helper lemmas for Props/C12).
-/
namespace UgoVerif.Proofs.ModStore
open UgoVerif.Model.ModStore

/-- every stored module index is below the counter -/
def StoreOK (s : Store) : Prop := ∀ n it, s.get n = some it → it.modIdx < s.count

/-- every emitted LOADMODULE operand pair is the store's entry for that name -/
def EmittedOK (st : St) : Prop := ∀ p ∈ st.emitted, st.store.get p.1 = some p.2

/-- import edges go to modules stored earlier (smaller module index) -/
def Topo (mm : ModMap) (s : Store) : Prop :=
  ∀ m it is, s.get m = some it → mm.get m = some (.source is) →
    ∀ i ∈ is, ∃ it', s.get i = some it' ∧ it'.modIdx < it.modIdx

/-- only modules the module map knows are stored -/
def Known (mm : ModMap) (s : Store) : Prop := ∀ n it, s.get n = some it → (mm.get n).isSome

def Inv (mm : ModMap) (st : St) : Prop := StoreOK st.store ∧ EmittedOK st ∧ Topo mm st.store ∧ Known mm st.store

/-- nothing stored is ever changed -/
def Mono (a b : St) : Prop := ∀ n it, a.store.get n = some it → b.store.get n = some it

/-- modules on the compiler path are source modules (a builtin is never "being compiled") -/
def PathOK (mm : ModMap) (path : List String) : Prop := ∀ p ∈ path, mm.get p ≠ some .builtin

theorem get_add_self (s : Store) (n : String) (t c : Nat) :
    (s.add n t c).2.get n = some (s.add n t c).1 := by
  simp [Store.add, Store.get, lookup]

theorem get_add_other (s : Store) (n m : String) (t c : Nat) (h : n ≠ m) :
    (s.add n t c).2.get m = s.get m := by
  simp [Store.add, Store.get, lookup, h]

theorem Mono.refl (a : St) : Mono a a := fun _ _ h => h
theorem Mono.trans {a b c : St} (h1 : Mono a b) (h2 : Mono b c) : Mono a c :=
  fun n it h => h2 n it (h1 n it h)

theorem inv_emit {mm : ModMap} {st : St} {name : String} {it : Item} (h : Inv mm st)
    (hg : st.store.get name = some it) : Inv mm { st with emitted := (name, it) :: st.emitted } := by
  refine ⟨h.1, ?_, h.2.2.1, h.2.2.2⟩
  intro p hp
  simp at hp
  rcases hp with rfl | hp
  · exact hg
  · exact h.2.1 p hp

/-- adding a module that is not stored yet, all of whose imports are stored -/
theorem inv_add {mm : ModMap} {st : St} {name : String} {t : Nat} (h : Inv mm st)
    (hn : st.store.get name = none) (hk : (mm.get name).isSome)
    (himp : ∀ is, mm.get name = some (.source is) → ∀ i ∈ is, (st.store.get i).isSome) :
    Inv mm { store := (st.store.add name t st.nconsts).2, nconsts := st.nconsts + 1,
             emitted := (name, (st.store.add name t st.nconsts).1) :: st.emitted } ∧
    Mono st { store := (st.store.add name t st.nconsts).2, nconsts := st.nconsts + 1,
              emitted := (name, (st.store.add name t st.nconsts).1) :: st.emitted } := by
  have hmono : ∀ n it, st.store.get n = some it → (st.store.add name t st.nconsts).2.get n = some it := by
    intro n it hg
    by_cases e : name = n
    · subst e; rw [hn] at hg; cases hg
    · rw [get_add_other _ _ _ _ _ e]; exact hg
  refine ⟨⟨?_, ?_, ?_, ?_⟩, hmono⟩
  rotate_left 3
  · intro n it hg
    by_cases e : name = n
    · subst e; exact hk
    · rw [get_add_other _ _ _ _ _ e] at hg; exact h.2.2.2 n it hg
  · intro n it hg
    by_cases e : name = n
    · subst e
      rw [get_add_self] at hg
      cases hg
      simp [Store.add]
    · rw [get_add_other _ _ _ _ _ e] at hg
      have := h.1 n it hg
      simp [Store.add]; omega
  · intro p hp
    simp at hp
    rcases hp with rfl | hp
    · exact get_add_self _ _ _ _
    · exact hmono _ _ (h.2.1 p hp)
  · intro m it is hg hm i hi
    by_cases e : name = m
    · subst e
      rw [get_add_self] at hg
      cases hg
      have hs := himp is hm i hi
      cases hgi : st.store.get i with
      | none => rw [hgi] at hs; cases hs
      | some it' =>
        refine ⟨it', hmono _ _ hgi, ?_⟩
        have := h.1 i it' hgi
        simpa [Store.add] using this
    · rw [get_add_other _ _ _ _ _ e] at hg
      obtain ⟨it', h1, h2⟩ := h.2.2.1 m it is hg hm i hi
      exact ⟨it', hmono _ _ h1, h2⟩

/-- the result of one import / of a list of imports -/
def Post (mm : ModMap) (path : List String) (names : List String) (st st' : St) : Prop :=
  Inv mm st' ∧ Mono st st' ∧ (∀ n ∈ names, (st'.store.get n).isSome) ∧
  (∀ p ∈ path, st.store.get p = none → st'.store.get p = none)

theorem compile_post (mm : ModMap) : ∀ fuel,
    (∀ path name st st', PathOK mm path → Inv mm st → compileImport mm fuel path name st = .ok st' →
        Post mm path [name] st st') ∧
    (∀ path names st st', PathOK mm path → Inv mm st → compileImports mm fuel path names st = .ok st' →
        Post mm path names st st') := by
  intro fuel
  induction fuel with
  | zero =>
    constructor
    · intro path name st st' _ _ h; simp [compileImport] at h
    · intro path names st st' _ _ h; simp [compileImports] at h
  | succ fuel ih =>
    obtain ⟨ih1, ih2⟩ := ih
    constructor
    · intro path name st st' hp hinv h
      unfold compileImport at h
      split at h
      · cases h
      · rename_i src hsrc
        split at h
        · -- already stored
          rename_i it hit
          cases h
          refine ⟨inv_emit hinv hit, fun _ _ h => h, ?_, fun _ _ h => h⟩
          intro n hn; simp at hn; subst hn; simp [hit]
        · rename_i hnone
          split at h
          · -- builtin
            cases h
            have hadd := inv_add (t := 2) hinv hnone (by simp [hsrc]) (by intro is hm; rw [hsrc] at hm; cases hm)
            refine ⟨hadd.1, hadd.2, ?_, ?_⟩
            · intro n hn; simp at hn; subst hn
              show ((st.store.add n 2 st.nconsts).2.get n).isSome = true
              simp [get_add_self]
            · intro p hpp hpn
              by_cases e : name = p
              · subst e; exact absurd hsrc (hp _ hpp)
              · show (st.store.add name 2 st.nconsts).2.get p = none
                rw [get_add_other _ _ _ _ _ e]; exact hpn
          · -- source
            rename_i imports
            split at h
            · cases h
            · rename_i hcyc
              split at h
              · cases h
              · rename_i st1 hst1
                cases h
                have hp' : PathOK mm (name :: path) := by
                  intro p hpp
                  simp at hpp
                  rcases hpp with rfl | hpp
                  · rw [hsrc]; intro hh; cases hh
                  · exact hp p hpp
                obtain ⟨hinv1, hmono1, hall, hkeep⟩ := ih2 (name :: path) imports st st1 hp' hinv hst1
                have hnone1 : st1.store.get name = none := hkeep name (by simp) hnone
                have hadd := inv_add (t := 1) hinv1 hnone1 (by simp [hsrc]) (by
                  intro is hm i hi
                  rw [hsrc] at hm; cases hm
                  exact hall i hi)
                refine ⟨hadd.1, Mono.trans hmono1 hadd.2, ?_, ?_⟩
                · intro n hn; simp at hn; subst hn
                  show ((st1.store.add n 1 st1.nconsts).2.get n).isSome = true
                  simp [get_add_self]
                · intro p hpp hpn
                  have hne : name ≠ p := by
                    intro e; subst e
                    simp [checkCyclic] at hcyc
                    exact hcyc hpp
                  show (st1.store.add name 1 st1.nconsts).2.get p = none
                  rw [get_add_other _ _ _ _ _ hne]
                  exact hkeep p (by simp [hpp]) hpn
    · intro path names st st' hp hinv h
      cases names with
      | nil =>
        simp [compileImports] at h
        subst h
        exact ⟨hinv, Mono.refl _, by simp, fun _ _ h => h⟩
      | cons i rest =>
        simp only [compileImports] at h
        split at h
        · cases h
        · rename_i st1 hst1
          obtain ⟨hinv1, hmono1, hall1, hkeep1⟩ := ih1 path i st st1 hp hinv hst1
          obtain ⟨hinv2, hmono2, hall2, hkeep2⟩ := ih2 path rest st1 st' hp hinv1 h
          refine ⟨hinv2, Mono.trans hmono1 hmono2, ?_, ?_⟩
          · intro n hn
            simp at hn
            rcases hn with rfl | hn
            · have := hall1 n (by simp)
              cases hg : st1.store.get n with
              | none => rw [hg] at this; cases this
              | some it => rw [hmono2 _ _ hg]; rfl
            · exact hall2 n hn
          · intro p hpp hpn
            exact hkeep2 p hpp (hkeep1 p hpp hpn)

/-- the empty compiler state -/
theorem inv_empty (mm : ModMap) : Inv mm {} := by
  refine ⟨?_, ?_, ?_, ?_⟩ <;> intro <;> simp_all [Store.get, lookup, EmittedOK]

/-- import edges (between source modules of the module map) -/
inductive Chain (mm : ModMap) : String → String → Prop
  | edge {a b : String} {is : List String} : mm.get a = some (.source is) → b ∈ is → Chain mm a b
  | step {a b c : String} {is : List String} : mm.get a = some (.source is) → b ∈ is → Chain mm b c → Chain mm a c

theorem chain_decreases {mm : ModMap} {s : Store} (ht : Topo mm s) {a b : String} (hc : Chain mm a b) :
    ∀ ia, s.get a = some ia → ∃ ib, s.get b = some ib ∧ ib.modIdx < ia.modIdx := by
  induction hc with
  | edge hm hb => intro ia ha; exact ht _ ia _ ha hm _ hb
  | step hm hb _ ih =>
    intro ia ha
    obtain ⟨ib, h1, h2⟩ := ht _ ia _ ha hm _ hb
    obtain ⟨ic, h3, h4⟩ := ih ib h1
    exact ⟨ic, h3, by omega⟩

end UgoVerif.Proofs.ModStore
