import UgoVerif.Proofs.ShiftOps
/-
  C14, the RETURN of the callee under the offset relation: the child's loop returns (frame 0 is the
  only frame), the parent goes back to the caller's frame; the value the child's `Run` reads at
  `stack[sp-1]` is the value the parent's caller finds in the callee's slot `stack[bp-1]`.
-/
set_option linter.unusedSimpArgs false
set_option linter.unusedVariables false
namespace UgoVerif.Proofs.Shift
open UgoVerif UgoVerif.Go UgoVerif.VM

/-! ### one-sided rules -/

theorem RelS.errL_bind {α β γ} {A : State → State → Prop} {Q : γ → β → State → State → Prop} {m₂ : M β} (e : Exc)
    (f : α → M γ) : RelS A Q ((throw e : M α) >>= f) m₂ := by
  intro s t _ a s' b t' h1 _
  rw [exec_bind] at h1
  simp at h1

/-- an action of the child alone that does not change its state -/
theorem RelS.bindL {α β γ} {A : State → State → Prop} {Q : γ → β → State → State → Prop} {m : M α} {f : α → M γ}
    {m₂ : M β} (hro : ∀ s a s', exec m s = (.ok a, s') → s' = s) (hf : ∀ a, RelS A Q (f a) m₂) :
    RelS A Q (m >>= f) m₂ := by
  intro s t hA c s' b t' h1 h2
  rw [exec_bind] at h1
  rcases e1 : exec m s with ⟨r1, s1⟩
  rw [e1] at h1
  cases r1 with
  | error e => simp at h1
  | ok a =>
    have := hro s a s1 e1
    subst this
    exact hf a s1 t hA c s' b t' h1 h2

theorem fnCell_ro (fa : Addr) : ∀ s a s', exec (fnCell fa) s = (.ok a, s') → s' = s := by
  intro s a s' h
  rw [UgoVerif.VM.exec_fnCell] at h
  split at h <;> simp at h
  exact h.2.symm

/-! ### `clearDown` -/

theorem stackSet_inv (i : Int) (v : V) (s s' : State) (r : Unit) (h : exec (stackSet i v) s = (.ok r, s')) :
    0 ≤ i ∧ i < (stackSize : Int) ∧ s' = { s with stack := s.stack.set! i.toNat v } := by
  rw [exec_stackSet] at h
  by_cases hb : (decide (i < 0) || decide (i ≥ (stackSize : Int))) = true
  · rw [if_pos hb] at h; simp at h
  · rw [if_neg hb] at h
    simp only [Bool.or_eq_true, decide_eq_true_eq, not_or, Int.not_lt, ge_iff_le, Int.not_le] at hb
    simp only [Prod.mk.injEq, Except.ok.injEq] at h
    exact ⟨hb.1, hb.2, h.2.symm⟩

/-- only the stack changes, its size is kept, the slots below `lo` are kept -/
def StackAbove (lo : Int) (s s' : State) : Prop :=
  s' = { s with stack := s'.stack } ∧ s'.stack.size = s.stack.size ∧ ∀ i : Nat, (i : Int) < lo → s'.stack[i]! = s.stack[i]!

theorem clearLoop_inv (hi lo : Int) (l : List Nat) (hl : ∀ k ∈ l, lo ≤ hi - (k : Int)) :
    ∀ s r s', exec (forIn l PUnit.unit (fun (k : Nat) (_ : PUnit) => (do
        stackSet (hi - (k : Int)) V.nil
        pure (ForInStep.yield PUnit.unit) : M (ForInStep PUnit)))) s = (.ok r, s') → StackAbove lo s s' := by
  induction l with
  | nil =>
    intro s r s' h
    simp only [List.forIn_nil, exec_pure, Prod.mk.injEq] at h
    rw [← h.2]
    exact ⟨rfl, rfl, fun _ _ => rfl⟩
  | cons k rest ih =>
    intro s r s' h
    rw [List.forIn_cons, exec_bind, exec_bind] at h
    rcases e1 : exec (stackSet (hi - (k : Int)) V.nil) s with ⟨r1, s1⟩
    rw [e1] at h
    cases r1 with
    | error e => simp at h
    | ok u =>
      simp only [exec_pure] at h
      obtain ⟨h0, h1, hs1⟩ := stackSet_inv _ _ _ _ _ e1
      have hk := hl k (by simp)
      obtain ⟨a1, a2, a3⟩ := ih (fun j hj => hl j (by simp [hj])) s1 r s' h
      subst hs1
      refine ⟨?_, ?_, ?_⟩
      · rw [a1]
      · rw [a2]; simp [Array.set!_eq_setIfInBounds]
      · intro i hi'
        rw [a3 i hi']
        show (s.stack.set! (hi - (k : Int)).toNat V.nil)[i]! = s.stack[i]!
        rw [getElem!_set!]
        have : ¬ ((hi - (k : Int)).toNat = i ∧ (hi - (k : Int)).toNat < s.stack.size) := by
          intro c; have := c.1; omega
        rw [if_neg this]

theorem clearDown_inv (hi lo : Int) (s s' : State) (r : Unit) (h : exec (clearDown hi lo) s = (.ok r, s')) :
    StackAbove lo s s' := by
  unfold clearDown at h
  simp only [exec_bind] at h
  rw [Std.Legacy.Range.forIn_eq_forIn_range'] at h
  rcases e1 : exec (forIn (List.range' [:(hi - lo + 1).toNat].start [:(hi - lo + 1).toNat].size [:(hi - lo + 1).toNat].step)
      PUnit.unit (fun (k : Nat) (_ : PUnit) => (do
        stackSet (hi - (k : Int)) V.nil
        pure (ForInStep.yield PUnit.unit) : M (ForInStep PUnit)))) s with ⟨r1, s1⟩
  rw [e1] at h
  cases r1 with
  | error e => simp at h
  | ok u =>
    simp only [exec_pure, Prod.mk.injEq] at h
    rw [← h.2]
    refine clearLoop_inv hi lo _ ?_ s u s1 e1
    intro k hk
    simp [List.mem_range', Std.Legacy.Range.size] at hk
    omega

/-! ### the relation after the result slot is written -/

/-- child `s` and parent `t` between the write of the result (child slot `rc`, parent slot `rp`) and
    the end of RETURN: same heap, globals, module cache; the two result slots hold the same value -/
structure Rt (k : Nat) (rc rp : Nat) (s t : State) : Prop where
  heap : s.heap = t.heap
  globals : s.globals = t.globals
  modules : s.modules = t.modules
  fiS : s.frameIndex = 1
  fiT : t.frameIndex = (k : Int) + 1
  errS : s.err = none
  errT : t.err = none
  res : s.stack[rc]! = t.stack[rp]!

variable {bp k N L : Nat} {a : Int}

/-- both write the result `v`: the child into its slot `i`, the parent into its slot `j` -/
theorem sh_rt_stackSet (i j : Int) (v : V) :
    RelS (Sh bp k N a) (PQ (fun _ _ => True) (Rt k i.toNat j.toNat)) (stackSet i v) (stackSet j v) := by
  intro s t h x s' y t' h1 h2
  obtain ⟨_, hi, rfl⟩ := stackSet_inv _ _ _ _ _ h1
  obtain ⟨_, hj, rfl⟩ := stackSet_inv _ _ _ _ _ h2
  refine ⟨trivial, ⟨h.heap, h.globals, h.modules, h.fiS, h.fiT, h.errS, h.errT, ?_⟩⟩
  show (s.stack.set! i.toNat v)[i.toNat]! = (t.stack.set! j.toNat v)[j.toNat]!
  rw [getElem!_set!, getElem!_set!, h.shapeS.stack, h.shapeT.stack]
  have c1 : i.toNat = i.toNat ∧ i.toNat < stackSize := ⟨rfl, by omega⟩
  have c2 : j.toNat = j.toNat ∧ j.toNat < stackSize := ⟨rfl, by omega⟩
  rw [if_pos c1, if_pos c2]

theorem rt_clearDown (rc rp : Nat) (h1 l1 h2 l2 : Int) (hc : (rc : Int) < l1) (hp : (rp : Int) < l2) :
    RelS (Rt k rc rp) (PQ (fun _ _ => True) (Rt k rc rp)) (clearDown h1 l1) (clearDown h2 l2) := by
  intro s t h x s' y t' e1 e2
  obtain ⟨a1, _, a3⟩ := clearDown_inv _ _ _ _ _ e1
  obtain ⟨b1, _, b3⟩ := clearDown_inv _ _ _ _ _ e2
  refine ⟨trivial, ?_⟩
  rw [a1, b1]
  exact ⟨h.heap, h.globals, h.modules, h.fiS, h.fiT, h.errS, h.errT, by
    show s'.stack[rc]! = t'.stack[rp]!
    rw [a3 rc hc, b3 rp hp]; exact h.res⟩

/-! ### back to the caller's frame (parent only) -/

def retUp (fi : Int) : M Ctl := do
  clearCurrentFrame
  let pi := fi - 2
  if pi < 0 || pi ≥ (frameSize : Int) then
    VM.panic s!"runtime error: index out of range [{pi}] with length {frameSize}"
  modS fun s => { s with frameIndex := s.frameIndex - 1, curFrame := pi.toNat }
  let parent ← curFrame
  setIp parent.ip
  match parent.fn with
  | none => VM.panic "runtime error: invalid memory address or nil pointer dereference"
  | some _ => return .next

theorem retUp_inv (fi : Int) (t t' : State) (r : Ctl) (h : exec (retUp fi) t = (.ok r, t')) :
    r = .next ∧ t'.heap = t.heap ∧ t'.globals = t.globals ∧ t'.modules = t.modules ∧ t'.err = t.err ∧
    t'.stack = t.stack ∧ t'.sp = t.sp ∧ t'.frameIndex = t.frameIndex - 1 ∧ t'.curFrame = (fi - 2).toNat := by
  unfold retUp clearCurrentFrame at h
  simp only [exec_bind] at h
  have e0 : ∀ (f : Frame → Frame) (u : State), exec (setCurFrame f) u = (.ok (), { u with frames := u.frames.modify u.curFrame f }) :=
    fun _ _ => rfl
  rw [e0] at h
  simp only at h
  by_cases hb : (decide (fi - 2 < 0) || decide (fi - 2 ≥ (frameSize : Int))) = true
  · rw [if_pos hb] at h
    simp [exec_bind] at h
  · rw [if_neg hb] at h
    simp only [exec_modS, exec_bind] at h
    have ec : ∀ u : State, exec curFrame u = (.ok (u.frames[u.curFrame]!), u) := fun _ => rfl
    have ei : ∀ (v : Int) (u : State), exec (setIp v) u = (.ok (), { u with ip := v }) := fun _ _ => rfl
    rw [ec] at h
    simp only at h
    rw [ei] at h
    simp only at h
    split at h
    · simp at h
    · simp only [exec_pure, Prod.mk.injEq, Except.ok.injEq] at h
      obtain ⟨rfl, rfl⟩ := h
      exact ⟨rfl, rfl, rfl, rfl, rfl, rfl, rfl, rfl, rfl⟩

/-- what RETURN establishes between the child (its loop returns) and the parent (back in the caller) -/
def RetQ (bp k : Nat) (r r' : Ctl) (s' t' : State) : Prop :=
  r = .ret ∧ r' = .next ∧ s'.heap = t'.heap ∧ s'.globals = t'.globals ∧ s'.modules = t'.modules ∧
  s'.err = none ∧ t'.err = none ∧ s'.frameIndex = 1 ∧ t'.frameIndex = k ∧ t'.sp = bp ∧ 1 ≤ s'.sp ∧
  s'.stack[(s'.sp - 1).toNat]! = t'.stack[(t'.sp - 1).toNat]!

/-- everything of RETURN after the result slot is written -/
def retRest (hi b : Int) : M Ctl := do
  clearDown hi b
  setSp b
  let s ← getS
  if s.frameIndex == 1 then return .ret
  retUp s.frameIndex

theorem rel_retRest (hk : 1 ≤ k) (hbp : 1 ≤ bp) (c hi hi' : Int) (hc : 1 ≤ c) :
    RelS (Rt k (c - 1).toNat ((bp : Int) - 1).toNat) (RetQ bp k) (retRest hi c) (retRest hi' bp) := by
  unfold retRest
  refine RelS.bindV (rt_clearDown _ _ _ _ _ _ (by omega) (by omega)) ?_
  intro _ _ _
  intro s t h r s' r' t' h1 h2
  have es : ∀ (v : Int) (u : State), exec (setSp v) u = (.ok (), { u with sp := v }) := fun _ _ => rfl
  rw [exec_bind, es] at h1 h2
  simp only at h1 h2
  rw [exec_bind] at h1 h2
  simp only [exec_getS] at h1 h2
  have c1 : (s.frameIndex == 1) = true := by rw [h.fiS]; rfl
  have c2 : ¬ ((t.frameIndex == 1) = true) := by rw [h.fiT]; simp; omega
  rw [if_pos c1] at h1
  rw [if_neg c2] at h2
  simp only [exec_pure, Prod.mk.injEq, Except.ok.injEq] at h1
  obtain ⟨rfl, rfl⟩ := h1
  obtain ⟨q1, q2, q3, q4, q5, q6, q7, q8, q9⟩ := retUp_inv _ _ _ _ h2
  refine ⟨rfl, q1, ?_, ?_, ?_, h.errS, ?_, h.fiS, ?_, ?_, hc, ?_⟩
  · rw [q2]; exact h.heap
  · rw [q3]; exact h.globals
  · rw [q4]; exact h.modules
  · rw [q5]; exact h.errT
  · rw [q8]; show t.frameIndex - 1 = k; rw [h.fiT]; omega
  · rw [q7]
  · rw [q6, q7]; exact h.res

/-- **RETURN.**  From `Sh`-related states (`bp ≥ 1`: the callee value lies below the frame; `k ≥ 1`: the
    parent has a caller frame) -/
theorem sh_execReturn (ha : a ≤ N) (hk : 1 ≤ k) (hbp : 1 ≤ bp) :
    RelS (Sh bp k N a) (RetQ bp k) execReturn execReturn := by
  unfold execReturn
  sh1
  sh1
  have e1 : ((0 : Int) == 0) = true := rfl
  have e2 : ¬ (((bp : Int) == 0) = true) := by simp; omega
  rw [if_pos e1, if_neg e2]
  rename_i numRet fn fr ip1 d ip2
  cases fn with
  | none => exact RelS.errL_bind _ _
  | some fa =>
    dsimp only
    refine RelS.bindL (fnCell_ro fa) ?_
    intro cf
    sh1
    apply RelS.ite
    · sh1
      refine RelS.bindV (sh_rt_stackSet _ _ _) ?_
      intro _ _ _
      have := rel_retRest (k := k) hk hbp ((cf.1.numLocals : Int) + 1) (a - 1) (a + bp - 1) (by omega)
      exact this
    · refine RelS.bindV (sh_rt_stackSet _ _ _) ?_
      intro _ _ _
      have := rel_retRest (k := k) hk hbp ((cf.1.numLocals : Int) + 1) (a - 1) (a + bp - 1) (by omega)
      exact this

/-- RETURN at the level of `step`: the fetched opcode is RETURN -/
theorem return_shift (F : FloatOps) (hk : 1 ≤ k) (hbp : 1 ≤ bp) :
    RelS (fun s t => ShB bp k L s t ∧ ∀ op s1, exec fetchOp s = (.ok op, s1) → op = OpReturn) (RetQ bp k) (step F) (step F) := by
  intro s t ⟨⟨N, a, h, ha, hL⟩, hok⟩ r s' r' t' h1 h2
  rw [step_eq, exec_bind] at h1 h2
  rcases e1 : exec fetchOp s with ⟨r1, s1⟩
  rcases e2 : exec fetchOp t with ⟨r2, t1⟩
  rw [e1] at h1
  rw [e2] at h2
  cases r1 with
  | error e => simp at h1
  | ok op =>
    cases r2 with
    | error e => simp at h2
    | ok op' =>
      simp only at h1 h2
      obtain ⟨hop, hs1⟩ := sh_fetchOp s t h op s1 op' t1 e1 e2
      subst hop
      have hop := hok op s1 e1
      subst hop
      rw [exec_bind] at h1 h2
      rcases e3 : exec (noteTrace OpReturn) s1 with ⟨r3, s2⟩
      rcases e4 : exec (noteTrace OpReturn) t1 with ⟨r4, t2⟩
      rw [e3] at h1
      rw [e4] at h2
      cases r3 with
      | error e => simp at h1
      | ok u =>
        cases r4 with
        | error e => simp at h2
        | ok u' =>
          simp only at h1 h2
          have hs2 := (sh_noteTrace OpReturn s1 t1 hs1 u s2 u' t2 e3 e4).2
          have hd : dispatch F OpReturn = execReturn := rfl
          rw [hd] at h1 h2
          exact sh_execReturn ha hk hbp s2 t2 hs2 r s' r' t' h1 h2

/-- the epilogue of the child's `Run`: `resultValue` reads `stack[sp-1]` and DEREFERENCES an
    `*ObjectPtr`; the in-script caller finds the raw slot value -/
theorem resultValue_of_slot (s : State) (hsp : 1 ≤ s.sp ∧ s.sp ≤ (stackSize : Int)) :
    (∀ a, s.stack[(s.sp - 1).toNat]! ≠ .box a) → exec resultValue s = (.ok (s.stack[(s.sp - 1).toNat]!), s) := by
  intro hnb
  unfold resultValue
  have eg : exec getSp s = (.ok s.sp, s) := rfl
  simp only [exec_bind, eg]
  rw [exec_stackGet']
  have hb : ¬ ((decide (s.sp - 1 < 0) || decide (s.sp - 1 ≥ (stackSize : Int))) = true) := by simp; omega
  rw [if_neg hb]
  simp only
  generalize s.stack[(s.sp - 1).toNat]! = v at hnb
  cases v <;> first | rfl | exact absurd rfl (hnb _)

theorem resultValue_of_box (s : State) (hsp : 1 ≤ s.sp ∧ s.sp ≤ (stackSize : Int)) (a : Addr) (w : V)
    (hv : s.stack[(s.sp - 1).toNat]! = .box a) (hw : s.heap[a]? = some (.box w)) :
    exec resultValue s = (.ok w, s) := by
  unfold resultValue
  have eg : exec getSp s = (.ok s.sp, s) := rfl
  simp only [exec_bind, eg]
  rw [exec_stackGet']
  have hb : ¬ ((decide (s.sp - 1 < 0) || decide (s.sp - 1 ≥ (stackSize : Int))) = true) := by simp; omega
  rw [if_neg hb]
  simp only [hv, heapGet, exec_bind, exec_getS, hw, exec_pure]

end UgoVerif.Proofs.Shift
