import UgoVerif.Proofs.ShiftCall
/-
  C14, the RETURN of the callee under the offset relation: the child's loop returns (frame 0 is the
  only frame), the parent goes back to the caller's frame; the value the child's `Run` reads at
  `stack[sp-1]` is the value the parent's caller finds in the callee's slot `stack[bp-1]`.
-/
set_option linter.unusedSimpArgs false
set_option linter.unusedVariables false
set_option maxHeartbeats 1600000
namespace UgoVerif.Proofs.Shift
open UgoVerif UgoVerif.Go UgoVerif.VM

/-! ### one-sided rules -/

theorem RelS.errL_bind {α β γ} {A : State → State → Prop} {Q : γ → β → State → State → Prop} {m₂ : M β} (e : Exc)
    (f : α → M γ) : RelS A Q ((throw e : M α) >>= f) m₂ := by
  intro s t _ a s' b t' h1 _
  rw [exec_bind] at h1
  simp at h1

/-- an action of the child alone that does not change its state -/
theorem RelS.bindL {α β γ} {A : State → State → Prop} {Q : γ → β → State → State → Prop} {m : M α} {f : α → M γ}
    {m₂ : M β} (hro : ∀ s a s', exec m s = (.ok a, s') → s' = s) (hf : ∀ a, RelS A Q (f a) m₂) :
    RelS A Q (m >>= f) m₂ := by
  intro s t hA c s' b t' h1 h2
  rw [exec_bind] at h1
  rcases e1 : exec m s with ⟨r1, s1⟩
  rw [e1] at h1
  cases r1 with
  | error e => simp at h1
  | ok a =>
    have := hro s a s1 e1
    subst this
    exact hf a s1 t hA c s' b t' h1 h2

theorem fnCell_ro (fa : Addr) : ∀ s a s', exec (fnCell fa) s = (.ok a, s') → s' = s := by
  intro s a s' h
  rw [UgoVerif.VM.exec_fnCell] at h
  split at h <;> simp at h
  exact h.2.symm

/-! ### `clearDown` -/

theorem stackSet_inv (i : Int) (v : V) (s s' : State) (r : Unit) (h : exec (stackSet i v) s = (.ok r, s')) :
    0 ≤ i ∧ i < (stackSize : Int) ∧ s' = { s with stack := s.stack.set! i.toNat v } := by
  rw [exec_stackSet] at h
  by_cases hb : (decide (i < 0) || decide (i ≥ (stackSize : Int))) = true
  · rw [if_pos hb] at h; simp at h
  · rw [if_neg hb] at h
    simp only [Bool.or_eq_true, decide_eq_true_eq, not_or, Int.not_lt, ge_iff_le, Int.not_le] at hb
    simp only [Prod.mk.injEq, Except.ok.injEq] at h
    exact ⟨hb.1, hb.2, h.2.symm⟩

/-- only the stack changes, its size is kept, the slots below `lo` are kept -/
def StackAbove (lo : Int) (s s' : State) : Prop :=
  s' = { s with stack := s'.stack } ∧ s'.stack.size = s.stack.size ∧ ∀ i : Nat, (i : Int) < lo → s'.stack[i]! = s.stack[i]!

theorem clearLoop_inv (hi lo : Int) (l : List Nat) (hl : ∀ k ∈ l, lo ≤ hi - (k : Int)) :
    ∀ s r s', exec (forIn l PUnit.unit (fun (k : Nat) (_ : PUnit) => (do
        stackSet (hi - (k : Int)) V.nil
        pure (ForInStep.yield PUnit.unit) : M (ForInStep PUnit)))) s = (.ok r, s') → StackAbove lo s s' := by
  induction l with
  | nil =>
    intro s r s' h
    simp only [List.forIn_nil, exec_pure, Prod.mk.injEq] at h
    rw [← h.2]
    exact ⟨rfl, rfl, fun _ _ => rfl⟩
  | cons k rest ih =>
    intro s r s' h
    rw [List.forIn_cons, exec_bind, exec_bind] at h
    rcases e1 : exec (stackSet (hi - (k : Int)) V.nil) s with ⟨r1, s1⟩
    rw [e1] at h
    cases r1 with
    | error e => simp at h
    | ok u =>
      simp only [exec_pure] at h
      obtain ⟨h0, h1, hs1⟩ := stackSet_inv _ _ _ _ _ e1
      have hk := hl k (by simp)
      obtain ⟨a1, a2, a3⟩ := ih (fun j hj => hl j (by simp [hj])) s1 r s' h
      subst hs1
      refine ⟨?_, ?_, ?_⟩
      · rw [a1]
      · rw [a2]; simp [Array.set!_eq_setIfInBounds]
      · intro i hi'
        rw [a3 i hi']
        show (s.stack.set! (hi - (k : Int)).toNat V.nil)[i]! = s.stack[i]!
        rw [getElem!_set!]
        have : ¬ ((hi - (k : Int)).toNat = i ∧ (hi - (k : Int)).toNat < s.stack.size) := by
          intro c; have := c.1; omega
        rw [if_neg this]

theorem clearDown_inv (hi lo : Int) (s s' : State) (r : Unit) (h : exec (clearDown hi lo) s = (.ok r, s')) :
    StackAbove lo s s' := by
  unfold clearDown at h
  simp only [exec_bind] at h
  rw [Std.Legacy.Range.forIn_eq_forIn_range'] at h
  rcases e1 : exec (forIn (List.range' [:(hi - lo + 1).toNat].start [:(hi - lo + 1).toNat].size [:(hi - lo + 1).toNat].step)
      PUnit.unit (fun (k : Nat) (_ : PUnit) => (do
        stackSet (hi - (k : Int)) V.nil
        pure (ForInStep.yield PUnit.unit) : M (ForInStep PUnit)))) s with ⟨r1, s1⟩
  rw [e1] at h
  cases r1 with
  | error e => simp at h
  | ok u =>
    simp only [exec_pure, Prod.mk.injEq] at h
    rw [← h.2]
    refine clearLoop_inv hi lo _ ?_ s u s1 e1
    intro k hk
    simp [List.mem_range', Std.Legacy.Range.size] at hk
    omega

/-! ### the relation after the result slot is written -/

/-- child `s` and parent `t` between the write of the result (child slot `rc`, parent slot `rp`) and
    the end of RETURN: same heap, globals, module cache; the two result slots hold the same value -/
structure Rt (T0 : State) (bp k : Nat) (rc rp : Nat) (s t : State) : Prop where
  heap : s.heap = t.heap
  globals : s.globals = t.globals
  modules : s.modules = t.modules
  fiS : s.frameIndex = 1
  fiT : t.frameIndex = (k : Int) + 1
  errS : s.err = none
  errT : t.err = none
  res : s.stack[rc]! = t.stack[rp]!
  szT : t.stack.size = stackSize
  lowF : ∀ j : Nat, j < k → t.frames[j]! = T0.frames[j]!
  lowS : ∀ i : Nat, i + 1 < bp → t.stack[i]! = T0.stack[i]!
  curT : t.curFrame = k

variable {T0 : State} {bp k d H N : Nat} {a : Int}

/-- both write the result `v`: the child into its slot `i`, the parent into its slot `j` -/
theorem sh_rt_stackSet (i j : Int) (v : V) (hjb : (bp : Int) - 1 ≤ j) :
    RelS (Sh T0 bp k 0 H N a) (PQ (fun _ _ => True) (Rt T0 bp k i.toNat j.toNat)) (stackSet i v) (stackSet j v) := by
  intro s t h x s' y t' h1 h2
  obtain ⟨_, hi, rfl⟩ := stackSet_inv _ _ _ _ _ h1
  obtain ⟨_, hj, rfl⟩ := stackSet_inv _ _ _ _ _ h2
  refine ⟨trivial, ⟨h.heap, h.globals, h.modules, by have := h.fiS; show s.frameIndex = 1; omega, by have := h.fiT; show t.frameIndex = (k : Int) + 1; omega, h.errS, h.errT, ?_, ?_, h.lowF, ?_, by have := h.curT; show t.curFrame = k; omega⟩⟩
  rotate_right
  · intro i' hi'
    show (t.stack.set! j.toNat v)[i']! = T0.stack[i']!
    rw [getElem!_set!]
    have c : ¬ (j.toNat = i' ∧ j.toNat < t.stack.size) := fun c => by omega
    rw [if_neg c]
    exact h.lowS i' hi'
  · show (s.stack.set! i.toNat v)[i.toNat]! = (t.stack.set! j.toNat v)[j.toNat]!
    rw [getElem!_set!, getElem!_set!, h.shapeS.stack, h.shapeT.stack]
    have c1 : i.toNat = i.toNat ∧ i.toNat < stackSize := ⟨rfl, by omega⟩
    have c2 : j.toNat = j.toNat ∧ j.toNat < stackSize := ⟨rfl, by omega⟩
    rw [if_pos c1, if_pos c2]
  · show (t.stack.set! j.toNat v).size = stackSize
    simp [Array.set!_eq_setIfInBounds, h.shapeT.stack]

theorem rt_clearDown (rc rp : Nat) (h1 l1 h2 l2 : Int) (hc : (rc : Int) < l1) (hp : (rp : Int) < l2) (hl2 : (bp : Int) - 1 ≤ l2) :
    RelS (Rt T0 bp k rc rp) (PQ (fun _ _ => True) (Rt T0 bp k rc rp)) (clearDown h1 l1) (clearDown h2 l2) := by
  intro s t h x s' y t' e1 e2
  obtain ⟨a1, _, a3⟩ := clearDown_inv _ _ _ _ _ e1
  obtain ⟨b1, b2, b3⟩ := clearDown_inv _ _ _ _ _ e2
  refine ⟨trivial, ?_⟩
  rw [a1, b1]
  exact ⟨h.heap, h.globals, h.modules, h.fiS, h.fiT, h.errS, h.errT, by
    show s'.stack[rc]! = t'.stack[rp]!
    rw [a3 rc hc, b3 rp hp]; exact h.res, by show t'.stack.size = stackSize; rw [b2]; exact h.szT, h.lowF,
    fun i hi => by show t'.stack[i]! = T0.stack[i]!; rw [b3 i (by omega)]; exact h.lowS i hi, h.curT⟩

/-! ### back to the caller's frame (parent only) -/

def retUp (fi : Int) : M Ctl := do
  clearCurrentFrame
  let pi := fi - 2
  if pi < 0 || pi ≥ (frameSize : Int) then
    VM.panic s!"runtime error: index out of range [{pi}] with length {frameSize}"
  modS fun s => { s with frameIndex := s.frameIndex - 1, curFrame := pi.toNat }
  let parent ← curFrame
  setIp parent.ip
  match parent.fn with
  | none => VM.panic "runtime error: invalid memory address or nil pointer dereference"
  | some _ => return .next

theorem retUp_inv (fi : Int) (t t' : State) (r : Ctl) (h : exec (retUp fi) t = (.ok r, t')) :
    r = .next ∧ t'.heap = t.heap ∧ t'.globals = t.globals ∧ t'.modules = t.modules ∧ t'.err = t.err ∧
    t'.stack = t.stack ∧ t'.sp = t.sp ∧ t'.frameIndex = t.frameIndex - 1 ∧ t'.curFrame = (fi - 2).toNat ∧
    (∀ j : Nat, j ≠ t.curFrame → t'.frames[j]! = t.frames[j]!) := by
  unfold retUp clearCurrentFrame at h
  simp only [exec_bind] at h
  have e0 : ∀ (f : Frame → Frame) (u : State), exec (setCurFrame f) u = (.ok (), { u with frames := u.frames.modify u.curFrame f }) :=
    fun _ _ => rfl
  rw [e0] at h
  simp only at h
  by_cases hb : (decide (fi - 2 < 0) || decide (fi - 2 ≥ (frameSize : Int))) = true
  · rw [if_pos hb] at h
    simp [exec_bind] at h
  · rw [if_neg hb] at h
    simp only [exec_modS, exec_bind] at h
    have ec : ∀ u : State, exec curFrame u = (.ok (u.frames[u.curFrame]!), u) := fun _ => rfl
    have ei : ∀ (v : Int) (u : State), exec (setIp v) u = (.ok (), { u with ip := v }) := fun _ _ => rfl
    rw [ec] at h
    simp only at h
    rw [ei] at h
    simp only at h
    split at h
    · simp at h
    · simp only [exec_pure, Prod.mk.injEq, Except.ok.injEq] at h
      obtain ⟨rfl, rfl⟩ := h
      refine ⟨rfl, rfl, rfl, rfl, rfl, rfl, rfl, rfl, rfl, ?_⟩
      intro j hj
      show (t.frames.modify t.curFrame _)[j]! = t.frames[j]!
      rw [getElem!_modify]
      have c : ¬ (t.curFrame = j ∧ j < t.frames.size) := fun c => hj c.1.symm
      rw [if_neg c]

/-- what RETURN establishes between the child (its loop returns) and the parent (back in the caller) -/
def RetQ (T0 : State) (bp k : Nat) (r r' : Ctl) (s' t' : State) : Prop :=
  r = .ret ∧ r' = .next ∧ s'.heap = t'.heap ∧ s'.globals = t'.globals ∧ s'.modules = t'.modules ∧
  s'.err = none ∧ t'.err = none ∧ s'.frameIndex = 1 ∧ t'.frameIndex = k ∧ t'.sp = bp ∧ 1 ≤ s'.sp ∧
  s'.stack[(s'.sp - 1).toNat]! = t'.stack[(t'.sp - 1).toNat]! ∧ t'.stack.size = stackSize ∧
  (∀ j : Nat, j < k → t'.frames[j]! = T0.frames[j]!) ∧ (∀ i : Nat, i + 1 < bp → t'.stack[i]! = T0.stack[i]!)

/-- everything of RETURN after the result slot is written -/
def retRest (hi b : Int) : M Ctl := do
  clearDown hi b
  setSp b
  let s ← getS
  if s.frameIndex == 1 then return .ret
  retUp s.frameIndex

theorem rel_retRest (hk : 1 ≤ k) (hbp : 1 ≤ bp) (c hi hi' : Int) (hc : 1 ≤ c) :
    RelS (Rt T0 bp k (c - 1).toNat ((bp : Int) - 1).toNat) (RetQ T0 bp k) (retRest hi c) (retRest hi' bp) := by
  unfold retRest
  refine RelS.bindV (rt_clearDown _ _ _ _ _ _ (by omega) (by omega) (by omega)) ?_
  intro _ _ _
  intro s t h r s' r' t' h1 h2
  have es : ∀ (v : Int) (u : State), exec (setSp v) u = (.ok (), { u with sp := v }) := fun _ _ => rfl
  rw [exec_bind, es] at h1 h2
  simp only at h1 h2
  rw [exec_bind] at h1 h2
  simp only [exec_getS] at h1 h2
  have c1 : (s.frameIndex == 1) = true := by rw [h.fiS]; rfl
  have c2 : ¬ ((t.frameIndex == 1) = true) := by rw [h.fiT]; simp; omega
  rw [if_pos c1] at h1
  rw [if_neg c2] at h2
  simp only [exec_pure, Prod.mk.injEq, Except.ok.injEq] at h1
  obtain ⟨rfl, rfl⟩ := h1
  obtain ⟨q1, q2, q3, q4, q5, q6, q7, q8, q9, q10⟩ := retUp_inv _ _ _ _ h2
  refine ⟨rfl, q1, ?_, ?_, ?_, h.errS, ?_, h.fiS, ?_, ?_, hc, ?_, ?_, ?_, ?_⟩
  · rw [q2]; exact h.heap
  · rw [q3]; exact h.globals
  · rw [q4]; exact h.modules
  · rw [q5]; exact h.errT
  · rw [q8]; show t.frameIndex - 1 = k; rw [h.fiT]; omega
  · rw [q7]
  · rw [q6, q7]; exact h.res
  · rw [q6]; exact h.szT
  · intro j hj
    rw [q10 j (by show j ≠ t.curFrame; rw [h.curT]; omega)]
    exact h.lowF j hj
  · intro i hi
    rw [q6]
    exact h.lowS i hi

theorem sh_curFrame0 :
    RelS (Sh T0 bp k 0 H N a) (PQ (fun f g => FrameSh bp H f g ∧ f.bp = 0) (Sh T0 bp k 0 H N a)) curFrame curFrame :=
  (sh_curFrame_P (fun f => f.bp = 0)).conseq (fun s t h => ⟨h, h.bp0⟩) (fun _ _ _ _ h => h)

theorem sh_curFrame_pos :
    RelS (Sh T0 bp k (d + 1) H N a) (PQ (fun f g => FrameSh bp H f g ∧ 1 ≤ f.bp) (Sh T0 bp k (d + 1) H N a)) curFrame curFrame :=
  (sh_curFrame_P (fun f => 1 ≤ f.bp)).conseq (fun s t h => ⟨h, h.bpPos (d + 1) (by omega) (Nat.le_refl _)⟩) (fun _ _ _ _ h => h)

/-- **RETURN of the invoked function itself.**  From `Sh`-related states at depth 0 (`bp ≥ 1`: the callee value
    lies below the frame; `k ≥ 1`: the parent has a caller frame) -/
theorem sh_execReturn (ha : a ≤ N) (hk : 1 ≤ k) (hbp : 1 ≤ bp) :
    RelS (Sh T0 bp k 0 H N a) (RetQ T0 bp k) execReturn execReturn := by
  unfold execReturn
  sh1
  refine RelS.bindV sh_curFrame0 ?_
  rintro ⟨fn1, fr1, ip1, bp1, hs1, d1⟩ ⟨fn2, fr2, ip2, bp2, hs2, d2⟩ ⟨⟨e1, e2, e3, e4, e5, e6⟩, e7⟩
  simp only at e1 e2 e3 e4 e5 e6 e7
  subst e7
  subst e1 e2 e3 e5
  dsimp only
  have e1 : ((0 : Int) == 0) = true := rfl
  have e2 : ¬ (((0 : Int) + (bp : Int) == 0) = true) := by simp; omega
  rw [if_pos e1, if_neg e2]
  rename_i numRet
  cases fn1 with
  | none => exact RelS.errL_bind _ _
  | some fa =>
    dsimp only
    refine RelS.bindL (fnCell_ro fa) ?_
    intro cf
    sh1
    apply RelS.ite
    · sh1
      refine RelS.bindV (sh_rt_stackSet _ _ _ (by omega)) ?_
      intro _ _ _
      have := rel_retRest (T0 := T0) (k := k) hk hbp ((cf.1.numLocals : Int) + 1) (a - 1) (a + bp - 1) (by omega)
      have eq : (0 : Int) + (bp : Int) = (bp : Int) := by omega
      rw [eq]
      exact this
    · refine RelS.bindV (sh_rt_stackSet _ _ _ (by omega)) ?_
      intro _ _ _
      have := rel_retRest (T0 := T0) (k := k) hk hbp ((cf.1.numLocals : Int) + 1) (a - 1) (a + bp - 1) (by omega)
      have eq : (0 : Int) + (bp : Int) = (bp : Int) := by omega
      rw [eq]
      exact this

/-! ### RETURN of a nested call -/

theorem Sh.leave {s t : State} (h : Sh T0 bp k (d + 1) H N a s t) (F : Frame → Frame) :
    Sh T0 bp k d H N a
      { s with frames := s.frames.modify s.curFrame F, frameIndex := s.frameIndex - 1, curFrame := (s.frameIndex - 2).toNat,
               ip := ((s.frames.modify s.curFrame F)[(s.frameIndex - 2).toNat]!).ip }
      { t with frames := t.frames.modify t.curFrame F, frameIndex := t.frameIndex - 1, curFrame := (t.frameIndex - 2).toNat,
               ip := ((t.frames.modify t.curFrame F)[(t.frameIndex - 2).toNat]!).ip } := by
  have hsS := h.shapeS.frames
  have hsT := h.shapeT.frames
  have hfs := h.fiS
  have hft := h.fiT
  have hk := h.kLt
  have e1 : (s.frameIndex - 2).toNat = d := by omega
  have e2 : (t.frameIndex - 2).toNat = k + d := by omega
  have gS : ∀ j, j ≤ d → (s.frames.modify s.curFrame F)[j]! = s.frames[j]! := by
    intro j hj
    rw [getElem!_modify, h.curS]
    have c : ¬ (d + 1 = j ∧ j < s.frames.size) := fun c => by omega
    rw [if_neg c]
  have gT : ∀ j, j ≤ d → (t.frames.modify t.curFrame F)[k + j]! = t.frames[k + j]! := by
    intro j hj
    rw [getElem!_modify, h.curT]
    have c : ¬ (k + (d + 1) = k + j ∧ k + j < t.frames.size) := fun c => by omega
    rw [if_neg c]
  refine { h with ip := ?_, curS := e1, curT := e2, fiS := by show s.frameIndex - 1 = _; omega,
                  fiT := by show t.frameIndex - 1 = _; omega,
                  shapeS := ⟨h.shapeS.stack, by simp [hsS]⟩, shapeT := ⟨h.shapeT.stack, by simp [hsT]⟩,
                  kLt := by omega, frames := ?_, ips := ?_, bp0 := ?_, bpPos := ?_, lowF := ?_ }
  rotate_right
  · intro j hj
    show (t.frames.modify t.curFrame F)[j]! = T0.frames[j]!
    rw [getElem!_modify, h.curT]
    have c : ¬ (k + (d + 1) = j ∧ j < t.frames.size) := fun c => by omega
    rw [if_neg c]
    exact h.lowF j hj
  · show ((s.frames.modify s.curFrame F)[(s.frameIndex - 2).toNat]!).ip = ((t.frames.modify t.curFrame F)[(t.frameIndex - 2).toNat]!).ip
    rw [e1, e2, gS d (Nat.le_refl _), gT d (Nat.le_refl _)]
    exact h.ips d (by omega)
  · intro j hj
    show FrameSh bp H ((s.frames.modify s.curFrame F)[j]!) ((t.frames.modify t.curFrame F)[k + j]!)
    rw [gS j hj, gT j hj]
    exact h.frames j (by omega)
  · intro j hj
    show ((s.frames.modify s.curFrame F)[j]!).ip = ((t.frames.modify t.curFrame F)[k + j]!).ip
    rw [gS j (by omega), gT j (by omega)]
    exact h.ips j (by omega)
  · show ((s.frames.modify s.curFrame F)[0]!).bp = 0
    rw [gS 0 (by omega)]
    exact h.bp0
  · intro j h1 hj
    show 1 ≤ ((s.frames.modify s.curFrame F)[j]!).bp
    rw [gS j hj]
    exact h.bpPos j h1 (by omega)

/-- back to the frame below, on both sides -/
theorem sh_retUp (fi fi' : Int) (h1 : fi = (d : Int) + 2) (h2 : fi' = (k : Int) + (d : Int) + 2) (ha : a ≤ N) (hH : H ≤ N) :
    RelS (Sh T0 bp k (d + 1) H N a) (PostC T0 bp k) (retUp fi) (retUp fi') := by
  subst h1; subst h2
  intro s t h r s' r' t' e1 e2
  have hfs := h.fiS
  have hft := h.fiT
  have hk := h.kLt
  unfold retUp clearCurrentFrame at e1 e2
  have ec : ∀ (F : Frame → Frame) (u : State), exec (setCurFrame F) u = (.ok (), { u with frames := u.frames.modify u.curFrame F }) :=
    fun _ _ => rfl
  have ecf : ∀ u : State, exec curFrame u = (.ok (u.frames[u.curFrame]!), u) := fun _ => rfl
  have ei : ∀ (v : Int) (u : State), exec (setIp v) u = (.ok (), { u with ip := v }) := fun _ _ => rfl
  have c1 : (decide ((d : Int) + 2 - 2 < 0) || decide ((d : Int) + 2 - 2 ≥ (frameSize : Int))) = false := by
    simp only [frameSize] at hk ⊢; simp; omega
  have c2 : (decide ((k : Int) + (d : Int) + 2 - 2 < 0) || decide ((k : Int) + (d : Int) + 2 - 2 ≥ (frameSize : Int))) = false := by
    simp only [frameSize] at hk ⊢; simp; omega
  simp only [exec_bind, ec, c1, c2, Bool.false_eq_true, if_false, exec_modS, ecf, ei] at e1 e2
  have hl := h.leave (fun f => { f with free := none, fn := none, handlers := none })
  have p1 : ((d : Int) + 2 - 2).toNat = (s.frameIndex - 2).toNat := by omega
  have p2 : ((k : Int) + (d : Int) + 2 - 2).toNat = (t.frameIndex - 2).toNat := by omega
  rw [p1] at e1
  rw [p2] at e2
  split at e1
  · simp at e1
  · split at e2
    · simp at e2
    · simp only [exec_pure, Prod.mk.injEq, Except.ok.injEq] at e1 e2
      obtain ⟨rfl, rfl⟩ := e1
      obtain ⟨rfl, rfl⟩ := e2
      exact Or.inl ⟨rfl, rfl, d, H, N, a, hl, ha, hH⟩

/-- **RETURN of a nested call** (the current frame lies above the invoked function's frame): both sides go back
    to the frame below -/
theorem sh_execReturnUp (ha : a ≤ N) (hH : H ≤ N) :
    RelS (Sh T0 bp k (d + 1) H N a) (PostC T0 bp k) execReturn execReturn := by
  unfold execReturn
  sh1
  refine RelS.bindV sh_curFrame_pos ?_
  rintro ⟨fn1, fr1, ip1, bp1, hs1, d1⟩ ⟨fn2, fr2, ip2, bp2, hs2, d2⟩ ⟨⟨e1, e2, e3, e4, e5, e6⟩, e7⟩
  simp only at e1 e2 e3 e4 e5 e6 e7
  subst e1 e2 e3 e5
  dsimp only
  have c1 : ¬ ((bp1 == 0) = true) := by simp; omega
  have c2 : ¬ ((bp1 + (bp : Int) == 0) = true) := by simp; omega
  rw [if_neg c1, if_neg c2]
  sh1
  have rest : ∀ N1, N ≤ N1 → RelS (Sh T0 bp k (d + 1) H N1 a) (PostC T0 bp k) (retRest (a - 1) bp1) (retRest (a + bp - 1) (bp1 + bp)) := by
    intro N1 hN1
    unfold retRest
    sh1; sh1
    refine RelS.bindV sh_getS ?_
    intro x y hxy
    have f1 := hxy.fiS
    have f2 := hxy.fiT
    have c3 : ¬ ((x.frameIndex == 1) = true) := by simp; omega
    have c4 : ¬ ((y.frameIndex == 1) = true) := by simp; omega
    rw [if_neg c3, if_neg c4]
    exact sh_retUp _ _ (by omega) (by omega) (by omega) (by omega)
  apply RelS.ite
  · sh1; sh1
    exact rest _ (by omega)
  · sh1
    exact rest _ (by omega)

/-- the epilogue of the child's `Run`: `resultValue` reads `stack[sp-1]` and DEREFERENCES an
    `*ObjectPtr`; the in-script caller finds the raw slot value -/
theorem resultValue_of_slot (s : State) (hsp : 1 ≤ s.sp ∧ s.sp ≤ (stackSize : Int)) :
    (∀ a, s.stack[(s.sp - 1).toNat]! ≠ .box a) → exec resultValue s = (.ok (s.stack[(s.sp - 1).toNat]!), s) := by
  intro hnb
  unfold resultValue
  have eg : exec getSp s = (.ok s.sp, s) := rfl
  simp only [exec_bind, eg]
  rw [exec_stackGet']
  have hb : ¬ ((decide (s.sp - 1 < 0) || decide (s.sp - 1 ≥ (stackSize : Int))) = true) := by simp; omega
  rw [if_neg hb]
  simp only
  generalize s.stack[(s.sp - 1).toNat]! = v at hnb
  cases v <;> first | rfl | exact absurd rfl (hnb _)

theorem resultValue_of_box (s : State) (hsp : 1 ≤ s.sp ∧ s.sp ≤ (stackSize : Int)) (a : Addr) (w : V)
    (hv : s.stack[(s.sp - 1).toNat]! = .box a) (hw : s.heap[a]? = some (.box w)) :
    exec resultValue s = (.ok w, s) := by
  unfold resultValue
  have eg : exec getSp s = (.ok s.sp, s) := rfl
  simp only [exec_bind, eg]
  rw [exec_stackGet']
  have hb : ¬ ((decide (s.sp - 1 < 0) || decide (s.sp - 1 ≥ (stackSize : Int))) = true) := by simp; omega
  rw [if_neg hb]
  simp only [hv, heapGet, exec_bind, exec_getS, hw, exec_pure]

end UgoVerif.Proofs.Shift
