import UgoVerif.Proofs.OpsEqual
/-
  Helper lemmas for the ordering laws of C15: trichotomy of the Go comparison
  primitives on BitVec (signed / unsigned), IEEE-754 bit patterns and byte strings.
-/
namespace UgoVerif.Proofs
open UgoVerif UgoVerif.Go UgoVerif.Gen UgoVerif.Model

def cmp (F : FloatOps) (S : ObjOps) (tok : Tok) (a b : Val) : Option Bool :=
  match binaryOp F S tok a b with
  | .ok (.bool r) => some r
  | _ => none

def exactlyOne (x y z : Bool) : Bool := (x && !y && !z) || (!x && y && !z) || (!x && !y && z)

theorem slt_trich {w} (a b : BitVec w) : exactlyOne (a.slt b) (a == b) (b.slt a) = true := by
  have : (a == b) = decide (a.toInt = b.toInt) := by
    by_cases h : a = b <;> simp [h, BitVec.toInt_inj]
  rw [this]
  simp only [BitVec.slt, exactlyOne]
  by_cases h1 : a.toInt < b.toInt <;> by_cases h2 : b.toInt < a.toInt <;> by_cases h3 : a.toInt = b.toInt <;> simp [h1,h2,h3] <;> omega

theorem ult_trich {w} (a b : BitVec w) : exactlyOne (a.ult b) (a == b) (b.ult a) = true := by
  have : (a == b) = decide (a.toNat = b.toNat) := by
    by_cases h : a = b <;> simp [h, BitVec.toNat_inj]
  rw [this]
  simp only [BitVec.ult, exactlyOne]
  by_cases h1 : a.toNat < b.toNat <;> by_cases h2 : b.toNat < a.toNat <;> by_cases h3 : a.toNat = b.toNat <;> simp [h1,h2,h3] <;> omega

theorem f_trich (a b : F64) (ha : a.isNaN = false) (hb : b.isNaN = false) : exactlyOne (flt a b) (feq a b) (flt b a) = true := by
  simp only [flt, feq, ha, hb, exactlyOne]
  by_cases h1 : a.key < b.key <;> by_cases h2 : b.key < a.key <;> by_cases h3 : a.key = b.key <;> simp [h1,h2,h3] <;> omega

theorem bytesCompare_range (a b : Bytes) : bytesCompare a b = -1 ∨ bytesCompare a b = 0 ∨ bytesCompare a b = 1 := by
  induction a generalizing b with
  | nil => cases b <;> simp [bytesCompare]
  | cons x xs ih =>
    cases b with
    | nil => simp [bytesCompare]
    | cons y ys =>
      simp only [bytesCompare]
      split
      · simp
      · split
        · simp
        · exact ih ys

theorem bytesCompare_eq_zero (a b : Bytes) : bytesCompare a b = 0 ↔ a = b := by
  induction a generalizing b with
  | nil => cases b <;> simp [bytesCompare]
  | cons x xs ih =>
    cases b with
    | nil => simp [bytesCompare]
    | cons y ys =>
      simp only [bytesCompare]
      split
      · rename_i h; simp; intro e; subst e; exact absurd h (UInt8.lt_irrefl _)
      · split
        · rename_i h; simp; intro e; subst e; exact absurd h (UInt8.lt_irrefl _)
        · rename_i h1 h2
          have : x = y := UInt8.le_antisymm (UInt8.not_lt.1 h2) (UInt8.not_lt.1 h1)
          simp [this, ih]

theorem bytesCompare_flip (a b : Bytes) : bytesCompare b a = - bytesCompare a b := by
  induction a generalizing b with
  | nil => cases b <;> simp [bytesCompare]
  | cons x xs ih =>
    cases b with
    | nil => simp [bytesCompare]
    | cons y ys =>
      simp only [bytesCompare]
      by_cases h1 : x < y
      · have : ¬ y < x := UInt8.lt_asymm h1
        simp [h1, this]
      · by_cases h2 : y < x
        · simp [h1, h2]
        · simp [h1, h2, ih]

theorem bytes_trich (a b : Bytes) : exactlyOne (bytesLt a b) (a == b) (bytesLt b a) = true := by
  have e : (a == b) = decide (bytesCompare a b = 0) := by
    by_cases h : a = b <;> simp [h, bytesCompare_eq_zero]
  rw [e]
  simp only [bytesLt, exactlyOne, bytesCompare_flip a b]
  rcases bytesCompare_range a b with h | h | h <;> simp [h]

theorem slt_trich' {w} (a b : BitVec w) : exactlyOne (a.slt b) (b == a) (b.slt a) = true := by
  rw [Bool.beq_comm]; exact slt_trich a b
theorem ult_trich' {w} (a b : BitVec w) : exactlyOne (a.ult b) (b == a) (b.ult a) = true := by
  rw [Bool.beq_comm]; exact ult_trich a b
theorem bytes_trich' (a b : Bytes) : exactlyOne (bytesCompare a b == -1) (a == b) (bytesCompare a b == 1) = true := by
  have e : (a == b) = decide (bytesCompare a b = 0) := by
    by_cases h : a = b <;> simp [h, bytesCompare_eq_zero]
  rw [e]
  simp only [exactlyOne]
  rcases bytesCompare_range a b with h | h | h <;> simp [h]
theorem nan_one : F64.isNaN 4607182418800017408#64 = false := by decide
theorem nan_zero : F64.isNaN 0#64 = false := by decide

def FloatOps.ConvNoNaN (F : FloatOps) : Prop := ∀ x, (F.ofInt x).isNaN = false ∧ (F.ofUint x).isNaN = false
def notNaN : Val → Prop
  | .float x => x.isNaN = false
  | _ => True


theorem sle_eq {w} (a b : BitVec w) : a.sle b = (a.slt b || a == b) := by
  have : (a == b) = decide (a.toInt = b.toInt) := by
    by_cases h : a = b <;> simp [h, BitVec.toInt_inj]
  rw [this]; simp only [BitVec.slt, BitVec.sle]
  by_cases h1 : a.toInt < b.toInt <;> by_cases h3 : a.toInt = b.toInt <;> simp [h1,h3] <;> omega
theorem ule_eq {w} (a b : BitVec w) : a.ule b = (a.ult b || a == b) := by
  have : (a == b) = decide (a.toNat = b.toNat) := by
    by_cases h : a = b <;> simp [h, BitVec.toNat_inj]
  rw [this]; simp only [BitVec.ult, BitVec.ule]
  by_cases h1 : a.toNat < b.toNat <;> by_cases h3 : a.toNat = b.toNat <;> simp [h1,h3] <;> omega
theorem fle_eq (a b : F64) : fle a b = (flt a b || feq a b) := by
  simp only [fle, flt, feq]
  cases a.isNaN <;> cases b.isNaN <;> simp
  by_cases h1 : a.key < b.key <;> by_cases h3 : a.key = b.key <;> by_cases h2 : a.key ≤ b.key <;> simp [h1,h2,h3] <;> omega
theorem feq_symm (a b : F64) : feq a b = feq b a := feq_comm a b
theorem f_trich' (a b : F64) (ha : a.isNaN = false) (hb : b.isNaN = false) : exactlyOne (flt a b) (feq b a) (flt b a) = true := by
  rw [feq_symm]; exact f_trich a b ha hb
theorem fle_eq' (a b : F64) : fle a b = (flt a b || feq b a) := by
  rw [feq_symm]; exact fle_eq a b
theorem bytesLe_eq (a b : Bytes) : bytesLe a b = (bytesLt a b || a == b) := by
  have e : (a == b) = decide (bytesCompare a b = 0) := by
    by_cases h : a = b <;> simp [h, bytesCompare_eq_zero]
  rw [e]; simp only [bytesLe, bytesLt]
  rcases bytesCompare_range a b with h | h | h <;> simp [h]

theorem sle_eq' {w} (a b : BitVec w) : a.sle b = (a.slt b || b == a) := by
  rw [Bool.beq_comm]; exact sle_eq a b
theorem ule_eq' {w} (a b : BitVec w) : a.ule b = (a.ult b || b == a) := by
  rw [Bool.beq_comm]; exact ule_eq a b
theorem bytesLe_eq' (a b : Bytes) :
    (bytesCompare a b == 0 || bytesCompare a b == -1) = (bytesCompare a b == -1 || a == b) := by
  have e : (a == b) = decide (bytesCompare a b = 0) := by
    by_cases h : a = b <;> simp [h, bytesCompare_eq_zero]
  rw [e]; rcases bytesCompare_range a b with h | h | h <;> simp [h]
theorem bytesLt_flip (a b : Bytes) : (bytesCompare a b == -1) = (bytesCompare b a == 1) := by
  rw [bytesCompare_flip a b]; rcases bytesCompare_range a b with h | h | h <;> simp [h]

end UgoVerif.Proofs
