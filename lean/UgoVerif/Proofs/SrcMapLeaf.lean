import UgoVerif.Proofs.SrcMapTr
import Lean.Elab.Tactic
/-
  C16, compile side: `Tr` for the helper functions of the compiler model (symbol table, constants,
  identifiers, definitions, loops, function literals), and the tactic that decomposes `do` blocks.
-/
namespace UgoVerif.Compile
open UgoVerif UgoVerif.Go UgoVerif.Ast

/-- closes the goal with a local hypothesis (induction hypotheses, hypotheses about actions) -/
elab "tr_hyp" : tactic => do
  let g ← Lean.Elab.Tactic.getMainGoal
  g.withContext do
    for d in (← Lean.getLCtx) do
      if d.isImplementationDetail then continue
      let ok ← Lean.commitWhen do
        try
          let gs ← Lean.Meta.withReducible (g.apply d.toExpr)
          pure gs.isEmpty
        catch _ => pure false
      if ok then
        Lean.Elab.Tactic.replaceMainGoal []
        return
    throwError "tr_hyp: no hypothesis applies"

/-- the goal is a `Tr` judgment -/
elab "tr_guard" : tactic => do
  let g ← Lean.Elab.Tactic.getMainGoal
  let t := (← Lean.instantiateMVars (← g.getType)).consumeMData
  unless t.getAppFn.isConstOf ``UgoVerif.Compile.Tr do throwError "tr_guard: not a Tr goal"

/-- the goal is `∀ a, Tr …` -/
elab "tr_guard_pi" : tactic => do
  let g ← Lean.Elab.Tactic.getMainGoal
  let t := (← Lean.instantiateMVars (← g.getType)).consumeMData
  match t with
  | .forallE _ _ b _ => unless b.consumeMData.getAppFn.isConstOf ``UgoVerif.Compile.Tr do throwError "tr_guard_pi: not a Tr goal"
  | _ => throwError "tr_guard_pi: not a pi"

variable {lab : Nat → Nat}

syntax "tr_leaf" : tactic
macro_rules | `(tactic| tr_leaf) => `(tactic| first
  | with_reducible exact Tr.pure _
  | with_reducible apply Tr.throw | with_reducible apply Tr.cerr | with_reducible apply Tr.cpanic
  | with_reducible apply Tr.cunsupported
  | with_reducible exact tr_resolve _ | with_reducible exact tr_addConstant _ | with_reducible exact tr_curPos
  | with_reducible exact tr_currentLoop | with_reducible exact tr_pushLoop
  | with_reducible exact Tr.modify (fun _ => ⟨rfl, rfl, rfl, rfl⟩)
  | with_reducible exact tr_changeOperand _ _ (by simp)
  | with_reducible exact tr_patchAll _ _ (by intro p hp; simp [hp])
  | tr_hyp
  | (with_reducible apply Tr.pre_clean; tr_hyp)
  | with_reducible exact Tr.post_pend (Tr.pure _))

/-- emit rules for expression code: the mode stays `pend l` -/
syntax "tr_emit_e" : tactic
macro_rules | `(tactic| tr_emit_e) => `(tactic| first
  | with_reducible exact tr_emit__pend _ _ _ (by assumption)
  | with_reducible exact tr_emit_pend _ _ _ (by assumption))

/-- emit rules for statement code: `clean` whenever the opcode is not a call -/
syntax "tr_emit_s" : tactic
macro_rules | `(tactic| tr_emit_s) => `(tactic| first
  | with_reducible exact tr_emit__cc _ _ _ (by decide)
  | with_reducible exact tr_emit_cc _ _ _ (by decide)
  | with_reducible exact Tr.drop_R (tr_emit_cc _ _ _ (by decide))
  | with_reducible exact tr_emit__pc _ _ _ (by first | assumption | rfl) (by decide)
  | with_reducible exact tr_emit_pc _ _ _ (by first | assumption | rfl) (by decide)
  | with_reducible exact tr_emit__pend _ _ _ (by first | assumption | rfl)
  | with_reducible exact tr_emit_pend _ _ _ (by first | assumption | rfl)
  | with_reducible exact Tr.post_pend (tr_emit__cc _ _ _ (by decide))
  | with_reducible exact Tr.pre_clean (tr_emit__pend _ _ _ rfl))

syntax "tr_struct" : tactic
macro_rules | `(tactic| tr_struct) => `(tactic| first
  | (with_reducible apply Tr.get_bind; intro _)
  | (with_reducible apply Tr.bind)
  | split)

/-- frame-only code and expression code -/
syntax "tr_e" : tactic
macro_rules | `(tactic| tr_e) => `(tactic| repeat' (first
  | (tr_guard; first | tr_leaf | tr_emit_e | tr_struct)
  | (tr_guard_pi; with_reducible intro _)))

/-- statement code -/
syntax "tr_s" : tactic
macro_rules | `(tactic| tr_s) => `(tactic| repeat' (first
  | (tr_guard; first | tr_leaf | tr_emit_s | tr_struct)
  | (tr_guard_pi; with_reducible intro _)))

/-! ### symbol table -/

theorem tr_headTable {ps : List Nat} {X : Mode} : Tr lab ps X X R0 headTable := by unfold headTable; tr_e
macro_rules | `(tactic| tr_leaf) => `(tactic| with_reducible exact tr_headTable)
theorem tr_modTables {ps : List Nat} {X : Mode} (g : List Table → List Table) : Tr lab ps X X R0 (modTables g) := by
  unfold modTables; tr_e
theorem tr_modHead {ps : List Nat} {X : Mode} (f : Table → Table) : Tr lab ps X X R0 (modHead f) := by
  unfold modHead modTables; tr_e
macro_rules | `(tactic| tr_leaf) => `(tactic| first
  | with_reducible exact tr_modTables _ | with_reducible exact tr_modHead _)
theorem tr_updateSym {ps : List Nat} {X : Mode} (n : String) (f : Symbol → Symbol) : Tr lab ps X X R0 (updateSym n f) := by
  unfold updateSym; tr_e
theorem tr_hasAnyConstLit {ps : List Nat} {X : Mode} : Tr lab ps X X R0 hasAnyConstLit := by unfold hasAnyConstLit; tr_e
theorem tr_findSymbolSelf {ps : List Nat} {X : Mode} (n : String) : Tr lab ps X X R0 (findSymbolSelf n) := by
  unfold findSymbolSelf; tr_e
theorem tr_forkTable {ps : List Nat} {X : Mode} (b : Bool) : Tr lab ps X X R0 (forkTable b) := by unfold forkTable; tr_e
theorem tr_popTable {ps : List Nat} {X : Mode} : Tr lab ps X X R0 popTable := by unfold popTable; tr_e
macro_rules | `(tactic| tr_leaf) => `(tactic| first
  | with_reducible exact tr_updateSym _ _ | with_reducible exact tr_hasAnyConstLit
  | with_reducible exact tr_findSymbolSelf _ | with_reducible exact tr_forkTable _ | with_reducible exact tr_popTable)
theorem tr_defineLocal {ps : List Nat} {X : Mode} (name : String) : Tr lab ps X X R0 (defineLocal name) := by
  unfold defineLocal; tr_e
theorem tr_defineConstLitSym {ps : List Nat} {X : Mode} (name : String) (v : Option CVal) :
    Tr lab ps X X R0 (defineConstLitSym name v) := by unfold defineConstLitSym; tr_e
macro_rules | `(tactic| tr_leaf) => `(tactic| first
  | with_reducible exact tr_defineLocal _ | with_reducible exact tr_defineConstLitSym _ _)
theorem tr_defineConstLit {ps : List Nat} {X : Mode} (name : String) (v : VSum) : Tr lab ps X X R0 (defineConstLit name v) := by
  unfold defineConstLit; tr_e
macro_rules | `(tactic| tr_leaf) => `(tactic| with_reducible exact tr_defineConstLit _ _)

theorem tr_setParamsLoop {ps : List Nat} {X : Mode} (pos : Pos) : ∀ (l : List String) (k : Nat),
    Tr lab ps X X R0 (setParamsLoop pos l k)
  | [], _ => by unfold setParamsLoop; tr_e
  | p :: rest, k => by
    have ih := fun (ps' : List Nat) => tr_setParamsLoop (ps := ps') (X := X) pos rest (k + 1)
    unfold setParamsLoop; tr_e

theorem tr_setParams {ps : List Nat} {X : Mode} (pos : Pos) (l : List String) : Tr lab ps X X R0 (setParams pos l) := by
  have := fun (ps' : List Nat) => tr_setParamsLoop (lab := lab) (ps := ps') (X := X) pos l 0
  unfold setParams; tr_e
macro_rules | `(tactic| tr_leaf) => `(tactic| with_reducible exact tr_setParams _ _)

theorem tr_declParamVariadic {ps : List Nat} {X : Mode} (pos : Pos) : ∀ l : List (Pos × String × Bool),
    Tr lab ps X X R0 (declParamVariadic pos l)
  | [] => by unfold declParamVariadic; tr_e
  | (_, _, va) :: rest => by
    have ih := fun (ps' : List Nat) => tr_declParamVariadic (ps := ps') (X := X) pos rest
    unfold declParamVariadic; tr_e

theorem tr_declGlobals {ps : List Nat} {X : Mode} (pos : Pos) : ∀ l : List (Pos × String × Bool),
    Tr lab ps X X R0 (declGlobals pos l)
  | [] => by unfold declGlobals; tr_e
  | (_, name, _) :: rest => by
    have ih := fun (ps' : List Nat) => tr_declGlobals (ps := ps') (X := X) pos rest
    unfold declGlobals; tr_e
macro_rules | `(tactic| tr_leaf) => `(tactic| first
  | with_reducible exact tr_declParamVariadic _ _ | with_reducible exact tr_declGlobals _ _)

/-! ### constants, identifiers, definitions -/

section
variable {ps : List Nat} {l : Nat}

theorem tr_emitConstant_pend (pos : Pos) (v : CVal) (hl : lab pos = l) :
    Tr lab ps (.pend l) (.pend l) R0 (emitConstant pos v) := by unfold emitConstant; tr_e
theorem tr_emitConstant_pc (pos : Pos) (v : CVal) (hl : lab pos = l) :
    Tr lab ps (.pend l) .clean R0 (emitConstant pos v) := by unfold emitConstant; tr_s
theorem tr_emitConstant_cc (pos : Pos) (v : CVal) : Tr lab ps .clean .clean R0 (emitConstant pos v) := by
  unfold emitConstant; tr_s

theorem tr_emitConstLit_pend (pos : Pos) (v : CVal) (hl : lab pos = l) :
    Tr lab ps (.pend l) (.pend l) R0 (emitConstLit pos v) := by
  have := fun (ps' : List Nat) (v' : CVal) => tr_emitConstant_pend (lab := lab) (ps := ps') pos v' hl
  unfold emitConstLit; tr_e

theorem tr_emitFnConstant_pend (pos : Pos) (fn : CFn) (n : Nat) (hf : FnSM lab fn) (hl : lab pos = l) :
    Tr lab ps (.pend l) (.pend l) R0 (emitFnConstant pos fn n) := by
  have := fun (ps' : List Nat) => tr_addFnConstant (lab := lab) (ps := ps') (X := .pend l) fn hf
  unfold emitFnConstant; tr_e

theorem tr_compileIdent_pend (pos : Pos) (name : String) (hl : lab pos = l) :
    Tr lab ps (.pend l) (.pend l) R0 (compileIdent pos name) := by
  have h1 := fun (ps' : List Nat) (v' : CVal) => tr_emitConstant_pend (lab := lab) (ps := ps') pos v' hl
  have h2 := fun (ps' : List Nat) (v' : CVal) => tr_emitConstLit_pend (lab := lab) (ps := ps') pos v' hl
  unfold compileIdent; tr_e

theorem tr_emitFreePtrs_pend' (pos : Pos) (hl : lab pos = l) : ∀ (ys : List Symbol) (ps' : List Nat),
    Tr lab ps' (.pend l) (.pend l) R0 (emitFreePtrs pos ys)
  | [], _ => by unfold emitFreePtrs; tr_e
  | y :: r, _ => by
    have ih := tr_emitFreePtrs_pend' pos hl r
    unfold emitFreePtrs; tr_e

theorem tr_emitFreePtrs_pend (pos : Pos) (hl : lab pos = l) (ys : List Symbol) :
    Tr lab ps (.pend l) (.pend l) R0 (emitFreePtrs pos ys) := tr_emitFreePtrs_pend' pos hl ys ps

/-- `compileDefine`: when it succeeds it has emitted DEFINELOCAL -/
theorem tr_compileDefine_pc (pos : Pos) (ident : String) (allow : Bool) (kw : Nat) (hl : lab pos = l) :
    Tr lab ps (.pend l) .clean R0 (compileDefine pos ident allow kw) := by unfold compileDefine; tr_s
theorem tr_compileDefine_cc (pos : Pos) (ident : String) (allow : Bool) (kw : Nat) :
    Tr lab ps .clean .clean R0 (compileDefine pos ident allow kw) := by unfold compileDefine; tr_s

theorem tr_compileAssignSym_pc (pos : Pos) (sym : Symbol) (ident : String) (hl : lab pos = l) :
    Tr lab ps (.pend l) .clean R0 (compileAssignSym pos sym ident) := by unfold compileAssignSym; tr_s

theorem tr_defineCatchIdent_cc (pos : Pos) (name : String) : Tr lab ps .clean .clean R0 (defineCatchIdent pos name) := by
  unfold defineCatchIdent; tr_s

theorem tr_forinVar_cc (pos : Pos) (it : Int) (op : Nat) (name : String) (hop : isCallOp op = false) :
    Tr lab ps .clean .clean R0 (forinVar pos it op name) := by
  have h := fun (ps' : List Nat) => tr_emit__cc (lab := lab) (ps := ps') pos op [] hop
  unfold forinVar; tr_s

theorem tr_compileBranch_cc (pos : Pos) (tok : Nat) : Tr lab ps .clean .clean R0 (compileBranch pos tok) := by
  unfold compileBranch
  split
  · apply Tr.bind tr_currentLoop
    intro lp
    split
    · apply Tr.cerr
    · apply Tr.get_bind; intro s0
      apply Tr.bind (Y := .clean) (R := R0)
      · split
        · exact tr_emit__cc _ _ _ (by decide)
        · exact Tr.pure _
      · intro _
        apply Tr.bind (tr_emit_cc _ _ _ (by decide))
        intro p
        split
        · apply tr_modLoop
          intro l q hq
          simp only [List.mem_append, List.mem_singleton] at hq
          rcases hq with (hq | rfl) | hq
          · exact .inl (.inl hq)
          · right; simp
          · exact .inl (.inr hq)
        · apply tr_modLoop
          intro l q hq
          simp only [List.mem_append, List.mem_singleton] at hq
          rcases hq with hq | (hq | rfl)
          · exact .inl (.inl hq)
          · exact .inl (.inr hq)
          · right; simp
  · apply Tr.cerr

end

/-! ### blocks, loops -/

theorem tr_withBlock {ps : List Nat} {X Y : Mode} {body : CM Unit} (hb : ∀ ps', Tr lab ps' X Y R0 body) :
    Tr lab ps X Y R0 (withBlock body) := by unfold withBlock; tr_e

macro_rules | `(tactic| tr_struct) => `(tactic| with_reducible apply tr_withBlock)

theorem tr_blockOf {ps : List Nat} {X : Mode} {body : List Stmt} {act : CM Unit} (h : ∀ ps', Tr lab ps' X X R0 act) :
    Tr lab ps X X R0 (blockOf body act) := by
  have := fun (ps' : List Nat) => tr_withBlock (lab := lab) (ps := ps') h
  unfold blockOf; tr_e

theorem tr_withLoop {ps : List Nat} {X Y : Mode} {body : CM Unit} (hb : ∀ ps', Tr lab ps' X Y R0 body) :
    Tr lab ps X Y (fun lp => lp.breaks ++ lp.continues) (withLoop body) := by
  unfold withLoop
  exact Tr.bind tr_pushLoop fun _ => Tr.bind (hb _) fun _ => tr_popLoop

/-! ### value specs -/

/-- what is known of the compile action of the last explicit value of a declaration -/
abbrev LastTr (lab : Nat → Nat) (l : Nat) (last : Option (CM Unit × VSum)) : Prop :=
  ∀ x, last = some x → ∀ ps', Tr lab ps' .clean (.pend l) R0 x.1

theorem tr_compileValueIdent {ps : List Nat} {l : Nat} (pos : Pos) (tok : Nat) (name : String) {act : CM Unit}
    (hact : ∀ ps', Tr lab ps' .clean (.pend l) R0 act) (sum : VSum) (hl : lab pos = l) :
    Tr lab ps .clean .clean R0 (compileValueIdent pos tok name act sum) := by
  have hd := fun (ps' : List Nat) => tr_compileDefine_pc (lab := lab) (ps := ps') pos name false tok hl
  unfold compileValueIdent; tr_s

theorem tr_lastMatch {ps : List Nat} {l : Nat} (pos : Pos) (tok : Nat) (ipos : Pos) (name : String)
    {last : Option (CM Unit × VSum)} (hlast : LastTr lab l last) (hl : lab pos = l) :
    Tr lab ps .clean .clean R0
      (match (if tok == tConst then last else none) with
       | some (act, sum) => compileValueIdent pos tok name act sum
       | none => compileValueIdent pos tok name (emit_ ipos OpNull) (.lit .undefined)) := by
  split
  · rename_i act sum heq
    have hx : last = some (act, sum) := by
      split at heq
      · exact heq
      · cases heq
    exact tr_compileValueIdent pos tok name (hlast _ hx) sum hl
  · exact tr_compileValueIdent pos tok name (fun _ => Tr.post_pend (tr_emit__cc _ _ _ (by decide))) _ hl

theorem tr_compileIdentsNoValue {l : Nat} (pos : Pos) (tok : Nat) {last : Option (CM Unit × VSum)}
    (hlast : LastTr lab l last) (hl : lab pos = l) : ∀ (ids : List (Pos × String)) (ps : List Nat),
    Tr lab ps .clean .clean R0 (compileIdentsNoValue pos tok last ids)
  | [], _ => by unfold compileIdentsNoValue; exact Tr.pure _
  | (ipos, name) :: rest, _ => by
    unfold compileIdentsNoValue
    exact Tr.bind (tr_lastMatch pos tok ipos name hlast hl) fun _ => tr_compileIdentsNoValue pos tok hlast hl rest _

/-! ### function literals -/

theorem chain_empty : Chain #[] (keys []) 0 := .nil rfl

theorem tm_empty : Tm lab .clean #[] [] := ⟨trivial, rfl⟩

/-- `Bytecode()`: the collected function satisfies `FnSM` -/
theorem post_finishFn (s : CState) (hI : SInv lab s) (hT : Tm lab .clean s.insts s.sourceMap) :
    Post finishFn s fun fn s' => SInv lab s' ∧ FnSM lab fn := by
  unfold finishFn
  apply Post.bind; apply Post.get
  show Post _ s _
  split
  · exact Post.throw
  · rename_i lastOp pend _
    unfold finishTail
    apply Post.bind
    have h1 : Tr lab [] .clean .clean R0
        (if lastOp != OpReturn || !pend.isEmpty then emit_ 0 OpReturn [0] else pure ()) := by
      split
      · exact tr_emit__cc _ _ _ (by decide)
      · exact Tr.pure _
    refine (h1.elim s hI hT (fun _ h => by simp at h)).mono ?_
    intro _ s1 ⟨hI1, hT1, _, _⟩
    apply Post.bind; apply Post.get
    show Post _ s1 _
    apply Post.bind
    refine ((tr_headTable (lab := lab) (ps := []) (X := .clean)).elim s1 hI1 hT1 (fun _ h => by simp at h)).mono ?_
    intro t s2 ⟨hI2, _, _, _⟩
    apply Post.pure
    exact ⟨hI2, ⟨hI1.chain, hT1⟩⟩

theorem post_enterFn (variadic : Bool) (s : CState) :
    Post (enterFn variadic) s fun outer s1 => outer = s ∧ s1.insts = #[] ∧ s1.sourceMap = [] ∧ s1.loops = [] ∧
      s1.constants = s.constants := by
  unfold enterFn
  apply Post.bind; apply Post.get
  show Post _ s _
  apply Post.bind; apply Post.set; apply Post.pure
  exact ⟨rfl, rfl, rfl, rfl, rfl⟩

/-- `compileFuncLit` around a body that keeps the invariant: the enclosing stream is untouched, the
    compiled function satisfies `FnSM` -/
theorem post_withFn (pos : Pos) (variadic : Bool) (params : List String) {body : CM Unit}
    (hb : ∀ ps', Tr lab ps' .clean .clean R0 body) (s : CState) (hI : SInv lab s) :
    Post (withFn pos variadic params body) s fun r s' =>
      SInv lab s' ∧ s'.insts = s.insts ∧ s'.sourceMap = s.sourceMap ∧ FnSM lab r.1 := by
  unfold withFn
  apply Post.bind
  refine (post_enterFn variadic s).mono ?_
  rintro outer s1 ⟨rfl, h1, h2, h3, h4⟩
  have hI1 : SInv lab s1 :=
    ⟨by rw [h1, h2]; exact chain_empty, by rw [h3]; exact fun _ h => by simp at h, by rw [h4]; exact hI.consts⟩
  have hT1 : Tm lab .clean s1.insts s1.sourceMap := by rw [h1, h2]; exact tm_empty
  apply Post.bind
  refine ((tr_forkTable (lab := lab) (ps := []) (X := .clean) false).elim _ hI1 hT1 (fun _ h => by simp at h)).mono ?_
  intro _ s2 ⟨hI2, hT2, _, _⟩
  apply Post.bind
  refine ((tr_setParams (lab := lab) (ps := []) (X := .clean) pos params).elim _ hI2 hT2 (fun _ h => by simp at h)).mono ?_
  intro _ s3 ⟨hI3, hT3, _, _⟩
  apply Post.bind
  refine ((hb []).elim _ hI3 hT3 (fun _ h => by simp at h)).mono ?_
  intro _ s4 ⟨hI4, hT4, _, _⟩
  apply Post.bind
  refine (post_finishFn s4 hI4 hT4).mono ?_
  intro fn s5 ⟨hI5, hfn⟩
  apply Post.bind
  -- leaveFn
  unfold leaveFn
  apply Post.bind; apply Post.get
  show Post _ s5 _
  apply Post.bind
  intro ft s6 _
  apply Post.bind; apply Post.get
  show Post _ s6 _
  apply Post.bind; apply Post.set; apply Post.pure
  apply Post.pure
  exact ⟨⟨hI.chain, hI.loops, hI5.consts⟩, rfl, rfl, hfn⟩

end UgoVerif.Compile
