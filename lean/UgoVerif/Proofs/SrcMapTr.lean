import UgoVerif.Proofs.SrcMap
/-
  C16, compile side: the judgment `Tr ps X Y R m` — the compiler action `m`, started in a state
  that satisfies the source-map invariant `SInv` and whose stream is in mode `X`, in which the
  offsets `ps` are recorded instruction starts, ends (when it ends normally) in a state that
  satisfies `SInv`, is in mode `Y`, still has every earlier recorded offset, and has the offsets
  `R result` recorded.  Rules for the monad structure and for the primitive operations.
-/
namespace UgoVerif.Compile
open UgoVerif UgoVerif.Go UgoVerif.Ast

/-- what is proved of every finished function: its source map has exactly one entry per
    instruction, the stream does not end in a call, and every call's successor carries the call's
    label -/
structure FnSM (lab : Nat → Nat) (f : CFn) : Prop where
  chain : Chain f.insts (keys f.sourceMap) 0
  calls : Tm lab .clean f.insts f.sourceMap

structure SInv (lab : Nat → Nat) (s : CState) : Prop where
  chain : Chain s.insts (keys s.sourceMap) 0
  loops : ∀ l ∈ s.loops, ∀ p, (p ∈ l.breaks ∨ p ∈ l.continues) → p ∈ keys s.sourceMap
  consts : ∀ f, Const.fn f ∈ s.constants.toList → FnSM lab f

/-- partial correctness on normal termination -/
def Post {α} (m : CM α) (s : CState) (Q : α → CState → Prop) : Prop :=
  ∀ a s', runCM m s = (.ok a, s') → Q a s'

theorem Post.pure {α} {a : α} {s : CState} {Q : α → CState → Prop} (h : Q a s) : Post (Pure.pure a : CM α) s Q := by
  intro a' s' hr; rw [runCM_pure] at hr; cases hr; exact h

theorem Post.throw {α} {e : CErr} {s : CState} {Q : α → CState → Prop} : Post (throw e : CM α) s Q := by
  intro a' s' hr; rw [runCM_throw] at hr; cases hr

theorem Post.bind {α β} {m : CM α} {f : α → CM β} {s : CState} {Q : β → CState → Prop}
    (h : Post m s fun a s1 => Post (f a) s1 Q) : Post (m >>= f) s Q := by
  intro b s2 hr
  rw [runCM_bind] at hr
  cases hm : runCM m s with
  | mk r s1 =>
    rw [hm] at hr
    cases r with
    | ok a => exact h a s1 hm b s2 hr
    | error e => cases hr

theorem Post.mono {α} {m : CM α} {s : CState} {Q Q' : α → CState → Prop} (h : Post m s Q)
    (hq : ∀ a s', Q a s' → Q' a s') : Post m s Q' := fun a s' hr => hq a s' (h a s' hr)

theorem Post.get {s : CState} {Q : CState → CState → Prop} (h : Q s s) : Post (get : CM CState) s Q := by
  intro a s' hr; rw [runCM_get] at hr; cases hr; exact h
theorem Post.set {s t : CState} {Q : Unit → CState → Prop} (h : Q () t) : Post (set t : CM Unit) s Q := by
  intro a s' hr; rw [runCM_set] at hr; cases hr; exact h
theorem Post.modify {g : CState → CState} {s : CState} {Q : Unit → CState → Prop} (h : Q () (g s)) :
    Post (modify g : CM Unit) s Q := by
  intro a s' hr; rw [runCM_modify] at hr; cases hr; exact h

variable {lab : Nat → Nat}

def Tr {α} (lab : Nat → Nat) (ps : List Nat) (X Y : Mode) (R : α → List Nat) (m : CM α) : Prop :=
  ∀ s, SInv lab s → Tm lab X s.insts s.sourceMap → (∀ p ∈ ps, p ∈ keys s.sourceMap) →
    Post m s fun a s' => SInv lab s' ∧ Tm lab Y s'.insts s'.sourceMap ∧
      (∀ p ∈ keys s.sourceMap, p ∈ keys s'.sourceMap) ∧ (∀ p ∈ R a, p ∈ keys s'.sourceMap)

/-- no offsets to report -/
abbrev R0 {α} : α → List Nat := fun _ => []

namespace Tr

theorem pure {α} {ps : List Nat} {X : Mode} (a : α) : Tr lab ps X X R0 (Pure.pure a : CM α) :=
  fun _ hI hT _ => Post.pure ⟨hI, hT, fun _ h => h, fun _ h => by simp at h⟩

theorem throw {α} {ps : List Nat} {X Y : Mode} {R : α → List Nat} (e : CErr) : Tr lab ps X Y R (MonadExcept.throw e : CM α) :=
  fun _ _ _ _ => Post.throw

theorem cerr {α} {ps : List Nat} {X Y : Mode} {R : α → List Nat} (pos : Pos) (msg : String) :
    Tr lab ps X Y R (Compile.cerr pos msg : CM α) := Tr.throw _
theorem cpanic {α} {ps : List Nat} {X Y : Mode} {R : α → List Nat} (msg : String) :
    Tr lab ps X Y R (Compile.cpanic msg : CM α) := Tr.throw _
theorem cunsupported {α} {ps : List Nat} {X Y : Mode} {R : α → List Nat} (msg : String) :
    Tr lab ps X Y R (Compile.cunsupported msg : CM α) := Tr.throw _

theorem bind {α β} {ps : List Nat} {X Y Z : Mode} {R : α → List Nat} {R' : β → List Nat} {m : CM α} {f : α → CM β}
    (hm : Tr lab ps X Y R m) (hf : ∀ a, Tr lab (R a ++ ps) Y Z R' (f a)) : Tr lab ps X Z R' (m >>= f) := by
  intro s hI hT hps
  apply Post.bind
  intro a s1 hr
  obtain ⟨hI1, hT1, hk1, hR1⟩ := hm s hI hT hps a s1 hr
  have hps1 : ∀ p ∈ R a ++ ps, p ∈ keys s1.sourceMap := by
    intro p hp
    rcases List.mem_append.mp hp with hp | hp
    · exact hR1 p hp
    · exact hk1 p (hps p hp)
  intro b s2 hr2
  obtain ⟨hI2, hT2, hk2, hR2⟩ := hf a s1 hI1 hT1 hps1 b s2 hr2
  exact ⟨hI2, hT2, fun p hp => hk2 p (hk1 p hp), hR2⟩

theorem get_bind {β} {ps : List Nat} {X Y : Mode} {R : β → List Nat} {f : CState → CM β}
    (h : ∀ s0, Tr lab ps X Y R (f s0)) : Tr lab ps X Y R (MonadState.get >>= f) := by
  intro s hI hT hps b s2 hr
  rw [runCM_bind, runCM_get] at hr
  exact h s s hI hT hps b s2 hr

/-- a state update that leaves the stream, the source map, the loop stack and the constants alone -/
theorem modify {ps : List Nat} {X : Mode} {g : CState → CState}
    (hg : ∀ s, (g s).insts = s.insts ∧ (g s).sourceMap = s.sourceMap ∧ (g s).loops = s.loops ∧ (g s).constants = s.constants) :
    Tr lab ps X X R0 (modify g : CM Unit) := by
  intro s hI hT hps
  apply Post.modify
  obtain ⟨h1, h2, h3, h4⟩ := hg s
  refine ⟨⟨by rw [h1, h2]; exact hI.chain, by rw [h2, h3]; exact hI.loops, by rw [h4]; exact hI.consts⟩,
    by rw [h1, h2]; exact hT, by rw [h2]; exact fun _ h => h, fun _ h => by simp at h⟩

theorem pre_clean {α} {ps : List Nat} {l : Nat} {Y : Mode} {R : α → List Nat} {m : CM α}
    (h : Tr lab ps (.pend l) Y R m) : Tr lab ps .clean Y R m :=
  fun s hI hT hps => h s hI (hT.to_pend l) hps

theorem post_pend {α} {ps : List Nat} {l : Nat} {X : Mode} {R : α → List Nat} {m : CM α}
    (h : Tr lab ps X .clean R m) : Tr lab ps X (.pend l) R m :=
  fun s hI hT hps => (h s hI hT hps).mono fun _ _ ⟨h1, h2, h3, h4⟩ => ⟨h1, h2.to_pend l, h3, h4⟩

theorem mono_ps {α} {ps ps' : List Nat} {X Y : Mode} {R : α → List Nat} {m : CM α}
    (h : Tr lab ps X Y R m) (hp : ∀ p ∈ ps, p ∈ ps') : Tr lab ps' X Y R m :=
  fun s hI hT hps => h s hI hT (fun p hp' => hps p (hp p hp'))

theorem mono_R {α} {ps : List Nat} {X Y : Mode} {R R' : α → List Nat} {m : CM α}
    (h : Tr lab ps X Y R m) (hr : ∀ a, ∀ p ∈ R' a, p ∈ R a) : Tr lab ps X Y R' m :=
  fun s hI hT hps => (h s hI hT hps).mono fun a _ ⟨h1, h2, h3, h4⟩ => ⟨h1, h2, h3, fun p hp => h4 p (hr a p hp)⟩

/-- the result offsets are not needed -/
theorem drop_R {α} {ps : List Nat} {X Y : Mode} {R : α → List Nat} {m : CM α}
    (h : Tr lab ps X Y R m) : Tr lab ps X Y R0 m := h.mono_R fun _ _ hp => by simp at hp

/-- any `ps` will do when none is needed -/
theorem nil_ps {α} {ps : List Nat} {X Y : Mode} {R : α → List Nat} {m : CM α}
    (h : Tr lab [] X Y R m) : Tr lab ps X Y R m := h.mono_ps fun _ hp => by simp at hp

theorem ite {α} {ps : List Nat} {X Y : Mode} {R : α → List Nat} {c : Prop} [Decidable c] {a b : CM α}
    (ha : Tr lab ps X Y R a) (hb : Tr lab ps X Y R b) : Tr lab ps X Y R (if c then a else b) := by
  split <;> assumption

end Tr

/-! ### the primitives -/

/-- the state after a successful `emit` -/
theorem post_emit (pos : Pos) (op : Nat) (args : List Int) (s : CState) :
    Post (emit pos op args) s fun p s' => p = s.insts.size ∧ op < numOpcodes ∧ ∃ rest, rest.length = opWidth op ∧
      s' = { s with insts := s.insts ++ (UInt8.ofNat op :: rest).toArray,
                    sourceMap := setSourceMap s.sourceMap s.insts.size pos } := by
  intro p s' hr
  unfold emit at hr
  split at hr
  · rw [show (cpanic _ : CM Nat) = throw _ from rfl, runCM_throw] at hr; cases hr
  · rename_i hop
    split at hr
    · split at hr <;> (rw [runCM_throw] at hr; cases hr)
    · rename_i bs hbs
      obtain ⟨rest, rfl, hl⟩ := makeInstruction_ok hbs
      simp only [runCM_bind, runCM_get, runCM_set, runCM_pure] at hr
      cases hr
      exact ⟨rfl, by omega, rest, hl, rfl⟩

theorem sinv_emit {s : CState} (hI : SInv lab s) {op pos : Nat} {rest : List UInt8} (hop : op < numOpcodes)
    (hl : rest.length = opWidth op) :
    setSourceMap s.sourceMap s.insts.size pos = s.sourceMap ++ [(s.insts.size, pos)] ∧
    SInv lab { s with insts := s.insts ++ (UInt8.ofNat op :: rest).toArray,
                      sourceMap := s.sourceMap ++ [(s.insts.size, pos)] } := by
  have hfresh : s.insts.size ∉ keys s.sourceMap := fun h => Nat.lt_irrefl _ (hI.chain.lt _ h)
  refine ⟨setSourceMap_fresh _ _ _ hfresh, ?_, ?_, hI.consts⟩
  · show Chain _ (keys (s.sourceMap ++ [(s.insts.size, pos)])) 0
    rw [keys_append]
    exact hI.chain.append_inst hop hl
  · intro l hl' p hp
    show p ∈ keys (s.sourceMap ++ [(s.insts.size, pos)])
    rw [keys_append]
    exact List.mem_append_left _ (hI.loops l hl' p hp)

/-- `emit` in general: from mode `X` to mode `Y` whenever `Tm.emit` allows it -/
theorem tr_emit_gen {ps : List Nat} {X Y : Mode} (pos : Pos) (op : Nat) (args : List Int)
    (hXY : ∀ (a : Array UInt8) (m : List (Nat × Nat)) (rest : List UInt8), op < numOpcodes → (∀ k ∈ keys m, k < a.size) →
      Tm lab X a m → Tm lab Y (a ++ (UInt8.ofNat op :: rest).toArray) (m ++ [(a.size, pos)])) :
    Tr lab ps X Y (fun p => [p]) (emit pos op args) := by
  intro s hI hT hps
  refine (post_emit pos op args s).mono ?_
  rintro p s' ⟨rfl, hop, rest, hl, rfl⟩
  obtain ⟨hsm, hI'⟩ := sinv_emit (pos := pos) hI hop hl
  simp only [hsm]
  refine ⟨hI', hXY _ _ rest hop hI.chain.lt hT, ?_, ?_⟩
  · intro p hp; rw [keys_append]; exact List.mem_append_left _ hp
  · intro p hp
    simp only [List.mem_singleton] at hp
    subst hp; simp

theorem tr_emit_pend {ps : List Nat} {l : Nat} (pos : Pos) (op : Nat) (args : List Int) (hl : lab pos = l) :
    Tr lab ps (.pend l) (.pend l) (fun p => [p]) (emit pos op args) :=
  tr_emit_gen pos op args fun _ _ _ hop hlt hT => (Tm.emit hop hlt).1 l hT hl

theorem tr_emit_pc {ps : List Nat} {l : Nat} (pos : Pos) (op : Nat) (args : List Int) (hl : lab pos = l)
    (hnc : isCallOp op = false) : Tr lab ps (.pend l) .clean (fun p => [p]) (emit pos op args) :=
  tr_emit_gen pos op args fun _ _ _ hop hlt hT => (Tm.emit hop hlt).2.1 l hT hl hnc

theorem tr_emit_cc {ps : List Nat} (pos : Pos) (op : Nat) (args : List Int)
    (hnc : isCallOp op = false) : Tr lab ps .clean .clean (fun p => [p]) (emit pos op args) :=
  tr_emit_gen pos op args fun _ _ _ hop hlt hT => (Tm.emit hop hlt).2.2 hT hnc

theorem tr_emit__of {ps : List Nat} {X Y : Mode} {pos : Pos} {op : Nat} {args : List Int}
    (h : Tr lab ps X Y (fun p => [p]) (emit pos op args)) : Tr lab ps X Y R0 (emit_ pos op args) := by
  unfold emit_
  exact Tr.bind h fun _ => Tr.pure ()

theorem tr_emit__pend {ps : List Nat} {l : Nat} (pos : Pos) (op : Nat) (args : List Int) (hl : lab pos = l) :
    Tr lab ps (.pend l) (.pend l) R0 (emit_ pos op args) := tr_emit__of (tr_emit_pend pos op args hl)
theorem tr_emit__pc {ps : List Nat} {l : Nat} (pos : Pos) (op : Nat) (args : List Int) (hl : lab pos = l)
    (hnc : isCallOp op = false) : Tr lab ps (.pend l) .clean R0 (emit_ pos op args) := tr_emit__of (tr_emit_pc pos op args hl hnc)
theorem tr_emit__cc {ps : List Nat} (pos : Pos) (op : Nat) (args : List Int)
    (hnc : isCallOp op = false) : Tr lab ps .clean .clean R0 (emit_ pos op args) := tr_emit__of (tr_emit_cc pos op args hnc)

theorem u8_ofNat_toNat (b : UInt8) : UInt8.ofNat b.toNat = b := by
  cases b; simp [UInt8.ofNat, UInt8.toNat]

/-- `changeOperand` at a recorded offset -/
theorem tr_changeOperand {ps : List Nat} {X : Mode} (p : Nat) (args : List Int) (hp : p ∈ ps) :
    Tr lab ps X X R0 (changeOperand p args) := by
  intro s hI hT hps u s' hr
  unfold changeOperand at hr
  simp only [runCM_bind, runCM_get] at hr
  split at hr
  · rw [show (cpanic _ : CM Unit) = MonadExcept.throw _ from rfl, runCM_throw] at hr; cases hr
  · rename_i opb hopb
    split at hr
    · rw [show (cpanic _ : CM Unit) = MonadExcept.throw _ from rfl, runCM_throw] at hr; cases hr
    · split at hr
      · rw [runCM_throw] at hr; cases hr
      · rename_i bs hbs
        obtain ⟨rest, rfl, hl⟩ := makeInstruction_ok hbs
        rw [runCM_set] at hr
        cases hr
        rw [u8_ofNat_toNat]
        have hpk := hps p hp
        have hget := hI.chain.get_patch hopb hl (.inl hpk)
        have hcall : ∀ k ∈ keys s.sourceMap, isCallAt (patch s.insts p (opb :: rest)) k = isCallAt s.insts k := by
          intro k hk; simp only [isCallAt, hget k hk]
        refine ⟨⟨hI.chain.patch_inst hopb hl hpk, hI.loops, hI.consts⟩, hT.congr hcall, fun _ h => h, fun _ h => by simp at h⟩

theorem tr_curPos {ps : List Nat} {X : Mode} : Tr lab ps X X R0 curPos := by
  unfold curPos
  exact Tr.get_bind fun _ => Tr.pure _

theorem tr_addConstant {ps : List Nat} {X : Mode} (k : CVal) : Tr lab ps X X R0 (addConstant k) := by
  intro s hI hT hps i s' hr
  unfold addConstant at hr
  simp only [runCM_bind, runCM_get] at hr
  split at hr
  · rw [runCM_pure] at hr; cases hr
    exact ⟨hI, hT, fun _ h => h, fun _ h => by simp at h⟩
  · simp only [runCM_bind, runCM_set, runCM_pure] at hr
    cases hr
    refine ⟨⟨hI.chain, hI.loops, ?_⟩, hT, fun _ h => h, fun _ h => by simp at h⟩
    intro f hf
    simp at hf
    exact hI.consts f (by simpa using hf)

theorem tr_addFnConstant {ps : List Nat} {X : Mode} (f : CFn) (hf : FnSM lab f) : Tr lab ps X X R0 (addFnConstant f) := by
  intro s hI hT hps i s' hr
  unfold addFnConstant at hr
  simp only [runCM_bind, runCM_get] at hr
  split at hr
  · rw [runCM_pure] at hr; cases hr
    exact ⟨hI, hT, fun _ h => h, fun _ h => by simp at h⟩
  · simp only [runCM_bind, runCM_set, runCM_pure] at hr
    cases hr
    refine ⟨⟨hI.chain, hI.loops, ?_⟩, hT, fun _ h => h, fun _ h => by simp at h⟩
    intro g hg
    simp at hg
    rcases hg with hg | hg
    · exact hI.consts g (by simpa using hg)
    · subst hg; exact hf

theorem tr_resolve {ps : List Nat} {X : Mode} (name : String) : Tr lab ps X X R0 (resolve name) := by
  intro s hI hT hps r s' hr
  unfold resolve at hr
  simp only [runCM_bind, runCM_get, runCM_set, runCM_pure] at hr
  cases hr
  exact ⟨⟨hI.chain, hI.loops, hI.consts⟩, hT, fun _ h => h, fun _ h => by simp at h⟩

theorem tr_pushLoop {ps : List Nat} {X : Mode} : Tr lab ps X X R0 pushLoop := by
  intro s hI hT hps
  unfold pushLoop
  apply Post.modify
  refine ⟨⟨hI.chain, ?_, hI.consts⟩, hT, fun _ h => h, fun _ h => by simp at h⟩
  intro l hl p hp
  rcases List.mem_cons.mp hl with rfl | hl
  · simp at hp
  · exact hI.loops l hl p hp

theorem tr_popLoop {ps : List Nat} {X : Mode} : Tr lab ps X X (fun l => l.breaks ++ l.continues) popLoop := by
  intro s hI hT hps l s' hr
  unfold popLoop at hr
  simp only [runCM_bind, runCM_get, runCM_set, runCM_pure] at hr
  cases hr
  refine ⟨⟨hI.chain, fun l hl => hI.loops l (List.mem_of_mem_drop hl), hI.consts⟩, hT, fun _ h => h, ?_⟩
  intro p hp
  cases hs : s.loops with
  | nil => simp [hs] at hp
  | cons l0 r =>
    simp only [hs, List.head?_cons, Option.getD_some, List.mem_append] at hp
    exact hI.loops l0 (by simp [hs]) p hp

/-- `modLoop` adding recorded offsets only -/
theorem tr_modLoop {ps : List Nat} {X : Mode} (f : Loop → Loop)
    (hf : ∀ l p, (p ∈ (f l).breaks ∨ p ∈ (f l).continues) → (p ∈ l.breaks ∨ p ∈ l.continues) ∨ p ∈ ps) :
    Tr lab ps X X R0 (modLoop f) := by
  intro s hI hT hps
  unfold modLoop
  apply Post.modify
  refine ⟨⟨hI.chain, ?_, hI.consts⟩, hT, fun _ h => h, fun _ h => by simp at h⟩
  intro l hl p hp
  show p ∈ keys s.sourceMap
  cases hs : s.loops with
  | nil => simp [hs] at hl
  | cons l0 r =>
    simp only [hs] at hl
    rcases List.mem_cons.mp hl with rfl | hl
    · rcases hf l0 p hp with h | h
      · exact hI.loops l0 (by simp [hs]) p h
      · exact hps p h
    · exact hI.loops l (by simp [hs, hl]) p hp

theorem tr_currentLoop {ps : List Nat} {X : Mode} : Tr lab ps X X R0 currentLoop := by
  unfold currentLoop
  exact Tr.get_bind fun _ => Tr.pure _

theorem tr_patchAll {ps : List Nat} {X : Mode} (target : Nat) : ∀ (l : List Nat), (∀ p ∈ l, p ∈ ps) →
    Tr lab ps X X R0 (patchAll target l)
  | [], _ => by unfold patchAll; exact Tr.pure ()
  | p :: r, h => by
    unfold patchAll
    exact Tr.bind (tr_changeOperand p _ (h p (by simp)))
      fun _ => (tr_patchAll target r (fun q hq => h q (by simp [hq]))).mono_ps (fun q hq => by simp [hq])

/-- returning offsets that are known -/
theorem Tr.pure_R {α} {ps : List Nat} {X : Mode} {R : α → List Nat} (a : α) (h : ∀ p ∈ R a, p ∈ ps) :
    Tr lab ps X X R (Pure.pure a : CM α) :=
  fun _ hI hT hps => Post.pure ⟨hI, hT, fun _ h => h, fun p hp => hps p (h p hp)⟩

theorem Tr.intro' {α} {ps : List Nat} {X Y : Mode} {R : α → List Nat} {m : CM α}
    (h : ∀ s, SInv lab s → Tm lab X s.insts s.sourceMap → (∀ p ∈ ps, p ∈ keys s.sourceMap) →
      Post m s fun a s' => SInv lab s' ∧ Tm lab Y s'.insts s'.sourceMap ∧
        (∀ p ∈ keys s.sourceMap, p ∈ keys s'.sourceMap) ∧ (∀ p ∈ R a, p ∈ keys s'.sourceMap)) : Tr lab ps X Y R m := h

theorem Tr.elim {α} {ps : List Nat} {X Y : Mode} {R : α → List Nat} {m : CM α} (h : Tr lab ps X Y R m) :
    ∀ s, SInv lab s → Tm lab X s.insts s.sourceMap → (∀ p ∈ ps, p ∈ keys s.sourceMap) →
      Post m s fun a s' => SInv lab s' ∧ Tm lab Y s'.insts s'.sourceMap ∧
        (∀ p ∈ keys s.sourceMap, p ∈ keys s'.sourceMap) ∧ (∀ p ∈ R a, p ∈ keys s'.sourceMap) := h

attribute [irreducible] Tr

end UgoVerif.Compile
