import UgoVerif.Proofs.VMExec
/-
  C02, compile ⊑ Sem, first slice — the VM side: exact execution equations for the opcodes
  the fragment's code uses (`exec (step F) s = (.ok .next, s')` with `s'` described field by
  field), the "heap only grows" calculus for the object-layer operations the reference
  semantics shares with the VM, and the multi-step relation `Reach` on `loopF`.
-/
set_option linter.unusedSimpArgs false
set_option linter.unusedVariables false
namespace UgoVerif.CompSim
open UgoVerif UgoVerif.Go UgoVerif.VM UgoVerif.Proofs.ModCache UgoVerif.Proofs.VMExec

/-! ### arrays -/

theorem set!_size {α} (a : Array α) (i : Nat) (v : α) : (a.set! i v).size = a.size := by
  simp [Array.set!]

theorem set!_get_ne {α} [Inhabited α] (a : Array α) (i j : Nat) (v : α) (h : i ≠ j) : (a.set! i v)[j]! = a[j]! := by
  simp [Array.set!, Array.getElem!_eq_getD, Array.getD, Array.getElem_setIfInBounds, h]
  split <;> simp_all

theorem set!_get_eq {α} [Inhabited α] (a : Array α) (i : Nat) (v : α) (h : i < a.size) : (a.set! i v)[i]! = v := by
  simp [Array.set!, Array.getElem!_eq_getD, Array.getD, h]

/-- `b` has the size of `a` and agrees with it below `n` -/
def AgreeBelow (n : Nat) (a b : Array V) : Prop := b.size = a.size ∧ ∀ j, j < n → b[j]! = a[j]!

theorem AgreeBelow.refl (n : Nat) (a : Array V) : AgreeBelow n a a := ⟨rfl, fun _ _ => rfl⟩
theorem AgreeBelow.trans {n : Nat} {a b c : Array V} (h1 : AgreeBelow n a b) (h2 : AgreeBelow n b c) : AgreeBelow n a c :=
  ⟨h2.1.trans h1.1, fun j hj => (h2.2 j hj).trans (h1.2 j hj)⟩
theorem AgreeBelow.mono {n m : Nat} {a b : Array V} (h : AgreeBelow n a b) (hm : m ≤ n) : AgreeBelow m a b :=
  ⟨h.1, fun j hj => h.2 j (by omega)⟩
theorem AgreeBelow.set {n : Nat} {a b : Array V} (h : AgreeBelow n a b) (i : Nat) (v : V) (hi : n ≤ i) :
    AgreeBelow n a (b.set! i v) :=
  ⟨by rw [set!_size]; exact h.1, fun j hj => by rw [set!_get_ne _ _ _ _ (by omega)]; exact h.2 j hj⟩

/-! ### the control part of the state -/

/-- everything an expression of the fragment leaves alone (all fields except
    `stack`, `sp`, `ip`, `heap`, `steps`, `trace`) -/
structure Same (s s' : State) : Prop where
  frames : s'.frames = s.frames
  curFrame : s'.curFrame = s.curFrame
  frameIndex : s'.frameIndex = s.frameIndex
  codes : s'.codes = s.codes
  consts : s'.consts = s.consts
  mainFn : s'.mainFn = s.mainFn
  numModules : s'.numModules = s.numModules
  globals : s'.globals = s.globals
  modules : s'.modules = s.modules
  err : s'.err = s.err
  abort : s'.abort = s.abort
  traceOn : s'.traceOn = s.traceOn
  noPanic : s'.noPanic = s.noPanic

theorem Same.refl (s : State) : Same s s := ⟨rfl, rfl, rfl, rfl, rfl, rfl, rfl, rfl, rfl, rfl, rfl, rfl, rfl⟩
theorem Same.trans {a b c : State} (h1 : Same a b) (h2 : Same b c) : Same a c :=
  ⟨h2.frames.trans h1.frames, h2.curFrame.trans h1.curFrame, h2.frameIndex.trans h1.frameIndex,
   h2.codes.trans h1.codes, h2.consts.trans h1.consts, h2.mainFn.trans h1.mainFn,
   h2.numModules.trans h1.numModules, h2.globals.trans h1.globals, h2.modules.trans h1.modules,
   h2.err.trans h1.err, h2.abort.trans h1.abort, h2.traceOn.trans h1.traceOn, h2.noPanic.trans h1.noPanic⟩

/-! ### the heap only grows -/

/-- `s'` is `s` with a heap that keeps every cell of `s.heap` -/
structure Grow (s s' : State) : Prop where
  eq : s' = { s with heap := s'.heap }
  keep : ∀ (a : Nat) (c : Cell), s.heap[a]? = some c → s'.heap[a]? = some c

theorem Grow.refl (s : State) : Grow s s := ⟨rfl, fun _ _ h => h⟩
theorem Grow.trans {a b c : State} (h1 : Grow a b) (h2 : Grow b c) : Grow a c :=
  ⟨by have e2 := h2.eq; rw [h1.eq] at e2; exact e2, fun x y h => h2.keep x y (h1.keep x y h)⟩

theorem Grow.same {s s' : State} (h : Grow s s') : Same s s' := by
  rw [h.eq]; exact ⟨rfl, rfl, rfl, rfl, rfl, rfl, rfl, rfl, rfl, rfl, rfl, rfl, rfl⟩
theorem Grow.stack {s s' : State} (h : Grow s s') : s'.stack = s.stack := by rw [h.eq]
theorem Grow.sp {s s' : State} (h : Grow s s') : s'.sp = s.sp := by rw [h.eq]
theorem Grow.ip {s s' : State} (h : Grow s s') : s'.ip = s.ip := by rw [h.eq]
theorem Grow.steps {s s' : State} (h : Grow s s') : s'.steps = s.steps := by rw [h.eq]
theorem Grow.trace {s s' : State} (h : Grow s s') : s'.trace = s.trace := by rw [h.eq]

/-- `m` changes nothing but the heap, and the heap only by appending (on every path) -/
structure Grows {α} (m : M α) : Prop where
  h : ∀ s, Grow s (exec m s).2

theorem grows_pure {α} (a : α) : Grows (pure a : M α) := ⟨fun s => Grow.refl s⟩
theorem grows_throw {α} (e : Exc) : Grows (throw e : M α) := ⟨fun s => Grow.refl s⟩
theorem grows_panic {α} (msg : String) : Grows (VM.panic msg : M α) := ⟨fun s => Grow.refl s⟩
theorem grows_unsupported {α} (msg : String) : Grows (VM.unsupported msg : M α) := ⟨fun s => Grow.refl s⟩
theorem grows_getS : Grows getS := ⟨fun s => Grow.refl s⟩
theorem grows_get : Grows (get : M State) := ⟨fun s => Grow.refl s⟩

theorem grows_bind {α β} {m : M α} {f : α → M β} (hm : Grows m) (hf : ∀ a, Grows (f a)) : Grows (m >>= f) := by
  constructor
  intro s
  rw [exec_bind]
  have := hm.h s
  cases h : exec m s with
  | mk r s' =>
    rw [h] at this
    cases r with
    | ok a => exact this.trans ((hf a).h s')
    | error e => exact this

theorem grows_ite {α} (c : Prop) [Decidable c] {a b : M α} (ha : Grows a) (hb : Grows b) : Grows (if c then a else b) := by
  split <;> assumption

theorem grows_alloc (c : Cell) : Grows (alloc c) := by
  constructor
  intro s
  rw [exec_alloc]
  refine ⟨rfl, fun a x h => ?_⟩
  simp only
  have hlt : a < s.heap.size := by
    rcases Nat.lt_or_ge a s.heap.size with h' | h'
    · exact h'
    · simp [Array.getElem?_eq_none h'] at h
  rw [Array.getElem?_push_lt hlt]
  simpa [Array.getElem?_eq_getElem hlt] using h

syntax "grows_prim" : tactic
macro_rules | `(tactic| grows_prim) => `(tactic| exact grows_pure _)
macro_rules | `(tactic| grows_prim) => `(tactic| exact grows_panic _)
macro_rules | `(tactic| grows_prim) => `(tactic| exact grows_unsupported _)
macro_rules | `(tactic| grows_prim) => `(tactic| exact grows_throw _)
macro_rules | `(tactic| grows_prim) => `(tactic| exact grows_getS)
macro_rules | `(tactic| grows_prim) => `(tactic| exact grows_get)
macro_rules | `(tactic| grows_prim) => `(tactic| exact grows_alloc _)

macro "grows_step" : tactic => `(tactic| first
  | with_reducible grows_prim
  | (apply grows_bind)
  | (intro _)
  | (apply grows_ite)
  | (split)
  | (dsimp only))

macro "grows" : tactic => `(tactic| repeat' grows_step)

theorem grows_heapGet (a : Addr) : Grows (heapGet a) := by unfold heapGet; grows
macro_rules | `(tactic| grows_prim) => `(tactic| exact grows_heapGet _)
theorem grows_arrElems (a : Addr) (off len : Nat) : Grows (arrElems a off len) := by unfold arrElems; grows
macro_rules | `(tactic| grows_prim) => `(tactic| exact grows_arrElems _ _ _)
theorem grows_mapEntries (a : Addr) : Grows (mapEntries a) := by unfold mapEntries; grows
macro_rules | `(tactic| grows_prim) => `(tactic| exact grows_mapEntries _)
theorem grows_vString (v : V) : Grows (vString v) := by unfold vString; grows
macro_rules | `(tactic| grows_prim) => `(tactic| exact grows_vString _)
theorem grows_isFalsy (v : V) : Grows (isFalsy v) := by unfold isFalsy; grows
macro_rules | `(tactic| grows_prim) => `(tactic| exact grows_isFalsy _)
theorem grows_vEqual (F : FloatOps) (l r : V) : Grows (vEqual F l r) := by unfold vEqual; grows
theorem grows_vBinaryOp (F : FloatOps) (tok : Tok) (l r : V) : Grows (vBinaryOp F tok l r) := by unfold vBinaryOp; grows
theorem grows_vUnary (F : FloatOps) (tok : Tok) (r : V) : Grows (vUnary F tok r) := by unfold vUnary; grows
theorem grows_mkErr (n m : String) : Grows (mkErr n m) := by unfold mkErr; grows
macro_rules | `(tactic| grows_prim) => `(tactic| exact grows_mkErr _ _)
theorem grows_rtErrOfOpErr (e : OpErr) : Grows (rtErrOfOpErr e) := by unfold rtErrOfOpErr; grows

/-! ### the code of the current frame -/

/-- the current frame runs `code` -/
def CodeAt (s : State) (code : Code) : Prop :=
  ∃ fa c fr, (s.frames[s.curFrame]!).fn = some fa ∧ s.heap[fa]? = some (.fn c fr) ∧ s.codes[c]! = code

theorem CodeAt.of_grow {s s' : State} {code : Code} (h : CodeAt s code) (g : Grow s s') : CodeAt s' code := by
  obtain ⟨fa, c, fr, h1, h2, h3⟩ := h
  have hs := g.same
  exact ⟨fa, c, fr, by rw [hs.frames, hs.curFrame]; exact h1, g.keep _ _ h2, by rw [hs.codes]; exact h3⟩

theorem CodeAt.of_same {s s' : State} {code : Code} (h : CodeAt s code) (hs : Same s s') (hh : s'.heap = s.heap) :
    CodeAt s' code := by
  obtain ⟨fa, c, fr, h1, h2, h3⟩ := h
  exact ⟨fa, c, fr, by rw [hs.frames, hs.curFrame]; exact h1, by rw [hh]; exact h2, by rw [hs.codes]; exact h3⟩

theorem exec_heapGet_some (a : Addr) (s : State) (c : Cell) (h : s.heap[a]? = some c) :
    exec (heapGet a) s = (.ok c, s) := by
  unfold heapGet
  simp only [exec_bind, exec_getS, h, exec_pure]

theorem exec_curCode {s : State} {code : Code} (h : CodeAt s code) : exec curCode s = (.ok code, s) := by
  obtain ⟨fa, c, fr, h1, h2, h3⟩ := h
  unfold curCode
  simp only [exec_bind, exec_curFrame, h1, exec_heapGet_some _ _ _ h2, exec_getS, exec_pure, h3]

theorem exec_instAt {s : State} {code : Code} (h : CodeAt s code) (i : Int) (n : Nat) (b : UInt8)
    (hi : i = (n : Int)) (hb : code.insts[n]? = some b) : exec (instAt i) s = (.ok b.toNat, s) := by
  have hlt : n < code.insts.size := by
    rcases Nat.lt_or_ge n code.insts.size with h' | h'
    · exact h'
    · simp [Array.getElem?_eq_none h'] at hb
  unfold instAt
  simp only [exec_bind, exec_curCode h]
  have : ¬ ((decide (i < 0) || decide (i ≥ (code.insts.size : Int))) = true) := by
    simp; omega
  rw [if_neg this]
  subst hi
  simp only [exec_pure, Int.toNat_natCast]
  have : code.insts[n]! = b := by
    simp [Array.getElem!_eq_getD, Array.getD, hlt]
    simpa [Array.getElem?_eq_getElem hlt] using hb
  rw [this]

/-! ### `noteTrace` and the instruction fetch -/

/-- the state after `bumpIp 1; noteTrace op` -/
def tick (s : State) (op : Nat) : State :=
  (exec (noteTrace op) { s with ip := s.ip + 1 }).2

theorem exec_noteTrace (op : Nat) (s : State) : exec (noteTrace op) s = (.ok (), (exec (noteTrace op) s).2) := by
  unfold noteTrace
  simp only [exec_bind, exec_getS]
  split <;> rfl

theorem tick_fields (s : State) (op : Nat) :
    (tick s op).stack = s.stack ∧ (tick s op).sp = s.sp ∧ (tick s op).ip = s.ip + 1 ∧ (tick s op).heap = s.heap ∧
    Same s (tick s op) := by
  unfold tick noteTrace
  simp only [exec_bind, exec_getS]
  split <;> exact ⟨rfl, rfl, rfl, rfl, ⟨rfl, rfl, rfl, rfl, rfl, rfl, rfl, rfl, rfl, rfl, rfl, rfl, rfl⟩⟩

theorem tick_stack (s : State) (op : Nat) : (tick s op).stack = s.stack := (tick_fields s op).1
theorem tick_sp (s : State) (op : Nat) : (tick s op).sp = s.sp := (tick_fields s op).2.1
theorem tick_ip (s : State) (op : Nat) : (tick s op).ip = s.ip + 1 := (tick_fields s op).2.2.1
theorem tick_heap (s : State) (op : Nat) : (tick s op).heap = s.heap := (tick_fields s op).2.2.2.1
theorem tick_same (s : State) (op : Nat) : Same s (tick s op) := (tick_fields s op).2.2.2.2

theorem CodeAt.tick {s : State} {code : Code} (h : CodeAt s code) (op : Nat) : CodeAt (tick s op) code :=
  h.of_same (tick_same s op) (tick_heap s op)

/-- fetch: `step` is the dispatch of the opcode byte at `ip + 1`, run on the ticked state -/
theorem exec_step_fetch (F : FloatOps) {s : State} {code : Code} (h : CodeAt s code) (p : Nat) (b : UInt8)
    (hip : s.ip + 1 = (p : Int)) (hb : code.insts[p]? = some b) :
    step F = (do bumpIp 1; let op ← instAt (← getIp); noteTrace op; dispatch F op) ∧
    ∀ {β} (g : Ctl → M β), exec (step F >>= g) s = exec (dispatch F b.toNat >>= g) (tick s b.toNat) := by
  refine ⟨rfl, ?_⟩
  intro β g
  unfold step
  simp only [bind_assoc, exec_bind, exec_bumpIp, exec_getIp]
  have hc : CodeAt { s with ip := s.ip + 1 } code := h.of_same ⟨rfl, rfl, rfl, rfl, rfl, rfl, rfl, rfl, rfl, rfl, rfl, rfl, rfl⟩ rfl
  rw [exec_instAt hc (s.ip + 1) p b hip hb]
  simp only
  rw [exec_noteTrace]
  rfl


theorem exec_step_fetch' (F : FloatOps) {s : State} {code : Code} (h : CodeAt s code) (p : Nat) (b : UInt8)
    (hip : s.ip + 1 = (p : Int)) (hb : code.insts[p]? = some b) :
    exec (step F) s = exec (dispatch F b.toNat) (tick s b.toNat) := by
  have := (exec_step_fetch F h p b hip hb).2 (g := pure)
  simpa only [bind_pure] using this

/-! ### operands -/

theorem exec_opnd1 {s : State} {code : Code} (hc : CodeAt s code) (p : Nat) (hip : s.ip = (p : Int)) (b : UInt8)
    (hb : code.insts[p + 1]? = some b) : exec (opnd1 1) s = (.ok b.toNat, s) := by
  unfold opnd1
  simp only [exec_bind, exec_getIp]
  exact exec_instAt hc _ (p + 1) b (by rw [hip]; push_cast; rfl) hb

theorem exec_opnd2 {s : State} {code : Code} (hc : CodeAt s code) (p : Nat) (hip : s.ip = (p : Int)) (b1 b2 : UInt8)
    (h1 : code.insts[p + 1]? = some b1) (h2 : code.insts[p + 2]? = some b2) :
    exec (opnd2 1) s = (.ok (b2.toNat ||| (b1.toNat <<< 8)), s) := by
  unfold opnd2
  simp only [exec_bind, exec_getIp]
  rw [exec_instAt hc _ (p + 2) b2 (by rw [hip]; push_cast; omega) h2]
  simp only
  rw [exec_instAt hc _ (p + 1) b1 (by rw [hip]; push_cast; rfl) h1]
  simp only [exec_pure]

theorem exec_jumpTarget {s : State} {code : Code} (hc : CodeAt s code) (p : Nat) (hip : s.ip = (p : Int))
    (b1 b2 b3 b4 : UInt8) (h1 : code.insts[p + 1]? = some b1) (h2 : code.insts[p + 2]? = some b2)
    (h3 : code.insts[p + 3]? = some b3) (h4 : code.insts[p + 4]? = some b4) :
    exec jumpTarget s = (.ok ((b4.toNat ||| (b3.toNat <<< 8) ||| (b2.toNat <<< 16) ||| (b1.toNat <<< 24) : Nat) : Int), s) := by
  unfold jumpTarget opnd4
  simp only [exec_bind, exec_getIp]
  rw [exec_instAt hc _ (p + 4) b4 (by rw [hip]; push_cast; omega) h4]
  simp only
  rw [exec_instAt hc _ (p + 3) b3 (by rw [hip]; push_cast; omega) h3]
  simp only
  rw [exec_instAt hc _ (p + 2) b2 (by rw [hip]; push_cast; omega) h2]
  simp only
  rw [exec_instAt hc _ (p + 1) b1 (by rw [hip]; push_cast; rfl) h1]
  simp only [exec_pure]

theorem exec_constAt (i : Nat) (s : State) (v : V) (h : s.consts[i]? = some v) : exec (constAt i) s = (.ok v, s) := by
  unfold constAt
  simp only [exec_bind, exec_getS, h, exec_pure]

theorem stackSize_eq : ((stackSize : Nat) : Int) = 2048 := rfl

theorem exec_stackGet' (i : Int) (s : State) (h : 0 ≤ i ∧ i < 2048) :
    exec (stackGet i) s = (.ok (s.stack[i.toNat]!), s) := exec_stackGet i s (by rw [stackSize_eq]; exact h)
theorem exec_stackSet' (i : Int) (v : V) (s : State) (h : 0 ≤ i ∧ i < 2048) :
    exec (stackSet i v) s = (.ok (), { s with stack := s.stack.set! i.toNat v }) := exec_stackSet i v s (by rw [stackSize_eq]; exact h)
theorem exec_pushV' (v : V) (s : State) (h : 0 ≤ s.sp ∧ s.sp < 2048) :
    exec (pushV v) s = (.ok (), { s with stack := s.stack.set! s.sp.toNat v, sp := s.sp + 1 }) :=
  exec_pushV v s (by rw [stackSize_eq]; exact h)

/-! ### one instruction -/

/-- instructions that push one value and have no operand: NULL, TRUE, FALSE -/
theorem step_push0 (F : FloatOps) {s : State} {code : Code} (hc : CodeAt s code) (p : Nat) (hip : s.ip + 1 = (p : Int))
    (b0 : UInt8) (h0 : code.insts[p]? = some b0) (v : V)
    (hop : (b0.toNat = 21 ∧ v = .undefined) ∨ (b0.toNat = 41 ∧ v = .bool true) ∨ (b0.toNat = 42 ∧ v = .bool false))
    (hsp : 0 ≤ s.sp ∧ s.sp < 2048) :
    ∃ s', exec (step F) s = (.ok .next, s') ∧ Same s s' ∧ s'.heap = s.heap ∧ s'.ip = (p : Int) ∧ s'.sp = s.sp + 1 ∧
      s'.stack = s.stack.set! s.sp.toNat v := by
  rw [exec_step_fetch' F hc p b0 hip h0]
  have hd : dispatch F b0.toNat = pushV v >>= fun _ => pure Ctl.next := by
    rcases hop with ⟨h, rfl⟩ | ⟨h, rfl⟩ | ⟨h, rfl⟩ <;> rw [h] <;> rfl
  rw [hd]
  simp only [exec_bind]
  rw [exec_pushV' _ _ (by rw [tick_sp]; exact hsp)]
  refine ⟨_, rfl, (tick_same s _).trans ⟨rfl, rfl, rfl, rfl, rfl, rfl, rfl, rfl, rfl, rfl, rfl, rfl, rfl⟩, ?_, ?_, ?_, ?_⟩
  · exact tick_heap s _
  · show (tick s _).ip = _; rw [tick_ip]; exact hip
  · show (tick s _).sp + 1 = _; rw [tick_sp]
  · show (tick s _).stack.set! (tick s _).sp.toNat v = _; rw [tick_sp, tick_stack]

theorem step_const (F : FloatOps) {s : State} {code : Code} (hc : CodeAt s code) (p : Nat) (hip : s.ip + 1 = (p : Int))
    (b0 b1 b2 : UInt8) (h0 : code.insts[p]? = some b0) (hb0 : b0.toNat = 1)
    (h1 : code.insts[p + 1]? = some b1) (h2 : code.insts[p + 2]? = some b2)
    (v : V) (hk : s.consts[b2.toNat ||| (b1.toNat <<< 8)]? = some v) (hsp : 0 ≤ s.sp ∧ s.sp < 2048) :
    ∃ s', exec (step F) s = (.ok .next, s') ∧ Same s s' ∧ s'.heap = s.heap ∧ s'.ip = (p : Int) + 2 ∧ s'.sp = s.sp + 1 ∧
      s'.stack = s.stack.set! s.sp.toNat v := by
  rw [exec_step_fetch' F hc p b0 hip h0, hb0]
  have hd : dispatch F 1 = execConstant := rfl
  rw [hd]; unfold execConstant
  have hipt : (tick s 1).ip = (p : Int) := by rw [tick_ip]; exact hip
  simp only [exec_bind, exec_opnd2 (hc.tick 1) p hipt b1 b2 h1 h2]
  rw [exec_constAt _ _ v (by rw [(tick_same s 1).consts]; exact hk)]
  simp only
  rw [exec_pushV' _ _ (by rw [tick_sp]; exact hsp)]
  simp only [exec_bumpIp, exec_pure]
  refine ⟨_, rfl, (tick_same s _).trans ⟨rfl, rfl, rfl, rfl, rfl, rfl, rfl, rfl, rfl, rfl, rfl, rfl, rfl⟩, ?_, ?_, ?_, ?_⟩
  · exact tick_heap s _
  · show (tick s _).ip + 2 = _; rw [hipt]
  · show (tick s _).sp + 1 = _; rw [tick_sp]
  · show (tick s _).stack.set! (tick s _).sp.toNat v = _; rw [tick_sp, tick_stack]

/-- GETLOCAL of a slot that does not hold a box -/
theorem step_getLocal (F : FloatOps) {s : State} {code : Code} (hc : CodeAt s code) (p : Nat) (hip : s.ip + 1 = (p : Int))
    (b0 b1 : UInt8) (h0 : code.insts[p]? = some b0) (hb0 : b0.toNat = 5) (h1 : code.insts[p + 1]? = some b1)
    (bp : Nat) (hbp : (s.frames[s.curFrame]!).bp = (bp : Int)) (hi : bp + b1.toNat < 2048)
    (hv : ∀ a, s.stack[bp + b1.toNat]! ≠ .box a) (hsp : 0 ≤ s.sp ∧ s.sp < 2048) :
    ∃ s', exec (step F) s = (.ok .next, s') ∧ Same s s' ∧ s'.heap = s.heap ∧ s'.ip = (p : Int) + 1 ∧ s'.sp = s.sp + 1 ∧
      s'.stack = s.stack.set! s.sp.toNat (s.stack[bp + b1.toNat]!) := by
  rw [exec_step_fetch' F hc p b0 hip h0, hb0]
  have hd : dispatch F 5 = execGetLocal := rfl
  rw [hd]; unfold execGetLocal
  have hipt : (tick s 5).ip = (p : Int) := by rw [tick_ip]; exact hip
  have hfr : (tick s 5).frames[(tick s 5).curFrame]! = s.frames[s.curFrame]! := by
    rw [(tick_same s 5).frames, (tick_same s 5).curFrame]
  simp only [exec_bind, exec_opnd1 (hc.tick 5) p hipt b1 h1, exec_curFrame, hfr, hbp]
  rw [exec_stackGet' _ _ (by omega)]
  have hidx : ((bp : Int) + (b1.toNat : Int)).toNat = bp + b1.toNat := by omega
  simp only [hidx, tick_stack]
  cases hvv : s.stack[bp + b1.toNat]! with
  | box a => exact absurd hvv (hv a)
  | _ =>
    simp only [exec_pure]
    rw [exec_pushV' _ _ (by rw [tick_sp]; exact hsp)]
    simp only [exec_bumpIp, exec_pure]
    refine ⟨_, rfl, (tick_same s _).trans ⟨rfl, rfl, rfl, rfl, rfl, rfl, rfl, rfl, rfl, rfl, rfl, rfl, rfl⟩, ?_, ?_, ?_, ?_⟩
    · exact tick_heap s _
    · show (tick s _).ip + 1 = _; rw [hipt]
    · show (tick s _).sp + 1 = _; rw [tick_sp]
    · show (tick s _).stack.set! (tick s _).sp.toNat _ = _; rw [tick_sp, tick_stack]


/-! ### operations that look at the heap only -/

/-- run on any state whose heap is `h`, `m` returns `a` and leaves the heap `h'` (nothing else
    changes, every cell of `h` is kept) -/
def RunsOn {α} (m : M α) (h : Array Cell) (a : α) (h' : Array Cell) : Prop :=
  ∀ w : State, w.heap = h → ∃ u, exec m w = (.ok a, u) ∧ Grow w u ∧ u.heap = h'

/-- the outcome of `m` depends on the heap only, and `m` changes the heap only -/
structure HeapOnly {α} (m : M α) : Prop where
  h : ∀ s t : State, t.heap = s.heap → exec m t = ((exec m s).1, { t with heap := (exec m s).2.heap })

theorem ho_pure {α} (a : α) : HeapOnly (pure a : M α) := ⟨fun s t h => by simp only [exec_pure]; rw [← h]⟩
theorem ho_throw {α} (e : Exc) : HeapOnly (throw e : M α) := ⟨fun s t h => by
  show ((.error e, t) : Except Exc α × State) = (.error e, { t with heap := s.heap }); rw [← h]⟩
theorem ho_panic {α} (msg : String) : HeapOnly (VM.panic msg : M α) := ho_throw _
theorem ho_unsupported {α} (msg : String) : HeapOnly (VM.unsupported msg : M α) := ho_throw _

theorem ho_bind {α β} {m : M α} {f : α → M β} (hm : HeapOnly m) (hf : ∀ a, HeapOnly (f a)) : HeapOnly (m >>= f) := by
  constructor
  intro s t h
  rw [exec_bind, exec_bind, hm.h s t h]
  cases hr : exec m s with
  | mk r s1 =>
    cases r with
    | ok a =>
      simp only
      rw [(hf a).h s1 { t with heap := s1.heap } rfl]
    | error e => rfl

theorem ho_ite {α} (c : Prop) [Decidable c] {a b : M α} (ha : HeapOnly a) (hb : HeapOnly b) : HeapOnly (if c then a else b) := by
  split <;> assumption

theorem ho_heapGet (a : Addr) : HeapOnly (heapGet a) := by
  constructor
  intro s t h
  unfold heapGet
  simp only [exec_bind, exec_getS, h]
  split
  · simp only [exec_pure]; rw [← h]
  · show ((.error _, t) : Except Exc Cell × State) = (.error _, { t with heap := s.heap }); rw [← h]

theorem ho_alloc (c : Cell) : HeapOnly (alloc c) := by
  constructor
  intro s t h
  rw [exec_alloc, exec_alloc, h]

/-- `let s ← getS; f s` where `f` looks at the heap of `s` only -/
theorem ho_getS_bind {α} {f : State → M α} (h1 : ∀ s t : State, t.heap = s.heap → f t = f s) (h2 : ∀ s, HeapOnly (f s)) :
    HeapOnly (getS >>= f) := by
  constructor
  intro s t h
  rw [exec_bind, exec_bind, exec_getS, exec_getS]
  simp only
  rw [h1 s t h]
  exact (h2 s).h s t h

syntax "ho_prim" : tactic
macro_rules | `(tactic| ho_prim) => `(tactic| exact ho_pure _)
macro_rules | `(tactic| ho_prim) => `(tactic| exact ho_panic _)
macro_rules | `(tactic| ho_prim) => `(tactic| exact ho_unsupported _)
macro_rules | `(tactic| ho_prim) => `(tactic| exact ho_throw _)
macro_rules | `(tactic| ho_prim) => `(tactic| exact ho_alloc _)
macro_rules | `(tactic| ho_prim) => `(tactic| exact ho_heapGet _)

macro "ho_step" : tactic => `(tactic| first
  | with_reducible ho_prim
  | (apply ho_bind)
  | (intro _)
  | (apply ho_ite)
  | (split)
  | (dsimp only))

macro "honly" : tactic => `(tactic| repeat' ho_step)

theorem ho_arrElems (a : Addr) (off len : Nat) : HeapOnly (arrElems a off len) := by unfold arrElems; honly
macro_rules | `(tactic| ho_prim) => `(tactic| exact ho_arrElems _ _ _)
theorem ho_mapEntries (a : Addr) : HeapOnly (mapEntries a) := by unfold mapEntries; honly
macro_rules | `(tactic| ho_prim) => `(tactic| exact ho_mapEntries _)
theorem ho_vString (v : V) : HeapOnly (vString v) := by unfold vString; honly
macro_rules | `(tactic| ho_prim) => `(tactic| exact ho_vString _)
theorem ho_isFalsy (v : V) : HeapOnly (isFalsy v) := by unfold isFalsy; honly
macro_rules | `(tactic| ho_prim) => `(tactic| exact ho_isFalsy _)
theorem ho_vEqual (F : FloatOps) (l r : V) : HeapOnly (vEqual F l r) := by
  unfold vEqual
  apply ho_getS_bind
  · intro s t h
    simp only [h]
  · intro s
    honly
theorem ho_vBinaryOp (F : FloatOps) (tok : Tok) (l r : V) : HeapOnly (vBinaryOp F tok l r) := by unfold vBinaryOp; honly
theorem ho_vUnary (F : FloatOps) (tok : Tok) (r : V) : HeapOnly (vUnary F tok r) := by unfold vUnary; honly
theorem ho_mkErr (n m : String) : HeapOnly (mkErr n m) := by unfold mkErr; honly
macro_rules | `(tactic| ho_prim) => `(tactic| exact ho_mkErr _ _)
theorem ho_rtErrOfOpErr (e : OpErr) : HeapOnly (rtErrOfOpErr e) := by unfold rtErrOfOpErr; honly

theorem runsOn_of {α} {m : M α} (ho : HeapOnly m) (hg : Grows m) {t t1 : State} {a : α}
    (h : exec m t = (.ok a, t1)) : RunsOn m t.heap a t1.heap := by
  intro w hw
  have e := ho.h t w hw
  rw [h] at e
  have g := hg.h w
  rw [e] at g
  exact ⟨_, e, g, rfl⟩


/-! ### instructions that run an object-layer operation -/

theorem same_tick_grow {s u : State} {op : Nat} (hg : Grow (tick s op) u) : Same s u := (tick_same s op).trans hg.same

/-- BINARYOP, the operator returns a value -/
theorem step_binop_ok (F : FloatOps) {s : State} {code : Code} (hc : CodeAt s code) (p : Nat) (hip : s.ip + 1 = (p : Int))
    (b0 b1 : UInt8) (h0 : code.insts[p]? = some b0) (hb0 : b0.toNat = 8) (h1 : code.insts[p + 1]? = some b1)
    (hsp : 2 ≤ s.sp ∧ s.sp ≤ 2048) (v : V) (h' : Array Cell)
    (hop : RunsOn (vBinaryOp F (tokOfNat b1.toNat) (s.stack[(s.sp - 2).toNat]!) (s.stack[(s.sp - 1).toNat]!)) s.heap (.ok v) h') :
    ∃ s', exec (step F) s = (.ok .next, s') ∧ Same s s' ∧ s'.heap = h' ∧ s'.ip = (p : Int) + 1 ∧ s'.sp = s.sp - 1 ∧
      s'.stack = (s.stack.set! (s.sp - 2).toNat v).set! (s.sp - 1).toNat .nil := by
  obtain ⟨u, hex, hg, hh⟩ := hop (tick s 8) (tick_heap s 8)
  rw [exec_step_fetch' F hc p b0 hip h0, hb0]
  have hd : dispatch F 8 = execBinaryOp F := rfl
  rw [hd]; unfold execBinaryOp
  have hipt : (tick s 8).ip = (p : Int) := by rw [tick_ip]; exact hip
  simp only [exec_bind, exec_opnd1 (hc.tick 8) p hipt b1 h1, exec_getSp, tick_sp]
  rw [exec_stackGet' _ _ (by omega)]
  simp only
  rw [exec_stackGet' _ _ (by omega)]
  simp only [tick_stack, hex, exec_bind]
  rw [exec_stackSet' _ _ _ (by omega)]
  simp only [exec_setSp]
  rw [exec_stackSet' _ _ _ (by omega)]
  simp only [exec_bumpIp, exec_pure]
  refine ⟨_, rfl, (same_tick_grow hg).trans ⟨rfl, rfl, rfl, rfl, rfl, rfl, rfl, rfl, rfl, rfl, rfl, rfl, rfl⟩, hh, ?_, rfl, ?_⟩
  · show u.ip + 1 = _; rw [hg.ip, hipt]
  · show (u.stack.set! _ v).set! _ .nil = _; rw [hg.stack, tick_stack]

/-- BINARYOP, the operator returns an error: the VM is at `failWith` -/
theorem step_binop_err (F : FloatOps) {s : State} {code : Code} (hc : CodeAt s code) (p : Nat) (hip : s.ip + 1 = (p : Int))
    (b0 b1 : UInt8) (h0 : code.insts[p]? = some b0) (hb0 : b0.toNat = 8) (h1 : code.insts[p + 1]? = some b1)
    (hsp : 2 ≤ s.sp ∧ s.sp ≤ 2048) (oe : OpErr) (h' : Array Cell)
    (hop : RunsOn (vBinaryOp F (tokOfNat b1.toNat) (s.stack[(s.sp - 2).toNat]!) (s.stack[(s.sp - 1).toNat]!)) s.heap (.error oe) h') :
    ∃ u, (∀ {β} (g : Ctl → M β), exec (step F >>= g) s = exec (failWith oe >>= g) u) ∧ Same s u ∧ u.heap = h' ∧
      u.sp = s.sp ∧ u.stack = s.stack ∧ u.ip = (p : Int) := by
  obtain ⟨u, hex, hg, hh⟩ := hop (tick s 8) (tick_heap s 8)
  have hipt : (tick s 8).ip = (p : Int) := by rw [tick_ip]; exact hip
  refine ⟨u, ?_, same_tick_grow hg, hh, by rw [hg.sp, tick_sp], by rw [hg.stack, tick_stack], by rw [hg.ip, hipt]⟩
  intro β g
  rw [(exec_step_fetch F hc p b0 hip h0).2 g, hb0]
  have hd : dispatch F 8 = execBinaryOp F := rfl
  rw [hd]; unfold execBinaryOp
  simp only [bind_assoc, exec_bind, exec_opnd1 (hc.tick 8) p hipt b1 h1, exec_getSp, tick_sp]
  rw [exec_stackGet' _ _ (by omega)]
  simp only
  rw [exec_stackGet' _ _ (by omega)]
  simp only [tick_stack, hex]

/-- UNARY, the operator returns a value -/
theorem step_unary_ok (F : FloatOps) {s : State} {code : Code} (hc : CodeAt s code) (p : Nat) (hip : s.ip + 1 = (p : Int))
    (b0 b1 : UInt8) (h0 : code.insts[p]? = some b0) (hb0 : b0.toNat = 9) (h1 : code.insts[p + 1]? = some b1)
    (hsp : 1 ≤ s.sp ∧ s.sp ≤ 2048) (v : V) (h' : Array Cell)
    (hop : RunsOn (vUnary F (tokOfNat b1.toNat) (s.stack[(s.sp - 1).toNat]!)) s.heap (.ok v) h') :
    ∃ s', exec (step F) s = (.ok .next, s') ∧ Same s s' ∧ s'.heap = h' ∧ s'.ip = (p : Int) + 1 ∧ s'.sp = s.sp ∧
      s'.stack = s.stack.set! (s.sp - 1).toNat v := by
  obtain ⟨u, hex, hg, hh⟩ := hop (tick s 9) (tick_heap s 9)
  rw [exec_step_fetch' F hc p b0 hip h0, hb0]
  have hd : dispatch F 9 = execUnary F := rfl
  rw [hd]; unfold execUnary
  have hipt : (tick s 9).ip = (p : Int) := by rw [tick_ip]; exact hip
  simp only [exec_bind, exec_opnd1 (hc.tick 9) p hipt b1 h1, exec_getSp, tick_sp]
  rw [exec_stackGet' _ _ (by omega)]
  simp only [tick_stack, hex, exec_bind]
  rw [exec_stackSet' _ _ _ (by omega)]
  simp only [exec_bumpIp, exec_pure]
  refine ⟨_, rfl, (same_tick_grow hg).trans ⟨rfl, rfl, rfl, rfl, rfl, rfl, rfl, rfl, rfl, rfl, rfl, rfl, rfl⟩, hh, ?_, ?_, ?_⟩
  · show u.ip + 1 = _; rw [hg.ip, hipt]
  · show u.sp = _; rw [hg.sp, tick_sp]
  · show u.stack.set! _ v = _; rw [hg.stack, tick_stack]

theorem step_unary_err (F : FloatOps) {s : State} {code : Code} (hc : CodeAt s code) (p : Nat) (hip : s.ip + 1 = (p : Int))
    (b0 b1 : UInt8) (h0 : code.insts[p]? = some b0) (hb0 : b0.toNat = 9) (h1 : code.insts[p + 1]? = some b1)
    (hsp : 1 ≤ s.sp ∧ s.sp ≤ 2048) (oe : OpErr) (h' : Array Cell)
    (hop : RunsOn (vUnary F (tokOfNat b1.toNat) (s.stack[(s.sp - 1).toNat]!)) s.heap (.error oe) h') :
    ∃ u, (∀ {β} (g : Ctl → M β), exec (step F >>= g) s = exec (failWith oe >>= g) u) ∧ Same s u ∧ u.heap = h' ∧
      u.sp = s.sp ∧ u.stack = s.stack ∧ u.ip = (p : Int) := by
  obtain ⟨u, hex, hg, hh⟩ := hop (tick s 9) (tick_heap s 9)
  have hipt : (tick s 9).ip = (p : Int) := by rw [tick_ip]; exact hip
  refine ⟨u, ?_, same_tick_grow hg, hh, by rw [hg.sp, tick_sp], by rw [hg.stack, tick_stack], by rw [hg.ip, hipt]⟩
  intro β g
  rw [(exec_step_fetch F hc p b0 hip h0).2 g, hb0]
  have hd : dispatch F 9 = execUnary F := rfl
  rw [hd]; unfold execUnary
  simp only [bind_assoc, exec_bind, exec_opnd1 (hc.tick 9) p hipt b1 h1, exec_getSp, tick_sp]
  rw [exec_stackGet' _ _ (by omega)]
  simp only [tick_stack, hex]

/-- EQUAL / NOTEQUAL -/
theorem step_equal (F : FloatOps) {s : State} {code : Code} (hc : CodeAt s code) (p : Nat) (hip : s.ip + 1 = (p : Int))
    (b0 : UInt8) (h0 : code.insts[p]? = some b0) (hb0 : b0.toNat = 10 ∨ b0.toNat = 11)
    (hsp : 2 ≤ s.sp ∧ s.sp ≤ 2048) (eq : Bool) (h' : Array Cell)
    (hop : RunsOn (vEqual F (s.stack[(s.sp - 2).toNat]!) (s.stack[(s.sp - 1).toNat]!)) s.heap eq h') :
    ∃ s', exec (step F) s = (.ok .next, s') ∧ Same s s' ∧ s'.heap = h' ∧ s'.ip = (p : Int) ∧ s'.sp = s.sp - 1 ∧
      s'.stack = (s.stack.set! (s.sp - 2).toNat (.bool (if b0.toNat = 10 then eq else !eq))).set! (s.sp - 1).toNat .nil := by
  obtain ⟨u, hex, hg, hh⟩ := hop (tick s b0.toNat) (tick_heap s _)
  rw [exec_step_fetch' F hc p b0 hip h0]
  have hd : dispatch F b0.toNat = execEqual F b0.toNat := by rcases hb0 with h | h <;> rw [h] <;> rfl
  rw [hd]; unfold execEqual
  have hipt : (tick s b0.toNat).ip = (p : Int) := by rw [tick_ip]; exact hip
  simp only [exec_bind, exec_getSp, tick_sp]
  rw [exec_stackGet' _ _ (by omega)]
  simp only
  rw [exec_stackGet' _ _ (by omega)]
  simp only [tick_stack, hex, exec_bind]
  rw [exec_stackSet' _ _ _ (by omega)]
  simp only [exec_setSp]
  rw [exec_stackSet' _ _ _ (by omega)]
  simp only [exec_pure]
  refine ⟨_, rfl, (same_tick_grow hg).trans ⟨rfl, rfl, rfl, rfl, rfl, rfl, rfl, rfl, rfl, rfl, rfl, rfl, rfl⟩, hh, ?_, rfl, ?_⟩
  · show u.ip = _; rw [hg.ip, hipt]
  · show (u.stack.set! _ _).set! _ .nil = _
    rw [hg.stack, tick_stack]
    have : (b0.toNat == OpEqual) = decide (b0.toNat = 10) := by simp only [OpEqual]; rfl
    simp only [this, decide_eq_true_eq]

/-- JUMP -/
theorem step_jump (F : FloatOps) {s : State} {code : Code} (hc : CodeAt s code) (p : Nat) (hip : s.ip + 1 = (p : Int))
    (b0 b1 b2 b3 b4 : UInt8) (h0 : code.insts[p]? = some b0) (hb0 : b0.toNat = 12)
    (h1 : code.insts[p + 1]? = some b1) (h2 : code.insts[p + 2]? = some b2)
    (h3 : code.insts[p + 3]? = some b3) (h4 : code.insts[p + 4]? = some b4) :
    ∃ s', exec (step F) s = (.ok .next, s') ∧ Same s s' ∧ s'.heap = s.heap ∧
      s'.ip + 1 = ((b4.toNat ||| (b3.toNat <<< 8) ||| (b2.toNat <<< 16) ||| (b1.toNat <<< 24) : Nat) : Int) ∧ s'.sp = s.sp ∧
      s'.stack = s.stack := by
  rw [exec_step_fetch' F hc p b0 hip h0, hb0]
  have hd : dispatch F 12 = execJump := rfl
  rw [hd]; unfold execJump
  have hipt : (tick s 12).ip = (p : Int) := by rw [tick_ip]; exact hip
  simp only [exec_bind, exec_jumpTarget (hc.tick 12) p hipt b1 b2 b3 b4 h1 h2 h3 h4, exec_setIp, exec_pure]
  refine ⟨_, rfl, (tick_same s _).trans ⟨rfl, rfl, rfl, rfl, rfl, rfl, rfl, rfl, rfl, rfl, rfl, rfl, rfl⟩, tick_heap s _, ?_, tick_sp s _, tick_stack s _⟩
  show _ - 1 + 1 = _
  omega

/-- JUMPFALSY: pops the condition -/
theorem step_jumpFalsy (F : FloatOps) {s : State} {code : Code} (hc : CodeAt s code) (p : Nat) (hip : s.ip + 1 = (p : Int))
    (b0 b1 b2 b3 b4 : UInt8) (h0 : code.insts[p]? = some b0) (hb0 : b0.toNat = 13)
    (h1 : code.insts[p + 1]? = some b1) (h2 : code.insts[p + 2]? = some b2)
    (h3 : code.insts[p + 3]? = some b3) (h4 : code.insts[p + 4]? = some b4)
    (hsp : 1 ≤ s.sp ∧ s.sp ≤ 2048) (fl : Bool) (h' : Array Cell)
    (hop : RunsOn (isFalsy (s.stack[(s.sp - 1).toNat]!)) s.heap fl h') :
    ∃ s', exec (step F) s = (.ok .next, s') ∧ Same s s' ∧ s'.heap = h' ∧
      s'.ip + 1 = (if fl then ((b4.toNat ||| (b3.toNat <<< 8) ||| (b2.toNat <<< 16) ||| (b1.toNat <<< 24) : Nat) : Int)
                   else (p : Int) + 5) ∧
      s'.sp = s.sp - 1 ∧ s'.stack = s.stack.set! (s.sp - 1).toNat .nil := by
  rw [exec_step_fetch' F hc p b0 hip h0, hb0]
  have hd : dispatch F 13 = execJumpFalsy := rfl
  rw [hd]; unfold execJumpFalsy
  have hipt : (tick s 13).ip = (p : Int) := by rw [tick_ip]; exact hip
  simp only [exec_bind, exec_getSp, tick_sp, exec_setSp]
  rw [exec_stackGet' _ _ (by omega)]
  simp only
  rw [exec_stackSet' _ _ _ (by omega)]
  simp only
  have hw : CodeAt ({ tick s 13 with sp := s.sp - 1, stack := (tick s 13).stack.set! (s.sp - 1).toNat .nil }) code :=
    (hc.tick 13).of_same ⟨rfl, rfl, rfl, rfl, rfl, rfl, rfl, rfl, rfl, rfl, rfl, rfl, rfl⟩ rfl
  obtain ⟨u, hex, hg, hh⟩ := hop ({ tick s 13 with sp := s.sp - 1, stack := (tick s 13).stack.set! (s.sp - 1).toNat .nil })
    (tick_heap s 13)
  rw [tick_stack] at hex hg hw ⊢
  rw [hex]
  simp only
  have hsm : Same s u := (tick_same s 13).trans (Same.trans
    (b := { tick s 13 with sp := s.sp - 1, stack := s.stack.set! (s.sp - 1).toNat .nil })
    ⟨rfl, rfl, rfl, rfl, rfl, rfl, rfl, rfl, rfl, rfl, rfl, rfl, rfl⟩ hg.same)
  cases fl with
  | true =>
    simp only [if_true]
    have hipu : u.ip = (p : Int) := by rw [hg.ip]; exact hipt
    simp only [exec_bind, exec_jumpTarget (hw.of_grow hg) p hipu b1 b2 b3 b4 h1 h2 h3 h4, exec_setIp, exec_pure]
    refine ⟨_, rfl, hsm.trans ⟨rfl, rfl, rfl, rfl, rfl, rfl, rfl, rfl, rfl, rfl, rfl, rfl, rfl⟩, hh, ?_, ?_, ?_⟩
    · show _ - 1 + 1 = _; omega
    · show u.sp = _; rw [hg.sp]
    · show u.stack = _; rw [hg.stack]
  | false =>
    simp only [Bool.false_eq_true, if_false, exec_bumpIp, exec_pure]
    refine ⟨_, rfl, hsm.trans ⟨rfl, rfl, rfl, rfl, rfl, rfl, rfl, rfl, rfl, rfl, rfl, rfl, rfl⟩, hh, ?_, ?_, ?_⟩
    · show u.ip + 4 + 1 = _; rw [hg.ip]; show (tick s 13).ip + 4 + 1 = _; rw [hipt]; omega
    · show u.sp = _; rw [hg.sp]
    · show u.stack = _; rw [hg.stack]

/-- ANDJUMP / ORJUMP: `jump = true` — the operand stays and `ip` goes to the target;
    `jump = false` — the operand is popped and execution continues behind the instruction -/
theorem step_andOrJump (F : FloatOps) {s : State} {code : Code} (hc : CodeAt s code) (p : Nat) (hip : s.ip + 1 = (p : Int))
    (b0 b1 b2 b3 b4 : UInt8) (h0 : code.insts[p]? = some b0) (hb0 : b0.toNat = 14 ∨ b0.toNat = 15)
    (h1 : code.insts[p + 1]? = some b1) (h2 : code.insts[p + 2]? = some b2)
    (h3 : code.insts[p + 3]? = some b3) (h4 : code.insts[p + 4]? = some b4)
    (hsp : 1 ≤ s.sp ∧ s.sp ≤ 2048) (fl : Bool) (h' : Array Cell)
    (hop : RunsOn (isFalsy (s.stack[(s.sp - 1).toNat]!)) s.heap fl h') :
    ∃ s', exec (step F) s = (.ok .next, s') ∧ Same s s' ∧ s'.heap = h' ∧
      (if (fl == (b0.toNat == 14)) then
        s'.ip + 1 = ((b4.toNat ||| (b3.toNat <<< 8) ||| (b2.toNat <<< 16) ||| (b1.toNat <<< 24) : Nat) : Int) ∧
        s'.sp = s.sp ∧ s'.stack = s.stack
      else
        s'.ip + 1 = (p : Int) + 5 ∧ s'.sp = s.sp - 1 ∧ s'.stack = s.stack.set! (s.sp - 1).toNat .nil) := by
  obtain ⟨u, hex, hg, hh⟩ := hop (tick s b0.toNat) (tick_heap s _)
  rw [exec_step_fetch' F hc p b0 hip h0]
  have hipt : (tick s b0.toNat).ip = (p : Int) := by rw [tick_ip]; exact hip
  have hipu : u.ip = (p : Int) := by rw [hg.ip]; exact hipt
  have hcu : CodeAt u code := (hc.tick _).of_grow hg
  rcases hb0 with hb | hb
  · have hd : dispatch F b0.toNat = execAndJump := by rw [hb]; rfl
    rw [hd]; unfold execAndJump
    simp only [exec_bind, exec_getSp, tick_sp]
    rw [exec_stackGet' _ _ (by omega)]
    simp only [tick_stack, hex]
    simp only [hb]
    cases fl with
    | true =>
      simp only [if_true, exec_bind, exec_jumpTarget hcu p hipu b1 b2 b3 b4 h1 h2 h3 h4, exec_setIp, exec_pure]
      refine ⟨_, rfl, (same_tick_grow hg).trans ⟨rfl, rfl, rfl, rfl, rfl, rfl, rfl, rfl, rfl, rfl, rfl, rfl, rfl⟩, hh, ?_⟩
      simp only [beq_self_eq_true, if_true]
      refine ⟨?_, ?_, ?_⟩
      · show _ - 1 + 1 = _; omega
      · show u.sp = _; rw [hg.sp, tick_sp]
      · show u.stack = _; rw [hg.stack, tick_stack]
    | false =>
      simp only [Bool.false_eq_true, if_false, exec_bind]
      rw [exec_stackSet' _ _ _ (by omega)]
      simp only [exec_setSp, exec_bumpIp, exec_pure]
      refine ⟨_, rfl, (same_tick_grow hg).trans ⟨rfl, rfl, rfl, rfl, rfl, rfl, rfl, rfl, rfl, rfl, rfl, rfl, rfl⟩, hh, ?_⟩
      have : (false == (14 == 14)) = false := by decide
      simp only [this, Bool.false_eq_true, if_false]
      refine ⟨?_, trivial, ?_⟩
      · show u.ip + 4 + 1 = _; rw [hipu]; omega
      · show u.stack.set! _ _ = _; rw [hg.stack, tick_stack]
  · have hd : dispatch F b0.toNat = execOrJump := by rw [hb]; rfl
    rw [hd]; unfold execOrJump
    simp only [exec_bind, exec_getSp, tick_sp]
    rw [exec_stackGet' _ _ (by omega)]
    simp only [tick_stack, hex]
    simp only [hb]
    cases fl with
    | false =>
      simp only [Bool.false_eq_true, if_false, exec_bind, exec_jumpTarget hcu p hipu b1 b2 b3 b4 h1 h2 h3 h4, exec_setIp, exec_pure]
      refine ⟨_, rfl, (same_tick_grow hg).trans ⟨rfl, rfl, rfl, rfl, rfl, rfl, rfl, rfl, rfl, rfl, rfl, rfl, rfl⟩, hh, ?_⟩
      have : (false == (15 == 14)) = true := by decide
      simp only [this, if_true]
      refine ⟨?_, ?_, ?_⟩
      · show _ - 1 + 1 = _; omega
      · show u.sp = _; rw [hg.sp, tick_sp]
      · show u.stack = _; rw [hg.stack, tick_stack]
    | true =>
      simp only [if_true, exec_bind]
      rw [exec_stackSet' _ _ _ (by omega)]
      simp only [exec_setSp, exec_bumpIp, exec_pure]
      refine ⟨_, rfl, (same_tick_grow hg).trans ⟨rfl, rfl, rfl, rfl, rfl, rfl, rfl, rfl, rfl, rfl, rfl, rfl, rfl⟩, hh, ?_⟩
      have : (true == (15 == 14)) = false := by decide
      simp only [this, Bool.false_eq_true, if_false]
      refine ⟨?_, trivial, ?_⟩
      · show u.ip + 4 + 1 = _; rw [hipu]; omega
      · show u.stack.set! _ _ = _; rw [hg.stack, tick_stack]


/-! ### several instructions: `loopF` -/

/-- what `loopF` does with the result of an instruction -/
def contLoop (F : FloatOps) (k : Nat) : Ctl → M (Option Unit) := fun c =>
  match c with
  | .ret => pure (some ())
  | .next => loopF F k

theorem loopF_succ (F : FloatOps) (k : Nat) {s : State} (hab : s.abort = false) :
    exec (loopF F (k + 1)) s = exec (step F >>= contLoop F k) s := by
  conv => lhs; unfold loopF
  simp only [exec_bind, exec_getS, hab, Bool.false_eq_true, if_false]
  rfl

/-- the VM's loop, started in `s` with enough fuel, gets to `s'` (and goes on from there) -/
def Reach (F : FloatOps) (s s' : State) : Prop := ∃ n, ∀ k, exec (loopF F (n + k)) s = exec (loopF F k) s'

theorem Reach.refl (F : FloatOps) (s : State) : Reach F s s := ⟨0, fun k => by rw [Nat.zero_add]⟩

theorem Reach.trans {F : FloatOps} {a b c : State} (h1 : Reach F a b) (h2 : Reach F b c) : Reach F a c := by
  obtain ⟨n1, e1⟩ := h1
  obtain ⟨n2, e2⟩ := h2
  exact ⟨n1 + n2, fun k => by rw [Nat.add_assoc, e1, e2]⟩

theorem Reach.step {F : FloatOps} {s s' : State} (hab : s.abort = false) (h : exec (step F) s = (.ok .next, s')) :
    Reach F s s' := by
  refine ⟨1, fun k => ?_⟩
  rw [Nat.add_comm, loopF_succ F k hab, exec_bind, h]
  rfl

/-- the VM's loop, started in `s`, gets to the call `failWith oe` (= `throwGenErr`: allocate the
    error object, then `throw` / `handleThrownError`) in state `u`, inside the `n+1`-th instruction -/
def ReachFail (F : FloatOps) (s : State) (oe : OpErr) (u : State) : Prop :=
  ∃ n, ∀ k, exec (loopF F (n + 1 + k)) s = exec (failWith oe >>= contLoop F k) u

theorem ReachFail.of_reach {F : FloatOps} {a b u : State} {oe : OpErr} (h1 : Reach F a b) (h2 : ReachFail F b oe u) :
    ReachFail F a oe u := by
  obtain ⟨n1, e1⟩ := h1
  obtain ⟨n2, e2⟩ := h2
  exact ⟨n1 + n2, fun k => by rw [Nat.add_assoc, Nat.add_assoc, e1, ← Nat.add_assoc, e2]⟩

theorem ReachFail.step {F : FloatOps} {s u : State} {oe : OpErr} (hab : s.abort = false)
    (h : ∀ {β} (g : Ctl → M β), exec (step F >>= g) s = exec (failWith oe >>= g) u) : ReachFail F s oe u := by
  refine ⟨0, fun k => ?_⟩
  rw [Nat.zero_add, Nat.add_comm, loopF_succ F k hab, h]

end UgoVerif.CompSim
