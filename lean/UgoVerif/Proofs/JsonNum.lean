import UgoVerif.Proofs.JsonEsc
/-
  Helper lemmas for C17: number tokens and the notion "this byte string is one JSON
  value when something that cannot continue a token follows".
-/
namespace UgoVerif.Proofs.Json
open UgoVerif UgoVerif.Go UgoVerif.Model.JsonEnc UgoVerif.Spec.Json

/-- what may follow a value inside a document: nothing, `,`, `]` or `}` -/
def Delim : Bytes → Prop
  | [] => True
  | c :: _ => c = 0x2C ∨ c = 0x5D ∨ c = 0x7D

theorem Delim.notDigit {c : UInt8} {r : Bytes} (h : Delim (c :: r)) :
    isDigit c = false ∧ (c == 0x2E) = false ∧ (c == 0x65) = false ∧ (c == 0x45) = false := by
  rcases h with rfl | rfl | rfl <;> decide

theorem skipDigits_append (bs rest : Bytes) (h : Delim rest) :
    skipDigits (bs ++ rest) = skipDigits bs ++ rest := by
  induction bs with
  | nil =>
    cases rest with
    | nil => rfl
    | cons c r => simp [skipDigits, h.notDigit.1]
  | cons c bs ih =>
    simp only [List.cons_append, skipDigits]
    split
    · exact ih
    · rfl

theorem digits1_append (bs r rest : Bytes) (h : Delim rest) (hd : digits1 bs = some r) :
    digits1 (bs ++ rest) = some (r ++ rest) := by
  cases bs with
  | nil => simp [digits1] at hd
  | cons c bs =>
    simp only [digits1, List.cons_append] at hd ⊢
    by_cases hc : isDigit c = true
    · rw [if_pos hc] at hd ⊢
      injection hd with hd
      rw [skipDigits_append _ _ h, hd]
    · rw [if_neg hc] at hd; simp at hd

theorem intPart_append (bs r rest : Bytes) (h : Delim rest) (hd : intPart bs = some r) :
    intPart (bs ++ rest) = some (r ++ rest) := by
  cases bs with
  | nil => simp [intPart] at hd
  | cons c bs =>
    simp only [intPart, List.cons_append] at hd ⊢
    by_cases hc : (c == 0x30) = true
    · rw [if_pos hc] at hd ⊢
      injection hd with hd; rw [hd]
    · rw [if_neg hc] at hd ⊢
      by_cases hc2 : isDigit c = true
      · rw [if_pos hc2] at hd ⊢
        injection hd with hd
        rw [skipDigits_append _ _ h, hd]
      · rw [if_neg hc2] at hd; simp at hd

theorem fracPart_append (bs r rest : Bytes) (h : Delim rest) (hd : fracPart bs = some r) :
    fracPart (bs ++ rest) = some (r ++ rest) := by
  cases bs with
  | nil =>
    simp only [fracPart] at hd; injection hd with hd; subst hd
    cases rest with
    | nil => rfl
    | cons c r => simp [fracPart, h.notDigit.2.1]
  | cons c bs =>
    simp only [fracPart, List.cons_append] at hd ⊢
    by_cases hc : (c == 0x2E) = true
    · rw [if_pos hc] at hd ⊢
      exact digits1_append _ _ _ h hd
    · rw [if_neg hc] at hd ⊢
      injection hd with hd; rw [← hd]; rfl

theorem expPart_append (bs r rest : Bytes) (h : Delim rest) (hd : expPart bs = some r) :
    expPart (bs ++ rest) = some (r ++ rest) := by
  cases bs with
  | nil =>
    simp only [expPart] at hd; injection hd with hd; subst hd
    cases rest with
    | nil => rfl
    | cons c r => simp [expPart, h.notDigit.2.2.1, h.notDigit.2.2.2]
  | cons c bs =>
    simp only [expPart, List.cons_append] at hd ⊢
    by_cases hc : (c == 0x65 || c == 0x45) = true
    · rw [if_pos hc] at hd ⊢
      cases bs with
      | nil => simp at hd
      | cons s bs' =>
        simp only [List.cons_append] at hd ⊢
        by_cases hs : (s == 0x2B || s == 0x2D) = true
        · rw [if_pos hs] at hd ⊢
          exact digits1_append _ _ _ h hd
        · rw [if_neg hs] at hd ⊢
          exact digits1_append (s :: bs') _ _ h hd
    · rw [if_neg hc] at hd ⊢
      injection hd with hd; rw [← hd]; rfl

theorem number_append (bs r rest : Bytes) (h : Delim rest) (hd : number bs = some r) :
    number (bs ++ rest) = some (r ++ rest) := by
  unfold number at hd ⊢
  have hopt : optMinus (bs ++ rest) = optMinus bs ++ rest := by
    cases bs with
    | nil => simp [optMinus, intPart] at hd
    | cons c bs =>
      simp only [optMinus, List.cons_append]
      split <;> rfl
  rw [hopt]
  cases h1 : intPart (optMinus bs) with
  | none => simp [h1] at hd
  | some r1 =>
    simp only [h1] at hd
    rw [intPart_append _ _ _ h h1]
    simp only []
    cases h2 : fracPart r1 with
    | none => simp [h2] at hd
    | some r2 =>
      simp only [h2] at hd
      rw [fracPart_append _ _ _ h h2]
      simp only []
      exact expPart_append _ _ _ h hd

/-- a number token starts with `-` or a digit -/
theorem number_head (c : UInt8) (r x : Bytes) (h : number (c :: r) = some x) :
    (c == 0x2D || isDigit c) = true := by
  unfold number at h
  by_cases hc : (c == 0x2D) = true
  · simp [hc]
  · simp only [optMinus] at h
    rw [if_neg hc] at h
    cases h1 : intPart (c :: r) with
    | none => simp [h1] at h
    | some r1 =>
      simp only [intPart] at h1
      by_cases h0 : (c == 0x30) = true
      · have : c = 0x30 := by simpa using h0
        subst this; decide
      · rw [if_neg h0] at h1
        by_cases hd : isDigit c = true
        · simp [hd]
        · rw [if_neg hd] at h1; simp at h1

/-- `bs` is the text of exactly one JSON value (when followed by a delimiter or nothing) -/
structure IsVal (bs : Bytes) : Prop where
  head : ∃ c r, bs = c :: r ∧ isWs c = false ∧ (c == 0x5D) = false
  parse : ∀ (rest : Bytes) (f : Nat), Delim rest → (bs ++ rest).length < f → value f (bs ++ rest) = some rest

theorem IsVal.skipWs {bs : Bytes} (h : IsVal bs) (rest : Bytes) : skipWs (bs ++ rest) = bs ++ rest := by
  obtain ⟨c, r, rfl, hw, _⟩ := h.head
  simp [Spec.Json.skipWs, hw]

theorem IsVal.isJson {bs : Bytes} (h : IsVal bs) : isJson bs = true := by
  unfold Spec.Json.isJson
  have h1 := h.skipWs []
  simp only [List.append_nil] at h1
  rw [h1]
  have h2 := h.parse [] (bs.length + 1) trivial (by simp)
  simp only [List.append_nil] at h2
  rw [h2]; rfl

/-- a complete number token is a value -/
theorem isVal_number (tok : Bytes) (h : isNumber tok = true) : IsVal tok := by
  have hn : number tok = some [] := by
    unfold isNumber at h
    split at h
    · assumption
    · simp at h
  cases tok with
  | nil => simp [number, optMinus, intPart] at hn
  | cons c r =>
    have hh := number_head c r [] hn
    have hc : (c == 0x2D) = true ∨ isDigit c = true := by simpa using hh
    refine ⟨⟨c, r, rfl, ?_, ?_⟩, ?_⟩
    · rcases hc with h1 | h1
      · have : c = 0x2D := by simpa using h1
        subst this; decide
      · simp only [isDigit, Bool.and_eq_true, decide_eq_true_eq, UInt8.le_iff_toNat_le] at h1
        simp only [isWs, Bool.or_eq_false_iff, beq_eq_false_iff_ne, ne_eq]
        refine ⟨⟨⟨?_, ?_⟩, ?_⟩, ?_⟩ <;> (intro hx; subst hx; revert h1; decide)
    · rcases hc with h1 | h1
      · have : c = 0x2D := by simpa using h1
        subst this; decide
      · simp only [isDigit, Bool.and_eq_true, decide_eq_true_eq, UInt8.le_iff_toNat_le] at h1
        simp only [beq_eq_false_iff_ne, ne_eq]
        intro hx; subst hx; revert h1; decide
    · intro rest f hd hf
      cases f with
      | zero => simp at hf
      | succ f =>
        have e1 : (c == 0x22) = false := by
          rcases hc with h1 | h1
          · have : c = 0x2D := by simpa using h1
            subst this; decide
          · simp only [isDigit, Bool.and_eq_true, decide_eq_true_eq, UInt8.le_iff_toNat_le] at h1
            simp only [beq_eq_false_iff_ne, ne_eq]; intro hx; subst hx; revert h1; decide
        have notc : ∀ k : UInt8, isDigit k = false → k ≠ 0x2D → (c == k) = false := by
          intro k hk hk2
          simp only [beq_eq_false_iff_ne, ne_eq]; intro hx; subst hx
          rcases hc with h1 | h1
          · exact hk2 (by simpa using h1)
          · simp [hk] at h1
        have := number_append _ _ rest hd hn
        simp only [List.cons_append, List.nil_append] at this ⊢
        simp only [value, e1, notc 0x5B (by decide) (by decide), notc 0x7B (by decide) (by decide),
          notc 0x74 (by decide) (by decide), notc 0x66 (by decide) (by decide),
          notc 0x6E (by decide) (by decide), hh, if_true, if_false, Bool.false_eq_true]
        exact this

end UgoVerif.Proofs.Json
