import UgoVerif.Proofs.CompSimAll
import UgoVerif.Proofs.EvalLocals
import UgoVerif.VM.Run
/-
  C02, compile ⊑ Sem, statement slice — whole scripts of the fragment: the output of the compile
  model (`Compile.compileFile`), loaded into a fresh VM (`loadProg`) and run by the VM model
  (`VM.runFrom`: prologue, loop, epilogue), against `Sem.execList` / `Sem.runProgram`.
-/
set_option linter.unusedSimpArgs false
set_option linter.unusedVariables false
set_option linter.deprecated false
namespace UgoVerif.CompSim
open UgoVerif UgoVerif.Go UgoVerif.Ast UgoVerif.VM UgoVerif.Proofs.ModCache UgoVerif.Proofs.VMExec
open UgoVerif.Compile (CState runCM compileExpr compileStmt compileStmts IsPre Pre Table nextIndex)
open UgoVerif.Proofs.EvalLocals (fillU exec_fnCell exec_fill fillU_size)

/-! ### loading and the prologue -/

def constV : Compile.Const → V
  | .val v => Eval.scalarOfCVal v
  | .fn _ => .nil

/-- a fresh VM for compile-model output: the main function is heap cell 0 -/
def loadProg (bc : Compile.Bytecode) : State :=
  newState #[Eval.codeOfCFn bc.main] #[.fn 0 none] (bc.constants.map constV) 0 0

/-- the VM state `Run` starts the loop in (after the prologue), written out -/
def startState (bc : Compile.Bytecode) : State :=
  { loadProg bc with
    heap := #[.fn 0 none, .map []]
    globals := .map 1
    stack := fillU (Array.replicate stackSize .nil) (List.range' 0 bc.main.numLocals 1)
    frames := emptyFrames.modify 0 fun f => { f with fn := some 0, free := none, handlers := none, bp := 0, discard := false }
    curFrame := 0, frameIndex := 1, ip := -1, sp := bc.main.numLocals
    modules := #[] }


theorem initLocals_noparams (args : List V) (s : State) (ci : Nat) (free : Option (List Addr))
    (hfn : s.heap[s.mainFn]? = some (.fn ci free))
    (hnp : (s.codes[ci]!).numParams = 0) (hnl : (s.codes[ci]!).numLocals ≤ stackSize) :
    exec (initLocals args) s = (.ok (), { s with stack := fillU s.stack (List.range' 0 (s.codes[ci]!).numLocals 1) }) := by
  generalize hc : s.codes[ci]! = code at *
  obtain ⟨insts, np, nl, va⟩ := code
  simp only at hnp hnl
  subst hnp
  unfold initLocals fillUndefined
  simp only [exec_bind, Int.zero_add]
  have hg : exec getS s = (.ok s, s) := rfl
  simp only [hg, exec_fnCell s s.mainFn ci free hfn, hc]
  have h1 : ¬ nl > stackSize := by omega
  simp only [h1, if_false, exec_bind]
  rw [Std.Legacy.Range.forIn_eq_forIn_range']
  have hr : List.range' [:nl].start [:nl].size [:nl].step = List.range' 0 nl 1 := by
    simp [Std.Legacy.Range.size]
  have hmem : ∀ i ∈ List.range' 0 nl 1, i < stackSize := by
    intro i hi; simp [List.mem_range'] at hi; omega
  rw [hr, exec_fill _ hmem s]
  simp [exec_pure]

theorem exec_prologue (bc : Compile.Bytecode) (hnp : bc.main.numParams = 0) (hnl : bc.main.numLocals ≤ stackSize) :
    exec (prologue .nil []) (loadProg bc) = (.ok (), startState bc) := by
  unfold prologue
  simp only [exec_bind, exec_modS, exec_alloc, exec_pure]
  rw [initLocals_noparams [] _ 0 none (by rfl) (by exact hnp) (by exact hnl)]
  simp only
  unfold initCurrentFrame
  simp only [exec_bind, exec_modS, exec_pure]
  have hg : ∀ s : State, exec getS s = (.ok s, s) := fun _ => rfl
  simp only [hg]
  rw [exec_fnCell _ _ 0 none (by rfl)]
  simp only [exec_modS]
  rw [exec_fnCell _ _ 0 none (by rfl)]
  simp only [startState, loadProg, newState, Eval.codeOfCFn]
  rfl

/-! ### RETURN in the main frame -/

theorem exec_clearDown_empty (hi lo : Int) (s : State) (h : hi < lo) : exec (clearDown hi lo) s = (.ok (), s) := by
  unfold clearDown
  have : (hi - lo + 1).toNat = 0 := by omega
  simp only [this]
  simp [Std.Legacy.Range.forIn_eq_forIn_range', Std.Legacy.Range.size, exec_bind, exec_pure]

/-- RETURN in the main frame (`frameIndex = 1`, `bp = 0`): the result goes to slot `NumLocals`,
    `sp = NumLocals + 1`, the loop ends -/
theorem step_return_main (F : FloatOps) {s : State} {code : Code} (hc : CodeAt s code) (p : Nat) (hip : s.ip + 1 = (p : Int))
    (b0 b1 : UInt8) (h0 : code.insts[p]? = some b0) (hb0 : b0.toNat = 39) (h1 : code.insts[p + 1]? = some b1)
    (fa ci : Nat) (fr : Option (List Addr)) (hbp : (s.frames[s.curFrame]!).bp = 0)
    (hfn : (s.frames[s.curFrame]!).fn = some fa) (hdis : (s.frames[s.curFrame]!).discard = false)
    (hcell : s.heap[fa]? = some (.fn ci fr)) (NL : Nat) (hNL : (s.codes[ci]!).numLocals = NL) (hfi : s.frameIndex = 1)
    (hsz : s.stack.size = 2048) (v : V)
    (hcase : (b1.toNat = 1 ∧ s.sp = (NL : Int) + 1 ∧ s.stack[NL]! = v) ∨ (b1.toNat = 0 ∧ s.sp = (NL : Int) ∧ v = .undefined))
    (hNLb : NL + 1 < 2048) :
    ∃ s', exec (step F) s = (.ok .ret, s') ∧ s'.sp = (NL : Int) + 1 ∧ s'.stack[NL]! = v ∧ Same s s' ∧ s'.heap = s.heap := by
  rw [exec_step_fetch' F hc p b0 hip h0, hb0]
  have hd : dispatch F 39 = execReturn := rfl
  rw [hd]; unfold execReturn
  have hipt : (tick s 39).ip = (p : Int) := by rw [tick_ip]; exact hip
  have hfr : (tick s 39).frames[(tick s 39).curFrame]! = s.frames[s.curFrame]! := by
    rw [(tick_same s 39).frames, (tick_same s 39).curFrame]
  simp only [exec_bind, exec_opnd1 (hc.tick 39) p hipt b1 h1, exec_curFrame, hfr, hbp]
  simp only [beq_self_eq_true, if_true, hfn, exec_bind]
  rw [exec_fnCell (tick s 39) fa ci fr (by rw [tick_heap]; exact hcell)]
  simp only [(tick_same s 39).codes, hNL, exec_getSp, tick_sp, hdis, Bool.not_false, Bool.and_true]
  have hsame : Same s (tick s 39) := tick_same s 39
  rcases hcase with ⟨hb1, hsp, hv⟩ | ⟨hb1, hsp, hv⟩
  · simp only [hb1, beq_self_eq_true, if_true, exec_bind, hsp]
    rw [exec_stackGet' _ _ (by omega)]
    simp only
    rw [exec_stackSet' _ _ _ (by omega)]
    simp only
    rw [exec_clearDown_empty _ _ _ (by omega)]
    simp only [exec_setSp, exec_getS, hsame.frameIndex, hfi, beq_self_eq_true, if_true, exec_pure]
    refine ⟨_, rfl, rfl, ?_, hsame.trans ⟨rfl, rfl, (by show (1 : Int) = (tick s 39).frameIndex; rw [hsame.frameIndex, hfi]), rfl, rfl, rfl, rfl, rfl, rfl, rfl, rfl, rfl, rfl⟩, tick_heap s _⟩
    show ((tick s 39).stack.set! _ _)[NL]! = v
    rw [tick_stack]
    have e1 : ((NL : Int) + 1 - 1).toNat = NL := by omega
    rw [e1, hv]
    exact set!_get_eq _ _ _ (by omega)
  · have hne : (b1.toNat == 1) = false := by rw [hb1]; rfl
    simp only [hne, Bool.false_eq_true, if_false, exec_bind, hsp]
    rw [exec_stackSet' _ _ _ (by omega)]
    simp only
    rw [exec_clearDown_empty _ _ _ (by omega)]
    simp only [exec_setSp, exec_getS, hsame.frameIndex, hfi, beq_self_eq_true, if_true, exec_pure]
    refine ⟨_, rfl, rfl, ?_, hsame.trans ⟨rfl, rfl, (by show (1 : Int) = (tick s 39).frameIndex; rw [hsame.frameIndex, hfi]), rfl, rfl, rfl, rfl, rfl, rfl, rfl, rfl, rfl, rfl⟩, tick_heap s _⟩
    show ((tick s 39).stack.set! _ _)[NL]! = v
    rw [tick_stack, hv]
    have e1 : ((NL : Int) + 1 - 1).toNat = NL := by omega
    rw [e1]
    exact set!_get_eq _ _ _ (by omega)

/-! ### an error nobody handles -/

/-- the error object of a `named` error on a heap: a `*RuntimeError` at `a` wrapping an `*Error` with
    that name and message -/
def ErrIs (heap : Array Cell) (a : Addr) (n m : String) : Prop :=
  ∃ ea, heap[a]? = some (.rterr (some ea)) ∧ heap[ea]? = some (.err (strBytes n) (strBytes m) none)

theorem exec_rtErr_named (n m : String) (s : State) :
    exec (rtErrOfOpErr (.named n m)) s =
      (.ok (s.heap.size + 1), { s with heap := (s.heap.push (.err (strBytes n) (strBytes m) none)).push (.rterr (some s.heap.size)) }) := by
  unfold rtErrOfOpErr mkErr
  simp only [exec_bind, exec_alloc]
  simp

theorem errIs_rtErr (n m : String) (s : State) :
    ErrIs ((s.heap.push (.err (strBytes n) (strBytes m) none)).push (.rterr (some s.heap.size))) (s.heap.size + 1) n m := by
  refine ⟨s.heap.size, ?_, ?_⟩
  · have : s.heap.size + 1 = (s.heap.push (.err (strBytes n) (strBytes m) none)).size := by simp
    rw [this, Array.getElem?_push_eq]
  · rw [Array.getElem?_push_lt (by simp)]
    simp

/-- an error nobody handles: no handler in the (only) frame -/
theorem failWith_uncaught (n m : String) (u : State) (hh : (u.frames[u.curFrame]!).handlers = none) (hfi : u.frameIndex = 1) :
    ∃ u', exec (failWith (.named n m)) u = (.ok .ret, u') ∧ u'.err = some (.rt (u.heap.size + 1)) ∧
      u'.heap = (u.heap.push (.err (strBytes n) (strBytes m) none)).push (.rterr (some u.heap.size)) ∧ u'.sp = u.sp := by
  have hfuel : ∀ w : State, ∃ k, exec throwFuel w = (.ok (k + 1), w) := by
    intro w
    have hge : 4 ≤ w.frames.foldl (fun n f => n + (match f.handlers with | some hs => hs.length | none => 0) + 1) 4 := by
      refine Array.foldl_induction (motive := fun _ b => 4 ≤ b) (Nat.le_refl _) ?_
      intro i b hb; omega
    have key : ∀ X : Nat, 4 ≤ X → ∃ k, X = k + 1 := fun X h => ⟨X - 1, by omega⟩
    obtain ⟨k, hk⟩ := key _ hge
    refine ⟨k, ?_⟩
    have : exec throwFuel w = (.ok (w.frames.foldl (fun n f => n + (match f.handlers with | some hs => hs.length | none => 0) + 1) 4), w) := rfl
    rw [this, hk]
  unfold failWith throwGenErr
  simp only [exec_bind, exec_rtErr_named]
  obtain ⟨k, hk⟩ := hfuel { u with heap := (u.heap.push (.err (strBytes n) (strBytes m) none)).push (.rterr (some u.heap.size)) }
  rw [hk]
  simp only
  unfold throwF
  simp only [exec_bind, exec_curFrame, hasHandler, hh]
  have hs0 : ∀ w : State, exec (searchFrames 0) w = (.ok none, w) := fun _ => rfl
  have h0 : ((1 : Int) - 1).toNat = 0 := rfl
  simp only [Bool.false_eq_true, if_false, exec_bind, exec_getS, hfi, h0, hs0, exec_pure, Option.isNone_none, if_true,
    exec_modS]
  exact ⟨_, rfl, rfl, rfl, rfl⟩

/-! ### the compile model's `compileFile`, `runProgram` without parameters -/

theorem mainParams_frag : ∀ (file : List Stmt) (B : List String), StmtsF B file = true → Sem.mainParams file = ([], false)
  | [], _, _ => rfl
  | s :: r, B, h => by
    have h' : StmtF B s = true ∧ StmtsF (defsOf B s) r = true := by
      have : StmtsF B (s :: r) = (StmtF B s && StmtsF (defsOf B s) r) := rfl
      rw [this, Bool.and_eq_true] at h; exact h
    have ih := mainParams_frag r _ h'.2
    cases s with
    | declParam pos specs => cases h'.1
    | _ => simp only [Sem.mainParams]; exact ih

/-- what `compileProg` returns -/
theorem compileFile_inv {builtins : List (String × Nat)} {disabled : List String} {file : List Stmt} {bc : Compile.Bytecode}
    (h : Compile.compileFile builtins disabled file = .ok bc) :
    ∃ cs' : CState, runCM (compileStmts file) (Compile.initState builtins disabled) = (.ok (), cs') ∧
      bc.constants = cs'.constants ∧ bc.main.numLocals ≤ 256 ∧
      (∀ t r, cs'.tables = t :: r → bc.main.numParams = t.numParams ∧ bc.main.numLocals = t.maxDefinition) ∧
      (bc.main.insts = cs'.insts ∨
        ∃ csr, runCM (Compile.emit_ 0 Compile.OpReturn [0]) cs' = (.ok (), csr) ∧ bc.main.insts = csr.insts) := by
  unfold Compile.compileFile at h
  change (runCM (Compile.compileProg file) (Compile.initState builtins disabled)).1 = .ok bc at h
  cases hr : runCM (Compile.compileProg file) (Compile.initState builtins disabled) with
  | mk r csf =>
    rw [hr] at h
    simp only at h
    subst h
    unfold Compile.compileProg at hr
    obtain ⟨_, cs', hst, hr⟩ := bind_inv hr
    obtain ⟨fn, cs2, hfin, hr⟩ := bind_inv hr
    refine ⟨cs', hst, ?_⟩
    -- the numLocals check
    split at hr
    · simp [Compile.runCM_throw] at hr
    rename_i hnl
    obtain ⟨csx, cs3, hg, hr⟩ := bind_inv hr
    rw [Compile.runCM_get] at hg
    simp only [Prod.mk.injEq, Except.ok.injEq] at hg
    obtain ⟨rfl, rfl⟩ := hg
    obtain ⟨hbc, _⟩ := pure_inv hr
    subst hbc
    -- Bytecode()
    unfold Compile.finishFn at hfin
    obtain ⟨s0, cs0, hg0, hfin⟩ := bind_inv hfin
    rw [Compile.runCM_get] at hg0
    simp only [Prod.mk.injEq, Except.ok.injEq] at hg0
    obtain ⟨rfl, rfl⟩ := hg0
    try simp only at hfin
    split at hfin
    · simp [Compile.cpanic, Compile.runCM_throw] at hfin
    rename_i lastOp pend hscan
    unfold Compile.finishTail at hfin
    obtain ⟨_, csr, hret, hfin⟩ := bind_inv hfin
    obtain ⟨sg, cs4, hg4, hfin⟩ := bind_inv hfin
    rw [Compile.runCM_get] at hg4
    simp only [Prod.mk.injEq, Except.ok.injEq] at hg4
    obtain ⟨rfl, rfl⟩ := hg4
    obtain ⟨th, cs5, hht, hfin⟩ := bind_inv hfin
    obtain ⟨hfn, rfl⟩ := pure_inv hfin
    subst hfn
    have htabs : csr.tables = cs'.tables := by
      split at hret
      · have := Shape.of_emit_ hret; rw [this.eq]
      · obtain ⟨_, rfl⟩ := pure_inv hret; rfl
    have hcs5 : cs2 = csr ∧ ∀ t r, cs'.tables = t :: r → th = t := by
      unfold Compile.headTable at hht
      obtain ⟨sx, csx, hgx, hht⟩ := bind_inv hht
      rw [Compile.runCM_get] at hgx
      simp only [Prod.mk.injEq, Except.ok.injEq] at hgx
      obtain ⟨rfl, rfl⟩ := hgx
      split at hht
      · rename_i t0 r0 ht0
        obtain ⟨rfl, rfl⟩ := pure_inv hht
        refine ⟨rfl, ?_⟩
        intro t r htr
        rw [htabs, htr] at ht0
        simp only [List.cons.injEq] at ht0
        exact ht0.1.symm
      · simp [Compile.cpanic, Compile.runCM_throw] at hht
    refine ⟨?_, by simpa [Compile.maxNumLocals] using hnl, ?_, ?_⟩
    · show cs2.constants = cs'.constants
      rw [hcs5.1]
      split at hret
      · obtain ⟨bs, _, e⟩ := emit__inv hret; rw [e]
      · obtain ⟨_, rfl⟩ := pure_inv hret; rfl
    · intro t r htr
      have := hcs5.2 t r htr
      subst this
      exact ⟨rfl, rfl⟩
    · split at hret
      · exact .inr ⟨csr, hret, rfl⟩
      · obtain ⟨_, rfl⟩ := pure_inv hret
        exact .inl rfl

theorem runProgram_frag (F : FloatOps) (fuel : Nat) (file : List Stmt) (args : List V)
    (h : Sem.mainParams file = ([], false)) :
    Sem.runProgram F fuel file args = (do
      let (c, _) ← Sem.execList F fuel [[]] file
      match c with
      | .ret v => pure (.value v)
      | .thr e => pure (.error e)
      | _ => pure (.value .undefined)) := by
  unfold Sem.runProgram
  rw [h]
  simp
  rfl

/-! ### `Run` around the loop -/

theorem exec_clearCurrentFrame (s : State) :
    exec clearCurrentFrame s = (.ok (), { s with frames := s.frames.modify s.curFrame fun f => { f with free := none, fn := none, handlers := none } }) := rfl

/-- `Run`: the loop ended (RETURN in the main frame) without an error -/
theorem runFrom_value (F : FloatOps) (sI s0 s2 : State) (n : Nat) (v : V)
    (hpro : exec (prologue .nil []) sI = (.ok (), s0))
    (hloop : ∀ k, exec (loopF F (n + 1 + k)) s0 = (.ok (some ()), s2))
    (herr : s2.err = none) (hsp : 1 ≤ s2.sp ∧ s2.sp < 2048) (hv : s2.stack[(s2.sp - 1).toNat]! = v) (hsc : Scalar v) :
    ∀ fuel, n + 1 ≤ fuel → (runFrom F fuel .nil [] sI).1 = VM.Outcome.value v := by
  intro fuel hf
  obtain ⟨k, rfl⟩ : ∃ k, fuel = n + 1 + k := ⟨fuel - (n + 1), by omega⟩
  unfold runFrom
  have hp : (prologue .nil []).run.run sI = (.ok (), s0) := hpro
  rw [hp]
  simp only
  have hfu : n + 1 + k = (n + k) + 1 := by omega
  have hl : (loopF F (n + 1 + k)).run.run s0 = (.ok (some ()), s2) := hloop k
  conv => lhs; rw [hfu]; unfold runFrom.go
  rw [← hfu, hl]
  simp only
  have hc : clearCurrentFrame.run.run s2 = exec clearCurrentFrame s2 := rfl
  rw [hc, exec_clearCurrentFrame]
  simp only
  unfold runFrom.finish
  simp only [herr]
  have hlt : s2.sp < (stackSize : Int) := by rw [stackSize_eq]; exact hsp.2
  simp only [hlt, if_true]
  have hr : ∀ w : State, w.sp = s2.sp → w.stack = s2.stack → resultValue.run.run w = (.ok v, w) := by
    intro w h1 h2
    show exec resultValue w = _
    unfold resultValue
    simp only [exec_bind, exec_getSp, h1]
    rw [exec_stackGet' _ _ (by omega), h2, hv]
    cases v <;> first | exact False.elim hsc | rfl
  rw [hr] <;> rfl

/-- `Run`: the loop ended with an uncaught error -/
theorem runFrom_error (F : FloatOps) (sI s0 s2 : State) (n : Nat) (e : VmErr)
    (hpro : exec (prologue .nil []) sI = (.ok (), s0))
    (hloop : ∀ k, exec (loopF F (n + 1 + k)) s0 = (.ok (some ()), s2))
    (herr : s2.err = some e) :
    ∀ fuel, n + 1 ≤ fuel → ∃ sfin, runFrom F fuel .nil [] sI = (VM.Outcome.error e, sfin) ∧ sfin.heap = s2.heap := by
  intro fuel hf
  obtain ⟨k, rfl⟩ : ∃ k, fuel = n + 1 + k := ⟨fuel - (n + 1), by omega⟩
  refine ⟨{ s2 with frames := s2.frames.modify s2.curFrame fun f => { f with free := none, fn := none, handlers := none } },
    ?_, rfl⟩
  unfold runFrom
  have hp : (prologue .nil []).run.run sI = (.ok (), s0) := hpro
  rw [hp]
  simp only
  have hfu : n + 1 + k = (n + k) + 1 := by omega
  have hl : (loopF F (n + 1 + k)).run.run s0 = (.ok (some ()), s2) := hloop k
  conv => lhs; rw [hfu]; unfold runFrom.go
  rw [← hfu, hl]
  simp only
  have hc : clearCurrentFrame.run.run s2 = exec clearCurrentFrame s2 := rfl
  rw [hc, exec_clearCurrentFrame]
  simp only
  unfold runFrom.finish
  simp only [herr]

theorem startFrame (bc : Compile.Bytecode) :
    (startState bc).frames[(startState bc).curFrame]! = { fn := some 0, free := none, handlers := none, bp := 0, discard := false, ip := 0 } := by
  simp [startState, emptyFrames, frameSize, Array.getElem_modify]

theorem startState_size (bc : Compile.Bytecode) : (startState bc).stack.size = 2048 := by
  simp [startState, fillU_size, stackSize]

theorem constsOK_map (K : Array Compile.Const) : ConstsOK K (K.map constV) := by
  intro i cv h
  simp [Array.getElem?_map, h, constV]

/-! ### whole scripts -/

/-- the size of the instruction stream before `Bytecode()` looks whether a RETURN must be appended -/
def streamSize (builtins : List (String × Nat)) (disabled : List String) (file : List Stmt) : Nat :=
  (runCM (compileStmts file) (Compile.initState builtins disabled)).2.insts.size

/-- what `VM.Run` of the loaded script does when the reference semantics completes the script's
    statement list with `c` in state `t'` -/
def ProgOut (F : FloatOps) (bc : Compile.Bytecode) (appended : Prop) (t' : State) : Sem.Comp → Prop
  | .ret v => Scalar v ∧ ∃ n, ∀ fuel, n ≤ fuel → (runFrom F fuel .nil [] (loadProg bc)).1 = VM.Outcome.value v
  | .normal => appended → ∃ n, ∀ fuel, n ≤ fuel → (runFrom F fuel .nil [] (loadProg bc)).1 = VM.Outcome.value .undefined
  | .thr a => ∃ (nm msg : String) (n : Nat), ErrIs t'.heap a nm msg ∧ ∀ fuel, n ≤ fuel →
      ∃ a' sfin, runFrom F fuel .nil [] (loadProg bc) = (VM.Outcome.error (.rt a'), sfin) ∧ ErrIs sfin.heap a' nm msg
  | _ => False

theorem loop_ret {F : FloatOps} {s0 s' s'' : State} (hr : Reach F s0 s') (hab : s'.abort = false)
    (hstep : exec (step F) s' = (.ok .ret, s'')) :
    ∃ n, ∀ k, exec (loopF F (n + 1 + k)) s0 = (.ok (some ()), s'') := by
  obtain ⟨n, hn⟩ := hr
  refine ⟨n, fun k => ?_⟩
  rw [Nat.add_assoc, hn, Nat.add_comm 1 k, loopF_succ F k hab, exec_bind, hstep]
  rfl

set_option maxHeartbeats 800000 in
theorem prog_sim (F : FloatOps) {builtins : List (String × Nat)} {disabled : List String} {file : List Stmt}
    {bc : Compile.Bytecode} (hF : StmtsF [] file = true) (hc : Compile.compileFile builtins disabled file = .ok bc)
    (hsp : bc.main.numLocals + needL file ≤ 2048) (t : State) (hrel : HeapRel (startState bc) t)
    (fuel : Nat) (ss ss' : Sem.SemSt) (c : Sem.Comp) (env' : Sem.Env) (t' : State)
    (hsem : exec ((Sem.execList F fuel [[]] file).run ss) t = (.ok ((c, env'), ss'), t')) :
    ss = ss' ∧ ProgOut F bc (streamSize builtins disabled file < bc.main.insts.size) t' c := by
  obtain ⟨cs', hst, hconst, hnl256, hhead, hins⟩ := compileFile_inv hc
  have hok0 : CsOK (Compile.initState builtins disabled) := ⟨rfl, (by show (-1 : Int) ≤ -1; omega), Nat.le_refl _⟩
  obtain ⟨hse, hok', _, hsim⟩ := good_stmts F file [] hF _ cs' hst (by intro n hn; cases hn) hok0
  have htabs : TEff [({ disabled := disabled } : Table)] cs'.tables := hse.tabs
  obtain ⟨h', r', hts, hb', _, _, htl⟩ := htabs.cons_inv
  have hhp := htabs.headParams
  rw [hts] at hhp
  obtain ⟨hnp, hnl⟩ := hhead h' r' hts
  have hnp0 : bc.main.numParams = 0 := by rw [hnp]; exact hhp
  have hfm : fnMax cs'.tables = bc.main.numLocals := by
    rw [hts, hnl]
    have : h'.block = false := hb'
    simp [fnMax, this]
  have hpro := exec_prologue bc hnp0 (by simp only [stackSize]; omega)
  have hstream : streamSize builtins disabled file = cs'.insts.size := by unfold streamSize; rw [hst]
  -- the start state
  have hfr := startFrame bc
  have hcode : CodeAt (startState bc) (Eval.codeOfCFn bc.main) := ⟨0, 0, none, by rw [hfr], rfl, rfl⟩
  have hvm : VMOk cs'.constants (Eval.codeOfCFn bc.main) 0 (0 + bc.main.numLocals) (startState bc) :=
    ⟨rfl, startState_size bc, hcode, by rw [hfr]; rfl, by
      show ConstsOK cs'.constants (bc.constants.map constV)
      rw [hconst]; exact constsOK_map _, by show ((0 + bc.main.numLocals : Nat) : Int) ≤ (bc.main.numLocals : Int); omega⟩
  have hcodeHas : CodeHas (Eval.codeOfCFn bc.main) cs'.insts 0 := by
    intro i _ hi
    show bc.main.insts[i]? = _
    rcases hins with h | ⟨csr, hem, h⟩
    · rw [h]
    · obtain ⟨bs, _, e⟩ := emit__inv hem
      rw [h, e]
      show (cs'.insts ++ _)[i]? = _
      rw [Array.getElem?_append_left hi]
  have hstat : Static (localIdx (Compile.initState builtins disabled)) (nextIndex (Compile.initState builtins disabled).tables)
      [[]] [] := by
    refine ⟨?_, (fun i a h => by cases h), List.Pairwise.nil⟩
    intro n i hi
    rw [localIdx_eq] at hi
    simp [Compile.initState, locOf, Compile.lookupSym, slotOf] at hi
  have hdyn : Dyn [] t (startState bc) 0 := ⟨(fun i a h => by cases h), hrel⟩
  obtain ⟨rfl, out⟩ := hsim fuel cs'.constants (Eval.codeOfCFn bc.main) 0 bc.main.numLocals [[]] [] (startState bc) t ss ss' c
    env' t' (Compile.IsPre.refl _) hcodeHas hvm rfl (by show ((bc.main.numLocals : Nat) : Int) + _ ≤ 2048; omega)
    (Nat.le_of_eq hfm) hstat hdyn hsem
  refine ⟨rfl, ?_⟩
  -- facts every reached state shares with the start state
  have hfacts : ∀ s' : State, Frm (startState bc) s' 0 bc.main.numLocals →
      s'.abort = false ∧ CodeAt s' (Eval.codeOfCFn bc.main) ∧ (s'.frames[s'.curFrame]!).bp = 0 ∧
      (s'.frames[s'.curFrame]!).fn = some 0 ∧ (s'.frames[s'.curFrame]!).discard = false ∧
      (s'.frames[s'.curFrame]!).handlers = none ∧
      s'.heap[0]? = some (.fn 0 none) ∧ (s'.codes[0]!).numLocals = bc.main.numLocals ∧ s'.frameIndex = 1 ∧
      s'.stack.size = 2048 ∧ s'.err = none := by
    intro s' hf
    have hs := hf.same
    refine ⟨by rw [hs.abort]; rfl, hcode.of_same hs hf.heap, ?_, ?_, ?_, ?_, by rw [hf.heap]; rfl, by rw [hs.codes]; rfl,
      by rw [hs.frameIndex]; rfl, by rw [hf.size]; exact startState_size bc, by rw [hs.err]; rfl⟩ <;>
    · rw [hs.frames, hs.curFrame, hfr]
  have hNLb : bc.main.numLocals + 1 < 2048 := by omega
  cases c with
  | brk => exact out
  | cont => exact out
  | ret v =>
    obtain ⟨s', hr, hf, _, hsv, p, b0, b1, hip, h0, hb0, h1, hcase⟩ := out
    obtain ⟨hab, hca, hbp, hfn, hdis, _, hcell, hNL, hfi, hsz, herr⟩ := hfacts s' hf
    have hsp0 : (startState bc).sp = (bc.main.numLocals : Int) := rfl
    obtain ⟨s'', hstep, hsp'', hv'', hsame'', _⟩ := step_return_main F hca p hip b0 b1 h0 hb0 h1 0 0 none hbp hfn hdis hcell
      bc.main.numLocals hNL hfi hsz v (by
        rcases hcase with ⟨e1, e2, e3⟩ | ⟨e1, e2, e3⟩
        · exact .inl ⟨e1, by rw [e2, hsp0], by rw [← e3, hsp0]; rfl⟩
        · exact .inr ⟨e1, by rw [e2, hsp0], e3⟩) hNLb
    obtain ⟨n, hloop⟩ := loop_ret hr hab hstep
    exact ⟨hsv, n + 1, runFrom_value F _ _ s'' n v hpro hloop (by rw [hsame''.err]; exact herr) (by omega)
      (by rw [hsp'']; have : ((bc.main.numLocals : Int) + 1 - 1).toNat = bc.main.numLocals := by omega
          rw [this]; exact hv'') hsv⟩
  | normal =>
    intro happ
    obtain ⟨binds', s', hr, hf, hip, hsp', _, _, _⟩ := out
    obtain ⟨hab, hca, hbp, hfn, hdis, _, hcell, hNL, hfi, hsz, herr⟩ := hfacts s' hf
    have hsp0 : (startState bc).sp = (bc.main.numLocals : Int) := rfl
    rcases hins with h | ⟨csr, hem, h⟩
    · rw [hstream, h] at happ; omega
    · obtain ⟨bs, hbs, e⟩ := emit__inv hem
      obtain ⟨_, _, b, rfl, hb⟩ := mk_w1 Compile.OpReturn rfl _ _ hbs
      have hbk : ∀ k (hk : k < 2), (Eval.codeOfCFn bc.main).insts[cs'.insts.size + k]? = [UInt8.ofNat Compile.OpReturn, b][k]? := by
        intro k hk
        show bc.main.insts[_]? = _
        rw [h, e]
        exact emit_bytes _ _ (by simpa using hk)
      obtain ⟨s'', hstep, hsp'', hv'', hsame'', _⟩ := step_return_main F hca cs'.insts.size hip _ b
        (by simpa using hbk 0 (by omega)) rfl (by simpa using hbk 1 (by omega)) 0 0 none hbp hfn hdis hcell
        bc.main.numLocals hNL hfi hsz .undefined (.inr ⟨by rw [hb]; rfl, by rw [hsp', hsp0], rfl⟩) hNLb
      obtain ⟨n, hloop⟩ := loop_ret hr hab hstep
      exact ⟨n + 1, runFrom_value F _ _ s'' n .undefined hpro hloop (by rw [hsame''.err]; exact herr) (by omega)
        (by rw [hsp'']; have : ((bc.main.numLocals : Int) + 1 - 1).toNat = bc.main.numLocals := by omega
            rw [this]; exact hv'') trivial⟩
  | thr a =>
    obtain ⟨u, oe, tx, hfail, ⟨nm, msg, rfl⟩, hf, _, hrelu, hrt⟩ := out
    obtain ⟨hab, _, _, _, _, hh, _, _, hfi, _, _⟩ := hfacts u hf
    rw [exec_rtErr_named] at hrt
    simp only [Prod.mk.injEq, Except.ok.injEq] at hrt
    obtain ⟨rfl, rfl⟩ := hrt
    obtain ⟨u', hfw, herr', hheap', _⟩ := failWith_uncaught nm msg u hh hfi
    obtain ⟨n, hn⟩ := hfail
    have hloop : ∀ k, exec (loopF F (n + 1 + k)) (startState bc) = (.ok (some ()), u') := by
      intro k
      rw [hn k, exec_bind, hfw]
      rfl
    refine ⟨nm, msg, n + 1, errIs_rtErr nm msg tx, ?_⟩
    intro fuel hfuel
    obtain ⟨sfin, hrun, hhe⟩ := runFrom_error F _ _ u' n _ hpro hloop herr' fuel hfuel
    exact ⟨_, sfin, hrun, by rw [hhe, hheap']; exact errIs_rtErr nm msg u⟩

/-- the script ends with a `return` statement -/
def lastIsReturn : List Stmt → Bool
  | [] => false
  | [.return_ _ _] => true
  | _ :: r => lastIsReturn r

/-- a statement list that ends with `return` never completes normally -/
theorem not_normal_of_lastIsReturn (F : FloatOps) : ∀ (file : List Stmt), lastIsReturn file = true →
    ∀ (fuel : Nat) (env : Sem.Env) (ss ss' : Sem.SemSt) (t t' : State) (c : Sem.Comp) (env' : Sem.Env),
    exec ((Sem.execList F fuel env file).run ss) t = (.ok ((c, env'), ss'), t') → c ≠ .normal
  | [], h, _, _, _, _, _, _, _, _, _ => by cases h
  | s :: r, h, fuel, env, ss, ss', t, t', c, env', hsem => by
    cases fuel with
    | zero => rw [execList_zero] at hsem; exact (sm_unsupported_ne hsem).elim
    | succ fuel =>
      rw [execList_cons] at hsem
      obtain ⟨⟨c1, env1⟩, ss1, t1, hs1, hsem⟩ := sm_bind_inv hsem
      cases c1 with
      | normal =>
        simp only at hsem
        cases r with
        | nil =>
          -- `s` is the `return`
          exfalso
          cases s with
          | return_ pos e =>
            cases fuel with
            | zero => exact execStmt_zero' hs1
            | succ fuel =>
              cases e with
              | none =>
                rw [execStmt_return0] at hs1
                obtain ⟨hce, _, _⟩ := sm_pure_inv hs1
                simp at hce
              | some x =>
                rw [execStmt_return1] at hs1
                obtain ⟨rr, ss2, t2, _, h2⟩ := sm_bind_inv hs1
                cases rr with
                | thr a => obtain ⟨hce, _, _⟩ := sm_pure_inv h2; simp at hce
                | val v => obtain ⟨hce, _, _⟩ := sm_pure_inv h2; simp at hce
          | _ => simp [lastIsReturn] at h
        | cons s2 r2 =>
          have h' : lastIsReturn (s2 :: r2) = true := by
            cases s <;> simpa [lastIsReturn] using h
          exact not_normal_of_lastIsReturn F (s2 :: r2) h' fuel env1 ss1 ss' t1 t' c env' hsem
      | ret v =>
        simp only at hsem
        obtain ⟨hce, _, _⟩ := sm_pure_inv hsem
        simp only [Prod.mk.injEq] at hce
        rw [← hce.1]; simp
      | thr a =>
        simp only at hsem
        obtain ⟨hce, _, _⟩ := sm_pure_inv hsem
        simp only [Prod.mk.injEq] at hce
        rw [← hce.1]; simp
      | brk =>
        simp only at hsem
        obtain ⟨hce, _, _⟩ := sm_pure_inv hsem
        simp only [Prod.mk.injEq] at hce
        rw [← hce.1]; simp
      | cont =>
        simp only at hsem
        obtain ⟨hce, _, _⟩ := sm_pure_inv hsem
        simp only [Prod.mk.injEq] at hce
        rw [← hce.1]; simp

/-- `Sem.runProgram` of a script of the fragment that ends with `return`, or for which `Bytecode()`
    appended its RETURN (always the case unless the stream ends in a RETURN no jump passes over) -/
theorem prog_sim_run (F : FloatOps) {builtins : List (String × Nat)} {disabled : List String} {file : List Stmt}
    {bc : Compile.Bytecode} (hF : StmtsF [] file = true) (hc : Compile.compileFile builtins disabled file = .ok bc)
    (hsp : bc.main.numLocals + needL file ≤ 2048)
    (happ : streamSize builtins disabled file < bc.main.insts.size ∨ lastIsReturn file = true)
    (t : State) (hrel : HeapRel (startState bc) t)
    (fuel : Nat) (ss ss' : Sem.SemSt) (res : Sem.Result) (t' : State)
    (hsem : exec ((Sem.runProgram F fuel file []).run ss) t = (.ok (res, ss'), t')) :
    ss = ss' ∧
    match res with
    | .value v => ∃ n, ∀ fuel, n ≤ fuel → (runFrom F fuel .nil [] (loadProg bc)).1 = VM.Outcome.value v
    | .error a => ∃ (nm msg : String) (n : Nat), ErrIs t'.heap a nm msg ∧ ∀ fuel, n ≤ fuel →
        ∃ a' sfin, runFrom F fuel .nil [] (loadProg bc) = (VM.Outcome.error (.rt a'), sfin) ∧ ErrIs sfin.heap a' nm msg := by
  rw [runProgram_frag F fuel file [] (mainParams_frag file [] hF)] at hsem
  obtain ⟨⟨c, env'⟩, ss1, t1, hl, hsem⟩ := sm_bind_inv hsem
  obtain ⟨rfl, out⟩ := prog_sim F hF hc hsp t hrel fuel ss ss1 c env' t1 hl
  cases c with
  | ret v =>
    obtain ⟨hre, rfl, rfl⟩ := sm_pure_inv hsem
    subst hre
    exact ⟨rfl, out.2⟩
  | thr a =>
    obtain ⟨hre, rfl, rfl⟩ := sm_pure_inv hsem
    subst hre
    exact ⟨rfl, out⟩
  | normal =>
    obtain ⟨hre, rfl, rfl⟩ := sm_pure_inv hsem
    subst hre
    rcases happ with happ | hlast
    · exact ⟨rfl, out happ⟩
    · exact absurd rfl (not_normal_of_lastIsReturn F file hlast fuel [[]] ss ss t t1 .normal env' hl)
  | brk => exact out.elim
  | cont => exact out.elim

end UgoVerif.CompSim
