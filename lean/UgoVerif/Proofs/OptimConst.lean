import UgoVerif.Proofs.OptimEqs
/-
  The private evaluator of the optimizer model (`compilable` + `cEval`) agrees with the
  reference semantics: a compilable expression evaluates, in EVERY environment, state and fuel
  in which `Sem.evalExpr` ends properly, to the value / the thrown error `cEval` computed.
-/
namespace UgoVerif.Proofs.OptimSem
open UgoVerif UgoVerif.Go UgoVerif.Ast UgoVerif.VM UgoVerif.Sem UgoVerif.Proofs.ModCache
open UgoVerif.Model.Optim
set_option linter.unusedSimpArgs false

/-! ### failing computations -/

def Fails {α} (m : SM α) : Prop := ∀ σ s, ∃ e s', srun m σ s = (.error e, s')

theorem fails_zero (F : FloatOps) (env : Env) (e : Expr) : Fails (evalExpr F 0 env e) := by
  intro σ s
  rw [eval_zero, srun_liftM]
  exact ⟨_, _, rfl⟩

theorem Fails.bind {α β} {m : SM α} (f : α → SM β) (h : Fails m) : Fails (m >>= f) := by
  intro σ s
  obtain ⟨e, s', he⟩ := h σ s
  rw [srun_bind, he]
  exact ⟨_, _, rfl⟩

theorem Refines.of_fails {α} {m m' : SM α} (h : Fails m) : Refines m m' := Refines.of_fail h

/-- a pure operator-layer step in front of a continuation -/
theorem Refines.liftM_pure {α β} {m : M α} (hm : IsPure m) {g : α → SM β} {k : SM β}
    (h : ∀ b, runM m = .ok b → Refines (g b) k) : Refines (Sem.liftM m >>= g) k := by
  intro σ s r s' hrun
  rw [srun_bind, srun_liftM, hm.h s] at hrun
  cases hr : runM m with
  | error e => rw [hr] at hrun; simp at hrun
  | ok b =>
    rw [hr] at hrun
    exact h b hr σ s r s' hrun

theorem raise_bind (oe : OpErr) (K : ER → SM ER) (hK : ∀ a, K (.thr a) = pure (.thr a)) :
    raise oe >>= K = raise oe := by
  simp [raise, hK]

/-! ### constant expressions -/

/-- whenever `e` evaluates properly it behaves like `k` -/
def ConstTo (F : FloatOps) (e : Expr) (k : SM ER) : Prop := ∀ fuel env, Refines (evalExpr F fuel env e) k

theorem constTo_step {F : FloatOps} {e x : Expr} {K : Nat → Env → ER → SM ER} {k kx : SM ER}
    (heq : ∀ f env, evalExpr F (f+1) env e = evalExpr F f env x >>= K f env)
    (hx : ConstTo F x kx) (hk : ∀ f env, Refines (kx >>= K f env) k) : ConstTo F e k := by
  intro fuel env
  cases fuel with
  | zero => exact Refines.of_fails (fails_zero F env e)
  | succ f =>
    rw [heq]
    exact Refines.trans (Refines.bind (hx f env) (fun a => Refines.refl _)) (hk f env)

def kOf : CR → SM ER
  | .val v => pure (.val v)
  | .err oe => raise oe
  | .unknown => Sem.liftM (unsupported "unknown")

def Known : CR → Prop
  | .unknown => False
  | _ => True

structure Agrees (F : FloatOps) (e : Expr) (c : CR) : Prop where
  scalar : ∀ v, c = .val v → Scalar v
  run : Known c → ConstTo F e (kOf c)

theorem agrees_unknown (F : FloatOps) (e : Expr) : Agrees F e .unknown :=
  ⟨fun _ h => (by cases h), fun h => (by cases h)⟩

theorem agrees_lit {F : FloatOps} {e : Expr} {v : V} (hv : Scalar v)
    (h : ∀ f env, evalExpr F (f+1) env e = pure (.val v)) : Agrees F e (.val v) := by
  refine ⟨fun w hw => (by cases hw; exact hv), fun _ => ?_⟩
  intro fuel env
  cases fuel with
  | zero => exact Refines.of_fails (fails_zero F env e)
  | succ f => rw [h]; exact Refines.refl _

theorem both_true {a b : Option Bool} (h : both a b = some true) : a = some true ∧ b = some true := by
  cases a <;> cases b <;> simp [both] at h ⊢
  exact h

theorem unK_thr (F : FloatOps) (tok : Nat) (a : Addr) : unK F tok (.thr a) = pure (.thr a) := rfl
theorem binK_thr (F : FloatOps) (f : Nat) (env : Env) (tok : Nat) (r : Expr) (a : Addr) :
    binK F f env tok r (.thr a) = pure (.thr a) := rfl
theorem binK2_thr (F : FloatOps) (tok : Nat) (lv : V) (a : Addr) : binK2 F tok lv (.thr a) = pure (.thr a) := rfl
theorem condK_thr (F : FloatOps) (f : Nat) (env : Env) (t e : Expr) (a : Addr) :
    condK F f env t e (.thr a) = pure (.thr a) := rfl

/-- an error of the first operand is the error of the node -/
theorem agrees_err_step {F : FloatOps} {e x : Expr} {K : Nat → Env → ER → SM ER} {oe : OpErr}
    (heq : ∀ f env, evalExpr F (f+1) env e = evalExpr F f env x >>= K f env)
    (hK : ∀ f env a, K f env (.thr a) = pure (.thr a))
    (hx : Agrees F x (.err oe)) : Agrees F e (.err oe) := by
  refine ⟨fun _ h => (by cases h), fun _ => ?_⟩
  refine constTo_step heq (hx.run trivial) (fun f env => ?_)
  show Refines (raise oe >>= K f env) (raise oe)
  rw [raise_bind oe _ (hK f env)]
  exact Refines.refl _

theorem agrees_unary {F : FloatOps} {p : Pos} {tok : Nat} {x : Expr} (hx : Agrees F x (cEval F x)) :
    Agrees F (.unary p tok x) (cEval F (.unary p tok x)) := by
  cases hc : cEval F x with
  | unknown => simp only [cEval, hc]; exact agrees_unknown _ _
  | err oe =>
    simp only [cEval, hc]
    rw [hc] at hx
    exact agrees_err_step (K := fun _ _ => unK F tok) (fun f env => eval_unary F f env p tok x) (fun _ _ a => rfl) hx
  | val v =>
    simp only [cEval, hc]
    rw [hc] at hx
    have hv : Scalar v := hx.scalar v rfl
    cases hr : runM (vUnary F (tokOfNat tok) v) with
    | error e => exact agrees_unknown _ _
    | ok b =>
      cases b with
      | ok v' =>
        refine ⟨fun w hw => ?_, fun _ => ?_⟩
        · simp only [crOp] at hw
          cases hw
          exact (vUnary_post F (tokOfNat tok) hv).of_runM hr v' rfl
        · refine constTo_step (K := fun _ _ => unK F tok) (fun f env => eval_unary F f env p tok x) (hx.run trivial) (fun f env => ?_)
          show Refines (pure (ER.val v) >>= unK F tok) _
          rw [pure_bind]
          refine Refines.liftM_pure (vUnary_pure F (tokOfNat tok) hv) (fun b hb => ?_)
          rw [hr] at hb
          cases hb
          exact Refines.refl _
      | error oe =>
        refine ⟨fun w hw => (by simp only [crOp] at hw; cases hw), fun _ => ?_⟩
        refine constTo_step (K := fun _ _ => unK F tok) (fun f env => eval_unary F f env p tok x) (hx.run trivial) (fun f env => ?_)
        show Refines (pure (ER.val v) >>= unK F tok) _
        rw [pure_bind]
        refine Refines.liftM_pure (vUnary_pure F (tokOfNat tok) hv) (fun b hb => ?_)
        rw [hr] at hb
        cases hb
        exact Refines.refl _

/-- the first operand evaluates to `v`; the rest of the node is the continuation on `v` -/
theorem agrees_val_step {F : FloatOps} {e x : Expr} {K : Nat → Env → ER → SM ER} {v : V} {c : CR}
    (heq : ∀ f env, evalExpr F (f+1) env e = evalExpr F f env x >>= K f env)
    (hx : Agrees F x (.val v))
    (hs : ∀ w, c = .val w → Scalar w)
    (hk : Known c → ∀ f env, Refines (K f env (.val v)) (kOf c)) : Agrees F e c := by
  refine ⟨hs, fun hkn => constTo_step heq (hx.run trivial) (fun f env => ?_)⟩
  show Refines (pure (ER.val v) >>= K f env) _
  rw [pure_bind]
  exact hk hkn f env

theorem refines_falsy {lv : V} (hlv : Scalar lv) {b : Bool} (hf : runM (isFalsy lv) = .ok b)
    {a c k : SM ER} (h : Refines (if b = true then a else c) k) :
    Refines (do if (← Sem.liftM (isFalsy lv)) then a else c) k := by
  refine Refines.liftM_pure (isFalsy_pure hlv) (fun b' hb => ?_)
  rw [hf] at hb
  cases hb
  exact h

theorem agrees_binary {F : FloatOps} {p : Pos} {tok : Nat} {l r : Expr}
    (hl : Agrees F l (cEval F l)) (hr : Agrees F r (cEval F r)) :
    Agrees F (.binary p tok l r) (cEval F (.binary p tok l r)) := by
  have heq : ∀ f env, evalExpr F (f+1) env (.binary p tok l r) = evalExpr F f env l >>= binK F f env tok r :=
    fun f env => eval_binary F f env p tok l r
  cases hc : cEval F l with
  | unknown => simp only [cEval, hc]; exact agrees_unknown _ _
  | err oe =>
    simp only [cEval, hc]
    rw [hc] at hl
    exact agrees_err_step heq (fun _ _ a => rfl) hl
  | val lv =>
    simp only [cEval, hc]
    rw [hc] at hl
    have hlv : Scalar lv := hl.scalar lv rfl
    by_cases h1 : (tok == tLAnd) = true
    · simp only [h1, if_true]
      cases hf : runM (isFalsy lv) with
      | error e => exact agrees_unknown _ _
      | ok b =>
        cases b with
        | true =>
          refine agrees_val_step heq hl (fun w hw => by cases hw; exact hlv) (fun _ f env => ?_)
          simp only [binK, h1, if_true]
          exact refines_falsy hlv hf (Refines.refl _)
        | false =>
          refine agrees_val_step heq hl hr.scalar (fun hkn f env => ?_)
          simp only [binK, h1, if_true]
          exact refines_falsy hlv hf (hr.run hkn f env)
    · simp only [h1, if_false]
      by_cases h2 : (tok == tLOr) = true
      · simp only [h2, if_true]
        cases hf : runM (isFalsy lv) with
        | error e => exact agrees_unknown _ _
        | ok b =>
          cases b with
          | true =>
            refine agrees_val_step heq hl hr.scalar (fun hkn f env => ?_)
            simp only [binK, h1, h2, if_true, if_false]
            exact refines_falsy hlv hf (hr.run hkn f env)
          | false =>
            refine agrees_val_step heq hl (fun w hw => by cases hw; exact hlv) (fun _ f env => ?_)
            simp only [binK, h1, h2, if_true, if_false]
            exact refines_falsy hlv hf (Refines.refl _)
      · simp only [h2, if_false]
        cases hc2 : cEval F r with
        | unknown => exact agrees_unknown _ _
        | err oe =>
          rw [hc2] at hr
          refine agrees_val_step heq hl (fun _ h => (by cases h)) (fun _ f env => ?_)
          simp only [binK, h1, h2, if_false]
          refine Refines.trans (Refines.bind (hr.run trivial f env) (fun a => Refines.refl _)) ?_
          show Refines (raise oe >>= binK2 F tok lv) (raise oe)
          rw [raise_bind oe (binK2 F tok lv) (fun a => rfl)]
          exact Refines.refl _
        | val rv =>
          rw [hc2] at hr
          have hrv : Scalar rv := hr.scalar rv rfl
          simp only []
          have step : ∀ (c : CR), (∀ w, c = .val w → Scalar w) →
              (Known c → Refines (binK2 F tok lv (.val rv)) (kOf c)) → Agrees F (.binary p tok l r) c := by
            intro c hs hk
            refine agrees_val_step heq hl hs (fun hkn f env => ?_)
            simp only [binK, h1, h2, if_false]
            refine Refines.trans (Refines.bind (hr.run trivial f env) (fun a => Refines.refl _)) ?_
            show Refines (pure (ER.val rv) >>= binK2 F tok lv) _
            rw [pure_bind]
            exact hk hkn
          by_cases h3 : (tok == tEqual) = true
          · simp only [h3, if_true]
            cases he : runM (vEqual F lv rv) with
            | error e => exact agrees_unknown _ _
            | ok b =>
              refine step _ (fun w hw => by cases hw; trivial) (fun _ => ?_)
              simp only [binK2, h3, if_true]
              refine Refines.liftM_pure (vEqual_pure F hlv hrv) (fun b' hb => ?_)
              rw [he] at hb
              cases hb
              exact Refines.refl _
          · simp only [h3, if_false]
            by_cases h4 : (tok == tNotEqual) = true
            · simp only [h4, if_true]
              cases he : runM (vEqual F lv rv) with
              | error e => exact agrees_unknown _ _
              | ok b =>
                refine step _ (fun w hw => by cases hw; trivial) (fun _ => ?_)
                simp only [binK2, h3, h4, if_true, if_false]
                refine Refines.liftM_pure (vEqual_pure F hlv hrv) (fun b' hb => ?_)
                rw [he] at hb
                cases hb
                exact Refines.refl _
            · simp only [h4, if_false]
              cases ho : runM (vBinaryOp F (tokOfNat tok) lv rv) with
              | error e => exact agrees_unknown _ _
              | ok b =>
                cases b with
                | ok v' =>
                  refine step _ (fun w hw => ?_) (fun _ => ?_)
                  · simp only [crOp] at hw
                    cases hw
                    exact (vBinaryOp_post F (tokOfNat tok) hlv hrv).of_runM ho v' rfl
                  · simp only [binK2, h3, h4, if_false]
                    refine Refines.liftM_pure (vBinaryOp_pure F (tokOfNat tok) hlv hrv) (fun b' hb => ?_)
                    rw [ho] at hb
                    cases hb
                    exact Refines.refl _
                | error oe =>
                  refine step _ (fun w hw => (by simp only [crOp] at hw; cases hw)) (fun _ => ?_)
                  simp only [binK2, h3, h4, if_false]
                  refine Refines.liftM_pure (vBinaryOp_pure F (tokOfNat tok) hlv hrv) (fun b' hb => ?_)
                  rw [ho] at hb
                  cases hb
                  exact Refines.refl _

theorem agrees_cond {F : FloatOps} {p : Pos} {c t e : Expr}
    (hc : Agrees F c (cEval F c))
    (ht : ∀ cv, cEval F c = .val cv → runM (isFalsy cv) = .ok false → Agrees F t (cEval F t))
    (he : ∀ cv, cEval F c = .val cv → runM (isFalsy cv) = .ok true → Agrees F e (cEval F e)) :
    Agrees F (.cond p c t e) (cEval F (.cond p c t e)) := by
  have heq : ∀ f env, evalExpr F (f+1) env (.cond p c t e) = evalExpr F f env c >>= condK F f env t e :=
    fun f env => eval_cond F f env p c t e
  cases hcc : cEval F c with
  | unknown => simp only [cEval, hcc]; exact agrees_unknown _ _
  | err oe =>
    simp only [cEval, hcc]
    rw [hcc] at hc
    exact agrees_err_step heq (fun _ _ a => rfl) hc
  | val cv =>
    simp only [cEval, hcc]
    rw [hcc] at hc
    have hcv : Scalar cv := hc.scalar cv rfl
    cases hf : runM (isFalsy cv) with
    | error e => exact agrees_unknown _ _
    | ok b =>
      cases b with
      | true =>
        have h := he cv hcc hf
        refine agrees_val_step heq hc h.scalar (fun hkn f env => ?_)
        simp only [condK]
        exact refines_falsy hcv hf (h.run hkn f env)
      | false =>
        have h := ht cv hcc hf
        refine agrees_val_step heq hc h.scalar (fun hkn f env => ?_)
        simp only [condK]
        exact refines_falsy hcv hf (h.run hkn f env)

theorem agrees_paren {F : FloatOps} {p : Pos} {x : Expr} (hx : Agrees F x (cEval F x)) :
    Agrees F (.paren p x) (cEval F (.paren p x)) := by
  simp only [cEval]
  refine ⟨hx.scalar, fun hkn fuel env => ?_⟩
  cases fuel with
  | zero => exact Refines.of_fails (fails_zero F env _)
  | succ f => rw [eval_paren]; exact hx.run hkn f env

/-- the private evaluator agrees with the reference semantics on every compilable expression -/
theorem cEval_agrees (F : FloatOps) : ∀ (e : Expr), compilable e = some true → Agrees F e (cEval F e)
  | .int p v, _ => agrees_lit (by trivial) (fun f env => eval_int F f env p v)
  | .uint p v, _ => agrees_lit (by trivial) (fun f env => eval_uint F f env p v)
  | .float p v, _ => agrees_lit (by trivial) (fun f env => eval_float F f env p v)
  | .char p v, _ => agrees_lit (by trivial) (fun f env => eval_char F f env p v)
  | .bool p v, _ => agrees_lit (by trivial) (fun f env => eval_bool F f env p v)
  | .str p v, _ => agrees_lit (by trivial) (fun f env => eval_str F f env p v)
  | .undef p, _ => agrees_lit (by trivial) (fun f env => eval_undef F f env p)
  | .paren _ x, h => agrees_paren (cEval_agrees F x (by simpa [compilable] using h))
  | .unary _ tok x, h => by
    have hx : compilable x = some true := by
      simp only [compilable] at h
      split at h
      · exact h
      · cases h
    exact agrees_unary (cEval_agrees F x hx)
  | .binary _ tok l r, h => by
    have hb : both (compilable l) (compilable r) = some true := by
      simp only [compilable] at h
      split at h
      · exact h
      · cases h
    obtain ⟨h1, h2⟩ := both_true hb
    exact agrees_binary (cEval_agrees F l h1) (cEval_agrees F r h2)
  | .cond _ (.bool pb b) t f, h => by
    simp only [compilable] at h
    refine agrees_cond (agrees_lit (by trivial) (fun f env => eval_bool F f env pb b)) ?_ ?_
    · intro cv hcv hf
      simp only [cEval, CR.val.injEq] at hcv
      subst hcv
      cases b with
      | true => exact cEval_agrees F t (by simpa using h)
      | false =>
        have : runM (isFalsy (V.bool false)) = .ok true := rfl
        rw [this] at hf; cases hf
    · intro cv hcv hf
      simp only [cEval, CR.val.injEq] at hcv
      subst hcv
      cases b with
      | false => exact cEval_agrees F f (by simpa using h)
      | true =>
        have : runM (isFalsy (V.bool true)) = .ok false := rfl
        rw [this] at hf; cases hf
  | .cond _ (.int ..) t f, h | .cond _ (.uint ..) t f, h | .cond _ (.float ..) t f, h
  | .cond _ (.char ..) t f, h | .cond _ (.str ..) t f, h | .cond _ (.undef ..) t f, h
  | .cond _ (.ident ..) t f, h | .cond _ (.array ..) t f, h | .cond _ (.map ..) t f, h
  | .cond _ (.unary ..) t f, h | .cond _ (.binary ..) t f, h | .cond _ (.cond ..) t f, h
  | .cond _ (.paren ..) t f, h | .cond _ (.index ..) t f, h | .cond _ (.selector ..) t f, h
  | .cond _ (.slice ..) t f, h | .cond _ (.call ..) t f, h | .cond _ (.func ..) t f, h
  | .cond _ (.import_ ..) t f, h => by
    simp only [compilable] at h
    repeat (first | cases h | split at h)
  | .ident _ n, h => by simp only [compilable] at h; split at h <;> cases h
  | .array .., h | .map .., h | .index .., h | .selector .., h | .slice .., h | .call .., h
  | .func .., h | .import_ .., h => by simp [compilable] at h

end UgoVerif.Proofs.OptimSem
