import UgoVerif.Proofs.C08Prims
import UgoVerif.Proofs.Copy
/-
  C08, shared heap segment: `Copy()` (VM/Copy.lean) of a value that is private or a shared
  array / map / function / error returns a PRIVATE value, appends private cells only and leaves
  every existing cell — in particular the shared segment — as it is.
-/
set_option linter.unusedVariables false
set_option linter.unusedSimpArgs false
set_option linter.unnecessarySimpa false
namespace UgoVerif.VM
open UgoVerif UgoVerif.Go UgoVerif.Proofs.Copy

/-- every cell is `CellOK`, the shared segment lies inside the heap -/
def CellsOK (n : Nat) (h : Array Cell) : Prop := n ≤ h.size ∧ ∀ a c, h[a]? = some c → CellOK n a c

theorem CellsOK.push {n : Nat} {h : Array Cell} (hh : CellsOK n h) (c : Cell) (hc : CellOK n h.size c) :
    CellsOK n (h.push c) := by
  refine ⟨by simp; exact Nat.le_succ_of_le hh.1, ?_⟩
  intro a c' hc'
  rw [Array.getElem?_push] at hc'
  split at hc'
  · rename_i e; subst e; simp at hc'; subst hc'; exact hc
  · exact hh.2 a c' hc'

theorem HeapOK.cellsOK {n : Nat} {h0 h : Array Cell} (hh : HeapOK n h0 h) : CellsOK n h := ⟨hh.size, hh.cells⟩

theorem HeapOK.ext {n : Nat} {h0 h h' : Array Cell} (hh : HeapOK n h0 h) (he : Ext h h') (hc : CellsOK n h') :
    HeapOK n h0 h' :=
  ⟨hc.1, fun a ha => by rw [he.2 a (Nat.lt_of_lt_of_le ha hh.size)]; exact hh.low a ha, hc.2⟩

/-- the specification of one copy step -/
def CopyGood (n : Nat) (f : Array Cell → V → Option (V × Array Cell)) : Prop :=
  ∀ h v v' h', CellsOK n h → CopyOK n v → f h v = some (v', h') → Ext h h' ∧ CellsOK n h' ∧ PrivV n v'

theorem mapHeap_good {n : Nat} {f : Array Cell → V → Option (V × Array Cell)} (hf : CopyGood n f) :
    ∀ xs h ys h', CellsOK n h → (∀ x ∈ xs, CopyOK n x) → mapHeap f h xs = some (ys, h') →
      Ext h h' ∧ CellsOK n h' ∧ ∀ y ∈ ys, PrivV n y := by
  intro xs
  induction xs with
  | nil => intro h ys h' hh _ hm; simp [mapHeap] at hm; obtain ⟨rfl, rfl⟩ := hm; exact ⟨Ext.refl _, hh, by simp⟩
  | cons x xs ih =>
    intro h ys h' hh hx hm
    simp only [mapHeap] at hm
    split at hm
    · cases hm
    · rename_i y h1 hxe
      split at hm
      · cases hm
      · rename_i ys' h2 hxs
        simp at hm
        obtain ⟨rfl, rfl⟩ := hm
        obtain ⟨e1, c1, p1⟩ := hf h x y h1 hh (hx x (by simp)) hxe
        obtain ⟨e2, c2, p2⟩ := ih h1 ys' h2 c1 (fun z hz => hx z (by simp [hz])) hxs
        refine ⟨Ext.trans e1 e2, c2, ?_⟩
        intro z hz
        simp at hz
        rcases hz with rfl | hz
        · exact p1
        · exact p2 z hz

theorem mapHeapKV_good {n : Nat} {f : Array Cell → V → Option (V × Array Cell)} (hf : CopyGood n f) :
    ∀ xs h ys h', CellsOK n h → (∀ p ∈ xs, CopyOK n p.2) → mapHeapKV f h xs = some (ys, h') →
      Ext h h' ∧ CellsOK n h' ∧ ∀ p ∈ ys, PrivV n p.2 := by
  intro xs
  induction xs with
  | nil => intro h ys h' hh _ hm; simp [mapHeapKV] at hm; obtain ⟨rfl, rfl⟩ := hm; exact ⟨Ext.refl _, hh, by simp⟩
  | cons x xs ih =>
    intro h ys h' hh hx hm
    obtain ⟨k, x⟩ := x
    simp only [mapHeapKV] at hm
    split at hm
    · cases hm
    · rename_i y h1 hxe
      split at hm
      · cases hm
      · rename_i ys' h2 hxs
        simp at hm
        obtain ⟨rfl, rfl⟩ := hm
        obtain ⟨e1, c1, p1⟩ := hf h x y h1 hh (hx (k, x) (by simp)) hxe
        obtain ⟨e2, c2, p2⟩ := ih h1 ys' h2 c1 (fun z hz => hx z (by simp [hz])) hxs
        refine ⟨Ext.trans e1 e2, c2, ?_⟩
        intro z hz
        simp at hz
        rcases hz with rfl | hz
        · exact p1
        · exact p2 z hz

theorem copyVal_good (n : Nat) : ∀ fuel, CopyGood n (copyVal fuel) := by
  intro fuel
  induction fuel with
  | zero => intro h v v' h' _ _ hc; simp [copyVal] at hc
  | succ fuel ih =>
    intro h v v' h' hh hv hc
    cases v <;> simp only [copyVal] at hc
    case arr a off len =>
      split at hc
      · rename_i xs hxs
        split at hc
        · rename_i ys h1 hm
          simp at hc
          obtain ⟨rfl, rfl⟩ := hc
          have hcell := hh.2 a _ hxs
          obtain ⟨e1, c1, p1⟩ := mapHeap_good ih _ _ _ _ hh
            (fun x hx => (hcell x (List.mem_of_mem_drop (List.mem_of_mem_take hx))).1) hm
          refine ⟨Ext.trans e1 (Ext.push _ _), c1.push _ ?_, ?_⟩
          · intro x hx
            have := p1 x (by simpa using hx)
            exact ⟨this.copyOK, fun _ => this⟩
          · exact c1.1
        · cases hc
      · cases hc
    case map a =>
      split at hc
      · rename_i kvs hk
        split at hc
        · rename_i kvs' h1 hm
          simp at hc
          obtain ⟨rfl, rfl⟩ := hc
          have hcell := hh.2 a _ hk
          obtain ⟨e1, c1, p1⟩ := mapHeapKV_good ih _ _ _ _ hh (fun p hp => (hcell p hp).1) hm
          refine ⟨Ext.trans e1 (Ext.push _ _), c1.push _ ?_, ?_⟩
          · intro p hp
            exact ⟨(p1 p hp).copyOK, fun _ => p1 p hp⟩
          · exact c1.1
        · cases hc
      · cases hc
    case cfun a =>
      split at hc
      · rename_i c free hf
        simp at hc
        obtain ⟨rfl, rfl⟩ := hc
        exact ⟨Ext.push _ _, hh.push _ (hh.2 a _ hf), trivial⟩
      · cases hc
    case err a =>
      split at hc
      · simp at hc
        obtain ⟨rfl, rfl⟩ := hc
        exact ⟨Ext.push _ _, hh.push _ trivial, trivial⟩
      · cases hc
    case rterr a =>
      split at hc
      · simp at hc
        obtain ⟨rfl, rfl⟩ := hc
        exact ⟨Ext.push _ _, hh.push _ trivial, trivial⟩
      · split at hc
        · simp at hc
          obtain ⟨rfl, rfl⟩ := hc
          exact ⟨Ext.trans (Ext.push _ _) (Ext.push _ _), CellsOK.push (CellsOK.push hh (Cell.err _ _ _) trivial) (Cell.rterr _) trivial, trivial⟩
        · cases hc
      · cases hc
    case host => cases hc
    all_goals
      simp at hc
      obtain ⟨rfl, rfl⟩ := hc
      exact ⟨Ext.refl _, hh, by simpa [PrivV, CopyOK] using hv⟩

section
variable {n : Nat} {h0 : Array Cell}

/-- the `Copy()` of OpStoreModule, for a value that may be a shared module constant -/
theorem copyV_spec (v : V) (hv : CopyOK n v) (s : State) (hs : HeapOK n h0 s.heap) :
    HeapOK n h0 (exec (copyV v) s).2.heap ∧ (∀ v', (exec (copyV v) s).1 = .ok v' → PrivV n v') ∧
    ∃ hp, (exec (copyV v) s).2 = { s with heap := hp } := by
  simp only [copyV, exec_bind, exec_getS]
  cases hx : copyVal (s.heap.size + 2) s.heap v with
  | none => exact ⟨hs, fun v' h => by simp at h, s.heap, rfl⟩
  | some p =>
    obtain ⟨v', h'⟩ := p
    obtain ⟨e, c, pv⟩ := copyVal_good n _ s.heap v v' h' hs.cellsOK hv hx
    refine ⟨hs.ext e c, ?_, h', rfl⟩
    intro w hw
    have : w = v' := by
      have : exec (do set { s with heap := h' }; pure v' : M V) s = (.ok v', { s with heap := h' }) := rfl
      simp only [this] at hw
      simpa using hw.symm
    subst this; exact pv

theorem tr_copyV (v : V) (hv : CopyOK n v) : Tr n h0 (PrivV n) (copyV v) := by
  apply Tr.intro'; intro s hs
  obtain ⟨h1, h2, hp, h3⟩ := copyV_spec (h0 := h0) v hv s hs.heap
  refine ⟨?_, h2⟩
  rw [h3] at h1 ⊢
  exact hs.setHeap _ h1
macro_rules | `(tactic| tr_prim) => `(tactic| refine tr_copyV _ ?_)

end
end UgoVerif.VM
