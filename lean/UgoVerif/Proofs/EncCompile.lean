import UgoVerif.Proofs.EncVM
import UgoVerif.Model.Eval
/-
  C04 for compiler output: the bytecode of the (total) compile model `Model/Compile.lean` as a
  value of the serializer model.  The compile model's function constants (`Compile.CFn`) have no
  `Free` field at all: the compiler never puts free variables into a constant — closures are
  built at run time by OpClosure from the constant and the captured cells (`emitFnConstant`
  emits `OpClosure idx nfree` and stores the bare function) — so their image has `numFree = 0`
  and `Free = nil` in the VM (`Model/Eval.allocFn`).  Imports are outside the compile model, so
  its constants are scalars and functions only.
-/
set_option linter.unusedSimpArgs false
namespace UgoVerif.Proofs.Enc
open UgoVerif UgoVerif.Go UgoVerif.Model.Enc UgoVerif.Spec.Enc UgoVerif.Spec.EncVM UgoVerif.VM UgoVerif.Gen.EncTags

/-- `*ugo.CompiledFunction` of the compile model as the serializer sees it -/
def cfOfCFn (f : Compile.CFn) : CF :=
  { numParams := BitVec.ofNat 64 f.numParams
    numLocals := BitVec.ofNat 64 f.numLocals
    instructions := some f.insts.toList
    variadic := f.variadic
    numFree := 0
    -- the compile model lists the assignments `sourceMap[ip] = pos` (`setSourceMap`): the Go map
    -- they denote
    sourceMap := some (mapOfList (f.sourceMap.map fun kv => (BitVec.ofNat 64 kv.1, BitVec.ofNat 64 kv.2))) }

def objOfCVal : Compile.CVal → Obj
  | .int v => .int v
  | .uint v => .uint v
  | .float v => .float v
  | .char v => .char v
  | .bool b => .bool b
  | .str s => .str s
  | .undefined => .undefined

def objOfConst : Compile.Const → Obj
  | .val v => objOfCVal v
  | .fn f => .compiledFunction (cfOfCFn f)

/-- `ugo.Bytecode` returned by `Compile` (no imports: `NumModules = 0`); `fs` is the file set
    of the parser, which the compile model does not touch -/
def toEnc (fs : Option FileSet) (cbc : Compile.Bytecode) : BC :=
  { fileSet := fs
    main := some (cfOfCFn cbc.main)
    constants := some (cbc.constants.toList.map objOfConst)
    numModules := 0 }

/-- the compile-model lemma C04 needs: no constant carries free variables -/
theorem constants_no_free (cbc : Compile.Bytecode) :
    (cfOfCFn cbc.main).numFree = 0 ∧
    ∀ c ∈ cbc.constants.toList, ∀ f, objOfConst c = .compiledFunction f → f.numFree = 0 := by
  refine ⟨rfl, ?_⟩
  intro c _ f h
  cases c with
  | val v => cases v <;> simp [objOfConst, objOfCVal] at h
  | fn g => simp only [objOfConst, Obj.compiledFunction.injEq] at h; rw [← h]; rfl

theorem objOfConst_encodable (C : Ctx) (c : Compile.Const) : Encodable C (objOfConst c) := by
  cases c with
  | val v => cases v <;> simp [objOfConst, objOfCVal, Encodable]
  | fn g => simp [objOfConst, Encodable]

theorem consts_encodable (C : Ctx) : ∀ cs : List Compile.Const, EncodableL C (cs.map objOfConst)
  | [] => by simp [EncodableL]
  | c :: rest => by
    simp only [List.map_cons, EncodableL]
    exact ⟨objOfConst_encodable C c, consts_encodable C rest⟩

theorem objOfConst_notModule (c : Compile.Const) : NotModule (norm (objOfConst c)) := by
  cases c with
  | val v => cases v <;> simp [objOfConst, objOfCVal, norm, NotModule]
  | fn g => simp [objOfConst, norm, NotModule]

theorem toEnc_FixOK (mods : Mods) (fs : Option FileSet) (cbc : Compile.Bytecode) :
    ∀ cs, (toEnc fs cbc).constants = some cs → ∀ c ∈ cs, FixOK mods c := by
  intro cs h c hc
  simp only [toEnc, Option.some.injEq] at h
  subst h
  obtain ⟨k, _, rfl⟩ := List.mem_map.mp hc
  exact FixOK_notModule mods _ (objOfConst_notModule k)

/-! ### compiler output is well-formed: the round trip gives back exactly the same bytecode -/

/-- the counts of a function fit Go's `int` (the compiler bounds NumLocals by 256) -/
def SmallFn (f : Compile.CFn) : Prop := f.numParams < 2 ^ 63 ∧ f.numLocals < 2 ^ 63

def SmallCounts (cbc : Compile.Bytecode) : Prop :=
  SmallFn cbc.main ∧ ∀ c ∈ cbc.constants.toList, ∀ f, c = .fn f → SmallFn f

theorem toInt_ofNat_small (n : Nat) (h : n < 2 ^ 63) : (BitVec.ofNat 64 n).toInt = (n : Int) := by
  rw [BitVec.toInt_eq_toNat_cond]
  simp only [BitVec.toNat_ofNat]
  have : n % 2 ^ 64 = n := Nat.mod_eq_of_lt (by omega)
  rw [this]
  split <;> omega

theorem cfOfCFn_WF (f : Compile.CFn) (h : SmallFn f) : WFCF (cfOfCFn f) := by
  refine ⟨?_, ?_, rfl, ?_⟩
  · simp only [cfOfCFn, toInt_ofNat_small _ h.1]; omega
  · simp only [cfOfCFn, toInt_ofNat_small _ h.2]; omega
  · intro sm hsm
    simp only [cfOfCFn, Option.some.injEq] at hsm
    subst hsm
    exact nodup_keys_mapOfList _

theorem objOfConst_WF (c : Compile.Const) (h : ∀ f, c = .fn f → SmallFn f) : WF (objOfConst c) := by
  cases c with
  | val v => cases v <;> simp [objOfConst, objOfCVal, WF]
  | fn g => simp only [objOfConst, WF]; exact cfOfCFn_WF g (h g rfl)

theorem consts_WF : ∀ cs : List Compile.Const, (∀ c ∈ cs, ∀ f, c = .fn f → SmallFn f) → WFL (cs.map objOfConst)
  | [], _ => by simp [WFL]
  | c :: rest, h => by
    simp only [List.map_cons, WFL]
    exact ⟨objOfConst_WF c (h c (List.mem_cons_self ..)),
      consts_WF rest (fun c' hc' => h c' (List.mem_cons_of_mem _ hc'))⟩

theorem toEnc_WF (fs : Option FileSet) (cbc : Compile.Bytecode) (hs : SmallCounts cbc) : WFBC (toEnc fs cbc) := by
  refine ⟨?_, ?_, (by show (0 : Int) ≤ (0#64 : BitVec 64).toInt; decide)⟩
  · intro f h
    simp only [toEnc, Option.some.injEq] at h
    subst h
    exact cfOfCFn_WF _ hs.1
  · intro cs h
    simp only [toEnc, Option.some.injEq] at h
    subst h
    exact consts_WF _ hs.2

/-! ### size bounds (every length fits Go's `int` as soon as the instruction streams do) -/

theorem encodeSized_length_le (tag : UInt8) (s : Bytes) (h : s.length < 2 ^ 63) :
    (encodeSized tag s).length ≤ 12 + s.length := by
  unfold encodeSized
  split
  · simp <;> omega
  · have := toBytes_length s.length (inInt64_ofNat _ h)
    simp only [List.length_cons, List.length_append]; omega

theorem encPairs_length_le (sm : List (BitVec 64 × BitVec 64)) : (encPairs sm).length ≤ 22 * sm.length := by
  induction sm with
  | nil => simp [encPairs]
  | cons kv sm ih =>
    have h1 := toBytes_length kv.1.toInt (inInt64_toInt _)
    have h2 := toBytes_length kv.2.toInt (inInt64_toInt _)
    rw [encPairs_cons]; simp only [List.length_append, List.length_cons]; omega

/-- an encoded compiled function is at most 64 bytes longer than its instructions plus 22 bytes
    per source-map entry -/
theorem encodeCF_length_le (f : CF) (n m : Nat)
    (hi : ∀ i, f.instructions = some i → i.length ≤ n) (hs : ∀ sm, f.sourceMap = some sm → sm.length ≤ m)
    (hn : n + 22 * m < 2 ^ 62) : (encodeCF f).length ≤ 64 + n + 22 * m := by
  have htmp : (cfTmp f).length ≤ 52 + n + 22 * m := by
    have h0 := toBytes_length f.numParams.toInt (inInt64_toInt _)
    have h1 := toBytes_length f.numLocals.toInt (inInt64_toInt _)
    have p0 : (if 0 < f.numParams.toInt then 0 :: toBytes f.numParams.toInt else []).length ≤ 12 := by
      split <;> simp <;> omega
    have p1 : (if 0 < f.numLocals.toInt then 1 :: toBytes f.numLocals.toInt else []).length ≤ 12 := by
      split <;> simp <;> omega
    have p3 : (if f.variadic then [3] else ([] : Bytes)).length ≤ 1 := by split <;> simp
    unfold cfTmp
    cases hfi : f.instructions with
    | none =>
      cases hfs : f.sourceMap with
      | none => simp only [List.length_append, List.length_nil]; omega
      | some sm =>
        have := hs sm hfs
        have := encPairs_length_le sm
        have := toBytes_length ((sm.length : Int) * 2) (by simp [inInt64]; omega)
        simp only [List.length_append, List.length_nil, List.length_cons]; omega
    | some i =>
      have := hi i hfi
      have := encodeSized_length_le binBytesV1 i (by omega)
      cases hfs : f.sourceMap with
      | none => simp only [List.length_append, List.length_nil, List.length_cons]; omega
      | some sm =>
        have := hs sm hfs
        have := encPairs_length_le sm
        have := toBytes_length ((sm.length : Int) * 2) (by simp [inInt64]; omega)
        simp only [List.length_append, List.length_nil, List.length_cons]; omega
  rw [encodeCF_eq]
  have := toBytes_length ((cfTmp f).length : Int) (inInt64_ofNat _ (by omega))
  simp only [List.length_cons, List.length_append]; omega

/-! ### the loader agrees with `Model/Eval.setBytecode` on compiler output -/

theorem toNat_ofNat_small (n : Nat) (h : n < 2 ^ 63) : (BitVec.ofNat 64 n).toInt.toNat = n := by
  rw [BitVec.toInt_eq_toNat_cond]
  simp only [BitVec.toNat_ofNat]
  have : n % 2 ^ 64 = n := Nat.mod_eq_of_lt (by omega)
  rw [this]
  split <;> omega

theorem codeOfCF_cfOfCFn (f : Compile.CFn) (h : SmallFn f) : codeOfCF (cfOfCFn f) = Eval.codeOfCFn f := by
  unfold codeOfCF cfOfCFn Eval.codeOfCFn
  simp only [Option.getD_some, Array.toArray_toList, toNat_ofNat_small _ h.1, toNat_ofNat_small _ h.2]

/-- loading does not see `norm` on compiler-output constants -/
theorem loadList_norm_consts (H : Host) : ∀ (cs : List Compile.Const) (l : L),
    loadList H (normList (cs.map objOfConst)) l = loadList H (cs.map objOfConst) l
  | [], _ => rfl
  | c :: rest, l => by
    simp only [List.map_cons, normList, loadList]
    have h1 : loadObj H (norm (objOfConst c)) l = loadObj H (objOfConst c) l := by
      cases c with
      | val v => cases v <;> rfl
      | fn g => simp only [objOfConst, norm, loadObj, allocCF, codeOfCF_normCF]
    rw [h1, loadList_norm_consts H rest]

theorem load_toEnc_raw (H : Host) (fs : Option FileSet) (cbc : Compile.Bytecode) :
    load H (toEnc fs cbc) = loadRaw H (toEnc fs cbc) := by
  unfold load loadRaw normBC toEnc
  simp only [Option.map_some, Option.getD_some, loadList_norm_consts, allocCF, codeOfCF_normCF]
  rfl

/-- one step of `Eval.materialize` -/
def matStep (acc : Array V × State) (c : Compile.Const) : Array V × State :=
  match c with
  | .val v => (acc.1.push (Eval.scalarOfCVal v), acc.2)
  | .fn f => let (v, vm') := Eval.allocFn acc.2 f; (acc.1.push v, vm')

theorem materialize_def (vm : State) (cs : List Compile.Const) :
    Eval.materialize vm cs = cs.foldl matStep (#[], vm) := rfl

/-- `materialize` of the Eval model is `loadList` of the images -/
theorem materialize_eq (H : Host) : ∀ (cs : List Compile.Const) (acc : Array V) (vm : State),
    (∀ c ∈ cs, ∀ f, c = .fn f → SmallFn f) →
    cs.foldl matStep (acc, vm) =
    (acc ++ (loadList H (cs.map objOfConst) ⟨vm.codes, vm.heap⟩).1.toArray,
     { vm with codes := (loadList H (cs.map objOfConst) ⟨vm.codes, vm.heap⟩).2.codes,
               heap := (loadList H (cs.map objOfConst) ⟨vm.codes, vm.heap⟩).2.heap })
  | [], acc, vm, _ => by simp [loadList]
  | c :: rest, acc, vm, h => by
    have hrest := fun c' hc' => h c' (List.mem_cons_of_mem _ hc')
    cases c with
    | val v =>
      have hstep : matStep (acc, vm) (.val v) = (acc.push (Eval.scalarOfCVal v), vm) := rfl
      have hl : loadObj H (objOfConst (.val v)) ⟨vm.codes, vm.heap⟩ = (Eval.scalarOfCVal v, ⟨vm.codes, vm.heap⟩) := by
        cases v <;> rfl
      rw [List.foldl_cons, hstep, materialize_eq H rest _ vm hrest]
      simp only [List.map_cons, loadList, hl]
      simp
    | fn g =>
      have hg := h (.fn g) (List.mem_cons_self ..) g rfl
      have hstep : matStep (acc, vm) (.fn g) =
          (acc.push (.cfun vm.heap.size),
            { vm with codes := vm.codes.push (Eval.codeOfCFn g), heap := vm.heap.push (.fn vm.codes.size none) }) := rfl
      have hl : loadObj H (objOfConst (.fn g)) ⟨vm.codes, vm.heap⟩ =
          (.cfun vm.heap.size, ⟨vm.codes.push (Eval.codeOfCFn g), vm.heap.push (.fn vm.codes.size none)⟩) := by
        simp only [objOfConst, loadObj, allocCF, codeOfCF_cfOfCFn g hg]
      rw [List.foldl_cons, hstep, materialize_eq H rest _ _ hrest]
      simp only [List.map_cons, loadList, hl]
      simp

/-- the VM state `load` gives for compiler output is the one `Eval.setBytecode` builds on a new
    VM (`NewVM(bc)` as modelled for C10): constants in index order, then Main -/
theorem load_toEnc (H : Host) (fs : Option FileSet) (cbc : Compile.Bytecode) (hs : SmallCounts cbc) :
    load H (toEnc fs cbc) = Eval.setBytecode (newState #[] #[] #[] 0 0) cbc.main 0 cbc.constants #[] := by
  rw [load_toEnc_raw]
  unfold Eval.setBytecode
  rw [materialize_def, List.drop_zero, materialize_eq H _ _ _ hs.2]
  unfold loadRaw toEnc
  simp only [Option.getD_some, allocCF, Eval.allocFn, codeOfCF_cfOfCFn _ hs.1, newState]
  simp

end UgoVerif.Proofs.Enc
