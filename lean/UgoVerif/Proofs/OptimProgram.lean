import UgoVerif.Proofs.OptimBudget
/-
  From interchangeable expressions to whole scripts of the fragment: `Sem.execStmt`, `Sem.execList`
  and `Sem.runProgram` on files related by `FileRel`.
-/
namespace UgoVerif.Proofs.OptimSem
open UgoVerif UgoVerif.Go UgoVerif.Ast UgoVerif.VM UgoVerif.Sem UgoVerif.Proofs.ModCache
open UgoVerif.Model.Optim
set_option linter.unusedSimpArgs false
set_option linter.unusedVariables false

theorem fails_execStmt_zero (F : FloatOps) (env : Env) (s : Stmt) : Fails (execStmt F 0 env s) := by
  intro σ st
  rw [Sem.execStmt, srun_liftM]
  exact ⟨_, _, rfl⟩

theorem fails_execList_zero (F : FloatOps) (env : Env) (ss : List Stmt) : Fails (execList F 0 env ss) := by
  intro σ st
  rw [Sem.execList, srun_liftM]
  exact ⟨_, _, rfl⟩

theorem execStmt_rel {F : FloatOps} {s s' : Stmt} (h : StmtRel F s s') (fuel : Nat) (env : Env) :
    Refines (execStmt F fuel env s) (execStmt F fuel env s') := by
  cases fuel with
  | zero => exact Refines.of_fails (fails_execStmt_zero F env s)
  | succ f =>
    cases h with
    | same => exact Refines.refl _
    | expr he =>
      rw [Sem.execStmt, Sem.execStmt]
      exact Refines.bind (he f env) (fun _ => Refines.refl _)
    | ret he =>
      rw [Sem.execStmt, Sem.execStmt]
      exact Refines.bind (he f env) (fun _ => Refines.refl _)

theorem execList_rel {F : FloatOps} {ss ss' : List Stmt} (h : FileRel F ss ss') :
    ∀ (fuel : Nat) (env : Env), Refines (execList F fuel env ss) (execList F fuel env ss') := by
  induction h with
  | nil => intro fuel env; exact Refines.refl _
  | cons hs ht ih =>
    intro fuel env
    cases fuel with
    | zero => exact Refines.of_fails (fails_execList_zero F env _)
    | succ f =>
      rw [Sem.execList, Sem.execList]
      refine Refines.bind (execStmt_rel hs f env) (fun x => ?_)
      obtain ⟨c, env'⟩ := x
      cases c <;> first | exact ih f env' | exact Refines.refl _

theorem mainParams_rel {F : FloatOps} {ss ss' : List Stmt} (h : FileRel F ss ss') : mainParams ss = mainParams ss' := by
  induction h with
  | nil => rfl
  | cons hs ht ih =>
    cases hs with
    | same =>
      rename_i s _ _
      cases s <;> simp only [mainParams, ih]
    | expr he => simp only [mainParams, ih]
    | ret he => simp only [mainParams, ih]

theorem runProgram_rel {F : FloatOps} {ss ss' : List Stmt} (h : FileRel F ss ss') (fuel : Nat) (args : List V) :
    Refines (runProgram F fuel ss args) (runProgram F fuel ss' args) := by
  unfold runProgram
  rw [mainParams_rel h]
  refine Refines.bind (Refines.refl _) (fun x => ?_)
  exact Refines.bind (execList_rel h fuel _) (fun _ => Refines.refl _)

end UgoVerif.Proofs.OptimSem
