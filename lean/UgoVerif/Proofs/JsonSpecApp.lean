import UgoVerif.Proofs.JsonSpecD
import UgoVerif.Proofs.JsonNum
/-
  Helper lemmas for C17 about the recogniser: what a phrase function returns is a suffix of
  its input (`specD_suffix`), and a phrase stays the same phrase when a delimiter follows
  (`specD_append`).  Consequence (`isVal_of_isJson`): a JSON text without leading and
  trailing white space is one value in the sense of `IsVal`.
-/
namespace UgoVerif.Proofs.Json
open UgoVerif UgoVerif.Go UgoVerif.Spec.Json

/-! ### suffixes -/

theorem skipWs_suffix (bs : Bytes) : skipWs bs <:+ bs := by
  induction bs with
  | nil => exact List.suffix_refl _
  | cons c r ih =>
    simp only [skipWs]
    split
    · exact ih.trans (List.suffix_cons _ _)
    · exact List.suffix_refl _

theorem skipDigits_suffix (bs : Bytes) : skipDigits bs <:+ bs := by
  induction bs with
  | nil => exact List.suffix_refl _
  | cons c r ih =>
    simp only [skipDigits]
    split
    · exact ih.trans (List.suffix_cons _ _)
    · exact List.suffix_refl _

theorem suffix_tail {α : Type} {r t : List α} (c : α) (h : r <:+ t) : r <:+ c :: t :=
  h.trans (List.suffix_cons _ _)

theorem strRest_suffix : ∀ (bs r : Bytes), strRest bs = some r → r <:+ bs := by
  intro bs
  fun_induction strRest bs <;> intro r h <;> simp_all
  all_goals first
    | (subst h; exact List.suffix_cons _ _)
    | (repeat (first | assumption | apply suffix_tail))

theorem string_suffix (bs r : Bytes) (h : string bs = some r) : r <:+ bs := by
  cases bs with
  | nil => simp [string] at h
  | cons c t =>
    simp only [string] at h
    split at h
    · exact suffix_tail _ (strRest_suffix _ _ h)
    · cases h

theorem lit_suffix : ∀ (w bs r : Bytes), lit w bs = some r → r <:+ bs
  | [], bs, r, h => by simp [lit] at h; subst h; exact List.suffix_refl _
  | _ :: _, [], r, h => by simp [lit] at h
  | w :: ws, c :: t, r, h => by
    simp only [lit] at h
    split at h
    · exact suffix_tail _ (lit_suffix ws t r h)
    · cases h

theorem digits1_suffix (bs r : Bytes) (h : digits1 bs = some r) : r <:+ bs := by
  cases bs with
  | nil => simp [digits1] at h
  | cons c t =>
    simp only [digits1] at h
    split at h
    · injection h with h; subst h; exact suffix_tail _ (skipDigits_suffix t)
    · cases h

theorem intPart_suffix (bs r : Bytes) (h : intPart bs = some r) : r <:+ bs := by
  cases bs with
  | nil => simp [intPart] at h
  | cons c t =>
    simp only [intPart] at h
    split at h
    · injection h with h; subst h; exact List.suffix_cons _ _
    · split at h
      · injection h with h; subst h; exact suffix_tail _ (skipDigits_suffix t)
      · cases h

theorem fracPart_suffix (bs r : Bytes) (h : fracPart bs = some r) : r <:+ bs := by
  cases bs with
  | nil => simp [fracPart] at h; subst h; exact List.suffix_refl _
  | cons c t =>
    simp only [fracPart] at h
    split at h
    · exact suffix_tail _ (digits1_suffix _ _ h)
    · injection h with h; subst h; exact List.suffix_refl _

theorem expPart_suffix (bs r : Bytes) (h : expPart bs = some r) : r <:+ bs := by
  cases bs with
  | nil => simp [expPart] at h; subst h; exact List.suffix_refl _
  | cons c t =>
    simp only [expPart] at h
    split at h
    · split at h
      · cases h
      · split at h
        · exact suffix_tail _ (suffix_tail _ (digits1_suffix _ _ h))
        · exact suffix_tail _ (digits1_suffix _ _ h)
    · injection h with h; subst h; exact List.suffix_refl _

theorem optMinus_suffix (bs : Bytes) : optMinus bs <:+ bs := by
  cases bs with
  | nil => exact List.suffix_refl _
  | cons c t =>
    simp only [optMinus]; split
    · exact List.suffix_cons _ _
    · exact List.suffix_refl _

theorem number_suffix (bs r : Bytes) (h : number bs = some r) : r <:+ bs := by
  unfold number at h
  split at h
  · cases h
  · rename_i r1 h1
    split at h
    · cases h
    · rename_i r2 h2
      exact (expPart_suffix _ _ h).trans ((fracPart_suffix _ _ h2).trans
        ((intPart_suffix _ _ h1).trans (optMinus_suffix bs)))

theorem specD_suffix : ∀ (f d : Nat) (bs r : Bytes),
    (valueD f d bs = some r → r <:+ bs) ∧
    (arrTailD f d bs = some r → r <:+ bs) ∧
    (memberD f d bs = some r → r <:+ bs) ∧
    (objTailD f d bs = some r → r <:+ bs) := by
  intro f
  induction f with
  | zero => intro d bs r; simp [valueD, arrTailD, memberD, objTailD]
  | succ f ih =>
    intro d bs r
    refine ⟨?_, ?_, ?_, ?_⟩
    · intro h
      cases bs with
      | nil => rw [valueD_nil] at h; cases h
      | cons c t =>
        rw [valueD_cons] at h
        split at h
        · exact suffix_tail _ (strRest_suffix _ _ h)
        split at h
        · cases d with
          | zero => cases h
          | succ d =>
            simp only [] at h
            split at h
            · cases h
            · rename_i c' r' hs
              have hle := skipWs_suffix t; rw [hs] at hle
              split at h
              · injection h with h; subst h
                exact suffix_tail _ ((List.suffix_cons _ _).trans hle)
              · cases hv : valueD f d (c' :: r') with
                | none => simp [hv] at h
                | some r1 =>
                  simp only [hv, Option.bind] at h
                  have h1 := (ih d (c' :: r') r1).1 hv
                  have h2 := (ih d r1 r).2.1 h
                  exact suffix_tail _ ((h2.trans h1).trans hle)
        split at h
        · cases d with
          | zero => cases h
          | succ d =>
            simp only [] at h
            split at h
            · cases h
            · rename_i c' r' hs
              have hle := skipWs_suffix t; rw [hs] at hle
              split at h
              · injection h with h; subst h
                exact suffix_tail _ ((List.suffix_cons _ _).trans hle)
              · cases hv : memberD f d (c' :: r') with
                | none => simp [hv] at h
                | some r1 =>
                  simp only [hv, Option.bind] at h
                  have h1 := (ih d (c' :: r') r1).2.2.1 hv
                  have h2 := (ih d r1 r).2.2.2 h
                  exact suffix_tail _ ((h2.trans h1).trans hle)
        split at h
        · exact suffix_tail _ (lit_suffix _ _ _ h)
        split at h
        · exact suffix_tail _ (lit_suffix _ _ _ h)
        split at h
        · exact suffix_tail _ (lit_suffix _ _ _ h)
        split at h
        · exact number_suffix _ _ h
        · cases h
    · intro h
      rw [arrTailD_succ] at h
      split at h
      · cases h
      · rename_i c t hs
        have hle := skipWs_suffix bs; rw [hs] at hle
        split at h
        · injection h with h; subst h; exact (List.suffix_cons _ _).trans hle
        split at h
        · cases hv : valueD f d (skipWs t) with
          | none => simp [hv] at h
          | some r1 =>
            simp only [hv, Option.bind] at h
            have h1 := (ih d (skipWs t) r1).1 hv
            have h2 := (ih d r1 r).2.1 h
            exact (((h2.trans h1).trans (skipWs_suffix t)).trans (List.suffix_cons _ _)).trans hle
        · cases h
    · intro h
      rw [memberD_succ] at h
      cases hs : string bs with
      | none => simp [hs] at h
      | some r1 =>
        simp only [hs, Option.bind] at h
        have h1 := string_suffix _ _ hs
        split at h
        · cases h
        · rename_i c r2 hw
          have hle := skipWs_suffix r1; rw [hw] at hle
          split at h
          · have h2 := (ih d (skipWs r2) r).1 h
            exact (((h2.trans (skipWs_suffix r2)).trans (List.suffix_cons _ _)).trans hle).trans h1
          · cases h
    · intro h
      rw [objTailD_succ] at h
      split at h
      · cases h
      · rename_i c t hs
        have hle := skipWs_suffix bs; rw [hs] at hle
        split at h
        · injection h with h; subst h; exact (List.suffix_cons _ _).trans hle
        split at h
        · cases hv : memberD f d (skipWs t) with
          | none => simp [hv] at h
          | some r1 =>
            simp only [hv, Option.bind] at h
            have h1 := (ih d (skipWs t) r1).2.2.1 hv
            have h2 := (ih d r1 r).2.2.2 h
            exact (((h2.trans h1).trans (skipWs_suffix t)).trans (List.suffix_cons _ _)).trans hle
        · cases h


/-! ### a delimiter may follow -/

theorem skipWs_append_cons (bs rest : Bytes) (c : UInt8) (r : Bytes) (h : skipWs bs = c :: r) :
    skipWs (bs ++ rest) = c :: (r ++ rest) := by
  induction bs with
  | nil => simp [skipWs] at h
  | cons b t ih =>
    simp only [skipWs, List.cons_append] at h ⊢
    split
    · rename_i hb; rw [if_pos hb] at h; exact ih h
    · rename_i hb; rw [if_neg hb] at h
      injection h with h1 h2; subst h1; subst h2; rfl

theorem strRest_append (rest : Bytes) : ∀ (bs r : Bytes), strRest bs = some r → strRest (bs ++ rest) = some (r ++ rest) := by
  intro bs
  fun_induction strRest bs <;> intro r h <;> simp_all [strRest]
  all_goals (rw [strRest.eq_def]; simp_all)

theorem string_append (rest bs r : Bytes) (h : string bs = some r) : string (bs ++ rest) = some (r ++ rest) := by
  cases bs with
  | nil => simp [string] at h
  | cons c t =>
    simp only [string, List.cons_append] at h ⊢
    split at h
    · rename_i hc; rw [if_pos hc]; exact strRest_append rest _ _ h
    · cases h

theorem lit_append (rest : Bytes) : ∀ (w bs r : Bytes), lit w bs = some r → lit w (bs ++ rest) = some (r ++ rest)
  | [], bs, r, h => by simp [lit] at h ⊢; subst h; rfl
  | _ :: _, [], r, h => by simp [lit] at h
  | w :: ws, c :: t, r, h => by
    simp only [lit, List.cons_append] at h ⊢
    split at h
    · rename_i hc; rw [if_pos hc]; exact lit_append rest ws t r h
    · cases h

theorem specD_append (rest : Bytes) (hrest : Delim rest) : ∀ (f d : Nat) (bs r : Bytes),
    (valueD f d bs = some r → valueD f d (bs ++ rest) = some (r ++ rest)) ∧
    (arrTailD f d bs = some r → arrTailD f d (bs ++ rest) = some (r ++ rest)) ∧
    (memberD f d bs = some r → memberD f d (bs ++ rest) = some (r ++ rest)) ∧
    (objTailD f d bs = some r → objTailD f d (bs ++ rest) = some (r ++ rest)) := by
  intro f
  induction f with
  | zero => intro d bs r; simp [valueD, arrTailD, memberD, objTailD]
  | succ f ih =>
    intro d bs r
    refine ⟨?_, ?_, ?_, ?_⟩
    · intro h
      cases bs with
      | nil => rw [valueD_nil] at h; cases h
      | cons c t =>
        rw [List.cons_append, valueD_cons]
        rw [valueD_cons] at h
        by_cases h1 : (c == 0x22) = true
        · simp only [h1, if_true] at h ⊢; exact strRest_append rest _ _ h
        simp only [h1, Bool.false_eq_true, if_false] at h ⊢
        by_cases h2 : (c == 0x5B) = true
        · simp only [h2, if_true] at h ⊢
          cases d with
          | zero => cases h
          | succ d =>
            simp only [] at h ⊢
            cases hs : skipWs t with
            | nil => rw [hs] at h; cases h
            | cons c' r' =>
              rw [hs] at h
              rw [skipWs_append_cons t rest c' r' hs]
              simp only [] at h ⊢
              by_cases h3 : (c' == 0x5D) = true
              · simp only [h3, if_true] at h ⊢
                injection h with h; subst h; rfl
              simp only [h3, Bool.false_eq_true, if_false] at h ⊢
              cases hv : valueD f d (c' :: r') with
              | none => simp [hv] at h
              | some r1 =>
                simp only [hv, Option.bind] at h
                have e1 := (ih d (c' :: r') r1).1 hv
                rw [List.cons_append] at e1
                rw [e1]
                exact (ih d r1 r).2.1 h
        simp only [h2, Bool.false_eq_true, if_false] at h ⊢
        by_cases h4 : (c == 0x7B) = true
        · simp only [h4, if_true] at h ⊢
          cases d with
          | zero => cases h
          | succ d =>
            simp only [] at h ⊢
            cases hs : skipWs t with
            | nil => rw [hs] at h; cases h
            | cons c' r' =>
              rw [hs] at h
              rw [skipWs_append_cons t rest c' r' hs]
              simp only [] at h ⊢
              by_cases h3 : (c' == 0x7D) = true
              · simp only [h3, if_true] at h ⊢
                injection h with h; subst h; rfl
              simp only [h3, Bool.false_eq_true, if_false] at h ⊢
              cases hv : memberD f d (c' :: r') with
              | none => simp [hv] at h
              | some r1 =>
                simp only [hv, Option.bind] at h
                have e1 := (ih d (c' :: r') r1).2.2.1 hv
                rw [List.cons_append] at e1
                rw [e1]
                exact (ih d r1 r).2.2.2 h
        simp only [h4, Bool.false_eq_true, if_false] at h ⊢
        by_cases h5 : (c == 0x74) = true
        · simp only [h5, if_true] at h ⊢; exact lit_append rest _ _ _ h
        simp only [h5, Bool.false_eq_true, if_false] at h ⊢
        by_cases h6 : (c == 0x66) = true
        · simp only [h6, if_true] at h ⊢; exact lit_append rest _ _ _ h
        simp only [h6, Bool.false_eq_true, if_false] at h ⊢
        by_cases h7 : (c == 0x6E) = true
        · simp only [h7, if_true] at h ⊢; exact lit_append rest _ _ _ h
        simp only [h7, Bool.false_eq_true, if_false] at h ⊢
        by_cases h8 : (c == 0x2D || isDigit c) = true
        · simp only [h8, if_true] at h ⊢
          have := number_append (c :: t) r rest hrest h
          rw [List.cons_append] at this; exact this
        · simp only [h8, Bool.false_eq_true, if_false] at h; cases h
    · intro h
      rw [arrTailD_succ] at h ⊢
      cases hs : skipWs bs with
      | nil => rw [hs] at h; cases h
      | cons c t =>
        rw [hs] at h
        rw [skipWs_append_cons bs rest c t hs]
        simp only [] at h ⊢
        by_cases h1 : (c == 0x5D) = true
        · simp only [h1, if_true] at h ⊢; injection h with h; subst h; rfl
        simp only [h1, Bool.false_eq_true, if_false] at h ⊢
        by_cases h2 : (c == 0x2C) = true
        · simp only [h2, if_true] at h ⊢
          cases hv : valueD f d (skipWs t) with
          | none => simp [hv] at h
          | some r1 =>
            simp only [hv, Option.bind] at h
            cases hs2 : skipWs t with
            | nil => rw [hs2, valueD_nil] at hv; cases hv
            | cons c2 t2 =>
              rw [skipWs_append_cons t rest c2 t2 hs2]
              rw [hs2] at hv
              have e1 := (ih d (c2 :: t2) r1).1 hv
              rw [List.cons_append] at e1
              rw [e1]
              exact (ih d r1 r).2.1 h
        · simp only [h2, Bool.false_eq_true, if_false] at h; cases h
    · intro h
      rw [memberD_succ] at h ⊢
      cases hs : string bs with
      | none => simp [hs] at h
      | some r1 =>
        simp only [hs, Option.bind] at h
        rw [string_append rest bs r1 hs]
        simp only [Option.bind]
        cases hw : skipWs r1 with
        | nil => rw [hw] at h; cases h
        | cons c r2 =>
          rw [hw] at h
          rw [skipWs_append_cons r1 rest c r2 hw]
          simp only [] at h ⊢
          by_cases h2 : (c == 0x3A) = true
          · simp only [h2, if_true] at h ⊢
            cases hs2 : skipWs r2 with
            | nil => rw [hs2, valueD_nil] at h; cases h
            | cons c2 t2 =>
              rw [skipWs_append_cons r2 rest c2 t2 hs2]
              rw [hs2] at h
              have e1 := (ih d (c2 :: t2) r).1 h
              rw [List.cons_append] at e1
              exact e1
          · simp only [h2, Bool.false_eq_true, if_false] at h; cases h
    · intro h
      rw [objTailD_succ] at h ⊢
      cases hs : skipWs bs with
      | nil => rw [hs] at h; cases h
      | cons c t =>
        rw [hs] at h
        rw [skipWs_append_cons bs rest c t hs]
        simp only [] at h ⊢
        by_cases h1 : (c == 0x7D) = true
        · simp only [h1, if_true] at h ⊢; injection h with h; subst h; rfl
        simp only [h1, Bool.false_eq_true, if_false] at h ⊢
        by_cases h2 : (c == 0x2C) = true
        · simp only [h2, if_true] at h ⊢
          cases hv : memberD f d (skipWs t) with
          | none => simp [hv] at h
          | some r1 =>
            simp only [hv, Option.bind] at h
            cases hs2 : skipWs t with
            | nil =>
              rw [hs2] at hv
              cases f with
              | zero => simp [memberD] at hv
              | succ f => rw [memberD_succ] at hv; simp [string] at hv
            | cons c2 t2 =>
              rw [skipWs_append_cons t rest c2 t2 hs2]
              rw [hs2] at hv
              have e1 := (ih d (c2 :: t2) r1).2.2.1 hv
              rw [List.cons_append] at e1
              rw [e1]
              exact (ih d r1 r).2.2.2 h
        · simp only [h2, Bool.false_eq_true, if_false] at h; cases h


/-! ### a JSON text without surrounding white space is one value -/

theorem skipWs_nil_all (r : Bytes) (h : skipWs r = []) : ∀ x ∈ r, isWs x = true := by
  induction r with
  | nil => intro x hx; cases hx
  | cons c t ih =>
    simp only [skipWs] at h
    by_cases hc : isWs c = true
    · rw [if_pos hc] at h
      intro x hx
      rcases List.mem_cons.mp hx with rfl | hx
      · exact hc
      · exact ih h x hx
    · rw [if_neg hc] at h; cases h

theorem isVal_of_isJson (E : Bytes) (hj : isJson E = true) (c : UInt8) (t : Bytes) (hE : E = c :: t)
    (hc : isWs c = false) (hlast : ∀ p l, E = p ++ [l] → isWs l = false) : IsVal E := by
  have hsk : skipWs E = E := by rw [hE]; simp [skipWs, hc]
  unfold isJson at hj
  rw [hsk] at hj
  cases hv : value (E.length + 1) E with
  | none => rw [hv] at hj; cases hj
  | some r0 =>
    rw [hv] at hj
    have hws : skipWs r0 = [] := by simpa using hj
    have hvD : valueD (E.length + 1) (E.length + 1) E = some r0 := by
      rw [(specD_eq_value _ _ E (Nat.le_refl _)).1]; exact hv
    have hsuf := (specD_suffix _ _ E r0).1 hvD
    have hr0 : r0 = [] := by
      rcases List.eq_nil_or_concat r0 with h0 | ⟨r0', l, h0⟩
      · exact h0
      · obtain ⟨p, hp⟩ := hsuf
        have h1 := hlast (p ++ r0') l (by rw [← hp, h0]; simp)
        have h2 := skipWs_nil_all r0 hws l (by rw [h0]; simp)
        rw [h1] at h2; cases h2
    subst hr0
    refine ⟨⟨c, t, hE, hc, ?_⟩, ?_⟩
    · cases h5 : (c == 0x5D) with
      | false => rfl
      | true =>
        have : c = 0x5D := by simpa using h5
        subst this
        rw [hE, value_cons] at hv
        simp [isDigit] at hv
    · intro rest f hd hf
      have hlen : E.length < f := by simp at hf; omega
      have h1 : value f E = some [] := by rw [value_fuel hlen (Nat.lt_succ_self _)]; exact hv
      have h2 : valueD f f E = some [] := by rw [(specD_eq_value _ _ E (Nat.le_refl _)).1]; exact h1
      have h3 := (specD_append rest hd f f E []).1 h2
      rw [(specD_eq_value _ _ _ (Nat.le_refl _)).1] at h3
      exact h3

end UgoVerif.Proofs.Json
