import UgoVerif.Proofs.CompSimStmts
/-
  C02, compile ⊑ Sem, statement slice — blocks (`Fork(true)` … `Parent` of the compiler against
  scope push / pop of the reference semantics), statement lists, `if` / `else`.
-/
set_option linter.unusedSimpArgs false
set_option linter.unusedVariables false
namespace UgoVerif.CompSim
open UgoVerif UgoVerif.Go UgoVerif.Ast UgoVerif.VM UgoVerif.Proofs.ModCache UgoVerif.Proofs.VMExec
open UgoVerif.Compile (CState runCM compileExpr compileStmt compileStmts IsPre Pre Table nextIndex)

/-! ### blocks -/

theorem fork_inv {cs cs1 : CState} {t0 : Table} {r0 : List Table} (htr : cs.tables = t0 :: r0)
    (h : runCM (Compile.forkTable true) cs = (.ok (), cs1)) :
    ∃ nt : Table, nt.block = true ∧ nt.store = [] ∧ nt.numDefinition = 0 ∧ { cs with tables := nt :: cs.tables } = cs1 := by
  rw [Compile.runCM_forkTable true htr] at h
  simp only [Prod.mk.injEq, Except.ok.injEq, true_and] at h
  exact ⟨_, rfl, rfl, rfl, h⟩

/-- a block: the compiler forks a block table for `act` and drops it afterwards, the reference
    semantics runs the body in a new scope and drops the scope.  The tables afterwards are the old
    ones up to `maxDefinition`: every variable in scope keeps its slot; the slots of the block's
    own variables are free again (`nextIndex` is back), their pairs leave `binds`. -/
theorem good_withBlock (F : FloatOps) (B B1 : List String) (nd : Nat) (act : Compile.CM Unit)
    (sem sem' : Nat → Sem.Env → Sem.SM (Sem.Comp × Sem.Env)) (h : GoodC F B B1 nd act sem)
    (hrun : ∀ fuel env ss t c env' ss' t', exec ((sem' fuel env).run ss) t = (.ok ((c, env'), ss'), t') →
       env = env' ∧ ∃ fuel' envX, exec ((sem fuel' ([] :: env)).run ss) t = (.ok ((c, envX), ss'), t')) :
    GoodB F B nd (Compile.withBlock act) sem' := by
  intro cs cs' hc hcov hok
  obtain ⟨t0, r0, htr⟩ := tables_cons_of_ok hok
  unfold Compile.withBlock at hc
  obtain ⟨_, cs1, hfork0, hc⟩ := bind_inv hc
  obtain ⟨nt, hnb, hns, hnn, hfork⟩ := fork_inv htr hfork0
  obtain ⟨_, cs2, hact, hc⟩ := bind_inv hc
  obtain ⟨tp, cs3, hpop, hc⟩ := bind_inv hc
  obtain ⟨_, rfl⟩ := pure_inv hc
  have ht1 : cs1.tables = nt :: cs.tables := by rw [← hfork]
  have hl1 : localIdx cs1 = localIdx cs := by
    funext n
    rw [localIdx_eq, localIdx_eq, ht1, locOf_fork n nt cs.tables hns hnb]
  have hni1 : nextIndex cs1.tables = nextIndex cs.tables := by rw [ht1, nextIndex_fork nt _ hnn hnb]
  have hok1 : CsOK cs1 :=
    ⟨by rw [ht1, hasFn_fork nt _ hnb]; exact hok.fn, by rw [← hfork]; exact hok.tci,
     by rw [hni1, ht1, fnMax_fork nt _ hnb]; exact hok.ni⟩
  obtain ⟨hse1, hok2, _, hsim⟩ := h cs1 cs2 hact (by rw [hl1]; exact hcov) hok1
  -- the table of the block is dropped
  have hte := hse1.tabs
  rw [ht1] at hte
  obtain ⟨h', r', hts2, hb', _, _, htl⟩ := hte.cons_inv
  rw [Compile.runCM_popTable hts2] at hpop
  simp only [Prod.mk.injEq, Except.ok.injEq] at hpop
  obtain ⟨_, rfl⟩ := hpop
  have hi1 : cs1.insts = cs.insts := by rw [← hfork]
  have hc1 : cs1.constants = cs.constants := by rw [← hfork]
  have hfm2 : fnMax cs2.tables = fnMax r' := by rw [hts2]; simp [fnMax, hb', hnb]
  have hse : StEff cs { cs2 with tables := r' } := by
    refine ⟨?_, by rw [← hi1]; exact hse1.pre, by rw [← hc1]; exact hse1.cpre, TEff.of_tl hok.ne htl⟩
    conv => lhs; rw [hse1.eq]
    rw [← hfork]
  have hok' : CsOK { cs2 with tables := r' } :=
    ⟨by show hasFn r' = true; rw [htl.hasFn]; exact hok.fn, hok2.tci,
     by show nextIndex r' ≤ fnMax r'; rw [htl.nextIndex]; exact Nat.le_trans hok.ni htl.fnMax⟩
  refine ⟨hse, hok', htl, ?_⟩
  intro fuel K code bp L env binds s t ss ss' c env' t' hK hcode hvm hip hsp hL hst hdy hsem
  obtain ⟨rfl, fuel', envX, hrun'⟩ := hrun fuel env ss t c env' ss' t' hsem
  have hst1 : Static (localIdx cs1) (nextIndex cs1.tables) ([] :: env) binds := by
    rw [hl1, hni1]
    exact ⟨fun n i hi => by rw [lookupEnv_nil_cons]; exact hst.look n i hi, hst.lt, hst.inj⟩
  obtain ⟨rfl, out⟩ := hsim fuel' K code bp L ([] :: env) binds s t ss ss' c envX t' hK (by rw [hi1]; exact hcode) hvm
    (by rw [hi1]; exact hip) hsp (by rw [hfm2]; exact hL) hst1 hdy hrun'
  refine ⟨rfl, ?_⟩
  cases c with
  | normal =>
    obtain ⟨binds', s', hr, hf, hip', hsp', hsub, hst2, hdy2⟩ := out
    refine ⟨binds, s', hr, hf, hip', hsp', fun _ h => h, ?_, hdy2.sub hsub⟩
    have hl' : localIdx { cs2 with tables := r' } = localIdx cs := localIdx_of_tl (cs := cs) (cs' := { cs2 with tables := r' }) htl
    rw [hl']
    show Static (localIdx cs) (nextIndex r') env binds
    rw [htl.nextIndex]
    exact hst
  | ret v => exact out
  | thr a => exact out
  | brk => exact out
  | cont => exact out

/-- nothing compiled, nothing executed -/
theorem good_skip (F : FloatOps) (B : List String) (sem' : Nat → Sem.Env → Sem.SM (Sem.Comp × Sem.Env))
    (hrun : ∀ fuel env ss t c env' ss' t', exec ((sem' fuel env).run ss) t = (.ok ((c, env'), ss'), t') →
       c = .normal ∧ env' = env ∧ ss = ss' ∧ t' = t) :
    GoodB F B 0 (pure ()) sem' := by
  intro cs cs' hc hcov hok
  obtain ⟨_, rfl⟩ := pure_inv hc
  refine ⟨StEff.refl hok.ne, hok, Tl.refl _, ?_⟩
  intro fuel K code bp L env binds s t ss ss' c env' t' hK hcode hvm hip hsp hL hst hdy hsem
  obtain ⟨rfl, rfl, rfl, rfl⟩ := hrun fuel env ss t c env' ss' t' hsem
  have hN := nextIndex_le_of hok (StEff.refl hok.ne) hL
  exact ⟨rfl, OutS.normal_same (Reach.refl F s) (Same.refl s) rfl (AgreeBelow.refl _ _) hip rfl hst hdy hN hvm.lo⟩

theorem execList_zero (F : FloatOps) (env : Sem.Env) (ss : List Stmt) :
    Sem.execList F 0 env ss = Sem.liftM (unsupported "sem: fuel") := by
  cases ss <;> rfl

theorem execList_nil (F : FloatOps) (fuel : Nat) (env : Sem.Env) :
    Sem.execList F (fuel + 1) env [] = pure (.normal, env) := rfl

theorem execList_cons (F : FloatOps) (fuel : Nat) (env : Sem.Env) (s : Stmt) (r : List Stmt) :
    Sem.execList F (fuel + 1) env (s :: r) = (do
      let (c, env') ← Sem.execStmt F fuel env s
      match c with
      | .normal => Sem.execList F fuel env' r
      | c => pure (c, env')) := rfl

theorem execBlock_zero (F : FloatOps) (env : Sem.Env) (ss : List Stmt) :
    Sem.execBlock F 0 env ss = Sem.liftM (unsupported "sem: fuel") := rfl

theorem execBlock_succ (F : FloatOps) (fuel : Nat) (env : Sem.Env) (ss : List Stmt) :
    Sem.execBlock F (fuel + 1) env ss = (do
      let (c, _) ← Sem.execList F fuel ([] :: env) ss
      pure (c, env)) := rfl

/-- `compileBlockStmt` against `execBlock` -/
theorem good_blockOf (F : FloatOps) (B B1 : List String) (nd : Nat) (body : List Stmt)
    (h : GoodC F B B1 nd (compileStmts body) (fun fuel env => Sem.execList F fuel env body)) :
    GoodB F B nd (Compile.blockOf body (compileStmts body)) (fun fuel env => Sem.execBlock F fuel env body) := by
  have hrunB : ∀ fuel env ss t c env' ss' t',
      exec ((Sem.execBlock F fuel env body).run ss) t = (.ok ((c, env'), ss'), t') →
      env = env' ∧ ∃ fuel' envX, exec ((Sem.execList F fuel' ([] :: env) body).run ss) t = (.ok ((c, envX), ss'), t') := by
    intro fuel env ss t c env' ss' t' hsem
    cases fuel with
    | zero => rw [execBlock_zero] at hsem; exact (sm_unsupported_ne hsem).elim
    | succ fuel =>
      rw [execBlock_succ] at hsem
      obtain ⟨⟨c1, envX⟩, ss1, t1, h1, h2⟩ := sm_bind_inv hsem
      obtain ⟨hce, rfl, rfl⟩ := sm_pure_inv h2
      simp only [Prod.mk.injEq] at hce
      obtain ⟨rfl, rfl⟩ := hce
      exact ⟨rfl, fuel, envX, h1⟩
  unfold Compile.blockOf
  cases body with
  | nil =>
    simp only [List.isEmpty_nil, if_true]
    refine (good_skip F B _ ?_).mono (Nat.zero_le _)
    intro fuel env ss t c env' ss' t' hsem
    obtain ⟨rfl, fuel', envX, h1⟩ := hrunB fuel env ss t c env' ss' t' hsem
    cases fuel' with
    | zero => rw [execList_zero] at h1; exact (sm_unsupported_ne h1).elim
    | succ fuel' =>
      rw [execList_nil] at h1
      obtain ⟨hce, rfl, rfl⟩ := sm_pure_inv h1
      simp only [Prod.mk.injEq] at hce
      exact ⟨hce.1.symm, rfl, rfl, rfl⟩
  | cons s r =>
    simp only [List.isEmpty_cons, Bool.false_eq_true, if_false]
    exact good_withBlock F B B1 nd _ _ _ h hrunB

/-! ### statement lists -/

theorem compileStmts_nil' : compileStmts [] = (pure () : Compile.CM Unit) := by unfold compileStmts; rfl
theorem compileStmts_cons' (st : Stmt) (r : List Stmt) :
    compileStmts (st :: r) = (do compileStmt st; compileStmts r) := by
  conv => lhs; unfold compileStmts

theorem good_nil (F : FloatOps) (B : List String) :
    GoodC F B B 0 (compileStmts []) (fun fuel env => Sem.execList F fuel env []) := by
  rw [compileStmts_nil']
  refine (good_skip F B _ ?_).toC
  intro fuel env ss t c env' ss' t' hsem
  cases fuel with
  | zero => rw [execList_zero] at hsem; exact (sm_unsupported_ne hsem).elim
  | succ fuel =>
    rw [execList_nil] at hsem
    obtain ⟨hce, rfl, rfl⟩ := sm_pure_inv hsem
    simp only [Prod.mk.injEq] at hce
    exact ⟨hce.1.symm, hce.2.symm, rfl, rfl⟩

theorem good_cons (F : FloatOps) (B B1 B2 : List String) (n1 n2 : Nat) (st : Stmt) (r : List Stmt)
    (h1 : GoodC F B B1 n1 (compileStmt st) (fun fuel env => Sem.execStmt F fuel env st))
    (h2 : GoodC F B1 B2 n2 (compileStmts r) (fun fuel env => Sem.execList F fuel env r)) :
    GoodC F B B2 (max n1 n2) (compileStmts (st :: r)) (fun fuel env => Sem.execList F fuel env (st :: r)) := by
  intro cs cs' hc hcov hok
  rw [compileStmts_cons'] at hc
  obtain ⟨_, cs1, hc1, hc2⟩ := bind_inv hc
  obtain ⟨hse1, hok1, hcov1, hsim1⟩ := h1 cs cs1 hc1 hcov hok
  obtain ⟨hse2, hok2, hcov2, hsim2⟩ := h2 cs1 cs' hc2 hcov1 hok1
  refine ⟨hse1.trans hse2, hok2, hcov2, ?_⟩
  intro fuel K code bp L env binds s t ss ss' c env' t' hK hcode hvm hip hsp hL hst hdy hsem
  dsimp only at hsem
  cases fuel with
  | zero => rw [execList_zero] at hsem; exact (sm_unsupported_ne hsem).elim
  | succ fuel =>
    rw [execList_cons] at hsem
    obtain ⟨⟨c1, env1⟩, ss1, t1, hs1, hsem⟩ := sm_bind_inv hsem
    obtain ⟨rfl, out1⟩ := hsim1 fuel K code bp L env binds s t ss ss1 c1 env1 t1 (Compile.IsPre.trans hse2.cpre hK)
      (hcode.sub hse2.pre (Nat.le_refl _)) hvm hip (by omega) (Nat.le_trans hse2.tabs.fnMax hL) hst hdy hs1
    cases c1 with
    | normal =>
      simp only at hsem
      obtain ⟨binds1, s1, hr1, hf1, hip1, hsp1, hsub1, hst1, hdy1⟩ := out1
      obtain ⟨rfl, out2⟩ := hsim2 fuel K code bp L env1 binds1 s1 t1 ss ss' c env' t' hK
        (hcode.sub (Pre.refl _) hse1.pre.1) (hvm.of_frm hf1 hsp1) hip1 (by omega) hL hst1 hdy1 hsem
      exact ⟨rfl, OutS.via hr1 hf1 hsp1 hsub1 out2⟩
    | ret v =>
      simp only at hsem
      obtain ⟨hce, rfl, rfl⟩ := sm_pure_inv hsem
      simp only [Prod.mk.injEq] at hce
      obtain ⟨rfl, rfl⟩ := hce
      exact ⟨rfl, out1.abrupt (by simp)⟩
    | thr a =>
      simp only at hsem
      obtain ⟨hce, rfl, rfl⟩ := sm_pure_inv hsem
      simp only [Prod.mk.injEq] at hce
      obtain ⟨rfl, rfl⟩ := hce
      exact ⟨rfl, out1.abrupt (by simp)⟩
    | brk => exact out1.elim
    | cont => exact out1.elim

/-! ### `if c { … } else { … }` -/

theorem CsOK.of_tables {cs cs' : CState} (h : CsOK cs) (ht : cs'.tables = cs.tables) (hi : cs'.tryCatchIndex = cs.tryCatchIndex) :
    CsOK cs' := ⟨by rw [ht]; exact h.fn, by rw [hi]; exact h.tci, by rw [ht]; exact h.ni⟩

/-- the state behind a conditional jump that popped the condition -/
theorem after_pop {K : Array Compile.Const} {code : Code} {bp L N : Nat} {binds : List (Nat × Addr)} {s s1 s2 t : State}
    (hvm : VMOk K code bp (bp + L) s) (hdy : Dyn binds t s bp) (hlt : ∀ i a, (i, a) ∈ binds → i < N) (hN : N ≤ L)
    (hs1 : Same s s1) (hh1 : s1.heap = s.heap) (hag1 : AgreeBelow s.sp.toNat s.stack s1.stack)
    (hs2 : Same s1 s2) (hh2 : s2.heap = s1.heap) (hst2 : s2.stack = s1.stack.set! s.sp.toNat .nil) (hsp2 : s2.sp = s.sp) :
    VMOk K code bp (bp + L) s2 ∧ Dyn binds t s2 bp ∧ Frm s s2 bp L := by
  have hag2 : AgreeBelow s.sp.toNat s.stack s2.stack := by rw [hst2]; exact hag1.set _ _ (Nat.le_refl _)
  obtain ⟨h1, h2⟩ := after_push hvm hdy hlt hN (hs1.trans hs2) (by rw [hh2, hh1]) hag2 (by omega)
  exact ⟨h1, h2, Frm.of_agree (hs1.trans hs2) (by rw [hh2, hh1]) hag2⟩

set_option maxHeartbeats 1600000 in
theorem good_ifelse (F : FloatOps) (B : List String) (pos : Pos) (c : Expr) (hFc : ExprF (bnd B) c = true)
    (nT nE : Nat) (actT actE : Compile.CM Unit) (semT semE : Nat → Sem.Env → Sem.SM (Sem.Comp × Sem.Env))
    (hT : GoodB F B nT actT semT) (hE : GoodB F B nE actE semE) :
    GoodB F B (max (need c) (max nT nE))
      (do
        compileExpr c
        let j ← Compile.emit pos Compile.OpJumpFalsy [0]
        actT
        let j2 ← Compile.emit pos Compile.OpJump [0]
        Compile.changeOperand j [(← Compile.curPos)]
        actE
        Compile.changeOperand j2 [(← Compile.curPos)])
      (fun fuel env => do
        match (← Sem.evalExpr F fuel env c) with
        | .thr a => pure (.thr a, env)
        | .val cv => if !(← Sem.liftM (isFalsy cv)) then semT fuel env else semE fuel env) := by
  intro cs cs' hc hcov hok
  obtain ⟨_, cs1, hcc, hc⟩ := bind_inv hc
  obtain ⟨j1, cs2, hj1, hc⟩ := bind_inv hc
  obtain ⟨_, cs3, hct, hc⟩ := bind_inv hc
  obtain ⟨j2, cs4', hj2, hc⟩ := bind_inv hc
  obtain ⟨x1, cs4, hx1, hc⟩ := bind_inv hc
  obtain ⟨rfl, rfl⟩ := curPos_inv hx1
  obtain ⟨_, cs5, hp1, hc⟩ := bind_inv hc
  obtain ⟨_, cs6', hcf, hc⟩ := bind_inv hc
  obtain ⟨x2, cs6, hx2, hc⟩ := bind_inv hc
  obtain ⟨rfl, rfl⟩ := curPos_inv hx2
  have hFc' := exprF_of_cov hcov hFc
  obtain ⟨shc, _⟩ := good_all F c cs cs1 hcc hFc'
  have she1 := Shape.of_emit hj1
  have hok1 := hok.of_shape shc
  have hok2 := hok1.of_shape she1
  have hl2 : localIdx cs2 = localIdx cs := by rw [she1.localIdx, shc.localIdx]
  obtain ⟨seT, hok3, htlT, simT⟩ := hT cs2 cs3 hct (by rw [hl2]; exact hcov) hok2
  have hl3 : localIdx cs3 = localIdx cs := by rw [localIdx_of_tl htlT, hl2]
  have she2 := Shape.of_emit hj2
  have hok4 := hok3.of_shape she2
  obtain ⟨bsj1, hbsj1, hjp1, e2⟩ := emit_inv hj1
  obtain ⟨bsj2, hbsj2, hjp2, e4⟩ := emit_inv hj2
  obtain ⟨_, c1, c2, c3, c4, rfl, _⟩ := mk_w4 Compile.OpJumpFalsy rfl _ _ hbsj1
  obtain ⟨_, d1, d2, d3, d4, rfl, _⟩ := mk_w4 Compile.OpJump rfl _ _ hbsj2
  obtain ⟨opb1, bs1, hopb1, hbs1, e5⟩ := changeOperand_inv hp1
  have hsz2 : cs2.insts.size = cs1.insts.size + 5 := by rw [e2]; simp
  have hsz4 : cs4.insts.size = cs3.insts.size + 5 := by rw [e4]; simp
  have hle23 : cs2.insts.size ≤ cs3.insts.size := seT.pre.1
  have hop1 : cs2.insts[cs1.insts.size]? = some (UInt8.ofNat Compile.OpJumpFalsy) := by
    rw [e2]; exact emit_bytes (cs := cs1) _ 0 (by simp)
  have hopb1' : opb1 = UInt8.ofNat Compile.OpJumpFalsy := by
    rw [hjp1, getElem?_of_pre (seT.pre.trans she2.pre) hop1] at hopb1
    injection hopb1 with h; exact h.symm
  rw [hopb1'] at hbs1
  obtain ⟨_, b1, b2, b3, b4, rfl, hdec1⟩ := mk_w4 Compile.OpJumpFalsy rfl _ _ hbs1
  simp only [Int.toNat_natCast] at hdec1
  have hsz5 : cs5.insts.size = cs4.insts.size := by rw [e5]; exact Compile.size_patch _ _ _
  have hins5 : cs5.insts = Compile.patch cs4.insts cs1.insts.size [UInt8.ofNat Compile.OpJumpFalsy, b1, b2, b3, b4] := by
    rw [e5, hjp1]
  have ht5 : cs5.tables = cs4.tables := by rw [e5]
  have hok5 : CsOK cs5 := hok4.of_tables ht5 (by rw [e5])
  have ht4 : cs4.tables = cs3.tables := by rw [she2.eq]
  have hl5 : localIdx cs5 = localIdx cs := by
    have : localIdx cs5 = localIdx cs4 := by rw [e5]; rfl
    rw [this, she2.localIdx, hl3]
  obtain ⟨seE, hok6, htlE, simE⟩ := hE cs5 cs6 hcf (by rw [hl5]; exact hcov) hok5
  obtain ⟨opb2, bs2, hopb2, hbs2, e7⟩ := changeOperand_inv hc
  have hle56 : cs5.insts.size ≤ cs6.insts.size := seE.pre.1
  have hop2 : cs4.insts[cs3.insts.size]? = some (UInt8.ofNat Compile.OpJump) := by
    rw [e4]; exact emit_bytes (cs := cs3) _ 0 (by simp)
  have hlec : cs.insts.size ≤ cs1.insts.size := shc.pre.1
  have hopb2' : opb2 = UInt8.ofNat Compile.OpJump := by
    have h5 : cs5.insts[cs3.insts.size]? = some (UInt8.ofNat Compile.OpJump) := by
      rw [hins5, Compile.patch_get_ge _ _ _ _ (by simp; omega)]; exact hop2
    rw [hjp2, getElem?_of_pre seE.pre h5] at hopb2
    injection hopb2 with h; exact h.symm
  rw [hopb2'] at hbs2
  obtain ⟨_, e1, e2', e3, e4', rfl, hdec2⟩ := mk_w4 Compile.OpJump rfl _ _ hbs2
  simp only [Int.toNat_natCast] at hdec2
  have hsz' : cs'.insts.size = cs6.insts.size := by rw [e7]; exact Compile.size_patch _ _ _
  have hins' : cs'.insts = Compile.patch cs6.insts cs3.insts.size [UInt8.ofNat Compile.OpJump, e1, e2', e3, e4'] := by
    rw [e7, hjp2]
  -- the effect on the compiler state
  have se4 : StEff cs cs4 :=
    (((StEff.of_shape shc hok.ne).trans (StEff.of_shape she1 hok1.ne)).trans seT).trans (StEff.of_shape she2 hok3.ne)
  have se5 : StEff cs cs5 := by rw [e5]; exact se4.patch _ _ (by rw [hjp1]; exact hlec)
  have se6 : StEff cs cs6 := se5.trans seE
  have hse : StEff cs cs' := by rw [e7]; exact se6.patch _ _ (by rw [hjp2]; omega)
  have ht' : cs'.tables = cs6.tables := by rw [e7]
  have ht1 : cs1.tables = cs.tables := by rw [shc.eq]
  have ht2 : cs2.tables = cs1.tables := by rw [she1.eq]
  have htl : Tl cs.tables cs'.tables := by
    rw [ht', ← ht1, ← ht2]
    refine htlT.trans ?_
    rw [← ht4, ← ht5]
    exact htlE
  have hok' : CsOK cs' := hok6.of_tables ht' (by rw [e7])
  refine ⟨hse, hok', htl, ?_⟩
  intro fuel K code bp L env binds s t ss ss' cc env' t' hK hcode hvm hip hsp hL hst hdy hsem
  dsimp only at hsem
  have hN := nextIndex_le_of hok hse hL
  have hK6 : IsPre cs6.constants K := by
    have : cs'.constants = cs6.constants := by rw [e7]
    rw [← this]; exact hK
  have hK3 : IsPre cs3.constants K := by
    have h45 : cs5.constants = cs4.constants := by rw [e5]
    refine Compile.IsPre.trans (she2.cpre.trans ?_) hK6
    rw [← h45]; exact seE.cpre
  -- the pieces of the final code
  have hcc' : CodeHas code cs1.insts cs.insts.size := by
    intro i h1 h2
    rw [hcode i h1 (by omega), hins', Compile.patch_get_lt _ _ _ _ (by omega), seE.pre.2 i (by omega), hins5,
      Compile.patch_get_lt _ _ _ _ h2, ((she1.pre.trans seT.pre).trans she2.pre).2 i h2]
  have hcj1 : ∀ k (hk : k < 5), code.insts[cs1.insts.size + k]? =
      [UInt8.ofNat Compile.OpJumpFalsy, b1, b2, b3, b4][k]? := by
    intro k hk
    rw [hcode _ (by omega) (by omega), hins', Compile.patch_get_lt _ _ _ _ (by omega), seE.pre.2 _ (by omega), hins5]
    exact Compile.patch_get_mid _ _ _ _ (by simpa using hk) (by simp; omega)
  have hct' : CodeHas code cs3.insts cs2.insts.size := by
    intro i h1 h2
    rw [hcode i (by omega) (by omega), hins', Compile.patch_get_lt _ _ _ _ h2, seE.pre.2 i (by omega), hins5,
      Compile.patch_get_ge _ _ _ _ (by simp; omega), she2.pre.2 i h2]
  have hcj2 : ∀ k (hk : k < 5), code.insts[cs3.insts.size + k]? =
      [UInt8.ofNat Compile.OpJump, e1, e2', e3, e4'][k]? := by
    intro k hk
    rw [hcode _ (by omega) (by omega), hins']
    exact Compile.patch_get_mid _ _ _ _ (by simpa using hk) (by simp; omega)
  have hcf' : CodeHas code cs6.insts cs5.insts.size := by
    intro i h1 h2
    rw [hcode i (by omega) (by omega), hins', Compile.patch_get_ge _ _ _ _ (by simp; omega)]
  have hni' : nextIndex cs'.tables = nextIndex cs.tables := htl.nextIndex
  have hl' : localIdx cs' = localIdx cs := localIdx_of_tl htl
  have hlo := hvm.lo
  have hnc := need_pos c
  obtain ⟨rc, ss1, t1, hec, hsem⟩ := sm_bind_inv hsem
  obtain ⟨rfl, oc⟩ := eval_step F hcc hFc' (Compile.IsPre.trans ((she1.cpre.trans seT.cpre)) hK3) hcc' hvm hip (by omega)
    hst hdy hN hec
  cases rc with
  | thr a =>
    obtain ⟨hce, rfl, rfl⟩ := sm_pure_inv hsem
    simp only [Prod.mk.injEq] at hce
    obtain ⟨rfl, rfl⟩ := hce
    exact ⟨rfl, OutS.of_thr oc hdy.rel⟩
  | val cv =>
    obtain ⟨rfl, hsc, s1, hr1, hs1, hh1, hip1, hsp1, hag1, hget1⟩ := oc
    obtain ⟨hvm1, hdy1⟩ := after_push hvm hdy hst.lt hN hs1 hh1 hag1 (by omega)
    simp only at hsem
    obtain ⟨fl, ss2, t2, hfl, hsem⟩ := sm_bind_inv hsem
    obtain ⟨rfl, hfl'⟩ := sm_liftM_inv hfl
    obtain ⟨rfl, hro⟩ := (pure_isFalsy hsc).runsOn hfl'
    have hidx : s1.sp - 1 = s.sp := by omega
    obtain ⟨s2, hrun, hs2, hh2, hip2, hsp2, hst2⟩ := step_jumpFalsy F hvm1.code cs1.insts.size hip1 _ b1 b2 b3 b4
      (by simpa using hcj1 0 (by omega)) rfl
      (by simpa using hcj1 1 (by omega)) (by simpa using hcj1 2 (by omega))
      (by simpa using hcj1 3 (by omega)) (by simpa using hcj1 4 (by omega)) (by omega) fl s1.heap
      (by rw [hidx, hget1]; exact hro _)
    rw [hdec1] at hip2
    rw [hidx] at hst2
    have hidx' : (s.sp).toNat = s.sp.toNat := rfl
    obtain ⟨hvm2, hdy2, hf2⟩ := after_pop hvm hdy hst.lt hN hs1 hh1 hag1 hs2 hh2 hst2 (by omega)
    have hreach2 := hr1.trans (Reach.step hvm1.abort hrun)
    cases fl with
    | true =>
      simp only [Bool.not_true, Bool.false_eq_true, if_false, if_true] at hip2 hsem
      have hni5 : nextIndex cs5.tables = nextIndex cs.tables := by
        rw [ht5, ht4, htlT.nextIndex, ht2, ht1]
      obtain ⟨rfl, oe⟩ := simE fuel K code bp L env binds s2 t ss ss' cc env' t' hK6 hcf' hvm2 (by omega) (by omega)
        (by rw [← ht']; exact hL) (by rw [hl5, hni5]; exact hst) hdy2 hsem
      refine ⟨rfl, OutS.via hreach2 hf2 (by omega) (fun _ h => h) ?_⟩
      rw [hsz', hl', hni']
      have hl6 : localIdx cs6 = localIdx cs := by rw [localIdx_of_tl htlE, hl5]
      have hni6 : nextIndex cs6.tables = nextIndex cs.tables := by rw [htlE.nextIndex, hni5]
      rw [hl6, hni6] at oe
      exact oe
    | false =>
      simp only [Bool.not_false, if_true, Bool.false_eq_true, if_false] at hip2 hsem
      have hni2 : nextIndex cs2.tables = nextIndex cs.tables := by rw [ht2, ht1]
      obtain ⟨rfl, ot⟩ := simT fuel K code bp L env binds s2 t ss ss' cc env' t' hK3 hct' hvm2 (by omega) (by omega)
        (by
          have h1 := seE.tabs.fnMax
          rw [ht5, ht4] at h1
          rw [ht'] at hL
          omega)
        (by rw [hl2, hni2]; exact hst) hdy2 hsem
      refine ⟨rfl, OutS.via hreach2 hf2 (by omega) (fun _ h => h) ?_⟩
      cases cc with
      | normal =>
        obtain ⟨binds', s3, hr3, hf3, hip3, hsp3, hsub3, hst3, hdy3⟩ := ot
        have hvm3 := hvm2.of_frm hf3 hsp3
        obtain ⟨s4, hrun4, hs4, hh4, hip4, hsp4, hst4⟩ := step_jump F hvm3.code cs3.insts.size hip3 _ e1 e2' e3 e4'
          (by simpa using hcj2 0 (by omega)) rfl
          (by simpa using hcj2 1 (by omega)) (by simpa using hcj2 2 (by omega))
          (by simpa using hcj2 3 (by omega)) (by simpa using hcj2 4 (by omega))
        have hf34 : Frm s3 s4 bp L := ⟨hs4, hh4, by rw [hst4], fun j _ _ => by rw [hst4]⟩
        refine ⟨binds', s4, hr3.trans (Reach.step hvm3.abort hrun4), hf3.trans hf34 (by omega),
          by rw [hdec2] at hip4; rw [hsz']; exact hip4, by omega, hsub3, ?_, ?_⟩
        · rw [hl', hni', ← hl3, ← hni2, ← htlT.nextIndex]; exact hst3
        · exact ⟨fun i a hm => by
            obtain ⟨h0, v, hv1, hv2, hv3⟩ := hdy3.cell i a hm
            exact ⟨by rw [hh4]; exact h0, v, hv1, by rw [hst4]; exact hv2, hv3⟩, hdy3.rel.of_eq hh4⟩
      | ret v => exact ot
      | thr a => exact ot
      | brk => exact ot
      | cont => exact ot

/-! ### `if c { … }` -/

set_option maxHeartbeats 1600000 in
theorem good_ifnoelse (F : FloatOps) (B : List String) (pos : Pos) (c : Expr) (hFc : ExprF (bnd B) c = true)
    (nT : Nat) (actT : Compile.CM Unit) (semT : Nat → Sem.Env → Sem.SM (Sem.Comp × Sem.Env))
    (hT : GoodB F B nT actT semT) :
    GoodB F B (max (need c) nT)
      (do
        compileExpr c
        let j ← Compile.emit pos Compile.OpJumpFalsy [0]
        actT
        Compile.changeOperand j [(← Compile.curPos)])
      (fun fuel env => do
        match (← Sem.evalExpr F fuel env c) with
        | .thr a => pure (.thr a, env)
        | .val cv => if !(← Sem.liftM (isFalsy cv)) then semT fuel env else pure (.normal, env)) := by
  intro cs cs' hc hcov hok
  obtain ⟨_, cs1, hcc, hc⟩ := bind_inv hc
  obtain ⟨j1, cs2, hj1, hc⟩ := bind_inv hc
  obtain ⟨_, cs3', hct, hc⟩ := bind_inv hc
  obtain ⟨x1, cs3, hx1, hc⟩ := bind_inv hc
  obtain ⟨rfl, rfl⟩ := curPos_inv hx1
  have hFc' := exprF_of_cov hcov hFc
  obtain ⟨shc, _⟩ := good_all F c cs cs1 hcc hFc'
  have she1 := Shape.of_emit hj1
  have hok1 := hok.of_shape shc
  have hok2 := hok1.of_shape she1
  have hl2 : localIdx cs2 = localIdx cs := by rw [she1.localIdx, shc.localIdx]
  obtain ⟨seT, hok3, htlT, simT⟩ := hT cs2 cs3 hct (by rw [hl2]; exact hcov) hok2
  have hl3 : localIdx cs3 = localIdx cs := by rw [localIdx_of_tl htlT, hl2]
  obtain ⟨bsj1, hbsj1, hjp1, e2⟩ := emit_inv hj1
  obtain ⟨_, c1, c2, c3, c4, rfl, _⟩ := mk_w4 Compile.OpJumpFalsy rfl _ _ hbsj1
  obtain ⟨opb1, bs1, hopb1, hbs1, e5⟩ := changeOperand_inv hc
  have hsz2 : cs2.insts.size = cs1.insts.size + 5 := by rw [e2]; simp
  have hle23 : cs2.insts.size ≤ cs3.insts.size := seT.pre.1
  have hop1 : cs2.insts[cs1.insts.size]? = some (UInt8.ofNat Compile.OpJumpFalsy) := by
    rw [e2]; exact emit_bytes (cs := cs1) _ 0 (by simp)
  have hopb1' : opb1 = UInt8.ofNat Compile.OpJumpFalsy := by
    rw [hjp1, getElem?_of_pre seT.pre hop1] at hopb1
    injection hopb1 with h; exact h.symm
  rw [hopb1'] at hbs1
  obtain ⟨_, b1, b2, b3, b4, rfl, hdec1⟩ := mk_w4 Compile.OpJumpFalsy rfl _ _ hbs1
  simp only [Int.toNat_natCast] at hdec1
  have hsz' : cs'.insts.size = cs3.insts.size := by rw [e5]; exact Compile.size_patch _ _ _
  have hins' : cs'.insts = Compile.patch cs3.insts cs1.insts.size [UInt8.ofNat Compile.OpJumpFalsy, b1, b2, b3, b4] := by
    rw [e5, hjp1]
  have hlec : cs.insts.size ≤ cs1.insts.size := shc.pre.1
  have se3 : StEff cs cs3 := ((StEff.of_shape shc hok.ne).trans (StEff.of_shape she1 hok1.ne)).trans seT
  have hse : StEff cs cs' := by rw [e5]; exact se3.patch _ _ (by rw [hjp1]; exact hlec)
  have ht' : cs'.tables = cs3.tables := by rw [e5]
  have ht1 : cs1.tables = cs.tables := by rw [shc.eq]
  have ht2 : cs2.tables = cs1.tables := by rw [she1.eq]
  have htl : Tl cs.tables cs'.tables := by rw [ht', ← ht1, ← ht2]; exact htlT
  have hok' : CsOK cs' := hok3.of_tables ht' (by rw [e5])
  refine ⟨hse, hok', htl, ?_⟩
  intro fuel K code bp L env binds s t ss ss' cc env' t' hK hcode hvm hip hsp hL hst hdy hsem
  dsimp only at hsem
  have hN := nextIndex_le_of hok hse hL
  have hK3 : IsPre cs3.constants K := by
    have : cs'.constants = cs3.constants := by rw [e5]
    rw [← this]; exact hK
  have hcc' : CodeHas code cs1.insts cs.insts.size := by
    intro i h1 h2
    rw [hcode i h1 (by omega), hins', Compile.patch_get_lt _ _ _ _ h2, (she1.pre.trans seT.pre).2 i h2]
  have hcj1 : ∀ k (hk : k < 5), code.insts[cs1.insts.size + k]? =
      [UInt8.ofNat Compile.OpJumpFalsy, b1, b2, b3, b4][k]? := by
    intro k hk
    rw [hcode _ (by omega) (by omega), hins']
    exact Compile.patch_get_mid _ _ _ _ (by simpa using hk) (by simp; omega)
  have hct' : CodeHas code cs3.insts cs2.insts.size := by
    intro i h1 h2
    rw [hcode i (by omega) (by omega), hins', Compile.patch_get_ge _ _ _ _ (by simp; omega)]
  have hni' : nextIndex cs'.tables = nextIndex cs.tables := htl.nextIndex
  have hl' : localIdx cs' = localIdx cs := localIdx_of_tl htl
  have hlo := hvm.lo
  have hnc := need_pos c
  obtain ⟨rc, ss1, t1, hec, hsem⟩ := sm_bind_inv hsem
  obtain ⟨rfl, oc⟩ := eval_step F hcc hFc' (Compile.IsPre.trans (she1.cpre.trans seT.cpre) hK3) hcc' hvm hip (by omega)
    hst hdy hN hec
  cases rc with
  | thr a =>
    obtain ⟨hce, rfl, rfl⟩ := sm_pure_inv hsem
    simp only [Prod.mk.injEq] at hce
    obtain ⟨rfl, rfl⟩ := hce
    exact ⟨rfl, OutS.of_thr oc hdy.rel⟩
  | val cv =>
    obtain ⟨rfl, hsc, s1, hr1, hs1, hh1, hip1, hsp1, hag1, hget1⟩ := oc
    obtain ⟨hvm1, hdy1⟩ := after_push hvm hdy hst.lt hN hs1 hh1 hag1 (by omega)
    simp only at hsem
    obtain ⟨fl, ss2, t2, hfl, hsem⟩ := sm_bind_inv hsem
    obtain ⟨rfl, hfl'⟩ := sm_liftM_inv hfl
    obtain ⟨rfl, hro⟩ := (pure_isFalsy hsc).runsOn hfl'
    have hidx : s1.sp - 1 = s.sp := by omega
    obtain ⟨s2, hrun, hs2, hh2, hip2, hsp2, hst2⟩ := step_jumpFalsy F hvm1.code cs1.insts.size hip1 _ b1 b2 b3 b4
      (by simpa using hcj1 0 (by omega)) rfl
      (by simpa using hcj1 1 (by omega)) (by simpa using hcj1 2 (by omega))
      (by simpa using hcj1 3 (by omega)) (by simpa using hcj1 4 (by omega)) (by omega) fl s1.heap
      (by rw [hidx, hget1]; exact hro _)
    rw [hdec1] at hip2
    rw [hidx] at hst2
    obtain ⟨hvm2, hdy2, hf2⟩ := after_pop hvm hdy hst.lt hN hs1 hh1 hag1 hs2 hh2 hst2 (by omega)
    have hreach2 := hr1.trans (Reach.step hvm1.abort hrun)
    cases fl with
    | true =>
      simp only [Bool.not_true, Bool.false_eq_true, if_false, if_true] at hip2 hsem
      obtain ⟨hce, rfl, rfl⟩ := sm_pure_inv hsem
      simp only [Prod.mk.injEq] at hce
      obtain ⟨rfl, rfl⟩ := hce
      refine ⟨rfl, binds, s2, hreach2, hf2, by rw [hsz']; exact hip2, by omega, fun _ h => h, ?_, hdy2⟩
      rw [hl', hni']; exact hst
    | false =>
      simp only [Bool.not_false, if_true, Bool.false_eq_true, if_false] at hip2 hsem
      have hni2 : nextIndex cs2.tables = nextIndex cs.tables := by rw [ht2, ht1]
      obtain ⟨rfl, ot⟩ := simT fuel K code bp L env binds s2 t ss ss' cc env' t' hK3 hct' hvm2 (by omega) (by omega)
        (by rw [← ht']; exact hL) (by rw [hl2, hni2]; exact hst) hdy2 hsem
      refine ⟨rfl, OutS.via hreach2 hf2 (by omega) (fun _ h => h) ?_⟩
      rw [hsz', hl', hni']
      have hni3 : nextIndex cs3.tables = nextIndex cs.tables := by rw [htlT.nextIndex, hni2]
      rw [hl3, hni3] at ot
      exact ot

/-! ### the `if` statement -/

theorem sm_bind_run {α β} {x : Sem.SM α} {f : α → Sem.SM β} {ss ss1 : Sem.SemSt} {t t1 : State} {a : α}
    (h : exec (x.run ss) t = (.ok (a, ss1), t1)) : exec ((x >>= f).run ss) t = exec ((f a).run ss1) t1 := by
  rw [StateT.run_bind, exec_bind, h]

theorem sm_pure_run {α} (a : α) (ss : Sem.SemSt) (t : State) :
    exec ((pure a : Sem.SM α).run ss) t = (.ok (a, ss), t) := by
  rw [run_pure]; rfl

theorem GoodC.pure_bind {F : FloatOps} {B B' : List String} {nd : Nat} {act : Compile.CM Unit}
    {sem : Nat → Sem.Env → Sem.SM (Sem.Comp × Sem.Env)} (h : GoodC F B B' nd act sem) :
    GoodC F B B' nd (pure () >>= fun _ => act) sem := by
  intro cs cs' hc hcov hok
  obtain ⟨_, cs1, h1, h2⟩ := bind_inv hc
  obtain ⟨_, rfl⟩ := pure_inv h1
  exact h cs1 cs' h2 hcov hok

/-- the same code against another presentation of the same reference computation -/
theorem GoodB.resem {F : FloatOps} {B : List String} {nd : Nat} {act : Compile.CM Unit}
    {sem sem' : Nat → Sem.Env → Sem.SM (Sem.Comp × Sem.Env)} (h : GoodB F B nd act sem)
    (hrun : ∀ fuel env ss t r ss' t', exec ((sem' fuel env).run ss) t = (.ok (r, ss'), t') →
      ∃ fuel', exec ((sem fuel' env).run ss) t = (.ok (r, ss'), t')) : GoodB F B nd act sem' := by
  intro cs cs' hc hcov hok
  obtain ⟨h1, h2, h3, h4⟩ := h cs cs' hc hcov hok
  refine ⟨h1, h2, h3, ?_⟩
  intro fuel K code bp L env binds s t ss ss' c env' t' hK hcode hvm hip hsp hL hst hdy hsem
  obtain ⟨fuel', hsem'⟩ := hrun fuel env ss t (c, env') ss' t' hsem
  exact h4 fuel' K code bp L env binds s t ss ss' c env' t' hK hcode hvm hip hsp hL hst hdy hsem'

theorem execStmt_if (F : FloatOps) (fuel : Nat) (env : Sem.Env) (pos bp : Pos) (c : Expr) (body : List Stmt)
    (else_ : Option Stmt) :
    Sem.execStmt F (fuel + 1) env (.if_ pos none c bp body else_) = (do
      let (c0, env1) ← (pure (Sem.Comp.normal, [] :: env) : Sem.SM (Sem.Comp × Sem.Env))
      match c0 with
      | .normal =>
        match (← Sem.evalExpr F fuel env1 c) with
        | .thr a => pure (.thr a, env)
        | .val cv =>
          if !(← Sem.liftM (isFalsy cv)) then do
            let (c, _) ← Sem.execBlock F fuel env1 body
            pure (c, env)
          else
            match else_ with
            | some e => do let (c, _) ← Sem.execStmt F fuel env1 e; pure (c, env)
            | none => pure (.normal, env)
      | c => pure (c, env)) := rfl

theorem execStmt_block (F : FloatOps) (fuel : Nat) (env : Sem.Env) (pos : Pos) (body : List Stmt) :
    Sem.execStmt F (fuel + 1) env (.block pos body) = Sem.execBlock F fuel env body := rfl

/-- a block statement -/
theorem good_blockStmt (F : FloatOps) (B B1 : List String) (nd : Nat) (pos : Pos) (body : List Stmt)
    (h : GoodC F B B1 nd (compileStmts body) (fun fuel env => Sem.execList F fuel env body)) :
    GoodB F B nd (compileStmt (.block pos body)) (fun fuel env => Sem.execStmt F fuel env (.block pos body)) := by
  rw [Compile.compileStmt_eq]
  simp only
  refine (good_blockOf F B B1 nd body h).resem ?_
  intro fuel env ss t r ss' t' hsem
  cases fuel with
  | zero => exact (execStmt_zero' hsem).elim
  | succ fuel => rw [execStmt_block] at hsem; exact ⟨fuel, hsem⟩

theorem good_ifElseStmt (F : FloatOps) (B : List String) (pos bp : Pos) (c : Expr) (body : List Stmt) (e : Stmt)
    (hFc : ExprF (bnd B) c = true) (hnb : isBoolLit c = false) (nT nE : Nat)
    (hT : GoodB F B nT (Compile.blockOf body (compileStmts body)) (fun fuel env => Sem.execBlock F fuel env body))
    (hE : GoodB F B nE (compileStmt e) (fun fuel env => Sem.execStmt F fuel env e)) :
    GoodB F B (max (need c) (max nT nE)) (compileStmt (.if_ pos none c bp body (some e)))
      (fun fuel env => Sem.execStmt F fuel env (.if_ pos none c bp body (some e))) := by
  have hin := good_ifelse F B pos c hFc nT nE _ _ _ _ hT hE
  rw [Compile.compileStmt_eq]
  simp only
  refine good_withBlock F B B _ _ (fun fuel env => do
        match (← Sem.evalExpr F fuel env c) with
        | .thr a => pure (.thr a, env)
        | .val cv => if !(← Sem.liftM (isFalsy cv)) then Sem.execBlock F fuel env body else Sem.execStmt F fuel env e)
      _ ?_ ?_
  · cases c with
    | bool p b => simp [isBoolLit] at hnb
    | _ => exact hin.toC.pure_bind
  · intro fuel env ss t c' env' ss' t' hsem
    cases fuel with
    | zero => exact (execStmt_zero' hsem).elim
    | succ fuel =>
      rw [execStmt_if] at hsem
      obtain ⟨⟨c0, env1⟩, ss0, t0, h0, hsem⟩ := sm_bind_inv hsem
      obtain ⟨hce, rfl, rfl⟩ := sm_pure_inv h0
      simp only [Prod.mk.injEq] at hce
      obtain ⟨rfl, rfl⟩ := hce
      simp only at hsem
      obtain ⟨rc, ss1, t1, hev, hsem⟩ := sm_bind_inv hsem
      cases rc with
      | thr a =>
        obtain ⟨hce, rfl, rfl⟩ := sm_pure_inv hsem
        simp only [Prod.mk.injEq] at hce
        obtain ⟨rfl, rfl⟩ := hce
        refine ⟨rfl, fuel, [] :: env, ?_⟩
        rw [sm_bind_run hev]
        exact sm_pure_run _ _ _
      | val cv =>
        simp only at hsem
        obtain ⟨fl, ss2, t2, hfl, hsem⟩ := sm_bind_inv hsem
        cases fl with
        | false =>
          simp only [Bool.not_false, if_true] at hsem
          obtain ⟨⟨c1, envX⟩, ss3, t3, hb, hsem⟩ := sm_bind_inv hsem
          obtain ⟨hce, rfl, rfl⟩ := sm_pure_inv hsem
          simp only [Prod.mk.injEq] at hce
          obtain ⟨rfl, rfl⟩ := hce
          refine ⟨rfl, fuel, envX, ?_⟩
          rw [sm_bind_run hev]
          simp only
          rw [sm_bind_run hfl]
          simp only [Bool.not_false, if_true]
          exact hb
        | true =>
          simp only [Bool.not_true, Bool.false_eq_true, if_false] at hsem
          obtain ⟨⟨c1, envX⟩, ss3, t3, hb, hsem⟩ := sm_bind_inv hsem
          obtain ⟨hce, rfl, rfl⟩ := sm_pure_inv hsem
          simp only [Prod.mk.injEq] at hce
          obtain ⟨rfl, rfl⟩ := hce
          refine ⟨rfl, fuel, envX, ?_⟩
          rw [sm_bind_run hev]
          simp only
          rw [sm_bind_run hfl]
          simp only [Bool.not_true, Bool.false_eq_true, if_false]
          exact hb

theorem good_ifStmt (F : FloatOps) (B : List String) (pos bp : Pos) (c : Expr) (body : List Stmt)
    (hFc : ExprF (bnd B) c = true) (hnb : isBoolLit c = false) (nT : Nat)
    (hT : GoodB F B nT (Compile.blockOf body (compileStmts body)) (fun fuel env => Sem.execBlock F fuel env body)) :
    GoodB F B (max (need c) nT) (compileStmt (.if_ pos none c bp body none))
      (fun fuel env => Sem.execStmt F fuel env (.if_ pos none c bp body none)) := by
  have hin := good_ifnoelse F B pos c hFc nT _ _ hT
  rw [Compile.compileStmt_eq]
  simp only
  refine good_withBlock F B B _ _ (fun fuel env => do
        match (← Sem.evalExpr F fuel env c) with
        | .thr a => pure (.thr a, env)
        | .val cv => if !(← Sem.liftM (isFalsy cv)) then Sem.execBlock F fuel env body else pure (.normal, env))
      _ ?_ ?_
  · cases c with
    | bool p b => simp [isBoolLit] at hnb
    | _ => exact hin.toC.pure_bind
  · intro fuel env ss t c' env' ss' t' hsem
    cases fuel with
    | zero => exact (execStmt_zero' hsem).elim
    | succ fuel =>
      rw [execStmt_if] at hsem
      obtain ⟨⟨c0, env1⟩, ss0, t0, h0, hsem⟩ := sm_bind_inv hsem
      obtain ⟨hce, rfl, rfl⟩ := sm_pure_inv h0
      simp only [Prod.mk.injEq] at hce
      obtain ⟨rfl, rfl⟩ := hce
      simp only at hsem
      obtain ⟨rc, ss1, t1, hev, hsem⟩ := sm_bind_inv hsem
      cases rc with
      | thr a =>
        obtain ⟨hce, rfl, rfl⟩ := sm_pure_inv hsem
        simp only [Prod.mk.injEq] at hce
        obtain ⟨rfl, rfl⟩ := hce
        refine ⟨rfl, fuel, [] :: env, ?_⟩
        rw [sm_bind_run hev]
        exact sm_pure_run _ _ _
      | val cv =>
        simp only at hsem
        obtain ⟨fl, ss2, t2, hfl, hsem⟩ := sm_bind_inv hsem
        cases fl with
        | false =>
          simp only [Bool.not_false, if_true] at hsem
          obtain ⟨⟨c1, envX⟩, ss3, t3, hb, hsem⟩ := sm_bind_inv hsem
          obtain ⟨hce, rfl, rfl⟩ := sm_pure_inv hsem
          simp only [Prod.mk.injEq] at hce
          obtain ⟨rfl, rfl⟩ := hce
          refine ⟨rfl, fuel, envX, ?_⟩
          rw [sm_bind_run hev]
          simp only
          rw [sm_bind_run hfl]
          simp only [Bool.not_false, if_true]
          exact hb
        | true =>
          simp only [Bool.not_true, Bool.false_eq_true, if_false] at hsem
          obtain ⟨hce, rfl, rfl⟩ := sm_pure_inv hsem
          simp only [Prod.mk.injEq] at hce
          obtain ⟨rfl, rfl⟩ := hce
          refine ⟨rfl, fuel, [] :: env, ?_⟩
          rw [sm_bind_run hev]
          simp only
          rw [sm_bind_run hfl]
          simp only [Bool.not_true, Bool.false_eq_true, if_false]
          exact sm_pure_run _ _ _

/-! ### `if true { … }`: the compiler emits the body only -/

theorem isTrueLit_inv {c : Expr} (h : isTrueLit c = true) : ∃ p, c = .bool p true := by
  cases c with
  | bool p b =>
    cases b with
    | true => exact ⟨p, rfl⟩
    | false => simp [isTrueLit] at h
  | _ => simp [isTrueLit] at h

theorem good_ifTrueStmt (F : FloatOps) (B : List String) (pos bp p : Pos) (body : List Stmt) (els : Option Stmt) (nT : Nat)
    (hT : GoodB F B nT (Compile.blockOf body (compileStmts body)) (fun fuel env => Sem.execBlock F fuel env body)) :
    GoodB F B nT (compileStmt (.if_ pos none (.bool p true) bp body els))
      (fun fuel env => Sem.execStmt F fuel env (.if_ pos none (.bool p true) bp body els)) := by
  rw [Compile.compileStmt_eq]
  simp only
  refine good_withBlock F B B _ _ (fun fuel env => Sem.execBlock F fuel env body) _ hT.toC.pure_bind ?_
  intro fuel env ss t c' env' ss' t' hsem
  cases fuel with
  | zero => exact (execStmt_zero' hsem).elim
  | succ fuel =>
    rw [execStmt_if] at hsem
    obtain ⟨⟨c0, env1⟩, ss0, t0, h0, hsem⟩ := sm_bind_inv hsem
    obtain ⟨hce, rfl, rfl⟩ := sm_pure_inv h0
    simp only [Prod.mk.injEq] at hce
    obtain ⟨rfl, rfl⟩ := hce
    simp only at hsem
    obtain ⟨rc, ss1, t1, hev, hsem⟩ := sm_bind_inv hsem
    cases fuel with
    | zero =>
      have h0 : Sem.evalExpr F 0 ([] :: env) (.bool p true) = Sem.liftM (unsupported "sem: fuel") := rfl
      rw [h0] at hev; exact (sm_unsupported_ne hev).elim
    | succ f =>
      have h1 : Sem.evalExpr F (f + 1) ([] :: env) (.bool p true) = pure (.val (.bool true)) := rfl
      rw [h1] at hev
      obtain ⟨hrc, rfl, rfl⟩ := sm_pure_inv hev
      subst hrc
      simp only at hsem
      obtain ⟨fl, ss2, t2, hfl, hsem⟩ := sm_bind_inv hsem
      obtain ⟨rfl, hfl'⟩ := sm_liftM_inv hfl
      have hf : exec (isFalsy (.bool true)) t = (.ok false, t) := rfl
      rw [hf] at hfl'
      simp only [Prod.mk.injEq, Except.ok.injEq] at hfl'
      obtain ⟨rfl, rfl⟩ := hfl'
      simp only [Bool.not_false, if_true] at hsem
      obtain ⟨⟨c1, envX⟩, ss3, t3, hb, hsem⟩ := sm_bind_inv hsem
      obtain ⟨hce, rfl, rfl⟩ := sm_pure_inv hsem
      simp only [Prod.mk.injEq] at hce
      obtain ⟨rfl, rfl⟩ := hce
      exact ⟨rfl, f + 1, envX, hb⟩

/-! ### `if init; c { … }` -/

/-- two compile actions in sequence against two reference computations in sequence -/
theorem good_seq (F : FloatOps) (B B1 B2 : List String) (n1 n2 : Nat) (act1 act2 : Compile.CM Unit)
    (sem1 sem2 : Nat → Sem.Env → Sem.SM (Sem.Comp × Sem.Env))
    (h1 : GoodC F B B1 n1 act1 sem1) (h2 : GoodC F B1 B2 n2 act2 sem2) :
    GoodC F B B2 (max n1 n2) (act1 >>= fun _ => act2) (fun fuel env => do
      let (c, env') ← sem1 fuel env
      match c with
      | .normal => sem2 fuel env'
      | c => pure (c, env')) := by
  intro cs cs' hc hcov hok
  obtain ⟨_, cs1, hc1, hc2⟩ := bind_inv hc
  obtain ⟨hse1, hok1, hcov1, hsim1⟩ := h1 cs cs1 hc1 hcov hok
  obtain ⟨hse2, hok2, hcov2, hsim2⟩ := h2 cs1 cs' hc2 hcov1 hok1
  refine ⟨hse1.trans hse2, hok2, hcov2, ?_⟩
  intro fuel K code bp L env binds s t ss ss' c env' t' hK hcode hvm hip hsp hL hst hdy hsem
  dsimp only at hsem
  obtain ⟨⟨c1, env1⟩, ss1, t1, hs1, hsem⟩ := sm_bind_inv hsem
  obtain ⟨rfl, out1⟩ := hsim1 fuel K code bp L env binds s t ss ss1 c1 env1 t1 (Compile.IsPre.trans hse2.cpre hK)
    (hcode.sub hse2.pre (Nat.le_refl _)) hvm hip (by omega) (Nat.le_trans hse2.tabs.fnMax hL) hst hdy hs1
  cases c1 with
  | normal =>
    simp only at hsem
    obtain ⟨binds1, s1, hr1, hf1, hip1, hsp1, hsub1, hst1, hdy1⟩ := out1
    obtain ⟨rfl, out2⟩ := hsim2 fuel K code bp L env1 binds1 s1 t1 ss ss' c env' t' hK
      (hcode.sub (Pre.refl _) hse1.pre.1) (hvm.of_frm hf1 hsp1) hip1 (by omega) hL hst1 hdy1 hsem
    exact ⟨rfl, OutS.via hr1 hf1 hsp1 hsub1 out2⟩
  | ret v =>
    simp only at hsem
    obtain ⟨hce, rfl, rfl⟩ := sm_pure_inv hsem
    simp only [Prod.mk.injEq] at hce
    obtain ⟨rfl, rfl⟩ := hce
    exact ⟨rfl, out1.abrupt (by simp)⟩
  | thr a =>
    simp only at hsem
    obtain ⟨hce, rfl, rfl⟩ := sm_pure_inv hsem
    simp only [Prod.mk.injEq] at hce
    obtain ⟨rfl, rfl⟩ := hce
    exact ⟨rfl, out1.abrupt (by simp)⟩
  | brk => exact out1.elim
  | cont => exact out1.elim

theorem execStmt_ifInit (F : FloatOps) (fuel : Nat) (env : Sem.Env) (pos : Pos) (i : Stmt) (bp : Pos) (c : Expr)
    (body : List Stmt) (else_ : Option Stmt) :
    Sem.execStmt F (fuel + 1) env (.if_ pos (some i) c bp body else_) = (do
      let (c0, env1) ← Sem.execStmt F fuel ([] :: env) i
      match c0 with
      | .normal =>
        match (← Sem.evalExpr F fuel env1 c) with
        | .thr a => pure (.thr a, env)
        | .val cv =>
          if !(← Sem.liftM (isFalsy cv)) then do
            let (c, _) ← Sem.execBlock F fuel env1 body
            pure (c, env)
          else
            match else_ with
            | some e => do let (c, _) ← Sem.execStmt F fuel env1 e; pure (c, env)
            | none => pure (.normal, env)
      | c => pure (c, env)) := rfl

theorem good_ifInitStmt (F : FloatOps) (B B1 : List String) (pos bp : Pos) (i : Stmt) (c : Expr) (body : List Stmt)
    (hFc : ExprF (bnd B1) c = true) (hnb : isBoolLit c = false) (nI nT : Nat)
    (hI : GoodC F B B1 nI (compileStmt i) (fun fuel env => Sem.execStmt F fuel env i))
    (hT : GoodB F B1 nT (Compile.blockOf body (compileStmts body)) (fun fuel env => Sem.execBlock F fuel env body)) :
    GoodB F B (max nI (max (need c) nT)) (compileStmt (.if_ pos (some i) c bp body none))
      (fun fuel env => Sem.execStmt F fuel env (.if_ pos (some i) c bp body none)) := by
  have hin := good_ifnoelse F B1 pos c hFc nT _ _ hT
  rw [Compile.compileStmt_eq]
  simp only
  refine good_withBlock F B B1 _ _ (fun fuel env => do
        let (c0, env1) ← Sem.execStmt F fuel env i
        match c0 with
        | .normal => (do
            match (← Sem.evalExpr F fuel env1 c) with
            | .thr a => pure (.thr a, env1)
            | .val cv => if !(← Sem.liftM (isFalsy cv)) then Sem.execBlock F fuel env1 body else pure (.normal, env1))
        | c0 => pure (c0, env1))
      _ ?_ ?_
  · cases c with
    | bool p b => simp [isBoolLit] at hnb
    | _ => exact good_seq F B B1 B1 _ _ _ _ _ _ hI hin.toC
  · intro fuel env ss t c' env' ss' t' hsem
    cases fuel with
    | zero => exact (execStmt_zero' hsem).elim
    | succ fuel =>
      rw [execStmt_ifInit] at hsem
      obtain ⟨⟨c0, env1⟩, ss0, t0, h0, hsem⟩ := sm_bind_inv hsem
      cases c0 with
      | normal =>
        simp only at hsem
        obtain ⟨rc, ss1, t1, hev, hsem⟩ := sm_bind_inv hsem
        cases rc with
        | thr a =>
          obtain ⟨hce, rfl, rfl⟩ := sm_pure_inv hsem
          simp only [Prod.mk.injEq] at hce
          obtain ⟨rfl, rfl⟩ := hce
          refine ⟨rfl, fuel, env1, ?_⟩
          rw [sm_bind_run h0]
          simp only
          rw [sm_bind_run hev]
          exact sm_pure_run _ _ _
        | val cv =>
          simp only at hsem
          obtain ⟨fl, ss2, t2, hfl, hsem⟩ := sm_bind_inv hsem
          cases fl with
          | false =>
            simp only [Bool.not_false, if_true] at hsem
            obtain ⟨⟨c1, envX⟩, ss3, t3, hb, hsem⟩ := sm_bind_inv hsem
            obtain ⟨hce, rfl, rfl⟩ := sm_pure_inv hsem
            simp only [Prod.mk.injEq] at hce
            obtain ⟨rfl, rfl⟩ := hce
            refine ⟨rfl, fuel, envX, ?_⟩
            rw [sm_bind_run h0]
            simp only
            rw [sm_bind_run hev]
            simp only
            rw [sm_bind_run hfl]
            simp only [Bool.not_false, if_true]
            exact hb
          | true =>
            simp only [Bool.not_true, Bool.false_eq_true, if_false] at hsem
            obtain ⟨hce, rfl, rfl⟩ := sm_pure_inv hsem
            simp only [Prod.mk.injEq] at hce
            obtain ⟨rfl, rfl⟩ := hce
            refine ⟨rfl, fuel, env1, ?_⟩
            rw [sm_bind_run h0]
            simp only
            rw [sm_bind_run hev]
            simp only
            rw [sm_bind_run hfl]
            simp only [Bool.not_true, Bool.false_eq_true, if_false]
            exact sm_pure_run _ _ _
      | brk =>
        simp only at hsem
        obtain ⟨hce, rfl, rfl⟩ := sm_pure_inv hsem
        simp only [Prod.mk.injEq] at hce
        obtain ⟨rfl, rfl⟩ := hce
        refine ⟨rfl, fuel, env1, ?_⟩
        rw [sm_bind_run h0]
        exact sm_pure_run _ _ _
      | cont =>
        simp only at hsem
        obtain ⟨hce, rfl, rfl⟩ := sm_pure_inv hsem
        simp only [Prod.mk.injEq] at hce
        obtain ⟨rfl, rfl⟩ := hce
        refine ⟨rfl, fuel, env1, ?_⟩
        rw [sm_bind_run h0]
        exact sm_pure_run _ _ _
      | ret v =>
        simp only at hsem
        obtain ⟨hce, rfl, rfl⟩ := sm_pure_inv hsem
        simp only [Prod.mk.injEq] at hce
        obtain ⟨rfl, rfl⟩ := hce
        refine ⟨rfl, fuel, env1, ?_⟩
        rw [sm_bind_run h0]
        exact sm_pure_run _ _ _
      | thr a =>
        simp only at hsem
        obtain ⟨hce, rfl, rfl⟩ := sm_pure_inv hsem
        simp only [Prod.mk.injEq] at hce
        obtain ⟨rfl, rfl⟩ := hce
        refine ⟨rfl, fuel, env1, ?_⟩
        rw [sm_bind_run h0]
        exact sm_pure_run _ _ _

theorem good_ifInitElseStmt (F : FloatOps) (B B1 : List String) (pos bp : Pos) (i : Stmt) (c : Expr) (body : List Stmt)
    (e : Stmt) (hFc : ExprF (bnd B1) c = true) (hnb : isBoolLit c = false) (nI nT nE : Nat)
    (hI : GoodC F B B1 nI (compileStmt i) (fun fuel env => Sem.execStmt F fuel env i))
    (hT : GoodB F B1 nT (Compile.blockOf body (compileStmts body)) (fun fuel env => Sem.execBlock F fuel env body))
    (hE : GoodB F B1 nE (compileStmt e) (fun fuel env => Sem.execStmt F fuel env e)) :
    GoodB F B (max nI (max (need c) (max nT nE))) (compileStmt (.if_ pos (some i) c bp body (some e)))
      (fun fuel env => Sem.execStmt F fuel env (.if_ pos (some i) c bp body (some e))) := by
  have hin := good_ifelse F B1 pos c hFc nT nE _ _ _ _ hT hE
  rw [Compile.compileStmt_eq]
  simp only
  refine good_withBlock F B B1 _ _ (fun fuel env => do
        let (c0, env1) ← Sem.execStmt F fuel env i
        match c0 with
        | .normal => (do
            match (← Sem.evalExpr F fuel env1 c) with
            | .thr a => pure (.thr a, env1)
            | .val cv => if !(← Sem.liftM (isFalsy cv)) then Sem.execBlock F fuel env1 body else Sem.execStmt F fuel env1 e)
        | c0 => pure (c0, env1))
      _ ?_ ?_
  · cases c with
    | bool p b => simp [isBoolLit] at hnb
    | _ => exact good_seq F B B1 B1 _ _ _ _ _ _ hI hin.toC
  · intro fuel env ss t c' env' ss' t' hsem
    cases fuel with
    | zero => exact (execStmt_zero' hsem).elim
    | succ fuel =>
      rw [execStmt_ifInit] at hsem
      obtain ⟨⟨c0, env1⟩, ss0, t0, h0, hsem⟩ := sm_bind_inv hsem
      cases c0 with
      | normal =>
        simp only at hsem
        obtain ⟨rc, ss1, t1, hev, hsem⟩ := sm_bind_inv hsem
        cases rc with
        | thr a =>
          obtain ⟨hce, rfl, rfl⟩ := sm_pure_inv hsem
          simp only [Prod.mk.injEq] at hce
          obtain ⟨rfl, rfl⟩ := hce
          refine ⟨rfl, fuel, env1, ?_⟩
          rw [sm_bind_run h0]
          simp only
          rw [sm_bind_run hev]
          exact sm_pure_run _ _ _
        | val cv =>
          simp only at hsem
          obtain ⟨fl, ss2, t2, hfl, hsem⟩ := sm_bind_inv hsem
          cases fl with
          | false =>
            simp only [Bool.not_false, if_true] at hsem
            obtain ⟨⟨c1, envX⟩, ss3, t3, hb, hsem⟩ := sm_bind_inv hsem
            obtain ⟨hce, rfl, rfl⟩ := sm_pure_inv hsem
            simp only [Prod.mk.injEq] at hce
            obtain ⟨rfl, rfl⟩ := hce
            refine ⟨rfl, fuel, envX, ?_⟩
            rw [sm_bind_run h0]
            simp only
            rw [sm_bind_run hev]
            simp only
            rw [sm_bind_run hfl]
            simp only [Bool.not_false, if_true]
            exact hb
          | true =>
            simp only [Bool.not_true, Bool.false_eq_true, if_false] at hsem
            obtain ⟨⟨c1, envX⟩, ss3, t3, hb, hsem⟩ := sm_bind_inv hsem
            obtain ⟨hce, rfl, rfl⟩ := sm_pure_inv hsem
            simp only [Prod.mk.injEq] at hce
            obtain ⟨rfl, rfl⟩ := hce
            refine ⟨rfl, fuel, envX, ?_⟩
            rw [sm_bind_run h0]
            simp only
            rw [sm_bind_run hev]
            simp only
            rw [sm_bind_run hfl]
            simp only [Bool.not_true, Bool.false_eq_true, if_false]
            exact hb
      | brk =>
        simp only at hsem
        obtain ⟨hce, rfl, rfl⟩ := sm_pure_inv hsem
        simp only [Prod.mk.injEq] at hce
        obtain ⟨rfl, rfl⟩ := hce
        refine ⟨rfl, fuel, env1, ?_⟩
        rw [sm_bind_run h0]
        exact sm_pure_run _ _ _
      | cont =>
        simp only at hsem
        obtain ⟨hce, rfl, rfl⟩ := sm_pure_inv hsem
        simp only [Prod.mk.injEq] at hce
        obtain ⟨rfl, rfl⟩ := hce
        refine ⟨rfl, fuel, env1, ?_⟩
        rw [sm_bind_run h0]
        exact sm_pure_run _ _ _
      | ret v =>
        simp only at hsem
        obtain ⟨hce, rfl, rfl⟩ := sm_pure_inv hsem
        simp only [Prod.mk.injEq] at hce
        obtain ⟨rfl, rfl⟩ := hce
        refine ⟨rfl, fuel, env1, ?_⟩
        rw [sm_bind_run h0]
        exact sm_pure_run _ _ _
      | thr a =>
        simp only at hsem
        obtain ⟨hce, rfl, rfl⟩ := sm_pure_inv hsem
        simp only [Prod.mk.injEq] at hce
        obtain ⟨rfl, rfl⟩ := hce
        refine ⟨rfl, fuel, env1, ?_⟩
        rw [sm_bind_run h0]
        exact sm_pure_run _ _ _

/-! ### `if false { … }`: a JUMP over the body that is not compiled -/

theorem isFalseLit_inv {c : Expr} (h : isFalseLit c = true) : ∃ p, c = .bool p false := by
  cases c with
  | bool p b =>
    cases b with
    | false => exact ⟨p, rfl⟩
    | true => simp [isFalseLit] at h
  | _ => simp [isFalseLit] at h

theorem good_ifFalse (F : FloatOps) (B : List String) (pos : Pos) :
    GoodB F B 0 (do
        let j ← Compile.emit pos Compile.OpJump [0]
        Compile.changeOperand j [(← Compile.curPos)])
      (fun _ env => pure (.normal, env)) := by
  intro cs cs' hc hcov hok
  obtain ⟨j1, cs2, hj1, hc⟩ := bind_inv hc
  obtain ⟨x1, cs3, hx1, hc⟩ := bind_inv hc
  obtain ⟨rfl, rfl⟩ := curPos_inv hx1
  have she1 := Shape.of_emit hj1
  have hok2 := hok.of_shape she1
  obtain ⟨bsj1, hbsj1, hjp1, e2⟩ := emit_inv hj1
  obtain ⟨_, c1, c2, c3, c4, rfl, _⟩ := mk_w4 Compile.OpJump rfl _ _ hbsj1
  obtain ⟨opb1, bs1, hopb1, hbs1, e5⟩ := changeOperand_inv hc
  have hsz2 : cs3.insts.size = cs.insts.size + 5 := by rw [e2]; simp
  have hop1 : cs3.insts[cs.insts.size]? = some (UInt8.ofNat Compile.OpJump) := by
    rw [e2]; exact emit_bytes (cs := cs) _ 0 (by simp)
  have hopb1' : opb1 = UInt8.ofNat Compile.OpJump := by
    rw [hjp1, hop1] at hopb1
    injection hopb1 with h; exact h.symm
  rw [hopb1'] at hbs1
  obtain ⟨_, b1, b2, b3, b4, rfl, hdec1⟩ := mk_w4 Compile.OpJump rfl _ _ hbs1
  simp only [Int.toNat_natCast] at hdec1
  have hsz' : cs'.insts.size = cs3.insts.size := by rw [e5]; exact Compile.size_patch _ _ _
  have hins' : cs'.insts = Compile.patch cs3.insts cs.insts.size [UInt8.ofNat Compile.OpJump, b1, b2, b3, b4] := by
    rw [e5, hjp1]
  have hse : StEff cs cs' := by
    rw [e5]; exact (StEff.of_shape she1 hok.ne).patch _ _ (by rw [hjp1]; exact Nat.le_refl _)
  have ht' : cs'.tables = cs3.tables := by rw [e5]
  have ht2 : cs3.tables = cs.tables := by rw [she1.eq]
  have htl : Tl cs.tables cs'.tables := by rw [ht', ht2]; exact Tl.refl _
  have hok' : CsOK cs' := hok2.of_tables ht' (by rw [e5])
  refine ⟨hse, hok', htl, ?_⟩
  intro fuel K code bp L env binds s t ss ss' cc env' t' hK hcode hvm hip hsp hL hst hdy hsem
  dsimp only at hsem
  obtain ⟨hce, rfl, rfl⟩ := sm_pure_inv hsem
  simp only [Prod.mk.injEq] at hce
  obtain ⟨rfl, rfl⟩ := hce
  have hcj1 : ∀ k (hk : k < 5), code.insts[cs.insts.size + k]? =
      [UInt8.ofNat Compile.OpJump, b1, b2, b3, b4][k]? := by
    intro k hk
    rw [hcode _ (by omega) (by omega), hins']
    exact Compile.patch_get_mid _ _ _ _ (by simpa using hk) (by simp; omega)
  obtain ⟨s4, hrun4, hs4, hh4, hip4, hsp4, hst4⟩ := step_jump F hvm.code cs.insts.size hip _ b1 b2 b3 b4
    (by simpa using hcj1 0 (by omega)) rfl
    (by simpa using hcj1 1 (by omega)) (by simpa using hcj1 2 (by omega))
    (by simpa using hcj1 3 (by omega)) (by simpa using hcj1 4 (by omega))
  have hf : Frm s s4 bp L := ⟨hs4, hh4, by rw [hst4], fun j _ _ => by rw [hst4]⟩
  have hni' : nextIndex cs'.tables = nextIndex cs.tables := htl.nextIndex
  have hl' : localIdx cs' = localIdx cs := localIdx_of_tl htl
  refine ⟨rfl, binds, s4, Reach.step hvm.abort hrun4, hf, by rw [hdec1] at hip4; rw [hsz']; exact hip4, hsp4,
    fun _ h => h, ?_, ?_⟩
  · rw [hl', hni']; exact hst
  · exact ⟨fun i a hm => by
      obtain ⟨h0, v, hv1, hv2, hv3⟩ := hdy.cell i a hm
      exact ⟨by rw [hh4]; exact h0, v, hv1, by rw [hst4]; exact hv2, hv3⟩, hdy.rel.of_eq hh4⟩

set_option maxHeartbeats 1600000 in
theorem good_ifFalseElse (F : FloatOps) (B : List String) (pos : Pos) (nE : Nat) (actE : Compile.CM Unit)
    (semE : Nat → Sem.Env → Sem.SM (Sem.Comp × Sem.Env)) (hE : GoodB F B nE actE semE) :
    GoodB F B nE (do
        let j ← Compile.emit pos Compile.OpJump [0]
        let j2 ← Compile.emit pos Compile.OpJump [0]
        Compile.changeOperand j [(← Compile.curPos)]
        actE
        Compile.changeOperand j2 [(← Compile.curPos)]) semE := by
  intro cs cs' hc hcov hok
  obtain ⟨j1, cs2, hj1, hc⟩ := bind_inv hc
  obtain ⟨j2, cs3', hj2, hc⟩ := bind_inv hc
  obtain ⟨x1, cs3, hx1, hc⟩ := bind_inv hc
  obtain ⟨rfl, rfl⟩ := curPos_inv hx1
  obtain ⟨_, cs4, hp1, hc⟩ := bind_inv hc
  obtain ⟨_, cs5', hcf, hc⟩ := bind_inv hc
  obtain ⟨x2, cs5, hx2, hc⟩ := bind_inv hc
  obtain ⟨rfl, rfl⟩ := curPos_inv hx2
  have she1 := Shape.of_emit hj1
  have she2 := Shape.of_emit hj2
  have hok2 := hok.of_shape she1
  have hok3 := hok2.of_shape she2
  obtain ⟨bsj1, hbsj1, hjp1, e2⟩ := emit_inv hj1
  obtain ⟨bsj2, hbsj2, hjp2, e3⟩ := emit_inv hj2
  obtain ⟨_, c1, c2, c3, c4, rfl, _⟩ := mk_w4 Compile.OpJump rfl _ _ hbsj1
  obtain ⟨_, d1, d2, d3, d4, rfl, _⟩ := mk_w4 Compile.OpJump rfl _ _ hbsj2
  obtain ⟨opb1, bs1, hopb1, hbs1, e4⟩ := changeOperand_inv hp1
  have hsz2 : cs2.insts.size = cs.insts.size + 5 := by rw [e2]; simp
  have hsz3 : cs3.insts.size = cs2.insts.size + 5 := by rw [e3]; simp
  have hop1 : cs2.insts[cs.insts.size]? = some (UInt8.ofNat Compile.OpJump) := by
    rw [e2]; exact emit_bytes (cs := cs) _ 0 (by simp)
  have hop13 : cs3.insts[cs.insts.size]? = some (UInt8.ofNat Compile.OpJump) := getElem?_of_pre she2.pre hop1
  have hopb1' : opb1 = UInt8.ofNat Compile.OpJump := by
    rw [hjp1, hop13] at hopb1
    injection hopb1 with h; exact h.symm
  rw [hopb1'] at hbs1
  obtain ⟨_, b1, b2, b3, b4, rfl, hdec1⟩ := mk_w4 Compile.OpJump rfl _ _ hbs1
  simp only [Int.toNat_natCast] at hdec1
  have hsz4 : cs4.insts.size = cs3.insts.size := by rw [e4]; exact Compile.size_patch _ _ _
  have hins4 : cs4.insts = Compile.patch cs3.insts cs.insts.size [UInt8.ofNat Compile.OpJump, b1, b2, b3, b4] := by
    rw [e4, hjp1]
  have ht4 : cs4.tables = cs3.tables := by rw [e4]
  have ht3 : cs3.tables = cs2.tables := by rw [she2.eq]
  have ht2 : cs2.tables = cs.tables := by rw [she1.eq]
  have hok4 : CsOK cs4 := hok3.of_tables ht4 (by rw [e4])
  have hl4 : localIdx cs4 = localIdx cs := by
    have : localIdx cs4 = localIdx cs3 := by rw [e4]; rfl
    rw [this, she2.localIdx, she1.localIdx]
  obtain ⟨seE, hok5, htlE, simE⟩ := hE cs4 cs5 hcf (by rw [hl4]; exact hcov) hok4
  obtain ⟨opb2, bs2, hopb2, hbs2, e6⟩ := changeOperand_inv hc
  have hle45 : cs4.insts.size ≤ cs5.insts.size := seE.pre.1
  have hop2 : cs3.insts[cs2.insts.size]? = some (UInt8.ofNat Compile.OpJump) := by
    rw [e3]; exact emit_bytes (cs := cs2) _ 0 (by simp)
  have h4 : cs4.insts[cs2.insts.size]? = some (UInt8.ofNat Compile.OpJump) := by
    rw [hins4, Compile.patch_get_ge _ _ _ _ (by simp; omega)]; exact hop2
  have hop5 : cs5.insts[cs2.insts.size]? = some (UInt8.ofNat Compile.OpJump) := getElem?_of_pre seE.pre h4
  have hopb2' : opb2 = UInt8.ofNat Compile.OpJump := by
    rw [hjp2, hop5] at hopb2
    injection hopb2 with h; exact h.symm
  rw [hopb2'] at hbs2
  obtain ⟨_, e1, e2', e3', e4', rfl, hdec2⟩ := mk_w4 Compile.OpJump rfl _ _ hbs2
  have hsz' : cs'.insts.size = cs5.insts.size := by rw [e6]; exact Compile.size_patch _ _ _
  have hins' : cs'.insts = Compile.patch cs5.insts cs2.insts.size [UInt8.ofNat Compile.OpJump, e1, e2', e3', e4'] := by
    rw [e6, hjp2]
  have se3 : StEff cs cs3 := (StEff.of_shape she1 hok.ne).trans (StEff.of_shape she2 hok2.ne)
  have se4 : StEff cs cs4 := by rw [e4]; exact se3.patch _ _ (by rw [hjp1]; exact Nat.le_refl _)
  have se5 : StEff cs cs5 := se4.trans seE
  have hse : StEff cs cs' := by rw [e6]; exact se5.patch _ _ (by rw [hjp2]; omega)
  have ht' : cs'.tables = cs5.tables := by rw [e6]
  have htl : Tl cs.tables cs'.tables := by
    rw [ht', ← ht2, ← ht3, ← ht4]; exact htlE
  have hok' : CsOK cs' := hok5.of_tables ht' (by rw [e6])
  refine ⟨hse, hok', htl, ?_⟩
  intro fuel K code bp L env binds s t ss ss' cc env' t' hK hcode hvm hip hsp hL hst hdy hsem
  try dsimp only at hsem
  have hN := nextIndex_le_of hok hse hL
  have hK5 : IsPre cs5.constants K := by
    have : cs'.constants = cs5.constants := by rw [e6]
    rw [← this]; exact hK
  have hcj1 : ∀ k (hk : k < 5), code.insts[cs.insts.size + k]? =
      [UInt8.ofNat Compile.OpJump, b1, b2, b3, b4][k]? := by
    intro k hk
    rw [hcode _ (by omega) (by omega), hins', Compile.patch_get_lt _ _ _ _ (by omega), seE.pre.2 _ (by omega), hins4]
    exact Compile.patch_get_mid _ _ _ _ (by simpa using hk) (by simp; omega)
  have hcf' : CodeHas code cs5.insts cs4.insts.size := by
    intro i h1 h2
    rw [hcode i (by omega) (by omega), hins', Compile.patch_get_ge _ _ _ _ (by simp; omega)]
  obtain ⟨s4, hrun4, hs4, hh4, hip4, hsp4, hst4⟩ := step_jump F hvm.code cs.insts.size hip _ b1 b2 b3 b4
    (by simpa using hcj1 0 (by omega)) rfl
    (by simpa using hcj1 1 (by omega)) (by simpa using hcj1 2 (by omega))
    (by simpa using hcj1 3 (by omega)) (by simpa using hcj1 4 (by omega))
  rw [hdec1] at hip4
  have hf : Frm s s4 bp L := ⟨hs4, hh4, by rw [hst4], fun j _ _ => by rw [hst4]⟩
  have hvm4 := hvm.of_frm hf hsp4
  have hdy4 : Dyn binds t s4 bp := ⟨fun i a hm => by
      obtain ⟨h0, v, hv1, hv2, hv3⟩ := hdy.cell i a hm
      exact ⟨by rw [hh4]; exact h0, v, hv1, by rw [hst4]; exact hv2, hv3⟩, hdy.rel.of_eq hh4⟩
  have hni4 : nextIndex cs4.tables = nextIndex cs.tables := by rw [ht4, ht3, ht2]
  obtain ⟨rfl, oe⟩ := simE fuel K code bp L env binds s4 t ss ss' cc env' t' hK5 hcf' hvm4 (by omega) (by omega)
    (by rw [← ht']; exact hL) (by rw [hl4, hni4]; exact hst) hdy4 hsem
  refine ⟨rfl, OutS.via (Reach.step hvm.abort hrun4) hf (by omega) (fun _ h => h) ?_⟩
  have hni' : nextIndex cs'.tables = nextIndex cs.tables := htl.nextIndex
  have hl' : localIdx cs' = localIdx cs := localIdx_of_tl htl
  rw [hsz', hl', hni']
  have hl5 : localIdx cs5 = localIdx cs := by rw [localIdx_of_tl htlE, hl4]
  have hni5 : nextIndex cs5.tables = nextIndex cs.tables := by rw [htlE.nextIndex, hni4]
  rw [hl5, hni5] at oe
  exact oe

theorem good_ifFalseStmt (F : FloatOps) (B : List String) (pos bp p : Pos) (body : List Stmt) :
    GoodB F B 0 (compileStmt (.if_ pos none (.bool p false) bp body none))
      (fun fuel env => Sem.execStmt F fuel env (.if_ pos none (.bool p false) bp body none)) := by
  rw [Compile.compileStmt_eq]
  simp only
  refine good_withBlock F B B _ _ (fun _ env => pure (.normal, env)) _ (good_ifFalse F B pos).toC.pure_bind ?_
  intro fuel env ss t c' env' ss' t' hsem
  cases fuel with
  | zero => exact (execStmt_zero' hsem).elim
  | succ fuel =>
    rw [execStmt_if] at hsem
    obtain ⟨⟨c0, env1⟩, ss0, t0, h0, hsem⟩ := sm_bind_inv hsem
    obtain ⟨hce, rfl, rfl⟩ := sm_pure_inv h0
    simp only [Prod.mk.injEq] at hce
    obtain ⟨rfl, rfl⟩ := hce
    simp only at hsem
    obtain ⟨rc, ss1, t1, hev, hsem⟩ := sm_bind_inv hsem
    cases fuel with
    | zero =>
      have h0 : Sem.evalExpr F 0 ([] :: env) (.bool p false) = Sem.liftM (unsupported "sem: fuel") := rfl
      rw [h0] at hev; exact (sm_unsupported_ne hev).elim
    | succ f =>
      have h1 : Sem.evalExpr F (f + 1) ([] :: env) (.bool p false) = pure (.val (.bool false)) := rfl
      rw [h1] at hev
      obtain ⟨hrc, rfl, rfl⟩ := sm_pure_inv hev
      subst hrc
      simp only at hsem
      obtain ⟨fl, ss2, t2, hfl, hsem⟩ := sm_bind_inv hsem
      obtain ⟨rfl, hfl'⟩ := sm_liftM_inv hfl
      have hf : ∀ w : State, exec (isFalsy (.bool false)) w = (.ok true, w) := fun _ => rfl
      rw [hf] at hfl'
      simp only [Prod.mk.injEq, Except.ok.injEq] at hfl'
      obtain ⟨rfl, rfl⟩ := hfl'
      simp only [Bool.not_true, Bool.false_eq_true, if_false] at hsem
      obtain ⟨hce, rfl, rfl⟩ := sm_pure_inv hsem
      simp only [Prod.mk.injEq] at hce
      obtain ⟨rfl, rfl⟩ := hce
      exact ⟨rfl, 0, [] :: env, sm_pure_run _ _ _⟩

theorem good_ifFalseElseStmt (F : FloatOps) (B : List String) (pos bp p : Pos) (body : List Stmt) (e : Stmt) (nE : Nat)
    (hE : GoodB F B nE (compileStmt e) (fun fuel env => Sem.execStmt F fuel env e)) :
    GoodB F B nE (compileStmt (.if_ pos none (.bool p false) bp body (some e)))
      (fun fuel env => Sem.execStmt F fuel env (.if_ pos none (.bool p false) bp body (some e))) := by
  rw [Compile.compileStmt_eq]
  simp only
  refine good_withBlock F B B _ _ (fun fuel env => Sem.execStmt F fuel env e) _
    (good_ifFalseElse F B pos nE _ _ hE).toC.pure_bind ?_
  intro fuel env ss t c' env' ss' t' hsem
  cases fuel with
  | zero => exact (execStmt_zero' hsem).elim
  | succ fuel =>
    rw [execStmt_if] at hsem
    obtain ⟨⟨c0, env1⟩, ss0, t0, h0, hsem⟩ := sm_bind_inv hsem
    obtain ⟨hce, rfl, rfl⟩ := sm_pure_inv h0
    simp only [Prod.mk.injEq] at hce
    obtain ⟨rfl, rfl⟩ := hce
    simp only at hsem
    obtain ⟨rc, ss1, t1, hev, hsem⟩ := sm_bind_inv hsem
    cases fuel with
    | zero =>
      have h0 : Sem.evalExpr F 0 ([] :: env) (.bool p false) = Sem.liftM (unsupported "sem: fuel") := rfl
      rw [h0] at hev; exact (sm_unsupported_ne hev).elim
    | succ f =>
      have h1 : Sem.evalExpr F (f + 1) ([] :: env) (.bool p false) = pure (.val (.bool false)) := rfl
      rw [h1] at hev
      obtain ⟨hrc, rfl, rfl⟩ := sm_pure_inv hev
      subst hrc
      simp only at hsem
      obtain ⟨fl, ss2, t2, hfl, hsem⟩ := sm_bind_inv hsem
      obtain ⟨rfl, hfl'⟩ := sm_liftM_inv hfl
      have hf : ∀ w : State, exec (isFalsy (.bool false)) w = (.ok true, w) := fun _ => rfl
      rw [hf] at hfl'
      simp only [Prod.mk.injEq, Except.ok.injEq] at hfl'
      obtain ⟨rfl, rfl⟩ := hfl'
      simp only [Bool.not_true, Bool.false_eq_true, if_false] at hsem
      obtain ⟨⟨c1, envX⟩, ss3, t3, hb, hsem⟩ := sm_bind_inv hsem
      obtain ⟨hce, rfl, rfl⟩ := sm_pure_inv hsem
      simp only [Prod.mk.injEq] at hce
      obtain ⟨rfl, rfl⟩ := hce
      exact ⟨rfl, f + 1, envX, hb⟩

/-! ### `var` groups: a list of specifications, each one name with or without a value -/

theorem specF_inv {B : List String} {sp : Spec} (h : specF B sp = true) :
    (∃ iota ipos x e, sp = (iota, [(ipos, x)], [some e]) ∧ ExprF (bnd B) e = true ∧ x ≠ "_") ∨
    (∃ iota ipos x, sp = (iota, [(ipos, x)], []) ∧ x ≠ "_") := by
  unfold specF at h
  split at h
  · simp only [Bool.and_eq_true] at h
    exact .inl ⟨_, _, _, _, rfl, h.1, by simpa using h.2⟩
  · exact .inr ⟨_, _, _, rfl, by simpa using h⟩
  · cases h

theorem compileValueSpecs_nil (pos : Pos) (tok : Nat) (last : Option (Compile.CM Unit × Compile.VSum)) :
    Compile.compileValueSpecs pos tok [] last = pure () := by
  unfold Compile.compileValueSpecs; rfl

theorem compileValueSpecs_var1 (pos : Pos) (iota : Option Nat) (ipos : Pos) (x : String) (e : Expr) (rest : List Spec)
    (last : Option (Compile.CM Unit × Compile.VSum)) :
    Compile.compileValueSpecs pos tVar ((iota, [(ipos, x)], [some e]) :: rest) last =
      ((do compileExpr e; Compile.compileDefine pos x false tVar) >>= fun _ =>
        Compile.compileValueSpecs pos tVar rest (some (compileExpr e, Compile.vsumOf e))) := by
  conv => lhs; unfold Compile.compileValueSpecs
  unfold Compile.compileValueIdents
  unfold Compile.compileValueIdents
  simp [Compile.compileValueIdent, tVar, tConst, Gen.tok_Var, Gen.tok_Const]

theorem compileValueSpecs_var0 (pos : Pos) (iota : Option Nat) (ipos : Pos) (x : String) (rest : List Spec)
    (last : Option (Compile.CM Unit × Compile.VSum)) :
    Compile.compileValueSpecs pos tVar ((iota, [(ipos, x)], []) :: rest) last =
      ((do compileExpr (.undef ipos); Compile.compileDefine pos x false tVar) >>= fun _ =>
        Compile.compileValueSpecs pos tVar rest last) := by
  rw [compileExpr_undef]
  conv => lhs; unfold Compile.compileValueSpecs
  unfold Compile.compileValueIdents
  unfold Compile.compileIdentsNoValue
  unfold Compile.compileIdentsNoValue
  simp [Compile.compileValueIdent, tVar, tConst, Gen.tok_Var, Gen.tok_Const]
/-- two compile actions in sequence against two reference computations in sequence, with fuels of their own -/
theorem good_seqF (F : FloatOps) (B B1 B2 : List String) (n1 n2 : Nat) (act1 act2 : Compile.CM Unit)
    (sem1 sem2 : Nat → Sem.Env → Sem.SM (Sem.Comp × Sem.Env)) (g1 g2 : Nat → Nat)
    (h1 : GoodC F B B1 n1 act1 sem1) (h2 : GoodC F B1 B2 n2 act2 sem2) :
    GoodC F B B2 (max n1 n2) (act1 >>= fun _ => act2) (fun fuel env => do
      let (c, env') ← sem1 (g1 fuel) env
      match c with
      | .normal => sem2 (g2 fuel) env'
      | c => pure (c, env')) :=
  good_seq F B B1 B2 n1 n2 act1 act2 (fun fuel => sem1 (g1 fuel)) (fun fuel => sem2 (g2 fuel))
    (fun cs cs' hc hcov hok => by
      obtain ⟨a, b, c, d⟩ := h1 cs cs' hc hcov hok
      exact ⟨a, b, c, fun fuel => d (g1 fuel)⟩)
    (fun cs cs' hc hcov hok => by
      obtain ⟨a, b, c, d⟩ := h2 cs cs' hc hcov hok
      exact ⟨a, b, c, fun fuel => d (g2 fuel)⟩)

theorem declRun_var1 (F : FloatOps) (x : String) (e : Expr) (iota : Option Nat) (ipos : Pos) (lastE : Option Expr)
    {fuel : Nat} {env : Sem.Env} {ss : Sem.SemSt} {t : State} {c : Sem.Comp} {env' : Sem.Env} {ss' : Sem.SemSt} {t' : State}
    (hsem : exec ((Sem.execValueSpecs F fuel env tVar [(iota, [(ipos, x)], [some e])] lastE).run ss) t =
      (.ok ((c, env'), ss'), t')) :
    DeclRun F x e env ss t c env' ss' t' := by
  cases fuel with
  | zero => rw [execValueSpecs_zero] at hsem; exact (sm_unsupported_ne hsem).elim
  | succ fuel =>
    rw [execValueSpecs_cons] at hsem
    obtain ⟨⟨c1, env1, last1⟩, ss1, t1, hid, hsem⟩ := sm_bind_inv hsem
    cases fuel with
    | zero => rw [execIdents_zero] at hid; exact (sm_unsupported_ne hid).elim
    | succ fuel =>
      rw [execIdents_var1] at hid
      obtain ⟨envI, ss0, t0, hpure, hid⟩ := sm_bind_inv hid
      obtain ⟨rfl, rfl, rfl⟩ := sm_pure_inv hpure
      obtain ⟨rr, ss2, t2, hev, hid⟩ := sm_bind_inv hid
      refine ⟨fuel, [] :: env, rr, ss2, t2, fun n => lookupEnv_nil_cons n env, hev, ?_⟩
      cases rr with
      | thr a =>
        obtain ⟨hce, rfl, rfl⟩ := sm_pure_inv hid
        simp only [Prod.mk.injEq] at hce
        obtain ⟨rfl, rfl, rfl⟩ := hce
        simp only at hsem
        obtain ⟨hce, rfl, rfl⟩ := sm_pure_inv hsem
        simp only [Prod.mk.injEq] at hce
        exact ⟨hce.1.symm, hce.2.symm, rfl, rfl⟩
      | val v =>
        simp only at hid
        obtain ⟨envd, ss3, t3, hdec, hid⟩ := sm_bind_inv hid
        cases fuel with
        | zero => rw [execIdents_zero] at hid; exact (sm_unsupported_ne hid).elim
        | succ fuel =>
          rw [execIdents_nil] at hid
          obtain ⟨hce, rfl, rfl⟩ := sm_pure_inv hid
          simp only [Prod.mk.injEq] at hce
          obtain ⟨rfl, rfl, rfl⟩ := hce
          simp only at hsem
          rw [execValueSpecs_nil] at hsem
          obtain ⟨hce, rfl, rfl⟩ := sm_pure_inv hsem
          simp only [Prod.mk.injEq] at hce
          obtain ⟨rfl, rfl⟩ := hce
          exact ⟨rfl, hdec⟩

theorem declRun_var0 (F : FloatOps) (x : String) (iota : Option Nat) (ipos : Pos) (lastE : Option Expr)
    {fuel : Nat} {env : Sem.Env} {ss : Sem.SemSt} {t : State} {c : Sem.Comp} {env' : Sem.Env} {ss' : Sem.SemSt} {t' : State}
    (hsem : exec ((Sem.execValueSpecs F fuel env tVar [(iota, [(ipos, x)], [])] lastE).run ss) t =
      (.ok ((c, env'), ss'), t')) :
    DeclRun F x (.undef ipos) env ss t c env' ss' t' := by
  cases fuel with
  | zero => rw [execValueSpecs_zero] at hsem; exact (sm_unsupported_ne hsem).elim
  | succ fuel =>
    rw [execValueSpecs_cons] at hsem
    obtain ⟨⟨c1, env1, last1⟩, ss1, t1, hid, hsem⟩ := sm_bind_inv hsem
    cases fuel with
    | zero => rw [execIdents_zero] at hid; exact (sm_unsupported_ne hid).elim
    | succ fuel =>
      rw [execIdents_var0] at hid
      obtain ⟨envI, ss0, t0, hpure, hid⟩ := sm_bind_inv hid
      obtain ⟨rfl, rfl, rfl⟩ := sm_pure_inv hpure
      obtain ⟨rr, ss2, t2, hev, hid⟩ := sm_bind_inv hid
      refine ⟨fuel, [] :: env, rr, ss2, t2, fun n => lookupEnv_nil_cons n env, hev, ?_⟩
      cases rr with
      | thr a =>
        obtain ⟨hce, rfl, rfl⟩ := sm_pure_inv hid
        simp only [Prod.mk.injEq] at hce
        obtain ⟨rfl, rfl, rfl⟩ := hce
        simp only at hsem
        obtain ⟨hce, rfl, rfl⟩ := sm_pure_inv hsem
        simp only [Prod.mk.injEq] at hce
        exact ⟨hce.1.symm, hce.2.symm, rfl, rfl⟩
      | val v =>
        simp only at hid
        obtain ⟨envd, ss3, t3, hdec, hid⟩ := sm_bind_inv hid
        cases fuel with
        | zero => rw [execIdents_zero] at hid; exact (sm_unsupported_ne hid).elim
        | succ fuel =>
          rw [execIdents_nil] at hid
          obtain ⟨hce, rfl, rfl⟩ := sm_pure_inv hid
          simp only [Prod.mk.injEq] at hce
          obtain ⟨rfl, rfl, rfl⟩ := hce
          simp only at hsem
          rw [execValueSpecs_nil] at hsem
          obtain ⟨hce, rfl, rfl⟩ := sm_pure_inv hsem
          simp only [Prod.mk.injEq] at hce
          obtain ⟨rfl, rfl⟩ := hce
          exact ⟨rfl, hdec⟩

/-- what `execIdents` hands on as `last` after one identifier with a value / without a value -/
theorem execIdents_last1 (F : FloatOps) {f : Nat} {env : Sem.Env} {iota : Option Nat} {ipos : Pos} {x : String} {e : Expr}
    {lastE : Option Expr} {ss ss1 : Sem.SemSt} {t t1 : State} {env1 : Sem.Env} {last1 : Option Expr}
    (hid : exec ((Sem.execIdents F f env tVar iota [(ipos, x)] [some e] lastE).run ss) t =
      (.ok ((.normal, env1, last1), ss1), t1)) : last1 = some e ∧ 2 ≤ f := by
  cases f with
  | zero => rw [execIdents_zero] at hid; exact (sm_unsupported_ne hid).elim
  | succ f =>
    rw [execIdents_var1] at hid
    obtain ⟨envI, ss0, t0, hpure, hid⟩ := sm_bind_inv hid
    obtain ⟨rr, ss2, t2, hev, hid⟩ := sm_bind_inv hid
    cases rr with
    | thr a =>
      obtain ⟨hce, _, _⟩ := sm_pure_inv hid
      simp only [Prod.mk.injEq] at hce
      cases hce.1
    | val v =>
      simp only at hid
      obtain ⟨envd, ss3, t3, hdec, hid⟩ := sm_bind_inv hid
      cases f with
      | zero => rw [execIdents_zero] at hid; exact (sm_unsupported_ne hid).elim
      | succ f =>
        rw [execIdents_nil] at hid
        obtain ⟨hce, _, _⟩ := sm_pure_inv hid
        simp only [Prod.mk.injEq] at hce
        exact ⟨hce.2.2.symm, by omega⟩

theorem execIdents_last0 (F : FloatOps) {f : Nat} {env : Sem.Env} {iota : Option Nat} {ipos : Pos} {x : String}
    {lastE : Option Expr} {ss ss1 : Sem.SemSt} {t t1 : State} {env1 : Sem.Env} {last1 : Option Expr}
    (hid : exec ((Sem.execIdents F f env tVar iota [(ipos, x)] [] lastE).run ss) t =
      (.ok ((.normal, env1, last1), ss1), t1)) : last1 = lastE ∧ 2 ≤ f := by
  cases f with
  | zero => rw [execIdents_zero] at hid; exact (sm_unsupported_ne hid).elim
  | succ f =>
    rw [execIdents_var0] at hid
    obtain ⟨envI, ss0, t0, hpure, hid⟩ := sm_bind_inv hid
    obtain ⟨rr, ss2, t2, hev, hid⟩ := sm_bind_inv hid
    cases rr with
    | thr a =>
      obtain ⟨hce, _, _⟩ := sm_pure_inv hid
      simp only [Prod.mk.injEq] at hce
      cases hce.1
    | val v =>
      simp only at hid
      obtain ⟨envd, ss3, t3, hdec, hid⟩ := sm_bind_inv hid
      cases f with
      | zero => rw [execIdents_zero] at hid; exact (sm_unsupported_ne hid).elim
      | succ f =>
        rw [execIdents_nil] at hid
        obtain ⟨hce, _, _⟩ := sm_pure_inv hid
        simp only [Prod.mk.injEq] at hce
        exact ⟨hce.2.2.symm, by omega⟩

/-- the first specification alone, then the others: a run of the whole group is such a run -/
theorem specs_split (F : FloatOps) (sp : Spec) (rest : List Spec) (lastE lastE2 : Option Expr)
    (hlast : ∀ f env ss t env1 last1 ss1 t1, exec ((Sem.execIdents F f env tVar sp.1 sp.2.1 sp.2.2 lastE).run ss) t =
      (.ok ((.normal, env1, last1), ss1), t1) → last1 = lastE2 ∧ 2 ≤ f)
    (fuel : Nat) (env : Sem.Env) (ss : Sem.SemSt) (t : State) (r : Sem.Comp × Sem.Env) (ss' : Sem.SemSt) (t' : State)
    (hsem : exec ((Sem.execValueSpecs F fuel env tVar (sp :: rest) lastE).run ss) t = (.ok (r, ss'), t')) :
    ∃ fuel', exec ((do
      let (c, env') ← Sem.execValueSpecs F (fuel' + 1) env tVar [sp] lastE
      match c with
      | .normal => Sem.execValueSpecs F fuel' env' tVar rest lastE2
      | c => pure (c, env') : Sem.SM (Sem.Comp × Sem.Env)).run ss) t = (.ok (r, ss'), t') := by
  obtain ⟨iota, ids, vals⟩ := sp
  cases fuel with
  | zero => rw [execValueSpecs_zero] at hsem; exact (sm_unsupported_ne hsem).elim
  | succ f =>
    rw [execValueSpecs_cons] at hsem
    obtain ⟨⟨c1, env1, last1⟩, ss1, t1, hid, hsem⟩ := sm_bind_inv hsem
    refine ⟨f, ?_⟩
    have h1 : exec ((Sem.execValueSpecs F (f + 1) env tVar [(iota, ids, vals)] lastE).run ss) t =
        (.ok ((c1, env1), ss1), t1) := by
      rw [execValueSpecs_cons, sm_bind_run hid]
      cases c1 with
      | normal =>
        simp only
        obtain ⟨_, hf⟩ := hlast f env ss t env1 last1 ss1 t1 hid
        obtain ⟨g, rfl⟩ : ∃ g, f = g + 1 := ⟨f - 1, by omega⟩
        rw [execValueSpecs_nil]
        exact sm_pure_run _ _ _
      | brk => exact sm_pure_run _ _ _
      | cont => exact sm_pure_run _ _ _
      | ret v => exact sm_pure_run _ _ _
      | thr a => exact sm_pure_run _ _ _
    rw [sm_bind_run h1]
    cases c1 with
    | normal =>
      simp only at hsem ⊢
      obtain ⟨hl, _⟩ := hlast f env ss t env1 last1 ss1 t1 hid
      rw [← hl]; exact hsem
    | brk => exact hsem
    | cont => exact hsem
    | ret v => exact hsem
    | thr a => exact hsem

theorem good_specs (F : FloatOps) (pos : Pos) : ∀ (specs : List Spec) (B : List String), specsF B specs = true →
    ∀ (last : Option (Compile.CM Unit × Compile.VSum)) (lastE : Option Expr),
    GoodC F B (defsSpecs B specs) (needSpecs specs) (Compile.compileValueSpecs pos tVar specs last)
      (fun fuel env => Sem.execValueSpecs F fuel env tVar specs lastE)
  | [], B, _, last, lastE => by
    rw [compileValueSpecs_nil]
    refine (good_skip F B _ ?_).toC
    intro fuel env ss t c env' ss' t' hsem
    cases fuel with
    | zero => rw [execValueSpecs_zero] at hsem; exact (sm_unsupported_ne hsem).elim
    | succ fuel =>
      rw [execValueSpecs_nil] at hsem
      obtain ⟨hce, rfl, rfl⟩ := sm_pure_inv hsem
      simp only [Prod.mk.injEq] at hce
      exact ⟨hce.1.symm, hce.2.symm, rfl, rfl⟩
  | sp :: rest, B, h, last, lastE => by
    have h' : specF B sp = true ∧ specsF (defsSpec B sp) rest = true := by
      have : specsF B (sp :: rest) = (specF B sp && specsF (defsSpec B sp) rest) := rfl
      rw [this, Bool.and_eq_true] at h; exact h
    rcases specF_inv h'.1 with ⟨iota, ipos, x, e, rfl, hF, hx⟩ | ⟨iota, ipos, x, rfl, hx⟩
    · rw [compileValueSpecs_var1]
      have ih := good_specs F pos rest (x :: B) h'.2 (some (compileExpr e, Compile.vsumOf e)) (some e)
      have h1 : GoodC F B (x :: B) (need e + 1) (do compileExpr e; Compile.compileDefine pos x false tVar)
          (fun fuel env => Sem.execValueSpecs F fuel env tVar [(iota, [(ipos, x)], [some e])] lastE) :=
        good_defineCore F B pos x e hF hx _ (fun fuel env ss t c env' ss' t' h => declRun_var1 F x e iota ipos lastE h)
      have hs := good_seqF F B (x :: B) _ _ _ _ _ _ _ (· + 1) id h1 ih
      refine hs.resem ?_
      intro fuel env ss t r ss' t' hsem
      exact specs_split F _ rest lastE (some e) (fun f env ss t env1 last1 ss1 t1 h => execIdents_last1 F h)
        fuel env ss t r ss' t' hsem
    · rw [compileValueSpecs_var0]
      have ih := good_specs F pos rest (x :: B) h'.2 last lastE
      have h1 : GoodC F B (x :: B) 2 (do compileExpr (.undef ipos); Compile.compileDefine pos x false tVar)
          (fun fuel env => Sem.execValueSpecs F fuel env tVar [(iota, [(ipos, x)], [])] lastE) :=
        good_defineCore F B pos x (.undef ipos) rfl hx _
          (fun fuel env ss t c env' ss' t' h => declRun_var0 F x iota ipos lastE h)
      have hs := good_seqF F B (x :: B) _ _ _ _ _ _ _ (· + 1) id h1 ih
      refine hs.resem ?_
      intro fuel env ss t r ss' t' hsem
      exact specs_split F _ rest lastE lastE (fun f env ss t env1 last1 ss1 t1 h => execIdents_last0 F h)
        fuel env ss t r ss' t' hsem

theorem compileStmt_varGroup (pos : Pos) (sp : Spec) (rest : List Spec) :
    compileStmt (.declValue pos tVar (sp :: rest)) = Compile.compileValueSpecs pos tVar (sp :: rest) none := by
  rw [Compile.compileStmt_eq]
  simp [tVar, tConst, Gen.tok_Var, Gen.tok_Const]

theorem good_varGroup (F : FloatOps) (B : List String) (pos : Pos) (specs : List Spec) (hne : specs.isEmpty = false)
    (h : specsF B specs = true) :
    GoodC F B (defsSpecs B specs) (needSpecs specs) (compileStmt (.declValue pos tVar specs))
      (fun fuel env => Sem.execStmt F fuel env (.declValue pos tVar specs)) := by
  cases specs with
  | nil => simp at hne
  | cons sp rest =>
    rw [compileStmt_varGroup]
    refine (good_specs F pos (sp :: rest) B h none none).resem ?_
    intro fuel env ss t r ss' t' hsem
    cases fuel with
    | zero => exact (execStmt_zero' hsem).elim
    | succ fuel => rw [execStmt_var] at hsem; exact ⟨fuel, hsem⟩

end UgoVerif.CompSim
