import UgoVerif.Model.Enc
/-
  Helper lemmas for C04: encoding/binary varints round-trip, and so do the
  length-prefixed varints of `varintConv` through each of the three readers
  (`vi.read`, `vi.readBytes`, `toVarint`).
-/
namespace UgoVerif.Proofs.Enc
open UgoVerif.Go UgoVerif.Model.Enc UgoVerif.Gen.EncTags

theorem putUvarint_lt (x : Nat) (h : x < 128) : putUvarint x = [UInt8.ofNat x] := by
  rw [putUvarint]; simp [h]

theorem putUvarint_ge (x : Nat) (h : ¬ x < 128) :
    putUvarint x = UInt8.ofNat (x % 128 + 128) :: putUvarint (x / 128) := by
  rw [putUvarint]; simp [h]

theorem putUvarint_length_pos (x : Nat) : 1 ≤ (putUvarint x).length := by
  by_cases h : x < 128
  · simp [putUvarint_lt x h]
  · simp [putUvarint_ge x h]

/-- `x < 2^(7k)` ⇒ at most `k` bytes: the scratch buffers of the Go code suffice -/
theorem putUvarint_length_le : ∀ (x k : Nat), 1 ≤ k → x < 2 ^ (7 * k) → (putUvarint x).length ≤ k := by
  intro x
  induction x using Nat.strongRecOn with
  | _ x ih =>
    intro k hk hx
    by_cases h : x < 128
    · simp [putUvarint_lt x h] <;> omega
    · rw [putUvarint_ge x h]
      have hk2 : 2 ≤ k := by
        by_cases h1 : k = 1
        · subst h1; simp only [Nat.mul_one, Nat.reducePow] at hx; omega
        · omega
      have hp : 2 ^ (7 * k) = 128 * 2 ^ (7 * (k - 1)) := by
        rw [show 7 * k = 7 + 7 * (k - 1) by omega, Nat.pow_add]
      have hdiv : x / 128 < 2 ^ (7 * (k - 1)) := by
        rw [hp] at hx
        exact Nat.div_lt_of_lt_mul hx
      have := ih (x / 128) (by omega) (k - 1) (by omega) hdiv
      simp only [List.length_cons]; omega

theorem uvarintGo_put : ∀ (n i x : Nat) (rest : Bytes), i ≤ 9 → n * 2 ^ (7 * i) < 2 ^ 64 →
    uvarintGo (putUvarint n ++ rest) i x (7 * i) = (x + n * 2 ^ (7 * i), (i : Int) + (putUvarint n).length) := by
  intro n
  induction n using Nat.strongRecOn with
  | _ n ih =>
    intro i x rest hi hn
    by_cases h : n < 128
    · rw [putUvarint_lt n h]
      simp only [List.cons_append, List.nil_append, uvarintGo]
      have hb : (UInt8.ofNat n).toNat = n := by simp [UInt8.toNat_ofNat']; omega
      rw [hb]
      have h10 : i ≠ 10 := by omega
      have h91 : ¬ (i = 9 ∧ n > 1) := by
        rintro ⟨h9, h1⟩; subst h9; simp only [Nat.reduceMul, Nat.reducePow] at hn; omega
      simp [h10, h, h91]
    · rw [putUvarint_ge n h]
      simp only [List.cons_append, uvarintGo]
      have hb : (UInt8.ofNat (n % 128 + 128)).toNat = n % 128 + 128 := by simp [UInt8.toNat_ofNat']; omega
      rw [hb]
      have hp : 2 ^ (7 * (i + 1)) = 128 * 2 ^ (7 * i) := by
        rw [show 7 * (i + 1) = 7 + 7 * i by omega, Nat.pow_add]
      have h128 : 128 * 2 ^ (7 * i) ≤ n * 2 ^ (7 * i) := Nat.mul_le_mul_right _ (by omega)
      have hi8 : i ≤ 8 := by
        by_cases h9 : i = 9
        · subst h9; simp only [Nat.reduceMul, Nat.reducePow] at h128 hn; omega
        · omega
      have hdiv : n / 128 * 2 ^ (7 * (i + 1)) < 2 ^ 64 := by
        rw [hp]
        have : n / 128 * 128 ≤ n := Nat.div_mul_le_self n 128
        calc n / 128 * (128 * 2 ^ (7 * i)) = (n / 128 * 128) * 2 ^ (7 * i) := by rw [Nat.mul_assoc]
          _ ≤ n * 2 ^ (7 * i) := Nat.mul_le_mul_right _ this
          _ < 2 ^ 64 := hn
      have h10 : i ≠ 10 := by omega
      have hnot : ¬ (n % 128 + 128 < 128) := by omega
      simp only [h10, hnot, if_false]
      have hs : 7 * i + 7 = 7 * (i + 1) := by omega
      rw [hs, ih (n / 128) (by omega) (i + 1) _ rest (by omega) hdiv]
      have hmod : (n % 128 + 128) % 128 = n % 128 := by omega
      rw [hmod, hp]
      have hdm : n = 128 * (n / 128) + n % 128 := (Nat.div_add_mod n 128).symm
      refine Prod.ext ?_ ?_
      · show x + n % 128 * 2 ^ (7 * i) + n / 128 * (128 * 2 ^ (7 * i)) = x + n * 2 ^ (7 * i)
        have : n * 2 ^ (7 * i) = (128 * (n / 128) + n % 128) * 2 ^ (7 * i) := by rw [← hdm]
        rw [this, Nat.add_mul, Nat.mul_comm 128 (n / 128), Nat.mul_assoc]; omega
      · show ((i + 1 : Nat) : Int) + ((putUvarint (n / 128)).length : Int) = (i : Int) + ((putUvarint (n / 128)).length + 1 : Nat)
        push_cast; omega

theorem uvarint_put (n : Nat) (rest : Bytes) (hn : n < 2 ^ 64) :
    uvarint (putUvarint n ++ rest) = (n, ((putUvarint n).length : Int)) := by
  have := uvarintGo_put n 0 0 rest (by omega) (by simpa using hn)
  simpa [uvarint] using this

theorem putUvarint_len10 (n : Nat) (hn : n < 2 ^ 64) : (putUvarint n).length ≤ 10 :=
  putUvarint_length_le n 10 (by omega) (by simp only [Nat.reduceMul, Nat.reducePow] at hn ⊢; omega)

/-- the Char scratch buffer (`2+binary.MaxVarintLen32`) suffices as well -/
theorem putUvarint_len5 (n : Nat) (hn : n < 2 ^ 35) : (putUvarint n).length ≤ 5 :=
  putUvarint_length_le n 5 (by omega) (by simpa using hn)

theorem unzigzag_zigzag (x : Int) : unzigzag (zigzag x) = x := by
  unfold unzigzag zigzag
  split <;> split <;> omega

theorem zigzag_lt (x : Int) (h : inInt64 x = true) : zigzag x < 2 ^ 64 := by
  simp [inInt64] at h
  unfold zigzag; split <;> omega

/-- `varint_roundtrip`: `binary.Varint` reads back what `binary.PutVarint` wrote, whatever follows -/
theorem varint_put (x : Int) (rest : Bytes) (h : inInt64 x = true) :
    varint (putVarint x ++ rest) = (x, ((putVarint x).length : Int)) := by
  unfold varint putVarint
  rw [uvarint_put _ rest (zigzag_lt x h)]
  simp [unzigzag_zigzag]

theorem putVarint_len (x : Int) (h : inInt64 x = true) :
    1 ≤ (putVarint x).length ∧ (putVarint x).length ≤ 10 :=
  ⟨putUvarint_length_pos _, putUvarint_len10 _ (zigzag_lt x h)⟩

theorem lenByte (n : Nat) (h : n ≤ 10) : (UInt8.ofNat n).toNat = n := by
  simp [UInt8.toNat_ofNat']; omega

theorem lenByte_ne_zero (n : Nat) (h1 : 1 ≤ n) (h : n ≤ 10) : UInt8.ofNat n ≠ 0 := by
  intro hz
  have h2 := congrArg UInt8.toNat hz
  rw [lenByte n h] at h2
  have : (0 : UInt8).toNat = 0 := rfl
  omega

theorem viRead_toBytes (v : Int) (rest : Bytes) (h : inInt64 v = true) :
    viRead (toBytes v ++ rest) = .ok (v, rest) := by
  obtain ⟨h1, h10⟩ := putVarint_len v h
  unfold toBytes viRead
  simp only [List.cons_append]
  have hb := lenByte _ h10
  have hne : UInt8.ofNat (putVarint v).length ≠ 0 := lenByte_ne_zero _ h1 h10
  rw [hb]
  have hv := varint_put v [] h
  simp only [List.append_nil] at hv
  simp [hne, hv, show ¬ (putVarint v).length > 11 by omega]
  repeat' (first | rfl | omega | split)

theorem viReadBytes_toBytes (v : Int) (rest : Bytes) (h : inInt64 v = true) :
    viReadBytes (toBytes v ++ rest) = .ok (v, toBytes v, rest) := by
  obtain ⟨h1, h10⟩ := putVarint_len v h
  unfold toBytes viReadBytes
  simp only [List.cons_append]
  have hb := lenByte _ h10
  have hne : UInt8.ofNat (putVarint v).length ≠ 0 := lenByte_ne_zero _ h1 h10
  rw [hb]
  have hv := varint_put v [] h
  simp only [List.append_nil] at hv
  simp [hne, hv, show ¬ 1 + (putVarint v).length > 11 by omega]
  repeat' (first | rfl | omega | split)

theorem toVarint_toBytes (v : Int) (rest : Bytes) (h : inInt64 v = true) :
    toVarint (toBytes v ++ rest) = .ok (v, (toBytes v).length) := by
  obtain ⟨h1, h10⟩ := putVarint_len v h
  unfold toBytes toVarint
  simp only [List.cons_append]
  have hb := lenByte _ h10
  have hne : UInt8.ofNat (putVarint v).length ≠ 0 := lenByte_ne_zero _ h1 h10
  rw [hb]
  have hv := varint_put v rest h
  simp [hne, hv]
  repeat' (first | rfl | omega | split)

theorem toBytes_length (v : Int) (h : inInt64 v = true) : 2 ≤ (toBytes v).length ∧ (toBytes v).length ≤ 11 := by
  obtain ⟨h1, h10⟩ := putVarint_len v h
  simp [toBytes]; omega

end UgoVerif.Proofs.Enc
