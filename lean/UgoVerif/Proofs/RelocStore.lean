import UgoVerif.Proofs.RelocOps
import UgoVerif.Proofs.Copy
/-
  Relocation relation: `Copier.Copy()` (`copyV`) and OpStoreModule.

  The copy only pushes cells behind the heap; every function cell it pushes is a copy
  `.fn k free` of a function cell that was there already, so its code index `k` can be entered
  (`R.fnok`) and `R.heapExt` applies.
-/
set_option linter.unusedVariables false
set_option linter.unusedSimpArgs false
namespace UgoVerif.VM.Reloc
open UgoVerif UgoVerif.Go UgoVerif.VM
open UgoVerif.Proofs.Copy (Ext copyVal_spec)

/-! ### function cells of a copy come from function cells of the original heap -/

/-- every function cell of `h'` has the code index of some function cell of `h` -/
def FnFrom (h h' : Array Cell) : Prop :=
  ∀ (a : Nat) k fr, h'[a]? = some (Cell.fn k fr) → ∃ (a' : Nat) (fr' : Option (List Addr)), h[a']? = some (Cell.fn k fr')

theorem FnFrom.refl (h : Array Cell) : FnFrom h h := fun a k fr hk => ⟨a, fr, hk⟩

theorem FnFrom.trans {a b c : Array Cell} (h1 : FnFrom a b) (h2 : FnFrom b c) : FnFrom a c := by
  intro x k fr hk
  obtain ⟨x', fr', hk'⟩ := h2 x k fr hk
  exact h1 x' k fr' hk'

/-- pushing a cell that is not a function, or a function whose code index is in the heap already -/
theorem FnFrom.push (h : Array Cell) (x : Cell)
    (hx : ∀ k fr, x = Cell.fn k fr → ∃ (a' : Nat) (fr' : Option (List Addr)), h[a']? = some (Cell.fn k fr')) : FnFrom h (h.push x) := by
  intro a k fr hk
  rw [Array.getElem?_push] at hk
  split at hk
  · cases hk; exact hx k fr rfl
  · exact ⟨a, fr, hk⟩

def FnSpec (f : Array Cell → V → Option (V × Array Cell)) : Prop :=
  ∀ h v v' h', f h v = some (v', h') → FnFrom h h'

theorem mapHeap_fnFrom {f : Array Cell → V → Option (V × Array Cell)} (hf : FnSpec f) :
    ∀ xs h ys h', mapHeap f h xs = some (ys, h') → FnFrom h h' := by
  intro xs
  induction xs with
  | nil => intro h ys h' hm; simp [mapHeap] at hm; obtain ⟨rfl, rfl⟩ := hm; exact FnFrom.refl _
  | cons x xs ih =>
    intro h ys h' hm
    simp only [mapHeap] at hm
    split at hm
    · cases hm
    · rename_i y h1 hx
      split at hm
      · cases hm
      · rename_i ys' h2 hxs
        simp at hm
        obtain ⟨rfl, rfl⟩ := hm
        exact FnFrom.trans (hf h x y h1 hx) (ih h1 ys' h2 hxs)

theorem mapHeapKV_fnFrom {f : Array Cell → V → Option (V × Array Cell)} (hf : FnSpec f) :
    ∀ xs h ys h', mapHeapKV f h xs = some (ys, h') → FnFrom h h' := by
  intro xs
  induction xs with
  | nil => intro h ys h' hm; simp [mapHeapKV] at hm; obtain ⟨rfl, rfl⟩ := hm; exact FnFrom.refl _
  | cons x xs ih =>
    intro h ys h' hm
    obtain ⟨k, x⟩ := x
    simp only [mapHeapKV] at hm
    split at hm
    · cases hm
    · rename_i y h1 hx
      split at hm
      · cases hm
      · rename_i ys' h2 hxs
        simp at hm
        obtain ⟨rfl, rfl⟩ := hm
        exact FnFrom.trans (hf h x y h1 hx) (ih h1 ys' h2 hxs)

theorem copyVal_fnFrom : ∀ fuel, FnSpec (copyVal fuel) := by
  intro fuel
  induction fuel with
  | zero => intro h v v' h' hc; simp [copyVal] at hc
  | succ fuel ih =>
    intro h v v' h' hc
    cases v <;> simp only [copyVal] at hc
    case arr a off len =>
      split at hc
      · rename_i xs hxs
        split at hc
        · rename_i ys h1 hm
          simp at hc
          obtain ⟨rfl, rfl⟩ := hc
          exact FnFrom.trans (mapHeap_fnFrom ih _ _ _ _ hm) (FnFrom.push _ _ (by intro k fr e; cases e))
        · cases hc
      · cases hc
    case map a =>
      split at hc
      · rename_i kvs hk
        split at hc
        · rename_i kvs' h1 hm
          simp at hc
          obtain ⟨rfl, rfl⟩ := hc
          exact FnFrom.trans (mapHeapKV_fnFrom ih _ _ _ _ hm) (FnFrom.push _ _ (by intro k fr e; cases e))
        · cases hc
      · cases hc
    case cfun a =>
      split at hc
      · rename_i k0 free hfn
        simp at hc
        obtain ⟨rfl, rfl⟩ := hc
        exact FnFrom.push _ _ (by intro k fr e; cases e; exact ⟨a, _, hfn⟩)
      · cases hc
    case err a =>
      split at hc
      · simp at hc
        obtain ⟨rfl, rfl⟩ := hc
        exact FnFrom.push _ _ (by intro k fr e; cases e)
      · cases hc
    case rterr a =>
      split at hc
      · simp at hc
        obtain ⟨rfl, rfl⟩ := hc
        exact FnFrom.push _ _ (by intro k fr e; cases e)
      · split at hc
        · simp at hc
          obtain ⟨rfl, rfl⟩ := hc
          exact FnFrom.trans (FnFrom.push _ _ (by intro k fr e; cases e))
            (FnFrom.push _ _ (by intro k fr e; cases e))
        · cases hc
      · cases hc
    case host => cases hc
    all_goals
      simp at hc
      obtain ⟨rfl, rfl⟩ := hc
      exact FnFrom.refl _

/-! ### `copyV` -/

theorem exec_copyV (v : V) (s : State) : exec (copyV v) s =
    match copyVal (s.heap.size + 2) s.heap v with
    | some (v', h') => (.ok v', { s with heap := h' })
    | none => (.error (.unsupported
        "Copy() of a value outside the modelled subset (host object, dangling or cyclic value)"), s) := by
  simp only [copyV, exec_bind, exec_getS]
  cases copyVal (s.heap.size + 2) s.heap v with
  | none => rfl
  | some p => obtain ⟨v', h'⟩ := p; rfl

theorem rel_copyV {P : Params} {ci : Nat → Nat} {c : Nat} {I : Int → Int → Prop} (v : V) :
    RelE (R P ci c I) (R P ci c I) (RM P) Eq (copyV v) (copyV v) := by
  apply RelE.mk'
  intro s t h
  rw [exec_copyV, exec_copyV, h.heap]
  cases hc : copyVal (s.heap.size + 2) s.heap v with
  | none => exact ⟨rfl, h.toRM⟩
  | some p =>
    obtain ⟨v', h'⟩ := p
    obtain ⟨he, _⟩ := copyVal_spec _ _ _ _ _ hc
    have hf := copyVal_fnFrom _ _ _ _ _ hc
    refine ⟨rfl, h.heapExt h' he.1 he.2 ?_⟩
    intro a k fr _ hk
    obtain ⟨a', fr', hk'⟩ := hf a k fr hk
    exact h.fnok a' k fr' hk'

macro_rules | `(tactic| rlc_prim) => `(tactic| exact rel_copyV _)

/-! ### OpStoreModule -/

theorem rel_setModule {P : Params} {ci : Nat → Nat} {c : Nat} {I : Int → Int → Prop} (i : Nat) (v : V) :
    RelE (R P ci c I) (R P ci c I) (RM P) Eq
      (modS fun s => { s with modules := s.modules.set! i v })
      (modS fun s => { s with modules := s.modules.set! i v }) :=
  RelE.modS (fun s t h =>
    { h with modules := by show t.modules.set! i v = s.modules.set! i v; rw [h.modules] })

macro_rules | `(tactic| rlc_prim) => `(tactic| exact rel_setModule _ _)

theorem rel_execStoreModule {P : Params} {ci : Nat → Nat} {c o : Nat}
    (hcr : CodeRel P.wide (P.Φ c) (P.BB c) (P.cs[c]!).insts (P.ct[c]!).insts) (hB : P.BB c o) (hfail : FailOK P)
    (hop : (((P.cs[c]!).insts)[o]!).toNat = OpStoreModule) : OpRel P ci c o execStoreModule execStoreModule := by
  obtain ⟨hw, hnext⟩ := plain_facts hcr hB _ hop (by decide) (by decide) 2 (by decide)
  unfold execStoreModule; rlo

end UgoVerif.VM.Reloc
