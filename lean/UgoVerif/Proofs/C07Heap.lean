import UgoVerif.Proofs.VMImmut
import UgoVerif.Proofs.Copy
/-
  The heap part of `bytecode_immutable`: function cells — the compiled functions among the
  constants, and every closure — are never overwritten.  All overwrites of existing heap cells
  in the model go through `heapUpd` (same-kind update of an array / map / iterator cell) and
  `boxSet` (write through an `*ObjectPtr`); `alloc` and `Copy()` only append.
  GENERATED from Proofs/VMImmut.lean by substitution of the invariant (same calculus, same
  tactic) — the five lemmas about heap primitives are written by hand.
-/
namespace UgoVerif.VM
open UgoVerif UgoVerif.Go

/-- every function cell of `h0` is still there, unchanged -/
@[reducible] def FnStable (h0 : Array Cell) (s : State) : Prop :=
  ∀ (a : Nat) (c : Nat) (f : Option (List Addr)), h0[a]? = some (Cell.fn c f) → s.heap[a]? = some (Cell.fn c f)

syntax "fnk_prim" : tactic
macro_rules | `(tactic| fnk_prim) => `(tactic| exact Keeps.pure _)
macro_rules | `(tactic| fnk_prim) => `(tactic| exact Keeps.panic _)
macro_rules | `(tactic| fnk_prim) => `(tactic| exact Keeps.unsupported _)
macro_rules | `(tactic| fnk_prim) => `(tactic| exact Keeps.throw _)
macro_rules | `(tactic| fnk_prim) => `(tactic| exact Keeps.getS)
macro_rules | `(tactic| fnk_prim) => `(tactic| exact Keeps.get)
macro_rules | `(tactic| fnk_prim) => `(tactic| exact Keeps.modS (fun _ h => fun a c f h0a => h a c f h0a))
macro_rules | `(tactic| fnk_prim) => `(tactic| exact Keeps.set' (by assumption))
macro_rules | `(tactic| fnk_prim) => `(tactic| keeps_hyp)

/-- structural decomposition of a `do` block.  Join points and local functions
    (`have jp := fun … => …; body`) are proved once and then abstracted, so that their
    bodies are not duplicated at every call site. -/
syntax "fnkeeps" : tactic
set_option hygiene false in
macro_rules | `(tactic| fnkeeps) => `(tactic|
  repeat (first
    | with_reducible fnk_prim
    | apply Keeps.bind
    | apply Keeps.ite
    | apply Keeps.forIn_range
    | apply Keeps.forIn_list
    | ((first | lift_lets | skip); intro jp__;
       first
       | (have hjp__ : Keeps (FnStable h0) jp__ := by
            (dsimp only [jp__]; fnkeeps)
          clear_value jp__)
       | (have hjp__ : ∀ a__, Keeps (FnStable h0) (jp__ a__) := by
            (intro a__; dsimp only [jp__]; fnkeeps)
          clear_value jp__)
       | (have hjp__ : ∀ a__ b__, Keeps (FnStable h0) (jp__ a__ b__) := by
            (intro a__ b__; dsimp only [jp__]; fnkeeps)
          clear_value jp__)
       | (have hjp__ : ∀ a__ b__ c__, Keeps (FnStable h0) (jp__ a__ b__ c__) := by
            (intro a__ b__ c__; dsimp only [jp__]; fnkeeps)
          clear_value jp__)
       | clear_value jp__)
    | intro _
    | split
    | dsimp only))

set_option maxHeartbeats 1600000
section
variable {h0 : Array Cell}
local notation "P" => FnStable h0

theorem fnk_stackGet (i : Int) : Keeps P (stackGet i) := by unfold stackGet; fnkeeps
macro_rules | `(tactic| fnk_prim) => `(tactic| exact fnk_stackGet _)
theorem fnk_stackSet (i : Int) (v : V) : Keeps P (stackSet i v) := by unfold stackSet; fnkeeps
macro_rules | `(tactic| fnk_prim) => `(tactic| exact fnk_stackSet _ _)
theorem fnk_getSp : Keeps P getSp := by unfold getSp; fnkeeps
macro_rules | `(tactic| fnk_prim) => `(tactic| exact fnk_getSp)
theorem fnk_setSp (v : Int) : Keeps P (setSp v) := by unfold setSp; fnkeeps
macro_rules | `(tactic| fnk_prim) => `(tactic| exact fnk_setSp _)
theorem fnk_getIp : Keeps P getIp := by unfold getIp; fnkeeps
macro_rules | `(tactic| fnk_prim) => `(tactic| exact fnk_getIp)
theorem fnk_setIp (v : Int) : Keeps P (setIp v) := by unfold setIp; fnkeeps
macro_rules | `(tactic| fnk_prim) => `(tactic| exact fnk_setIp _)
theorem fnk_curFrame : Keeps P curFrame := by unfold curFrame; fnkeeps
macro_rules | `(tactic| fnk_prim) => `(tactic| exact fnk_curFrame)
theorem fnk_setCurFrame (f : Frame → Frame) : Keeps P (setCurFrame f) := by unfold setCurFrame; fnkeeps
macro_rules | `(tactic| fnk_prim) => `(tactic| exact fnk_setCurFrame _)
theorem fnk_heapGet (a : Addr) : Keeps P (heapGet a) := by unfold heapGet; fnkeeps
macro_rules | `(tactic| fnk_prim) => `(tactic| exact fnk_heapGet _)
theorem fnk_heapUpd (a : Addr) (c : Cell) (hc : c.kind ≠ 3) : Keeps P (heapUpd a c) := by
  apply Keeps.intro'; intro s h
  simp only [heapUpd, heapGet, exec_bind, exec_getS]
  cases hx : s.heap[a]? with
  | none => exact h
  | some old =>
    simp only [exec_pure]
    by_cases hk : (old.kind == c.kind) = true
    · simp only [hk, if_true]
      show FnStable h0 { s with heap := s.heap.set! a c }
      intro a' c' f' h0a
      have hs := h a' c' f' h0a
      have hne : a ≠ a' := by
        intro e; subst e
        rw [hx] at hs
        have : old = Cell.fn c' f' := by simpa using hs
        subst this
        have h3 : (3 : Nat) = c.kind := by simpa [Cell.kind] using hk
        exact hc h3.symm
      show (s.heap.set! a c)[a']? = _
      rw [Array.set!_eq_setIfInBounds, Array.getElem?_setIfInBounds]
      simp [hne, hs]
    · simp only [hk, Bool.false_eq_true, if_false]; exact h
macro_rules | `(tactic| fnk_prim) => `(tactic| exact fnk_heapUpd _ _ (by simp [Cell.kind]))
theorem fnk_boxSet (a : Addr) (v : V) : Keeps P (boxSet a v) := by
  apply Keeps.intro'; intro s h
  simp only [boxSet, heapGet, exec_bind, exec_getS]
  cases hx : s.heap[a]? with
  | none => exact h
  | some old =>
    simp only [exec_pure]
    cases old with
    | box w =>
      show FnStable h0 { s with heap := s.heap.set! a (.box v) }
      intro a' c' f' h0a
      have hs := h a' c' f' h0a
      have hne : a ≠ a' := by
        intro e; subst e
        rw [hx] at hs
        cases hs
      show (s.heap.set! a (.box v))[a']? = _
      rw [Array.set!_eq_setIfInBounds, Array.getElem?_setIfInBounds]
      simp [hne, hs]
    | _ => exact h
macro_rules | `(tactic| fnk_prim) => `(tactic| exact fnk_boxSet _ _)
theorem fnk_alloc (c : Cell) : Keeps P (alloc c) := by
  apply Keeps.intro'; intro s h
  show FnStable h0 { s with heap := s.heap.push c }
  intro a' c' f' h0a
  have hs := h a' c' f' h0a
  show (s.heap.push c)[a']? = _
  have hlt : a' < s.heap.size := by
    rcases Nat.lt_or_ge a' s.heap.size with hl | hl
    · exact hl
    · rw [Array.getElem?_eq_none hl] at hs; cases hs
  rw [Array.getElem?_push]
  have : a' ≠ s.heap.size := Nat.ne_of_lt hlt
  simp [this, hs]
macro_rules | `(tactic| fnk_prim) => `(tactic| exact fnk_alloc _)
theorem fnk_noteTrace (op : Nat) : Keeps P (noteTrace op) := by
  apply Keeps.intro'; intro s h
  simp only [noteTrace, exec_bind, exec_getS]
  split <;> exact fun a c f h0a => h a c f h0a
macro_rules | `(tactic| fnk_prim) => `(tactic| exact fnk_noteTrace _)
theorem fnk_copyV (v : V) : Keeps P (copyV v) := by
  apply Keeps.intro'; intro s h
  simp only [copyV, exec_bind, exec_getS]
  cases hx : copyVal (s.heap.size + 2) s.heap v with
  | none => exact h
  | some p =>
    obtain ⟨v', h'⟩ := p
    have hext := (UgoVerif.Proofs.Copy.copyVal_spec (s.heap.size + 2) s.heap v v' h' hx).1
    show FnStable h0 { s with heap := h' }
    intro a' c' f' h0a
    have hs := h a' c' f' h0a
    show h'[a']? = _
    have hlt : a' < s.heap.size := by
      rcases Nat.lt_or_ge a' s.heap.size with hl | hl
      · exact hl
      · rw [Array.getElem?_eq_none hl] at hs; cases hs
    rw [hext.2 a' hlt]; exact hs
macro_rules | `(tactic| fnk_prim) => `(tactic| exact fnk_copyV _)

theorem fnk_curCode  : Keeps P (curCode ) := by unfold curCode; fnkeeps
macro_rules | `(tactic| fnk_prim) => `(tactic| exact fnk_curCode )
theorem fnk_instAt (i : Int) : Keeps P (instAt i) := by unfold instAt; fnkeeps
macro_rules | `(tactic| fnk_prim) => `(tactic| exact fnk_instAt _)
theorem fnk_opnd1 (k : Int) : Keeps P (opnd1 k) := by unfold opnd1; fnkeeps
macro_rules | `(tactic| fnk_prim) => `(tactic| exact fnk_opnd1 _)
theorem fnk_opnd2 (k : Int) : Keeps P (opnd2 k) := by unfold opnd2; fnkeeps
macro_rules | `(tactic| fnk_prim) => `(tactic| exact fnk_opnd2 _)
theorem fnk_opnd4 (k : Int) : Keeps P (opnd4 k) := by unfold opnd4; fnkeeps
macro_rules | `(tactic| fnk_prim) => `(tactic| exact fnk_opnd4 _)
theorem fnk_constAt (i : Nat) : Keeps P (constAt i) := by unfold constAt; fnkeeps
macro_rules | `(tactic| fnk_prim) => `(tactic| exact fnk_constAt _)
theorem fnk_arrElems (a : Addr) (off len : Nat) : Keeps P (arrElems a off len) := by unfold arrElems; fnkeeps
macro_rules | `(tactic| fnk_prim) => `(tactic| exact fnk_arrElems _ _ _)
theorem fnk_mapEntries (a : Addr) : Keeps P (mapEntries a) := by unfold mapEntries; fnkeeps
macro_rules | `(tactic| fnk_prim) => `(tactic| exact fnk_mapEntries _)
theorem fnk_vString (v : V) : Keeps P (vString v) := by unfold vString; fnkeeps
macro_rules | `(tactic| fnk_prim) => `(tactic| exact fnk_vString _)
theorem fnk_isFalsy (v : V) : Keeps P (isFalsy v) := by unfold isFalsy; fnkeeps
macro_rules | `(tactic| fnk_prim) => `(tactic| exact fnk_isFalsy _)
theorem fnk_vEqual (F : FloatOps) (l r : V) : Keeps P (vEqual F l r) := by unfold vEqual; fnkeeps
macro_rules | `(tactic| fnk_prim) => `(tactic| exact fnk_vEqual _ _ _)
theorem fnk_vBinaryOp (F : FloatOps) (tok : Tok) (l r : V) : Keeps P (vBinaryOp F tok l r) := by unfold vBinaryOp; fnkeeps
macro_rules | `(tactic| fnk_prim) => `(tactic| exact fnk_vBinaryOp _ _ _ _)
theorem fnk_vUnary (F : FloatOps) (tok : Tok) (r : V) : Keeps P (vUnary F tok r) := by unfold vUnary; fnkeeps
macro_rules | `(tactic| fnk_prim) => `(tactic| exact fnk_vUnary _ _ _)
theorem fnk_vIndexGet (t i : V) : Keeps P (vIndexGet t i) := by unfold vIndexGet; fnkeeps
macro_rules | `(tactic| fnk_prim) => `(tactic| exact fnk_vIndexGet _ _)
theorem fnk_vIndexSet (t i v : V) : Keeps P (vIndexSet t i v) := by unfold vIndexSet; fnkeeps
macro_rules | `(tactic| fnk_prim) => `(tactic| exact fnk_vIndexSet _ _ _)
theorem fnk_mkErr (n m : String) (c : Option Addr) : Keeps P (mkErr n m c) := by unfold mkErr; fnkeeps
macro_rules | `(tactic| fnk_prim) => `(tactic| exact fnk_mkErr _ _ _)
theorem fnk_rtErrOfOpErr (e : OpErr) : Keeps P (rtErrOfOpErr e) := by unfold rtErrOfOpErr; fnkeeps
macro_rules | `(tactic| fnk_prim) => `(tactic| exact fnk_rtErrOfOpErr _)
theorem fnk_clearDown (hi lo : Int) : Keeps P (clearDown hi lo) := by unfold clearDown; fnkeeps
macro_rules | `(tactic| fnk_prim) => `(tactic| exact fnk_clearDown _ _)
theorem fnk_searchFrames (n : Nat) : Keeps P (searchFrames n) := by
  induction n with
  | zero => unfold searchFrames; fnkeeps
  | succ n ih => unfold searchFrames; fnkeeps
macro_rules | `(tactic| fnk_prim) => `(tactic| exact fnk_searchFrames _)
theorem fnk_pushV (v : V) : Keeps P (pushV v) := by unfold pushV; fnkeeps
macro_rules | `(tactic| fnk_prim) => `(tactic| exact fnk_pushV _)
theorem fnk_bumpIp (n : Int) : Keeps P (bumpIp n) := by unfold bumpIp; fnkeeps
macro_rules | `(tactic| fnk_prim) => `(tactic| exact fnk_bumpIp _)
theorem fnk_jumpTarget  : Keeps P (jumpTarget ) := by unfold jumpTarget; fnkeeps
macro_rules | `(tactic| fnk_prim) => `(tactic| exact fnk_jumpTarget )
theorem fnk_clearCurrentFrame  : Keeps P (clearCurrentFrame ) := by unfold clearCurrentFrame; fnkeeps
macro_rules | `(tactic| fnk_prim) => `(tactic| exact fnk_clearCurrentFrame )
theorem fnk_fnCell (a : Addr) : Keeps P (fnCell a) := by unfold fnCell; fnkeeps
macro_rules | `(tactic| fnk_prim) => `(tactic| exact fnk_fnCell _)
theorem fnk_stackSlice (lo hi : Int) : Keeps P (stackSlice lo hi) := by unfold stackSlice; fnkeeps
macro_rules | `(tactic| fnk_prim) => `(tactic| exact fnk_stackSlice _ _)
theorem fnk_newArray (xs : List V) : Keeps P (newArray xs) := by unfold newArray; fnkeeps
macro_rules | `(tactic| fnk_prim) => `(tactic| exact fnk_newArray _)
theorem fnk_copyToStack (a : Int) (xs : List V) : Keeps P (copyToStack a xs) := by unfold copyToStack; fnkeeps
macro_rules | `(tactic| fnk_prim) => `(tactic| exact fnk_copyToStack _ _)
theorem fnk_throwF_handle (fuel : Nat) (h : ∀ e, Keeps P (throwF fuel e)) (err : Addr) :
    Keeps P (throwF.handle fuel err) := by
  have h' := h err
  unfold throwF.handle; fnkeeps
theorem fnk_throwF (fuel : Nat) : ∀ err, Keeps P (throwF fuel err) := by
  induction fuel with
  | zero => intro err; unfold throwF; fnkeeps
  | succ n ih =>
    intro err
    have hh := fnk_throwF_handle (h0 := h0) n ih err
    unfold throwF; fnkeeps
macro_rules | `(tactic| fnk_prim) => `(tactic| exact fnk_throwF _ _)
theorem fnk_throwFuel : Keeps P throwFuel := by unfold throwFuel; fnkeeps
macro_rules | `(tactic| fnk_prim) => `(tactic| exact fnk_throwFuel)
theorem fnk_throwGenErr (e : OpErr) : Keeps P (throwGenErr e) := by unfold throwGenErr; fnkeeps
macro_rules | `(tactic| fnk_prim) => `(tactic| exact fnk_throwGenErr _)
theorem fnk_failWith (e : OpErr) : Keeps P (failWith e) := by unfold failWith; fnkeeps
macro_rules | `(tactic| fnk_prim) => `(tactic| exact fnk_failWith _)
theorem fnk_fillUndefined (lo : Int) (n : Nat) : Keeps P (fillUndefined lo n) := by unfold fillUndefined; fnkeeps
macro_rules | `(tactic| fnk_prim) => `(tactic| exact fnk_fillUndefined _ _)
theorem fnk_copySlots (d : Int) (xs : List V) : Keeps P (copySlots d xs) := by unfold copySlots; fnkeeps
macro_rules | `(tactic| fnk_prim) => `(tactic| exact fnk_copySlots _ _)
theorem fnk_enterFrame (fi : Nat) (fa : Addr) (fr : Option (List Addr)) (bp : Int) : Keeps P (enterFrame fi fa fr bp) := by unfold enterFrame; fnkeeps
macro_rules | `(tactic| fnk_prim) => `(tactic| exact fnk_enterFrame _ _ _ _)
theorem fnk_popArgs (n : Nat) : Keeps P (popArgs n) := by unfold popArgs; fnkeeps
macro_rules | `(tactic| fnk_prim) => `(tactic| exact fnk_popArgs _)
theorem fnk_bindArgs (code : Code) (bp na fl : Int) : Keeps P (bindArgs code bp na fl) := by unfold bindArgs; fnkeeps
macro_rules | `(tactic| fnk_prim) => `(tactic| exact fnk_bindArgs _ _ _ _)
theorem fnk_callCompiled (fa : Addr) (na fl : Int) : Keeps P (callCompiled fa na fl) := by unfold callCompiled; fnkeeps
macro_rules | `(tactic| fnk_prim) => `(tactic| exact fnk_callCompiled _ _ _)
theorem fnk_callBuiltin (i : Nat) (args : List V) : Keeps P (callBuiltin i args) := by unfold callBuiltin; fnkeeps
macro_rules | `(tactic| fnk_prim) => `(tactic| exact fnk_callBuiltin _ _)
theorem fnk_callObject (c : V) (na fl : Int) : Keeps P (callObject c na fl) := by unfold callObject; fnkeeps
macro_rules | `(tactic| fnk_prim) => `(tactic| exact fnk_callObject _ _ _)
theorem fnk_callAny (c : V) (na fl : Int) : Keeps P (callAny c na fl) := by unfold callAny; fnkeeps
macro_rules | `(tactic| fnk_prim) => `(tactic| exact fnk_callAny _ _ _)
theorem fnk_findFinally (fuel : Nat) : ∀ upto, Keeps P (findFinally fuel upto) := by
  induction fuel with
  | zero => intro u; unfold findFinally; fnkeeps
  | succ n ih => intro u; have ih' := ih u; unfold findFinally; fnkeeps
macro_rules | `(tactic| fnk_prim) => `(tactic| exact fnk_findFinally _ _)
theorem fnk_execConstant  : Keeps P (execConstant ) := by unfold execConstant; fnkeeps
macro_rules | `(tactic| fnk_prim) => `(tactic| exact fnk_execConstant )
theorem fnk_execGetLocal  : Keeps P (execGetLocal ) := by unfold execGetLocal; fnkeeps
macro_rules | `(tactic| fnk_prim) => `(tactic| exact fnk_execGetLocal )
theorem fnk_execSetLocal  : Keeps P (execSetLocal ) := by unfold execSetLocal; fnkeeps
macro_rules | `(tactic| fnk_prim) => `(tactic| exact fnk_execSetLocal )
theorem fnk_execAndJump  : Keeps P (execAndJump ) := by unfold execAndJump; fnkeeps
macro_rules | `(tactic| fnk_prim) => `(tactic| exact fnk_execAndJump )
theorem fnk_execOrJump  : Keeps P (execOrJump ) := by unfold execOrJump; fnkeeps
macro_rules | `(tactic| fnk_prim) => `(tactic| exact fnk_execOrJump )
theorem fnk_execTrue  : Keeps P (execTrue ) := by unfold execTrue; fnkeeps
macro_rules | `(tactic| fnk_prim) => `(tactic| exact fnk_execTrue )
theorem fnk_execFalse  : Keeps P (execFalse ) := by unfold execFalse; fnkeeps
macro_rules | `(tactic| fnk_prim) => `(tactic| exact fnk_execFalse )
theorem fnk_execCall  : Keeps P (execCall ) := by unfold execCall; fnkeeps
macro_rules | `(tactic| fnk_prim) => `(tactic| exact fnk_execCall )
theorem fnk_execCallName  : Keeps P (execCallName ) := by unfold execCallName; fnkeeps
macro_rules | `(tactic| fnk_prim) => `(tactic| exact fnk_execCallName )
theorem fnk_execReturn  : Keeps P (execReturn ) := by unfold execReturn; fnkeeps
macro_rules | `(tactic| fnk_prim) => `(tactic| exact fnk_execReturn )
theorem fnk_execGetBuiltin  : Keeps P (execGetBuiltin ) := by unfold execGetBuiltin; fnkeeps
macro_rules | `(tactic| fnk_prim) => `(tactic| exact fnk_execGetBuiltin )
theorem fnk_execClosure  : Keeps P (execClosure ) := by unfold execClosure; fnkeeps
macro_rules | `(tactic| fnk_prim) => `(tactic| exact fnk_execClosure )
theorem fnk_execJump  : Keeps P (execJump ) := by unfold execJump; fnkeeps
macro_rules | `(tactic| fnk_prim) => `(tactic| exact fnk_execJump )
theorem fnk_execJumpFalsy  : Keeps P (execJumpFalsy ) := by unfold execJumpFalsy; fnkeeps
macro_rules | `(tactic| fnk_prim) => `(tactic| exact fnk_execJumpFalsy )
theorem fnk_execGetGlobal  : Keeps P (execGetGlobal ) := by unfold execGetGlobal; fnkeeps
macro_rules | `(tactic| fnk_prim) => `(tactic| exact fnk_execGetGlobal )
theorem fnk_execSetGlobal  : Keeps P (execSetGlobal ) := by unfold execSetGlobal; fnkeeps
macro_rules | `(tactic| fnk_prim) => `(tactic| exact fnk_execSetGlobal )
theorem fnk_execArray  : Keeps P (execArray ) := by unfold execArray; fnkeeps
macro_rules | `(tactic| fnk_prim) => `(tactic| exact fnk_execArray )
theorem fnk_execMap  : Keeps P (execMap ) := by unfold execMap; fnkeeps
macro_rules | `(tactic| fnk_prim) => `(tactic| exact fnk_execMap )
theorem fnk_execGetIndex  : Keeps P (execGetIndex ) := by unfold execGetIndex; fnkeeps
macro_rules | `(tactic| fnk_prim) => `(tactic| exact fnk_execGetIndex )
theorem fnk_execSetIndex  : Keeps P (execSetIndex ) := by unfold execSetIndex; fnkeeps
macro_rules | `(tactic| fnk_prim) => `(tactic| exact fnk_execSetIndex )
theorem fnk_execSliceIndex  : Keeps P (execSliceIndex ) := by unfold execSliceIndex; fnkeeps
macro_rules | `(tactic| fnk_prim) => `(tactic| exact fnk_execSliceIndex )
theorem fnk_execGetFree  : Keeps P (execGetFree ) := by unfold execGetFree; fnkeeps
macro_rules | `(tactic| fnk_prim) => `(tactic| exact fnk_execGetFree )
theorem fnk_execSetFree  : Keeps P (execSetFree ) := by unfold execSetFree; fnkeeps
macro_rules | `(tactic| fnk_prim) => `(tactic| exact fnk_execSetFree )
theorem fnk_execGetLocalPtr  : Keeps P (execGetLocalPtr ) := by unfold execGetLocalPtr; fnkeeps
macro_rules | `(tactic| fnk_prim) => `(tactic| exact fnk_execGetLocalPtr )
theorem fnk_execGetFreePtr  : Keeps P (execGetFreePtr ) := by unfold execGetFreePtr; fnkeeps
macro_rules | `(tactic| fnk_prim) => `(tactic| exact fnk_execGetFreePtr )
theorem fnk_execDefineLocal  : Keeps P (execDefineLocal ) := by unfold execDefineLocal; fnkeeps
macro_rules | `(tactic| fnk_prim) => `(tactic| exact fnk_execDefineLocal )
theorem fnk_execNull  : Keeps P (execNull ) := by unfold execNull; fnkeeps
macro_rules | `(tactic| fnk_prim) => `(tactic| exact fnk_execNull )
theorem fnk_execPop  : Keeps P (execPop ) := by unfold execPop; fnkeeps
macro_rules | `(tactic| fnk_prim) => `(tactic| exact fnk_execPop )
theorem fnk_execIterInit  : Keeps P (execIterInit ) := by unfold execIterInit; fnkeeps
macro_rules | `(tactic| fnk_prim) => `(tactic| exact fnk_execIterInit )
theorem fnk_execLoadModule  : Keeps P (execLoadModule ) := by unfold execLoadModule; fnkeeps
macro_rules | `(tactic| fnk_prim) => `(tactic| exact fnk_execLoadModule )
theorem fnk_execStoreModule  : Keeps P (execStoreModule ) := by unfold execStoreModule; fnkeeps
macro_rules | `(tactic| fnk_prim) => `(tactic| exact fnk_execStoreModule )
theorem fnk_execSetupTry  : Keeps P (execSetupTry ) := by unfold execSetupTry; fnkeeps
macro_rules | `(tactic| fnk_prim) => `(tactic| exact fnk_execSetupTry )
theorem fnk_execSetupCatch  : Keeps P (execSetupCatch ) := by unfold execSetupCatch; fnkeeps
macro_rules | `(tactic| fnk_prim) => `(tactic| exact fnk_execSetupCatch )
theorem fnk_execSetupFinally  : Keeps P (execSetupFinally ) := by unfold execSetupFinally; fnkeeps
macro_rules | `(tactic| fnk_prim) => `(tactic| exact fnk_execSetupFinally )
theorem fnk_execThrow  : Keeps P (execThrow ) := by unfold execThrow; fnkeeps
macro_rules | `(tactic| fnk_prim) => `(tactic| exact fnk_execThrow )
theorem fnk_execFinalizer  : Keeps P (execFinalizer ) := by unfold execFinalizer; fnkeeps
macro_rules | `(tactic| fnk_prim) => `(tactic| exact fnk_execFinalizer )
theorem fnk_execNoOp  : Keeps P (execNoOp ) := by unfold execNoOp; fnkeeps
macro_rules | `(tactic| fnk_prim) => `(tactic| exact fnk_execNoOp )
theorem fnk_execBinaryOp (F : FloatOps) : Keeps P (execBinaryOp F) := by unfold execBinaryOp; fnkeeps
macro_rules | `(tactic| fnk_prim) => `(tactic| exact fnk_execBinaryOp _)
theorem fnk_execUnary (F : FloatOps) : Keeps P (execUnary F) := by unfold execUnary; fnkeeps
macro_rules | `(tactic| fnk_prim) => `(tactic| exact fnk_execUnary _)
theorem fnk_execEqual (F : FloatOps) (op : Nat) : Keeps P (execEqual F op) := by unfold execEqual; fnkeeps
macro_rules | `(tactic| fnk_prim) => `(tactic| exact fnk_execEqual _ _)
theorem fnk_execIterNext (op : Nat) : Keeps P (execIterNext op) := by unfold execIterNext; fnkeeps
macro_rules | `(tactic| fnk_prim) => `(tactic| exact fnk_execIterNext _)
theorem fnk_execUnknown (op : Nat) : Keeps P (execUnknown op) := by unfold execUnknown; fnkeeps
macro_rules | `(tactic| fnk_prim) => `(tactic| exact fnk_execUnknown _)
theorem fnk_dispatch (F : FloatOps) (op : Nat) : Keeps P (dispatch F op) := by unfold dispatch; fnkeeps
macro_rules | `(tactic| fnk_prim) => `(tactic| exact fnk_dispatch _ _)
theorem fnk_step (F : FloatOps) : Keeps P (step F) := by unfold step; fnkeeps
macro_rules | `(tactic| fnk_prim) => `(tactic| exact fnk_step _)
theorem fnk_setLocal (nl : Nat) (i : Int) (v : V) : Keeps P (setLocal nl i v) := by unfold setLocal; fnkeeps
macro_rules | `(tactic| fnk_prim) => `(tactic| exact fnk_setLocal _ _ _)
theorem fnk_copyLocals (nl : Nat) (xs : List V) : Keeps P (copyLocals nl xs) := by unfold copyLocals; fnkeeps
macro_rules | `(tactic| fnk_prim) => `(tactic| exact fnk_copyLocals _ _)
theorem fnk_resultValue  : Keeps P (resultValue ) := by unfold resultValue; fnkeeps
macro_rules | `(tactic| fnk_prim) => `(tactic| exact fnk_resultValue )
theorem fnk_initLocals (args : List V) : Keeps P (initLocals args) := by unfold initLocals; fnkeeps
macro_rules | `(tactic| fnk_prim) => `(tactic| exact fnk_initLocals _)
theorem fnk_initCurrentFrame  : Keeps P (initCurrentFrame ) := by unfold initCurrentFrame; fnkeeps
macro_rules | `(tactic| fnk_prim) => `(tactic| exact fnk_initCurrentFrame )
theorem fnk_prologue (g : V) (args : List V) : Keeps P (prologue g args) := by unfold prologue; fnkeeps
macro_rules | `(tactic| fnk_prim) => `(tactic| exact fnk_prologue _ _)
theorem fnk_handlePanic (m : String) : Keeps P (handlePanic m) := by unfold handlePanic; fnkeeps
macro_rules | `(tactic| fnk_prim) => `(tactic| exact fnk_handlePanic _)
theorem fnk_loopF (F : FloatOps) (fuel : Nat) : Keeps P (loopF F fuel) := by
  induction fuel with
  | zero => unfold loopF; fnkeeps
  | succ n ih => unfold loopF; fnkeeps

theorem Keeps.of_run_fn {α} {m : M α} (hm : Keeps P m) {s : State} {r : Except Exc α} {s' : State}
    (hs : P s) (h : m.run.run s = (r, s')) : P s' := by
  have := hm.elim s hs
  unfold exec at this
  rw [h] at this
  exact this

theorem finish_fnk (s : State) (h : P s) : P (runFrom.finish s).2 := by
  unfold runFrom.finish
  split
  · exact h
  · split
    · have hm : Keeps P resultValue := fnk_resultValue
      split <;> (rename_i heq; exact hm.of_run_fn h heq)
    · exact h

theorem go_fnk (F : FloatOps) (reruns : Nat) : ∀ (fuel : Nat) (s : State), P s → P (runFrom.go F reruns fuel s).2 := by
  induction reruns with
  | zero => intro fuel s h; unfold runFrom.go; exact h
  | succ n ih =>
    intro fuel s h
    unfold runFrom.go
    split
    · rename_i heq; exact (fnk_loopF F fuel).of_run_fn h heq
    · rename_i heq
      have h1 := (fnk_loopF F fuel).of_run_fn h heq
      split
      rename_i heq2
      exact finish_fnk _ (fnk_clearCurrentFrame.of_run_fn h1 heq2)
    · rename_i heq; exact (fnk_loopF F fuel).of_run_fn h heq
    · rename_i m s1 heq
      have h1 := (fnk_loopF F fuel).of_run_fn h heq
      split
      · split
        · rename_i heq2; exact (fnk_handlePanic m).of_run_fn h1 heq2
        · rename_i heq2; exact (fnk_handlePanic m).of_run_fn h1 heq2
        · rename_i heq2
          have h2 := (fnk_handlePanic m).of_run_fn h1 heq2
          split
          · exact ih _ _ h2
          · exact finish_fnk _ h2
      · exact h1

/-- `Run` on any prior state never overwrites a function cell -/
theorem runFrom_fnk (F : FloatOps) (fuel : Nat) (g : V) (args : List V) (s : State) (h : P s) :
    P (runFrom F fuel g args s).2 := by
  unfold runFrom
  split
  · rename_i heq; exact (fnk_prologue g args).of_run_fn h heq
  · rename_i heq; exact (fnk_prologue g args).of_run_fn h heq
  · rename_i heq; exact go_fnk F fuel fuel _ ((fnk_prologue g args).of_run_fn h heq)
end

end UgoVerif.VM
