import UgoVerif.Proofs.RelocOps
/-
  Relocation relation: one instruction (`stepW wide` against `step`), the loop, the `recover`
  wrapper with its reruns and the epilogue of `Run`.
-/
set_option linter.unusedVariables false
set_option linter.unusedSimpArgs false
namespace UgoVerif.VM.Reloc
open UgoVerif UgoVerif.Go UgoVerif.VM

theorem RelQ.run' {α β} {A E : State → State → Prop} {Q : α → β → State → State → Prop} {m₁ : M α} {m₂ : M β}
    (h : RelQ A Q E m₁ m₂) : ∀ s t, A s t →
      match exec m₁ s, exec m₂ t with
      | (.ok a, s'), (.ok b, t') => Q a b s' t'
      | (.error e, s'), (.error e', t') => e = e' ∧ E s' t'
      | _, _ => False := by
  unfold RelQ at h; exact h

/-- the opcode lemmas proved in `Proofs/RelocThrow.lean` / `Proofs/RelocCall.lean` and the ones that are
    still open, as one record (so that `rel_step` does not depend on those files) -/
structure OpsOK (P : Params) : Prop where
  fail : FailOK P
  call : ∀ ci c o, P.BB c o → c < P.cs.size → (((P.cs[c]!).insts)[o]!).toNat = OpCall → OpRel P ci c o execCall execCall
  callName : ∀ ci c o, P.BB c o → c < P.cs.size → (((P.cs[c]!).insts)[o]!).toNat = OpCallName →
    OpRel P ci c o execCallName execCallName
  ret : ∀ ci c o, P.BB c o → c < P.cs.size → (((P.cs[c]!).insts)[o]!).toNat = OpReturn → OpRel P ci c o execReturn execReturn
  setupCatch : ∀ ci c o, P.BB c o → c < P.cs.size → (((P.cs[c]!).insts)[o]!).toNat = OpSetupCatch →
    OpRel P ci c o execSetupCatch execSetupCatch
  setupFinally : ∀ ci c o, P.BB c o → c < P.cs.size → (((P.cs[c]!).insts)[o]!).toNat = OpSetupFinally →
    OpRel P ci c o execSetupFinally execSetupFinally
  throw_ : ∀ ci c o, P.BB c o → c < P.cs.size → (((P.cs[c]!).insts)[o]!).toNat = OpThrow → OpRel P ci c o execThrow execThrow
  finalizer : ∀ ci c o, P.BB c o → c < P.cs.size → (((P.cs[c]!).insts)[o]!).toNat = OpFinalizer →
    OpRel P ci c o execFinalizer execFinalizer
  getIndex : ∀ ci c o, P.BB c o → c < P.cs.size → (((P.cs[c]!).insts)[o]!).toNat = OpGetIndex →
    OpRel P ci c o execGetIndex execGetIndex
  storeModule : ∀ ci c o, P.BB c o → c < P.cs.size → (((P.cs[c]!).insts)[o]!).toNat = OpStoreModule →
    OpRel P ci c o execStoreModule execStoreModule

section
variable {P : Params} {ci : Nat → Nat} {c o : Nat}

/-- the opcode byte of an instruction is readable and the same on both sides -/
theorem op_facts (hcr : CodeRel P.wide (P.Φ c) (P.BB c) (P.cs[c]!).insts (P.ct[c]!).insts) (hB : P.BB c o) :
    o < (P.cs[c]!).insts.size ∧ P.Φ c o < (P.ct[c]!).insts.size ∧
      ((P.ct[c]!).insts)[P.Φ c o]! = ((P.cs[c]!).insts)[o]! := by
  cases hj : isJ (((P.cs[c]!).insts)[o]!).toNat with
  | false =>
    obtain ⟨hw, _⟩ := hcr.plain o hB hj
    exact ⟨by have := hw.s; omega, by have := hw.t; omega, by simpa using hw.eq 0 (Nat.zero_le _)⟩
  | true =>
    by_cases ht : (((P.cs[c]!).insts)[o]!).toNat = OpSetupTry
    · obtain ⟨h1, h2, h3, _⟩ := hcr.try_ o hB ht
      exact ⟨by omega, by omega, h3⟩
    · obtain ⟨h1, h2, h3, _⟩ := hcr.jump o hB hj ht
      exact ⟨by omega, by omega, h3⟩

theorem rel_noteTrace {I : Int → Int → Prop} (op : Nat) :
    RelE (R P ci c I) (R P ci c I) (RM P) Eq (noteTrace op) (noteTrace op) := by
  apply RelE.mk'
  intro s t h
  simp only [noteTrace, exec_bind, exec_getS]
  by_cases htr : s.traceOn = true
  · have htr' : t.traceOn = true := by rw [h.traceOn]; exact htr
    rw [if_pos htr, if_pos htr', exec_set, exec_set]
    refine ⟨by first | rfl | trivial, { h with steps := ?_ }⟩
    show t.steps + 1 = s.steps + 1; rw [h.steps]
  · have htr' : ¬ t.traceOn = true := by rw [h.traceOn]; exact htr
    rw [if_neg htr, if_neg htr', exec_set, exec_set]
    refine ⟨by first | rfl | trivial, { h with steps := ?_ }⟩
    show t.steps + 1 = s.steps + 1; rw [h.steps]

/-- `bumpIp 1; instAt ip` at an instruction boundary: both sides fetch the opcode at `o` -/
theorem rel_fetch (hP : P.OK) :
    RelQ (RB P) (fun a b s t => a = b ∧ ∃ ci c o, R P ci c (Iat P c o) s t ∧ (((P.cs[c]!).insts)[o]!).toNat = a)
      (RM P) (bumpIp 1 >>= fun _ => getIp >>= fun ip => instAt ip) (bumpIp 1 >>= fun _ => getIp >>= fun ip => instAt ip) := by
  apply RelQ.mk'
  rintro s t ⟨ci, c, o, h⟩
  simp only [exec_bind, exec_bumpIp, exec_getIp]
  have h' : R P ci c (Iat P c o) { s with ip := s.ip + 1 } { t with ip := t.ip + 1 } :=
    { h with ip := ⟨h.ip.1, h.ip.2.1, h.ip.2.2⟩ }
  obtain ⟨f1, f2, f3⟩ := op_facts (hP.rel c h.cok) h.ip.1
  rcases curCode_rel h' with ⟨h1, h2⟩ | ⟨e, h1, h2⟩
  · rw [exec_instAt_ok h1 _ o h.ip.2.1 f1, exec_instAt_ok h2 _ (P.Φ c o) h.ip.2.2 f2]
    exact ⟨by rw [f3], ci, c, o, h', rfl⟩
  · rw [exec_instAt_err h1, exec_instAt_err h2]
    exact ⟨rfl, h'.toRM⟩

end

/-- `h : (op == OpX) = true` to `op = OpX` -/
theorem eq_of_beq_nat {a b : Nat} (h : (a == b) = true) : a = b := by simpa using h
theorem beq_false_of_ne {a b : Nat} (h : ¬ a = b) : ¬ ((a == b) = true) := by simpa using h
theorem beq_or2 {a b c : Nat} (h1 : ¬ a = b) (h2 : ¬ a = c) : ¬ ((a == b || a == c) = true) := by simp [h1, h2]
theorem beq_or3 {a b c d : Nat} (h1 : ¬ a = b) (h2 : ¬ a = c) (h3 : ¬ a = d) : ¬ ((a == b || a == c || a == d) = true) := by
  simp [h1, h2, h3]

set_option maxHeartbeats 1600000 in
/-- **one instruction**: from states related at an instruction boundary, the source VM (layout
    `P.wide`) and the VM model end the instruction the same way, in related states -/
theorem rel_dispatch {P : Params} (hP : P.OK) (hops : OpsOK P) (F : FloatOps) {ci : Nat → Nat} {c o : Nat} (op : Nat)
    (hB : P.BB c o) (hc : c < P.cs.size) (hop : (((P.cs[c]!).insts)[o]!).toNat = op) :
    OpRel P ci c o (dispatchW P.wide F op) (dispatch F op) := by
  have hcr := hP.rel c hc
  have hfail := hops.fail
  by_cases h1 : op = OpJump
  · subst h1
    rw [show dispatchW P.wide F OpJump = execJumpW P.wide from rfl, show dispatch F OpJump = execJump from rfl]
    exact rel_execJump hcr hB hop
  by_cases h2 : op = OpJumpFalsy
  · subst h2
    rw [show dispatchW P.wide F OpJumpFalsy = execJumpFalsyW P.wide from rfl, show dispatch F OpJumpFalsy = execJumpFalsy from rfl]
    exact rel_execJumpFalsy hcr hB hop
  by_cases h3 : op = OpAndJump
  · subst h3
    rw [show dispatchW P.wide F OpAndJump = execAndJumpW P.wide from rfl, show dispatch F OpAndJump = execAndJump from rfl]
    exact rel_execAndJump hcr hB hop
  by_cases h4 : op = OpOrJump
  · subst h4
    rw [show dispatchW P.wide F OpOrJump = execOrJumpW P.wide from rfl, show dispatch F OpOrJump = execOrJump from rfl]
    exact rel_execOrJump hcr hB hop
  by_cases h5 : op = OpSetupTry
  · subst h5
    rw [show dispatchW P.wide F OpSetupTry = execSetupTryW P.wide from rfl, show dispatch F OpSetupTry = execSetupTry from rfl]
    exact rel_execSetupTry hcr hB hop
  have e0 : dispatchW P.wide F op = dispatch F op := by
    unfold dispatchW
    rw [if_neg (beq_false_of_ne h1), if_neg (beq_false_of_ne h2), if_neg (beq_false_of_ne h3),
      if_neg (beq_false_of_ne h4), if_neg (beq_false_of_ne h5)]
  rw [e0]
  by_cases kConstant : op = OpConstant
  · subst kConstant
    rw [show dispatch F OpConstant = execConstant from rfl]
    exact rel_execConstant hcr hB hfail hop
  by_cases kGetLocal : op = OpGetLocal
  · subst kGetLocal
    rw [show dispatch F OpGetLocal = execGetLocal from rfl]
    exact rel_execGetLocal hcr hB hfail hop
  by_cases kSetLocal : op = OpSetLocal
  · subst kSetLocal
    rw [show dispatch F OpSetLocal = execSetLocal from rfl]
    exact rel_execSetLocal hcr hB hfail hop
  by_cases kBinaryOp : op = OpBinaryOp
  · subst kBinaryOp
    rw [show dispatch F OpBinaryOp = execBinaryOp F from rfl]
    exact rel_execBinaryOp hcr hB hfail F hop
  by_cases kEqual : op = OpEqual
  · subst kEqual
    rw [show dispatch F OpEqual = execEqual F OpEqual from rfl]
    exact rel_execEqual hcr hB hfail F _ hop (Or.inl rfl)
  by_cases kNotEqual : op = OpNotEqual
  · subst kNotEqual
    rw [show dispatch F OpNotEqual = execEqual F OpNotEqual from rfl]
    exact rel_execEqual hcr hB hfail F _ hop (Or.inr rfl)
  by_cases kTrue : op = OpTrue
  · subst kTrue
    rw [show dispatch F OpTrue = execTrue from rfl]
    exact rel_execTrue hcr hB hfail hop
  by_cases kFalse : op = OpFalse
  · subst kFalse
    rw [show dispatch F OpFalse = execFalse from rfl]
    exact rel_execFalse hcr hB hfail hop
  by_cases kCall : op = OpCall
  · subst kCall
    rw [show dispatch F OpCall = execCall from rfl]
    exact hops.call ci c o hB hc hop
  by_cases kCallName : op = OpCallName
  · subst kCallName
    rw [show dispatch F OpCallName = execCallName from rfl]
    exact hops.callName ci c o hB hc hop
  by_cases kReturn : op = OpReturn
  · subst kReturn
    rw [show dispatch F OpReturn = execReturn from rfl]
    exact hops.ret ci c o hB hc hop
  by_cases kGetBuiltin : op = OpGetBuiltin
  · subst kGetBuiltin
    rw [show dispatch F OpGetBuiltin = execGetBuiltin from rfl]
    exact rel_execGetBuiltin hcr hB hfail hop
  by_cases kClosure : op = OpClosure
  · subst kClosure
    rw [show dispatch F OpClosure = execClosure from rfl]
    exact rel_execClosure hcr hB hfail hop
  by_cases kGetGlobal : op = OpGetGlobal
  · subst kGetGlobal
    rw [show dispatch F OpGetGlobal = execGetGlobal from rfl]
    exact rel_execGetGlobal hcr hB hfail hop
  by_cases kSetGlobal : op = OpSetGlobal
  · subst kSetGlobal
    rw [show dispatch F OpSetGlobal = execSetGlobal from rfl]
    exact rel_execSetGlobal hcr hB hfail hop
  by_cases kArray : op = OpArray
  · subst kArray
    rw [show dispatch F OpArray = execArray from rfl]
    exact rel_execArray hcr hB hfail hop
  by_cases kMap : op = OpMap
  · subst kMap
    rw [show dispatch F OpMap = execMap from rfl]
    exact rel_execMap hcr hB hfail hop
  by_cases kGetIndex : op = OpGetIndex
  · subst kGetIndex
    rw [show dispatch F OpGetIndex = execGetIndex from rfl]
    exact hops.getIndex ci c o hB hc hop
  by_cases kSetIndex : op = OpSetIndex
  · subst kSetIndex
    rw [show dispatch F OpSetIndex = execSetIndex from rfl]
    exact rel_execSetIndex hcr hB hfail hop
  by_cases kSliceIndex : op = OpSliceIndex
  · subst kSliceIndex
    rw [show dispatch F OpSliceIndex = execSliceIndex from rfl]
    exact rel_execSliceIndex hcr hB hfail hop
  by_cases kGetFree : op = OpGetFree
  · subst kGetFree
    rw [show dispatch F OpGetFree = execGetFree from rfl]
    exact rel_execGetFree hcr hB hfail hop
  by_cases kSetFree : op = OpSetFree
  · subst kSetFree
    rw [show dispatch F OpSetFree = execSetFree from rfl]
    exact rel_execSetFree hcr hB hfail hop
  by_cases kGetLocalPtr : op = OpGetLocalPtr
  · subst kGetLocalPtr
    rw [show dispatch F OpGetLocalPtr = execGetLocalPtr from rfl]
    exact rel_execGetLocalPtr hcr hB hfail hop
  by_cases kGetFreePtr : op = OpGetFreePtr
  · subst kGetFreePtr
    rw [show dispatch F OpGetFreePtr = execGetFreePtr from rfl]
    exact rel_execGetFreePtr hcr hB hfail hop
  by_cases kDefineLocal : op = OpDefineLocal
  · subst kDefineLocal
    rw [show dispatch F OpDefineLocal = execDefineLocal from rfl]
    exact rel_execDefineLocal hcr hB hfail hop
  by_cases kNull : op = OpNull
  · subst kNull
    rw [show dispatch F OpNull = execNull from rfl]
    exact rel_execNull hcr hB hfail hop
  by_cases kPop : op = OpPop
  · subst kPop
    rw [show dispatch F OpPop = execPop from rfl]
    exact rel_execPop hcr hB hfail hop
  by_cases kIterInit : op = OpIterInit
  · subst kIterInit
    rw [show dispatch F OpIterInit = execIterInit from rfl]
    exact rel_execIterInit hcr hB hfail hop
  by_cases kIterNext : op = OpIterNext
  · subst kIterNext
    rw [show dispatch F OpIterNext = execIterNext OpIterNext from rfl]
    exact rel_execIterNext hcr hB hfail _ hop (Or.inl rfl)
  by_cases kIterKey : op = OpIterKey
  · subst kIterKey
    rw [show dispatch F OpIterKey = execIterNext OpIterKey from rfl]
    exact rel_execIterNext hcr hB hfail _ hop (Or.inr (Or.inl rfl))
  by_cases kIterValue : op = OpIterValue
  · subst kIterValue
    rw [show dispatch F OpIterValue = execIterNext OpIterValue from rfl]
    exact rel_execIterNext hcr hB hfail _ hop (Or.inr (Or.inr rfl))
  by_cases kLoadModule : op = OpLoadModule
  · subst kLoadModule
    rw [show dispatch F OpLoadModule = execLoadModule from rfl]
    exact rel_execLoadModule hcr hB hfail hop
  by_cases kStoreModule : op = OpStoreModule
  · subst kStoreModule
    rw [show dispatch F OpStoreModule = execStoreModule from rfl]
    exact hops.storeModule ci c o hB hc hop
  by_cases kSetupCatch : op = OpSetupCatch
  · subst kSetupCatch
    rw [show dispatch F OpSetupCatch = execSetupCatch from rfl]
    exact hops.setupCatch ci c o hB hc hop
  by_cases kSetupFinally : op = OpSetupFinally
  · subst kSetupFinally
    rw [show dispatch F OpSetupFinally = execSetupFinally from rfl]
    exact hops.setupFinally ci c o hB hc hop
  by_cases kThrow : op = OpThrow
  · subst kThrow
    rw [show dispatch F OpThrow = execThrow from rfl]
    exact hops.throw_ ci c o hB hc hop
  by_cases kFinalizer : op = OpFinalizer
  · subst kFinalizer
    rw [show dispatch F OpFinalizer = execFinalizer from rfl]
    exact hops.finalizer ci c o hB hc hop
  by_cases kUnary : op = OpUnary
  · subst kUnary
    rw [show dispatch F OpUnary = execUnary F from rfl]
    exact rel_execUnary hcr hB hfail F hop
  by_cases kNoOp : op = OpNoOp
  · subst kNoOp
    rw [show dispatch F OpNoOp = execNoOp from rfl]
    exact rel_execNoOp hcr hB hfail hop
  have e9 : dispatch F op = execUnknown op := by
    unfold dispatch
    rw [if_neg (beq_false_of_ne kConstant),
      if_neg (beq_false_of_ne kGetLocal),
      if_neg (beq_false_of_ne kSetLocal),
      if_neg (beq_false_of_ne kBinaryOp),
      if_neg (beq_false_of_ne h3),
      if_neg (beq_false_of_ne h4),
      if_neg (beq_or2 kEqual kNotEqual),
      if_neg (beq_false_of_ne kTrue),
      if_neg (beq_false_of_ne kFalse),
      if_neg (beq_false_of_ne kCall),
      if_neg (beq_false_of_ne kCallName),
      if_neg (beq_false_of_ne kReturn),
      if_neg (beq_false_of_ne kGetBuiltin),
      if_neg (beq_false_of_ne kClosure),
      if_neg (beq_false_of_ne h1),
      if_neg (beq_false_of_ne h2),
      if_neg (beq_false_of_ne kGetGlobal),
      if_neg (beq_false_of_ne kSetGlobal),
      if_neg (beq_false_of_ne kArray),
      if_neg (beq_false_of_ne kMap),
      if_neg (beq_false_of_ne kGetIndex),
      if_neg (beq_false_of_ne kSetIndex),
      if_neg (beq_false_of_ne kSliceIndex),
      if_neg (beq_false_of_ne kGetFree),
      if_neg (beq_false_of_ne kSetFree),
      if_neg (beq_false_of_ne kGetLocalPtr),
      if_neg (beq_false_of_ne kGetFreePtr),
      if_neg (beq_false_of_ne kDefineLocal),
      if_neg (beq_false_of_ne kNull),
      if_neg (beq_false_of_ne kPop),
      if_neg (beq_false_of_ne kIterInit),
      if_neg (beq_or3 kIterNext kIterKey kIterValue),
      if_neg (beq_false_of_ne kLoadModule),
      if_neg (beq_false_of_ne kStoreModule),
      if_neg (beq_false_of_ne h5),
      if_neg (beq_false_of_ne kSetupCatch),
      if_neg (beq_false_of_ne kSetupFinally),
      if_neg (beq_false_of_ne kThrow),
      if_neg (beq_false_of_ne kFinalizer),
      if_neg (beq_false_of_ne kUnary),
      if_neg (beq_false_of_ne kNoOp)]
  rw [e9]
  exact rel_execUnknown op

theorem rel_step {P : Params} (hP : P.OK) (hops : OpsOK P) (F : FloatOps) :
    RelQ (RB P) (CtlPost P) (RM P) (stepW P.wide F) (step F) := by
  have e1 : stepW P.wide F = ((bumpIp 1 >>= fun _ => getIp >>= fun ip => instAt ip) >>= fun op =>
      noteTrace op >>= fun _ => dispatchW P.wide F op) := by
    simp only [stepW, bind_assoc]
  have e2 : step F = ((bumpIp 1 >>= fun _ => getIp >>= fun ip => instAt ip) >>= fun op =>
      noteTrace op >>= fun _ => dispatch F op) := by
    simp only [step, bind_assoc]
  rw [e1, e2]
  refine RelQ.bindQ (rel_fetch hP) ?_
  intro a b
  apply RelQ.mk'
  rintro s t ⟨hab, ci, c, o, h, hop⟩
  subst hab
  have := (RelQ.bind (Q := CtlPost P) (rel_noteTrace (ci := ci) (c := c) (I := Iat P c o) a)
    (fun _ _ _ => rel_dispatch hP hops F a h.ip.1 h.cok hop))
  exact RelQ.run' this s t h

end UgoVerif.VM.Reloc
