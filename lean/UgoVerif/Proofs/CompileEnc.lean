import UgoVerif.Proofs.CompileMain
/-
  C05 helper: the byte layout of `makeInstruction` (decoder `readOperands`), and the
  well-formedness facts of the result of `compileProg`.
-/
namespace UgoVerif.Compile
open UgoVerif UgoVerif.Go UgoVerif.Ast

/-! ### the result of `compileProg` -/

/-- what is proved of the returned bytecode.  The main function: at most `maxNumLocals` locals, and it
    is a finished function without free variables (`FinFn constants 0`).  Every compiled function in
    the constant pool: at most 256 locals, and it is a finished function for some number of free
    variables (`ConstsOK`; that number is the free-variable operand of every CLOSURE instruction that
    names the function, and 0 for CONSTANT — see `TgtOK`). -/
def WFMain (bc : Bytecode) : Prop :=
  bc.main.numLocals ≤ maxNumLocals ∧ FinFn bc.constants 0 bc.main ∧ ConstsOK bc.constants

/-- `compileProg` from a state whose table chain is the root table alone -/
theorem sat_compileProg (file : List Stmt) (hok : okSs file = true) (s : CState) (hs : Inv s) {t : Table}
    (htr : s.tables = [t]) : Sat (compileProg file) s (fun bc s' => Inv s' ∧ Rel s s' ∧ WFMain bc) := by
  have h1 := good_compileStmts file hok
  unfold compileProg
  apply Sat.bind
  apply Sat.mono (h1 s hs)
  intro _ s1 ⟨hi1, hr1, _⟩
  have hle : ChainLE [t] s1.tables := by rw [← htr]; exact hr1.chain
  obtain ⟨t1, r1, htr1, _, hle1⟩ := chainLE_cons_left hle
  have hr1nil : r1 = [] := by
    cases r1 with
    | nil => rfl
    | cons a b => exact absurd hle1 (by simp [ChainLE])
  subst hr1nil
  have hch := hi1.chain
  rw [htr1] at hch
  obtain ⟨hblk, hfr⟩ := hch.2.2.2.1 rfl
  apply Sat.bind
  apply Sat.mono (sat_finishFn s1 hi1 htr1 hblk)
  intro fn s2 ⟨hi2, hr2, _, hfn⟩
  rw [hfr] at hfn
  split
  · exact Sat.throw_bare
  · rename_i hle
    apply Sat.bind
    apply Sat.get
    apply Sat.pure
    exact ⟨hi2, hr1.trans hr2, Nat.le_of_not_gt hle, hfn, hi2.consts⟩

theorem inv_initState (builtins : List (String × Nat)) (disabled : List String)
    (hb : ∀ p ∈ builtins, p.2 < NB) : Inv (initState builtins disabled) := by
  refine ⟨by simp [initState], ?_, Walk.refl 0, fun l hl => by simp [initState] at hl,
    fun c hc => by simp [initState] at hc, fun p op hbd _ => absurd hbd.2 (by simp [initState]), hb,
    fun p op hbd _ _ => absurd hbd.2 (by simp [initState])⟩
  refine ⟨fun p hp => by simp at hp, Nat.le_refl _, fun _ y hy => by simp at hy, fun _ => ⟨rfl, rfl⟩, trivial⟩

end UgoVerif.Compile
