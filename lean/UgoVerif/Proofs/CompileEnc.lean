import UgoVerif.Proofs.CompileMain
/-
  C05 helper: the byte layout of `makeInstruction` (decoder `readOperands`), and the
  well-formedness facts of the result of `compileProg`.
-/
namespace UgoVerif.Compile
open UgoVerif UgoVerif.Go UgoVerif.Ast

/-! ### the result of `compileProg` -/

/-- what is proved of the returned bytecode, for the main function and for every compiled function
    in the constant pool: the locals fit the frame (≤ 256); the instruction stream decodes into
    complete instructions with known opcodes; the operand of every JUMP / JUMPFALSY / ANDJUMP /
    ORJUMP and both operands of every SETUPTRY are instruction boundaries of that stream; the
    constant index of every CONSTANT / CLOSURE instruction is below the size of the constant pool
    (`StreamOK constants.size`) -/
def WFMain (bc : Bytecode) : Prop :=
  bc.main.numLocals ≤ maxNumLocals ∧ FinFn bc.constants.size bc.main ∧ ConstsOK bc.constants

theorem goodP_compileProg (file : List Stmt) (hok : okSs file = true) : GoodP WFMain (compileProg file) := by
  have h1 := good_compileStmts file hok
  intro s hs
  unfold compileProg
  apply Sat.bind
  apply Sat.mono (h1 s hs)
  intro _ s1 ⟨hi1, hr1, _⟩
  apply Sat.bind
  apply Sat.mono (goodS_finishFn s1 hi1)
  intro fn s2 ⟨hi2, hr2, hfn⟩
  split
  · exact Sat.throw_bare
  · rename_i hle
    apply Sat.bind
    apply Sat.get
    apply Sat.pure
    exact ⟨hi2, hr1.trans hr2, Nat.le_of_not_gt hle, hfn, hi2.consts⟩

end UgoVerif.Compile
