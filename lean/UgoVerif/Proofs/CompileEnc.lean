import UgoVerif.Proofs.CompileMain
/-
  C05 helper: the byte layout of `makeInstruction` (decoder `readOperands`), and the
  well-formedness facts of the result of `compileProg`.
-/
namespace UgoVerif.Compile
open UgoVerif UgoVerif.Go UgoVerif.Ast

/-! ### the result of `compileProg` -/

/-- what is proved of the returned bytecode, for the main function and for every compiled function
    in the constant pool: the locals fit the frame (≤ 256); the instruction stream decodes into
    complete instructions with known opcodes; the operand of every JUMP / JUMPFALSY / ANDJUMP /
    ORJUMP and both operands of every SETUPTRY are instruction boundaries of that stream (`StreamOK`) -/
def WFMain (bc : Bytecode) : Prop :=
  bc.main.numLocals ≤ maxNumLocals ∧ StreamOK bc.main.insts ∧ ConstsOK bc.constants

theorem goodP_compileProg (file : List Stmt) (hok : okSs file = true) : GoodP WFMain (compileProg file) := by
  have h1 := good_compileStmts file hok
  unfold compileProg
  refine GoodP.bind h1 fun _ _ => ?_
  refine GoodP.bind goodP_finishFn fun fn hfn => ?_
  split
  · exact GoodP.throw_bare
  · rename_i hle
    refine GoodP.bind goodP_get_inv fun st hst => GoodP.pure ⟨by simp only; omega, hfn, hst.consts⟩

end UgoVerif.Compile
