import UgoVerif.Proofs.CompileMain
/-
  C05 helper: the byte layout of `makeInstruction` (decoder `readOperands`), and the
  well-formedness facts of the result of `compileProg`.
-/
namespace UgoVerif.Compile
open UgoVerif UgoVerif.Go UgoVerif.Ast

/-- big-endian value of a byte list -/
def beVal (bs : List UInt8) : Nat := bs.foldl (fun acc b => acc * 256 + b.toNat) 0

/-- decoder of the operand bytes of an instruction (`ReadOperands`): one big-endian value per width -/
def readOperands : List Nat → List UInt8 → List Int
  | [], _ => []
  | w :: ws, bs => Int.ofNat (beVal (bs.take w)) :: readOperands ws (bs.drop w)

theorem operandWidths_mem (op w : Nat) (h : w ∈ operandWidths op) : w = 1 ∨ w = 2 ∨ w = 4 := by
  unfold operandWidths at h
  repeat' split at h
  all_goals simp at h
  all_goals omega

theorem u8_toNat_mod (x : Nat) : (UInt8.ofNat (x % 256)).toNat = x % 256 := by
  simp [UInt8.toNat_ofNat']

theorem beVal_beBytes (w v : Nat) (hw : w = 1 ∨ w = 2 ∨ w = 4) (hv : (v : Int) ≤ maxOf w) : beVal (beBytes w v) = v := by
  rcases hw with rfl | rfl | rfl
  · simp [maxOf] at hv
    simp [beBytes, beVal, List.range, List.range.loop, UInt8.toNat_ofNat']
    omega
  · simp [maxOf] at hv
    simp [beBytes, beVal, List.range, List.range.loop, UInt8.toNat_ofNat', Nat.shiftRight_eq_div_pow]
    omega
  · simp [maxOf] at hv
    simp [beBytes, beVal, List.range, List.range.loop, UInt8.toNat_ofNat', Nat.shiftRight_eq_div_pow]
    omega

theorem readOperands_encode : ∀ (ws : List Nat) (as : List Int) (bs : List UInt8),
    (∀ w ∈ ws, w = 1 ∨ w = 2 ∨ w = 4) → ws.length = as.length → encodeOperands ws as = .ok bs →
    readOperands ws bs = as
  | [], [], bs, _, _, _ => by simp [readOperands]
  | [], _ :: _, _, _, hl, _ => by simp at hl
  | _ :: _, [], _, _, hl, _ => by simp at hl
  | w :: ws, a :: as, bs, hw, hl, h => by
    simp only [encodeOperands] at h
    split at h
    · cases h
    · rename_i h1
      split at h
      · cases h
      · rename_i h2
        split at h
        · rename_i bs' hb
          injection h with h
          subst h
          have ih := readOperands_encode ws as bs' (fun w' hw' => hw w' (by simp [hw'])) (by simpa using hl) hb
          have hwv := hw w (by simp)
          have hnat : ((a.toNat : Nat) : Int) = a := Int.toNat_of_nonneg (by omega)
          simp only [readOperands]
          rw [List.take_left' (beBytes_length _ _), List.drop_left' (beBytes_length _ _), ih,
            beVal_beBytes w a.toNat hwv (by omega)]
          simp [hnat]
        · cases h

/-- the operand ranges accepted by `encodeOperands` -/
def operandsFit : List Nat → List Int → Prop
  | w :: ws, a :: as => (0 ≤ a ∧ a ≤ maxOf w) ∧ operandsFit ws as
  | _, _ => True

theorem encodeOperands_ok_iff : ∀ (ws : List Nat) (as : List Int),
    (∃ bs, encodeOperands ws as = .ok bs) ↔ operandsFit ws as
  | [], _ => by simp [encodeOperands, operandsFit]
  | _ :: _, [] => by simp [encodeOperands, operandsFit]
  | w :: ws, a :: as => by
    have ih := encodeOperands_ok_iff ws as
    simp only [encodeOperands, operandsFit]
    constructor
    · rintro ⟨bs, h⟩
      split at h
      · cases h
      · split at h
        · cases h
        · split at h
          · rename_i bs' hb
            exact ⟨⟨by omega, by omega⟩, ih.mp ⟨bs', hb⟩⟩
          · cases h
    · rintro ⟨⟨h1, h2⟩, h3⟩
      obtain ⟨bs', hb⟩ := ih.mpr h3
      rw [if_neg (by omega), if_neg (by omega), hb]
      exact ⟨_, rfl⟩

/-! ### the result of `compileProg` -/

/-- what is proved of the returned bytecode: the locals of the main function and of every compiled
    function in the constant pool fit the frame (≤ 256), and each of these instruction streams
    decodes into complete instructions with known opcodes -/
def WFMain (bc : Bytecode) : Prop :=
  bc.main.numLocals ≤ maxNumLocals ∧ Walk bc.main.insts 0 bc.main.insts.size ∧ ConstsOK bc.constants

theorem goodP_compileProg (file : List Stmt) (hok : okSs file = true) : GoodP WFMain (compileProg file) := by
  have h1 := good_compileStmts file hok
  unfold compileProg
  refine GoodP.bind h1 fun _ _ => ?_
  refine GoodP.bind goodP_finishFn fun fn hfn => ?_
  split
  · exact GoodP.throw_bare
  · rename_i hle
    refine GoodP.bind goodP_get_inv fun st hst => GoodP.pure ⟨by simp only; omega, hfn, hst.consts⟩

end UgoVerif.Compile
