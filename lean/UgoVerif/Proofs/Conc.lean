import UgoVerif.Model.Conc
/-
  Inductive invariant of the abort protocol model (helper lemmas for Props/C09).
-/
namespace UgoVerif.Proofs.Conc
open UgoVerif.Model.Conc

/-- the child VM R currently works with and that is registered in the pool -/
def cur : RPc → Option Nat
  | .invBefore _ c | .invAfter _ c | .kEnter _ c | .kBeforeReset _ c | .kAfterReset _ c
  | .kLoopEnter _ c | .kBody _ c _ | .relOut _ c | .relIn _ c => some c
  | _ => none

def isBody : RPc → Bool
  | .body _ | .kBody .. => true
  | _ => false

def holdsR : RPc → Bool
  | .acqIn .. | .relIn .. => true
  | _ => false

def holdsC : CPc → Bool
  | .chEnter .. | .chBetween .. => true
  | _ => false

/-- R is inside Run and past the root reset -/
def postReset : RPc → Bool
  | .idle | .enter | .beforeReset => false
  | _ => true

/-- children the controller still has to store 1 into -/
def pend : CPc → List Nat
  | .chEnter c r | .chBetween c r => c :: r
  | _ => []

structure Inv (s : State) : Prop where
  muR : s.poolMu = some .R ↔ holdsR s.rpc = true
  muC : s.poolMu = some .C ↔ holdsC s.cpc = true
  curIn : ∀ c, cur s.rpc = some c → c ∈ s.pool
  j1 : s.armedOK = true → s.rootFlag = 1 ∧ postReset s.rpc = true
  okc : (s.armedOK = true ∨ (s.cpc = .between ∧ s.excl = false)) → s.lateAcq = false →
        ∀ c, cur s.rpc = some c → s.childFlag c = 1 ∧ childWin s.rpc c = false
  j4 : holdsC s.cpc = true → s.excl = false → s.lateAcq = false →
        ∀ c, cur s.rpc = some c → c ∈ pend s.cpc ∨ (s.childFlag c = 1 ∧ childWin s.rpc c = false)
  phi : s.armedOK = true → s.lateAcq = false → s.extraOK + (if isBody s.rpc then 1 else 0) ≤ 1
  l1 : postReset s.rpc = true → s.storesSinceReset = 0 → s.rootFlag = 0
  e0 : s.armedOK = false → s.extraOK = 0

theorem inv_init : Inv init := by
  constructor <;> simp [init, holdsR, holdsC, cur, postReset, isBody]

/-- shape of the next sync point inside a callback -/
theorem cbNext_spec (ip : Nat) : ∀ (ops : List CbOp) (ch : Option Nat) (d : Bool) (pc : RPc),
    cbNext ip ops ch d = some pc →
    (∃ cb p t, pc = .acqOut cb p t) ∨ (∃ cb c, ch = some c ∧ (pc = .invBefore cb c ∨ pc = .relOut cb c)) := by
  intro ops
  induction ops with
  | nil => intro ch d pc h; simp [cbNext] at h
  | cons op ops ih =>
    intro ch d pc h
    cases op <;> cases ch <;> cases d <;> simp [cbNext] at h
    all_goals first
      | (subst h; exact Or.inl ⟨_, _, _, rfl⟩)
      | (subst h; exact Or.inr ⟨_, _, rfl, Or.inl rfl⟩)
      | (subst h; exact Or.inr ⟨_, _, rfl, Or.inr rfl⟩)
      | (rcases ih _ _ _ h with h' | ⟨cb, c, e, h'⟩
         · exact Or.inl h'
         · first | exact Or.inr ⟨cb, c, e, h'⟩ | (simp at e))

/-- what a state must satisfy, independently of R's pc, for R to continue at a callback
    sync point (or to return to the root loop) with current child `ch` -/
structure Pre (s : State) (ch : Option Nat) : Prop where
  muR : s.poolMu ≠ some .R
  muC : s.poolMu = some .C ↔ holdsC s.cpc = true
  chIn : ∀ c, ch = some c → c ∈ s.pool
  j1 : s.armedOK = true → s.rootFlag = 1
  okc : (s.armedOK = true ∨ (s.cpc = .between ∧ s.excl = false)) → s.lateAcq = false →
        ∀ c, ch = some c → s.childFlag c = 1
  j4 : holdsC s.cpc = true → s.excl = false → s.lateAcq = false →
        ∀ c, ch = some c → c ∈ pend s.cpc ∨ s.childFlag c = 1
  phi : s.armedOK = true → s.lateAcq = false → s.extraOK ≤ 1
  l1 : s.storesSinceReset = 0 → s.rootFlag = 0
  e0 : s.armedOK = false → s.extraOK = 0

theorem finishRun_inv {s : State} {o : Outcome} (muR : s.poolMu ≠ some .R)
    (muC : s.poolMu = some .C ↔ holdsC s.cpc = true) : Inv (finishRun s o) := by
  constructor <;> simp [finishRun, holdsR, cur, postReset, isBody, muR, muC]

theorem rootLoad_inv {s : State} {ip : Nat} {ch : Option Nat} (p : Pre s ch) : Inv (rootLoad s ip) := by
  unfold rootLoad
  split
  · next h0 =>
    have hA : s.armedOK = false := by
      cases hh : s.armedOK with
      | false => rfl
      | true => have := p.j1 hh; omega
    constructor <;> simp [holdsR, cur, postReset, isBody, p.muR, p.muC, hA, h0, p.e0 hA]
  · exact finishRun_inv p.muR p.muC

theorem afterCb_inv {s : State} {ip : Nat} {ops : List CbOp} {ch : Option Nat} {d : Bool}
    (p : Pre s ch) : Inv (afterCb s ip (cbNext ip ops ch d)) := by
  cases h : cbNext ip ops ch d with
  | none => exact rootLoad_inv p
  | some pc =>
    simp only [afterCb]
    rcases cbNext_spec ip ops ch d pc h with ⟨cb, pl, t, rfl⟩ | ⟨cb, c, rfl, rfl | rfl⟩
    · constructor <;> simp [holdsR, cur, postReset, isBody, p.muR, p.muC]
      · exact p.j1
      · exact p.phi
      · exact p.l1
      · exact p.e0
    all_goals
      constructor <;> simp [holdsR, cur, postReset, isBody, childWin, p.muR, p.muC]
      · exact p.chIn c rfl
      · exact p.j1
      · intro h1 h2; exact p.okc h1 h2 c rfl
      · intro h1 h2 h3; exact p.j4 h1 h2 h3 c rfl
      · exact p.phi
      · exact p.l1
      · exact p.e0


theorem count_pre {s : State} {ch : Option Nat} (p : Pre s ch)
    (hphi : s.armedOK = true → s.lateAcq = false → s.extraOK = 0) : Pre (count s) ch := by
  constructor <;> simp [count]
  · exact p.muR
  · exact p.muC
  · exact p.chIn
  · exact p.j1
  · exact p.okc
  · exact p.j4
  · intro h1 h2; simp [h1, hphi h1 h2]
  · exact p.l1
  · intro h; simp [h, p.e0 h]

/-- facts of `Inv` that do not mention R's pc, repackaged for a new current child -/
theorem Inv.toPre {s : State} (i : Inv s) (hR : holdsR s.rpc = false) (hP : postReset s.rpc = true) :
    Pre s (cur s.rpc) := by
  constructor
  · intro h; have := i.muR.1 h; simp [hR] at this
  · exact i.muC
  · exact i.curIn
  · intro h; exact (i.j1 h).1
  · intro h1 h2 c hc; exact (i.okc h1 h2 c hc).1
  · intro h1 h2 h3 c hc
    rcases i.j4 h1 h2 h3 c hc with h | h
    · exact Or.inl h
    · exact Or.inr h.1
  · intro h1 h2; have := i.phi h1 h2; omega
  · intro h; exact i.l1 hP h
  · exact i.e0


macro "inv_auto" : tactic =>
  `(tactic| (constructor <;> simp_all [holdsR, holdsC, cur, postReset, isBody, childWin, pend, setFlag]))

theorem setFlag_pre {s : State} {ch : Option Nat} {c : Nat} (p : Pre s ch) (hc : ch = none) :
    Pre { s with childFlag := setFlag s.childFlag c 0 } ch := by
  subst hc
  constructor <;> simp
  · exact p.muR
  · exact p.muC
  · exact p.j1
  · exact p.phi
  · exact p.l1
  · exact p.e0

theorem stepR_inv {cfg : Cfg} {s s' : State} (i : Inv s) (h : stepR cfg s = some s') : Inv s' := by
  unfold stepR at h
  have i0 := i
  obtain ⟨muR, muC, curIn, j1, okc, j4, phi, l1, e0⟩ := i
  split at h
  all_goals (rename_i hpc; simp only [hpc] at muR curIn j1 okc j4 phi l1)
  · simp at h; subst h; inv_auto
  · simp at h; subst h; inv_auto
  · simp at h; subst h; inv_auto
  · simp at h; subst h; inv_auto
  · -- loopEnter
    simp at h; subst h
    split
    · inv_auto
    · exact finishRun_inv (by simp_all [holdsR]) muC
  · -- body
    have p : Pre s none := by
      simpa [hpc, cur] using i0.toPre (by simp [hpc, holdsR]) (by simp [hpc, postReset])
    have pc := count_pre p (by intro h1 h2; have := phi h1 h2; simp [isBody] at this; omega)
    split at h <;> (simp at h; subst h)
    · exact rootLoad_inv pc
    · exact finishRun_inv pc.muR pc.muC
    · exact afterCb_inv pc
  · -- acqOut
    split at h <;> simp at h
    subst h; inv_auto
  · -- acqIn
    have hmu : s.poolMu = some .R := muR.2 (by simp [holdsR])
    have hC : holdsC s.cpc = false := by
      cases hh : holdsC s.cpc with
      | false => rfl
      | true => have := muC.2 hh; simp [hmu] at this
    simp only at h
    split at h <;> (simp at h; subst h)
    · constructor <;> simp_all [holdsR, holdsC, cur, postReset, isBody, childWin, pend, setFlag]
      · rintro (h | ⟨h, _⟩) _ hb
        · exact j1 h
        · exact absurd h hb
    · apply afterCb_inv
      constructor <;> simp_all [holdsR, holdsC, cur, postReset, isBody, childWin, pend, setFlag]
      · rintro (h | ⟨h, _⟩) _ hb
        · exact j1 h
        · exact absurd h hb
  · -- invBefore
    split at h <;> (simp at h; subst h)
    · exact afterCb_inv (by simpa [hpc, cur] using i0.toPre (by simp [hpc, holdsR]) (by simp [hpc, postReset]))
    · inv_auto
  · simp at h; subst h; inv_auto
  · simp at h; subst h; inv_auto
  · simp at h; subst h; inv_auto
  · simp at h; subst h; inv_auto
  · -- kLoopEnter
    split at h <;> (simp at h; subst h)
    · inv_auto
    · exact afterCb_inv (by simpa [hpc, cur] using i0.toPre (by simp [hpc, holdsR]) (by simp [hpc, postReset]))
  · -- kBody
    have p := i0.toPre (by simp [hpc, holdsR]) (by simp [hpc, postReset])
    simp only [hpc, cur] at p
    have pc := count_pre p (by intro h1 h2; have := phi h1 h2; simp [isBody] at this; omega)
    split at h
    · simp only at h
      split at h <;> (simp at h; subst h)
      · constructor <;> simp_all [count, holdsR, holdsC, cur, postReset, isBody, childWin, pend]
      · exact afterCb_inv pc
    · simp at h; subst h; exact afterCb_inv pc
  · -- relOut
    split at h <;> simp at h
    subst h; inv_auto
  · -- relIn
    simp at h; subst h; inv_auto
  · -- relAfter
    simp at h; subst h
    exact afterCb_inv (setFlag_pre (by simpa [hpc, cur] using i0.toPre (by simp [hpc, holdsR]) (by simp [hpc, postReset])) rfl)


theorem sameMembers_mem {order pool : List Nat} (h : sameMembers order pool = true) {c : Nat}
    (hc : c ∈ pool) : c ∈ order := by
  simp [sameMembers] at h
  exact h.2 c hc

theorem setFlag_one (f : Nat → Nat) (c x : Nat) : setFlag f c 1 x = 1 ↔ (x = c ∨ f x = 1) := by
  unfold setFlag; split <;> simp_all

theorem stepC_inv {s s' : State} {order : List Nat} (i : Inv s) (h : stepC s order = some s') : Inv s' := by
  unfold stepC at h
  obtain ⟨muR, muC, curIn, j1, okc, j4, phi, l1, e0⟩ := i
  split at h
  all_goals (rename_i hpc; simp only [hpc] at muC okc j4)
  · -- idle: Abort starts
    simp at h; subst h
    constructor <;> simp_all [holdsR, holdsC, cur, postReset, isBody, childWin, pend]
  · -- enter: lock, snapshot
    split at h
    · rename_i hc
      simp at hc
      obtain ⟨hmu, hsm⟩ := hc
      have hR : holdsR s.rpc = false := by
        cases hh : holdsR s.rpc with
        | false => rfl
        | true => have := muR.2 hh; simp [hmu] at this
      split at h <;> (simp at h; subst h)
      · -- no child registered
        constructor <;> simp [holdsC, pend, hmu, hR]
        case curIn => exact curIn
        case j1 => exact j1
        case okc =>
          intro _ _ c hc
          have := sameMembers_mem hsm (curIn c hc)
          simp at this
        case phi => exact phi
        case l1 => exact l1
        case e0 => exact e0
      · constructor <;> simp [holdsC, pend, hR]
        case curIn => exact curIn
        case j1 => exact j1
        case okc => intro h1; exact okc (Or.inl h1)
        case j4 =>
          intro _ _ c hc
          have := sameMembers_mem hsm (curIn c hc)
          simp at this
          rcases this with h | h
          · exact Or.inl (Or.inl h)
          · exact Or.inl (Or.inr h)
        case phi => exact phi
        case l1 => exact l1
        case e0 => exact e0
    · simp at h
  · simp at h; subst h
    constructor <;> simp [holdsC, pend]
    case muR => exact muR
    case muC => simpa [holdsC] using muC
    case curIn => exact curIn
    case j1 => exact j1
    case okc => intro h1; exact okc (Or.inl h1)
    case j4 => simpa [holdsC, pend] using j4
    case phi => exact phi
    case l1 => exact l1
    case e0 => exact e0
  · -- chBetween: store 1 into child c
    rename_i c rest
    have hmu : s.poolMu = some .C := muC.2 (by simp [holdsC])
    have hR : holdsR s.rpc = false := by
      cases hh : holdsR s.rpc with
      | false => rfl
      | true => have := muR.2 hh; simp [hmu] at this
    simp only [holdsC, pend] at j4
    simp only at h
    split at h <;> (simp at h; subst h)
    · constructor <;> simp [holdsC, pend, hR, setFlag_one]
      case curIn => exact curIn
      case j1 => exact j1
      case okc =>
        rintro (h1 | ⟨h1, h2⟩) h3 c0 hc0
        · have := okc (Or.inl h1) h3 c0 hc0
          exact ⟨Or.inr this.1, this.2⟩
        · rcases j4 trivial h1 h3 c0 hc0 with h | h
          · simp at h; subst h; exact ⟨Or.inl rfl, h2⟩
          · exact ⟨Or.inr h.1, h.2⟩
      case phi => exact phi
      case l1 => exact l1
      case e0 => exact e0
    · constructor <;> simp [holdsC, pend, hmu, hR, setFlag_one]
      case curIn => exact curIn
      case j1 => exact j1
      case okc =>
        intro h1 h3 c0 hc0
        have := okc (Or.inl h1) h3 c0 hc0
        exact ⟨Or.inr this.1, this.2⟩
      case j4 =>
        intro h1 h2 h3 c0 hc0
        rcases j4 trivial h1 h3 c0 hc0 with h | h
        · simp at h
          rcases h with h | h | h
          · subst h; exact Or.inr ⟨Or.inl rfl, h2⟩
          · exact Or.inl (Or.inl h)
          · exact Or.inl (Or.inr h)
        · exact Or.inr ⟨Or.inr h.1, h.2⟩
      case phi => exact phi
      case l1 => exact l1
      case e0 => exact e0
  · -- between: store 1 into the root flag
    simp at h; subst h
    have hC : s.poolMu ≠ some .C := by
      intro hh; have := muC.1 hh; simp [holdsC] at this
    constructor <;> simp [holdsC, pend, hC]
    case muR => exact muR
    case curIn => exact curIn
    case j1 =>
      rintro (h1 | ⟨h1, h2, h3⟩)
      · exact (j1 h1).2
      · cases hp : s.rpc <;> simp_all [postReset, rootWin]
    case okc =>
      rintro (h1 | ⟨_, h2, _⟩) h3 c0 hc0
      · exact okc (Or.inl h1) h3 c0 hc0
      · exact okc (Or.inr ⟨trivial, h2⟩) h3 c0 hc0
    case phi =>
      rintro (h1 | ⟨h1, h2, h3⟩) h4
      · exact phi h1 h4
      · cases hA : s.armedOK with
        | true => exact phi hA h4
        | false => rw [e0 hA]; split <;> omega
    case e0 => intro h1 _; exact e0 h1


theorem step_inv {cfg : Cfg} {s s' : State} {l : Label} (i : Inv s) (h : step cfg s l = some s') : Inv s' := by
  cases l with
  | r => exact stepR_inv i h
  | c order => exact stepC_inv i h

theorem inv_reach {cfg : Cfg} {s : State} (h : Reach cfg s) : Inv s := by
  induction h with
  | init => exact inv_init
  | step l _ hs ih => exact step_inv ih hs

theorem rootLoad_frame (s : State) (ip : Nat) :
    (rootLoad s ip).cpc = s.cpc ∧ (rootLoad s ip).pool = s.pool := by
  unfold rootLoad; split <;> simp [finishRun]

theorem afterCb_frame (s : State) (ip : Nat) (x : Option RPc) :
    (afterCb s ip x).cpc = s.cpc ∧ (afterCb s ip x).pool = s.pool := by
  cases x <;> simp [afterCb, rootLoad_frame]

/-- the children the controller still has to visit are registered (the pool cannot change
    while the controller holds pool.mu) -/
theorem pend_in_pool {cfg : Cfg} {s : State} (h : Reach cfg s) : ∀ c, c ∈ pend s.cpc → c ∈ s.pool := by
  induction h with
  | init => simp [init, pend]
  | step l hr hs ih =>
    rename_i s0 s1
    have i := inv_reach hr
    cases l with
    | c order =>
      simp only [step, stepC] at hs
      split at hs
      all_goals (rename_i hpc; simp only [hpc, pend] at ih)
      · simp at hs; subst hs; simp [pend]
      · split at hs
        · rename_i hc
          simp [sameMembers] at hc
          split at hs <;> (simp at hs; subst hs) <;> simp [pend]
          exact ⟨hc.2.1 _ (by simp), fun a ha => hc.2.1 a (by simp [ha])⟩
        · simp at hs
      · simp at hs; subst hs; simp only [pend]; exact ih
      · split at hs <;> (simp at hs; subst hs) <;> simp [pend]
        exact ⟨ih _ (by simp), fun a ha => ih a (by simp [ha])⟩
      · simp at hs; subst hs; simp [pend]
    | r =>
      -- R changes the pool only while holding pool.mu, which excludes the controller holding it
      have hC : holdsC s0.cpc = true → s0.poolMu = some .C := i.muC.2
      have key : s1.cpc = s0.cpc ∧ (holdsC s0.cpc = true → s1.pool = s0.pool) := by
        simp only [step, stepR] at hs
        have hR := i.muR
        split at hs
        all_goals (rename_i hpc; simp only [hpc, holdsR] at hR)
        all_goals (try (simp at hs; subst hs; simp; done))
        all_goals first
          | (split at hs <;> (simp at hs; subst hs; simp [finishRun, afterCb_frame, rootLoad_frame, count]); done)
          | (split at hs <;> (simp at hs); subst hs; simp; done)
          | (simp at hs; subst hs; simp [afterCb_frame]; done)
          | skip
        · -- acqIn
          have hmu : s0.poolMu = some .R := hR.2 trivial
          split at hs <;> (simp at hs; subst hs; simp [afterCb_frame]; cases hh : holdsC s0.cpc with | false => rfl | true => simp [hC hh] at hmu)
        · -- kBody
          split at hs
          · split at hs <;> (simp at hs; subst hs; simp [afterCb_frame, count])
          · simp at hs; subst hs; simp [afterCb_frame, count]
        · -- relIn
          have hmu : s0.poolMu = some .R := hR.2 trivial
          simp at hs; subst hs; simp; cases hh : holdsC s0.cpc with | false => simp | true => simp [hC hh] at hmu
      intro c hc
      rw [key.1] at hc
      by_cases hh : holdsC s0.cpc = true
      · rw [key.2 hh]; exact ih c hc
      · cases hp : s0.cpc <;> simp_all [pend, holdsC]

end UgoVerif.Proofs.Conc
