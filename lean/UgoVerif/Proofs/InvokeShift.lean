import UgoVerif.Proofs.InvokeBind
import UgoVerif.Proofs.ShiftRun
/-
  C14: the two entries into a compiled function — `prologue` of the child's `Run` (Go-side call) and
  `xOpCallCompiled` without spread in the parent (in-script call) — end in states related by the
  offset relation `ShB` of Proofs/Shift.lean, for every accepted argument list.
-/
set_option linter.unusedSimpArgs false
set_option linter.unusedVariables false
namespace UgoVerif.Proofs.InvokeShift
open UgoVerif UgoVerif.Go UgoVerif.VM UgoVerif.Proofs.InvokeBind UgoVerif.Proofs.Shift UgoVerif.Props.C02

theorem exec_prologueA (g : V) (hg : g ≠ .nil) (c : State) :
    exec (prologueA g) c = (.ok (), { c with err := none, abort := false, globals := g }) := by
  cases g <;> first | exact absurd rfl hg | rfl

theorem getElem!_of_getElem? {α} [Inhabited α] (xs : Array α) (i : Nat) (v : α) (h : xs[i]? = some v) : xs[i]! = v := by
  simp [getElem!_def, h]

theorem frames_modify_self (fr : Array Frame) (i : Nat) (f : Frame → Frame) (h : i < fr.size) :
    (fr.modify i f)[i]! = f fr[i]! := by
  simp [h, Array.getElem_modify]

theorem exec_prologueB (s : State) (ci : Nat) (free : Option (List Addr))
    (hfn : s.heap[s.mainFn]? = some (.fn ci free)) :
    exec prologueB s = (.ok (),
      { s with curFrame := 0,
               frames := s.frames.modify 0 fun f =>
                 { f with fn := some s.mainFn, free := free, handlers := none, bp := 0, discard := false },
               frameIndex := 1, ip := -1, sp := (s.codes[ci]!).numLocals,
               modules := s.modules ++ Array.replicate (s.numModules - s.modules.size) .nil }) := by
  simp only [prologueB, initCurrentFrame, exec_bind, exec_getS, exec_modS, UgoVerif.VM.exec_fnCell, hfn]

/-- **the two entries agree.**  `c` is the child VM as `_acquire` left it (same heap, code memory,
    constants, module cache as the parent `p`; `Main = fa`), `g = p.globals`; the parent has the
    callee and `args` on its operand stack.  For every accepted argument count both entries succeed
    and leave `ShB`-related states: same heap (the variadic array is the same fresh cell on both
    sides), `child.stack[i] = parent.stack[bp+i]` for the `NumLocals` slots, `ip = -1`,
    frame 0 / base 0 against frame k / base bp. -/
theorem entries_shifted (c p : State) (fa ci : Nat) (free : Option (List Addr)) (args : List V)
    (hfn : p.heap[fa]? = some (.fn ci free))
    (hheap : c.heap = p.heap) (hcodes : c.codes = p.codes) (hconsts : c.consts = p.consts)
    (hmods : c.modules = p.modules) (hnm : c.numModules = p.numModules) (hmain : c.mainFn = fa)
    (hfull : p.numModules ≤ p.modules.size) (hg : p.globals ≠ .nil) (herr : p.err = none)
    (hshc : Shape c) (hshp : Shape p)
    (hargs : argsOnStack p args.length = args)
    (hacc : accepted (p.codes[ci]!).numParams (p.codes[ci]!).variadic args.length)
    (hself : (p.frames[p.curFrame]!).fn ≠ some fa)
    (hfi : 0 ≤ p.frameIndex ∧ p.frameIndex + 1 ≤ (frameSize : Int) - 1)
    (hbp : 0 ≤ p.sp - args.length) (hsp : p.sp ≤ (stackSize : Int))
    (hroom : p.sp - args.length + (p.codes[ci]!).numLocals ≤ (stackSize : Int))
    (hnl : (p.codes[ci]!).numParams ≤ (p.codes[ci]!).numLocals) :
    ∃ c' p', exec (prologue p.globals args) c = (.ok (), c') ∧
      exec (callCompiled fa args.length 0) p = (.ok (.ok ()), p') ∧
      ShB p' (p.sp - args.length).toNat p.frameIndex.toNat 0 c' p' ∧ c'.sp = (p.codes[ci]!).numLocals := by
  have hcell : exec (fnCell fa) p = (.ok (p.codes[ci]!, free), p) := EvalLocals.exec_fnCell p fa ci free hfn
  obtain ⟨stp, hp, hpsz, hpslots, hprest⟩ :=
    callCompiled_slots fa args p _ free hcell hargs hacc hself hfi hbp hsp hroom hnl hshp.stack
  -- the child
  rw [prologue_eq, exec_bind, exec_prologueA _ hg]
  simp only
  generalize hc1 : ({ c with err := none, abort := false, globals := p.globals } : State) = c1
  have hfn1 : c1.heap[c1.mainFn]? = some (.fn ci free) := by rw [← hc1]; simp [hmain, hheap, hfn]
  have hcodes1 : c1.codes = p.codes := by rw [← hc1]; exact hcodes
  have hnlS : (p.codes[ci]!).numLocals ≤ stackSize := by
    have : (0 : Int) ≤ p.sp - args.length := hbp
    omega
  obtain ⟨stc, hci, hcsz, hcslots, hcrest⟩ :=
    initLocals_slots args c1 ci free hfn1 (by rw [hcodes1]; exact hnl) (by rw [hcodes1]; exact hnlS)
      (by rw [← hc1]; exact hshc.stack)
  rw [hcodes1] at hci hcslots
  have hci' : UgoVerif.VM.exec (initLocals args) c1 = _ := hci
  rw [exec_bind, hci']
  simp only
  have hfs : 0 < c1.frames.size := by rw [← hc1]; show 0 < c.frames.size; rw [hshc.frames]; decide
  have hB := exec_prologueB
    ({ c1 with stack := stc, heap := bindHeap (p.codes[ci]!).numParams (p.codes[ci]!).variadic args c1.heap, codes := p.codes } : State)
    ci free (by
      show (bindHeap (p.codes[ci]!).numParams (p.codes[ci]!).variadic args c1.heap)[c1.mainFn]? = some (.fn ci free)
      unfold bindHeap
      split
      · rw [Array.getElem?_push]
        have hlt : c1.mainFn < c1.heap.size := by
          rcases Nat.lt_or_ge c1.mainFn c1.heap.size with hl | hl
          · exact hl
          · rw [Array.getElem?_eq_none hl] at hfn1; cases hfn1
        simp [Nat.ne_of_lt hlt, hfn1]
      · exact hfn1)
  refine ⟨_, _, hB, hp, ?_, rfl⟩
  · refine ⟨0, (p.codes[ci]!).numLocals, ((p.codes[ci]!).numLocals : Int), ?_, Int.le_refl _, Nat.zero_le _⟩
    have hc1h : c1.heap = p.heap := by rw [← hc1]; exact hheap
    have hkLt : p.frameIndex.toNat < frameSize := by have := hfi.2; simp only [frameSize] at *; omega
    exact {
      heap := by simp [hc1h]
      codes := by simp [hcodes1]
      consts := by rw [← hc1]; exact hconsts
      globals := by rw [← hc1]
      modules := by
        rw [← hc1]
        show c.modules ++ Array.replicate (c.numModules - c.modules.size) V.nil = p.modules
        rw [hmods, hnm]
        have : p.numModules - p.modules.size = 0 := by omega
        simp [this]
      numModules := by rw [← hc1]; exact hnm
      ip := rfl
      spS := rfl
      spT := by show p.sp - args.length + _ = _; omega
      curS := rfl
      curT := by show p.frameIndex.toNat = p.frameIndex.toNat + 0; omega
      fiS := rfl
      fiT := by show p.frameIndex + 1 = _; omega
      errS := by rw [← hc1]
      errT := herr
      shapeS := ⟨hcsz, by rw [← hc1]; simpa using hshc.frames⟩
      shapeT := ⟨hpsz, by simpa using hshp.frames⟩
      kLt := hkLt
      frames := by
        intro j hj
        have hj0 : j = 0 := by omega
        subst hj0
        show FrameSh _ _ ((c1.frames.modify 0 _)[0]!) (((p.frames.modify p.curFrame _).modify p.frameIndex.toNat _)[p.frameIndex.toNat + 0]!)
        rw [Nat.add_zero, frames_modify_self _ _ _ hfs, frames_modify_self _ _ _ (by simp [hshp.frames]; exact hkLt)]
        exact ⟨by simp [hmain, ← hc1], rfl, by simp; omega, trivial, rfl, by simp⟩
      ips := fun j hj => by omega
      bp0 := by
        show ((c1.frames.modify 0 _)[0]!).bp = 0
        rw [frames_modify_self _ _ _ hfs]
      bpPos := fun j h1 hj => by omega
      room := by
        have : (0 : Int) ≤ p.sp - args.length := hbp
        simp only [stackSize] at hroom ⊢
        omega
      lowF := fun _ _ => rfl
      lowS := fun _ _ => rfl
      stack := by
        intro i hi
        show stc[i]! = stp[(p.sp - args.length).toNat + i]!
        rw [getElem!_of_getElem? _ _ _ (hcslots i hi), getElem!_of_getElem? _ _ _ (hpslots i hi), hc1h] }

end UgoVerif.Proofs.InvokeShift
