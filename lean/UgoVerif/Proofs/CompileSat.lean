import UgoVerif.Model.Compile
/-
  C05 helper: a weakest-precondition style judgment for the compiler monad.
  `Sat m s Q`: running `m` from `s` does not end in a Go panic, and when it ends normally with
  value `a` in state `s'`, `Q a s'` holds.  (Errors and `unsupported` are acceptable outcomes.)
-/
namespace UgoVerif.Compile
open UgoVerif UgoVerif.Go UgoVerif.Ast

/-- outcome of running a compiler action -/
def runCM {α} (m : CM α) (s : CState) : Except CErr α × CState := (m.run.run s)

def Sat {α} (m : CM α) (s : CState) (Q : α → CState → Prop) : Prop :=
  match runCM m s with
  | (.ok a, s') => Q a s'
  | (.error (.panic _), _) => False
  | (.error _, _) => True

theorem runCM_pure {α} (a : α) (s : CState) : runCM (pure a : CM α) s = (.ok a, s) := rfl

theorem runCM_bind {α β} (m : CM α) (f : α → CM β) (s : CState) :
    runCM (m >>= f) s = match runCM m s with
      | (.ok a, s') => runCM (f a) s'
      | (.error e, s') => (.error e, s') := by
  simp only [runCM, ExceptT.run_bind, StateT.run_bind]
  cases h : (StateT.run (ExceptT.run m) s) with
  | mk r s' => cases r <;> rfl

theorem Sat.pure {α} {a : α} {s : CState} {Q : α → CState → Prop} (h : Q a s) : Sat (Pure.pure a : CM α) s Q := by
  simp [Sat, runCM_pure, h]

theorem Sat.bind {α β} {m : CM α} {f : α → CM β} {s : CState} {Q : β → CState → Prop}
    (h : Sat m s (fun a s' => Sat (f a) s' Q)) : Sat (m >>= f) s Q := by
  unfold Sat at h ⊢
  rw [runCM_bind]
  cases hr : runCM m s with
  | mk r s' =>
    rw [hr] at h
    cases r with
    | ok a => simpa using h
    | error e => cases e <;> simp_all

theorem Sat.mono {α} {m : CM α} {s : CState} {Q Q' : α → CState → Prop}
    (h : Sat m s Q) (hq : ∀ a s', Q a s' → Q' a s') : Sat m s Q' := by
  unfold Sat at h ⊢
  cases hr : runCM m s with
  | mk r s' =>
    rw [hr] at h
    cases r with
    | ok a => exact hq _ _ h
    | error e => cases e <;> simp_all

theorem Sat.of_bind_pure {α} {m : CM α} {s : CState} {Q : α → CState → Prop}
    (h : Sat (m >>= Pure.pure) s Q) : Sat m s Q := by
  simpa using h

theorem runCM_get (s : CState) : runCM (get : CM CState) s = (.ok s, s) := rfl
theorem runCM_set (s t : CState) : runCM (set t : CM Unit) s = (.ok (), t) := rfl
theorem runCM_modify (f : CState → CState) (s : CState) : runCM (modify f : CM Unit) s = (.ok (), f s) := rfl
theorem runCM_throw {α} (e : CErr) (s : CState) : runCM (throw e : CM α) s = (.error e, s) := rfl

theorem Sat.get {s : CState} {Q : CState → CState → Prop} (h : Q s s) : Sat (get : CM CState) s Q := by
  simp [Sat, runCM_get, h]
theorem Sat.set {s t : CState} {Q : Unit → CState → Prop} (h : Q () t) : Sat (set t : CM Unit) s Q := by
  simp [Sat, runCM_set, h]
theorem Sat.modify {f : CState → CState} {s : CState} {Q : Unit → CState → Prop} (h : Q () (f s)) :
    Sat (modify f : CM Unit) s Q := by
  simp [Sat, runCM_modify, h]
theorem Sat.cerr {α} {pos : Pos} {msg : String} {s : CState} {Q : α → CState → Prop} : Sat (cerr pos msg : CM α) s Q := by
  simp [Sat, Compile.cerr, runCM_throw]
theorem Sat.throw_err {α} {pos : Pos} {msg : String} {s : CState} {Q : α → CState → Prop} :
    Sat (throw (CErr.err pos msg) : CM α) s Q := by
  simp [Sat, runCM_throw]
theorem Sat.throw_bare {α} {msg : String} {s : CState} {Q : α → CState → Prop} :
    Sat (throw (CErr.bare msg) : CM α) s Q := by
  simp [Sat, runCM_throw]
theorem Sat.cunsupported {α} {msg : String} {s : CState} {Q : α → CState → Prop} : Sat (cunsupported msg : CM α) s Q := by
  simp [Sat, Compile.cunsupported, runCM_throw]

end UgoVerif.Compile
