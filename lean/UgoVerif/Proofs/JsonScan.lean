import UgoVerif.Model.JsonScan
/-
  Helper lemmas for C17: the scanner automaton never reaches one of its Go panic sites
  (`parseState[n-1]` with an empty stack, `parseState[0:-1]`).
-/
namespace UgoVerif.Proofs.Json
open UgoVerif UgoVerif.Go UgoVerif.Model.JsonScan

/-- the only state that indexes the parse stack without looking at its length is entered by a push -/
def StackInv (s : Scanner) : Prop := s.step = .beginStringOrEmpty → s.parseState ≠ []

def Post (r : R) : Prop := ∃ s' op, r = .ok (s', op) ∧ StackInv s'

theorem post_error (s : Scanner) : Post s.error := ⟨_, _, rfl, by simp [StackInv]⟩
theorem post_goto (s : Scanner) (st : St) (op : Op) (h : st ≠ .beginStringOrEmpty) : Post (goto s st op) :=
  ⟨_, _, rfl, by simp [StackInv, h]⟩
theorem post_same (s : Scanner) (op : Op) (h : StackInv s) : Post (.ok (s, op)) := ⟨_, _, rfl, h⟩

theorem post_endTop (s : Scanner) (c : UInt8) (h : s.step ≠ .beginStringOrEmpty) : Post (stateEndTop s c) := by
  unfold stateEndTop; split
  · exact ⟨_, _, rfl, by simp [StackInv]⟩
  · exact ⟨_, _, rfl, by simp [StackInv, h]⟩

theorem pop_ok (s : Scanner) (ps : PS) (rest : List PS) (h : s.parseState = ps :: rest) :
    ∃ s', s.pop = .ok s' ∧ s'.step ≠ .beginStringOrEmpty := by
  unfold Scanner.pop; rw [h]; simp only []
  split
  · exact ⟨_, rfl, by simp⟩
  · exact ⟨_, rfl, by simp⟩

theorem post_endValue (s : Scanner) (c : UInt8) : Post (stateEndValue s c) := by
  unfold stateEndValue
  split
  · exact post_endTop _ _ (by simp)
  · rename_i ps rest hps
    split
    · exact post_goto _ _ _ (by simp)
    · cases ps <;> simp only []
      · split
        · exact ⟨_, _, rfl, by simp [StackInv]⟩
        · exact post_error _
      · split
        · exact ⟨_, _, rfl, by simp [StackInv]⟩
        · split
          · obtain ⟨s', e, hs'⟩ := pop_ok s _ _ hps
            rw [e]; exact ⟨_, _, rfl, by simp [StackInv, hs']⟩
          · exact post_error _
      · split
        · exact post_goto _ _ _ (by simp)
        · split
          · obtain ⟨s', e, hs'⟩ := pop_ok s _ _ hps
            rw [e]; exact ⟨_, _, rfl, by simp [StackInv, hs']⟩
          · exact post_error _

theorem post_push (s : Scanner) (p : PS) (op : Op) : Post (s.push p op) := by
  unfold Scanner.push
  simp only []
  split
  · exact ⟨_, _, rfl, by simp [StackInv]⟩
  · exact post_error _

theorem post_beginValue (s : Scanner) (c : UInt8) (h : StackInv s) : Post (stateBeginValue s c) := by
  unfold stateBeginValue
  split
  · exact post_same _ _ h
  repeat (first | (split; first | exact post_push _ _ _ | exact post_goto _ _ _ (by simp)) | exact post_error _)

theorem post_beginString (s : Scanner) (c : UInt8) (h : StackInv s) : Post (stateBeginString s c) := by
  unfold stateBeginString
  split
  · exact post_same _ _ h
  split
  · exact post_goto _ _ _ (by simp)
  · exact post_error _

theorem post_state0 (s : Scanner) (c : UInt8) : Post (state0 s c) := by
  unfold state0
  split
  · exact post_goto _ _ _ (by simp)
  split
  · exact post_goto _ _ _ (by simp)
  · exact post_endValue _ _

theorem post_eSign (s : Scanner) (c : UInt8) : Post (stateESign s c) := by
  unfold stateESign
  split
  · exact post_goto _ _ _ (by simp)
  · exact post_error _

theorem post_beginValueOrEmpty (s : Scanner) (c : UInt8) (h : StackInv s) : Post (stateBeginValueOrEmpty s c) := by
  unfold stateBeginValueOrEmpty
  split
  · exact post_same _ _ h
  split
  · exact post_endValue _ _
  · exact post_beginValue _ _ h

theorem post_beginStringOrEmpty (s : Scanner) (c : UInt8) (h : StackInv s) (hs : s.step = .beginStringOrEmpty) :
    Post (stateBeginStringOrEmpty s c) := by
  unfold stateBeginStringOrEmpty
  split
  · exact post_same _ _ h
  split
  · split
    · rename_i hps; exact absurd hps (h hs)
    · exact post_endValue _ _
  · exact post_beginString _ _ h

theorem step_post (s : Scanner) (c : UInt8) (h : StackInv s) : Post (step s c) := by
  unfold step
  simp only []
  cases hs : s.step <;> simp only []
  all_goals first
    | exact post_endValue _ _
    | exact post_beginValue _ _ h
    | exact post_beginValueOrEmpty _ _ h
    | exact post_beginStringOrEmpty _ _ h hs
    | exact post_beginString _ _ h
    | exact post_state0 _ _
    | exact post_eSign _ _
    | exact post_endTop _ _ (by simp [hs])
    | exact post_same _ _ h
    | (split <;> first | exact post_same _ _ h | exact post_goto _ _ _ (by simp) | exact post_error _ | exact post_state0 _ _ | exact post_endValue _ _ | exact post_eSign _ _ | (split <;> first | exact post_same _ _ h | exact post_goto _ _ _ (by simp) | exact post_error _ | exact post_endValue _ _ | (split <;> first | exact post_same _ _ h | exact post_goto _ _ _ (by simp) | exact post_error _ )))

theorem stackInv_new : StackInv Scanner.new := by simp [StackInv, Scanner.new]

theorem eof_post (s : Scanner) (h : StackInv s) : ∃ s' op, eof s = .ok (s', op) := by
  unfold eof
  split
  · exact ⟨_, _, rfl⟩
  split
  · exact ⟨_, _, rfl⟩
  · obtain ⟨s', op, e, _⟩ := step_post s 0x20 h
    rw [e]; simp only []
    split <;> exact ⟨_, _, rfl⟩

/-- the scanner loop never reaches one of its Go panic sites -/
theorem checkLoop_no_panic : ∀ (bs : Bytes) (s : Scanner), StackInv s → ∃ b, checkLoop s bs = .ok b
  | [], s, h => by
    obtain ⟨s', op, e⟩ := eof_post s h
    simp only [checkLoop, e]; exact ⟨_, rfl⟩
  | c :: rest, s, h => by
    obtain ⟨s', op, e, h'⟩ := step_post s c h
    simp only [checkLoop, e]
    split
    · exact ⟨_, rfl⟩
    · exact checkLoop_no_panic rest s' h'

theorem indentLoop_no_panic (pre ind : Bytes) : ∀ (bs : Bytes) (st : IndentSt), StackInv st.scan →
    ∃ st', indentLoop pre ind st bs = .ok st' ∧ StackInv st'.scan
  | [], st, h => ⟨st, rfl, h⟩
  | c :: rest, st, h => by
    obtain ⟨s', op, e, h'⟩ := step_post st.scan c h
    unfold indentLoop
    rw [e]
    simp only []
    repeat' split
    all_goals first
      | exact ⟨_, rfl, h'⟩
      | exact indentLoop_no_panic pre ind rest _ h'

end UgoVerif.Proofs.Json
