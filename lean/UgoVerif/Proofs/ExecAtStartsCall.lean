import UgoVerif.Proofs.ExecAtStartsOps
/-
  Control-flow integrity, part 4: CLOSURE, GETINDEX (a loop that can throw), CALL / CALLNAME
  (`xOpCallCompiled` incl. the self tail call, builtin calls), and the dispatch of all 44 opcodes.
-/
namespace UgoVerif.VM.Cfi
open UgoVerif UgoVerif.Go
open UgoVerif.Compile (Walk Bd readBE opWidth)

/-- one data action -/
syntax "tq1" : tactic
set_option hygiene false in
macro_rules | `(tactic| tq1) => `(tactic|
  (refine Tq.bind_keepsI (fun iv__ => ?_) (fun _ => ?_); (· ckeeps (CtxI code iv__)); try dsimp only))

/-! ### loops that can leave the context -/

theorem Tq.forIn_list {γ β : Type} (Q : ForInStep β → State → Prop) (f : γ → β → M (ForInStep β))
    (hf : ∀ a b, Tq (Q (.yield b)) Q (f a b)) :
    ∀ (l : List γ) (init : β), Tq (Q (.yield init)) (fun b s => Q (.yield b) s ∨ Q (.done b) s) (forIn l init f)
  | [], init => by rw [List.forIn_nil]; exact Tq.pure (fun _ h => .inl h)
  | a :: as, init => by
    rw [List.forIn_cons]
    refine Tq.bind (hf a init) (fun r => ?_)
    cases r with
    | done b => exact Tq.pure (fun _ h => .inr h)
    | yield b => exact Tq.forIn_list Q f hf as b

theorem Tq.forIn_range {β : Type} (Q : ForInStep β → State → Prop) (r : Std.Legacy.Range) (init : β)
    (f : Nat → β → M (ForInStep β)) (hf : ∀ a b, Tq (Q (.yield b)) Q (f a b)) :
    Tq (Q (.yield init)) (fun b s => Q (.yield b) s ∨ Q (.done b) s) (forIn r init f) := by
  rw [Std.Legacy.Range.forIn_eq_forIn_range']
  exact Tq.forIn_list Q f hf _ _

set_option maxHeartbeats 1600000
section
variable {code : Code} {p : Nat}

/-! ### GETINDEX -/

theorem xs_execGetIndex (hnext : Bd code.insts (p + 1 + 1)) : OpSpec code p execGetIndex := by
  unfold execGetIndex
  tq1; tq1; tq1
  refine Tq.bind (Tq.pre (Tq.forIn_range (LoopQ code p) _ _ _ ?_) (fun _ h => ⟨rfl, h⟩)) (fun r => ?_)
  · intro k b
    refine Tq.pre ?_ (fun _ h => h.2)
    try dsimp only
    tqs (p : Int) (LoopQ code (p : Int))
  · obtain ⟨o, t, v⟩ := r
    dsimp only
    cases o with
    | none =>
      refine Tq.pre (X := CtxI code p) ?_ (fun s h => h.elim (fun h1 => h1.2) (fun ⟨c, e, _⟩ => by cases e))
      tqs (p : Int) StepQ
    | some c =>
      exact Tq.pure (fun s h => h.elim (fun h1 => by cases h1.1) (fun ⟨c', e, hq⟩ => by cases e; exact hq))

/-! ### CLOSURE -/

theorem Tq.allocFn_bind {α} {iv : Int} {Q : α → State → Prop} {X : M Nat} {f : Addr → M α} (free : Option (List Addr))
    (hX : ∀ s, (∃ e, exec X s = (.error e, s)) ∨
      ∃ (c a : Nat) (fr : Option (List Addr)), exec X s = (.ok c, s) ∧ s.heap[a]? = some (Cell.fn c fr))
    (hf : ∀ na, Tq (CtxI code iv) Q (f na)) : Tq (CtxI code iv) Q (X >>= fun c => alloc (.fn c free) >>= f) := by
  apply Tq.assume; intro s0 hs0
  rcases hX s0 with ⟨e, he⟩ | ⟨c, a, fr, he, hc⟩
  · refine Tq.bind (R := fun _ _ => False) ?_ (fun _ => Tq.ofFalse)
    apply Tq.intro'; intro s hs; subst hs
    rw [he]; exact hs0.safe
  · refine Tq.bind (R := fun c' s => c' = c ∧ s = s0) ?_ (fun c' => ?_)
    · apply Tq.intro'; intro s hs; subst hs
      rw [he]; exact ⟨rfl, rfl⟩
    · apply Tq.assume; intro s1 ⟨hc', hs1⟩
      subst hc' hs1
      refine Tq.bind (R := fun _ s => CtxI code iv s) ?_ hf
      apply Tq.intro'; intro s hs; subst hs
      show CtxI code iv { s with heap := s.heap.push (Cell.fn c' free) }
      refine CtxI.of_frame hs0 rfl rfl rfl rfl rfl ?_ ?_
      · intro a' c'' f' hs
        exact (push_fn_iff s.heap _ a' c'' f').mpr (.inl hs)
      · intro a' c'' f' hs
        rcases (push_fn_iff s.heap _ a' c'' f').mp hs with h1 | ⟨_, h2⟩
        · exact ⟨a', f', h1⟩
        · cases h2; exact ⟨a, fr, hc⟩

theorem xs_execClosure (hnext : Bd code.insts (p + 1 + 3)) : OpSpec code p execClosure := by
  unfold execClosure
  tq1; tq1; tq1; tq1; tq1; tq1; tq1
  simp only [← bind_assoc (heapGet _)]
  refine Tq.allocFn_bind _ ?_ (fun na => ?_)
  · intro s
    rename_i _ _ fa _ _ _ _
    simp only [exec_bind, exec_heapGet]
    cases hh : s.heap[fa]? with
    | none => exact .inl ⟨_, rfl⟩
    | some cell =>
      cases cell with
      | fn c fr => exact .inr ⟨c, fa, fr, rfl, hh⟩
      | _ => exact .inl ⟨_, rfl⟩
  · tqs (p : Int) StepQ


/-! ### CALL / CALLNAME -/

theorem keeps_hasFn {α} {fa : Addr} {m : M α} (h : ∀ h0, Keeps (FnStable h0) m) : Keeps (HasFn fa) m := by
  apply Keeps.intro'; intro s hs
  obtain ⟨c, fr, hs⟩ := hs
  have := (h s.heap).elim s (fun a c f h => h)
  exact ⟨c, fr, this fa c fr hs⟩

theorem Tq.bind_keepsH {α β} {fa : Addr} {iv : Int} {Q : α → State → Prop} {m : M β} {f : β → M α}
    (hm : ∀ iv, Keeps (CtxI code iv) m) (hm2 : ∀ h0, Keeps (FnStable h0) m) (hf : ∀ b, Tq (CtxH fa code iv) Q (f b)) :
    Tq (CtxH fa code iv) Q (m >>= f) := by
  refine Tq.bind_keeps ?_ (fun _ h => h.1.safe) hf
  apply Keeps.intro'; intro s hs
  exact ⟨(hm iv).elim s hs.1, (keeps_hasFn hm2).elim s hs.2⟩

theorem Tq.getIp_bindH {α} {fa : Addr} {iv : Int} {Q : α → State → Prop} {f : Int → M α}
    (hf : Tq (CtxH fa code iv) Q (f iv)) : Tq (CtxH fa code iv) Q (getIp >>= f) := by
  apply Tq.assume; intro s0 hs0
  have hip : s0.ip = iv := hs0.1.2.2
  refine Tq.bind (R := fun a s => a = iv ∧ CtxH fa code iv s) ?_ (fun a => ?_)
  · apply Tq.intro'; intro s hs; subst hs
    exact ⟨hip, hs0⟩
  · apply Tq.assume; intro s1 hs1
    obtain ⟨e, hs1'⟩ := hs1
    subst e
    exact hf.pre (fun s e => by rw [e]; exact hs1')

theorem Tq.setIp_bindH {α} {fa : Addr} {iv w : Int} {Q : α → State → Prop} {f : Unit → M α}
    (hf : Tq (CtxH fa code w) Q (f ())) : Tq (CtxH fa code iv) Q (setIp w >>= f) := by
  refine Tq.bind (R := fun _ s => CtxH fa code w s) ?_ (fun _ => hf)
  apply Tq.intro'; intro s hs
  exact ⟨⟨hs.1.1, hs.1.2.1, rfl⟩, hs.2⟩

theorem tq_callOkH {fa : Addr} {iv pq : Int} {n : Nat} (hbd : Bd code.insts n) (hv : iv + 1 = (n : Int)) :
    Tq (CtxH fa code iv) (CallQ code pq) (pure (Except.ok ())) :=
  Tq.pure (fun _ h => h.1.good hbd hv)

theorem tq_callErrH {fa : Addr} {pq : Int} (e : OpErr) : Tq (CtxH fa code pq) (CallQ code pq) (pure (Except.error e)) :=
  Tq.pure (fun _ h => h.1)

syntax "tqh_prim" : tactic
macro_rules | `(tactic| tqh_prim) => `(tactic| exact Tq.panic _ (fun _ h => CtxI.safe h.1))
macro_rules | `(tactic| tqh_prim) => `(tactic| exact Tq.unsupported _ (fun _ h => CtxI.safe h.1))
macro_rules | `(tactic| tqh_prim) => `(tactic| exact tq_callErrH _)
macro_rules | `(tactic| tqh_prim) => `(tactic| keeps_hyp)
set_option hygiene false in
macro_rules | `(tactic| tqh_prim) => `(tactic| exact tq_callOkH hzero (by omega))
set_option hygiene false in
macro_rules | `(tactic| tqh_prim) => `(tactic| exact tq_callTail _ _ _ _ hnext)

/-- `tqs` for the body of `xOpCallCompiled` (context `CtxH fa code v`) -/
syntax "tqh " term:max term:max : tactic
set_option hygiene false in
macro_rules | `(tactic| tqh $v $Q) => `(tactic|
  repeat (first
    | with_reducible tqh_prim
    | (refine Tq.getIp_bindH ?_)
    | (refine Tq.setIp_bindH ?_)
    | (refine Tq.bind_keepsH (fun iv__ => ?_) (fun h0 => ?_) ?_; (· ckeeps (CtxI code iv__)); (· fnkeeps))
    | apply Tq.ite
    | ((first | lift_lets | skip); intro jp__;
       first
       | (have hjp__ : Tq (CtxH fa code $v) $Q jp__ := by
            (dsimp only [jp__]; tqh $v $Q)
          clear_value jp__)
       | (have hjp__ : ∀ a__, Tq (CtxH fa code $v) $Q (jp__ a__) := by
            (intro a__; dsimp only [jp__]; tqh $v $Q)
          clear_value jp__)
       | clear_value jp__)
    | intro _
    | split
    | dsimp only))

theorem tq_fnCell {iv : Int} (fa : Addr) : Tq (CtxI code iv) (fun _ s => CtxH fa code iv s) (fnCell fa) := by
  apply Tq.intro'; intro s hs
  simp only [fnCell, exec_bind, exec_heapGet]
  cases hh : s.heap[fa]? with
  | none => exact hs.safe
  | some cell =>
    cases cell with
    | fn c fr => exact ⟨hs, c, fr, hh⟩
    | _ => exact hs.safe

theorem xs_callCompiled (hnext : Bd code.insts (p + 3)) (hzero : Bd code.insts 0) (fa : Addr) (na fl : Int) :
    Tq (CtxI code p) (CallQ code p) (callCompiled fa na fl) := by
  unfold callCompiled
  refine Tq.bind (tq_fnCell fa) (fun x => ?_)
  tqh (p : Int) (CallQ code (p : Int))

theorem xs_callObject (hnext : Bd code.insts (p + 3)) (c : V) (na fl : Int) :
    Tq (CtxI code p) (CallQ code p) (callObject c na fl) := by
  unfold callObject
  tqs (p : Int) (CallQ code (p : Int))

theorem xs_callAny (hnext : Bd code.insts (p + 3)) (hzero : Bd code.insts 0) (c : V) (na fl : Int) :
    Tq (CtxI code p) (CallQ code p) (callAny c na fl) := by
  unfold callAny
  split
  · exact xs_callCompiled hnext hzero _ _ _
  · exact xs_callObject hnext _ _ _

theorem tq_afterCallErr (e : OpErr) : Tq (CallQ code p (.error e)) StepQ (failWith e) := tq_failWith e
theorem tq_afterCallOk (u : Unit) : Tq (CallQ code p (.ok u)) StepQ (pure Ctl.next) :=
  Tq.pure (fun _ h => ⟨Good.safe h, fun _ => h⟩)

theorem xs_execCall (hnext : Bd code.insts (p + 1 + 2)) (hzero : Bd code.insts 0) : OpSpec code p execCall := by
  unfold execCall
  tq1; tq1; tq1; tq1
  refine Tq.bind (xs_callAny hnext hzero _ _ _) (fun r => ?_)
  cases r with
  | error e => exact tq_afterCallErr e
  | ok u => cases u; exact tq_afterCallOk _


macro_rules | `(tactic| tq_prim) => `(tactic| exact tq_afterCallErr _)
macro_rules | `(tactic| tq_prim) => `(tactic| exact tq_afterCallOk _)

/-- `tqs` with the step for `callAny` -/
syntax "tqc " term:max term:max : tactic
set_option hygiene false in
macro_rules | `(tactic| tqc $v $Q) => `(tactic|
  repeat (first
    | with_reducible tq_prim
    | (refine Tq.bumpIp_bind ?_)
    | (refine Tq.setIp_bind ?_)
    | (refine Tq.bind (xs_callAny hnext hzero _ _ _) (fun r__ => ?_); rcases r__ with e__ | ⟨⟨⟩⟩ <;> dsimp only)
    | (refine Tq.bind_keepsI (fun iv__ => ?_) ?_; (· ckeeps (CtxI code iv__)))
    | (refine Tq.bind (tq_failWith _) (fun _ => ?_))
    | apply Tq.ite
    | ((first | lift_lets | skip); intro jp__;
       first
       | (have hjp__ : Tq (CtxI code $v) $Q jp__ := by
            (dsimp only [jp__]; tqc $v $Q)
          clear_value jp__)
       | (have hjp__ : ∀ a__, Tq (CtxI code $v) $Q (jp__ a__) := by
            (intro a__; dsimp only [jp__]; tqc $v $Q)
          clear_value jp__)
       | clear_value jp__)
    | intro _
    | split
    | dsimp only))

theorem xs_execCallName (hnext : Bd code.insts (p + 1 + 2)) (hzero : Bd code.insts 0) : OpSpec code p execCallName := by
  unfold execCallName
  tqc (p : Int) StepQ

/-! ### dispatch: all 44 opcodes -/

set_option maxHeartbeats 3200000 in
/-- **one opcode function, any of the 44** (and an unknown opcode byte): dispatched at an
    instruction start `p` of well-formed code whose opcode byte is `b`, it ends with `continue` at an
    instruction boundary (`Good`), or `Safe` -/
theorem tq_dispatch (F : FloatOps) (hw : WfCode code) (hbd : Bd code.insts p) (b : UInt8)
    (hop : code.insts[p]? = some b) : Tq (CtxI code p) StepQ (dispatch F b.toNat) := by
  have hfit := hw.fit hbd hop
  have hn : b.toNat ≠ OpReturn → Bd code.insts (p + 1 + opWidth b.toNat) := hw.next hbd hop
  unfold dispatch
  by_cases hc : (b.toNat == OpConstant) = true
  · rw [if_pos hc]
    have e : b.toNat = OpConstant := eq_of_beq hc
    have h1 := hn (by rw [e]; decide)
    rw [e] at h1 hfit
    have hw' : opWidth OpConstant = 2 := rfl
    rw [hw'] at h1 hfit
    exact xs_execConstant h1
  rw [if_neg hc]; clear hc
  by_cases hc : (b.toNat == OpGetLocal) = true
  · rw [if_pos hc]
    have e : b.toNat = OpGetLocal := eq_of_beq hc
    have h1 := hn (by rw [e]; decide)
    rw [e] at h1 hfit
    have hw' : opWidth OpGetLocal = 1 := rfl
    rw [hw'] at h1 hfit
    exact xs_execGetLocal h1
  rw [if_neg hc]; clear hc
  by_cases hc : (b.toNat == OpSetLocal) = true
  · rw [if_pos hc]
    have e : b.toNat = OpSetLocal := eq_of_beq hc
    have h1 := hn (by rw [e]; decide)
    rw [e] at h1 hfit
    have hw' : opWidth OpSetLocal = 1 := rfl
    rw [hw'] at h1 hfit
    exact xs_execSetLocal h1
  rw [if_neg hc]; clear hc
  by_cases hc : (b.toNat == OpBinaryOp) = true
  · rw [if_pos hc]
    have e : b.toNat = OpBinaryOp := eq_of_beq hc
    have h1 := hn (by rw [e]; decide)
    rw [e] at h1 hfit
    have hw' : opWidth OpBinaryOp = 1 := rfl
    rw [hw'] at h1 hfit
    exact xs_execBinaryOp F h1
  rw [if_neg hc]; clear hc
  by_cases hc : (b.toNat == OpAndJump) = true
  · rw [if_pos hc]
    have e : b.toNat = OpAndJump := eq_of_beq hc
    have h1 := hn (by rw [e]; decide)
    rw [e] at h1 hfit
    have hw' : opWidth OpAndJump = 4 := rfl
    rw [hw'] at h1 hfit
    exact xs_execAndJump (by omega) (hw.jump p b hbd hop (by rw [e]; decide)) h1
  rw [if_neg hc]; clear hc
  by_cases hc : (b.toNat == OpOrJump) = true
  · rw [if_pos hc]
    have e : b.toNat = OpOrJump := eq_of_beq hc
    have h1 := hn (by rw [e]; decide)
    rw [e] at h1 hfit
    have hw' : opWidth OpOrJump = 4 := rfl
    rw [hw'] at h1 hfit
    exact xs_execOrJump (by omega) (hw.jump p b hbd hop (by rw [e]; decide)) h1
  rw [if_neg hc]; clear hc
  by_cases hc : (b.toNat == OpEqual || b.toNat == OpNotEqual) = true
  · rw [if_pos hc]
    simp only [Bool.or_eq_true, beq_iff_eq] at hc
    rcases hc with e | e
    · have h1 := hn (by rw [e]; decide)
      rw [e] at h1 hfit
      have hw' : opWidth OpEqual = 0 := rfl
      rw [hw'] at h1 hfit
      exact xs_execEqual F _ h1
    · have h1 := hn (by rw [e]; decide)
      rw [e] at h1 hfit
      have hw' : opWidth OpNotEqual = 0 := rfl
      rw [hw'] at h1 hfit
      exact xs_execEqual F _ h1
  rw [if_neg hc]; clear hc
  by_cases hc : (b.toNat == OpTrue) = true
  · rw [if_pos hc]
    have e : b.toNat = OpTrue := eq_of_beq hc
    have h1 := hn (by rw [e]; decide)
    rw [e] at h1 hfit
    have hw' : opWidth OpTrue = 0 := rfl
    rw [hw'] at h1 hfit
    exact xs_execTrue h1
  rw [if_neg hc]; clear hc
  by_cases hc : (b.toNat == OpFalse) = true
  · rw [if_pos hc]
    have e : b.toNat = OpFalse := eq_of_beq hc
    have h1 := hn (by rw [e]; decide)
    rw [e] at h1 hfit
    have hw' : opWidth OpFalse = 0 := rfl
    rw [hw'] at h1 hfit
    exact xs_execFalse h1
  rw [if_neg hc]; clear hc
  by_cases hc : (b.toNat == OpCall) = true
  · rw [if_pos hc]
    have e : b.toNat = OpCall := eq_of_beq hc
    have h1 := hn (by rw [e]; decide)
    rw [e] at h1 hfit
    have hw' : opWidth OpCall = 2 := rfl
    rw [hw'] at h1 hfit
    exact xs_execCall h1 hw.bd0
  rw [if_neg hc]; clear hc
  by_cases hc : (b.toNat == OpCallName) = true
  · rw [if_pos hc]
    have e : b.toNat = OpCallName := eq_of_beq hc
    have h1 := hn (by rw [e]; decide)
    rw [e] at h1 hfit
    have hw' : opWidth OpCallName = 2 := rfl
    rw [hw'] at h1 hfit
    exact xs_execCallName h1 hw.bd0
  rw [if_neg hc]; clear hc
  by_cases hc : (b.toNat == OpReturn) = true
  · rw [if_pos hc]
    have e : b.toNat = OpReturn := eq_of_beq hc
    exact xs_execReturn
  rw [if_neg hc]; clear hc
  by_cases hc : (b.toNat == OpGetBuiltin) = true
  · rw [if_pos hc]
    have e : b.toNat = OpGetBuiltin := eq_of_beq hc
    have h1 := hn (by rw [e]; decide)
    rw [e] at h1 hfit
    have hw' : opWidth OpGetBuiltin = 1 := rfl
    rw [hw'] at h1 hfit
    exact xs_execGetBuiltin h1
  rw [if_neg hc]; clear hc
  by_cases hc : (b.toNat == OpClosure) = true
  · rw [if_pos hc]
    have e : b.toNat = OpClosure := eq_of_beq hc
    have h1 := hn (by rw [e]; decide)
    rw [e] at h1 hfit
    have hw' : opWidth OpClosure = 3 := rfl
    rw [hw'] at h1 hfit
    exact xs_execClosure h1
  rw [if_neg hc]; clear hc
  by_cases hc : (b.toNat == OpJump) = true
  · rw [if_pos hc]
    have e : b.toNat = OpJump := eq_of_beq hc
    have h1 := hn (by rw [e]; decide)
    rw [e] at h1 hfit
    have hw' : opWidth OpJump = 4 := rfl
    rw [hw'] at h1 hfit
    exact xs_execJump (by omega) (hw.jump p b hbd hop (by rw [e]; decide))
  rw [if_neg hc]; clear hc
  by_cases hc : (b.toNat == OpJumpFalsy) = true
  · rw [if_pos hc]
    have e : b.toNat = OpJumpFalsy := eq_of_beq hc
    have h1 := hn (by rw [e]; decide)
    rw [e] at h1 hfit
    have hw' : opWidth OpJumpFalsy = 4 := rfl
    rw [hw'] at h1 hfit
    exact xs_execJumpFalsy (by omega) (hw.jump p b hbd hop (by rw [e]; decide)) h1
  rw [if_neg hc]; clear hc
  by_cases hc : (b.toNat == OpGetGlobal) = true
  · rw [if_pos hc]
    have e : b.toNat = OpGetGlobal := eq_of_beq hc
    have h1 := hn (by rw [e]; decide)
    rw [e] at h1 hfit
    have hw' : opWidth OpGetGlobal = 2 := rfl
    rw [hw'] at h1 hfit
    exact xs_execGetGlobal h1
  rw [if_neg hc]; clear hc
  by_cases hc : (b.toNat == OpSetGlobal) = true
  · rw [if_pos hc]
    have e : b.toNat = OpSetGlobal := eq_of_beq hc
    have h1 := hn (by rw [e]; decide)
    rw [e] at h1 hfit
    have hw' : opWidth OpSetGlobal = 2 := rfl
    rw [hw'] at h1 hfit
    exact xs_execSetGlobal h1
  rw [if_neg hc]; clear hc
  by_cases hc : (b.toNat == OpArray) = true
  · rw [if_pos hc]
    have e : b.toNat = OpArray := eq_of_beq hc
    have h1 := hn (by rw [e]; decide)
    rw [e] at h1 hfit
    have hw' : opWidth OpArray = 2 := rfl
    rw [hw'] at h1 hfit
    exact xs_execArray h1
  rw [if_neg hc]; clear hc
  by_cases hc : (b.toNat == OpMap) = true
  · rw [if_pos hc]
    have e : b.toNat = OpMap := eq_of_beq hc
    have h1 := hn (by rw [e]; decide)
    rw [e] at h1 hfit
    have hw' : opWidth OpMap = 2 := rfl
    rw [hw'] at h1 hfit
    exact xs_execMap h1
  rw [if_neg hc]; clear hc
  by_cases hc : (b.toNat == OpGetIndex) = true
  · rw [if_pos hc]
    have e : b.toNat = OpGetIndex := eq_of_beq hc
    have h1 := hn (by rw [e]; decide)
    rw [e] at h1 hfit
    have hw' : opWidth OpGetIndex = 1 := rfl
    rw [hw'] at h1 hfit
    exact xs_execGetIndex h1
  rw [if_neg hc]; clear hc
  by_cases hc : (b.toNat == OpSetIndex) = true
  · rw [if_pos hc]
    have e : b.toNat = OpSetIndex := eq_of_beq hc
    have h1 := hn (by rw [e]; decide)
    rw [e] at h1 hfit
    have hw' : opWidth OpSetIndex = 0 := rfl
    rw [hw'] at h1 hfit
    exact xs_execSetIndex h1
  rw [if_neg hc]; clear hc
  by_cases hc : (b.toNat == OpSliceIndex) = true
  · rw [if_pos hc]
    have e : b.toNat = OpSliceIndex := eq_of_beq hc
    have h1 := hn (by rw [e]; decide)
    rw [e] at h1 hfit
    have hw' : opWidth OpSliceIndex = 0 := rfl
    rw [hw'] at h1 hfit
    exact xs_execSliceIndex h1
  rw [if_neg hc]; clear hc
  by_cases hc : (b.toNat == OpGetFree) = true
  · rw [if_pos hc]
    have e : b.toNat = OpGetFree := eq_of_beq hc
    have h1 := hn (by rw [e]; decide)
    rw [e] at h1 hfit
    have hw' : opWidth OpGetFree = 1 := rfl
    rw [hw'] at h1 hfit
    exact xs_execGetFree h1
  rw [if_neg hc]; clear hc
  by_cases hc : (b.toNat == OpSetFree) = true
  · rw [if_pos hc]
    have e : b.toNat = OpSetFree := eq_of_beq hc
    have h1 := hn (by rw [e]; decide)
    rw [e] at h1 hfit
    have hw' : opWidth OpSetFree = 1 := rfl
    rw [hw'] at h1 hfit
    exact xs_execSetFree h1
  rw [if_neg hc]; clear hc
  by_cases hc : (b.toNat == OpGetLocalPtr) = true
  · rw [if_pos hc]
    have e : b.toNat = OpGetLocalPtr := eq_of_beq hc
    have h1 := hn (by rw [e]; decide)
    rw [e] at h1 hfit
    have hw' : opWidth OpGetLocalPtr = 1 := rfl
    rw [hw'] at h1 hfit
    exact xs_execGetLocalPtr h1
  rw [if_neg hc]; clear hc
  by_cases hc : (b.toNat == OpGetFreePtr) = true
  · rw [if_pos hc]
    have e : b.toNat = OpGetFreePtr := eq_of_beq hc
    have h1 := hn (by rw [e]; decide)
    rw [e] at h1 hfit
    have hw' : opWidth OpGetFreePtr = 1 := rfl
    rw [hw'] at h1 hfit
    exact xs_execGetFreePtr h1
  rw [if_neg hc]; clear hc
  by_cases hc : (b.toNat == OpDefineLocal) = true
  · rw [if_pos hc]
    have e : b.toNat = OpDefineLocal := eq_of_beq hc
    have h1 := hn (by rw [e]; decide)
    rw [e] at h1 hfit
    have hw' : opWidth OpDefineLocal = 1 := rfl
    rw [hw'] at h1 hfit
    exact xs_execDefineLocal h1
  rw [if_neg hc]; clear hc
  by_cases hc : (b.toNat == OpNull) = true
  · rw [if_pos hc]
    have e : b.toNat = OpNull := eq_of_beq hc
    have h1 := hn (by rw [e]; decide)
    rw [e] at h1 hfit
    have hw' : opWidth OpNull = 0 := rfl
    rw [hw'] at h1 hfit
    exact xs_execNull h1
  rw [if_neg hc]; clear hc
  by_cases hc : (b.toNat == OpPop) = true
  · rw [if_pos hc]
    have e : b.toNat = OpPop := eq_of_beq hc
    have h1 := hn (by rw [e]; decide)
    rw [e] at h1 hfit
    have hw' : opWidth OpPop = 0 := rfl
    rw [hw'] at h1 hfit
    exact xs_execPop h1
  rw [if_neg hc]; clear hc
  by_cases hc : (b.toNat == OpIterInit) = true
  · rw [if_pos hc]
    have e : b.toNat = OpIterInit := eq_of_beq hc
    have h1 := hn (by rw [e]; decide)
    rw [e] at h1 hfit
    have hw' : opWidth OpIterInit = 0 := rfl
    rw [hw'] at h1 hfit
    exact xs_execIterInit h1
  rw [if_neg hc]; clear hc
  by_cases hc : (b.toNat == OpIterNext || b.toNat == OpIterKey || b.toNat == OpIterValue) = true
  · rw [if_pos hc]
    simp only [Bool.or_eq_true, beq_iff_eq] at hc
    rcases hc with (e | e) | e
    · have h1 := hn (by rw [e]; decide)
      rw [e] at h1 hfit
      have hw' : opWidth OpIterNext = 0 := rfl
      rw [hw'] at h1 hfit
      exact xs_execIterNext _ h1
    · have h1 := hn (by rw [e]; decide)
      rw [e] at h1 hfit
      have hw' : opWidth OpIterKey = 0 := rfl
      rw [hw'] at h1 hfit
      exact xs_execIterNext _ h1
    · have h1 := hn (by rw [e]; decide)
      rw [e] at h1 hfit
      have hw' : opWidth OpIterValue = 0 := rfl
      rw [hw'] at h1 hfit
      exact xs_execIterNext _ h1
  rw [if_neg hc]; clear hc
  by_cases hc : (b.toNat == OpLoadModule) = true
  · rw [if_pos hc]
    have e : b.toNat = OpLoadModule := eq_of_beq hc
    have h1 := hn (by rw [e]; decide)
    rw [e] at h1 hfit
    have hw' : opWidth OpLoadModule = 4 := rfl
    rw [hw'] at h1 hfit
    exact xs_execLoadModule h1
  rw [if_neg hc]; clear hc
  by_cases hc : (b.toNat == OpStoreModule) = true
  · rw [if_pos hc]
    have e : b.toNat = OpStoreModule := eq_of_beq hc
    have h1 := hn (by rw [e]; decide)
    rw [e] at h1 hfit
    have hw' : opWidth OpStoreModule = 2 := rfl
    rw [hw'] at h1 hfit
    exact xs_execStoreModule h1
  rw [if_neg hc]; clear hc
  by_cases hc : (b.toNat == OpSetupTry) = true
  · rw [if_pos hc]
    have e : b.toNat = OpSetupTry := eq_of_beq hc
    have h1 := hn (by rw [e]; decide)
    rw [e] at h1 hfit
    have hw' : opWidth OpSetupTry = 8 := rfl
    rw [hw'] at h1 hfit
    exact xs_execSetupTry (by omega) (hw.try_ p b hbd hop e) h1 
  rw [if_neg hc]; clear hc
  by_cases hc : (b.toNat == OpSetupCatch) = true
  · rw [if_pos hc]
    have e : b.toNat = OpSetupCatch := eq_of_beq hc
    have h1 := hn (by rw [e]; decide)
    rw [e] at h1 hfit
    have hw' : opWidth OpSetupCatch = 0 := rfl
    rw [hw'] at h1 hfit
    exact xs_execSetupCatch h1
  rw [if_neg hc]; clear hc
  by_cases hc : (b.toNat == OpSetupFinally) = true
  · rw [if_pos hc]
    have e : b.toNat = OpSetupFinally := eq_of_beq hc
    have h1 := hn (by rw [e]; decide)
    rw [e] at h1 hfit
    have hw' : opWidth OpSetupFinally = 0 := rfl
    rw [hw'] at h1 hfit
    exact xs_execSetupFinally h1
  rw [if_neg hc]; clear hc
  by_cases hc : (b.toNat == OpThrow) = true
  · rw [if_pos hc]
    have e : b.toNat = OpThrow := eq_of_beq hc
    have h1 := hn (by rw [e]; decide)
    rw [e] at h1 hfit
    have hw' : opWidth OpThrow = 1 := rfl
    rw [hw'] at h1 hfit
    exact xs_execThrow h1
  rw [if_neg hc]; clear hc
  by_cases hc : (b.toNat == OpFinalizer) = true
  · rw [if_pos hc]
    have e : b.toNat = OpFinalizer := eq_of_beq hc
    have h1 := hn (by rw [e]; decide)
    rw [e] at h1 hfit
    have hw' : opWidth OpFinalizer = 1 := rfl
    rw [hw'] at h1 hfit
    exact xs_execFinalizer hbd h1
  rw [if_neg hc]; clear hc
  by_cases hc : (b.toNat == OpUnary) = true
  · rw [if_pos hc]
    have e : b.toNat = OpUnary := eq_of_beq hc
    have h1 := hn (by rw [e]; decide)
    rw [e] at h1 hfit
    have hw' : opWidth OpUnary = 1 := rfl
    rw [hw'] at h1 hfit
    exact xs_execUnary F h1
  rw [if_neg hc]; clear hc
  by_cases hc : (b.toNat == OpNoOp) = true
  · rw [if_pos hc]
    have e : b.toNat = OpNoOp := eq_of_beq hc
    have h1 := hn (by rw [e]; decide)
    rw [e] at h1 hfit
    have hw' : opWidth OpNoOp = 0 := rfl
    rw [hw'] at h1 hfit
    exact xs_execNoOp h1
  rw [if_neg hc]; clear hc
  exact xs_execUnknown _

end
end UgoVerif.VM.Cfi
