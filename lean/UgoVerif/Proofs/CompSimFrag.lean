import UgoVerif.Spec.Sem
import UgoVerif.Model.Compile
import UgoVerif.Proofs.VMExec
/-
  C02, compile ⊑ Sem, first slice — the expression fragment `ExprF` and the reference
  semantics restricted to it.

  `ExprF σ e`: `e` is built from literals, parentheses, unary and binary operators, `&&`/`||`,
  `?:` and identifiers that the symbol environment `σ` (name ↦ local slot) knows.
  `evalF` is `Sem.evalExpr` written for this fragment directly in the VM model's monad `M`
  (the reference interpreter threads a `SemSt` that the fragment never reads or writes);
  `evalExpr_eq_evalF` proves that the two agree on every expression of the fragment, for
  every fuel, environment and state.  The simulation proof (Proofs/CompSimExpr) works with
  `evalF`; the property theorem in Props/C02 is stated for `Sem.evalExpr`.
-/
set_option linter.unusedSimpArgs false
set_option linter.unusedVariables false
namespace UgoVerif.CompSim
open UgoVerif UgoVerif.Go UgoVerif.Ast UgoVerif.VM UgoVerif.Proofs.ModCache UgoVerif.Proofs.VMExec

/-- the expression fragment of the first slice, relative to a symbol environment -/
def ExprF (σ : String → Option Nat) : Expr → Bool
  | .int .. | .uint .. | .float .. | .char .. | .bool .. | .str .. | .undef _ => true
  | .paren _ e => ExprF σ e
  | .ident _ n => (σ n).isSome
  | .unary _ _ e => ExprF σ e
  | .binary _ _ l r => ExprF σ l && ExprF σ r
  | .cond _ c t f => ExprF σ c && ExprF σ t && ExprF σ f
  | _ => false

/-- stack slots the code of an expression of the fragment uses above the current `sp` -/
def need : Expr → Nat
  | .paren _ e => need e
  | .unary _ _ e => need e
  | .binary _ _ l r => max (need l) (need r + 1)
  | .cond _ c t f => max (need c) (max (need t) (need f))
  | _ => 1

theorem need_pos : ∀ e : Expr, 1 ≤ need e
  | .paren _ e => by simp only [need]; exact need_pos e
  | .unary _ _ e => by simp only [need]; exact need_pos e
  | .binary _ _ l r => by simp only [need]; omega
  | .cond _ c t f => by have := need_pos c; simp only [need]; omega
  | .int .. | .uint .. | .float .. | .char .. | .bool .. | .str .. | .undef _ | .ident .. | .array ..
  | .map .. | .index .. | .selector .. | .slice .. | .call .. | .func .. | .import_ .. => by simp [need]

/-- `raise` of the reference semantics, in `M` -/
def raiseF (e : OpErr) : M Sem.ER := do
  let a ← rtErrOfOpErr e
  pure (.thr a)

def readBoxF (a : Addr) : M V := do
  match (← heapGet a) with
  | .box v => pure v
  | _ => unsupported "sem: not a box"

/-- `Sem.evalExpr` on the fragment, in the VM model's monad -/
def evalF (F : FloatOps) : Nat → Sem.Env → Expr → M Sem.ER
  | 0, _, _ => unsupported "sem: fuel"
  | fuel+1, env, e =>
    match e with
    | .int _ v => pure (.val (.int v))
    | .uint _ v => pure (.val (.uint v))
    | .float _ v => pure (.val (.float v))
    | .char _ v => pure (.val (.char v))
    | .bool _ b => pure (.val (.bool b))
    | .str _ s => pure (.val (.str s))
    | .undef _ => pure (.val .undefined)
    | .paren _ e => evalF F fuel env e
    | .ident _ name =>
      match Sem.lookupEnv name env with
      | some a => do pure (.val (← readBoxF a))
      | none => unsupported "fragment: unbound identifier"
    | .unary _ tok x => do
      match (← evalF F fuel env x) with
      | .thr e => pure (.thr e)
      | .val v =>
        match (← vUnary F (tokOfNat tok) v) with
        | .ok v' => pure (.val v')
        | .error e => raiseF e
    | .binary _ tok l r => do
      match (← evalF F fuel env l) with
      | .thr e => pure (.thr e)
      | .val lv =>
        if tok == tLAnd then
          if (← isFalsy lv) then pure (.val lv) else evalF F fuel env r
        else if tok == tLOr then
          if (← isFalsy lv) then evalF F fuel env r else pure (.val lv)
        else
          match (← evalF F fuel env r) with
          | .thr e => pure (.thr e)
          | .val rv =>
            if tok == tEqual then pure (.val (.bool (← vEqual F lv rv)))
            else if tok == tNotEqual then pure (.val (.bool (!(← vEqual F lv rv))))
            else
              match (← vBinaryOp F (tokOfNat tok) lv rv) with
              | .ok v => pure (.val v)
              | .error e => raiseF e
    | .cond _ c t f => do
      match (← evalF F fuel env c) with
      | .thr e => pure (.thr e)
      | .val cv => if (← isFalsy cv) then evalF F fuel env f else evalF F fuel env t
    | _ => unsupported "fragment: expression form"

/-- pair a result with the (unchanged) interpreter state -/
def withSt {α} (ss : Sem.SemSt) (m : M α) : M (α × Sem.SemSt) := do let a ← m; pure (a, ss)

theorem run_liftM {α} (m : M α) (ss : Sem.SemSt) : (Sem.liftM m).run ss = withSt ss m := rfl

theorem run_pure {α} (a : α) (ss : Sem.SemSt) : (pure a : Sem.SM α).run ss = withSt ss (pure a) := by
  simp [withSt]

theorem run_bind_withSt {α β} (x : Sem.SM α) (m : M α) (f : α → Sem.SM β) (ss : Sem.SemSt)
    (h : x.run ss = withSt ss m) : (x >>= f).run ss = (do let a ← m; (f a).run ss) := by
  rw [StateT.run_bind, h]
  simp [withSt]

theorem withSt_bind {α β} (m : M α) (f : α → M β) (ss : Sem.SemSt) :
    withSt ss (m >>= f) = (do let a ← m; withSt ss (f a)) := by
  simp [withSt]

theorem run_raise (e : OpErr) (ss : Sem.SemSt) : (Sem.raise e).run ss = withSt ss (raiseF e) := by
  unfold Sem.raise raiseF
  rw [run_bind_withSt _ _ _ _ (run_liftM _ _), withSt_bind]
  simp [withSt, run_pure]

theorem run_readBox (a : Addr) (ss : Sem.SemSt) : (Sem.readBox a).run ss = withSt ss (readBoxF a) := by
  unfold Sem.readBox readBoxF
  rw [run_bind_withSt _ _ _ _ (run_liftM _ _), withSt_bind]
  congr 1; funext c
  cases c <;> simp [withSt, run_liftM]

/-- on the fragment, with every identifier of `σ` bound in the environment, the reference
    interpreter is `evalF` and leaves its own state alone -/
theorem evalExpr_eq_evalF (F : FloatOps) (σ : String → Option Nat) (env : Sem.Env)
    (henv : ∀ n, (σ n).isSome → (Sem.lookupEnv n env).isSome) :
    ∀ (fuel : Nat) (e : Expr), ExprF σ e = true → ∀ ss : Sem.SemSt,
      (Sem.evalExpr F fuel env e).run ss = withSt ss (evalF F fuel env e) := by
  intro fuel
  induction fuel with
  | zero =>
    intro e _ ss
    cases e <;> (rw [Sem.evalExpr]; simp only [evalF]; rw [run_liftM])
  | succ fuel ih =>
    intro e hF ss
    cases e with
    | int p v => rw [Sem.evalExpr]; simp only [evalF]; exact run_pure _ _
    | uint p v => rw [Sem.evalExpr]; simp only [evalF]; exact run_pure _ _
    | float p v => rw [Sem.evalExpr]; simp only [evalF]; exact run_pure _ _
    | char p v => rw [Sem.evalExpr]; simp only [evalF]; exact run_pure _ _
    | bool p v => rw [Sem.evalExpr]; simp only [evalF]; exact run_pure _ _
    | str p v => rw [Sem.evalExpr]; simp only [evalF]; exact run_pure _ _
    | undef p => rw [Sem.evalExpr]; simp only [evalF]; exact run_pure _ _
    | paren p e =>
      rw [Sem.evalExpr]; simp only [evalF]
      exact ih e (by simpa [ExprF] using hF) ss
    | ident p name =>
      rw [Sem.evalExpr]; simp only [evalF]
      have := henv name (by simpa [ExprF] using hF)
      cases hl : Sem.lookupEnv name env with
      | none => simp [hl] at this
      | some a =>
        simp only []
        rw [run_bind_withSt _ _ _ _ (run_readBox _ _), withSt_bind]
        simp [withSt, run_pure]
    | unary p tok x =>
      rw [Sem.evalExpr]; simp only [evalF]
      rw [run_bind_withSt _ _ _ _ (ih x (by simpa [ExprF] using hF) ss), withSt_bind]
      congr 1; funext r
      cases r with
      | thr a => simp [withSt, run_pure]
      | val v =>
        simp only []
        rw [run_bind_withSt _ _ _ _ (run_liftM _ _), withSt_bind]
        congr 1; funext r
        cases r <;> simp [withSt, run_pure, run_raise]
    | binary p tok l r =>
      simp only [ExprF, Bool.and_eq_true] at hF
      rw [Sem.evalExpr]; simp only [evalF]
      rw [run_bind_withSt _ _ _ _ (ih l hF.1 ss), withSt_bind]
      congr 1; funext r1
      cases r1 with
      | thr a => simp [withSt, run_pure]
      | val lv =>
        simp only []
        split
        · rw [run_bind_withSt _ _ _ _ (run_liftM _ _), withSt_bind]
          congr 1; funext b
          cases b <;> simp [withSt, run_pure, ih r hF.2 ss]
        · split
          · rw [run_bind_withSt _ _ _ _ (run_liftM _ _), withSt_bind]
            congr 1; funext b
            cases b <;> simp [withSt, run_pure, ih r hF.2 ss]
          · rw [run_bind_withSt _ _ _ _ (ih r hF.2 ss), withSt_bind]
            congr 1; funext r2
            cases r2 with
            | thr a => simp [withSt, run_pure]
            | val rv =>
              simp only []
              split
              · rw [run_bind_withSt _ _ _ _ (run_liftM _ _), withSt_bind]
                simp [withSt, run_pure]
              · split
                · rw [run_bind_withSt _ _ _ _ (run_liftM _ _), withSt_bind]
                  simp [withSt, run_pure]
                · rw [run_bind_withSt _ _ _ _ (run_liftM _ _), withSt_bind]
                  congr 1; funext r3
                  cases r3 <;> simp [withSt, run_pure, run_raise]
    | cond p c t f =>
      simp only [ExprF, Bool.and_eq_true] at hF
      rw [Sem.evalExpr]; simp only [evalF]
      rw [run_bind_withSt _ _ _ _ (ih c hF.1.1 ss), withSt_bind]
      congr 1; funext r1
      cases r1 with
      | thr a => simp [withSt, run_pure]
      | val cv =>
        simp only []
        rw [run_bind_withSt _ _ _ _ (run_liftM _ _), withSt_bind]
        congr 1; funext b
        cases b <;> simp [withSt, ih t hF.1.2 ss, ih f hF.2 ss]
    | _ => simp [ExprF] at hF

end UgoVerif.CompSim
