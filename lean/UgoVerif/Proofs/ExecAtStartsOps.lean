import UgoVerif.Proofs.ExecAtStartsThrow
/-
  Control-flow integrity, part 3: one instruction.
  `OpSpec`: from the instruction context `CtxI code p` (`p` = offset of the opcode byte, an
  instruction start of `code`; `ip = p`), an opcode function ends
    * with `continue` in a `Good` state (the next fetch position is an instruction start),
    * or with `return` / a Go panic / outside the model in a `Safe` state.
  Straight-line opcodes advance `ip` by the operand width of the opcode (`hnext`: the offset behind the
  operands is an instruction start, by `WfCode.next`); jumps read their target from the operand
  bytes (`WfCode.jump`); SETUPTRY stores its operands in a handler (`WfCode.try_`); CALL enters a
  function at offset 0 or, for a builtin, skips its operands; RETURN resumes behind the operands of
  the caller's CALL; errors go to `throw`.
-/
namespace UgoVerif.VM.Cfi
open UgoVerif UgoVerif.Go
open UgoVerif.Compile (Walk Bd readBE opWidth)

/-- what an opcode function leaves -/
@[reducible] def StepQ : Ctl → State → Prop := fun r s => Safe s ∧ (r = .next → Good s)

section
variable {code : Code} {iv : Int}

theorem tq_next {n : Nat} (hbd : Bd code.insts n) (hv : iv + 1 = (n : Int)) :
    Tq (CtxI code iv) StepQ (pure Ctl.next) :=
  Tq.pure (fun _ h => ⟨h.safe, fun _ => h.good hbd hv⟩)

theorem tq_ret : Tq (CtxI code iv) StepQ (pure Ctl.ret) :=
  Tq.pure (fun _ h => ⟨h.safe, fun e => by cases e⟩)

theorem tq_failWith (e : OpErr) : Tq (CtxI code iv) StepQ (failWith e) := by
  unfold failWith throwGenErr
  simp only [bind_assoc]
  refine Tq.bind_keeps (xk_rtErrOfOpErr e) (fun _ h => h.safe) (fun ra => ?_)
  refine Tq.bind_keeps xk_throwFuel (fun _ h => h.safe) (fun n => ?_)
  refine Tq.bind ((tq_throwF n ra).pre (fun _ h => h.safe)) (fun r => ?_)
  cases r with
  | none => simp only [pure_bind]; exact Tq.pure (fun s h => ⟨h.1, fun _ => h.2 rfl⟩)
  | some a =>
    simp only [pure_bind]
    refine Tq.bind_keeps (Keeps.modS (fun _ h => ⟨h.1, fun e => by cases e⟩)) (fun _ h => h.1) (fun _ => ?_)
    exact Tq.pure (fun s h => ⟨h.1, fun e => by cases e⟩)

/-! ### the frame push of a call -/

/-- `fa` is a function cell -/
@[reducible] def HasFn (fa : Addr) (s : State) : Prop := ∃ (c : Nat) (fr : Option (List Addr)), s.heap[fa]? = some (Cell.fn c fr)

/-- the context of `xOpCallCompiled`: the callee is a function cell -/
@[reducible] def CtxH (fa : Addr) (code : Code) (v : Int) (s : State) : Prop := CtxI code v s ∧ HasFn fa s

/-- what a call leaves: entered (or skipped: builtin) — at an instruction boundary; an error
    returned — still in the context of the CALL -/
@[reducible] def CallQ (code : Code) (p : Int) : Except OpErr Unit → State → Prop := fun r s =>
  match r with
  | .ok _ => Good s
  | .error _ => CtxI code p s

theorem tq_callTail (fa : Addr) (free : Option (List Addr)) (bp nl : Int) {p : Nat} (hnext : Bd code.insts (p + 3)) :
    Tq (CtxH fa code p) (CallQ code p) (callTail fa free bp p nl) := by
  apply Tq.intro'; intro s hs
  obtain ⟨hctx, c', fr', hfn⟩ := hs
  rw [exec_callTail]
  by_cases h1 : s.frameIndex + 1 > (frameSize : Int) - 1
  · rw [if_pos h1]; exact hctx
  · rw [if_neg h1]
    by_cases h2 : (decide (s.frameIndex < 0) || decide (s.frameIndex ≥ (frameSize : Int))) = true
    · rw [if_pos h2]; exact hctx.safe
    · rw [if_neg h2]
      simp only [Bool.or_eq_true, decide_eq_true_eq, not_or, Int.not_lt, ge_iff_le, Int.not_le] at h2
      obtain ⟨fa0, c0, fr0, g1, g2, g3, g4⟩ := hctx.cur
      obtain ⟨⟨k1, k2, k3, k4⟩, _, k5⟩ := hctx
      have hk : s.frameIndex.toNat = s.curFrame + 1 := by omega
      have hcl : s.curFrame < s.frames.size := by rw [k3]; simp only [frameSize] at h2 ⊢; omega
      have hfl : s.frameIndex.toNat < s.frames.size := by rw [k3]; simp only [frameSize] at h2 ⊢; omega
      have hwf : WfCode (s.codes[c']!) := k1 fa c' fr' hfn
      refine ⟨s.codes[c']!, ⟨⟨k1, ?_, ?_, ?_⟩, ⟨fa, c', fr', ?_, hfn, rfl⟩, rfl⟩, (by show (0 : Int) ≤ -1 + 1; decide), hwf.bd0⟩
      · show ((s.frameIndex.toNat : Nat) : Int) + 1 = s.frameIndex + 1
        omega
      · show ((s.frames.modify s.curFrame _).modify s.frameIndex.toNat (enterF fa free bp)).size = frameSize
        simpa using k3
      · intro i
        show FrOK s.heap s.codes (i < s.frameIndex.toNat)
          (((s.frames.modify s.curFrame fun f => { f with ip := (p : Int) + 2 }).modify s.frameIndex.toNat (enterF fa free bp))[i]!)
        by_cases hic : i = s.curFrame
        · subst hic
          rw [dm_c _ _ _ _ _ hcl (by omega)]
          refine .inr ⟨fa0, c0, fr0, g1, g2, by rw [g3]; exact g4, fun _ => ?_⟩
          show 0 ≤ (p : Int) + 2 + 1 ∧ Bd (s.codes[c0]!).insts ((p : Int) + 2 + 1).toNat
          have : ((p : Int) + 2 + 1).toNat = p + 3 := by omega
          rw [this, g3]
          exact ⟨by omega, hnext⟩
        · by_cases hif : i = s.frameIndex.toNat
          · subst hif
            rw [dm_at _ _ _ _ _ hfl (by omega)]
            exact .inr ⟨fa, c', fr', rfl, hfn, (fun hs hhs => by cases hhs), fun hlt => absurd hlt (Nat.lt_irrefl _)⟩
          · rw [dm_other _ _ _ _ _ _ (fun e => hic e.symm) (fun e => hif e.symm)]
            exact (k4 i).mono (fun _ _ _ h => h) (fun hlt => by omega)
      · show (((s.frames.modify s.curFrame fun f => { f with ip := (p : Int) + 2 }).modify s.frameIndex.toNat (enterF fa free bp))[s.frameIndex.toNat]!).fn = some fa
        rw [dm_at _ _ _ _ _ hfl (by omega)]
        rfl

/-! ### the frame pop of a return -/

theorem tq_retTail : Tq Safe StepQ retTail := by
  apply Tq.intro'; intro s hs
  rw [exec_retTail]
  by_cases h1 : (s.frameIndex == 1) = true
  · rw [if_pos h1]; exact ⟨hs, fun e => by cases e⟩
  · rw [if_neg h1]
    obtain ⟨k1, k2, k3, k4⟩ := hs
    have hclr : ∀ b : Nat → Prop, (∀ i, b i → i < s.curFrame) →
        ∀ i, FrOK s.heap s.codes (b i) ((s.frames.modify s.curFrame clearF)[i]!) := by
      intro b hb i
      rw [getElem!_modify]
      split
      · exact .inl ⟨rfl, rfl⟩
      · exact (k4 i).mono (fun _ _ _ h => h) (hb i)
    by_cases h2 : (decide (s.frameIndex - 2 < 0) || decide (s.frameIndex - 2 ≥ (frameSize : Int))) = true
    · rw [if_pos h2]
      exact ⟨k1, k2, by simpa using k3, hclr _ (fun _ h => h)⟩
    · rw [if_neg h2]
      simp only [Bool.or_eq_true, decide_eq_true_eq, not_or, Int.not_lt, ge_iff_le, Int.not_le] at h2
      have hpop : Safe (popped s) := by
        refine ⟨k1, ?_, by simpa [popped] using k3, ?_⟩
        · show (((s.frameIndex - 2).toNat : Nat) : Int) + 1 = s.frameIndex - 1
          omega
        · exact hclr (fun i => i < (s.frameIndex - 2).toNat) (fun i h => by omega)
      have hne : ¬ (s.curFrame = (s.frameIndex - 2).toNat ∧ (s.frameIndex - 2).toNat < s.frames.size) := by omega
      have hpar : (s.frames.modify s.curFrame clearF)[(s.frameIndex - 2).toNat]! = s.frames[(s.frameIndex - 2).toNat]! := by
        rw [getElem!_modify, if_neg hne]
      rw [hpar]
      cases hfn : (s.frames[(s.frameIndex - 2).toNat]!).fn with
      | none => exact hpop
      | some a =>
        refine ⟨hpop, fun _ => ?_⟩
        rcases k4 (s.frameIndex - 2).toNat with h' | ⟨fa, c, fr, g1, g2, g3, g4⟩
        · rw [hfn] at h'; cases h'.1
        · obtain ⟨g5, g6⟩ := g4 (by omega)
          have hip : (popped s).ip = (s.frames[(s.frameIndex - 2).toNat]!).ip := by
            show ((s.frames.modify s.curFrame clearF)[(s.frameIndex - 2).toNat]!).ip = _
            rw [hpar]
          refine ⟨s.codes[c]!, ⟨hpop, ⟨fa, c, fr, ?_, g2, rfl⟩, rfl⟩, by rw [hip]; exact g5, by rw [hip]; exact g6⟩
          show ((s.frames.modify s.curFrame clearF)[(s.frameIndex - 2).toNat]!).fn = some fa
          rw [hpar]; exact g1

end

/-! ### the tactic for opcode bodies -/

theorem Tq.bind_keepsI {α β} {code : Code} {v : Int} {Q : α → State → Prop} {m : M β} {f : β → M α}
    (hm : ∀ iv, Keeps (CtxI code iv) m) (hf : ∀ b, Tq (CtxI code v) Q (f b)) : Tq (CtxI code v) Q (m >>= f) :=
  Tq.bind_keeps (hm v) (fun _ h => h.safe) hf

theorem tq_callOk {code : Code} {iv p : Int} {n : Nat} (hbd : Bd code.insts n) (hv : iv + 1 = (n : Int)) :
    Tq (CtxI code iv) (CallQ code p) (pure (Except.ok ())) :=
  Tq.pure (fun _ h => h.good hbd hv)

theorem tq_callErr {code : Code} {p : Int} (e : OpErr) : Tq (CtxI code p) (CallQ code p) (pure (Except.error e)) :=
  Tq.pure (fun _ h => h)

theorem Tq.jumpTarget_bind {α} {code : Code} {p : Nat} {Q : α → State → Prop} {f : Int → M α}
    (hn : p + 4 < code.insts.size)
    (hf : Tq (CtxI code p) Q (f ((readBE code.insts (p + 1) 4 : Nat) : Int))) : Tq (CtxI code p) Q (jumpTarget >>= f) := by
  unfold jumpTarget
  simp only [bind_assoc, pure_bind]
  exact Tq.opnd4_bind 1 1 rfl (by omega) hf

theorem Tq.pre_and {α} {X : State → Prop} {P : Prop} {Q : α → State → Prop} {m : M α} (h : P → Tq X Q m) :
    Tq (fun s => X s ∧ P) Q m := by
  apply Tq.assume; intro s0 hs0
  exact (h hs0.2).pre (fun s e => by rw [e]; exact hs0.1)

theorem tq_throwNone : Tq (ThrowQ none) StepQ (pure Ctl.next) :=
  Tq.pure (fun _ h => ⟨h.1, fun _ => h.2 rfl⟩)

theorem tq_throwSome (a : Addr) (e : Option VmErr) :
    Tq (ThrowQ (some a)) StepQ (modS (fun s => { s with err := e }) >>= fun _ => pure Ctl.ret) := by
  apply Tq.intro'; intro s hs
  rw [exec_bind, exec_modS]
  exact ⟨hs.1, fun e => by cases e⟩

/-- result of the loop of `OpGetIndex`: going on in the context, or done with what `failWith` left -/
@[reducible] def LoopQ (code : Code) (v : Int) : ForInStep (Option Ctl × V × V) → State → Prop := fun r s =>
  match r with
  | .yield b => b.1 = none ∧ CtxI code v s
  | .done b => ∃ c, b.1 = some c ∧ StepQ c s

syntax "tq_prim" : tactic
macro_rules | `(tactic| tq_prim) => `(tactic| exact Tq.pure (fun _ h => ⟨rfl, h⟩))
macro_rules | `(tactic| tq_prim) => `(tactic| exact Tq.pure (fun _ h => ⟨_, rfl, h⟩))
macro_rules | `(tactic| tq_prim) => `(tactic| exact tq_throwNone)
macro_rules | `(tactic| tq_prim) => `(tactic| exact tq_throwSome _ _)
macro_rules | `(tactic| tq_prim) => `(tactic| exact Tq.panic _ (fun _ h => CtxI.safe h))
macro_rules | `(tactic| tq_prim) => `(tactic| exact Tq.unsupported _ (fun _ h => CtxI.safe h))
macro_rules | `(tactic| tq_prim) => `(tactic| exact tq_ret)
macro_rules | `(tactic| tq_prim) => `(tactic| exact tq_failWith _)
macro_rules | `(tactic| tq_prim) => `(tactic| exact tq_callErr _)
macro_rules | `(tactic| tq_prim) => `(tactic| keeps_hyp)
set_option hygiene false in
macro_rules | `(tactic| tq_prim) => `(tactic| exact tq_next htgt (by omega))
set_option hygiene false in
macro_rules | `(tactic| tq_prim) => `(tactic| exact tq_callOk hnext (by omega))
set_option hygiene false in
macro_rules | `(tactic| tq_prim) => `(tactic| exact tq_next hnext (by omega))

/-- structural decomposition of an opcode body under `CtxI code v` with postcondition `Q` -/
syntax "tqs " term:max term:max : tactic
set_option hygiene false in
macro_rules | `(tactic| tqs $v $Q) => `(tactic|
  repeat (first
    | with_reducible tq_prim
    | (refine Tq.bumpIp_bind ?_)
    | (refine Tq.setIp_bind ?_)
    | (refine Tq.jumpTarget_bind hfit ?_)
    | (refine Tq.bind_keepsI (fun iv__ => ?_) ?_; (· ckeeps (CtxI code iv__)))
    | (refine Tq.bind (tq_failWith _) (fun _ => ?_))
    | (refine Tq.bind ((tq_throwF _ _).pre (fun _ h => CtxI.safe h)) (fun r__ => ?_); cases r__ <;> dsimp only)
    | apply Tq.ite
    | ((first | lift_lets | skip); intro jp__;
       first
       | (have hjp__ : Tq (CtxI code $v) $Q jp__ := by
            (dsimp only [jp__]; tqs $v $Q)
          clear_value jp__)
       | (have hjp__ : ∀ a__, Tq (CtxI code $v) $Q (jp__ a__) := by
            (intro a__; dsimp only [jp__]; tqs $v $Q)
          clear_value jp__)
       | (have hjp__ : ∀ a__ b__, Tq (CtxI code $v) $Q (jp__ a__ b__) := by
            (intro a__ b__; dsimp only [jp__]; tqs $v $Q)
          clear_value jp__)
       | clear_value jp__)
    | intro _
    | split
    | dsimp only))

set_option maxHeartbeats 1600000
section
variable {code : Code} {p : Nat}

/-- the specification of an opcode function whose opcode byte is at `p` and whose operands are `w` bytes wide -/
abbrev OpSpec (code : Code) (p : Nat) (m : M Ctl) : Prop := Tq (CtxI code p) StepQ m

theorem xs_execConstant (hnext : Bd code.insts (p + 1 + 2)) : OpSpec code p execConstant := by
  unfold execConstant; tqs (p : Int) StepQ

theorem xs_execGetLocal (hnext : Bd code.insts (p + 1 + 1)) : OpSpec code p execGetLocal := by
  unfold execGetLocal; tqs (p : Int) StepQ

theorem xs_execSetLocal (hnext : Bd code.insts (p + 1 + 1)) : OpSpec code p execSetLocal := by
  unfold execSetLocal; tqs (p : Int) StepQ

theorem xs_execBinaryOp (F : FloatOps) (hnext : Bd code.insts (p + 1 + 1)) : OpSpec code p (execBinaryOp F) := by
  unfold execBinaryOp; tqs (p : Int) StepQ

theorem xs_execEqual (F : FloatOps) (op : Nat) (hnext : Bd code.insts (p + 1 + 0)) : OpSpec code p (execEqual F op) := by
  unfold execEqual; tqs (p : Int) StepQ

theorem xs_execTrue (hnext : Bd code.insts (p + 1 + 0)) : OpSpec code p execTrue := by
  unfold execTrue; tqs (p : Int) StepQ

theorem xs_execFalse (hnext : Bd code.insts (p + 1 + 0)) : OpSpec code p execFalse := by
  unfold execFalse; tqs (p : Int) StepQ

theorem xs_execGetBuiltin (hnext : Bd code.insts (p + 1 + 1)) : OpSpec code p execGetBuiltin := by
  unfold execGetBuiltin; tqs (p : Int) StepQ

theorem xs_execGetGlobal (hnext : Bd code.insts (p + 1 + 2)) : OpSpec code p execGetGlobal := by
  unfold execGetGlobal; tqs (p : Int) StepQ

theorem xs_execSetGlobal (hnext : Bd code.insts (p + 1 + 2)) : OpSpec code p execSetGlobal := by
  unfold execSetGlobal; tqs (p : Int) StepQ

theorem xs_execArray (hnext : Bd code.insts (p + 1 + 2)) : OpSpec code p execArray := by
  unfold execArray; tqs (p : Int) StepQ

theorem xs_execMap (hnext : Bd code.insts (p + 1 + 2)) : OpSpec code p execMap := by
  unfold execMap; tqs (p : Int) StepQ

theorem xs_execSetIndex (hnext : Bd code.insts (p + 1 + 0)) : OpSpec code p execSetIndex := by
  unfold execSetIndex; tqs (p : Int) StepQ

theorem xs_execSliceIndex (hnext : Bd code.insts (p + 1 + 0)) : OpSpec code p execSliceIndex := by
  unfold execSliceIndex; tqs (p : Int) StepQ

theorem xs_execGetFree (hnext : Bd code.insts (p + 1 + 1)) : OpSpec code p execGetFree := by
  unfold execGetFree; tqs (p : Int) StepQ

theorem xs_execSetFree (hnext : Bd code.insts (p + 1 + 1)) : OpSpec code p execSetFree := by
  unfold execSetFree; tqs (p : Int) StepQ

theorem xs_execGetLocalPtr (hnext : Bd code.insts (p + 1 + 1)) : OpSpec code p execGetLocalPtr := by
  unfold execGetLocalPtr; tqs (p : Int) StepQ

theorem xs_execGetFreePtr (hnext : Bd code.insts (p + 1 + 1)) : OpSpec code p execGetFreePtr := by
  unfold execGetFreePtr; tqs (p : Int) StepQ

theorem xs_execDefineLocal (hnext : Bd code.insts (p + 1 + 1)) : OpSpec code p execDefineLocal := by
  unfold execDefineLocal; tqs (p : Int) StepQ

theorem xs_execNull (hnext : Bd code.insts (p + 1 + 0)) : OpSpec code p execNull := by
  unfold execNull; tqs (p : Int) StepQ

theorem xs_execPop (hnext : Bd code.insts (p + 1 + 0)) : OpSpec code p execPop := by
  unfold execPop; tqs (p : Int) StepQ

theorem xs_execIterInit (hnext : Bd code.insts (p + 1 + 0)) : OpSpec code p execIterInit := by
  unfold execIterInit; tqs (p : Int) StepQ

theorem xs_execIterNext (op : Nat) (hnext : Bd code.insts (p + 1 + 0)) : OpSpec code p (execIterNext op) := by
  unfold execIterNext; tqs (p : Int) StepQ

theorem xs_execLoadModule (hnext : Bd code.insts (p + 1 + 4)) : OpSpec code p execLoadModule := by
  unfold execLoadModule; tqs (p : Int) StepQ

theorem xs_execStoreModule (hnext : Bd code.insts (p + 1 + 2)) : OpSpec code p execStoreModule := by
  unfold execStoreModule; tqs (p : Int) StepQ

theorem xs_execSetupCatch (hnext : Bd code.insts (p + 1 + 0)) : OpSpec code p execSetupCatch := by
  unfold execSetupCatch; tqs (p : Int) StepQ

theorem xs_execSetupFinally (hnext : Bd code.insts (p + 1 + 0)) : OpSpec code p execSetupFinally := by
  unfold execSetupFinally; tqs (p : Int) StepQ

theorem xs_execUnary (F : FloatOps) (hnext : Bd code.insts (p + 1 + 1)) : OpSpec code p (execUnary F) := by
  unfold execUnary; tqs (p : Int) StepQ

theorem xs_execNoOp (hnext : Bd code.insts (p + 1 + 0)) : OpSpec code p execNoOp := by
  unfold execNoOp; tqs (p : Int) StepQ

theorem xs_execUnknown (op : Nat) : OpSpec code p (execUnknown op) := by
  unfold execUnknown; tqs (p : Int) StepQ


/-! #### jumps -/

theorem xs_execJump (hfit : p + 4 < code.insts.size) (htgt : Bd code.insts (readBE code.insts (p + 1) 4)) :
    OpSpec code p execJump := by
  unfold execJump; tqs (p : Int) StepQ
theorem xs_execJumpFalsy (hfit : p + 4 < code.insts.size) (htgt : Bd code.insts (readBE code.insts (p + 1) 4))
    (hnext : Bd code.insts (p + 1 + 4)) : OpSpec code p execJumpFalsy := by
  unfold execJumpFalsy; tqs (p : Int) StepQ
theorem xs_execAndJump (hfit : p + 4 < code.insts.size) (htgt : Bd code.insts (readBE code.insts (p + 1) 4))
    (hnext : Bd code.insts (p + 1 + 4)) : OpSpec code p execAndJump := by
  unfold execAndJump; tqs (p : Int) StepQ
theorem xs_execOrJump (hfit : p + 4 < code.insts.size) (htgt : Bd code.insts (readBE code.insts (p + 1) 4))
    (hnext : Bd code.insts (p + 1 + 4)) : OpSpec code p execOrJump := by
  unfold execOrJump; tqs (p : Int) StepQ

/-! #### RETURN -/

theorem xs_execReturn : OpSpec code p execReturn := by
  rw [execReturn_eq]
  exact Tq.bind_keeps (by unfold retHead; ckeeps (CtxI code (p : Int))) (fun _ h => h.safe)
    (fun _ => tq_retTail.pre (fun _ h => h.safe))

/-! #### SETUPTRY -/

theorem hsOK_push {a : Array UInt8} {f : Frame} {h : Handler} (hh : HOK a h) (hf : HsOK a f) :
    HsOK a { f with handlers := some (h :: f.handlers.getD []) } := by
  intro hs e x hx
  have e' : hs = h :: f.handlers.getD [] := by simpa using e.symm
  subst e'
  simp only [List.mem_cons] at hx
  rcases hx with hx | hx
  · subst hx; exact hh
  · cases hfh : f.handlers with
    | none => rw [hfh] at hx; simp at hx
    | some l => rw [hfh] at hx; exact hf l hfh x (by simpa using hx)

theorem xs_execSetupTry (hfit : p + 8 < code.insts.size)
    (htry : (0 < readBE code.insts (p + 1) 4 → Bd code.insts (readBE code.insts (p + 1) 4)) ∧
      (0 < readBE code.insts (p + 5) 4 → Bd code.insts (readBE code.insts (p + 5) 4)))
    (hnext : Bd code.insts (p + 1 + 8)) : OpSpec code p execSetupTry := by
  unfold execSetupTry
  refine Tq.opnd4_bind 1 1 rfl (by omega) ?_
  refine Tq.opnd4_bind 5 5 rfl (by omega) ?_
  refine Tq.bind_keepsI (fun _ => xk_getSp) (fun sp => ?_)
  dsimp only
  refine Tq.bind_keepsI (fun _ => xk_setCurFrame _ (fun _ => rfl) (fun _ hf => hsOK_push ?_ hf)) (fun _ => ?_)
  · refine ⟨fun h0 => ?_, fun h0 => ?_, fun h0 => absurd h0 (Int.lt_irrefl 0)⟩
    · have := htry.1 (by simpa using h0); simpa using this
    · have := htry.2 (by simpa using h0); simpa using this
  · tqs (p : Int) StepQ

/-! #### FINALIZER -/

theorem tq_findFinally {iv : Int} (fuel : Nat) : ∀ upto,
    Tq (CtxI code iv) (fun pos s => CtxI code iv s ∧ (0 < pos → Bd code.insts pos.toNat)) (findFinally fuel upto) := by
  induction fuel with
  | zero => intro u; rw [findFinally]; exact Tq.unsupported _ (fun _ h => h.safe)
  | succ n ih =>
    intro u
    rw [findFinally]
    refine Tq.curFrame_bind (fun f => ?_)
    split
    · exact Tq.pure (fun _ h => ⟨h.1, fun h0 => absurd h0 (Int.lt_irrefl 0)⟩)
    · rename_i hs hhs
      dsimp only
      apply Tq.ite
      · exact Tq.pure (fun _ h => ⟨h.1, fun h0 => absurd h0 (Int.lt_irrefl 0)⟩)
      · split
        · rename_i h r
          apply Tq.ite
          · refine Tq.pre ?_ (fun _ h => h.1)
            exact Tq.bind_keepsI (fun _ => xk_popHandler) (fun _ => ih u)
          · refine Tq.pure (fun s hs => ⟨hs.1, fun hp => ?_⟩)
            obtain ⟨_, _, _, _, _, _, g4⟩ := hs.1.cur
            rw [hs.2] at g4
            exact (g4 _ hhs h (by simp)).2.1 hp
        · exact Tq.pure (fun _ h => ⟨h.1, fun h0 => absurd h0 (Int.lt_irrefl 0)⟩)

theorem xs_execFinalizer (hbd : Bd code.insts p) (hnext : Bd code.insts (p + 1 + 1)) : OpSpec code p execFinalizer := by
  unfold execFinalizer
  refine Tq.bind_keepsI (fun _ => xk_opnd1 _) (fun upto => ?_)
  refine Tq.bind_keepsI (fun _ => xk_curFrame) (fun fr => ?_)
  dsimp only
  refine Tq.bind (tq_findFinally _ _) (fun pos => ?_)
  refine Tq.pre_and (fun hb => ?_)
  apply Tq.ite_cond
  · intro _; tqs (p : Int) StepQ
  · intro hpos
    have htgt : Bd code.insts pos.toNat := hb (by omega)
    refine Tq.getIp_bind ?_
    refine Tq.bind_keepsI (fun _ => xk_getSp) (fun sp => ?_)
    refine Tq.bind_keepsI (fun _ => xk_setLast _ (fun _ h => ⟨h.1, h.2.1, fun _ => by simpa using hbd⟩)) (fun _ => ?_)
    tqs (p : Int) StepQ

/-! #### THROW -/

theorem xs_execThrow (hnext : Bd code.insts (p + 1 + 1)) : OpSpec code p execThrow := by
  unfold execThrow
  refine Tq.bind_keepsI (fun _ => xk_opnd1 _) (fun o => ?_)
  refine Tq.bumpIp_bind ?_
  apply Tq.ite
  · refine Tq.curFrame_bind (fun f => ?_)
    split
    · rename_i h hl
      split
      · refine Tq.pre ?_ (fun _ h => h.1)
        tqs ((p : Int) + 1) StepQ
      · apply Tq.ite_cond
        · intro hr
          apply Tq.assume; intro s0 hs0
          have htgt : Bd code.insts h.returnTo.toNat := by
            obtain ⟨_, _, _, _, _, _, g4⟩ := hs0.1.cur
            rw [hs0.2] at g4
            obtain ⟨_, hs', hm1, hm2⟩ := lastHandler_mem hl
            exact (g4 _ hm1 _ hm2).2.2 hr
          refine Tq.pre (X := CtxI code ((p : Int) + 1)) ?_ (fun s e => by rw [e]; exact hs0.1)
          tqs ((p : Int) + 1) StepQ
        · intro _
          refine Tq.pre ?_ (fun _ h => h.1)
          tqs ((p : Int) + 1) StepQ
    · refine Tq.pre ?_ (fun _ h => h.1)
      tqs ((p : Int) + 1) StepQ
  · tqs ((p : Int) + 1) StepQ

end
end UgoVerif.VM.Cfi
