import UgoVerif.Proofs.C08Inv
/-
  C08, shared heap segment: `Tr` lemmas for the primitives of VM/Base.lean and the structural
  tactic `trs`.
-/
set_option linter.unusedVariables false
set_option linter.unusedSimpArgs false
namespace UgoVerif.VM
open UgoVerif UgoVerif.Go

/-! ### tactic -/

/-- succeeds on goals `Tr …` only -/
elab "is_tr" : tactic => do
  let t ← Lean.Elab.Tactic.getMainTarget
  let t ← Lean.instantiateMVars t
  unless t.consumeMData.getForallBody.consumeMData.getAppFn.isConstOf ``UgoVerif.VM.Tr do throwError "not a Tr goal"

/-- when the result predicate of the goal is still unknown, choose the type-directed one -/
elab "q_default" : tactic => Lean.Elab.Tactic.withMainContext do
  let t ← Lean.Elab.Tactic.getMainTarget
  let t ← Lean.instantiateMVars t
  let t := t.consumeMData
  let args := t.getAppArgs
  unless t.getAppFn.isConstOf ``UgoVerif.VM.Tr && args.size == 5 && args[3]!.getAppFn.isMVar do
    throwError "result predicate is known"
  let α := args[2]!
  let inst ← Lean.Meta.synthInstance (← Lean.Meta.mkAppM ``UgoVerif.VM.Good #[α])
  let q ← Lean.Meta.mkAppOptM ``UgoVerif.VM.Good.good #[some α, some inst, some args[0]!]
  unless ← Lean.Meta.isDefEq args[3]! q do throwError "q_default: cannot assign"

/-- closes the goal with a local hypothesis `∀ …, Tr … (f …)` (induction hypotheses) -/
elab "tr_hyp" : tactic => do
  let g ← Lean.Elab.Tactic.getMainGoal
  g.withContext do
    for d in (← Lean.getLCtx) do
      if d.isImplementationDetail then continue
      let ty ← Lean.instantiateMVars d.type
      unless ty.consumeMData.getForallBody.consumeMData.getAppFn.isConstOf ``UgoVerif.VM.Tr do continue
      let ok ← Lean.commitWhen do
        try
          let gs ← Lean.Meta.withReducible (g.apply d.toExpr)
          pure gs.isEmpty
        catch _ => pure false
      if ok then
        Lean.Elab.Tactic.replaceMainGoal []
        return
    throwError "tr_hyp: no hypothesis applies"

syntax "good_tac" : tactic
macro_rules | `(tactic| good_tac) => `(tactic|
  first
  | trivial
  | assumption
  | (simp only [good_V, good_Frame, good_IterK, good_addrs, good_bytes, good_listV, good_kvs, good_option, good_prod, good_mprod,
       good_yield, good_done, good_except, good_unit, good_nat, good_int, good_bool, good_string, good_uint8,
       good_ctl, good_code, good_handler, good_operr, good_vmerr, good_state, good_cell, PrivV, CopyOK, GoodIterK,
       CellOK] at *
     first | trivial | assumption | omega | (simp_all; done))
  | (simp_all [PrivV, CopyOK, GoodIterK, CellOK]; done))

syntax "tr_prim" : tactic
macro_rules | `(tactic| tr_prim) => `(tactic| exact Tr.getS)
macro_rules | `(tactic| tr_prim) => `(tactic| exact Tr.get)
macro_rules | `(tactic| tr_prim) => `(tactic| tr_hyp)

syntax "trs" : tactic
set_option hygiene false in
macro_rules | `(tactic| trs) => `(tactic|
  repeat' (is_tr; first
    | with_reducible tr_prim
    | q_default
    | exact Tr.panic _
    | exact Tr.unsupported _
    | exact Tr.throw _
    | intro _
    | refine Tr.pure _ ?_
    | apply Tr.bind
    | apply Tr.ite
    | apply Tr.forIn_range (good _)
    | apply Tr.forIn_list (good _)
    | split
    | dsimp only))

/-- `trs`, then the side conditions -/
syntax "trsg" : tactic
macro_rules | `(tactic| trsg) => `(tactic| (trs; all_goals (try good_tac)))

/-! ### invariant under field updates -/

section
variable {n : Nat} {h0 : Array Cell}

theorem privV_default (n : Nat) : PrivV n (default : V) := trivial

theorem privV_get! {n : Nat} {st : Array V} (h : ∀ v ∈ st.toList, PrivV n v) (i : Nat) : PrivV n st[i]! := by
  by_cases hi : i < st.size
  · rw [getElem!_pos st i hi]; exact h _ (by simp)
  · rw [getElem!_neg st i hi]; exact privV_default n

theorem privV_set! {n : Nat} {st : Array V} (h : ∀ v ∈ st.toList, PrivV n v) (i : Nat) (x : V) (hx : PrivV n x) :
    ∀ v ∈ (st.set! i x).toList, PrivV n v := by
  intro v hv
  rw [Array.set!_eq_setIfInBounds, Array.toList_setIfInBounds] at hv
  rcases List.mem_or_eq_of_mem_set hv with h1 | h1
  · exact h v h1
  · subst h1; exact hx

theorem mem_modify {α} {l : List α} {i : Nat} {g : α → α} {a : α} (h : a ∈ l.modify i g) :
    a ∈ l ∨ ∃ b ∈ l, a = g b := by
  induction l generalizing i with
  | nil => simp at h
  | cons x xs ih =>
    cases i with
    | zero =>
      simp [List.modify_zero_cons] at h
      rcases h with h | h
      · exact Or.inr ⟨x, by simp, h⟩
      · exact Or.inl (by simp [h])
    | succ i =>
      simp [List.modify_succ_cons] at h
      rcases h with h | h
      · exact Or.inl (by simp [h])
      · rcases ih h with h | ⟨b, hb, e⟩
        · exact Or.inl (by simp [h])
        · exact Or.inr ⟨b, by simp [hb], e⟩

theorem Inv.setStack {s : State} (h : Inv n h0 s) (i : Nat) (x : V) (hx : PrivV n x) :
    Inv n h0 { s with stack := s.stack.set! i x } :=
  ⟨h.heap, privV_set! h.stack i x hx, h.globals, h.modules, h.frames,
    by rw [Array.set!_eq_setIfInBounds, Array.size_setIfInBounds]; exact h.ssize⟩

theorem Inv.modFrame {s : State} (h : Inv n h0 s) (i : Nat) (g : Frame → Frame)
    (hg : ∀ f : Frame, good n f → good n (g f)) :
    Inv n h0 { s with frames := s.frames.modify i g } := by
  refine ⟨h.heap, h.stack, h.globals, h.modules, ?_, h.ssize⟩
  intro f hf
  show good n f
  simp only [Array.toList_modify] at hf
  rcases mem_modify hf with h1 | ⟨b, hb, e⟩
  · exact h.frames f h1
  · subst e; exact hg b (h.frames b hb)

theorem Inv.frame! {s : State} (h : Inv n h0 s) (i : Nat) : good n s.frames[i]! := by
  by_cases hi : i < s.frames.size
  · rw [getElem!_pos s.frames i hi]; exact h.frames _ (by simp)
  · rw [getElem!_neg s.frames i hi]
    intro fr hfr
    simp [default, instInhabitedFrame, instInhabitedFrame.default] at hfr

theorem HeapOK.get {h : Array Cell} (hh : HeapOK n h0 h) {a : Nat} {c : Cell} (hc : h[a]? = some c) : CellOK n a c :=
  hh.cells a c hc

theorem HeapOK.push {h : Array Cell} (hh : HeapOK n h0 h) (c : Cell) (hc : CellOK n h.size c) :
    HeapOK n h0 (h.push c) := by
  refine ⟨by simp; exact Nat.le_succ_of_le hh.size, ?_, ?_⟩
  · intro a ha
    rw [Array.getElem?_push]
    have : a ≠ h.size := by have := hh.size; omega
    simp [this]; exact hh.low a ha
  · intro a c' hc'
    rw [Array.getElem?_push] at hc'
    split at hc'
    · rename_i e; subst e; simp at hc'; subst hc'; exact hc
    · exact hh.cells a c' hc'

theorem HeapOK.set {h : Array Cell} (hh : HeapOK n h0 h) (a : Nat) (c : Cell) (ha : n ≤ a) (hc : CellOK n a c) :
    HeapOK n h0 (h.set! a c) := by
  rw [Array.set!_eq_setIfInBounds]
  refine ⟨by simpa using hh.size, ?_, ?_⟩
  · intro a' ha'
    rw [Array.getElem?_setIfInBounds]
    have : a ≠ a' := by omega
    simp [this]; exact hh.low a' ha'
  · intro a' c' hc'
    rw [Array.getElem?_setIfInBounds] at hc'
    split at hc'
    · rename_i e; subst e
      split at hc'
      · simp at hc'; subst hc'; exact hc
      · cases hc'
    · exact hh.cells a' c' hc'

theorem Inv.setHeap {s : State} (h : Inv n h0 s) (hp : Array Cell) (hh : HeapOK n h0 hp) :
    Inv n h0 { s with heap := hp } := ⟨hh, h.stack, h.globals, h.modules, h.frames, h.ssize⟩

/-! ### primitives of VM/Base.lean -/

theorem tr_stackGet (i : Int) : Tr n h0 (PrivV n) (stackGet i) := by
  apply Tr.intro'; intro s hs
  unfold stackGet
  simp only [exec_bind, exec_getS]
  split
  · exact ⟨hs, fun a ha => by simp at ha⟩
  · refine ⟨hs, fun a ha => ?_⟩
    simp at ha; subst ha
    exact privV_get! hs.stack _
macro_rules | `(tactic| tr_prim) => `(tactic| exact tr_stackGet _)

theorem tr_stackSet (i : Int) (v : V) (hv : PrivV n v) : Tr n h0 (good n) (stackSet i v) := by
  apply Tr.intro'; intro s hs
  unfold stackSet
  split
  · exact ⟨hs, fun _ _ => trivial⟩
  · exact ⟨hs.setStack _ _ hv, fun _ _ => trivial⟩
macro_rules | `(tactic| tr_prim) => `(tactic| refine tr_stackSet _ _ ?_)

theorem tr_getSp : Tr n h0 (good n) getSp := by unfold getSp; trsg
macro_rules | `(tactic| tr_prim) => `(tactic| exact tr_getSp)
theorem tr_setSp (v : Int) : Tr n h0 (good n) (setSp v) :=
  Tr.modS fun s h => ⟨h.heap, h.stack, h.globals, h.modules, h.frames, h.ssize⟩
macro_rules | `(tactic| tr_prim) => `(tactic| exact tr_setSp _)
theorem tr_getIp : Tr n h0 (good n) getIp := by unfold getIp; trsg
macro_rules | `(tactic| tr_prim) => `(tactic| exact tr_getIp)
theorem tr_setIp (v : Int) : Tr n h0 (good n) (setIp v) :=
  Tr.modS fun s h => ⟨h.heap, h.stack, h.globals, h.modules, h.frames, h.ssize⟩
macro_rules | `(tactic| tr_prim) => `(tactic| exact tr_setIp _)

theorem tr_curFrame : Tr n h0 (good n) curFrame := by
  apply Tr.intro'; intro s hs
  refine ⟨hs, fun a ha => ?_⟩
  have : a = s.frames[s.curFrame]! := by
    have : exec curFrame s = (.ok (s.frames[s.curFrame]!), s) := rfl
    rw [this] at ha; simpa using ha.symm
  subst this
  exact hs.frame! _
macro_rules | `(tactic| tr_prim) => `(tactic| exact tr_curFrame)

theorem tr_setCurFrame (g : Frame → Frame) (hg : ∀ f : Frame, good n f → good n (g f)) :
    Tr n h0 (good n) (setCurFrame g) :=
  Tr.modS fun s h => h.modFrame _ g hg
macro_rules | `(tactic| tr_prim) => `(tactic| refine tr_setCurFrame _ ?_)

theorem tr_heapGet (a : Addr) : Tr n h0 (CellOK n a) (heapGet a) := by
  apply Tr.intro'; intro s hs
  unfold heapGet
  simp only [exec_bind, exec_getS]
  split
  · rename_i c hc
    exact ⟨hs, fun b hb => by simp at hb; subst hb; exact hs.heap.get hc⟩
  · exact ⟨hs, fun b hb => by simp at hb⟩
macro_rules | `(tactic| tr_prim) => `(tactic| exact tr_heapGet _)

theorem tr_heapSet (a : Addr) (c : Cell) (ha : n ≤ a) (hc : CellOK n a c) : Tr n h0 (good n) (heapSet a c) :=
  Tr.modS fun s h => h.setHeap _ (h.heap.set a c ha hc)

theorem tr_heapUpd (a : Addr) (c : Cell) (ha : n ≤ a) (hc : CellOK n a c) : Tr n h0 (good n) (heapUpd a c) := by
  unfold heapUpd
  refine Tr.bind (tr_heapGet a) (fun old _ => ?_)
  split
  · exact tr_heapSet a c ha hc
  · exact Tr.unsupported _
macro_rules | `(tactic| tr_prim) => `(tactic| refine tr_heapUpd _ _ ?_ ?_)

theorem tr_boxSet (a : Addr) (v : V) (ha : n ≤ a) (hv : PrivV n v) : Tr n h0 (good n) (boxSet a v) := by
  unfold boxSet
  refine Tr.bind (tr_heapGet a) (fun old _ => ?_)
  split
  · exact tr_heapSet a _ ha (fun _ => hv)
  · exact Tr.unsupported _
macro_rules | `(tactic| tr_prim) => `(tactic| refine tr_boxSet _ _ ?_ ?_)

theorem tr_alloc (c : Cell) (hc : ∀ a, n ≤ a → CellOK n a c) : Tr n h0 (fun a => n ≤ a) (alloc c) := by
  apply Tr.intro'; intro s hs
  have e : exec (alloc c) s = (.ok s.heap.size, { s with heap := s.heap.push c }) := rfl
  rw [e]
  exact ⟨hs.setHeap _ (hs.heap.push c (hc _ hs.heap.size)), fun a ha => by simp at ha; subst ha; exact hs.heap.size⟩
macro_rules | `(tactic| tr_prim) => `(tactic| refine tr_alloc _ ?_)

theorem tr_noteTrace (op : Nat) : Tr n h0 (good n) (noteTrace op) := by
  apply Tr.intro'; intro s hs
  simp only [noteTrace, exec_bind, exec_getS]
  split <;> exact ⟨⟨hs.heap, hs.stack, hs.globals, hs.modules, hs.frames, hs.ssize⟩, fun _ _ => trivial⟩
macro_rules | `(tactic| tr_prim) => `(tactic| exact tr_noteTrace _)

theorem tr_curCode : Tr n h0 (good n) curCode := by unfold curCode; trsg
macro_rules | `(tactic| tr_prim) => `(tactic| exact tr_curCode)
theorem tr_instAt (i : Int) : Tr n h0 (good n) (instAt i) := by unfold instAt; trsg
macro_rules | `(tactic| tr_prim) => `(tactic| exact tr_instAt _)
theorem tr_opnd1 (k : Int) : Tr n h0 (good n) (opnd1 k) := by unfold opnd1; trsg
macro_rules | `(tactic| tr_prim) => `(tactic| exact tr_opnd1 _)
theorem tr_opnd2 (k : Int) : Tr n h0 (good n) (opnd2 k) := by unfold opnd2; trsg
macro_rules | `(tactic| tr_prim) => `(tactic| exact tr_opnd2 _)
theorem tr_opnd4 (k : Int) : Tr n h0 (good n) (opnd4 k) := by unfold opnd4; trsg
macro_rules | `(tactic| tr_prim) => `(tactic| exact tr_opnd4 _)
/-- constants are NOT known to be private (a builtin-module constant is a shared map) -/
theorem tr_constAt (i : Nat) : Tr n h0 (fun _ => True) (constAt i) := by unfold constAt; trsg
macro_rules | `(tactic| tr_prim) => `(tactic| exact tr_constAt _)

theorem tr_arrElems (a : Addr) (off len : Nat) :
    Tr n h0 (fun xs => n ≤ a → ∀ x ∈ xs, PrivV n x) (arrElems a off len) := by
  unfold arrElems
  refine Tr.bind (tr_heapGet a) (fun c hc => ?_)
  split
  · refine Tr.pure _ ?_
    intro ha x hx
    exact (hc x (List.mem_of_mem_drop (List.mem_of_mem_take hx))).2 ha
  · exact Tr.unsupported _
macro_rules | `(tactic| tr_prim) => `(tactic| exact tr_arrElems _ _ _)

theorem tr_mapEntries (a : Addr) :
    Tr n h0 (fun kvs => n ≤ a → ∀ p ∈ kvs, PrivV n p.2) (mapEntries a) := by
  unfold mapEntries
  refine Tr.bind (tr_heapGet a) (fun c hc => ?_)
  split
  · exact Tr.pure _ (fun ha p hp => (hc p hp).2 ha)
  · exact Tr.unsupported _
macro_rules | `(tactic| tr_prim) => `(tactic| exact tr_mapEntries _)

end
end UgoVerif.VM
