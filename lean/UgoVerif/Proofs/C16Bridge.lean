import UgoVerif.Proofs.SrcMapCov
import UgoVerif.Model.Eval
import UgoVerif.Model.Trace
/-
  C16: the links between the models.
  * the source map of a compile-model function as the `SourceMap` of the position model, and
    `SourcePos` at an offset that has its own entry;
  * the code memory of the VM state a compiled bytecode is loaded into (`Model/Eval.setBytecode`):
    one code per function constant, in order, then the main function.
-/
namespace UgoVerif.Proofs.C16
open UgoVerif UgoVerif.Go UgoVerif.Model UgoVerif.Compile UgoVerif.VM UgoVerif.Eval

/-! ### source maps -/

/-- `CompiledFunction.SourceMap` of a compile-model function -/
def smOf (f : CFn) : SourceMap := f.sourceMap.map fun kv => ((kv.1 : Int), (kv.2 : Int))

theorem smLookup_map : ∀ (m : List (Nat × Nat)) (k : Nat),
    smLookup (m.map fun kv => ((kv.1 : Int), (kv.2 : Int))) (k : Int) = (smGet m k).map Int.ofNat
  | [], _ => rfl
  | (k', v) :: r, k => by
    simp only [List.map_cons, smLookup, smGet]
    by_cases h : k' = k
    · simp [h]
    · have : ¬ ((k' : Int) = (k : Int)) := by omega
      simp only [this, h, if_false]
      exact smLookup_map r k

/-- an offset with its own entry: `SourcePos` answers that entry (no search) -/
theorem sourcePos_entry (f : CFn) (k v : Nat) (h : smGet f.sourceMap k = some v) :
    sourcePos (smOf f) (k : Int) = (v : Int) := by
  have hl := smLookup_map f.sourceMap k
  rw [h] at hl
  simp only [sourcePos, smOf]
  rw [if_pos (by omega)]
  cases k with
  | zero =>
    simp only [Int.toNat_natCast, sourcePosN]
    have : ((0 : Nat) : Int) = 0 := rfl
    rw [this] at hl
    rw [hl]; rfl
  | succ n =>
    simp only [Int.toNat_natCast, sourcePosN]
    have : ((n + 1 : Nat) : Int) = (n : Int) + 1 := by omega
    rw [this] at hl
    rw [hl]; rfl

/-! ### the loader -/

/-- the compiled functions among the constants, in order -/
def fnsOf : List Const → List CFn
  | [] => []
  | .fn f :: r => f :: fnsOf r
  | .val _ :: r => fnsOf r

theorem mem_fnsOf {f : CFn} : ∀ {cs : List Const}, f ∈ fnsOf cs → Const.fn f ∈ cs
  | [], h => by simp [fnsOf] at h
  | .fn g :: r, h => by
    simp only [fnsOf, List.mem_cons] at h
    rcases h with h | h
    · subst h; simp
    · exact List.mem_cons_of_mem _ (mem_fnsOf h)
  | .val _ :: r, h => by
    simp only [fnsOf] at h
    exact List.mem_cons_of_mem _ (mem_fnsOf h)

/-- the compiled functions of a bytecode in the order the loader numbers their codes: the function
    constants, then the main function -/
def fnList (bc : Compile.Bytecode) : List CFn := fnsOf bc.constants.toList ++ [bc.main]

theorem materialize_codes : ∀ (cs : List Const) (acc : Array V × State),
    (cs.foldl (fun (acc : Array V × State) c =>
      match c with
      | .val v => (acc.1.push (scalarOfCVal v), acc.2)
      | .fn f => let (v, vm') := allocFn acc.2 f; (acc.1.push v, vm')) acc).2.codes.toList
      = acc.2.codes.toList ++ (fnsOf cs).map codeOfCFn
  | [], acc => by simp [fnsOf]
  | .val v :: r, acc => by
    simp only [List.foldl_cons, fnsOf]
    rw [materialize_codes r]
  | .fn f :: r, acc => by
    simp only [List.foldl_cons, fnsOf]
    rw [materialize_codes r]
    simp [allocFn]

theorem allocFn_codes (vm : State) (f : CFn) : (allocFn vm f).2.codes = vm.codes.push (codeOfCFn f) := rfl

theorem materialize_codes' (vm : State) (cs : List Const) :
    (materialize vm cs).2.codes.toList = vm.codes.toList ++ (fnsOf cs).map codeOfCFn :=
  materialize_codes cs (#[], vm)

/-- the code memory of the VM a compiled bytecode is loaded into (`NewVM(bc)` = `SetBytecode` on a
    new VM; `Props/C04.load_compiled` shows the serializer's loader builds the same state) -/
theorem load_codes (bc : Compile.Bytecode) :
    (Eval.setBytecode (newState #[] #[] #[] 0 0) bc.main 0 bc.constants #[]).codes.toList
      = (fnList bc).map codeOfCFn := by
  unfold Eval.setBytecode
  simp only [List.drop_zero]
  show ((allocFn (materialize _ bc.constants.toList).2 bc.main).2.codes).toList = _
  rw [allocFn_codes, Array.toList_push, materialize_codes']
  simp [fnList, newState]

theorem materialize_frames : ∀ (cs : List Const) (acc : Array V × State),
    (cs.foldl (fun (acc : Array V × State) c =>
      match c with
      | .val v => (acc.1.push (scalarOfCVal v), acc.2)
      | .fn f => let (v, vm') := allocFn acc.2 f; (acc.1.push v, vm')) acc).2.frames = acc.2.frames
  | [], acc => rfl
  | .val v :: r, acc => by
    simp only [List.foldl_cons]
    rw [materialize_frames r]
  | .fn f :: r, acc => by
    simp only [List.foldl_cons]
    rw [materialize_frames r]
    rfl

/-- the loader leaves the frame array of the new VM alone -/
theorem load_frames (bc : Compile.Bytecode) :
    (Eval.setBytecode (newState #[] #[] #[] 0 0) bc.main 0 bc.constants #[]).frames.size = frameSize := by
  unfold Eval.setBytecode
  simp only [List.drop_zero]
  show ((allocFn (materialize _ bc.constants.toList).2 bc.main).2.frames).size = _
  have : (allocFn (materialize (newState #[] #[] #[] 0 0) bc.constants.toList).2 bc.main).2.frames
      = (materialize (newState #[] #[] #[] 0 0) bc.constants.toList).2.frames := rfl
  have h3 : (materialize (newState #[] #[] #[] 0 0) bc.constants.toList).2.frames
      = (newState #[] #[] #[] 0 0).frames :=
    materialize_frames bc.constants.toList (#[], newState #[] #[] #[] 0 0)
  rw [this, h3]
  simp [newState, emptyFrames]

/-- every function the loader gives a code to satisfies what `compileFile_cov` proves -/
theorem fnList_cov (lab : Nat → Nat) (builtins : List (String × Nat)) (disabled : List String) (file : List Ast.Stmt)
    (hl : Ast.labSs lab file = true) (bc : Compile.Bytecode) (h : compileFile builtins disabled file = .ok bc) :
    ∀ f ∈ fnList bc, FnCov lab f := by
  obtain ⟨h1, h2⟩ := compileFile_cov lab builtins disabled file hl bc h
  intro f hf
  simp only [fnList, List.mem_append, List.mem_singleton] at hf
  rcases hf with hf | hf
  · exact h2 f (mem_fnsOf hf)
  · subst hf; exact h1

end UgoVerif.Proofs.C16
