import UgoVerif.Props.C11
import UgoVerif.Proofs.RelocRel
/-
  The instance of `CodeRel` (Proofs/RelocRel.lean) for the version-1 → current converter
  `Model/V1.convFn`: a well-formed version-1 function and its conversion are related by the
  offset map `newOff ins`.
-/
set_option linter.unusedVariables false
set_option linter.unusedSimpArgs false
namespace UgoVerif.VM.Reloc
open UgoVerif UgoVerif.Go UgoVerif.VM
open UgoVerif.Model.Bytecode UgoVerif.Model.V1 UgoVerif.Proofs.Bytecode UgoVerif.Proofs.V1

/-! ### bytes -/

theorem or_shl (i a x : Nat) (hx : x < 2 ^ i) : x ||| a <<< i = a * 2 ^ i + x := by
  rw [Nat.or_comm, ← Nat.shiftLeft_add_eq_or_of_lt hx, Nat.shiftLeft_eq]

theorem rd2_val (a b : UInt8) : b.toNat ||| a.toNat <<< 8 = beVal [a, b] := by
  have hb := b.toNat_lt
  rw [or_shl 8 _ _ (by simpa using hb)]
  simp [beVal]

theorem rd4_val (a b c d : UInt8) :
    d.toNat ||| c.toNat <<< 8 ||| b.toNat <<< 16 ||| a.toNat <<< 24 = beVal [a, b, c, d] := by
  have ha := a.toNat_lt
  have hb := b.toNat_lt
  have hc := c.toNat_lt
  have hd := d.toNat_lt
  rw [or_shl 8 _ _ (by omega)]
  rw [or_shl 16 _ _ (by omega)]
  rw [or_shl 24 _ _ (by omega)]
  simp [beVal]
  omega

theorem foldl_be_inj : ∀ (as bs : Bytes) (x y : Nat), as.length = bs.length →
    as.foldl (fun acc b => acc * 256 + b.toNat) x = bs.foldl (fun acc b => acc * 256 + b.toNat) y →
    x = y ∧ as = bs := by
  intro as
  induction as with
  | nil =>
    intro bs x y hl h
    cases bs with
    | nil => simpa using h
    | cons b bs => simp at hl
  | cons a as ih =>
    intro bs x y hl h
    cases bs with
    | nil => simp at hl
    | cons b bs =>
      simp only [List.foldl_cons] at h
      obtain ⟨h1, h2⟩ := ih bs _ _ (by simpa using hl) h
      have ha := a.toNat_lt
      have hb := b.toNat_lt
      have : a.toNat = b.toNat := by omega
      have hab : a = b := UInt8.toNat_inj.mp this
      exact ⟨by omega, by rw [hab, h2]⟩

theorem beVal_inj (as bs : Bytes) (hl : as.length = bs.length) (h : beVal as = beVal bs) : as = bs :=
  (foldl_be_inj as bs 0 0 hl h).2

/-- same widths, same operands: same bytes -/
theorem readOperands_inj : ∀ (ws : List Nat) (bs bs' : Bytes) (args : List Nat) (r r' : Bytes),
    Supported ws → readOperands ws bs = .ok (args, r) → readOperands ws bs' = .ok (args, r') →
    bs.take ws.sum = bs'.take ws.sum := by
  intro ws
  induction ws with
  | nil => intro bs bs' args r r' _ _ _; simp
  | cons w ws ih =>
    intro bs bs' args r r' hs h h'
    have hw : Gen.Opcodes.readOperandsWidths.contains w = true := hs w (by simp)
    have hs' : Supported ws := fun x hx => hs x (by simp [hx])
    rw [readOperands, if_pos hw] at h h'
    by_cases hl : w ≤ bs.length
    · by_cases hl' : w ≤ bs'.length
      · rw [if_pos hl] at h
        rw [if_pos hl'] at h'
        cases hr : readOperands ws (bs.drop w) with
        | ok p =>
          cases hr' : readOperands ws (bs'.drop w) with
          | ok p' =>
            obtain ⟨vs, q⟩ := p
            obtain ⟨vs', q'⟩ := p'
            rw [hr] at h
            rw [hr'] at h'
            simp at h h'
            obtain ⟨rfl, rfl⟩ := h
            obtain ⟨h', rfl⟩ := h'
            simp at h'
            obtain ⟨hv, rfl⟩ := h'
            have ht : bs.take w = bs'.take w :=
              beVal_inj _ _ (by simp [Nat.min_eq_left hl, Nat.min_eq_left hl']) hv.symm
            have hd := ih _ _ _ _ _ hs' hr hr'
            simp only [List.sum_cons, List.take_add, ht, hd]
          | err e => rw [hr'] at h'; simp at h'
          | panic m => rw [hr'] at h'; simp at h'
        | err e => rw [hr] at h; simp at h
        | panic m => rw [hr] at h; simp at h
      · rw [if_neg hl'] at h'; simp at h'
    · rw [if_neg hl] at h; simp at h

/-! ### the walker, instruction by instruction -/

theorem drop_cons_tail {full : Bytes} {off : Nat} {b : UInt8} {tail : Bytes} (h : full.drop off = b :: tail) :
    tail = full.drop (off + 1) ∧ off + 1 + tail.length = full.length := by
  constructor
  · have := congrArg (List.drop 1) h
    simp only [List.drop_drop, List.drop_succ_cons, List.drop_zero] at this
    exact this.symm
  · have := congrArg List.length h
    simp at this; omega

/-- one iteration of the walker that succeeded (any table with supported widths) -/
theorem decodeAux_cons {tbl : WidthTable} (hsup : ∀ op ws, tbl op = some ws → Supported ws)
    {f : Nat} {b : UInt8} {tail : Bytes} {i : Nat} {is : List Instr}
    (h : decodeAllAux tbl (f + 1) (b :: tail) i = some is) :
    ∃ ws args is', tbl b.toNat = some ws ∧
      readOperands ws tail = .ok (args, tail.drop ws.sum) ∧ ws.sum ≤ tail.length ∧
      decodeAllAux tbl f (tail.drop ws.sum) (i + (ws.sum + 1)) = some is' ∧
      is = ⟨i, b.toNat, args⟩ :: is' := by
  rw [decodeAllAux] at h
  cases hws : tbl b.toNat with
  | none => simp [hws] at h
  | some ws1 =>
    rw [hws] at h; simp only at h
    cases hro : readOperands ws1 tail with
    | err e => rw [hro] at h; simp at h
    | panic e => rw [hro] at h; simp at h
    | ok p =>
      obtain ⟨args, rest'⟩ := p
      rw [hro] at h; simp only at h
      obtain ⟨hsum, hrest, _, _, _⟩ := readOperands_ok ws1 tail args rest' (hsup _ _ hws) hro
      subst hrest
      cases hrec : decodeAllAux tbl f (tail.drop ws1.sum) (i + (ws1.sum + 1)) with
      | none => rw [hrec] at h; simp at h
      | some is' =>
        rw [hrec] at h; simp at h
        exact ⟨ws1, args, is', rfl, hro, hsum, hrec, h.symm⟩

/-- What the walker says about one instruction `x` of a decoded stream `full`: the byte at `x.off`
    is the opcode, the operands are read from the bytes behind it, and the next instruction (if
    any) starts right behind them; the last instruction ends the stream. -/
theorem decodeAux_at (tbl : WidthTable) (hsup : ∀ op ws, tbl op = some ws → Supported ws) (full : Bytes) :
    ∀ (pre : List Instr) (fuel off : Nat) (x : Instr) (suf : List Instr),
    decodeAllAux tbl fuel (full.drop off) off = some (pre ++ x :: suf) →
    ∃ ws b tail, tbl x.op = some ws ∧ full.drop x.off = b :: tail ∧ b.toNat = x.op ∧
      readOperands ws tail = .ok (x.args, tail.drop ws.sum) ∧ ws.sum ≤ tail.length ∧
      (suf = [] → x.off + ws.sum + 1 = full.length) ∧
      (∀ y suf', suf = y :: suf' → y.off = x.off + ws.sum + 1) := by
  intro pre
  induction pre with
  | nil =>
    intro fuel off x suf h
    cases fuel with
    | zero => simp [decodeAllAux] at h
    | succ f =>
    cases hd : full.drop off with
    | nil => rw [hd] at h; simp [decodeAllAux] at h
    | cons b tail =>
      rw [hd] at h
      obtain ⟨ws, args, is', hws, hro, hsum, hrec, his⟩ := decodeAux_cons hsup h
      simp only [List.nil_append, List.cons.injEq] at his
      obtain ⟨rfl, rfl⟩ := his
      obtain ⟨htl, hlen⟩ := drop_cons_tail hd
      refine ⟨ws, b, tail, hws, hd, rfl, hro, hsum, ?_, ?_⟩
      · intro hnil
        subst hnil
        cases f with
        | zero => simp [decodeAllAux] at hrec
        | succ f' =>
          cases hd' : tail.drop ws.sum with
          | nil =>
            have := congrArg List.length hd'
            simp at this
            simp only; omega
          | cons b' t' =>
            rw [hd'] at hrec
            obtain ⟨_, _, _, _, _, _, _, hc⟩ := decodeAux_cons hsup hrec
            simp at hc
      · intro y suf' hy
        subst hy
        cases f with
        | zero => simp [decodeAllAux] at hrec
        | succ f' =>
          cases hd' : tail.drop ws.sum with
          | nil => rw [hd'] at hrec; simp [decodeAllAux] at hrec
          | cons b' t' =>
            rw [hd'] at hrec
            obtain ⟨_, _, _, _, _, _, _, hc⟩ := decodeAux_cons hsup hrec
            simp only [List.cons.injEq] at hc
            rw [hc.1]; simp only; omega
  | cons p pre ih =>
    intro fuel off x suf h
    cases fuel with
    | zero => simp [decodeAllAux] at h
    | succ f =>
    cases hd : full.drop off with
    | nil => rw [hd] at h; simp [decodeAllAux] at h
    | cons b tail =>
      rw [hd] at h
      obtain ⟨ws, args, is', hws, hro, hsum, hrec, his⟩ := decodeAux_cons hsup h
      simp only [List.cons_append, List.cons.injEq] at his
      obtain ⟨_, rfl⟩ := his
      obtain ⟨htl, hlen⟩ := drop_cons_tail hd
      have : tail.drop ws.sum = full.drop (off + (ws.sum + 1)) := by
        rw [htl, List.drop_drop]; congr 1; omega
      rw [this] at hrec
      exact ih _ _ _ _ hrec

/-- the walker from the start of the stream -/
theorem decodeAll_at (tbl : WidthTable) (hsup : ∀ op ws, tbl op = some ws → Supported ws) (full : Bytes)
    (pre : List Instr) (x : Instr) (suf : List Instr) (h : decodeAll tbl full = some (pre ++ x :: suf)) :
    ∃ ws b tail, tbl x.op = some ws ∧ full.drop x.off = b :: tail ∧ b.toNat = x.op ∧
      readOperands ws tail = .ok (x.args, tail.drop ws.sum) ∧ ws.sum ≤ tail.length ∧
      (suf = [] → x.off + ws.sum + 1 = full.length) ∧
      (∀ y suf', suf = y :: suf' → y.off = x.off + ws.sum + 1) :=
  decodeAux_at tbl hsup full pre (full.length + 1) 0 x suf (by simpa [decodeAll] using h)

/-! ### arrays -/

theorem get_of_drop {l : Bytes} {o : Nat} {b : UInt8} {tail : Bytes} (h : l.drop o = b :: tail)
    (i k : Nat) (hi : i = o + k) : l.toArray[i]! = ((b :: tail)[k]?).getD default := by
  subst hi
  rw [← h, List.getElem?_drop]; simp

theorem get_head_of_drop {l : Bytes} {o : Nat} {b : UInt8} {tail : Bytes} (h : l.drop o = b :: tail) :
    l.toArray[o]! = b := by
  rw [get_of_drop h o 0 rfl]; simp

theorem rd2_eq (l : Bytes) (i : Nat) (h : i + 2 ≤ l.length) : rd2 l.toArray i = beVal ((l.drop i).take 2) := by
  cases hd : l.drop i with
  | nil => have := congrArg List.length hd; simp at this; omega
  | cons t0 r0 =>
    cases r0 with
    | nil => have := congrArg List.length hd; simp at this; omega
    | cons t1 r1 =>
      unfold rd2
      rw [get_of_drop hd i 0 rfl, get_of_drop hd (i + 1) 1 rfl]
      simp only [List.getElem?_cons_zero, List.getElem?_cons_succ, Option.getD_some]
      exact rd2_val t0 t1

theorem rd4_eq (l : Bytes) (i : Nat) (h : i + 4 ≤ l.length) : rd4 l.toArray i = beVal ((l.drop i).take 4) := by
  cases hd : l.drop i with
  | nil => have := congrArg List.length hd; simp at this; omega
  | cons t0 r0 =>
    cases r0 with
    | nil => have := congrArg List.length hd; simp at this; omega
    | cons t1 r1 =>
    cases r1 with
    | nil => have := congrArg List.length hd; simp at this; omega
    | cons t2 r2 =>
    cases r2 with
    | nil => have := congrArg List.length hd; simp at this; omega
    | cons t3 r3 =>
      unfold rd4
      rw [get_of_drop hd i 0 rfl, get_of_drop hd (i + 1) 1 rfl, get_of_drop hd (i + 2) 2 rfl,
        get_of_drop hd (i + 3) 3 rfl]
      simp only [List.getElem?_cons_zero, List.getElem?_cons_succ, Option.getD_some]
      exact rd4_val t0 t1 t2 t3

theorem readOperands_one {w : Nat} (hw : Gen.Opcodes.readOperandsWidths.contains w = true)
    {tail : Bytes} {args : List Nat} {r : Bytes} (h : readOperands [w] tail = .ok (args, r)) :
    args = [beVal (tail.take w)] := by
  rw [readOperands, if_pos hw] at h
  split at h
  · simp [readOperands] at h; exact h.1.symm
  · simp at h

theorem readOperands_two {w : Nat} (hw : Gen.Opcodes.readOperandsWidths.contains w = true)
    {tail : Bytes} {args : List Nat} {r : Bytes} (h : readOperands [w, w] tail = .ok (args, r)) :
    args = [beVal (tail.take w), beVal ((tail.drop w).take w)] := by
  rw [readOperands, if_pos hw] at h
  split at h
  · cases hr : readOperands [w] (tail.drop w) with
    | ok p =>
      obtain ⟨vs, q⟩ := p
      rw [hr] at h
      have := readOperands_one hw hr
      subst this
      simp at h; exact h.1.symm
    | err e => rw [hr] at h; simp at h
    | panic m => rw [hr] at h; simp at h
  · simp at h

/-! ### the converter -/

theorem isJ_eq (op : Nat) : isJ op = isJumpClass op := by
  simp [isJ, isJumpClass, Gen.Opcodes.convJumpClass, OpJump, OpJumpFalsy, OpAndJump, OpOrJump, OpSetupTry,
    Bool.or_assoc]
  rfl

/-- an instruction of the version-1 stream and its image in the converted stream -/
theorem conv_at (ins out : Bytes) (φ : Nat → Nat) (is : List Instr)
    (hd : decodeV1 ins = some is) (hd2 : decodeV2 out = some (is.map (relocInstr φ)))
    (pre : List Instr) (x : Instr) (suf : List Instr) (his : is = pre ++ x :: suf) :
    ∃ ws1 ws2 b tail tail', Gen.Opcodes.V1.opcodeOperands x.op = some ws1 ∧
      Gen.Opcodes.opcodeOperands x.op = some ws2 ∧
      ins.drop x.off = b :: tail ∧ out.drop (φ x.off) = b :: tail' ∧ b.toNat = x.op ∧
      readOperands ws1 tail = .ok (x.args, tail.drop ws1.sum) ∧ ws1.sum ≤ tail.length ∧
      readOperands ws2 tail' = .ok ((relocInstr φ x).args, tail'.drop ws2.sum) ∧ ws2.sum ≤ tail'.length ∧
      (∀ y suf', suf = y :: suf' → y.off = x.off + ws1.sum + 1 ∧ φ y.off = φ x.off + ws2.sum + 1) := by
  subst his
  obtain ⟨ws1, b, tail, h1, hdr, hb, hro, hsum, _, hnext⟩ :=
    decodeAll_at _ (fun _ _ h => v1_supported h) ins pre x suf hd
  have hd2' : decodeAll Gen.Opcodes.opcodeOperands out =
      some (pre.map (relocInstr φ) ++ relocInstr φ x :: suf.map (relocInstr φ)) := by
    simpa [decodeV2] using hd2
  obtain ⟨ws2, b', tail', h2, hdr', hb', hro', hsum', _, hnext'⟩ :=
    decodeAll_at _ (fun _ _ h => v2_supported h) out _ _ _ hd2'
  have hbb : b' = b := UInt8.toNat_inj.mp (by rw [hb, hb']; rfl)
  subst hbb
  refine ⟨ws1, ws2, b', tail, tail', h1, h2, hdr, hdr', hb, hro, hsum, hro', hsum', ?_⟩
  intro y suf' hy
  subst hy
  exact ⟨hnext y suf' rfl, hnext' (relocInstr φ y) (suf'.map (relocInstr φ)) rfl⟩

/-- well-formedness of a version-1 function (what the compiler emits): every jump operand and
    every non-zero SETUPTRY operand is the offset of an instruction, and the last instruction is
    RETURN -/
structure WF1 (is : List Instr) : Prop where
  jumps : ∀ x ∈ is, isJumpClass x.op = true → ∀ a ∈ x.args,
    (x.op = Gen.Opcodes.convKeepZeroOp ∧ a = 0) ∨ ∃ y ∈ is, y.off = a
  last : ∃ pre x, is = pre ++ [x] ∧ x.op = Gen.Opcodes.OpReturn

/-- an instruction that is not RETURN is not the last one -/
theorem WF1.has_next {is : List Instr} (h : WF1 is) {pre : List Instr} {x : Instr} {suf : List Instr}
    (his : is = pre ++ x :: suf) (hx : x.op ≠ 39) : ∃ y suf', suf = y :: suf' := by
  cases suf with
  | cons y suf' => exact ⟨y, suf', rfl⟩
  | nil =>
    obtain ⟨pre', x', h', hop⟩ := h.last
    rw [his] at h'
    have := (List.append_inj' h' rfl).2
    simp only [List.cons.injEq, and_true] at this
    subst this
    exact absurd hop hx

theorem jump_tables (op : Nat) (h : op = 12 ∨ op = 13 ∨ op = 14 ∨ op = 15) :
    Gen.Opcodes.V1.opcodeOperands op = some [2] ∧ Gen.Opcodes.opcodeOperands op = some [4] := by
  rcases h with rfl | rfl | rfl | rfl <;> decide

theorem try_tables :
    Gen.Opcodes.V1.opcodeOperands 34 = some [2, 2] ∧ Gen.Opcodes.opcodeOperands 34 = some [4, 4] := by
  decide

/-- `CodeRel.plain` for the converter -/
theorem conv_plain (ins out : Bytes) (φ : Nat → Nat) (is : List Instr)
    (hd : decodeV1 ins = some is) (hd2 : decodeV2 out = some (is.map (relocInstr φ))) (hwf : WF1 is)
    (o : Nat) (hB : ∃ x ∈ is, x.off = o) (hj : isJ (ins.toArray[o]!).toNat = false) :
    Win ins.toArray out.toArray φ o (opW (ins.toArray[o]!).toNat) ∧
    ((ins.toArray[o]!).toNat ≠ OpReturn →
      (∃ y ∈ is, y.off = o + opW (ins.toArray[o]!).toNat + 1) ∧
      φ (o + opW (ins.toArray[o]!).toNat + 1) = φ o + opW (ins.toArray[o]!).toNat + 1) := by
  obtain ⟨x, hx, rfl⟩ := hB
  obtain ⟨pre, suf, his⟩ := List.append_of_mem hx
  obtain ⟨ws1, ws2, b, tail, tail', h1, h2, hdr, hdr', hb, hro, hsum, hro', hsum', hnext⟩ :=
    conv_at ins out φ is hd hd2 pre x suf his
  have hsrc : ins.toArray[x.off]! = b := get_head_of_drop hdr
  rw [hsrc, hb] at hj ⊢
  rw [isJ_eq] at hj
  have h2' := nonjump_same hj h1
  rw [h2] at h2'
  simp only [Option.some.injEq] at h2'
  subst h2'
  have hw : opW x.op = ws2.sum := by simp [opW, h2]
  rw [hw]
  have hargs : (relocInstr φ x).args = x.args := by simp [relocInstr, hj]
  rw [hargs] at hro'
  have htake := readOperands_inj ws2 tail tail' _ _ _ (v1_supported h1) hro hro'
  obtain ⟨_, hl⟩ := drop_cons_tail hdr
  obtain ⟨_, hl'⟩ := drop_cons_tail hdr'
  refine ⟨⟨by simp; omega, by simp; omega, ?_⟩, ?_⟩
  · intro k hk
    rw [get_of_drop hdr' _ k rfl, get_of_drop hdr _ k rfl]
    cases k with
    | zero => rfl
    | succ j =>
      simp only [List.getElem?_cons_succ]
      have := congrArg (fun l => l[j]?) htake
      simp [List.getElem?_take, show j < ws2.sum by omega] at this
      rw [this]
  · intro hne
    obtain ⟨y, suf', hs⟩ := hwf.has_next his hne
    obtain ⟨e1, e2⟩ := hnext y suf' hs
    refine ⟨⟨y, ?_, e1⟩, ?_⟩
    · rw [his, hs]; simp
    · rw [← e1, e2]

/-- `CodeRel.jump` for the converter -/
theorem conv_jump (ins out : Bytes) (φ : Nat → Nat) (is : List Instr)
    (hd : decodeV1 ins = some is) (hd2 : decodeV2 out = some (is.map (relocInstr φ))) (hwf : WF1 is)
    (o : Nat) (hB : ∃ x ∈ is, x.off = o) (hj : isJ (ins.toArray[o]!).toNat = true)
    (hne : (ins.toArray[o]!).toNat ≠ OpSetupTry) :
    o + 2 < ins.toArray.size ∧ φ o + 4 < out.toArray.size ∧ out.toArray[φ o]! = ins.toArray[o]! ∧
    (∃ y ∈ is, y.off = rd2 ins.toArray (o + 1)) ∧
    rd4 out.toArray (φ o + 1) = φ (rd2 ins.toArray (o + 1)) ∧
    (∃ y ∈ is, y.off = o + 2 + 1) ∧ φ (o + 2 + 1) = φ o + 5 := by
  obtain ⟨x, hx, rfl⟩ := hB
  obtain ⟨pre, suf, his⟩ := List.append_of_mem hx
  obtain ⟨ws1, ws2, b, tail, tail', h1, h2, hdr, hdr', hb, hro, hsum, hro', hsum', hnext⟩ :=
    conv_at ins out φ is hd hd2 pre x suf his
  have hsrc : ins.toArray[x.off]! = b := get_head_of_drop hdr
  rw [hsrc, hb] at hj hne
  have hop : x.op = 12 ∨ x.op = 13 ∨ x.op = 14 ∨ x.op = 15 := by
    simp [isJ, OpJump, OpJumpFalsy, OpAndJump, OpOrJump, OpSetupTry] at hj hne
    omega
  obtain ⟨t1, t2⟩ := jump_tables x.op hop
  rw [h1] at t1
  rw [h2] at t2
  simp only [Option.some.injEq] at t1 t2
  subst t1 t2
  have hjc : isJumpClass x.op = true := by rw [← isJ_eq]; exact hj
  have hk : x.op ≠ Gen.Opcodes.convKeepZeroOp := by simp [Gen.Opcodes.convKeepZeroOp]; omega
  have ha := readOperands_one (by decide) hro
  have hargs : (relocInstr φ x).args = [φ (beVal (tail.take 2))] := by
    simp [relocInstr, hjc, ha, relocArgs, hk]
  rw [hargs] at hro'
  have ha' := readOperands_one (by decide) hro'
  simp only [List.cons.injEq, and_true] at ha'
  obtain ⟨ht, hl⟩ := drop_cons_tail hdr
  obtain ⟨ht', hl'⟩ := drop_cons_tail hdr'
  simp at hsum hsum'
  have r2 : rd2 ins.toArray (x.off + 1) = beVal (tail.take 2) := by
    rw [rd2_eq _ _ (by omega), ← ht]
  have r4 : rd4 out.toArray (φ x.off + 1) = φ (beVal (tail.take 2)) := by
    rw [rd4_eq _ _ (by omega), ← ht', ha']
  obtain ⟨y, suf', hs⟩ := hwf.has_next his (by omega)
  obtain ⟨e1, e2⟩ := hnext y suf' hs
  simp at e1 e2
  refine ⟨by simp; omega, by simp; omega, by rw [hsrc, get_head_of_drop hdr'], ?_, by rw [r2, r4],
    ⟨y, by rw [his, hs]; simp, by omega⟩, by rw [← e1, e2]⟩
  rw [r2]
  have := hwf.jumps x hx hjc (beVal (tail.take 2)) (by rw [ha]; simp)
  rcases this with ⟨h34, _⟩ | h
  · exact absurd h34 hk
  · exact h

theorem arel_nat (φ : Nat → Nat) (B : Nat → Prop) (hpos : ∀ n, 0 < n → 0 < φ n) (c d : Nat)
    (h0 : c = 0 → d = 0) (h1 : c ≠ 0 → d = φ c) (hB : c ≠ 0 → B c) : ARel φ B (c : Int) (d : Int) := by
  by_cases hc : c = 0
  · left; simp [hc, h0 hc]
  · right
    exact ⟨c, by omega, hpos c (by omega), hB hc, rfl, by rw [h1 hc]⟩

/-- `CodeRel.try_` for the converter -/
theorem conv_try (ins out : Bytes) (φ : Nat → Nat) (hpos : ∀ n, 0 < n → 0 < φ n) (is : List Instr)
    (hd : decodeV1 ins = some is) (hd2 : decodeV2 out = some (is.map (relocInstr φ))) (hwf : WF1 is)
    (o : Nat) (hB : ∃ x ∈ is, x.off = o) (htry : (ins.toArray[o]!).toNat = OpSetupTry) :
    o + 2 * 2 < ins.toArray.size ∧ φ o + 8 < out.toArray.size ∧ out.toArray[φ o]! = ins.toArray[o]! ∧
    ARel φ (fun o => ∃ x ∈ is, x.off = o) (rd2 ins.toArray (o + 1)) (rd4 out.toArray (φ o + 1)) ∧
    ARel φ (fun o => ∃ x ∈ is, x.off = o) (rd2 ins.toArray (o + 1 + 2)) (rd4 out.toArray (φ o + 5)) ∧
    (∃ y ∈ is, y.off = o + 2 * 2 + 1) ∧ φ (o + 2 * 2 + 1) = φ o + 9 := by
  obtain ⟨x, hx, rfl⟩ := hB
  obtain ⟨pre, suf, his⟩ := List.append_of_mem hx
  obtain ⟨ws1, ws2, b, tail, tail', h1, h2, hdr, hdr', hb, hro, hsum, hro', hsum', hnext⟩ :=
    conv_at ins out φ is hd hd2 pre x suf his
  have hsrc : ins.toArray[x.off]! = b := get_head_of_drop hdr
  rw [hsrc, hb] at htry
  have hop : x.op = 34 := htry
  obtain ⟨t1, t2⟩ := try_tables
  rw [← hop, h1] at t1
  rw [← hop, h2] at t2
  simp only [Option.some.injEq] at t1 t2
  subst t1 t2
  have hjc : isJumpClass x.op = true := by rw [hop]; decide
  have ha := readOperands_two (by decide) hro
  have hargs : (relocInstr φ x).args =
      [if beVal (tail.take 2) = 0 then 0 else φ (beVal (tail.take 2)),
       if beVal ((tail.drop 2).take 2) = 0 then 0 else φ (beVal ((tail.drop 2).take 2))] := by
    have hj34 : isJumpClass 34 = true := by decide
    have e : ∀ c : Nat, (if 34 ≠ 34 ∨ c ≠ 0 then φ c else c) = if c = 0 then 0 else φ c := by
      intro c; by_cases h : c = 0 <;> simp [h]
    simp only [relocInstr, ha, relocArgs, hop, Gen.Opcodes.convKeepZeroOp, hj34, if_true, List.map, e]
  rw [hargs] at hro'
  have ha' := readOperands_two (by decide) hro'
  simp only [List.cons.injEq, and_true] at ha'
  obtain ⟨ha1, ha2⟩ := ha'
  obtain ⟨ht, hl⟩ := drop_cons_tail hdr
  obtain ⟨ht', hl'⟩ := drop_cons_tail hdr'
  simp at hsum hsum'
  have r2a : rd2 ins.toArray (x.off + 1) = beVal (tail.take 2) := by
    rw [rd2_eq _ _ (by omega), ← ht]
  have r2b : rd2 ins.toArray (x.off + 1 + 2) = beVal ((tail.drop 2).take 2) := by
    rw [rd2_eq _ _ (by omega), ht, List.drop_drop]
  have r4a : rd4 out.toArray (φ x.off + 1) = beVal (tail'.take 4) := by
    rw [rd4_eq _ _ (by omega), ← ht']
  have r4b : rd4 out.toArray (φ x.off + 5) = beVal ((tail'.drop 4).take 4) := by
    rw [rd4_eq _ _ (by omega), ht', List.drop_drop]
  obtain ⟨y, suf', hs⟩ := hwf.has_next his (by omega)
  obtain ⟨e1, e2⟩ := hnext y suf' hs
  simp at e1 e2
  have hBof : ∀ a ∈ x.args, a ≠ 0 → ∃ y ∈ is, y.off = a := by
    intro a hin hne
    rcases hwf.jumps x hx hjc a hin with ⟨_, h0⟩ | h
    · exact absurd h0 hne
    · exact h
  refine ⟨by simp; omega, by simp; omega, by rw [hsrc, get_head_of_drop hdr'], ?_, ?_,
    ⟨y, by rw [his, hs]; simp, by omega⟩, by rw [← e1, e2]⟩
  · rw [r2a, r4a, ← ha1]
    refine arel_nat φ _ hpos _ _ (fun h => by simp [h]) (fun h => by simp [h]) ?_
    exact hBof _ (by rw [ha]; simp)
  · rw [r2b, r4b, ← ha2]
    refine arel_nat φ _ hpos _ _ (fun h => by simp [h]) (fun h => by simp [h]) ?_
    exact hBof _ (by rw [ha]; simp)

theorem codeRel_conv (ins : Bytes) (sm : SrcMap) (is : List Instr) (hd : decodeV1 ins = some is) (hwf : WF1 is)
    (out : Bytes) (m : SrcMap) (hc : convFn ins sm = .ok (out, m)) :
    CodeRel false (newOff ins) (fun o => ∃ x ∈ is, x.off = o) ins.toArray out.toArray := by
  obtain ⟨out', m', hc', hd2, _, _⟩ := Props.C11.conv_decodes ins sm is hd
  rw [hc] at hc'
  simp only [Res.ok.injEq, Prod.mk.injEq] at hc'
  obtain ⟨rfl, rfl⟩ := hc'
  have hpos : ∀ n, 0 < n → 0 < newOff ins n := fun n hn => by
    have := Props.C11.newOff_strict_mono ins 0 n hn; omega
  exact
    { mono := Props.C11.newOff_strict_mono ins
      fin0 := fun _ _ => Props.C11.newOff_zero ins
      plain := fun o hB hj => conv_plain ins out _ is hd hd2 hwf o hB hj
      jump := fun o hB hj hne => conv_jump ins out _ is hd hd2 hwf o hB hj hne
      try_ := fun o hB ht => conv_try ins out _ hpos is hd hd2 hwf o hB ht }

/-- `WF1` is satisfiable together with `decodeV1`: JUMPFALSY 8; CONSTANT 0; RETURN 1; NULL; RETURN 1
    (offsets 0, 3, 6, 8, 9) -/
example : decodeV1 [13, 0, 8, 1, 0, 0, 39, 1, 21, 39, 1] =
      some [⟨0, 13, [8]⟩, ⟨3, 1, [0]⟩, ⟨6, 39, [1]⟩, ⟨8, 21, []⟩, ⟨9, 39, [1]⟩] ∧
    WF1 [⟨0, 13, [8]⟩, ⟨3, 1, [0]⟩, ⟨6, 39, [1]⟩, ⟨8, 21, []⟩, ⟨9, 39, [1]⟩] :=
  ⟨by decide, ⟨by decide, ⟨[⟨0, 13, [8]⟩, ⟨3, 1, [0]⟩, ⟨6, 39, [1]⟩, ⟨8, 21, []⟩], ⟨9, 39, [1]⟩, rfl, rfl⟩⟩⟩

end UgoVerif.VM.Reloc
