import UgoVerif.Proofs.C08Mod
/-
  C08, shared heap segment: the two-instruction window in which a shared module constant sits
  in a stack slot (`LOADMODULE` on a cache miss … `JUMPFALSY` … `STOREMODULE`, which replaces it
  by its private `Copy()`), and the step theorem for the weak boundary invariant `Bnd`.
-/
set_option linter.unusedVariables false
set_option linter.unusedSimpArgs false
set_option linter.unnecessarySimpa false
set_option maxHeartbeats 1600000
namespace UgoVerif.VM
open UgoVerif UgoVerif.Go

/-! ### executing primitives -/

theorem exec_stackGet_in (i : Int) (s : State) (h : 0 ≤ i ∧ i < (stackSize : Int)) :
    exec (stackGet i) s = (.ok (s.stack[i.toNat]!), s) := by
  unfold stackGet
  have : ¬ (i < 0 || i ≥ (stackSize : Int)) = true := by simp; omega
  simp only [exec_bind, exec_getS]
  rw [if_neg this]; rfl

theorem exec_stackSet_in (i : Int) (v : V) (s : State) (h : 0 ≤ i ∧ i < (stackSize : Int)) :
    exec (stackSet i v) s = (.ok (), { s with stack := s.stack.set! i.toNat v }) := by
  unfold stackSet
  have : ¬ (i < 0 || i ≥ (stackSize : Int)) = true := by simp; omega
  simp only [this, if_false]; rfl

theorem exec_stackSet_out (i : Int) (v : V) (s : State) (h : ¬ (0 ≤ i ∧ i < (stackSize : Int))) :
    ∃ m, exec (stackSet i v) s = (.error (.panic m), s) := by
  unfold stackSet
  have : (i < 0 || i ≥ (stackSize : Int)) = true := by simp; omega
  simp only [this, if_true]; exact ⟨_, rfl⟩

theorem exec_pushV_in (v : V) (s : State) (h : 0 ≤ s.sp ∧ s.sp < (stackSize : Int)) :
    exec (pushV v) s = (.ok (), { s with stack := s.stack.set! s.sp.toNat v, sp := s.sp + 1 }) := by
  unfold pushV
  have e1 : exec getSp s = (.ok s.sp, s) := rfl
  simp only [exec_bind, e1, exec_stackSet_in _ _ _ h]
  rfl

theorem exec_pushV_out (v : V) (s : State) (h : ¬ (0 ≤ s.sp ∧ s.sp < (stackSize : Int))) :
    ∃ m, exec (pushV v) s = (.error (.panic m), s) := by
  unfold pushV
  have e1 : exec getSp s = (.ok s.sp, s) := rfl
  obtain ⟨m, hm⟩ := exec_stackSet_out s.sp v s h
  refine ⟨m, ?_⟩
  simp only [exec_bind, e1, hm]

/-! ### instruction fetch -/

/-- the state in which the opcode function runs: `ip` advanced to the opcode, the H1 record made -/
def fetched (s : State) (op : Nat) : State := (exec (noteTrace op) { s with ip := s.ip + 1 }).2

theorem exec_noteTrace_c08 (op : Nat) (s : State) :
    ∃ tr st, exec (noteTrace op) s = (.ok (), { s with trace := tr, steps := st }) := by
  unfold noteTrace
  simp only [exec_bind, exec_getS]
  split
  · exact ⟨_, _, rfl⟩
  · exact ⟨s.trace, _, rfl⟩

theorem fetched_eq (s : State) (op : Nat) :
    ∃ tr st, fetched s op = { s with ip := s.ip + 1, trace := tr, steps := st } := by
  obtain ⟨tr, st, h⟩ := exec_noteTrace_c08 op { s with ip := s.ip + 1 }
  exact ⟨tr, st, by unfold fetched; rw [h]⟩

theorem byteAt_fetched (s : State) (op : Nat) (i : Int) : byteAt (fetched s op) i = byteAt s i := by
  obtain ⟨tr, st, h⟩ := fetched_eq s op
  rw [h]; exact byteAt_congr rfl rfl rfl rfl i

theorem word2_fetched (s : State) (op : Nat) (i : Int) : word2 (fetched s op) i = word2 s i := by
  unfold word2; rw [byteAt_fetched, byteAt_fetched]

theorem step_some (F : FloatOps) (s : State) (op : Nat) (h : byteAt s (s.ip + 1) = some op) :
    exec (step F) s = exec (dispatch F op) (fetched s op) := by
  have e1 : exec (bumpIp 1) s = (.ok (), { s with ip := s.ip + 1 }) := rfl
  have e2 : exec getIp { s with ip := s.ip + 1 } = (.ok (s.ip + 1), { s with ip := s.ip + 1 }) := rfl
  have e3 : exec (instAt (s.ip + 1)) { s with ip := s.ip + 1 } = (.ok op, { s with ip := s.ip + 1 }) :=
    exec_instAt_some (by exact h)
  obtain ⟨tr, st, e4⟩ := exec_noteTrace_c08 op { s with ip := s.ip + 1 }
  have e5 : fetched s op = { s with ip := s.ip + 1, trace := tr, steps := st } := by unfold fetched; rw [e4]
  unfold step
  simp only [exec_bind, e1, e2, e3, e4, e5]

theorem step_none (F : FloatOps) (s : State) (h : byteAt s (s.ip + 1) = none) :
    (exec (step F) s).2 = { s with ip := s.ip + 1 } ∧ ∀ r, (exec (step F) s).1 ≠ .ok r := by
  have e1 : exec (bumpIp 1) s = (.ok (), { s with ip := s.ip + 1 }) := rfl
  have e2 : exec getIp { s with ip := s.ip + 1 } = (.ok (s.ip + 1), { s with ip := s.ip + 1 }) := rfl
  have h3 := exec_instAt { s with ip := s.ip + 1 } (s.ip + 1)
  have hb : byteAt { s with ip := s.ip + 1 } (s.ip + 1) = none := h
  rcases hx : exec (instAt (s.ip + 1)) { s with ip := s.ip + 1 } with ⟨r, s'⟩
  rw [hx] at h3
  obtain ⟨hs', h4⟩ := h3
  simp only at hs'; subst hs'
  cases r with
  | ok b => have := (h4 b).1 rfl; rw [hb] at this; cases this
  | error e =>
    unfold step
    simp only [exec_bind, e1, e2, hx]
    exact ⟨trivial, fun r hr => by cases hr⟩

/-! ### the invariant with one exempt stack slot -/

/-- `Inv`, except that stack slot `k` may hold any value that can be copied (a shared module
    constant on its way from LOADMODULE to STOREMODULE) -/
structure InvH (n : Nat) (h0 : Array Cell) (k : Nat) (s : State) : Prop where
  heap : HeapOK n h0 s.heap
  stack : ∀ i v, s.stack[i]? = some v → i ≠ k → PrivV n v
  hole : ∀ v, s.stack[k]? = some v → CopyOK n v
  globals : PrivV n s.globals
  modules : ∀ v ∈ s.modules.toList, PrivV n v
  frames : ∀ f ∈ s.frames.toList, ∀ fr, f.free = some fr → ∀ x ∈ fr, n ≤ x
  ssize : s.stack.size = stackSize

section
variable {n : Nat} {h0 : Array Cell}

theorem get?_set! (st : Array V) (i j : Nat) (x : V) :
    (st.set! i x)[j]? = if i = j ∧ i < st.size then some x else st[j]? := by
  rw [Array.set!_eq_setIfInBounds, Array.getElem?_setIfInBounds]
  by_cases h : i = j
  · subst h
    by_cases h2 : i < st.size
    · simp [h2]
    · simp [h2]
  · simp [h]

theorem Inv.dig {s : State} (h : Inv n h0 s) (k : Nat) (c : V) (hc : CopyOK n c) :
    InvH n h0 k { s with stack := s.stack.set! k c } := by
  refine ⟨h.heap, ?_, ?_, h.globals, h.modules, h.frames,
    by rw [Array.set!_eq_setIfInBounds, Array.size_setIfInBounds]; exact h.ssize⟩
  · intro i v hv hik
    simp only [get?_set!] at hv
    have : ¬ (k = i ∧ k < s.stack.size) := fun e => hik e.1.symm
    rw [if_neg this] at hv
    exact h.stack v (Array.mem_toList_iff.mpr (Array.mem_of_getElem? hv))
  · intro v hv
    simp only [get?_set!] at hv
    split at hv
    · simp at hv; subst hv; exact hc
    · exact (h.stack v (Array.mem_toList_iff.mpr (Array.mem_of_getElem? hv))).copyOK

theorem InvH.setOther {k : Nat} {s : State} (h : InvH n h0 k s) (i : Nat) (x : V) (hx : PrivV n x) :
    InvH n h0 k { s with stack := s.stack.set! i x } := by
  refine ⟨h.heap, ?_, ?_, h.globals, h.modules, h.frames,
    by rw [Array.set!_eq_setIfInBounds, Array.size_setIfInBounds]; exact h.ssize⟩
  · intro j v hv hjk
    simp only [get?_set!] at hv
    split at hv
    · simp at hv; subst hv; exact hx
    · exact h.stack j v hv hjk
  · intro v hv
    simp only [get?_set!] at hv
    split at hv
    · simp at hv; subst hv; exact hx.copyOK
    · exact h.hole v hv

theorem InvH.fill {k : Nat} {s : State} (h : InvH n h0 k s) (hp : Array Cell) (hh : HeapOK n h0 hp) (x : V)
    (hx : PrivV n x) (hk : k < s.stack.size) :
    Inv n h0 { s with heap := hp, stack := s.stack.set! k x } := by
  refine ⟨hh, ?_, h.globals, h.modules, h.frames,
    by rw [Array.set!_eq_setIfInBounds, Array.size_setIfInBounds]; exact h.ssize⟩
  intro v hv
  obtain ⟨j, hj, e⟩ := Array.mem_iff_getElem.mp (Array.mem_toList_iff.mp hv)
  have hv' : (s.stack.set! k x)[j]? = some v := by rw [← e]; exact Array.getElem?_eq_getElem hj
  simp only [get?_set!] at hv'
  split at hv'
  · simp at hv'; subst hv'; exact hx
  · rename_i hne
    have : j ≠ k := fun e => hne ⟨e.symm, hk⟩
    exact h.stack j v hv' this

/-! ### the window -/

/-- after LOADMODULE on a miss: `[…, c, true]`, next JUMPFALSY then STOREMODULE (complete) -/
structure PendJ (s : State) (k : Nat) : Prop where
  sp : (k : Int) + 2 = s.sp
  top : s.sp ≤ (stackSize : Int)
  flag : s.stack[k + 1]! = .bool true
  jf : byteAt s (s.ip + 1) = some OpJumpFalsy
  sm : byteAt s (s.ip + 6) = some OpStoreModule
  o1 : (byteAt s (s.ip + 7)).isSome
  o2 : (byteAt s (s.ip + 8)).isSome

/-- after the JUMPFALSY: `[…, c]`, next STOREMODULE (complete) -/
structure PendS (s : State) (k : Nat) : Prop where
  sp : (k : Int) + 1 = s.sp
  top : s.sp ≤ (stackSize : Int)
  sm : byteAt s (s.ip + 1) = some OpStoreModule
  o1 : (byteAt s (s.ip + 2)).isSome
  o2 : (byteAt s (s.ip + 3)).isSome

/-- **the weak invariant at instruction boundaries** -/
inductive Bnd (n : Nat) (h0 : Array Cell) (s : State) : Prop
  | full : Inv n h0 s → Bnd n h0 s
  | jf (k : Nat) : InvH n h0 k s → PendJ s k → Bnd n h0 s
  | st (k : Nat) : InvH n h0 k s → PendS s k → Bnd n h0 s

theorem Bnd.heap {s : State} (h : Bnd n h0 s) : HeapOK n h0 s.heap := by
  cases h with
  | full h => exact h.heap
  | jf k h _ => exact h.heap
  | st k h _ => exact h.heap

end
/-! ### executing the window -/

section
variable {n : Nat} {h0 : Array Cell}

theorem exec_getSp' (s : State) : exec getSp s = (.ok s.sp, s) := rfl
theorem exec_setSp' (v : Int) (s : State) : exec (setSp v) s = (.ok (), { s with sp := v }) := rfl
theorem exec_bumpIp' (k : Int) (s : State) : exec (bumpIp k) s = (.ok (), { s with ip := s.ip + k }) := rfl
theorem exec_isFalsy_true (s : State) : exec (isFalsy (.bool true)) s = (.ok false, s) := rfl

theorem fetched_inv {s : State} (h : Inv n h0 s) (op : Nat) : Inv n h0 (fetched s op) := by
  obtain ⟨tr, st, e⟩ := fetched_eq s op
  rw [e]; exact ⟨h.heap, h.stack, h.globals, h.modules, h.frames, h.ssize⟩

theorem fetched_invH {k : Nat} {s : State} (h : InvH n h0 k s) (op : Nat) : InvH n h0 k (fetched s op) := by
  obtain ⟨tr, st, e⟩ := fetched_eq s op
  rw [e]; exact ⟨h.heap, h.stack, h.hole, h.globals, h.modules, h.frames, h.ssize⟩

theorem dispatch_jumpFalsy (F : FloatOps) : dispatch F OpJumpFalsy = execJumpFalsy := rfl
theorem dispatch_storeModule (F : FloatOps) : dispatch F OpStoreModule = execStoreModule := rfl
theorem dispatch_loadModule (F : FloatOps) : dispatch F OpLoadModule = execLoadModule := rfl
theorem dispatch_constant (F : FloatOps) : dispatch F OpConstant = execConstant := rfl

/-- JUMPFALSY inside the window: pops `true`, falls through to the STOREMODULE, touches nothing else -/
theorem jumpFalsy_hole (F : FloatOps) (s : State) (k : Nat) (hi : InvH n h0 k s) (hp : PendJ s k) :
    ∃ s', exec (step F) s = (.ok .next, s') ∧ InvH n h0 k s' ∧ PendS s' k := by
  rw [step_some F s _ hp.jf, dispatch_jumpFalsy]
  obtain ⟨tr, st, e⟩ := fetched_eq s OpJumpFalsy
  have hi1 := fetched_invH hi OpJumpFalsy
  rw [e] at hi1 ⊢
  have hsp := hp.sp
  have htop := hp.top
  have hb : 0 ≤ s.sp - 1 ∧ s.sp - 1 < (stackSize : Int) := by omega
  have hk : (s.sp - 1).toNat = k + 1 := by omega
  unfold execJumpFalsy
  simp only [exec_bind, exec_getSp', exec_setSp', exec_stackGet_in _ _ hb, exec_stackSet_in _ _ _ hb, hk, hp.flag,
    exec_isFalsy_true, exec_bumpIp', exec_pure, Bool.false_eq_true, if_false]
  refine ⟨_, rfl, ?_, ?_⟩
  · have := hi1.setOther (k + 1) .nil trivial
    exact ⟨this.heap, this.stack, this.hole, this.globals, this.modules, this.frames, this.ssize⟩
  · refine ⟨by show (k : Int) + 1 = s.sp - 1; omega, by show s.sp - 1 ≤ _; omega, ?_, ?_, ?_⟩
    · have h := hp.sm; rw [show s.ip + 6 = s.ip + 1 + 4 + 1 by omega] at h; exact h
    · have h := hp.o1; rw [show s.ip + 7 = s.ip + 1 + 4 + 2 by omega] at h; exact h
    · have h := hp.o2; rw [show s.ip + 8 = s.ip + 1 + 4 + 3 by omega] at h; exact h

end

section
variable {n : Nat} {h0 : Array Cell}

theorem copyV_not_panic (v : V) (s : State) (m : String) : (exec (copyV v) s).1 ≠ .error (.panic m) := by
  simp only [copyV, exec_bind, exec_getS]
  cases hx : copyVal (s.heap.size + 2) s.heap v with
  | none => simp only [exec_unsupported]; intro h; cases h
  | some p =>
    obtain ⟨v', h'⟩ := p
    have : exec (do set { s with heap := h' }; pure v' : M V) s = (.ok v', { s with heap := h' }) := rfl
    simp only [this]; intro h; cases h

theorem reader_stackGet (i : Int) : Reader (stackGet i) := by
  intro s; unfold stackGet; simp only [exec_bind, exec_getS]; split <;> rfl

/-- STOREMODULE at the end of the window: the slot is overwritten by the private copy; the
    full invariant holds again on every path that returns or panics -/
theorem storeModule_hole (F : FloatOps) (s : State) (k : Nat) (hi : InvH n h0 k s) (hp : PendS s k) :
    HeapOK n h0 (exec (step F) s).2.heap ∧
    (∀ c, (exec (step F) s).1 = .ok c → Inv n h0 (exec (step F) s).2) ∧
    (∀ m, (exec (step F) s).1 = .error (.panic m) → Inv n h0 (exec (step F) s).2) := by
  rw [step_some F s _ hp.sm, dispatch_storeModule]
  have hi1 := fetched_invH hi OpStoreModule
  have hsp1 : (fetched s OpStoreModule).sp = s.sp := by
    obtain ⟨tr, st, e⟩ := fetched_eq s OpStoreModule; rw [e]
  have hip1 : (fetched s OpStoreModule).ip = s.ip + 1 := by
    obtain ⟨tr, st, e⟩ := fetched_eq s OpStoreModule; rw [e]
  have hbt : ∀ i, byteAt (fetched s OpStoreModule) i = byteAt s i := byteAt_fetched s _
  generalize fetched s OpStoreModule = s1 at *
  have hsp := hp.sp
  have htop := hp.top
  rw [execStoreModule_eq, exec_bind_reader (reader_opnd2 1)]
  cases h1 : (exec (opnd2 1) s1).1 with
  | error e =>
    simp only
    refine ⟨hi1.heap, fun c hc => (by cases hc), fun m hm => ?_⟩
    -- the operand bytes exist: `opnd2` cannot fail
    exfalso
    obtain ⟨b1, hb1⟩ := Option.isSome_iff_exists.mp hp.o1
    obtain ⟨b2, hb2⟩ := Option.isSome_iff_exists.mp hp.o2
    have hw : word2 s1 (s1.ip + 1) = some (b2 ||| (b1 <<< 8)) := by
      unfold word2
      rw [hip1, show s.ip + 1 + 1 + 1 = s.ip + 3 by omega, show s.ip + 1 + 1 = s.ip + 2 by omega, hbt, hbt, hb1, hb2]
    have := (exec_opnd2 s1 1 _).2 hw
    rw [h1] at this; cases this
  | ok midx =>
    simp only
    rw [exec_bind_reader reader_getSp]
    simp only [show (exec getSp s1).1 = .ok s1.sp from rfl]
    rw [exec_bind_reader (reader_stackGet _)]
    have hb : 0 ≤ s1.sp - 1 ∧ s1.sp - 1 < (stackSize : Int) := by omega
    have hkk : (s1.sp - 1).toNat = k := by omega
    rw [exec_stackGet_in _ _ hb, hkk]
    simp only
    have hksz : k < s1.stack.size := by have := hi1.ssize; omega
    have hcv : CopyOK n s1.stack[k]! := by
      rw [getElem!_pos s1.stack k hksz]
      exact hi1.hole _ (Array.getElem?_eq_getElem hksz)
    obtain ⟨c1, c2, hp', c3⟩ := copyV_spec (h0 := h0) s1.stack[k]! hcv s1 hi1.heap
    rw [exec_bind]
    rcases hx : exec (copyV s1.stack[k]!) s1 with ⟨r, s2⟩
    rw [hx] at c1 c2 c3
    simp only at c1 c2 c3
    cases r with
    | error e =>
      refine ⟨c1, fun c hc => (by cases hc), fun m hm => ?_⟩
      exfalso
      have := copyV_not_panic s1.stack[k]! s1 m
      rw [hx] at this
      simp only at hm
      exact this (by simpa using hm)
    | ok v' =>
      simp only
      have hv' : PrivV n v' := c2 v' rfl
      subst c3
      rw [storeRest_eq, exec_bind, exec_stackSet_in _ _ _ hb, hkk]
      simp only
      have hfull : Inv n h0 { s1 with heap := hp', stack := s1.stack.set! k v' } := hi1.fill hp' c1 v' hv' hksz
      have := (tr_storeRest' (n := n) (h0 := h0) midx v' hv').elim _ hfull
      exact ⟨this.1.heap, fun _ _ => this.1, fun _ _ => this.1⟩

end

section
variable {n : Nat} {h0 : Array Cell}

/-- what the step theorem says about the outcome of one instruction -/
def StepPost (n : Nat) (h0 : Array Cell) (r : Except Exc Ctl × State) : Prop :=
  HeapOK n h0 r.2.heap ∧ (∀ c, r.1 = .ok c → Bnd n h0 r.2) ∧
  (∀ m, r.1 = .error (.panic m) → Inv n h0 r.2 ∨ (stackSize : Int) ≤ r.2.sp)

theorem StepPost.of_inv {r : Except Exc Ctl × State} (h : Inv n h0 r.2) : StepPost n h0 r :=
  ⟨h.heap, fun _ _ => .full h, fun _ _ => .inl h⟩

theorem get!_set!_self (st : Array V) (i : Nat) (x : V) (h : i < st.size) : (st.set! i x)[i]! = x := by
  have : i < (st.set! i x).size := by rw [Array.set!_eq_setIfInBounds, Array.size_setIfInBounds]; exact h
  rw [getElem!_pos _ i this]
  have h2 := get?_set! st i i x
  rw [Array.getElem?_eq_getElem this] at h2
  simpa [h] using h2

/-- LOADMODULE on a miss, constant `c` not private: the three possible ends -/
theorem pushRest_hole (s1 : State) (hs1 : Inv n h0 s1) (c : V) (hc : CopyOK n c) :
    (Inv n h0 (exec (pushRest c (some true) 4) s1).2 ∧ ∀ x, (exec (pushRest c (some true) 4) s1).1 ≠ .ok x) ∨
    ((stackSize : Int) ≤ (exec (pushRest c (some true) 4) s1).2.sp ∧
      (exec (pushRest c (some true) 4) s1).2.heap = s1.heap ∧ ∀ x, (exec (pushRest c (some true) 4) s1).1 ≠ .ok x) ∨
    ((exec (pushRest c (some true) 4) s1).1 = .ok .next ∧ ∃ k, InvH n h0 k (exec (pushRest c (some true) 4) s1).2 ∧
      (k : Int) + 2 = (exec (pushRest c (some true) 4) s1).2.sp ∧
      (exec (pushRest c (some true) 4) s1).2.sp ≤ (stackSize : Int) ∧
      (exec (pushRest c (some true) 4) s1).2.stack[k + 1]! = .bool true ∧
      (exec (pushRest c (some true) 4) s1).2.ip = s1.ip + 4 ∧
      (exec (pushRest c (some true) 4) s1).2.frames = s1.frames ∧
      (exec (pushRest c (some true) 4) s1).2.curFrame = s1.curFrame ∧
      (exec (pushRest c (some true) 4) s1).2.heap = s1.heap ∧
      (exec (pushRest c (some true) 4) s1).2.codes = s1.codes) := by
  have e : pushRest c (some true) 4 =
      (pushV c >>= fun _ => pushV (.bool true) >>= fun _ => bumpIp 4 >>= fun _ => (pure Ctl.next : M Ctl)) := rfl
  rw [e]
  by_cases hA : 0 ≤ s1.sp ∧ s1.sp < (stackSize : Int)
  · rw [exec_bind, exec_pushV_in _ _ hA]
    simp only
    by_cases hB : s1.sp + 1 < (stackSize : Int)
    · have hB' : 0 ≤ ({ s1 with stack := s1.stack.set! s1.sp.toNat c, sp := s1.sp + 1 } : State).sp ∧
          ({ s1 with stack := s1.stack.set! s1.sp.toNat c, sp := s1.sp + 1 } : State).sp < (stackSize : Int) := by
        show 0 ≤ s1.sp + 1 ∧ s1.sp + 1 < _; omega
      rw [exec_bind, exec_pushV_in _ _ hB']
      simp only [exec_bind, exec_bumpIp', exec_pure]
      right; right
      refine ⟨trivial, s1.sp.toNat, ?_, ?_, ?_, ?_, trivial, trivial, trivial, trivial, trivial⟩
      · have h1 := (hs1.dig s1.sp.toNat c hc).setOther (s1.sp + 1).toNat (.bool true) trivial
        exact ⟨h1.heap, h1.stack, h1.hole, h1.globals, h1.modules, h1.frames, h1.ssize⟩
      · show ((s1.sp.toNat : Nat) : Int) + 2 = s1.sp + 1 + 1; omega
      · show s1.sp + 1 + 1 ≤ _; omega
      · show ((s1.stack.set! s1.sp.toNat c).set! (s1.sp + 1).toNat (.bool true))[s1.sp.toNat + 1]! = _
        have : (s1.sp + 1).toNat = s1.sp.toNat + 1 := by omega
        rw [this]
        apply get!_set!_self
        rw [Array.set!_eq_setIfInBounds, Array.size_setIfInBounds, hs1.ssize]
        have : (stackSize : Int) = ((stackSize : Nat) : Int) := rfl
        omega
    · obtain ⟨m, hm⟩ := exec_pushV_out (.bool true)
        ({ s1 with stack := s1.stack.set! s1.sp.toNat c, sp := s1.sp + 1 } : State)
        (by show ¬ (0 ≤ s1.sp + 1 ∧ s1.sp + 1 < _); omega)
      rw [exec_bind, hm]
      right; left
      exact ⟨by show _ ≤ s1.sp + 1; omega, rfl, fun x hx => by cases hx⟩
  · obtain ⟨m, hm⟩ := exec_pushV_out c s1 hA
    rw [exec_bind, hm]
    left
    exact ⟨hs1, fun x hx => by cases hx⟩

/-- the cache lookup of LOADMODULE -/
def loadBranch (cidx midx size : Nat) (o : Option V) : M Ctl :=
  match o with
  | none => panic s!"runtime error: index out of range [{midx}] with length {size}"
  | some .nil => constAt cidx >>= fun c => pushRest c (some true) 4
  | some v => pushRest v (some false) 4

theorem execLoadModule_eq : execLoadModule =
    (opnd2 1 >>= fun cidx => opnd2 3 >>= fun midx => getS >>= fun s =>
      loadBranch cidx midx s.modules.size s.modules[midx]?) := rfl

theorem loadBranch_hit (cidx midx size : Nat) {v : V} (hv : v ≠ .nil) :
    loadBranch cidx midx size (some v) = pushRest v (some false) 4 := by
  cases v <;> first | rfl | exact absurd rfl hv

end

/-! ### the bytecode hypothesis and the step theorem -/

/-- **`PatternAt n s`** — what is assumed of the instruction about to be executed in `s`:
    * CONSTANT loads a constant that is private (a scalar, string, function, …: not an array or
      map of the shared segment);
    * a LOADMODULE whose constant is NOT private (a builtin-module map) loads something that can
      be copied and is followed by `JUMPFALSY …; STOREMODULE m` (the code `compileImportExpr`
      emits for a builtin module), the STOREMODULE being complete. -/
def PatternAt (n : Nat) (s : State) : Prop :=
  (byteAt s (s.ip + 1) = some OpConstant →
    ∀ c v, word2 s (s.ip + 2) = some c → s.consts[c]? = some v → PrivV n v) ∧
  (byteAt s (s.ip + 1) = some OpLoadModule →
    ∀ c v, word2 s (s.ip + 2) = some c → s.consts[c]? = some v → ¬ PrivV n v →
      CopyOK n v ∧ byteAt s (s.ip + 6) = some OpJumpFalsy ∧ byteAt s (s.ip + 11) = some OpStoreModule ∧
      (byteAt s (s.ip + 12)).isSome ∧ (byteAt s (s.ip + 13)).isSome)

section
variable {n : Nat} {h0 : Array Cell}

theorem loadModule_full (F : FloatOps) (s : State) (hs : Inv n h0 s) (hop : byteAt s (s.ip + 1) = some OpLoadModule)
    (hpat : PatternAt n s) : StepPost n h0 (exec (step F) s) := by
  rw [step_some F s _ hop, dispatch_loadModule]
  have hs1 := fetched_inv hs OpLoadModule
  have hip1 : (fetched s OpLoadModule).ip = s.ip + 1 := by
    obtain ⟨tr, st, e⟩ := fetched_eq s OpLoadModule; rw [e]
  have hco : (fetched s OpLoadModule).consts = s.consts := by
    obtain ⟨tr, st, e⟩ := fetched_eq s OpLoadModule; rw [e]
  have hfr : (fetched s OpLoadModule).frames = s.frames ∧ (fetched s OpLoadModule).curFrame = s.curFrame ∧
      (fetched s OpLoadModule).heap = s.heap ∧ (fetched s OpLoadModule).codes = s.codes := by
    obtain ⟨tr, st, e⟩ := fetched_eq s OpLoadModule; rw [e]; exact ⟨rfl, rfl, rfl, rfl⟩
  have hwt : ∀ i, word2 (fetched s OpLoadModule) i = word2 s i := word2_fetched s _
  generalize fetched s OpLoadModule = s1 at *
  rw [execLoadModule_eq, exec_bind_reader (reader_opnd2 1)]
  cases h1 : (exec (opnd2 1) s1).1 with
  | error e => exact StepPost.of_inv hs1
  | ok cidx =>
    simp only
    rw [exec_bind_reader (reader_opnd2 3)]
    cases h2 : (exec (opnd2 3) s1).1 with
    | error e => exact StepPost.of_inv hs1
    | ok midx =>
      simp only
      rw [exec_bind_reader reader_getS]
      simp only [show (exec getS s1).1 = .ok s1 from rfl]
      cases hm : s1.modules[midx]? with
      | none => exact StepPost.of_inv hs1
      | some v =>
        by_cases hv : v = .nil
        · subst hv
          show StepPost n h0 (exec (constAt cidx >>= fun c => pushRest c (some true) 4) s1)
          rw [exec_bind_reader (reader_constAt _)]
          cases h3 : (exec (constAt cidx) s1).1 with
          | error e => exact StepPost.of_inv hs1
          | ok c =>
            simp only
            by_cases hc : PrivV n c
            · exact StepPost.of_inv ((tr_pushRest (n := n) (h0 := h0) c hc _ _).elim s1 hs1).1
            · have hw : word2 s (s.ip + 2) = some cidx := by
                have := (exec_opnd2 s1 1 cidx).1 h1
                rw [hwt, hip1, show s.ip + 1 + 1 = s.ip + 2 by omega] at this
                exact this
              have hcs : s.consts[cidx]? = some c := by rw [← hco]; exact (exec_constAt s1 cidx c).1 h3
              obtain ⟨hcc, p1, p2, p3, p4⟩ := hpat.2 hop cidx c hw hcs hc
              rcases pushRest_hole (h0 := h0) s1 hs1 c hcc with ⟨hi, hno⟩ | ⟨htop, hheap, hno⟩ | ⟨hok, k, hih, hsp, htop, hflag, hip, hf1, hf2, hf3, hf4⟩
              · exact StepPost.of_inv hi
              · refine ⟨by rw [hheap]; exact hs1.heap, fun x hx => absurd hx (hno x), fun m _ => .inr htop⟩
              · refine ⟨hih.heap, fun x _ => ?_, fun m hm => by rw [hok] at hm; cases hm⟩
                have hb : ∀ i, byteAt (exec (pushRest c (some true) 4) s1).2 i = byteAt s i := fun i =>
                  byteAt_congr (hf1.trans hfr.1) (hf2.trans hfr.2.1) (hf3.trans hfr.2.2.1) (hf4.trans hfr.2.2.2) i
                refine .jf k hih ⟨hsp, htop, hflag, ?_, ?_, ?_, ?_⟩
                · rw [hb, hip, hip1, show s.ip + 1 + 4 + 1 = s.ip + 6 by omega]; exact p1
                · rw [hb, hip, hip1, show s.ip + 1 + 4 + 6 = s.ip + 11 by omega]; exact p2
                · rw [hb, hip, hip1, show s.ip + 1 + 4 + 7 = s.ip + 12 by omega]; exact p3
                · rw [hb, hip, hip1, show s.ip + 1 + 4 + 8 = s.ip + 13 by omega]; exact p4
        · rw [loadBranch_hit _ _ _ hv]
          have hpv : PrivV n v := hs1.modules v (Array.mem_toList_iff.mpr (Array.mem_of_getElem? hm))
          exact StepPost.of_inv ((tr_pushRest (n := n) (h0 := h0) v hpv _ _).elim s1 hs1).1

/-- **step theorem**: from a boundary state satisfying the weak invariant, one instruction
    (any opcode, any end) leaves the shared segment as it is, every heap cell well formed;
    when it completes the weak invariant holds again; when it panics either the full invariant
    holds or the stack pointer is beyond the stack (a state from which `handlePanic` does not
    resume). -/
theorem step_bnd (F : FloatOps) (s : State) (hb : Bnd n h0 s) (hpat : PatternAt n s) :
    StepPost n h0 (exec (step F) s) := by
  cases hb with
  | full hs =>
    cases hop : byteAt s (s.ip + 1) with
    | none =>
      obtain ⟨e1, e2⟩ := step_none F s hop
      refine StepPost.of_inv ?_
      rw [e1]; exact ⟨hs.heap, hs.stack, hs.globals, hs.modules, hs.frames, hs.ssize⟩
    | some op =>
      by_cases hc : op = OpConstant
      · subst hc
        rw [step_some F s _ hop, dispatch_constant]
        refine StepPost.of_inv (execConstant_inv _ (fetched_inv hs _) ?_)
        intro c v hw hv
        have hip1 : (fetched s OpConstant).ip = s.ip + 1 := by
          obtain ⟨tr, st, e⟩ := fetched_eq s OpConstant; rw [e]
        have hco : (fetched s OpConstant).consts = s.consts := by
          obtain ⟨tr, st, e⟩ := fetched_eq s OpConstant; rw [e]
        rw [word2_fetched, hip1, show s.ip + 1 + 1 = s.ip + 2 by omega] at hw
        rw [hco] at hv
        exact hpat.1 hop c v hw hv
      · by_cases hl : op = OpLoadModule
        · subst hl; exact loadModule_full F s hs hop hpat
        · rw [step_some F s _ hop]
          exact StepPost.of_inv ((tr_dispatch (n := n) (h0 := h0) F op hc hl).elim _ (fetched_inv hs op)).1
  | jf k hi hp =>
    obtain ⟨s', e, hi', hp'⟩ := jumpFalsy_hole F s k hi hp
    rw [e]
    exact ⟨hi'.heap, fun _ _ => .st k hi' hp', fun m hm => by cases hm⟩
  | st k hi hp =>
    obtain ⟨h1, h2, h3⟩ := storeModule_hole F s k hi hp
    exact ⟨h1, fun c hc => .full (h2 c hc), fun m hm => .inl (h3 m hm)⟩

end

end UgoVerif.VM
