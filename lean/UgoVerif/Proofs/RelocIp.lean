import UgoVerif.Proofs.RelocData
/-
  Relocation relation: triples whose postcondition depends on the results (`RelQ`, used for the
  `Ctl` returned by an opcode function), reading the code (`curCode`, `instAt`, operands inside the
  window of the current instruction), advancing / setting `ip`.
-/
set_option linter.unusedVariables false
set_option linter.unusedSimpArgs false
namespace UgoVerif.VM.Reloc
open UgoVerif UgoVerif.Go UgoVerif.VM

/-! ### triples with a result-dependent postcondition -/

def RelQ {α β} (A : State → State → Prop) (Q : α → β → State → State → Prop) (E : State → State → Prop)
    (m₁ : M α) (m₂ : M β) : Prop :=
  ∀ s t, A s t →
    match exec m₁ s, exec m₂ t with
    | (.ok a, s'), (.ok b, t') => Q a b s' t'
    | (.error e, s'), (.error e', t') => e = e' ∧ E s' t'
    | _, _ => False

namespace RelQ
variable {A B E : State → State → Prop}

theorem ofE {α β} {VR : α → β → Prop} {m₁ : M α} {m₂ : M β} (h : RelE A B E VR m₁ m₂) :
    RelQ A (fun a b s t => VR a b ∧ B s t) E m₁ m₂ := h.run

theorem toE {α β} {VR : α → β → Prop} {m₁ : M α} {m₂ : M β}
    (h : RelQ A (fun a b s t => VR a b ∧ B s t) E m₁ m₂) : RelE A B E VR m₁ m₂ := RelE.mk' h

theorem pure {α β} {Q : α → β → State → State → Prop} {a : α} {b : β} (h : ∀ s t, A s t → Q a b s t) :
    RelQ A Q E (Pure.pure a) (Pure.pure b) := by
  intro s t hA; exact h s t hA

theorem bind {α α' β β'} {VR : α → α' → Prop} {Q : β → β' → State → State → Prop} {m₁ : M α} {m₂ : M α'}
    {f₁ : α → M β} {f₂ : α' → M β'}
    (hm : RelE A B E VR m₁ m₂) (hf : ∀ a b, VR a b → RelQ B Q E (f₁ a) (f₂ b)) :
    RelQ A Q E (m₁ >>= f₁) (m₂ >>= f₂) := by
  intro s t hA
  have h := hm.run s t hA
  rw [exec_bind, exec_bind]
  rcases h1 : exec m₁ s with ⟨r1, s1⟩
  rcases h2 : exec m₂ t with ⟨r2, t1⟩
  rw [h1, h2] at h
  cases r1 <;> cases r2 <;> simp only at h ⊢
  · exact h
  · exact hf _ _ h.1 _ _ h.2

theorem bindEq {α β β'} {Q : β → β' → State → State → Prop} {m : M α} {f₁ : α → M β} {f₂ : α → M β'}
    (hm : RelE A B E Eq m m) (hf : ∀ a, RelQ B Q E (f₁ a) (f₂ a)) : RelQ A Q E (m >>= f₁) (m >>= f₂) :=
  bind hm (fun a b hab => by subst hab; exact hf a)

/-- general sequencing: the first action's postcondition is the precondition of the second -/
theorem bindQ {α α' β β'} {Q₁ : α → α' → State → State → Prop} {Q : β → β' → State → State → Prop}
    {m₁ : M α} {m₂ : M α'} {f₁ : α → M β} {f₂ : α' → M β'}
    (hm : RelQ A Q₁ E m₁ m₂) (hf : ∀ a b, RelQ (Q₁ a b) Q E (f₁ a) (f₂ b)) :
    RelQ A Q E (m₁ >>= f₁) (m₂ >>= f₂) := by
  intro s t hA
  have h := hm s t hA
  rw [exec_bind, exec_bind]
  rcases h1 : exec m₁ s with ⟨r1, s1⟩
  rcases h2 : exec m₂ t with ⟨r2, t1⟩
  rw [h1, h2] at h
  cases r1 <;> cases r2 <;> simp only at h ⊢
  · exact h
  · exact hf _ _ _ _ h

theorem ite {α β} {Q : α → β → State → State → Prop} {c : Prop} [Decidable c] {a₁ b₁ : M α} {a₂ b₂ : M β}
    (ha : RelQ A Q E a₁ a₂) (hb : RelQ A Q E b₁ b₂) :
    RelQ A Q E (if c then a₁ else b₁) (if c then a₂ else b₂) := by
  split <;> assumption

theorem panic {α β} {Q : α → β → State → State → Prop} (m : String) (hE : ∀ s t, A s t → E s t) :
    RelQ A Q E (VM.panic m) (VM.panic m) := by
  intro s t hA; exact ⟨rfl, hE s t hA⟩

theorem unsupported {α β} {Q : α → β → State → State → Prop} (m : String) (hE : ∀ s t, A s t → E s t) :
    RelQ A Q E (VM.unsupported m) (VM.unsupported m) := by
  intro s t hA; exact ⟨rfl, hE s t hA⟩

theorem ofFalse {α β} {Q : α → β → State → State → Prop} {m₁ : M α} {m₂ : M β} :
    RelQ (fun _ _ => False) Q E m₁ m₂ := fun _ _ h => h.elim

theorem pre {α β} {A' : State → State → Prop} {Q : α → β → State → State → Prop} {m₁ : M α} {m₂ : M β}
    (h : RelQ A Q E m₁ m₂) (hA : ∀ s t, A' s t → A s t) : RelQ A' Q E m₁ m₂ :=
  fun s t h' => h s t (hA s t h')

theorem post {α β} {Q Q' : α → β → State → State → Prop} {m₁ : M α} {m₂ : M β}
    (h : RelQ A Q E m₁ m₂) (hQ : ∀ a b s t, Q a b s t → Q' a b s t) : RelQ A Q' E m₁ m₂ := by
  intro s t hA
  have := h s t hA
  rcases h1 : exec m₁ s with ⟨r1, s1⟩
  rcases h2 : exec m₂ t with ⟨r2, t1⟩
  rw [h1, h2] at this
  cases r1 <;> cases r2 <;> simp only at this ⊢
  · exact this
  · exact hQ _ _ _ _ this

/-- a fact about the related pre-states may be used to build the triple -/
theorem assume {α β} {Q : α → β → State → State → Prop} {m₁ : M α} {m₂ : M β}
    (h : ∀ s t, A s t → RelQ (fun s' t' => s' = s ∧ t' = t) Q E m₁ m₂) : RelQ A Q E m₁ m₂ := by
  intro s t hA
  exact h s t hA s t ⟨rfl, rfl⟩

theorem elim {α β} {Q : α → β → State → State → Prop} {m₁ : M α} {m₂ : M β} (h : RelQ A Q E m₁ m₂) {s t : State}
    (hA : A s t) :
    (∃ a b s' t', exec m₁ s = (.ok a, s') ∧ exec m₂ t = (.ok b, t') ∧ Q a b s' t') ∨
    (∃ e s' t', exec m₁ s = (.error e, s') ∧ exec m₂ t = (.error e, t') ∧ E s' t') := by
  have := h s t hA
  rcases h1 : exec m₁ s with ⟨r1, s1⟩
  rcases h2 : exec m₂ t with ⟨r2, t1⟩
  rw [h1, h2] at this
  cases r1 <;> cases r2 <;> simp only at this
  · obtain ⟨he, hE⟩ := this
    subst he
    exact Or.inr ⟨_, _, _, rfl, rfl, hE⟩
  · exact Or.inl ⟨_, _, _, _, rfl, rfl, this⟩

theorem mk' {α β} {Q : α → β → State → State → Prop} {m₁ : M α} {m₂ : M β}
    (h : ∀ s t, A s t →
      match exec m₁ s, exec m₂ t with
      | (.ok a, s'), (.ok b, t') => Q a b s' t'
      | (.error e, s'), (.error e', t') => e = e' ∧ E s' t'
      | _, _ => False) : RelQ A Q E m₁ m₂ := h

end RelQ
attribute [irreducible] RelQ

/-- what one opcode function leaves: the same `Ctl`; related states; at an instruction boundary
    when the loop goes on -/
def CtlPost (P : Params) : Ctl → Ctl → State → State → Prop :=
  fun a b s t => a = b ∧ RM P s t ∧ (a = .next → RB P s t)

variable {P : Params} {ci : Nat → Nat} {c : Nat} {I : Int → Int → Prop}

theorem ctl_next_RB : RelQ (RB P) (CtlPost P) (RM P) (pure Ctl.next) (pure Ctl.next) :=
  RelQ.pure (fun s t h => ⟨rfl, h.toRM, fun _ => h⟩)

theorem ctl_ret : RelQ (R P ci c I) (CtlPost P) (RM P) (pure Ctl.ret) (pure Ctl.ret) :=
  RelQ.pure (fun s t h => ⟨rfl, h.toRM, fun e => by cases e⟩)

theorem ctl_ret_RM : RelQ (RM P) (CtlPost P) (RM P) (pure Ctl.ret) (pure Ctl.ret) :=
  RelQ.pure (fun s t h => ⟨rfl, h, fun e => by cases e⟩)

/-- data-only actions keep the boundary relation -/
theorem RelE.liftRB {α β} {VR : α → β → Prop} {m₁ : M α} {m₂ : M β}
    (h : ∀ ci c I, RelE (R P ci c I) (R P ci c I) (RM P) VR m₁ m₂) : RelE (RB P) (RB P) (RM P) VR m₁ m₂ := by
  apply RelE.mk'
  intro s t ⟨ci, c, o, hR⟩
  have := (h ci c (Ibnd P c o)).run s t hR
  rcases h1 : exec m₁ s with ⟨r1, s1⟩
  rcases h2 : exec m₂ t with ⟨r2, t1⟩
  rw [h1, h2] at this
  cases r1 <;> cases r2 <;> simp only at this ⊢
  · exact this
  · exact ⟨this.1, ci, c, o, this.2⟩

theorem RelE.liftRM {α β} {VR : α → β → Prop} {m₁ : M α} {m₂ : M β}
    (h : ∀ ci c I, RelE (R P ci c I) (R P ci c I) (RM P) VR m₁ m₂) : RelE (RM P) (RM P) (RM P) VR m₁ m₂ := by
  apply RelE.mk'
  intro s t ⟨ci, c, hR⟩
  have := (h ci c _).run s t hR
  rcases h1 : exec m₁ s with ⟨r1, s1⟩
  rcases h2 : exec m₂ t with ⟨r2, t1⟩
  rw [h1, h2] at this
  cases r1 <;> cases r2 <;> simp only at this ⊢
  · exact this
  · exact ⟨this.1, ci, c, this.2⟩

/-! ### reading the code -/

theorem exec_getIp (s : State) : exec getIp s = (.ok s.ip, s) := rfl
theorem exec_setIp (v : Int) (s : State) : exec (setIp v) s = (.ok (), { s with ip := v }) := rfl
theorem exec_bumpIp (n : Int) (s : State) : exec (bumpIp n) s = (.ok (), { s with ip := s.ip + n }) := rfl
theorem exec_curFrame (s : State) : exec curFrame s = (.ok (s.frames[s.curFrame]!), s) := rfl

theorem exec_curCode (s : State) : exec curCode s =
    match (s.frames[s.curFrame]!).fn with
    | none => (.error (.panic "runtime error: invalid memory address or nil pointer dereference"), s)
    | some a =>
      match s.heap[a]? with
      | some (.fn k _) => (.ok (s.codes[k]!), s)
      | some _ => (.error (.unsupported "model: frame function is not a function"), s)
      | none => (.error (.unsupported "model: dangling address"), s) := by
  simp only [curCode, exec_bind, exec_curFrame]
  cases hf : (s.frames[s.curFrame]!).fn with
  | none => rfl
  | some a =>
    simp only [exec_bind, exec_heapGet]
    cases hc : s.heap[a]? with
    | none => rfl
    | some x => cases x <;> rfl

/-- both sides read the code of function `c`, or fail alike -/
theorem curCode_rel {s t : State} (h : R P ci c I s t) :
    (exec curCode s = (.ok (P.cs[c]!), s) ∧ exec curCode t = (.ok (P.ct[c]!), t)) ∨
    (∃ e, exec curCode s = (.error e, s) ∧ exec curCode t = (.error e, t)) := by
  rw [exec_curCode, exec_curCode]
  have hf := h.frames s.curFrame h.cur
  rw [h.curFrame, hf.fn, h.heap]
  cases hfn : (s.frames[s.curFrame]!).fn with
  | none => exact Or.inr ⟨_, rfl, rfl⟩
  | some a =>
    simp only
    cases hc : s.heap[a]? with
    | none => exact Or.inr ⟨_, rfl, rfl⟩
    | some x =>
      cases x with
      | fn k fr =>
        have := ((h.code s.curFrame (Nat.le_refl _) a hfn).2 k fr hc).1
        rw [h.curc] at this
        subst this
        simp only [h.codesS, h.codesT]
        exact Or.inl (by constructor <;> first | rfl | trivial)
      | _ => exact Or.inr ⟨_, rfl, rfl⟩

theorem exec_instAt_ok {s : State} {code : Code} (hc : exec curCode s = (.ok code, s)) (i : Int) (n : Nat)
    (hi : i = n) (hn : n < code.insts.size) : exec (instAt i) s = (.ok (code.insts[n]!).toNat, s) := by
  subst hi
  simp only [instAt, exec_bind, hc]
  have : ¬ ((decide ((n : Int) < 0) || decide ((n : Int) ≥ (code.insts.size : Int))) = true) := by
    simp; omega
  rw [if_neg this]
  simp [exec_pure]

theorem exec_instAt_err {s : State} {e : Exc} (hc : exec curCode s = (.error e, s)) (i : Int) :
    exec (instAt i) s = (.error e, s) := by
  simp only [instAt, exec_bind, hc]

theorem exec_opnd1_ok {s : State} {code : Code} (hc : exec curCode s = (.ok code, s)) (o : Nat) (hip : s.ip = o)
    (k : Int) (kn : Nat) (hk : k = kn) (hn : o + kn < code.insts.size) :
    exec (opnd1 k) s = (.ok (code.insts[o + kn]!).toNat, s) := by
  simp only [opnd1, exec_bind, exec_getIp]
  exact exec_instAt_ok hc _ _ (by rw [hip, hk]; simp) hn

theorem exec_opnd1_err {s : State} {e : Exc} (hc : exec curCode s = (.error e, s)) (k : Int) :
    exec (opnd1 k) s = (.error e, s) := by
  simp only [opnd1, exec_bind, exec_getIp, exec_instAt_err hc]

theorem exec_opnd2_ok {s : State} {code : Code} (hc : exec curCode s = (.ok code, s)) (o : Nat) (hip : s.ip = o)
    (k : Int) (kn : Nat) (hk : k = kn) (hn : o + kn + 1 < code.insts.size) :
    exec (opnd2 k) s = (.ok (rd2 code.insts (o + kn)), s) := by
  simp only [opnd2, exec_bind, exec_getIp]
  rw [exec_instAt_ok hc _ (o + kn + 1) (by rw [hip, hk]; simp) hn]
  simp only
  rw [exec_instAt_ok hc _ (o + kn) (by rw [hip, hk]; simp) (by omega)]
  simp [exec_pure, rd2]

theorem exec_opnd2_err {s : State} {e : Exc} (hc : exec curCode s = (.error e, s)) (k : Int) :
    exec (opnd2 k) s = (.error e, s) := by
  simp only [opnd2, exec_bind, exec_getIp, exec_instAt_err hc]

theorem exec_opnd4_ok {s : State} {code : Code} (hc : exec curCode s = (.ok code, s)) (o : Nat) (hip : s.ip = o)
    (k : Int) (kn : Nat) (hk : k = kn) (hn : o + kn + 3 < code.insts.size) :
    exec (opnd4 k) s = (.ok (rd4 code.insts (o + kn)), s) := by
  simp only [opnd4, exec_bind, exec_getIp]
  rw [exec_instAt_ok hc _ (o + kn + 3) (by rw [hip, hk]; simp) hn]
  simp only
  rw [exec_instAt_ok hc _ (o + kn + 2) (by rw [hip, hk]; simp) (by omega)]
  simp only
  rw [exec_instAt_ok hc _ (o + kn + 1) (by rw [hip, hk]; simp) (by omega)]
  simp only
  rw [exec_instAt_ok hc _ (o + kn) (by rw [hip, hk]; simp) (by omega)]
  simp [exec_pure, rd4]

theorem exec_opnd4_err {s : State} {e : Exc} (hc : exec curCode s = (.error e, s)) (k : Int) :
    exec (opnd4 k) s = (.error e, s) := by
  simp only [opnd4, exec_bind, exec_getIp, exec_instAt_err hc]

/-! ### operands of an instruction that is not re-encoded -/

theorem rel_opnd1 {o w : Nat} (hw : Win (P.cs[c]!).insts (P.ct[c]!).insts (P.Φ c) o w) (k : Int) (kn : Nat)
    (hk : k = kn) (hle : kn ≤ w) :
    RelE (R P ci c (Iat P c o)) (R P ci c (Iat P c o)) (RM P) Eq (opnd1 k) (opnd1 k) := by
  apply RelE.mk'
  intro s t h
  rcases curCode_rel h with ⟨h1, h2⟩ | ⟨e, h1, h2⟩
  · rw [exec_opnd1_ok h1 o h.ip.2.1 k kn hk (by have := hw.s; omega),
      exec_opnd1_ok h2 (P.Φ c o) h.ip.2.2 k kn hk (by have := hw.t; omega)]
    exact ⟨by rw [hw.eq kn hle], h⟩
  · rw [exec_opnd1_err h1, exec_opnd1_err h2]
    exact ⟨rfl, h.toRM⟩

theorem rel_opnd2 {o w : Nat} (hw : Win (P.cs[c]!).insts (P.ct[c]!).insts (P.Φ c) o w) (k : Int) (kn : Nat)
    (hk : k = kn) (hle : kn + 1 ≤ w) :
    RelE (R P ci c (Iat P c o)) (R P ci c (Iat P c o)) (RM P) Eq (opnd2 k) (opnd2 k) := by
  apply RelE.mk'
  intro s t h
  rcases curCode_rel h with ⟨h1, h2⟩ | ⟨e, h1, h2⟩
  · rw [exec_opnd2_ok h1 o h.ip.2.1 k kn hk (by have := hw.s; omega),
      exec_opnd2_ok h2 (P.Φ c o) h.ip.2.2 k kn hk (by have := hw.t; omega)]
    refine ⟨?_, h⟩
    have e1 := hw.eq kn (by omega)
    have e2 := hw.eq (kn + 1) hle
    simp only [rd2, ← Nat.add_assoc] at e1 e2 ⊢
    rw [e1, e2]
  · rw [exec_opnd2_err h1, exec_opnd2_err h2]
    exact ⟨rfl, h.toRM⟩

/-! ### advancing and setting `ip` -/

/-- `ip += n` over the operands of the instruction at `o`: the next instruction starts at `o + n + 1` -/
theorem rel_bumpIp_next {o : Nat} (n : Int) (nn : Nat) (hn : n = nn)
    (hnext : P.BB c (o + nn + 1) ∧ P.Φ c (o + nn + 1) = P.Φ c o + nn + 1) :
    RelE (R P ci c (Iat P c o)) (RB P) (RM P) Eq (bumpIp n) (bumpIp n) := by
  apply RelE.mk'
  intro s t h
  rw [exec_bumpIp, exec_bumpIp]
  refine ⟨rfl, ci, c, o + nn + 1, { h with ip := ?_ }⟩
  refine ⟨hnext.1, ?_, ?_⟩
  · show s.ip + n + 1 = ((o + nn + 1 : Nat) : Int)
    rw [h.ip.2.1, hn]; simp
  · show t.ip + n + 1 = ((P.Φ c (o + nn + 1) : Nat) : Int)
    rw [h.ip.2.2, hn, hnext.2]; simp

/-- an instruction without operands: falling out of the `switch` is at the next boundary already -/
theorem at_to_RB {o : Nat} (hnext : P.BB c (o + 1) ∧ P.Φ c (o + 1) = P.Φ c o + 1) {s t : State}
    (h : R P ci c (Iat P c o) s t) : RB P s t := by
  refine ⟨ci, c, o + 1, { h with ip := ⟨hnext.1, ?_, ?_⟩ }⟩
  · rw [h.ip.2.1]; simp
  · rw [h.ip.2.2, hnext.2]; simp

theorem ctl_next_at {o : Nat} (hnext : P.BB c (o + 1) ∧ P.Φ c (o + 1) = P.Φ c o + 1) :
    RelQ (R P ci c (Iat P c o)) (CtlPost P) (RM P) (pure Ctl.next) (pure Ctl.next) :=
  RelQ.pure (fun s t h => ⟨rfl, h.toRM, fun _ => at_to_RB hnext h⟩)

/-- `vm.ip = target - 1` with related targets -/
theorem rel_setIp_target {I : Int → Int → Prop} (a b : Int) (n : Nat) (hB : P.BB c n) (ha : a = n) (hb : b = P.Φ c n) :
    RelE (R P ci c I) (RB P) (RM P) Eq (setIp (a - 1)) (setIp (b - 1)) := by
  apply RelE.mk'
  intro s t h
  rw [exec_setIp, exec_setIp]
  refine ⟨rfl, ci, c, n, { h with ip := ⟨hB, ?_, ?_⟩ }⟩
  · show a - 1 + 1 = (n : Int); omega
  · show b - 1 + 1 = ((P.Φ c n : Nat) : Int); omega

/-- `failWith` (proved in `Proofs/RelocThrow.lean`; a hypothesis of the opcode lemmas so that the files
    do not depend on each other) -/
abbrev FailOK (P : Params) : Prop := ∀ e, RelQ (RM P) (CtlPost P) (RM P) (failWith e) (failWith e)

end UgoVerif.VM.Reloc
