import UgoVerif.Proofs.C08Prims
/-
  C08, shared heap segment: `Tr` lemmas for the value operations, the error path and calls
  (VM/Base.lean, VM/Step.lean up to `callAny`).
-/
set_option linter.unusedVariables false
set_option linter.unusedSimpArgs false
set_option maxHeartbeats 1600000
namespace UgoVerif.VM
open UgoVerif UgoVerif.Go

macro_rules | `(tactic| tr_prim) => `(tactic| exact Tr.modS (fun _ h => ⟨h.heap, h.stack, h.globals, h.modules, h.frames, h.ssize⟩))
macro_rules | `(tactic| tr_prim) => `(tactic| refine Tr.modS (fun _ h => ⟨h.heap, h.stack, h.globals, h.modules, (Inv.modFrame h _ _ ?_).frames, h.ssize⟩))

/-! ### small facts -/

@[simp] theorem free_setLast (f : Frame) (g : Handler → Handler) : (setLast f g).free = f.free := by
  unfold setLast; split <;> rfl
@[simp] theorem free_popHandler (f : Frame) : (popHandler f).free = f.free := by
  unfold popHandler; split <;> rfl

theorem privV_slice {n : Nat} {st : List V} (h : ∀ v ∈ st, PrivV n v) (i j : Nat) :
    ∀ v ∈ (st.drop i).take j, PrivV n v :=
  fun v hv => h v (List.mem_of_mem_drop (List.mem_of_mem_take hv))

theorem privV_list_get! {n : Nat} {xs : List V} (h : ∀ v ∈ xs, PrivV n v) (i : Nat) : PrivV n xs[i]! := by
  by_cases hi : i < xs.length
  · rw [getElem!_pos xs i hi]; exact h _ (by simp)
  · rw [getElem!_neg xs i hi]; exact privV_default n

theorem ofScalarVal_priv {n : Nat} {x : Val} {v : V} (h : ofScalarVal x = some v) : PrivV n v := by
  cases x <;> simp [ofScalarVal] at h <;> subst h <;> trivial

theorem lookupKV_mem {k : Bytes} {kvs : List (Bytes × V)} {v : V} (h : lookupKV k kvs = some v) :
    ∃ k', (k', v) ∈ kvs := by
  induction kvs with
  | nil => simp [lookupKV] at h
  | cons p r ih =>
    obtain ⟨k', v'⟩ := p
    simp only [lookupKV] at h
    split at h
    · simp at h; subst h; exact ⟨k', by simp⟩
    · obtain ⟨k'', hk⟩ := ih h; exact ⟨k'', by simp [hk]⟩

theorem mem_insertKV {k : Bytes} {v : V} {kvs : List (Bytes × V)} {p : Bytes × V} (h : p ∈ insertKV k v kvs) :
    p ∈ kvs ∨ p = (k, v) := by
  induction kvs with
  | nil => simp [insertKV] at h; exact Or.inr h
  | cons q r ih =>
    obtain ⟨k', v'⟩ := q
    simp only [insertKV] at h
    split at h
    · simp at h
      rcases h with h | h
      · exact Or.inr h
      · exact Or.inl (by simp [h])
    · simp at h
      rcases h with h | h
      · exact Or.inl (by simp [h])
      · rcases ih h with h | h
        · exact Or.inl (by simp [h])
        · exact Or.inr h

theorem cellOK_arr_set {n a : Nat} {xs : Array V} (h : CellOK n a (.arr xs)) (i : Nat) (v : V) (hv : PrivV n v) :
    CellOK n a (.arr (xs.set! i v)) := by
  intro x hx
  rw [Array.set!_eq_setIfInBounds, Array.toList_setIfInBounds] at hx
  rcases List.mem_or_eq_of_mem_set hx with h1 | h1
  · exact h x h1
  · subst h1; exact ⟨hv.copyOK, fun _ => hv⟩

theorem cellOK_map_insert {n a : Nat} {kvs : List (Bytes × V)} (h : CellOK n a (.map kvs)) (k : Bytes) (v : V)
    (hv : PrivV n v) : CellOK n a (.map (insertKV k v kvs)) := by
  intro p hp
  rcases mem_insertKV hp with h1 | h1
  · exact h p h1
  · subst h1; exact ⟨hv.copyOK, fun _ => hv⟩

theorem cellOK_arr_of {n : Nat} {xs : List V} (h : ∀ x ∈ xs, PrivV n x) (a : Nat) : CellOK n a (.arr xs.toArray) := by
  intro x hx
  have := h x (by simpa using hx)
  exact ⟨this.copyOK, fun _ => this⟩


theorem privV_elems_get! {n a : Nat} {xs : List V} (h : n ≤ a → ∀ x ∈ xs, PrivV n x) (ha : n ≤ a) (i : Nat) :
    PrivV n xs[i]! := privV_list_get! (h ha) i

theorem privV_lookup {n a : Nat} {k : Bytes} {kvs : List (Bytes × V)} {v : V}
    (h : n ≤ a → ∀ p ∈ kvs, PrivV n p.2) (ha : n ≤ a) (hl : lookupKV k kvs = some v) : PrivV n v := by
  obtain ⟨k', hk⟩ := lookupKV_mem hl
  exact h ha _ hk

theorem cellOK_map_of {n a : Nat} {kvs : List (Bytes × V)} (h : n ≤ a → ∀ p ∈ kvs, PrivV n p.2) (ha : n ≤ a) :
    CellOK n a (.map kvs) := fun p hp => ⟨(h ha p hp).copyOK, fun _ => h ha p hp⟩

theorem free_le {n : Nat} {f : Frame} {fr : List Addr} {i : Nat} {a : Addr} (hf : good n f) (h1 : f.free = some fr)
    (h2 : fr[i]? = some a) : n ≤ a := hf fr h1 a (List.mem_of_getElem? h2)

theorem good_insertKV {n : Nat} {k : Bytes} {v : V} {b : List (Bytes × V)} (hb : good n b) (hv : PrivV n v) :
    good n (insertKV k v b) := by
  intro p hp
  rcases mem_insertKV hp with h | h
  · exact hb p h
  · subst h; exact ⟨trivial, hv⟩

theorem cellOK_map_good {n : Nat} {kvs : List (Bytes × V)} (h : good n kvs) (a : Nat) : CellOK n a (.map kvs) :=
  fun p hp => ⟨(h p hp).2.copyOK, fun _ => (h p hp).2⟩

/-- `n ≤ a` from a hypothesis `PrivV n (.arr a ..)` etc. -/
syntax "le_tac" : tactic
macro_rules | `(tactic| le_tac) => `(tactic|
  first
  | assumption
  | omega
  | exact free_le (by assumption) (by assumption) (by assumption)
  | (simp only [PrivV, good_V, CopyOK, GoodIterK, CellOK] at *; first | assumption | omega | (simp_all; done)))

macro_rules | `(tactic| good_tac) => `(tactic|
  ((try simp only [good_except, good_V, Except.ok.injEq, forall_eq']); exact ofScalarVal_priv (by assumption)))
macro_rules | `(tactic| good_tac) => `(tactic|
  ((try simp only [good_except, good_V, Except.ok.injEq, forall_eq']); exact privV_elems_get! (by assumption) (by le_tac) _))
macro_rules | `(tactic| good_tac) => `(tactic|
  ((try simp only [good_except, good_V, Except.ok.injEq, forall_eq']); exact privV_lookup (by assumption) (by le_tac) (by assumption)))
macro_rules | `(tactic| good_tac) => `(tactic|
  (intro a _; refine cellOK_arr_of ?_ a; intro x hx; simp only [PrivV] at *
   simp only [List.mem_append, List.mem_singleton, List.mem_cons] at hx
   rcases hx with hx | hx <;> simp_all))
macro_rules | `(tactic| good_tac) => `(tactic| exact cellOK_arr_set (by assumption) _ _ (by assumption))
macro_rules | `(tactic| good_tac) => `(tactic|
  exact cellOK_map_insert (cellOK_map_of (by assumption) (by le_tac)) _ _ (by assumption))
macro_rules | `(tactic| good_tac) => `(tactic|
  (intro x hx
   try replace hx := List.mem_of_mem_take hx
   try replace hx := List.mem_of_mem_drop hx
   try simp only [List.mem_append, List.mem_cons, List.mem_singleton, List.mem_replicate] at hx
   try simp only [good_listV, good_option, good_V] at *
   first
   | (simp_all [PrivV]; done)
   | (rcases hx with hx | hx <;> simp_all [PrivV]; done)
   | (rcases hx with hx | hx | hx <;> simp_all [PrivV]; done)))
macro_rules | `(tactic| good_tac) => `(tactic| exact Inv.globals (by assumption))
macro_rules | `(tactic| good_tac) => `(tactic| exact good_insertKV (by assumption) (by assumption))
macro_rules | `(tactic| good_tac) => `(tactic| exact fun a _ => cellOK_map_good (by assumption) a)
macro_rules | `(tactic| good_tac) => `(tactic| (simp only [PrivV]; le_tac))
macro_rules | `(tactic| good_tac) => `(tactic| le_tac)
macro_rules | `(tactic| good_tac) => `(tactic|
  exact (by assumption : CellOK _ _ (Cell.box _)) (free_le (by assumption) (by assumption) (by assumption)))

section
variable {n : Nat} {h0 : Array Cell}

/-! ### stack helpers -/

theorem tr_clearDown (hi lo : Int) : Tr n h0 (good n) (clearDown hi lo) := by unfold clearDown; trsg
macro_rules | `(tactic| tr_prim) => `(tactic| exact tr_clearDown _ _)

theorem tr_searchFrames (k : Nat) : Tr n h0 (good n) (searchFrames k) := by
  induction k with
  | zero => unfold searchFrames; trsg
  | succ k ih => unfold searchFrames; trsg
macro_rules | `(tactic| tr_prim) => `(tactic| exact tr_searchFrames _)

theorem tr_pushV (v : V) (hv : PrivV n v) : Tr n h0 (good n) (pushV v) := by unfold pushV; trsg
macro_rules | `(tactic| tr_prim) => `(tactic| refine tr_pushV _ ?_)
theorem tr_bumpIp (k : Int) : Tr n h0 (good n) (bumpIp k) := by unfold bumpIp; trsg
macro_rules | `(tactic| tr_prim) => `(tactic| exact tr_bumpIp _)
theorem tr_jumpTarget : Tr n h0 (good n) jumpTarget := by unfold jumpTarget; trsg
macro_rules | `(tactic| tr_prim) => `(tactic| exact tr_jumpTarget)
theorem tr_clearCurrentFrame : Tr n h0 (good n) clearCurrentFrame := by unfold clearCurrentFrame; trsg
macro_rules | `(tactic| tr_prim) => `(tactic| exact tr_clearCurrentFrame)
theorem tr_fnCell (a : Addr) : Tr n h0 (good n) (fnCell a) := by unfold fnCell; trsg
macro_rules | `(tactic| tr_prim) => `(tactic| exact tr_fnCell _)

theorem tr_stackSlice (lo hi : Int) : Tr n h0 (good n) (stackSlice lo hi) := by
  unfold stackSlice; trs
  rename_i s hs
  exact privV_slice hs.stack _ _
macro_rules | `(tactic| tr_prim) => `(tactic| exact tr_stackSlice _ _)

theorem tr_newArray (xs : List V) (hx : ∀ x ∈ xs, PrivV n x) : Tr n h0 (good n) (newArray xs) := by
  unfold newArray; trs
  · intro a _; exact cellOK_arr_of hx a
  · good_tac
macro_rules | `(tactic| tr_prim) => `(tactic| refine tr_newArray _ ?_)

theorem tr_copyToStack (at_ : Int) (xs : List V) (hx : ∀ x ∈ xs, PrivV n x) : Tr n h0 (good n) (copyToStack at_ xs) := by
  unfold copyToStack; trsg
macro_rules | `(tactic| tr_prim) => `(tactic| refine tr_copyToStack _ _ ?_)
theorem tr_fillUndefined (lo : Int) (k : Nat) : Tr n h0 (good n) (fillUndefined lo k) := by unfold fillUndefined; trsg
macro_rules | `(tactic| tr_prim) => `(tactic| exact tr_fillUndefined _ _)
theorem tr_copySlots (d : Int) (xs : List V) (hx : ∀ x ∈ xs, PrivV n x) : Tr n h0 (good n) (copySlots d xs) := by
  unfold copySlots; trsg
macro_rules | `(tactic| tr_prim) => `(tactic| refine tr_copySlots _ _ ?_)
theorem tr_enterFrame (fi : Nat) (fa : Addr) (fr : Option (List Addr)) (bp : Int) (hfr : good n fr) :
    Tr n h0 (good n) (enterFrame fi fa fr bp) := by
  unfold enterFrame; trsg
macro_rules | `(tactic| tr_prim) => `(tactic| refine tr_enterFrame _ _ _ _ ?_)
theorem tr_popArgs (k : Nat) : Tr n h0 (good n) (popArgs k) := by unfold popArgs; trsg
macro_rules | `(tactic| tr_prim) => `(tactic| exact tr_popArgs _)

/-! ### errors -/

theorem tr_mkErr (a b : String) (c : Option Addr) : Tr n h0 (good n) (mkErr a b c) := by
  unfold mkErr
  refine Tr.weaken (tr_alloc _ ?_) (fun _ _ => trivial)
  intro a _; trivial
macro_rules | `(tactic| tr_prim) => `(tactic| exact tr_mkErr _ _ _)
theorem tr_allocRterr (e : Option Addr) : Tr n h0 (good n) (alloc (.rterr e)) :=
  Tr.weaken (tr_alloc _ (fun _ _ => trivial)) (fun _ _ => trivial)
macro_rules | `(tactic| tr_prim) => `(tactic| exact tr_allocRterr _)
theorem tr_allocErr (a b : Bytes) (c : Option Addr) : Tr n h0 (good n) (alloc (.err a b c)) :=
  Tr.weaken (tr_alloc _ (fun _ _ => trivial)) (fun _ _ => trivial)
macro_rules | `(tactic| tr_prim) => `(tactic| exact tr_allocErr _ _ _)
theorem tr_rtErrOfOpErr (e : OpErr) : Tr n h0 (good n) (rtErrOfOpErr e) := by unfold rtErrOfOpErr; trsg
macro_rules | `(tactic| tr_prim) => `(tactic| exact tr_rtErrOfOpErr _)

theorem tr_throwF_handle (fuel : Nat) (h : ∀ e, Tr n h0 (good n) (throwF fuel e)) (err : Addr) :
    Tr n h0 (good n) (throwF.handle fuel err) := by
  have h' := h err
  unfold throwF.handle; trsg
theorem tr_throwF (fuel : Nat) : ∀ err, Tr n h0 (good n) (throwF fuel err) := by
  induction fuel with
  | zero => intro err; unfold throwF; trsg
  | succ k ih =>
    intro err
    have hh := tr_throwF_handle (n := n) (h0 := h0) k ih err
    unfold throwF; trsg
macro_rules | `(tactic| tr_prim) => `(tactic| exact tr_throwF _ _)
theorem tr_throwFuel : Tr n h0 (good n) throwFuel := by unfold throwFuel; trsg
macro_rules | `(tactic| tr_prim) => `(tactic| exact tr_throwFuel)
theorem tr_throwGenErr (e : OpErr) : Tr n h0 (good n) (throwGenErr e) := by unfold throwGenErr; trsg
macro_rules | `(tactic| tr_prim) => `(tactic| exact tr_throwGenErr _)
theorem tr_failWith (e : OpErr) : Tr n h0 (good n) (failWith e) := by unfold failWith; trsg
macro_rules | `(tactic| tr_prim) => `(tactic| exact tr_failWith _)
theorem tr_findFinally (fuel : Nat) : ∀ upto, Tr n h0 (good n) (findFinally fuel upto) := by
  induction fuel with
  | zero => intro u; unfold findFinally; trsg
  | succ k ih => intro u; have ih' := ih u; unfold findFinally; trsg
macro_rules | `(tactic| tr_prim) => `(tactic| exact tr_findFinally _ _)

/-! ### value operations -/

theorem tr_vString (v : V) : Tr n h0 (good n) (vString v) := by unfold vString; trsg
macro_rules | `(tactic| tr_prim) => `(tactic| exact tr_vString _)
theorem tr_isFalsy (v : V) : Tr n h0 (good n) (isFalsy v) := by unfold isFalsy; trsg
macro_rules | `(tactic| tr_prim) => `(tactic| exact tr_isFalsy _)
theorem tr_vEqual (F : FloatOps) (l r : V) : Tr n h0 (good n) (vEqual F l r) := by unfold vEqual; trsg
macro_rules | `(tactic| tr_prim) => `(tactic| exact tr_vEqual _ _ _)

theorem tr_vBinaryOp (F : FloatOps) (tok : Tok) (l r : V) (hl : PrivV n l) (hr : PrivV n r) :
    Tr n h0 (good n) (vBinaryOp F tok l r) := by
  unfold vBinaryOp; trsg
macro_rules | `(tactic| tr_prim) => `(tactic| refine tr_vBinaryOp _ _ _ _ ?_ ?_)
theorem tr_vUnary (F : FloatOps) (tok : Tok) (r : V) (hr : PrivV n r) : Tr n h0 (good n) (vUnary F tok r) := by
  unfold vUnary; trsg
macro_rules | `(tactic| tr_prim) => `(tactic| refine tr_vUnary _ _ _ ?_)
theorem tr_vIndexGet (t i : V) (ht : PrivV n t) : Tr n h0 (good n) (vIndexGet t i) := by
  unfold vIndexGet; trsg
macro_rules | `(tactic| tr_prim) => `(tactic| refine tr_vIndexGet _ _ ?_)
theorem tr_vIndexSet (t i v : V) (ht : PrivV n t) (hv : PrivV n v) : Tr n h0 (good n) (vIndexSet t i v) := by
  unfold vIndexSet; trsg
macro_rules | `(tactic| tr_prim) => `(tactic| refine tr_vIndexSet _ _ _ ?_ ?_)

/-! ### calls -/

theorem tr_bindArgs (code : Code) (bp na fl : Int) : Tr n h0 (good n) (bindArgs code bp na fl) := by
  unfold bindArgs; trsg
macro_rules | `(tactic| tr_prim) => `(tactic| exact tr_bindArgs _ _ _ _)
theorem tr_callCompiled (fa : Addr) (na fl : Int) : Tr n h0 (good n) (callCompiled fa na fl) := by
  unfold callCompiled; trsg
macro_rules | `(tactic| tr_prim) => `(tactic| exact tr_callCompiled _ _ _)
theorem tr_callBuiltin (i : Nat) (args : List V) (hargs : ∀ x ∈ args, PrivV n x) :
    Tr n h0 (good n) (callBuiltin i args) := by
  unfold callBuiltin; trsg
macro_rules | `(tactic| tr_prim) => `(tactic| refine tr_callBuiltin _ _ ?_)
theorem tr_callObject (c : V) (na fl : Int) : Tr n h0 (good n) (callObject c na fl) := by
  unfold callObject; trsg
macro_rules | `(tactic| tr_prim) => `(tactic| exact tr_callObject _ _ _)
theorem tr_callAny (c : V) (na fl : Int) : Tr n h0 (good n) (callAny c na fl) := by unfold callAny; trsg
macro_rules | `(tactic| tr_prim) => `(tactic| exact tr_callAny _ _ _)

end
end UgoVerif.VM
