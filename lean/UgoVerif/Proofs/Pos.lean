import UgoVerif.Model.Trace
/-
  Helper lemmas for C16 (binary search, line tables, file sets, source maps).
  Property theorems are in Props/C16.lean.
-/
namespace UgoVerif.Proofs.Pos
open UgoVerif.Go UgoVerif.Model

/-- nondecreasing table (what the binary search needs) -/
def Mono (a : List Int) : Prop :=
  ∀ (i j : Nat) (vi vj : Int), i ≤ j → a[i]? = some vi → a[j]? = some vj → vi ≤ vj

/-- a midpoint function that stays inside the interval -/
def GoodMid (mid : Nat → Nat → Nat) : Prop := ∀ i j, i < j → i ≤ mid i j ∧ mid i j < j

theorem goodMid_ints : GoodMid midInts := by
  intro i j h; unfold midInts; constructor
  · omega
  · have : (j - i) / 2 < j - i := Nat.div_lt_self (by omega) (by decide)
    omega

theorem goodMid_sort : GoodMid midSort := by
  intro i j h; unfold midSort; constructor <;> omega

/-- the two midpoint computations agree -/
theorem mid_eq (i j : Nat) (h : i ≤ j) : midSort i j = midInts i j := by
  unfold midSort midInts; omega

theorem pairwise_mono {a : List Int} (h : a.Pairwise (· < ·)) : Mono a := by
  intro i j vi vj hij hi hj
  rcases Nat.lt_or_eq_of_le hij with hlt | heq
  · have hi' := List.getElem?_eq_some_iff.mp hi
    have hj' := List.getElem?_eq_some_iff.mp hj
    obtain ⟨hil, hie⟩ := hi'
    obtain ⟨hjl, hje⟩ := hj'
    have := (List.pairwise_iff_getElem.mp h) i j hil hjl hlt
    omega
  · subst heq
    rw [hi] at hj
    cases hj
    exact Int.le_refl _

/-- The loop invariant of the binary search: everything left of `i` is `≤ x`,
    everything from `j` on is `> x`; the loop ends (for any fuel `≥ j - i`) at the
    boundary `r`. -/
theorem bsLoop_spec (mid : Nat → Nat → Nat) (hm : GoodMid mid) (a : List Int) (x : Int)
    (hs : Mono a) :
    ∀ fuel i j, j - i ≤ fuel → i ≤ j → j ≤ a.length →
      (∀ k v, k < i → a[k]? = some v → v ≤ x) →
      (∀ k v, j ≤ k → a[k]? = some v → x < v) →
      ∃ r, bsLoop mid a x fuel i j = .ok r ∧ i ≤ r ∧ r ≤ j ∧
        (∀ k v, k < r → a[k]? = some v → v ≤ x) ∧
        (∀ k v, r ≤ k → a[k]? = some v → x < v) := by
  intro fuel
  induction fuel with
  | zero =>
    intro i j hf hij hj hl hr
    have : i = j := by omega
    subst this
    exact ⟨i, by simp [bsLoop], Nat.le_refl _, Nat.le_refl _, hl, hr⟩
  | succ n ih =>
    intro i j hf hij hj hl hr
    by_cases hlt : i < j
    · obtain ⟨hm1, hm2⟩ := hm i j hlt
      have hh : mid i j < a.length := by omega
      have hv : a[mid i j]? = some (a[mid i j]) := List.getElem?_eq_getElem hh
      by_cases hle : a[mid i j] ≤ x
      · have := ih (mid i j + 1) j (by omega) (by omega) hj
          (by
            intro k v hk hkv
            have := hs k (mid i j) v _ (by omega) hkv hv
            omega)
          hr
        obtain ⟨r, h1, h2, h3, h4, h5⟩ := this
        refine ⟨r, ?_, by omega, h3, h4, h5⟩
        rw [bsLoop]; simp [hlt, hv, hle, h1]
      · have := ih i (mid i j) (by omega) (by omega) (by omega) hl
          (by
            intro k v hk hkv
            have := hs (mid i j) k _ v hk hv hkv
            omega)
        obtain ⟨r, h1, h2, h3, h4, h5⟩ := this
        refine ⟨r, ?_, h2, by omega, h4, h5⟩
        rw [bsLoop]; simp [hlt, hv, hle, h1]
    · have : i = j := by omega
      subst this
      refine ⟨i, ?_, Nat.le_refl _, Nat.le_refl _, hl, hr⟩
      rw [bsLoop]; simp

/-- `searchInts` on a nondecreasing table: never panics, returns `r - 1` where `r`
    is the number of entries `≤ x`. -/
theorem searchInts_spec (a : List Int) (x : Int) (hs : Mono a) :
    ∃ r : Nat, searchInts a x = .ok ((r : Int) - 1) ∧ r ≤ a.length ∧
      (∀ k v, k < r → a[k]? = some v → v ≤ x) ∧
      (∀ k v, r ≤ k → a[k]? = some v → x < v) := by
  obtain ⟨r, h1, _, h3, h4, h5⟩ :=
    bsLoop_spec midInts goodMid_ints a x hs a.length 0 a.length (by omega) (by omega) (Nat.le_refl _)
      (by intro k v hk; omega)
      (by
        intro k v hk hkv
        have := (List.getElem?_eq_some_iff.mp hkv).1
        omega)
  exact ⟨r, by simp [searchInts, h1, bind, Res.bind], h3, h4, h5⟩

theorem searchFiles_spec (fs : List SrcFile) (x : Int) (hs : Mono (fs.map (·.base))) :
    ∃ r : Nat, searchFiles fs x = .ok ((r : Int) - 1) ∧ r ≤ fs.length ∧
      (∀ k f, k < r → fs[k]? = some f → f.base ≤ x) ∧
      (∀ k f, r ≤ k → fs[k]? = some f → x < f.base) := by
  obtain ⟨r, h1, _, h3, h4, h5⟩ :=
    bsLoop_spec midSort goodMid_sort (fs.map (·.base)) x hs fs.length 0 fs.length (by omega) (by omega)
      (by simp)
      (by intro k v hk; omega)
      (by
        intro k v hk hkv
        have := (List.getElem?_eq_some_iff.mp hkv).1
        simp at this
        omega)
  refine ⟨r, by simp [searchFiles, h1, bind, Res.bind], by simpa using h3, ?_, ?_⟩
  · intro k f hk hf
    exact h4 k f.base hk (by simp [hf])
  · intro k f hk hf
    exact h5 k f.base hk (by simp [hf])


/-! ### line tables -/

/-- well-formed line table of a file of `size` bytes: starts with 0, strictly
    increasing, every later line start lies inside the text -/
structure WFLines (ls : List Int) (size : Int) : Prop where
  first : ls[0]? = some 0
  strict : ls.Pairwise (· < ·)
  bound : ∀ v ∈ ls, v = 0 ∨ v < size

/-- `unpack` on a well-formed table, any offset ≥ 0: the 0-based index `L` of the
    unique line with `start L ≤ offset < start (L+1)`; reported line `L+1`,
    column `offset - start L + 1`. -/
theorem unpack_spec (f : SrcFile) (hwf : WFLines f.lines f.size) (offset : Int) (h0 : 0 ≤ offset) :
    ∃ (L : Nat) (start : Int),
      unpack f offset = .ok ((L : Int) + 1, offset - start + 1) ∧
      f.lines[L]? = some start ∧ start ≤ offset ∧
      (∀ nxt, f.lines[L+1]? = some nxt → offset < nxt) ∧
      (∀ (L' : Nat) (s' : Int), f.lines[L']? = some s' → s' ≤ offset →
        (∀ nxt, f.lines[L'+1]? = some nxt → offset < nxt) → L' = L) := by
  obtain ⟨r, h1, h2, h3, h4⟩ := searchInts_spec f.lines offset (pairwise_mono hwf.strict)
  have hr : 1 ≤ r := by
    rcases Nat.eq_zero_or_pos r with h | h
    · subst h
      have := h4 0 0 (Nat.le_refl _) hwf.first
      omega
    · exact h
  have hlen : r - 1 < f.lines.length := by omega
  have hv : f.lines[r - 1]? = some (f.lines[r - 1]) := List.getElem?_eq_getElem hlen
  refine ⟨r - 1, f.lines[r - 1], ?_, hv, ?_, ?_, ?_⟩
  · have e1 : ((r : Int) - 1).toNat = r - 1 := by omega
    have e2 : ((r : Int) - 1) ≥ 0 := by omega
    have e3 : ((r - 1 : Nat) : Int) + 1 = (r : Int) - 1 + 1 := by omega
    simp [unpack, h1, bind, Res.bind, e1, hv, e3]
    intro hc; omega
  · exact h3 (r - 1) _ (by omega) hv
  · intro nxt hn
    exact h4 (r - 1 + 1) nxt (by omega) hn
  · intro L' s' hs' hle hnext
    have hL' : L' < r := by
      rcases Nat.lt_or_ge L' r with h | h
      · exact h
      · have := h4 L' s' h hs'
        omega
    rcases Nat.lt_or_ge (L' + 1) r with h | h
    · have hl2 : L' + 1 < f.lines.length := by omega
      have := hnext _ (List.getElem?_eq_getElem hl2)
      have := h3 (L' + 1) _ h (List.getElem?_eq_getElem hl2)
      omega
    · omega

/-! ### file sets -/

/-- files laid out at increasing bases, ranges `[base, base+size]` pairwise
    disjoint and below the set's next base -/
structure WFSet (s : FileSet) : Prop where
  sizes : ∀ f ∈ s.files, 0 ≤ f.size
  disjoint : s.files.Pairwise (fun (f g : SrcFile) => f.base + f.size < g.base)
  below : ∀ f ∈ s.files, f.base + f.size < s.base

theorem wfset_mono {s : FileSet} (h : WFSet s) : Mono (s.files.map (·.base)) := by
  intro i j vi vj hij hi hj
  rcases Nat.lt_or_eq_of_le hij with hlt | heq
  · obtain ⟨hil, hie⟩ := List.getElem?_eq_some_iff.mp hi
    obtain ⟨hjl, hje⟩ := List.getElem?_eq_some_iff.mp hj
    simp at hil hjl hie hje
    have hp := (List.pairwise_iff_getElem.mp h.disjoint) i j hil hjl hlt
    have hsz := h.sizes (s.files[i]) (List.getElem_mem hil)
    omega
  · subst heq
    rw [hi] at hj
    cases hj
    exact Int.le_refl _

/-- in a well-formed set the file containing a position is unique -/
theorem file_unique {s : FileSet} (h : WFSet s) (p : Int) (i j : Nat) (fi fj : SrcFile)
    (hi : s.files[i]? = some fi) (hj : s.files[j]? = some fj)
    (hpi : fi.base ≤ p ∧ p ≤ fi.base + fi.size) (hpj : fj.base ≤ p ∧ p ≤ fj.base + fj.size) :
    i = j := by
  obtain ⟨hil, hie⟩ := List.getElem?_eq_some_iff.mp hi
  obtain ⟨hjl, hje⟩ := List.getElem?_eq_some_iff.mp hj
  rcases Nat.lt_trichotomy i j with hlt | heq | hgt
  · have hp := (List.pairwise_iff_getElem.mp h.disjoint) i j hil hjl hlt
    rw [hie, hje] at hp
    omega
  · exact heq
  · have hp := (List.pairwise_iff_getElem.mp h.disjoint) j i hjl hil hgt
    rw [hie, hje] at hp
    omega

/-- `SourceFileSet.file` on a well-formed set, whatever the `LastFile` cache holds:
    no panic; the answer is `some i` exactly when file `i` contains `p`; only the
    cache changes. -/
theorem fileOf_spec (s : FileSet) (h : WFSet s) (p : Int) :
    ∃ r s', fileOf s p = .ok (r, s') ∧ s'.files = s.files ∧ s'.base = s.base ∧
      (∀ i : Nat, r = some i → ∃ f : SrcFile, s.files[i]? = some f ∧ f.base ≤ p ∧ p ≤ f.base + f.size) ∧
      (r = none → ∀ (i : Nat) (f : SrcFile), s.files[i]? = some f → ¬ (f.base ≤ p ∧ p ≤ f.base + f.size)) := by
  -- cache hit?
  by_cases hhit : ∃ (li : Nat) (f : SrcFile), s.last = some li ∧ s.files[li]? = some f ∧ f.base ≤ p ∧ p ≤ f.base + f.size
  · obtain ⟨li, f, hl, hf, hb1, hb2⟩ := hhit
    refine ⟨some li, s, ?_, rfl, rfl, ?_, by simp⟩
    · simp [fileOf, cacheHit, hl, hf, hb1, hb2]
    · intro i hi; cases hi; exact ⟨f, hf, hb1, hb2⟩
  · have hmiss : cacheHit s p = none := by
      unfold cacheHit
      cases hl : s.last with
      | none => rfl
      | some li =>
        cases hf : s.files[li]? with
        | none => simp [hf]
        | some f =>
          by_cases hc : f.base ≤ p ∧ p ≤ f.base + f.size
          · exact absurd ⟨li, f, hl, hf, hc.1, hc.2⟩ hhit
          · simp [hf, hc]
    obtain ⟨r, h1, h2, h3, h4⟩ := searchFiles_spec s.files p (wfset_mono h)
    rcases Nat.eq_zero_or_pos r with hr0 | hrpos
    · subst hr0
      refine ⟨none, s, ?_, rfl, rfl, by simp, ?_⟩
      · simp only [fileOf, hmiss]
        simp [h1, bind, Res.bind]
      · intro _ i f hf hc
        have := h4 i f (Nat.zero_le _) hf
        omega
    · have hlen : r - 1 < s.files.length := by omega
      have hv : s.files[r - 1]? = some (s.files[r - 1]) := List.getElem?_eq_getElem hlen
      have e1 : ((r : Int) - 1).toNat = r - 1 := by omega
      have e2 : ((r : Int) - 1) ≥ 0 := by omega
      by_cases hin : p ≤ (s.files[r - 1]).base + (s.files[r - 1]).size
      · refine ⟨some (r - 1), s, ?_, rfl, rfl, ?_, by simp⟩
        · simp only [fileOf, hmiss]
          simp [h1, bind, Res.bind, e1, hv, hin]
          try omega
        · intro i hi; cases hi
          exact ⟨_, hv, h3 (r - 1) _ (by omega) hv, hin⟩
      · refine ⟨none, s, ?_, rfl, rfl, by simp, ?_⟩
        · simp only [fileOf, hmiss]
          simp [h1, bind, Res.bind, e1, hv, hin]
          try omega
        · intro _ i f hf hc
          rcases Nat.lt_or_ge i r with hlt | hge
          · rcases Nat.lt_or_eq_of_le (Nat.le_pred_of_lt hlt) with hlt2 | heq
            · -- i < r - 1 : file i ends before file r-1 begins, and p ≥ base (r-1)
              obtain ⟨hil, hie⟩ := List.getElem?_eq_some_iff.mp hf
              have hp := (List.pairwise_iff_getElem.mp h.disjoint) i (r - 1) hil hlen hlt2
              have := h3 (r - 1) _ (by omega) hv
              rw [hie] at hp
              omega
            · have : i = r - 1 := heq
              subst this
              rw [hv] at hf
              cases hf
              omega
          · have := h4 i f hge hf
            omega

/-! ### source maps -/

theorem sourcePosN_spec (sm : SourceMap) :
    ∀ n : Nat,
      (∀ (k : Nat) (v : Int), k ≤ n → smLookup sm (k : Int) = some v →
        (∀ k' : Nat, k < k' → k' ≤ n → smLookup sm (k' : Int) = none) → sourcePosN sm n = v) ∧
      ((∀ k : Nat, k ≤ n → smLookup sm (k : Int) = none) → sourcePosN sm n = NoPos) := by
  intro n
  induction n with
  | zero =>
    constructor
    · intro k v hk hv _
      have : k = 0 := by omega
      subst this
      simp at hv
      simp [sourcePosN, hv]
    · intro hnone
      have := hnone 0 (Nat.le_refl _)
      simp at this
      simp [sourcePosN, this]
  | succ n ih =>
    constructor
    · intro k v hk hv hgap
      rcases Nat.lt_or_eq_of_le hk with hlt | heq
      · have hn : smLookup sm ((n : Int) + 1) = none := by
          have := hgap (n + 1) hlt (Nat.le_refl _)
          simpa using this
        have := ih.1 k v (by omega) hv (fun k' h1 h2 => hgap k' h1 (by omega))
        simp [sourcePosN, hn, this]
      · subst heq
        have hv' : smLookup sm ((n : Int) + 1) = some v := by simpa using hv
        simp [sourcePosN, hv']
    · intro hnone
      have hn : smLookup sm ((n : Int) + 1) = none := by
        have := hnone (n + 1) (Nat.le_refl _)
        simpa using this
      have := ih.2 (fun k hk => hnone k (by omega))
      simp [sourcePosN, hn, this]

/-! ### traces -/

theorem unwind_uncaught (tr : List Pos) (callers : List TFrame)
    (h : ∀ f ∈ callers, f.hasHandler = false) :
    unwind tr callers = (tr ++ callers.map getFrameSourcePos, []) := by
  induction callers generalizing tr with
  | nil => simp [unwind]
  | cons f rest ih =>
    have hf : f.hasHandler = false := h f (List.mem_cons_self)
    have := ih (tr ++ [getFrameSourcePos f]) (fun g hg => h g (List.mem_cons_of_mem _ hg))
    simp [unwind, hf, this]

end UgoVerif.Proofs.Pos
