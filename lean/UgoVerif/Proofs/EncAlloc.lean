import UgoVerif.Proofs.EncBytecode
/-
  Helper lemmas for the refutation of `C18_alloc_full`: the summed allocation of the
  decoder on arrays nested k deep grows quadratically in k.
-/
set_option linter.unusedSimpArgs false
namespace UgoVerif.Proofs.Enc
open UgoVerif.Go UgoVerif.Model.Enc UgoVerif.Gen.EncTags UgoVerif.Spec.Enc

def sumL (l : List Nat) : Nat := l.foldl (· + ·) 0

theorem foldl_add_init (l : List Nat) (a : Nat) : l.foldl (· + ·) a = a + sumL l := by
  induction l generalizing a with
  | nil => simp [sumL]
  | cons x xs ih => simp only [List.foldl_cons, sumL]; rw [ih, ih (0 + x)]; omega

theorem sumL_append (a b : List Nat) : sumL (a ++ b) = sumL a + sumL b := by
  simp only [sumL, List.foldl_append]; rw [foldl_add_init]; rfl

theorem total_eq {α} (x : DM α) : x.total = sumL x.allocs := rfl

/-- the log of a bind whose first part succeeds -/
theorem total_bind_ok {α β} (x : DM α) (f : α → DM β) (a : α) (h : x.res = .ok a) :
    (x >>= f).total = x.total + (f a).total := by
  show (DM.bind x f).total = _
  unfold DM.bind
  rw [h]
  simp only [total_eq, sumL_append]

theorem total_liftM {α} (r : Res α) : (liftM r : DM α).total = 0 := rfl
theorem total_pure {α} (a : α) : (pure a : DM α).total = 0 := rfl
theorem total_tick (n : Nat) : (DM.tick n).total = n := by simp [DM.tick, total_eq, sumL]

/-- arrays nested k deep: `[[[…[]…]]]` -/
def nest : Nat → Obj
  | 0 => .array []
  | k + 1 => .array [nest k]

theorem nest_encodable (C : Ctx) : ∀ k, Encodable C (nest k)
  | 0 => by simp [nest, Encodable, EncodableL]
  | k + 1 => by simp [nest, Encodable, EncodableL, nest_encodable C k]

theorem nest_norm : ∀ k, norm (nest k) = nest k
  | 0 => by simp [nest, norm, normList]
  | k + 1 => by simp [nest, norm, normList, nest_norm k]

theorem nest_need : ∀ k, need (nest k) = 3 * k + 2
  | 0 => by simp [nest, need, needL]
  | k + 1 => by simp [nest, need, needL, nest_need k]; omega

theorem nest_enc_succ (C : Ctx) (k : Nat) :
    encodeObject C (nest (k + 1)) =
      binArrayV1 :: toBytes ((toBytes 1 ++ (encodeObject C (nest k) ++ [])).length : Int) ++
        (toBytes 1 ++ (encodeObject C (nest k) ++ [])) := by
  simp [nest, encodeObject, encodeList]

/-- the encoding of `nest k` is between 5k+2 and 24k+2 bytes long (for k below 2^58) -/
theorem nest_len (C : Ctx) : ∀ k, k < 2 ^ 58 →
    5 * k + 2 ≤ (encodeObject C (nest k)).length ∧ (encodeObject C (nest k)).length ≤ 24 * k + 2
  | 0, _ => by simp [nest, encodeObject]
  | k + 1, hk => by
    obtain ⟨h1, h2⟩ := nest_len C k (by omega)
    rw [nest_enc_succ]
    have hone := toBytes_length 1 (by decide)
    have hin : inInt64 ((toBytes 1 ++ (encodeObject C (nest k) ++ [])).length : Int) = true := by
      apply inInt64_ofNat
      simp only [List.length_append, List.length_nil]
      omega
    have ht := toBytes_length _ hin
    simp only [List.length_cons, List.length_append, List.length_nil] at ht ⊢
    omega

theorem total_bind_ge {α β} (x : DM α) (f : α → DM β) : x.total ≤ (x >>= f).total := by
  show _ ≤ (DM.bind x f).total
  unfold DM.bind
  cases h : x.res <;> simp only [total_eq, sumL_append] <;> omega

/-- lower bound of the summed allocation on `nest k`: S(k) = Σ_{j<k} (5j+2) -/
def nestSum : Nat → Nat
  | 0 => 0
  | k + 1 => nestSum k + (5 * k + 2)

theorem dispatch_array_total (C : Ctx) (n : Nat) (r : Bytes) :
    (decodeObjectF C (n + 1) (binArrayV1 :: r)).total =
      (decodeSized C (cfLoopF C n) (arrayLoopF C n) (mapLoopF C n) binArrayV1 r).total := by
  rw [decodeObjectF, total_bind_ok _ _ (binArrayV1, r) rfl, total_liftM]
  simp [isNumTag, isSizedTag, binUndefinedV1, binTrueV1, binFalseV1, binIntV1, binUintV1, binCharV1,
    binFloatV1, binStringV1, binBytesV1, binArrayV1, binMapV1, binSyncMapV1, binCompiledFunctionV1]

theorem unmarshalArray_total_ge (C : Ctx) (loop : Bytes → DM (List Obj)) (xs : List Obj)
    (_hne : xs.length ≠ 0)
    (hsmall : (toBytes xs.length ++ encodeList C xs).length < 2 ^ 63) :
    (loop (encodeList C xs)).total ≤
      (unmarshalArray loop (binArrayV1 :: toBytes (toBytes xs.length ++ encodeList C xs).length ++
        (toBytes xs.length ++ encodeList C xs))).total := by
  have hlen := encodeList_length C xs
  have hxs : xs.length < 2 ^ 63 := by simp only [List.length_append] at hsmall; omega
  have hin := inInt64_ofNat _ hxs
  obtain ⟨hl2, _⟩ := toBytes_length _ hin
  unfold unmarshalArray
  rw [sizedPayload_enc _ _ _ (by simp only [List.length_append]; omega) hsmall]
  simp only
  rw [total_bind_ok _ _ ((xs.length : Int), encodeList C xs) (by simp [viRead_toBytes _ _ hin]), total_liftM]
  simp only
  rw [if_neg (by omega), total_bind_ok _ _ () rfl, total_tick]
  omega

/-- decoding a non-empty array logs at least its payload length plus whatever the element
    loop logs: the payload is copied into a fresh buffer before it is decoded -/
theorem array_total_ge (C : Ctx) (xs : List Obj) (n : Nat) (rest : Bytes) (hne : xs.length ≠ 0)
    (hsmall : (toBytes xs.length ++ encodeList C xs).length < 2 ^ 63) :
    (toBytes xs.length ++ encodeList C xs).length + (arrayLoopF C n (encodeList C xs)).total ≤
      (decodeObjectF C (n + 1) (encodeObject C (.array xs) ++ rest)).total := by
  have hin := inInt64_ofNat _ hsmall
  have henc : encodeObject C (.array xs) ++ rest =
      binArrayV1 :: (toBytes ((toBytes xs.length ++ encodeList C xs).length : Int) ++
        ((toBytes xs.length ++ encodeList C xs) ++ rest)) := by
    simp only [encodeObject]
    rw [if_neg hne]
    simp only [List.cons_append, List.append_assoc]
  rw [henc, dispatch_array_total]
  unfold decodeSized
  rw [total_bind_ok _ _ (((toBytes xs.length ++ encodeList C xs).length : Int),
      toBytes ((toBytes xs.length ++ encodeList C xs).length : Int),
      (toBytes xs.length ++ encodeList C xs) ++ rest) (viReadBytes_toBytes _ _ hin), total_liftM]
  dsimp only
  rw [if_neg (by omega), total_bind_ok _ _ () rfl, total_tick]
  have hlenpos : 0 < (toBytes xs.length ++ encodeList C xs).length := by
    have := toBytes_length (xs.length : Int) (inInt64_ofNat _ (by
      have := encodeList_length C xs
      simp only [List.length_append] at hsmall; omega))
    simp only [List.length_append]; omega
  have hnat : (((toBytes xs.length ++ encodeList C xs).length : Int)).toNat =
      (toBytes xs.length ++ encodeList C xs).length := by omega
  rw [if_pos (by omega), hnat]
  rw [total_bind_ok _ _ (toBytes xs.length ++ encodeList C xs, rest) (readFull_append _ _), total_liftM]
  dsimp only
  have h1 := total_bind_ge (decodeSizedBuf C (cfLoopF C n) (arrayLoopF C n) (mapLoopF C n)
    binArrayV1 (toBytes ((toBytes xs.length ++ encodeList C xs).length : Int))
    (toBytes xs.length ++ encodeList C xs)) (fun o => pure (o, rest))
  have h2 : (unmarshalArray (arrayLoopF C n) (binArrayV1 ::
        toBytes ((toBytes xs.length ++ encodeList C xs).length : Int) ++
        (toBytes xs.length ++ encodeList C xs))).total ≤
      (decodeSizedBuf C (cfLoopF C n) (arrayLoopF C n) (mapLoopF C n)
        binArrayV1 (toBytes ((toBytes xs.length ++ encodeList C xs).length : Int))
        (toBytes xs.length ++ encodeList C xs)).total := by
    unfold decodeSizedBuf
    simp only [binArrayV1, binCompiledFunctionV1, show ¬ ((9 : UInt8) = 12) by decide, if_false, if_true]
    exact total_bind_ge _ _
  have h3 := unmarshalArray_total_ge C (arrayLoopF C n) xs hne hsmall
  have hmin : (toBytes xs.length ++ encodeList C xs).length ≤
      min (toBytes xs.length ++ encodeList C xs).length
        ((toBytes xs.length ++ encodeList C xs) ++ rest).length := by
    rw [List.length_append (as := toBytes xs.length ++ encodeList C xs)]; omega
  omega

theorem nest_total (C : Ctx) : ∀ (k fuel : Nat) (rest : Bytes), k < 2 ^ 58 → need (nest k) ≤ fuel →
    nestSum k ≤ (decodeObjectF C fuel (encodeObject C (nest k) ++ rest)).total
  | 0, _, _, _, _ => Nat.zero_le _
  | k + 1, fuel, rest, hk, hf => by
    rw [nest_need] at hf
    obtain ⟨n, rfl⟩ := succ_of_pos (show 1 ≤ fuel by omega)
    obtain ⟨m, rfl⟩ := succ_of_pos (show 1 ≤ n by omega)
    obtain ⟨hl1, hl2⟩ := nest_len C k (by omega)
    have hone := toBytes_length 1 (by decide)
    have hsmall : (toBytes ([nest k].length : Int) ++ encodeList C [nest k]).length < 2 ^ 63 := by
      simp only [encodeList, List.length_append, List.length_nil, List.length_singleton, Int.natCast_one] at *
      omega
    have ih := nest_total C k m [] (by omega) (by rw [nest_need]; omega)
    have hA := array_total_ge C [nest k] (m + 1) rest (by simp) hsmall
    have h4 : (decodeObjectF C m (encodeObject C (nest k) ++ [])).total ≤
        (arrayLoopF C (m + 1) (encodeList C [nest k])).total := by
      simp only [encodeList]
      rw [arrayLoopF]
      have hne : (encodeObject C (nest k) ++ []).isEmpty = false := by
        cases h : encodeObject C (nest k) with
        | nil => rw [h] at hl1; simp at hl1
        | cons a b => rfl
      rw [hne]
      simp only [Bool.false_eq_true, if_false]
      exact total_bind_ge _ _
    have hlen : (encodeObject C (nest k)).length ≤
        (toBytes ([nest k].length : Int) ++ encodeList C [nest k]).length := by
      simp only [encodeList, List.length_append, List.length_nil]; omega
    show nestSum (k + 1) ≤ (decodeObjectF C (m + 1 + 1) (encodeObject C (.array [nest k]) ++ rest)).total
    simp only [nestSum]
    omega

/-- the bytecode whose only content is the constant `nest k` -/
def nestBC (k : Nat) : BC := { constants := some [nest k] }

theorem nestBC_enc (C : Ctx) (k : Nat) :
    encodeBytecode C (nestBC k) = [0, 117, 71, 79, 0, 2] ++ (2 :: (encodeObject C (nest (k + 1)) ++ [])) := by
  unfold encodeBytecode encodeBytecodeBody nestBC
  rw [header2_eq]
  simp [nest]

theorem nestBC_total (C : Ctx) (conv : BC → Res BC) (mods : Mods) (k fuel : Nat) (hk : k + 1 < 2 ^ 58)
    (hf : 3 * k + 6 ≤ fuel) :
    nestSum (k + 1) ≤ (decodeBytecodeF C conv mods fuel (encodeBytecode C (nestBC k))).total := by
  obtain ⟨n, rfl⟩ := succ_of_pos (show 1 ≤ fuel by omega)
  have hobj := nest_total C (k + 1) n [] hk (by rw [nest_need]; omega)
  rw [nestBC_enc]
  unfold decodeBytecodeF
  simp only [List.cons_append, List.nil_append, List.length_cons]
  rw [if_neg (by omega)]
  have h1 : beNat (List.take 4 (0 :: 117 :: 71 :: 79 :: 0 :: 2 :: 2 :: (encodeObject C (nest (k + 1)) ++ []))) =
      BytecodeSignature := rfl
  rw [if_neg (by rw [h1]; simp)]
  have h2 : beNat (List.take 2 (List.drop 4 (0 :: 117 :: 71 :: 79 :: 0 :: 2 :: 2 :: (encodeObject C (nest (k + 1)) ++ [])))) =
      BytecodeVersion2 := rfl
  have h3 : List.drop 6 (0 :: 117 :: 71 :: 79 :: 0 :: 2 :: 2 :: (encodeObject C (nest (k + 1)) ++ [])) =
      2 :: (encodeObject C (nest (k + 1)) ++ []) := rfl
  simp only [h2, h3, if_true]
  have hb : (decodeObjectF C n (encodeObject C (nest (k + 1)) ++ [])).total ≤
      (bcLoopF C (n + 1) (2 :: (encodeObject C (nest (k + 1)) ++ [])) {}).total := by
    rw [bcLoopF]
    simp only [show ¬ ((2 : UInt8) = 0) by decide, show ¬ ((2 : UInt8) = 1) by decide, if_false, if_true]
    exact total_bind_ge _ _
  have := total_bind_ge (bcLoopF C (n + 1) (2 :: (encodeObject C (nest (k + 1)) ++ [])) {})
    (fun bc => (liftM (fixObjects mods bc) : DM BC))
  omega

theorem nestBC_len (C : Ctx) (k : Nat) (hk : k + 1 < 2 ^ 58) :
    (encodeBytecode C (nestBC k)).length ≤ 24 * k + 33 := by
  rw [nestBC_enc]
  have := (nest_len C (k + 1) hk).2
  simp only [List.length_append, List.length_cons, List.length_nil]
  omega

theorem nestSum_closed : ∀ k, 2 * nestSum k + k = 5 * (k * k)
  | 0 => rfl
  | k + 1 => by
    have ih := nestSum_closed k
    have e : (k + 1) * (k + 1) = k * k + 2 * k + 1 := by
      rw [Nat.add_mul, Nat.mul_add]; omega
    simp only [nestSum]
    rw [e]; omega

end UgoVerif.Proofs.Enc
