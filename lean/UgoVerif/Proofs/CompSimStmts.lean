import UgoVerif.Proofs.CompSimInv
import UgoVerif.Proofs.CompileMain
/-
  C02, compile ⊑ Sem, statement slice — the simulation for the simple statements of `StmtF`:
  `e;`, `x := e`, `x = e`, `x op= e`, `return`, `return e`, the empty statement.
-/
set_option linter.unusedSimpArgs false
set_option linter.unusedVariables false
namespace UgoVerif.CompSim
open UgoVerif UgoVerif.Go UgoVerif.Ast UgoVerif.VM UgoVerif.Proofs.ModCache UgoVerif.Proofs.VMExec
open UgoVerif.Compile (CState runCM compileExpr compileStmt compileStmts IsPre Pre Table nextIndex)

/-! ### evaluating an expression of the statement -/

theorem eval_step (F : FloatOps) {e : Expr} {cs cs1 : CState} (he : runCM (compileExpr e) cs = (.ok (), cs1))
    (hF : ExprF (localIdx cs) e = true)
    {K : Array Compile.Const} {code : Code} {bp L N : Nat} {env : Sem.Env} {binds : List (Nat × Addr)} {s t t1 : State}
    {ss ss1 : Sem.SemSt} {r : Sem.ER} {fuel : Nat}
    (hK : IsPre cs1.constants K) (hcode : CodeHas code cs1.insts cs.insts.size) (hvm : VMOk K code bp (bp + L) s)
    (hip : s.ip + 1 = (cs.insts.size : Int)) (hsp : s.sp + need e ≤ 2048)
    (hst : Static (localIdx cs) N env binds) (hdy : Dyn binds t s bp) (hN : N ≤ L)
    (hsem : exec ((Sem.evalExpr F fuel env e).run ss) t = (.ok (r, ss1), t1)) :
    ss = ss1 ∧ Outcome F s t t1 cs1.insts.size r := by
  have henv : ∀ n, (localIdx cs n).isSome → (Sem.lookupEnv n env).isSome := by
    intro n hn
    cases hi : localIdx cs n with
    | none => simp [hi] at hn
    | some i =>
      obtain ⟨a, hl, _⟩ := hst.look n i hi
      simp [hl]
  rw [evalExpr_eq_evalF F (localIdx cs) env henv fuel e hF ss] at hsem
  obtain ⟨rfl, h1⟩ := withSt_inv hsem
  obtain ⟨_, sim⟩ := good_all F e cs cs1 he hF
  exact ⟨rfl, sim K code bp (bp + L) env s t fuel r t1 hK hcode hvm hip hsp (locals_of hst hdy hN) h1⟩

/-- the state after a value was pushed still meets the invariants -/
theorem after_push {K : Array Compile.Const} {code : Code} {bp L N : Nat} {binds : List (Nat × Addr)} {s s1 t : State}
    (hvm : VMOk K code bp (bp + L) s) (hdy : Dyn binds t s bp) (hlt : ∀ i a, (i, a) ∈ binds → i < N) (hN : N ≤ L)
    (hs1 : Same s s1) (hh1 : s1.heap = s.heap) (hag1 : AgreeBelow s.sp.toNat s.stack s1.stack) (hsp1 : s.sp ≤ s1.sp) :
    VMOk K code bp (bp + L) s1 ∧ Dyn binds t s1 bp := by
  have hlo := hvm.lo
  refine ⟨⟨by rw [hs1.abort]; exact hvm.abort, by rw [hag1.1]; exact hvm.size, hvm.code.of_same hs1 hh1,
    by rw [hs1.frames, hs1.curFrame]; exact hvm.bp, by rw [hs1.consts]; exact hvm.consts, by omega⟩, ?_⟩
  exact hdy.carry hlt hN hh1 (fun j _ hj => hag1.2 j (by omega))

/-- normal completion with the same `binds`: the VM state agrees with the start state below `sp` -/
theorem OutS.normal_same {F : FloatOps} {code : Code} {q bp L N : Nat} {σ : String → Option Nat}
    {binds : List (Nat × Addr)} {s s' t' : State} {env : Sem.Env}
    (hr : Reach F s s') (hs : Same s s') (hh : s'.heap = s.heap) (hag : AgreeBelow s.sp.toNat s.stack s'.stack)
    (hip : s'.ip + 1 = (q : Int)) (hsp : s'.sp = s.sp) (hst : Static σ N env binds) (hdy : Dyn binds t' s bp)
    (hN : N ≤ L) (hlo : ((bp + L : Nat) : Int) ≤ s.sp) : OutS F code q bp L σ N binds s t' env .normal :=
  ⟨binds, s', hr, Frm.of_agree hs hh hag, hip, hsp, fun _ h => h, hst,
    hdy.carry hst.lt hN hh (fun j _ hj => hag.2 j (by omega))⟩

theorem execStmt_zero' {F : FloatOps} {env : Sem.Env} {st : Stmt} {ss ss' : Sem.SemSt} {t t' : State}
    {r : Sem.Comp × Sem.Env} (h : exec ((Sem.execStmt F 0 env st).run ss) t = (.ok (r, ss'), t')) : False := by
  rw [execStmt_zero] at h
  exact sm_unsupported_ne h

theorem nextIndex_le_of {cs cs' : CState} {L : Nat} (hok : CsOK cs) (he : StEff cs cs') (hL : fnMax cs'.tables ≤ L) :
    nextIndex cs.tables ≤ L := by
  have := hok.ni
  have := he.tabs.fnMax
  omega

/-! ### `e;` -/

theorem compileStmt_expr (pos : Pos) (e : Expr) :
    compileStmt (.expr pos e) = (do compileExpr e; Compile.emit_ pos Compile.OpPop) := rfl

theorem good_exprStmt (F : FloatOps) (B : List String) (pos : Pos) (e : Expr) (hF : ExprF (bnd B) e = true) :
    GoodC F B B (need e) (compileStmt (.expr pos e)) (fun fuel env => Sem.execStmt F fuel env (.expr pos e)) := by
  intro cs cs' hc hcov hok
  rw [compileStmt_expr] at hc
  obtain ⟨_, cs1, he, hc⟩ := bind_inv hc
  have hFe := exprF_of_cov hcov hF
  obtain ⟨she, _⟩ := good_all F e cs cs1 he hFe
  have shp := Shape.of_emit_ hc
  have sh := she.trans shp
  have hse := StEff.of_shape sh hok.ne
  have htab : cs'.tables = cs.tables := by rw [sh.eq]
  refine ⟨hse, hok.of_shape sh, by rw [sh.localIdx]; exact hcov, ?_⟩
  intro fuel K code bp L env binds s t ss ss' c env' t' hK hcode hvm hip hsp hL hst hdy hsem
  dsimp only at hsem
  have hN := nextIndex_le_of hok hse hL
  obtain ⟨bs, hbs, e2⟩ := emit__inv hc
  have hbs' : bs = [UInt8.ofNat 22] := by
    have : Compile.makeInstruction Compile.OpPop [] = .ok [UInt8.ofNat 22] := rfl
    rw [this] at hbs; injection hbs with h; exact h.symm
  subst hbs'
  have hsz : cs'.insts.size = cs1.insts.size + 1 := by rw [e2]; simp
  have hb0 : code.insts[cs1.insts.size]? = some (UInt8.ofNat 22) := by
    rw [hcode _ she.pre.1 (by omega), e2]
    exact emit_bytes (cs := cs1) [UInt8.ofNat 22] 0 (by simp)
  cases fuel with
  | zero => exact (execStmt_zero' hsem).elim
  | succ fuel =>
    rw [execStmt_expr] at hsem
    obtain ⟨r, ss1, t1, hev, hsem⟩ := sm_bind_inv hsem
    obtain ⟨rfl, oe⟩ := eval_step F he hFe (Compile.IsPre.trans shp.cpre hK) (hcode.sub shp.pre (Nat.le_refl _)) hvm hip hsp
      hst hdy hN hev
    have hlo := hvm.lo
    cases r with
    | thr a =>
      obtain ⟨hce, rfl, rfl⟩ := sm_pure_inv hsem
      simp only [Prod.mk.injEq] at hce
      obtain ⟨rfl, rfl⟩ := hce
      exact ⟨rfl, OutS.of_thr oe hdy.rel⟩
    | val v =>
      obtain ⟨hce, rfl, rfl⟩ := sm_pure_inv hsem
      simp only [Prod.mk.injEq] at hce
      obtain ⟨rfl, rfl⟩ := hce
      obtain ⟨rfl, hsv, s1, hr1, hs1, hh1, hip1, hsp1, hag1, hget1⟩ := oe
      obtain ⟨hvm1, hdy1⟩ := after_push hvm hdy hst.lt hN hs1 hh1 hag1 (by omega)
      have hne := need_pos e
      obtain ⟨s2, hrun, hs2, hh2, hip2, hsp2, hst2⟩ := step_pop F hvm1.code cs1.insts.size hip1 _ hb0 rfl (by omega)
      have hidx : s1.sp - 1 = s.sp := by omega
      rw [hidx] at hst2
      refine ⟨rfl, ?_⟩
      rw [sh.localIdx, htab]
      exact OutS.normal_same (hr1.trans (Reach.step hvm1.abort hrun)) (hs1.trans hs2) (by rw [hh2, hh1])
        (by rw [hst2]; exact hag1.set _ _ (Nat.le_refl _)) (by rw [hip2, hsz]; push_cast; rfl) (by omega) hst hdy hN hlo

/-! ### storing the value on top of the stack into a local slot -/

theorem two_sets_get {st : Array V} {k m j : Nat} {v : V} (hk : j ≠ k) (hm : j ≠ m) :
    ((st.set! k v).set! m .nil)[j]! = st[j]! := by
  rw [set!_get_ne _ _ _ _ (Ne.symm hm), set!_get_ne _ _ _ _ (Ne.symm hk)]

theorem two_sets_hit {st : Array V} {k m : Nat} {v : V} (hkm : k ≠ m) (hk : k < st.size) :
    ((st.set! k v).set! m .nil)[k]! = v := by
  rw [set!_get_ne _ _ _ _ (Ne.symm hkm), set!_get_eq _ _ _ hk]

theorem pw_ne {binds : List (Nat × Addr)} (h : binds.Pairwise (fun p q => p.1 ≠ q.1 ∧ p.2 ≠ q.2)) :
    ∀ {p q : Nat × Addr}, p ∈ binds → q ∈ binds → p ≠ q → p.1 ≠ q.1 ∧ p.2 ≠ q.2 := by
  induction binds with
  | nil => intro p q hp; cases hp
  | cons b r ih =>
    rw [List.pairwise_cons] at h
    intro p q hp hq hne
    rcases List.mem_cons.mp hp with rfl | hp'
    · rcases List.mem_cons.mp hq with rfl | hq'
      · exact (hne rfl).elim
      · exact h.1 q hq'
    · rcases List.mem_cons.mp hq with rfl | hq'
      · have := h.1 p hp'
        exact ⟨fun e => this.1 e.symm, fun e => this.2 e.symm⟩
      · exact ih h.2 hp' hq' hne

/-- the frame of a statement whose last instruction stored the top of the stack into slot `bp + k` -/
theorem frm_store {s s1 s2 : State} {bp L k : Nat} {v : V} (hs1 : Same s s1) (hh1 : s1.heap = s.heap)
    (hag1 : AgreeBelow s.sp.toNat s.stack s1.stack) (hs2 : Same s1 s2) (hh2 : s2.heap = s1.heap)
    (hst2 : s2.stack = (s1.stack.set! (bp + k) v).set! s.sp.toNat .nil) (hk : k < L) : Frm s s2 bp L := by
  refine ⟨hs1.trans hs2, by rw [hh2, hh1], by rw [hst2, set!_size, set!_size]; exact hag1.1, ?_⟩
  intro j hj ho
  rw [hst2, two_sets_get (by omega) (by omega)]
  exact hag1.2 j hj

/-- SETLOCAL behind the code that pushed `v`: the reference semantics overwrites the box of `x` -/
theorem assign_tail (F : FloatOps) {pos : Pos} {cs1 cs' : CState} {i : Nat}
    (hc : runCM (Compile.emit_ pos Compile.OpSetLocal [(i : Int)]) cs1 = (.ok (), cs'))
    {K : Array Compile.Const} {code : Code} {bp L N : Nat} {σ : String → Option Nat} {env : Sem.Env}
    {binds : List (Nat × Addr)} {s s1 t : State} {v : V} {a : Addr}
    (hcode : CodeHas code cs'.insts cs1.insts.size) (hvm : VMOk K code bp (bp + L) s)
    (hr1 : Reach F s s1) (hs1 : Same s s1) (hh1 : s1.heap = s.heap) (hag1 : AgreeBelow s.sp.toNat s.stack s1.stack)
    (hsp1 : s1.sp = s.sp + 1) (hget1 : s1.stack[s.sp.toNat]! = v) (hip1 : s1.ip + 1 = (cs1.insts.size : Int)) (hsv : Scalar v)
    (hst : Static σ N env binds) (hdy : Dyn binds t s bp) (hN : N ≤ L) (hsp : s.sp + 1 ≤ 2048)
    (hm : (i, a) ∈ binds) :
    OutS F code cs'.insts.size bp L σ N binds s { t with heap := t.heap.set! a (.box v) } env .normal := by
  obtain ⟨bs, hbs, e2⟩ := emit__inv hc
  obtain ⟨hi0, hi255, b, rfl, hb⟩ := mk_w1 Compile.OpSetLocal rfl _ _ hbs
  simp only [Int.toNat_natCast] at hb
  have hsz : cs'.insts.size = cs1.insts.size + 2 := by rw [e2]; simp
  have hbk : ∀ k (hk : k < 2), code.insts[cs1.insts.size + k]? = [UInt8.ofNat Compile.OpSetLocal, b][k]? := by
    intro k hk
    rw [hcode _ (by omega) (by omega), e2]
    exact emit_bytes _ _ (by simpa using hk)
  have hlo := hvm.lo
  have hiN := hst.lt i a hm
  obtain ⟨hvm1, hdy1⟩ := after_push hvm hdy hst.lt hN hs1 hh1 hag1 (by omega)
  obtain ⟨ha0, v0, hc0, hs0, hsc0⟩ := hdy1.cell i a hm
  obtain ⟨s2, hrun, hs2, hh2, hip2, hsp2, hst2⟩ := step_setLocal F hvm1.code cs1.insts.size hip1 _ b
    (by simpa using hbk 0 (by omega)) rfl (by simpa using hbk 1 (by omega)) bp hvm1.bp (by rw [hb]; omega)
    (by rw [hb, hs0]; exact hsc0.not_box) (by omega)
  have hidx : (s1.sp - 1).toNat = s.sp.toNat := by omega
  rw [hb, hidx, hget1] at hst2
  have hsz1 : s1.stack.size = 2048 := hvm1.size
  have halt : a < t.heap.size := by
    rcases Nat.lt_or_ge a t.heap.size with h | h
    · exact h
    · simp [Array.getElem?_eq_none h] at hc0
  refine ⟨binds, s2, hr1.trans (Reach.step hvm1.abort hrun), frm_store hs1 hh1 hag1 hs2 hh2 hst2 (by omega),
    by rw [hip2, hsz]; push_cast; omega, by omega, fun _ h => h, hst, ?_, ?_⟩
  · intro j c hjc
    obtain ⟨hc1, w, hw1, hw2, hw3⟩ := hdy1.cell j c hjc
    have hjN := hst.lt j c hjc
    by_cases heq : (j, c) = (i, a)
    · simp only [Prod.mk.injEq] at heq
      obtain ⟨rfl, rfl⟩ := heq
      refine ⟨by rw [hh2]; exact hc1, v, set!_getElem?_eq _ _ _ halt, ?_, hsv⟩
      rw [hst2]; exact two_sets_hit (by omega) (by rw [hsz1]; omega)
    · obtain ⟨n1, n2⟩ := pw_ne hst.inj hjc hm heq
      refine ⟨by rw [hh2]; exact hc1, w, ?_, ?_, hw3⟩
      · show (t.heap.set! a _)[c]? = _
        rw [set!_getElem?_ne _ _ _ _ (Ne.symm n2)]; exact hw1
      · rw [hst2, two_sets_get (by simp at n1; omega) (by omega)]; exact hw2
  · exact ((hdy.rel.set a v (hdy.cell i a hm).1).of_eq (by rw [hh2, hh1]))

/-- DEFINELOCAL behind the code that pushed `v`: the reference semantics allocates a new box -/
theorem define_tail (F : FloatOps) {pos : Pos} {cs1 cs' : CState} {N : Nat}
    (hc : runCM (Compile.emit_ pos Compile.OpDefineLocal [(N : Int)]) cs1 = (.ok (), cs'))
    {K : Array Compile.Const} {code : Code} {bp L : Nat} {σ σ' : String → Option Nat} {env env' : Sem.Env}
    {binds : List (Nat × Addr)} {s s1 t : State} {v : V} {x : String}
    (hcode : CodeHas code cs'.insts cs1.insts.size) (hvm : VMOk K code bp (bp + L) s)
    (hr1 : Reach F s s1) (hs1 : Same s s1) (hh1 : s1.heap = s.heap) (hag1 : AgreeBelow s.sp.toNat s.stack s1.stack)
    (hsp1 : s1.sp = s.sp + 1) (hget1 : s1.stack[s.sp.toNat]! = v) (hip1 : s1.ip + 1 = (cs1.insts.size : Int)) (hsv : Scalar v)
    (hst : Static σ N env binds) (hdy : Dyn binds t s bp) (hN : N + 1 ≤ L) (hsp : s.sp + 1 ≤ 2048)
    (hσx : σ' x = some N) (hσ : ∀ m, m ≠ x → σ' m = σ m)
    (hex : Sem.lookupEnv x env' = some t.heap.size) (he : ∀ m, m ≠ x → Sem.lookupEnv m env' = Sem.lookupEnv m env) :
    OutS F code cs'.insts.size bp L σ' (N + 1) binds s { t with heap := t.heap.push (.box v) } env' .normal := by
  obtain ⟨bs, hbs, e2⟩ := emit__inv hc
  obtain ⟨hi0, hi255, b, rfl, hb⟩ := mk_w1 Compile.OpDefineLocal rfl _ _ hbs
  simp only [Int.toNat_natCast] at hb
  have hsz : cs'.insts.size = cs1.insts.size + 2 := by rw [e2]; simp
  have hbk : ∀ k (hk : k < 2), code.insts[cs1.insts.size + k]? = [UInt8.ofNat Compile.OpDefineLocal, b][k]? := by
    intro k hk
    rw [hcode _ (by omega) (by omega), e2]
    exact emit_bytes _ _ (by simpa using hk)
  have hlo := hvm.lo
  obtain ⟨hvm1, hdy1⟩ := after_push hvm hdy hst.lt (by omega : N ≤ L) hs1 hh1 hag1 (by omega)
  obtain ⟨s2, hrun, hs2, hh2, hip2, hsp2, hst2⟩ := step_defineLocal F hvm1.code cs1.insts.size hip1 _ b
    (by simpa using hbk 0 (by omega)) rfl (by simpa using hbk 1 (by omega)) bp hvm1.bp (by rw [hb]; omega) (by omega)
  have hidx : (s1.sp - 1).toNat = s.sp.toNat := by omega
  rw [hb, hidx, hget1] at hst2
  have hsz1 : s1.stack.size = 2048 := hvm1.size
  have hrel := hdy.rel
  refine ⟨(N, t.heap.size) :: binds, s2, hr1.trans (Reach.step hvm1.abort hrun),
    frm_store hs1 hh1 hag1 hs2 hh2 hst2 (by omega), by rw [hip2, hsz]; push_cast; omega, by omega,
    fun _ h => List.mem_cons_of_mem _ h, ⟨?_, ?_, ?_⟩, ?_, ?_⟩
  · intro n i hi
    by_cases hn : n = x
    · subst hn
      rw [hσx] at hi
      simp only [Option.some.injEq] at hi
      subst hi
      exact ⟨_, hex, List.mem_cons_self⟩
    · rw [hσ n hn] at hi
      obtain ⟨a, hl, hm⟩ := hst.look n i hi
      exact ⟨a, by rw [he n hn]; exact hl, List.mem_cons_of_mem _ hm⟩
  · intro i a hm
    rcases List.mem_cons.mp hm with h | h
    · simp only [Prod.mk.injEq] at h; omega
    · have := hst.lt i a h; omega
  · rw [List.pairwise_cons]
    refine ⟨?_, hst.inj⟩
    intro q hq
    have h1 := hst.lt q.1 q.2 hq
    obtain ⟨_, w, hw, _⟩ := hdy.cell q.1 q.2 hq
    have h2 : q.2 < t.heap.size := by
      rcases Nat.lt_or_ge q.2 t.heap.size with h | h
      · exact h
      · simp [Array.getElem?_eq_none h] at hw
    exact ⟨Nat.ne_of_gt h1, Nat.ne_of_gt h2⟩
  · intro j c hjc
    rcases List.mem_cons.mp hjc with h | h
    · simp only [Prod.mk.injEq] at h
      obtain ⟨rfl, rfl⟩ := h
      refine ⟨by rw [hh2, hh1]; exact hrel.le, v, by simp, ?_, hsv⟩
      rw [hst2]; exact two_sets_hit (by omega) (by rw [hsz1]; omega)
    · obtain ⟨hc1, w, hw1, hw2, hw3⟩ := hdy1.cell j c h
      have hjN := hst.lt j c h
      have hclt : c < t.heap.size := by
        rcases Nat.lt_or_ge c t.heap.size with h' | h'
        · exact h'
        · simp [Array.getElem?_eq_none h'] at hw1
      refine ⟨by rw [hh2]; exact hc1, w, ?_, ?_, hw3⟩
      · show (t.heap.push _)[c]? = _
        rw [Array.getElem?_push_lt hclt, ← hw1, Array.getElem?_eq_getElem hclt]
      · rw [hst2, two_sets_get (by omega) (by omega)]; exact hw2
  · exact (hrel.push v).of_eq (by rw [hh2, hh1])

/-! ### unfolding the models on assignments -/

theorem compileStmt_assign1 (pos : Pos) (tok : Nat) (p : Pos) (x : String) (r : Expr) (h : tok = tDefine ∨ tok = tAssign) :
    compileStmt (.assign pos tok [.ident p x] [r]) =
      (do compileExpr r; Compile.compileDefineAssign pos (.ident p x) tVar tok false) := by
  rw [Compile.compileStmt_eq]
  simp only
  unfold Compile.compileAssign
  rcases h with rfl | rfl <;>
    simp [Compile.compileExprs, Compile.isSelOrIndex, tDefine, tAssign, Gen.tok_Define, Gen.tok_Assign]

theorem compileStmt_compound (pos : Pos) (tok : Nat) (p : Pos) (x : String) (r : Expr) (h1 : tok ≠ tDefine) (h2 : tok ≠ tAssign) :
    compileStmt (.assign pos tok [.ident p x] [r]) =
      (do compileExpr (.ident p x); compileExpr r
          (match Compile.compoundOp tok with
           | some t => Compile.emit_ pos Compile.OpBinaryOp [(t : Int)]
           | none => pure ())
          Compile.compileDefineAssign pos (.ident p x) tVar tok false) := by
  rw [Compile.compileStmt_eq]
  simp only
  unfold Compile.compileAssign
  simp [Compile.compileExprs, Compile.isSelOrIndex, h1, h2]
  rfl

theorem execStmt_assign1 (F : FloatOps) (fuel : Nat) (env : Sem.Env) (pos : Pos) (tok : Nat) (tg r : Expr) :
    Sem.execStmt F (fuel + 1) env (.assign pos tok [tg] [r]) =
      (if tok == tAssign || tok == tDefine then do
          match (← Sem.evalExpr F fuel env r) with
          | .thr a => pure (.thr a, env)
          | .val v => Sem.assignTo F fuel env tg v (tok == tDefine) tVar
        else do
          match (← Sem.evalExpr F fuel env tg) with
          | .thr a => pure (.thr a, env)
          | .val cur =>
            match (← Sem.evalExpr F fuel env r) with
            | .thr a => pure (.thr a, env)
            | .val rv =>
              let op := (Sem.compoundBase tok).getD tAdd
              match (← Sem.liftM (vBinaryOp F (tokOfNat op) cur rv)) with
              | .error er => do match (← Sem.raise er) with | .thr a => pure (.thr a, env) | _ => pure (.normal, env)
              | .ok nv => Sem.assignTo F fuel env tg nv false tVar) := rfl

theorem assignTo_define (F : FloatOps) (fuel : Nat) (env : Sem.Env) (p : Pos) (x : String) (v : V) (kw : Nat) :
    Sem.assignTo F (fuel + 1) env (.ident p x) v true kw =
      (do let env' ← Sem.declare env x v; pure (.normal, env')) := rfl

theorem assignTo_set (F : FloatOps) (fuel : Nat) (env : Sem.Env) (p : Pos) (x : String) (v : V) (kw : Nat) (a : Addr)
    (hl : Sem.lookupEnv x env = some a) :
    Sem.assignTo F (fuel + 1) env (.ident p x) v false kw =
      (do Sem.liftM (heapSet a (.box v)); pure (.normal, env)) := by
  rw [Sem.assignTo]
  simp only [hl, Bool.false_eq_true, if_false]

theorem assignTo_zero (F : FloatOps) (env : Sem.Env) (tg : Expr) (v : V) (d : Bool) (kw : Nat) :
    Sem.assignTo F 0 env tg v d kw = Sem.liftM (unsupported "sem: fuel") := by
  rw [Sem.assignTo]

theorem cda_define (pos p : Pos) (x : String) :
    Compile.compileDefineAssign pos (.ident p x) tVar tDefine false = Compile.compileDefine pos x false tVar := by
  rw [Compile.compileDefineAssign]
  · simp [Compile.lhsName]
  · intro _ _ _ h; cases h
  · intro _ _ _ h; cases h

theorem cda_assign (pos p : Pos) (x : String) (tok : Nat) (h : tok ≠ tDefine) :
    Compile.compileDefineAssign pos (.ident p x) tVar tok false = (do
      match (← Compile.resolve x) with
      | none => Compile.cerr pos s!"unresolved reference \"{x}\""
      | some sym => Compile.compileAssignSym pos sym x) := by
  rw [Compile.compileDefineAssign]
  · simp [Compile.lhsName, h]
    rfl
  · intro _ _ _ h; cases h
  · intro _ _ _ h; cases h

theorem tables_cons_of_ok {cs : CState} (h : CsOK cs) : ∃ t r, cs.tables = t :: r := by
  cases ht : cs.tables with
  | nil => exact (h.ne ht).elim
  | cons t r => exact ⟨t, r, rfl⟩

/-- `compileDefine` of a new name: the symbol gets slot `nextIndex`, DEFINELOCAL is emitted -/
theorem compileDefine_inv {pos : Pos} {x : String} {cs1 cs' : CState} (hx : x ≠ "_") (hok : CsOK cs1)
    (hc : runCM (Compile.compileDefine pos x false tVar) cs1 = (.ok (), cs')) :
    ∃ (T1 T2 : List Table) (csB : CState),
      runCM (Compile.emit_ pos Compile.OpDefineLocal [(nextIndex cs1.tables : Int)]) { cs1 with tables := T1 } = (.ok (), csB) ∧
      cs' = { csB with tables := T2 } ∧ TEff cs1.tables T2 ∧ nextIndex T2 = nextIndex cs1.tables + 1 ∧
      (∀ m, m ≠ x → locOf m T2 = locOf m cs1.tables) ∧
      (∃ y, locOf x T2 = some y ∧ y.scope = .local_ ∧ y.index = (nextIndex cs1.tables : Int)) ∧
      nextIndex cs1.tables + 1 ≤ fnMax T2 := by
  obtain ⟨t, r, htr⟩ := tables_cons_of_ok hok
  unfold Compile.compileDefine at hc
  obtain ⟨⟨sym, ex⟩, csA, hd, hc⟩ := bind_inv hc
  cases hdef : Compile.definedSym x t with
  | some sym0 =>
    rw [Compile.runCM_defineLocal_ex htr hdef] at hd
    simp only [Prod.mk.injEq, Except.ok.injEq] at hd
    obtain ⟨⟨rfl, rfl⟩, rfl⟩ := hd
    have hx' : (x != "_") = true := by simpa using hx
    simp [hx', Compile.cerr, Compile.runCM_throw] at hc
  | none =>
    rw [Compile.runCM_defineLocal_new htr hdef] at hd
    simp only [Prod.mk.injEq, Except.ok.injEq] at hd
    obtain ⟨⟨rfl, rfl⟩, rfl⟩ := hd
    simp only [Bool.not_false, Bool.and_false, Bool.false_and, Bool.false_eq_true, if_false, Compile.newLocal] at hc
    obtain ⟨s0, csA', hg, hc⟩ := bind_inv hc
    rw [Compile.runCM_get] at hg
    simp only [Prod.mk.injEq, Except.ok.injEq] at hg
    obtain ⟨rfl, rfl⟩ := hg
    have htc : (tVar == tConst) = false := by decide
    simp only [htc, Bool.and_false, Bool.false_eq_true, if_false] at hc
    obtain ⟨_, csB, hem, hc⟩ := bind_inv hc
    -- the tables after defineLocal
    obtain ⟨h1, h2, h3, h4, h5⟩ := define_tables cs1.builtins x (Compile.newLocal x cs1.tables) t r
      (nextIndex cs1.tables + 1) _ rfl
    obtain ⟨t1, r1, hT, hsame, htl⟩ := (tl_updateMaxDefs (nextIndex cs1.tables + 1)
      (Compile.defLocalTable cs1.builtins x (Compile.newLocal x cs1.tables) t :: r)).cons_inv
    have hemA := hem
    obtain ⟨bs, hbs, eB⟩ := emit__inv hem
    have hBt : csB.tables = t1 :: r1 := by rw [eB]; exact hT
    have hl1 : Compile.lookupSym x t1.store = some (Compile.newLocal x cs1.tables) := by
      have := h4
      rw [hT] at this
      simp only [locOf] at this
      cases hl : Compile.lookupSym x t1.store with
      | some y => rw [hl] at this; exact this
      | none =>
        rw [hsame.store] at hl
        have hst : (Compile.defLocalTable cs1.builtins x (Compile.newLocal x cs1.tables) t).store =
            Compile.putSym x (Compile.newLocal x cs1.tables) t.store := by
          simp only [Compile.defLocalTable, Compile.shadowBuiltin]; split <;> rfl
        rw [hst, lookupSym_putSym_eq] at hl
        cases hl
    rw [Compile.runCM_updateSym hBt hl1] at hc
    simp only [Prod.mk.injEq, Except.ok.injEq, true_and] at hc
    have key : ∀ y : Compile.Symbol, y.scope = .local_ → y.index = (nextIndex cs1.tables : Int) →
        TEff cs1.tables ({ t1 with store := Compile.putSym x y t1.store } :: r1) ∧
        nextIndex ({ t1 with store := Compile.putSym x y t1.store } :: r1) = nextIndex cs1.tables + 1 ∧
        (∀ m, m ≠ x → locOf m ({ t1 with store := Compile.putSym x y t1.store } :: r1) = locOf m cs1.tables) ∧
        (∃ y', locOf x ({ t1 with store := Compile.putSym x y t1.store } :: r1) = some y' ∧ y'.scope = .local_ ∧
          y'.index = (nextIndex cs1.tables : Int)) ∧
        nextIndex cs1.tables + 1 ≤ fnMax ({ t1 with store := Compile.putSym x y t1.store } :: r1) := by
      intro y hy1 hy2
      obtain ⟨g1, g2, g3, g4, g5⟩ := updateSym_tables x y t1 r1
      refine ⟨?_, ?_, ?_, ?_, ?_⟩
      · rw [htr]; rw [hT] at h1; exact h1.trans g1
      · rw [g2, ← hT, h2, htr]
      · intro m hm; rw [g3 m hm, ← hT, h3 m hm, htr]
      · exact ⟨_, g4, hy1, hy2⟩
      · rw [g5, ← hT]; exact h5 (by rw [← htr]; exact hok.fn)
    refine ⟨_, _, csB, hemA, hc.symm, ?_⟩
    exact key _ rfl rfl

/-! ### `x := e` -/

theorem localIdx_of_locOf {cs : CState} {n : String} {y : Compile.Symbol} {N : Nat} (h : locOf n cs.tables = some y)
    (h1 : y.scope = .local_) (h2 : y.index = (N : Int)) : localIdx cs n = some N := by
  rw [localIdx_eq, h]
  simp only [slotOf, h1, h2]
  simp

/-- a declaration `x <- e` of the reference semantics: `e` evaluated (in an environment that looks
    like `env`), then `declare env x v` -/
def DeclRun (F : FloatOps) (x : String) (r : Expr) (env : Sem.Env) (ss : Sem.SemSt) (t : State)
    (c : Sem.Comp) (env' : Sem.Env) (ss' : Sem.SemSt) (t' : State) : Prop :=
  ∃ (fuelE : Nat) (envE : Sem.Env) (rr : Sem.ER) (ss1 : Sem.SemSt) (t1 : State),
    (∀ n, Sem.lookupEnv n envE = Sem.lookupEnv n env) ∧
    exec ((Sem.evalExpr F fuelE envE r).run ss) t = (.ok (rr, ss1), t1) ∧
    match rr with
    | .thr a => c = .thr a ∧ env' = env ∧ ss' = ss1 ∧ t' = t1
    | .val v => c = .normal ∧ exec ((Sem.declare env x v).run ss1) t1 = (.ok (env', ss'), t')

/-- the code of `e` followed by `compileDefine x` against any computation that is a declaration -/
theorem good_defineCore (F : FloatOps) (B : List String) (pos : Pos) (x : String) (r : Expr)
    (hF : ExprF (bnd B) r = true) (hx : x ≠ "_") (sem : Nat → Sem.Env → Sem.SM (Sem.Comp × Sem.Env))
    (hrun : ∀ fuel env ss t c env' ss' t', exec ((sem fuel env).run ss) t = (.ok ((c, env'), ss'), t') →
      DeclRun F x r env ss t c env' ss' t') :
    GoodC F B (x :: B) (need r + 1) (do compileExpr r; Compile.compileDefine pos x false tVar) sem := by
  intro cs cs' hc hcov hok
  obtain ⟨_, cs1, he, hc⟩ := bind_inv hc
  have hFe := exprF_of_cov hcov hF
  obtain ⟨she, _⟩ := good_all F r cs cs1 he hFe
  have hok1 := hok.of_shape she
  have ht1 : cs1.tables = cs.tables := by rw [she.eq]
  obtain ⟨T1, T2, csB, hem, rfl, hte, hni, hloc, ⟨y, hy, hy1, hy2⟩, hfm⟩ := compileDefine_inv hx hok1 hc
  obtain ⟨bs, hbs, eB⟩ := emit__inv hem
  have hBi : csB.insts = cs1.insts ++ bs.toArray := by rw [eB]
  have hBc : csB.constants = cs1.constants := by rw [eB]
  have hse1 : StEff cs1 { csB with tables := T2 } := by
    refine ⟨by rw [eB], ?_, ?_, hte⟩
    · show Pre cs1.insts csB.insts; rw [hBi]; exact pre_append _ _
    · show IsPre cs1.constants csB.constants; rw [hBc]; exact Compile.IsPre.refl _
  have hse := (StEff.of_shape she hok.ne).trans hse1
  have hlx : localIdx { csB with tables := T2 } x = some (nextIndex cs.tables) :=
    localIdx_of_locOf hy hy1 (by rw [hy2, ht1])
  have hlo : ∀ m, m ≠ x → localIdx { csB with tables := T2 } m = localIdx cs m := by
    intro m hm
    rw [localIdx_eq, localIdx_eq]
    show slotOf (locOf m T2) = _
    rw [hloc m hm, ht1]
  have hok' : CsOK { csB with tables := T2 } :=
    ⟨by show hasFn T2 = true; rw [hte.hasFn]; exact hok1.fn,
     by show csB.tryCatchIndex ≤ -1; rw [eB]; exact hok1.tci,
     by show nextIndex T2 ≤ fnMax T2; rw [hni]; exact hfm⟩
  refine ⟨hse, hok', Cov.cons hcov (by rw [hlx]; rfl) hlo, ?_⟩
  intro fuel K code bp L env binds s t ss ss' c env' t' hK hcode hvm hip hsp hL hst hdy hsem
  have hN : nextIndex cs.tables + 1 ≤ L := by
    have : fnMax T2 ≤ L := hL
    rw [ht1] at hfm; omega
  have hK1 : IsPre cs1.constants K := by
    have : IsPre csB.constants K := hK
    rw [hBc] at this; exact this
  have hcode1 : CodeHas code cs1.insts cs.insts.size := by
    have : CodeHas code csB.insts cs.insts.size := hcode
    exact this.sub (by rw [hBi]; exact pre_append _ _) (Nat.le_refl _)
  obtain ⟨fuelE, envE, rr, ss1, t1, hlk, hev, hrest⟩ := hrun fuel env ss t c env' ss' t' hsem
  have hstE : Static (localIdx cs) (nextIndex cs.tables) envE binds :=
    ⟨fun n i hi => by rw [hlk]; exact hst.look n i hi, hst.lt, hst.inj⟩
  obtain ⟨rfl, oe⟩ := eval_step F he hFe hK1 hcode1 hvm hip (by omega) hstE hdy (by omega) hev
  cases rr with
  | thr a =>
    obtain ⟨rfl, rfl, rfl, rfl⟩ := hrest
    exact ⟨rfl, OutS.of_thr oe hdy.rel⟩
  | val v =>
    obtain ⟨rfl, hsv, s1, hr1, hs1, hh1, hip1, hsp1, hag1, hget1⟩ := oe
    obtain ⟨rfl, hdec⟩ := hrest
    obtain ⟨rfl, rfl, hex, hen⟩ := declare_inv hdec
    refine ⟨rfl, ?_⟩
    have hnx : nextIndex T2 = nextIndex cs.tables + 1 := by rw [hni, ht1]
    show OutS F code csB.insts.size bp L (localIdx { csB with tables := T2 }) (nextIndex T2) binds s _ _ _
    rw [hnx]
    have hem' : runCM (Compile.emit_ pos Compile.OpDefineLocal [(nextIndex cs.tables : Int)]) { cs1 with tables := T1 } =
        (.ok (), csB) := by rw [← ht1]; exact hem
    exact define_tail F hem' (hcode.sub (Pre.refl _) she.pre.1) hvm hr1 hs1 hh1 hag1 hsp1 hget1 hip1 hsv hst hdy hN
      (by omega) hlx hlo hex hen

theorem good_define (F : FloatOps) (B : List String) (pos p : Pos) (x : String) (r : Expr) (hF : ExprF (bnd B) r = true)
    (hx : x ≠ "_") :
    GoodC F B (x :: B) (need r + 1) (compileStmt (.assign pos tDefine [.ident p x] [r]))
      (fun fuel env => Sem.execStmt F fuel env (.assign pos tDefine [.ident p x] [r])) := by
  rw [compileStmt_assign1 _ _ _ _ _ (.inl rfl), cda_define]
  refine good_defineCore F B pos x r hF hx _ ?_
  intro fuel env ss t c env' ss' t' hsem
  try dsimp only at hsem
  cases fuel with
  | zero => exact (execStmt_zero' hsem).elim
  | succ fuel =>
    rw [execStmt_assign1] at hsem
    have htk : (tDefine == tAssign || tDefine == tDefine) = true := by decide
    simp only [htk, if_true] at hsem
    obtain ⟨rr, ss1, t1, hev, hsem⟩ := sm_bind_inv hsem
    refine ⟨fuel, env, rr, ss1, t1, fun _ => rfl, hev, ?_⟩
    cases rr with
    | thr a =>
      obtain ⟨hce, rfl, rfl⟩ := sm_pure_inv hsem
      simp only [Prod.mk.injEq] at hce
      exact ⟨hce.1.symm, hce.2.symm, rfl, rfl⟩
    | val v =>
      simp only at hsem
      cases fuel with
      | zero => rw [assignTo_zero] at hsem; exact (sm_unsupported_ne hsem).elim
      | succ fuel =>
        have htd : (tDefine == tDefine) = true := by decide
        rw [htd, assignTo_define] at hsem
        obtain ⟨envd, ss2, t2, hdec, hsem⟩ := sm_bind_inv hsem
        obtain ⟨hce, rfl, rfl⟩ := sm_pure_inv hsem
        simp only [Prod.mk.injEq] at hce
        obtain ⟨rfl, rfl⟩ := hce
        exact ⟨rfl, hdec⟩

/-! ### `var x = e` -/

theorem compileStmt_var1 (pos ipos : Pos) (iota : Option Nat) (x : String) (e : Expr) :
    compileStmt (.declValue pos tVar [(iota, [(ipos, x)], [some e])]) =
      (do compileExpr e; Compile.compileDefine pos x false tVar) := by
  rw [Compile.compileStmt_eq]
  simp only
  unfold Compile.compileValueSpecs
  unfold Compile.compileValueIdents
  unfold Compile.compileValueIdents
  unfold Compile.compileValueSpecs
  simp [Compile.compileValueIdent, tVar, tConst, Gen.tok_Var, Gen.tok_Const]

theorem execStmt_var (F : FloatOps) (fuel : Nat) (env : Sem.Env) (pos : Pos) (tok : Nat)
    (specs : List (Option Nat × List (Pos × String) × List (Option Expr))) :
    Sem.execStmt F (fuel + 1) env (.declValue pos tok specs) = Sem.execValueSpecs F fuel env tok specs none := rfl

theorem execValueSpecs_zero (F : FloatOps) (env : Sem.Env) (tok : Nat)
    (specs : List (Option Nat × List (Pos × String) × List (Option Expr))) (last : Option Expr) :
    Sem.execValueSpecs F 0 env tok specs last = Sem.liftM (unsupported "sem: fuel") := by
  cases specs <;> rfl

theorem execValueSpecs_nil (F : FloatOps) (f : Nat) (env : Sem.Env) (tok : Nat) (last : Option Expr) :
    Sem.execValueSpecs F (f + 1) env tok [] last = pure (.normal, env) := rfl

theorem execValueSpecs_cons (F : FloatOps) (f : Nat) (env : Sem.Env) (tok : Nat) (iota : Option Nat)
    (idents : List (Pos × String)) (values : List (Option Expr))
    (rest : List (Option Nat × List (Pos × String) × List (Option Expr))) (last : Option Expr) :
    Sem.execValueSpecs F (f + 1) env tok ((iota, idents, values) :: rest) last = (do
      let (c, env', last') ← Sem.execIdents F f env tok iota idents values last
      match c with
      | .normal => Sem.execValueSpecs F f env' tok rest last'
      | c => pure (c, env')) := rfl

theorem execIdents_zero (F : FloatOps) (env : Sem.Env) (tok : Nat) (iota : Option Nat)
    (ids : List (Pos × String)) (vals : List (Option Expr)) (last : Option Expr) :
    Sem.execIdents F 0 env tok iota ids vals last = Sem.liftM (unsupported "sem: fuel") := by
  cases ids <;> rfl

theorem execIdents_nil (F : FloatOps) (f : Nat) (env : Sem.Env) (tok : Nat) (iota : Option Nat)
    (vals : List (Option Expr)) (last : Option Expr) :
    Sem.execIdents F (f + 1) env tok iota [] vals last = pure (.normal, env, last) := rfl

theorem execIdents_var1 (F : FloatOps) (f : Nat) (env : Sem.Env) (iota : Option Nat) (ipos : Pos) (x : String) (e : Expr)
    (last : Option Expr) :
    Sem.execIdents F (f + 1) env tVar iota [(ipos, x)] [some e] last = (do
      let envI ← (pure ([] :: env) : Sem.SM Sem.Env)
      match (← Sem.evalExpr F f envI e) with
      | .thr a => pure (.thr a, env, some e)
      | .val v => do
        let env' ← Sem.declare env x v
        Sem.execIdents F f env' tVar iota [] [] (some e)) := rfl

/-- `var x = e` (one specification, one identifier with a value) is `x := e` -/
theorem good_varDecl (F : FloatOps) (B : List String) (pos ipos : Pos) (iota : Option Nat) (x : String) (e : Expr)
    (hF : ExprF (bnd B) e = true) (hx : x ≠ "_") :
    GoodC F B (x :: B) (need e + 1) (compileStmt (.declValue pos tVar [(iota, [(ipos, x)], [some e])]))
      (fun fuel env => Sem.execStmt F fuel env (.declValue pos tVar [(iota, [(ipos, x)], [some e])])) := by
  rw [compileStmt_var1]
  refine good_defineCore F B pos x e hF hx _ ?_
  intro fuel env ss t c env' ss' t' hsem
  try dsimp only at hsem
  cases fuel with
  | zero => exact (execStmt_zero' hsem).elim
  | succ fuel =>
    rw [execStmt_var] at hsem
    cases fuel with
    | zero => rw [execValueSpecs_zero] at hsem; exact (sm_unsupported_ne hsem).elim
    | succ fuel =>
      rw [execValueSpecs_cons] at hsem
      obtain ⟨⟨c1, env1, last1⟩, ss1, t1, hid, hsem⟩ := sm_bind_inv hsem
      cases fuel with
      | zero => rw [execIdents_zero] at hid; exact (sm_unsupported_ne hid).elim
      | succ fuel =>
        rw [execIdents_var1] at hid
        obtain ⟨envI, ss0, t0, hpure, hid⟩ := sm_bind_inv hid
        obtain ⟨rfl, rfl, rfl⟩ := sm_pure_inv hpure
        obtain ⟨rr, ss2, t2, hev, hid⟩ := sm_bind_inv hid
        refine ⟨fuel, [] :: env, rr, ss2, t2, fun n => lookupEnv_nil_cons n env, hev, ?_⟩
        cases rr with
        | thr a =>
          obtain ⟨hce, rfl, rfl⟩ := sm_pure_inv hid
          simp only [Prod.mk.injEq] at hce
          obtain ⟨rfl, rfl, rfl⟩ := hce
          simp only at hsem
          obtain ⟨hce, rfl, rfl⟩ := sm_pure_inv hsem
          simp only [Prod.mk.injEq] at hce
          exact ⟨hce.1.symm, hce.2.symm, rfl, rfl⟩
        | val v =>
          simp only at hid
          obtain ⟨envd, ss3, t3, hdec, hid⟩ := sm_bind_inv hid
          cases fuel with
          | zero => rw [execIdents_zero] at hid; exact (sm_unsupported_ne hid).elim
          | succ fuel =>
            rw [execIdents_nil] at hid
            obtain ⟨hce, rfl, rfl⟩ := sm_pure_inv hid
            simp only [Prod.mk.injEq] at hce
            obtain ⟨rfl, rfl, rfl⟩ := hce
            simp only at hsem
            rw [execValueSpecs_nil] at hsem
            obtain ⟨hce, rfl, rfl⟩ := sm_pure_inv hsem
            simp only [Prod.mk.injEq] at hce
            obtain ⟨rfl, rfl⟩ := hce
            exact ⟨rfl, hdec⟩

/-! ### `x = e` -/

/-- `resolve x; compileAssignSym` for a name that is a local: SETLOCAL slot -/
theorem assignSym_inv {pos : Pos} {x : String} {cs1 cs' : CState} {i : Nat} (hi : localIdx cs1 x = some i)
    (hc : runCM (do
      match (← Compile.resolve x) with
      | none => Compile.cerr pos s!"unresolved reference \"{x}\""
      | some sym => Compile.compileAssignSym pos sym x) cs1 = (.ok (), cs')) :
    runCM (Compile.emit_ pos Compile.OpSetLocal [(i : Int)]) cs1 = (.ok (), cs') := by
  obtain ⟨sym, hres, hscope, hidx⟩ := resolve_local hi
  obtain ⟨r0, cs0, h0, hc⟩ := bind_inv hc
  rw [hres] at h0
  simp only [Prod.mk.injEq, Except.ok.injEq] at h0
  obtain ⟨rfl, rfl⟩ := h0
  simp only at hc
  unfold Compile.compileAssignSym at hc
  split at hc
  · simp [Compile.cerr, Compile.runCM_throw] at hc
  · simp only [hscope, hidx] at hc
    exact hc

theorem good_assign (F : FloatOps) (B : List String) (pos p : Pos) (x : String) (r : Expr) (hF : ExprF (bnd B) r = true)
    (hx : x ∈ B) :
    GoodC F B B (need r + 1) (compileStmt (.assign pos tAssign [.ident p x] [r]))
      (fun fuel env => Sem.execStmt F fuel env (.assign pos tAssign [.ident p x] [r])) := by
  intro cs cs' hc hcov hok
  rw [compileStmt_assign1 _ _ _ _ _ (.inr rfl), cda_assign _ _ _ _ (by decide)] at hc
  obtain ⟨_, cs1, he, hc⟩ := bind_inv hc
  have hFe := exprF_of_cov hcov hF
  obtain ⟨she, _⟩ := good_all F r cs cs1 he hFe
  obtain ⟨i, hi⟩ := Option.isSome_iff_exists.mp (hcov x hx)
  have hi1 : localIdx cs1 x = some i := by rw [she.localIdx]; exact hi
  have hem := assignSym_inv hi1 hc
  have shp := Shape.of_emit_ hem
  have sh := she.trans shp
  have hse := StEff.of_shape sh hok.ne
  have htab : cs'.tables = cs.tables := by rw [sh.eq]
  refine ⟨hse, hok.of_shape sh, by rw [sh.localIdx]; exact hcov, ?_⟩
  intro fuel K code bp L env binds s t ss ss' c env' t' hK hcode hvm hip hsp hL hst hdy hsem
  dsimp only at hsem
  have hN := nextIndex_le_of hok hse hL
  cases fuel with
  | zero => exact (execStmt_zero' hsem).elim
  | succ fuel =>
    rw [execStmt_assign1] at hsem
    have htk : (tAssign == tAssign || tAssign == tDefine) = true := by decide
    simp only [htk, if_true] at hsem
    obtain ⟨rr, ss1, t1, hev, hsem⟩ := sm_bind_inv hsem
    obtain ⟨rfl, oe⟩ := eval_step F he hFe (Compile.IsPre.trans shp.cpre hK) (hcode.sub shp.pre (Nat.le_refl _)) hvm hip
      (by omega) hst hdy hN hev
    cases rr with
    | thr a =>
      obtain ⟨hce, rfl, rfl⟩ := sm_pure_inv hsem
      simp only [Prod.mk.injEq] at hce
      obtain ⟨rfl, rfl⟩ := hce
      exact ⟨rfl, OutS.of_thr oe hdy.rel⟩
    | val v =>
      obtain ⟨rfl, hsv, s1, hr1, hs1, hh1, hip1, hsp1, hag1, hget1⟩ := oe
      simp only at hsem
      obtain ⟨a, hl, hm⟩ := hst.look x i hi
      cases fuel with
      | zero => rw [assignTo_zero] at hsem; exact (sm_unsupported_ne hsem).elim
      | succ fuel =>
        have htd : (tAssign == tDefine) = false := by decide
        rw [htd, assignTo_set F fuel env p x v tVar a hl] at hsem
        obtain ⟨u, ss2, t2, hset, hsem⟩ := sm_bind_inv hsem
        obtain ⟨rfl, hset'⟩ := sm_liftM_inv hset
        rw [exec_heapSet] at hset'
        simp only [Prod.mk.injEq, Except.ok.injEq, true_and] at hset'
        subst hset'
        obtain ⟨hce, rfl, rfl⟩ := sm_pure_inv hsem
        simp only [Prod.mk.injEq] at hce
        obtain ⟨rfl, rfl⟩ := hce
        refine ⟨rfl, ?_⟩
        rw [sh.localIdx, htab]
        exact assign_tail F hem (hcode.sub (Pre.refl _) she.pre.1) hvm hr1 hs1 hh1 hag1 hsp1 hget1 hip1 hsv hst hdy hN
          (by omega) hm

/-! ### `return e`, `return`, the empty statement -/

theorem compileStmt_return1 (pos : Pos) (e : Expr) :
    compileStmt (.return_ pos (some e)) = (do
      compileExpr e
      let s ← get
      (if s.tryCatchIndex > -1 then Compile.emit_ pos Compile.OpFinalizer [0] else pure ())
      Compile.emit_ pos Compile.OpReturn [1]) := by
  rw [Compile.compileStmt_eq]

theorem compileStmt_return0 (pos : Pos) :
    compileStmt (.return_ pos none) = (do
      let s ← get
      (if s.tryCatchIndex > -1 then Compile.emit_ pos Compile.OpFinalizer [0] else pure ())
      Compile.emit_ pos Compile.OpReturn [0]) := by
  rw [Compile.compileStmt_eq]

/-- the tail of a `return`: no FINALIZER outside `try`, then RETURN n -/
theorem return_tail_inv {pos : Pos} {n : Int} {cs1 cs' : CState} (htci : cs1.tryCatchIndex ≤ -1)
    (hc : runCM (do
      let s ← get
      (if s.tryCatchIndex > -1 then Compile.emit_ pos Compile.OpFinalizer [0] else pure ())
      Compile.emit_ pos Compile.OpReturn [n]) cs1 = (.ok (), cs')) :
    runCM (Compile.emit_ pos Compile.OpReturn [n]) cs1 = (.ok (), cs') := by
  obtain ⟨s0, cs0, hg, hc⟩ := bind_inv hc
  rw [Compile.runCM_get] at hg
  simp only [Prod.mk.injEq, Except.ok.injEq] at hg
  obtain ⟨rfl, rfl⟩ := hg
  have : ¬ (cs1.tryCatchIndex > -1) := by omega
  simp only [this, if_false] at hc
  obtain ⟨_, cs2, h1, hc⟩ := bind_inv hc
  obtain ⟨_, rfl⟩ := pure_inv h1
  exact hc

theorem execStmt_return1 (F : FloatOps) (fuel : Nat) (env : Sem.Env) (pos : Pos) (e : Expr) :
    Sem.execStmt F (fuel + 1) env (.return_ pos (some e)) = (do
      match (← Sem.evalExpr F fuel env e) with
      | .thr a => pure (.thr a, env)
      | .val v => pure (.ret v, env)) := rfl

theorem execStmt_return0 (F : FloatOps) (fuel : Nat) (env : Sem.Env) (pos : Pos) :
    Sem.execStmt F (fuel + 1) env (.return_ pos none) = pure (.ret .undefined, env) := rfl

theorem execStmt_empty (F : FloatOps) (fuel : Nat) (env : Sem.Env) (pos : Pos) :
    Sem.execStmt F (fuel + 1) env (.empty pos) = pure (.normal, env) := rfl

theorem good_return1 (F : FloatOps) (B : List String) (pos : Pos) (e : Expr) (hF : ExprF (bnd B) e = true) :
    GoodC F B B (need e) (compileStmt (.return_ pos (some e))) (fun fuel env => Sem.execStmt F fuel env (.return_ pos (some e))) := by
  intro cs cs' hc hcov hok
  rw [compileStmt_return1] at hc
  obtain ⟨_, cs1, he, hc⟩ := bind_inv hc
  have hFe := exprF_of_cov hcov hF
  obtain ⟨she, _⟩ := good_all F e cs cs1 he hFe
  have hem := return_tail_inv (hok.of_shape she).tci hc
  have shp := Shape.of_emit_ hem
  have sh := she.trans shp
  have hse := StEff.of_shape sh hok.ne
  refine ⟨hse, hok.of_shape sh, by rw [sh.localIdx]; exact hcov, ?_⟩
  intro fuel K code bp L env binds s t ss ss' c env' t' hK hcode hvm hip hsp hL hst hdy hsem
  dsimp only at hsem
  have hN := nextIndex_le_of hok hse hL
  obtain ⟨bs, hbs, e2⟩ := emit__inv hem
  obtain ⟨_, _, b, rfl, hb⟩ := mk_w1 Compile.OpReturn rfl _ _ hbs
  have hbk : ∀ k (hk : k < 2), code.insts[cs1.insts.size + k]? = [UInt8.ofNat Compile.OpReturn, b][k]? := by
    intro k hk
    rw [hcode _ (by have := she.pre.1; omega) (by rw [e2]; simp; omega), e2]
    exact emit_bytes _ _ (by simpa using hk)
  cases fuel with
  | zero => exact (execStmt_zero' hsem).elim
  | succ fuel =>
    rw [execStmt_return1] at hsem
    obtain ⟨rr, ss1, t1, hev, hsem⟩ := sm_bind_inv hsem
    obtain ⟨rfl, oe⟩ := eval_step F he hFe (Compile.IsPre.trans shp.cpre hK) (hcode.sub shp.pre (Nat.le_refl _)) hvm hip
      hsp hst hdy hN hev
    cases rr with
    | thr a =>
      obtain ⟨hce, rfl, rfl⟩ := sm_pure_inv hsem
      simp only [Prod.mk.injEq] at hce
      obtain ⟨rfl, rfl⟩ := hce
      exact ⟨rfl, OutS.of_thr oe hdy.rel⟩
    | val v =>
      obtain ⟨hce, rfl, rfl⟩ := sm_pure_inv hsem
      simp only [Prod.mk.injEq] at hce
      obtain ⟨rfl, rfl⟩ := hce
      obtain ⟨rfl, hsv, s1, hr1, hs1, hh1, hip1, hsp1, hag1, hget1⟩ := oe
      exact ⟨rfl, s1, hr1, Frm.of_agree hs1 hh1 hag1, hdy.rel.of_eq hh1, hsv, cs1.insts.size, _, b, hip1,
        by simpa using hbk 0 (by omega), rfl, by simpa using hbk 1 (by omega), .inl ⟨by rw [hb]; rfl, hsp1, hget1⟩⟩

theorem good_return0 (F : FloatOps) (B : List String) (pos : Pos) :
    GoodC F B B 0 (compileStmt (.return_ pos none)) (fun fuel env => Sem.execStmt F fuel env (.return_ pos none)) := by
  intro cs cs' hc hcov hok
  rw [compileStmt_return0] at hc
  have hem := return_tail_inv hok.tci hc
  have sh := Shape.of_emit_ hem
  have hse := StEff.of_shape sh hok.ne
  refine ⟨hse, hok.of_shape sh, by rw [sh.localIdx]; exact hcov, ?_⟩
  intro fuel K code bp L env binds s t ss ss' c env' t' hK hcode hvm hip hsp hL hst hdy hsem
  dsimp only at hsem
  obtain ⟨bs, hbs, e2⟩ := emit__inv hem
  obtain ⟨_, _, b, rfl, hb⟩ := mk_w1 Compile.OpReturn rfl _ _ hbs
  have hbk : ∀ k (hk : k < 2), code.insts[cs.insts.size + k]? = [UInt8.ofNat Compile.OpReturn, b][k]? := by
    intro k hk
    rw [hcode _ (by omega) (by rw [e2]; simp; omega), e2]
    exact emit_bytes _ _ (by simpa using hk)
  cases fuel with
  | zero => exact (execStmt_zero' hsem).elim
  | succ fuel =>
    rw [execStmt_return0] at hsem
    obtain ⟨hce, rfl, rfl⟩ := sm_pure_inv hsem
    simp only [Prod.mk.injEq] at hce
    obtain ⟨rfl, rfl⟩ := hce
    exact ⟨rfl, s, Reach.refl F s, Frm.refl s bp L, hdy.rel, trivial, cs.insts.size, _, b, hip,
      by simpa using hbk 0 (by omega), rfl, by simpa using hbk 1 (by omega), .inr ⟨by rw [hb]; rfl, rfl, rfl⟩⟩

theorem good_empty (F : FloatOps) (B : List String) (pos : Pos) :
    GoodC F B B 0 (compileStmt (.empty pos)) (fun fuel env => Sem.execStmt F fuel env (.empty pos)) := by
  intro cs cs' hc hcov hok
  have hc' : runCM (pure () : Compile.CM Unit) cs = (.ok (), cs') := by
    rw [Compile.compileStmt_eq] at hc; exact hc
  obtain ⟨_, rfl⟩ := pure_inv hc'
  refine ⟨StEff.refl hok.ne, hok, hcov, ?_⟩
  intro fuel K code bp L env binds s t ss ss' c env' t' hK hcode hvm hip hsp hL hst hdy hsem
  dsimp only at hsem
  have hN := nextIndex_le_of hok (StEff.refl hok.ne) hL
  cases fuel with
  | zero => exact (execStmt_zero' hsem).elim
  | succ fuel =>
    rw [execStmt_empty] at hsem
    obtain ⟨hce, rfl, rfl⟩ := sm_pure_inv hsem
    simp only [Prod.mk.injEq] at hce
    obtain ⟨rfl, rfl⟩ := hce
    exact ⟨rfl, OutS.normal_same (Reach.refl F s) (Same.refl s) rfl (AgreeBelow.refl _ _) hip rfl hst hdy hN hvm.lo⟩

/-! ### `x op= e` -/

theorem compoundBase_eq (tok : Nat) : Sem.compoundBase tok = Compile.compoundOp tok := rfl

theorem good_compound (F : FloatOps) (B : List String) (pos p : Pos) (x : String) (r : Expr) (tok op : Nat)
    (hF : ExprF (bnd B) r = true) (hx : x ∈ B) (hop : Compile.compoundOp tok = some op) :
    GoodC F B B (need r + 1) (compileStmt (.assign pos tok [.ident p x] [r]))
      (fun fuel env => Sem.execStmt F fuel env (.assign pos tok [.ident p x] [r])) := by
  have h1 : tok ≠ tDefine := by
    rintro rfl
    have : Compile.compoundOp tDefine = none := by decide
    rw [this] at hop; cases hop
  have h2 : tok ≠ tAssign := by
    rintro rfl
    have : Compile.compoundOp tAssign = none := by decide
    rw [this] at hop; cases hop
  intro cs cs' hc hcov hok
  rw [compileStmt_compound _ _ _ _ _ h1 h2, hop, cda_assign _ _ _ _ h1] at hc
  simp only at hc
  obtain ⟨_, csa, hea, hc⟩ := bind_inv hc
  obtain ⟨_, csb, heb, hc⟩ := bind_inv hc
  obtain ⟨_, csc, hec, hc⟩ := bind_inv hc
  obtain ⟨i, hi⟩ := Option.isSome_iff_exists.mp (hcov x hx)
  have hFa : ExprF (localIdx cs) (.ident p x) = true := by simp [ExprF, hi]
  obtain ⟨sha, _⟩ := good_all F (.ident p x) cs csa hea hFa
  have hFb : ExprF (localIdx csa) r = true := by rw [sha.localIdx]; exact exprF_of_cov hcov hF
  obtain ⟨shb, _⟩ := good_all F r csa csb heb hFb
  have shc := Shape.of_emit_ hec
  have hic : localIdx csc x = some i := by rw [shc.localIdx, shb.localIdx, sha.localIdx]; exact hi
  have hem := assignSym_inv hic hc
  have shd := Shape.of_emit_ hem
  have sh := ((sha.trans shb).trans shc).trans shd
  have hse := StEff.of_shape sh hok.ne
  have htab : cs'.tables = cs.tables := by rw [sh.eq]
  refine ⟨hse, hok.of_shape sh, by rw [sh.localIdx]; exact hcov, ?_⟩
  intro fuel K code bp L env binds s t ss ss' c env' t' hK hcode hvm hip hsp hL hst hdy hsem
  dsimp only at hsem
  have hN := nextIndex_le_of hok hse hL
  have hlo := hvm.lo
  have hnr := need_pos r
  cases fuel with
  | zero => exact (execStmt_zero' hsem).elim
  | succ fuel =>
    rw [execStmt_assign1] at hsem
    have htk : (tok == tAssign || tok == tDefine) = false := by simp [h1, h2]
    simp only [htk, Bool.false_eq_true, if_false] at hsem
    obtain ⟨ra, ss1, t1, heva, hsem⟩ := sm_bind_inv hsem
    obtain ⟨rfl, oa⟩ := eval_step F hea hFa (Compile.IsPre.trans ((shb.trans shc).trans shd).cpre hK)
      (hcode.sub ((shb.trans shc).trans shd).pre (Nat.le_refl _)) hvm hip (by simp only [need]; omega) hst hdy hN heva
    cases ra with
    | thr a =>
      obtain ⟨hce, rfl, rfl⟩ := sm_pure_inv hsem
      simp only [Prod.mk.injEq] at hce
      obtain ⟨rfl, rfl⟩ := hce
      exact ⟨rfl, OutS.of_thr oa hdy.rel⟩
    | val cur =>
      obtain ⟨rfl, hsl, s1, hr1, hs1, hh1, hip1, hsp1, hag1, hget1⟩ := oa
      obtain ⟨hvm1, hdy1⟩ := after_push hvm hdy hst.lt hN hs1 hh1 hag1 (by omega)
      simp only at hsem
      obtain ⟨rb, ss2, t2, hevb, hsem⟩ := sm_bind_inv hsem
      obtain ⟨rfl, ob⟩ := eval_step F heb hFb (Compile.IsPre.trans (shc.trans shd).cpre hK)
        (hcode.sub (shc.trans shd).pre sha.pre.1) hvm1 hip1 (by omega) (by rw [sha.localIdx]; exact hst) hdy1 hN hevb
      cases rb with
      | thr a =>
        obtain ⟨hce, rfl, rfl⟩ := sm_pure_inv hsem
        simp only [Prod.mk.injEq] at hce
        obtain ⟨rfl, rfl⟩ := hce
        exact ⟨rfl, OutS.of_thr (q' := 0) (Outcome.thr_via hr1 hs1 hh1 hag1 (by omega) (by omega) ob) hdy.rel⟩
      | val rv =>
        obtain ⟨rfl, hsr, s2, hr2, hs2, hh2, hip2, hsp2, hag2, hget2⟩ := ob
        obtain ⟨hvm2, hdy2⟩ := after_push hvm1 hdy1 hst.lt hN hs2 hh2 hag2 (by omega)
        simp only at hsem
        obtain ⟨y, ss3, t3, hvb, hsem⟩ := sm_bind_inv hsem
        obtain ⟨rfl, hvb'⟩ := sm_liftM_inv hvb
        have hopb : (Sem.compoundBase tok).getD tAdd = op := by rw [compoundBase_eq, hop]; rfl
        rw [hopb] at hvb'
        have hlv : s2.stack[(s2.sp - 2).toNat]! = cur := by
          have : (s2.sp - 2).toNat = s.sp.toNat := by omega
          rw [this, hag2.2 _ (by omega), hget1]
        have hrv : s2.stack[(s2.sp - 1).toNat]! = rv := by
          have : (s2.sp - 1).toNat = s1.sp.toNat := by omega
          rw [this, hget2]
        have hcodec : CodeHas code csc.insts csb.insts.size :=
          hcode.sub shd.pre (by have := sha.pre.1; have := shb.pre.1; omega)
        cases y with
        | ok nv =>
          have hs' : exec (do
              match (← vBinaryOp F (tokOfNat op) cur rv) with
              | .ok v => pure (Sem.ER.val v)
              | .error e => raiseF e) t = (.ok (.val nv), t3) := by
            rw [exec_bind, hvb']; rfl
          have o2 := tail_arith F pos op csb csc hec K code bp (bp + L) s2 t cur rv _ _ hcodec hvm2 hip2 (by omega)
            hlv hrv hsl hsr hs'
          obtain ⟨rfl, hsv, s3, hr3, hs3, hh3, hip3, hsp3, hag3, hget3⟩ :=
            combine2 hvm.size (by omega) hr1 hs1 hh1 hsp1 hag1 hr2 hs2 hh2 hsp2 hag2 o2
          simp only at hsem
          obtain ⟨a, hl, hm⟩ := hst.look x i hi
          cases fuel with
          | zero => rw [assignTo_zero] at hsem; exact (sm_unsupported_ne hsem).elim
          | succ fuel =>
            rw [assignTo_set F fuel env p x nv tVar a hl] at hsem
            obtain ⟨u, ss4, t4, hset, hsem⟩ := sm_bind_inv hsem
            obtain ⟨rfl, hset'⟩ := sm_liftM_inv hset
            rw [exec_heapSet] at hset'
            simp only [Prod.mk.injEq, Except.ok.injEq, true_and] at hset'
            subst hset'
            obtain ⟨hce, rfl, rfl⟩ := sm_pure_inv hsem
            simp only [Prod.mk.injEq] at hce
            obtain ⟨rfl, rfl⟩ := hce
            refine ⟨rfl, ?_⟩
            rw [sh.localIdx, htab]
            exact assign_tail F hem (hcode.sub (Pre.refl _) (by have := sha.pre.1; have := shb.pre.1; have := shc.pre.1; omega))
              hvm hr3 hs3 hh3 hag3 hsp3 hget3 hip3 hsv hst hdy hN (by omega) hm
        | error er =>
          simp only at hsem
          obtain ⟨r2, ss4, t4, hraise, hsem⟩ := sm_bind_inv hsem
          rw [run_raise] at hraise
          obtain ⟨rfl, hraise'⟩ := withSt_inv hraise
          obtain ⟨a, rfl, hrt⟩ := raise_inv hraise'
          simp only at hsem
          obtain ⟨hce, rfl, rfl⟩ := sm_pure_inv hsem
          simp only [Prod.mk.injEq] at hce
          obtain ⟨rfl, rfl⟩ := hce
          have hs' : exec (do
              match (← vBinaryOp F (tokOfNat op) cur rv) with
              | .ok v => pure (Sem.ER.val v)
              | .error e => raiseF e) t = (.ok (.thr a), t4) := by
            rw [exec_bind, hvb']; exact hraise'
          have o2 := tail_arith F pos op csb csc hec K code bp (bp + L) s2 t cur rv _ _ hcodec hvm2 hip2 (by omega)
            hlv hrv hsl hsr hs'
          exact ⟨rfl, OutS.of_thr (combine2 hvm.size (by omega) hr1 hs1 hh1 hsp1 hag1 hr2 hs2 hh2 hsp2 hag2 o2) hdy.rel⟩

/-! ### `var x` (no value): the code of `var x = undefined` -/

theorem compileExpr_undef (pos : Pos) : compileExpr (.undef pos) = Compile.emit_ pos Compile.OpNull := by
  unfold Compile.compileExpr; rfl

theorem compileStmt_var0 (pos ipos : Pos) (iota : Option Nat) (x : String) :
    compileStmt (.declValue pos tVar [(iota, [(ipos, x)], [])]) =
      (do compileExpr (.undef ipos); Compile.compileDefine pos x false tVar) := by
  rw [compileExpr_undef, Compile.compileStmt_eq]
  simp only
  unfold Compile.compileValueSpecs
  unfold Compile.compileValueIdents
  unfold Compile.compileIdentsNoValue
  unfold Compile.compileIdentsNoValue
  unfold Compile.compileValueSpecs
  simp [Compile.compileValueIdent, tVar, tConst, Gen.tok_Var, Gen.tok_Const]

theorem execIdents_var0 (F : FloatOps) (f : Nat) (env : Sem.Env) (iota : Option Nat) (ipos : Pos) (x : String)
    (last : Option Expr) :
    Sem.execIdents F (f + 1) env tVar iota [(ipos, x)] [] last = (do
      let envI ← (pure ([] :: env) : Sem.SM Sem.Env)
      match (← Sem.evalExpr F f envI (.undef ipos)) with
      | .thr a => pure (.thr a, env, last)
      | .val v => do
        let env' ← Sem.declare env x v
        Sem.execIdents F f env' tVar iota [] [] last) := by
  cases last <;> rfl

theorem good_varDecl0 (F : FloatOps) (B : List String) (pos ipos : Pos) (iota : Option Nat) (x : String)
    (hx : x ≠ "_") :
    GoodC F B (x :: B) 2 (compileStmt (.declValue pos tVar [(iota, [(ipos, x)], [])]))
      (fun fuel env => Sem.execStmt F fuel env (.declValue pos tVar [(iota, [(ipos, x)], [])])) := by
  rw [compileStmt_var0]
  refine good_defineCore F B pos x (.undef ipos) rfl hx _ ?_
  intro fuel env ss t c env' ss' t' hsem
  try dsimp only at hsem
  cases fuel with
  | zero => exact (execStmt_zero' hsem).elim
  | succ fuel =>
    rw [execStmt_var] at hsem
    cases fuel with
    | zero => rw [execValueSpecs_zero] at hsem; exact (sm_unsupported_ne hsem).elim
    | succ fuel =>
      rw [execValueSpecs_cons] at hsem
      obtain ⟨⟨c1, env1, last1⟩, ss1, t1, hid, hsem⟩ := sm_bind_inv hsem
      cases fuel with
      | zero => rw [execIdents_zero] at hid; exact (sm_unsupported_ne hid).elim
      | succ fuel =>
        rw [execIdents_var0] at hid
        obtain ⟨envI, ss0, t0, hpure, hid⟩ := sm_bind_inv hid
        obtain ⟨rfl, rfl, rfl⟩ := sm_pure_inv hpure
        obtain ⟨rr, ss2, t2, hev, hid⟩ := sm_bind_inv hid
        refine ⟨fuel, [] :: env, rr, ss2, t2, fun n => lookupEnv_nil_cons n env, hev, ?_⟩
        cases rr with
        | thr a =>
          obtain ⟨hce, rfl, rfl⟩ := sm_pure_inv hid
          simp only [Prod.mk.injEq] at hce
          obtain ⟨rfl, rfl, rfl⟩ := hce
          simp only at hsem
          obtain ⟨hce, rfl, rfl⟩ := sm_pure_inv hsem
          simp only [Prod.mk.injEq] at hce
          exact ⟨hce.1.symm, hce.2.symm, rfl, rfl⟩
        | val v =>
          simp only at hid
          obtain ⟨envd, ss3, t3, hdec, hid⟩ := sm_bind_inv hid
          cases fuel with
          | zero => rw [execIdents_zero] at hid; exact (sm_unsupported_ne hid).elim
          | succ fuel =>
            rw [execIdents_nil] at hid
            obtain ⟨hce, rfl, rfl⟩ := sm_pure_inv hid
            simp only [Prod.mk.injEq] at hce
            obtain ⟨rfl, rfl, rfl⟩ := hce
            simp only at hsem
            rw [execValueSpecs_nil] at hsem
            obtain ⟨hce, rfl, rfl⟩ := sm_pure_inv hsem
            simp only [Prod.mk.injEq] at hce
            obtain ⟨rfl, rfl⟩ := hce
            exact ⟨rfl, hdec⟩

/-! ### `x++` / `x--`: the code and the meaning of `x += 1` / `x -= 1` -/

/-- the same code against another presentation of the same reference computation -/
theorem GoodC.resem {F : FloatOps} {B B' : List String} {nd : Nat} {act : Compile.CM Unit}
    {sem sem' : Nat → Sem.Env → Sem.SM (Sem.Comp × Sem.Env)} (h : GoodC F B B' nd act sem)
    (hrun : ∀ fuel env ss t r ss' t', exec ((sem' fuel env).run ss) t = (.ok (r, ss'), t') →
      ∃ fuel', exec ((sem fuel' env).run ss) t = (.ok (r, ss'), t')) : GoodC F B B' nd act sem' := by
  intro cs cs' hc hcov hok
  obtain ⟨h1, h2, h3, h4⟩ := h cs cs' hc hcov hok
  refine ⟨h1, h2, h3, ?_⟩
  intro fuel K code bp L env binds s t ss ss' c env' t' hK hcode hvm hip hsp hL hst hdy hsem
  obtain ⟨fuel', hsem'⟩ := hrun fuel env ss t (c, env') ss' t' hsem
  exact h4 fuel' K code bp L env binds s t ss ss' c env' t' hK hcode hvm hip hsp hL hst hdy hsem'

theorem compileStmt_incdec (pos : Pos) (tok : Nat) (tp p : Pos) (x : String) :
    compileStmt (.incdec pos tok tp (.ident p x)) =
      compileStmt (.assign pos (if tok == tDec then tSubAssign else tAddAssign) [.ident p x] [.int tp 1#64]) := by
  have h1 : (if tok == tDec then tSubAssign else tAddAssign) ≠ tDefine := by split <;> decide
  have h2 : (if tok == tDec then tSubAssign else tAddAssign) ≠ tAssign := by split <;> decide
  have h3 : compileExpr (.int tp 1#64) = Compile.emitConstant tp (.int 1#64) := by
    unfold Compile.compileExpr; rfl
  rw [compileStmt_compound _ _ _ _ _ h1 h2, h3, Compile.compileStmt_eq]
  first | rfl | (simp only; done) | (simp only; rfl)

theorem execStmt_incdec (F : FloatOps) (fuel : Nat) (env : Sem.Env) (pos : Pos) (tok : Nat) (tp : Pos) (e : Expr) :
    Sem.execStmt F (fuel + 1) env (.incdec pos tok tp e) = (do
      match (← Sem.evalExpr F fuel env e) with
      | .thr a => pure (.thr a, env)
      | .val cur =>
        match (← Sem.liftM (vBinaryOp F (if tok == tDec then .Sub else .Add) cur (.int 1#64))) with
        | .error er => do match (← Sem.raise er) with | .thr a => pure (.thr a, env) | _ => pure (.normal, env)
        | .ok nv => Sem.assignTo F fuel env e nv false tVar) := rfl

theorem sm_bind_run' {α β} {x : Sem.SM α} {f : α → Sem.SM β} {ss ss1 : Sem.SemSt} {t t1 : State} {a : α}
    (h : exec (x.run ss) t = (.ok (a, ss1), t1)) : exec ((x >>= f).run ss) t = exec ((f a).run ss1) t1 := by
  rw [StateT.run_bind, exec_bind, h]

theorem sm_pure_run' {α} (a : α) (ss : Sem.SemSt) (t : State) :
    exec ((pure a : Sem.SM α).run ss) t = (.ok (a, ss), t) := by
  rw [run_pure]; rfl

/-- a run of `x++` / `x--` is a run of `x += 1` / `x -= 1` -/
theorem incdec_as_compound (F : FloatOps) (fuel : Nat) (env : Sem.Env) (pos : Pos) (tok : Nat) (tp : Pos) (e : Expr)
    (ss : Sem.SemSt) (t : State) (r : Sem.Comp × Sem.Env) (ss' : Sem.SemSt) (t' : State)
    (h : exec ((Sem.execStmt F fuel env (.incdec pos tok tp e)).run ss) t = (.ok (r, ss'), t')) :
    ∃ fuel', exec ((Sem.execStmt F fuel' env
      (.assign pos (if tok == tDec then tSubAssign else tAddAssign) [e] [.int tp 1#64])).run ss) t = (.ok (r, ss'), t') := by
  cases fuel with
  | zero => exact (execStmt_zero' h).elim
  | succ fuel =>
    rw [execStmt_incdec] at h
    obtain ⟨rc, ss1, t1, hev, h⟩ := sm_bind_inv h
    cases fuel with
    | zero =>
      have h0 : Sem.evalExpr F 0 env e = Sem.liftM (unsupported "sem: fuel") := by cases e <;> rfl
      rw [h0] at hev; exact (sm_unsupported_ne hev).elim
    | succ f =>
      refine ⟨f + 2, ?_⟩
      rw [execStmt_assign1]
      have hint : exec ((Sem.evalExpr F (f + 1) env (.int tp 1#64)).run ss1) t1 = (.ok (.val (.int 1#64), ss1), t1) := by
        have : Sem.evalExpr F (f + 1) env (.int tp 1#64) = pure (.val (.int 1#64)) := rfl
        rw [this]; exact sm_pure_run' _ _ _
      by_cases hd : (tok == tDec) = true
      · simp only [hd, if_true] at h ⊢
        have htk : (tSubAssign == tAssign || tSubAssign == tDefine) = false := by decide
        simp only [htk, Bool.false_eq_true, if_false]
        rw [sm_bind_run' hev]
        cases rc with
        | thr a => exact h
        | val cur =>
          simp only at h ⊢
          rw [sm_bind_run' hint]
          exact h
      · simp only [hd, Bool.false_eq_true, if_false] at h ⊢
        have htk : (tAddAssign == tAssign || tAddAssign == tDefine) = false := by decide
        simp only [htk, Bool.false_eq_true, if_false]
        rw [sm_bind_run' hev]
        cases rc with
        | thr a => exact h
        | val cur =>
          simp only at h ⊢
          rw [sm_bind_run' hint]
          exact h

theorem good_incdec (F : FloatOps) (B : List String) (pos : Pos) (tok : Nat) (tp p : Pos) (x : String) (hx : x ∈ B) :
    GoodC F B B 2 (compileStmt (.incdec pos tok tp (.ident p x)))
      (fun fuel env => Sem.execStmt F fuel env (.incdec pos tok tp (.ident p x))) := by
  rw [compileStmt_incdec]
  have hop : ∃ op, Compile.compoundOp (if tok == tDec then tSubAssign else tAddAssign) = some op := by
    split
    · exact ⟨_, rfl⟩
    · exact ⟨_, rfl⟩
  obtain ⟨op, hop⟩ := hop
  have hg := good_compound F B pos p x (.int tp 1#64) _ op rfl hx hop
  exact hg.resem (fun fuel env ss t r ss' t' h => incdec_as_compound F fuel env pos tok tp _ ss t r ss' t' h)

end UgoVerif.CompSim
