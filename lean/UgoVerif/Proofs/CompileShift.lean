import UgoVerif.Proofs.CompileMonoMain
/-
  C10 helper (`compile_append`): compiling from a state whose instruction stream already holds a
  prefix `pre` (the batch compile after the earlier fragments) and compiling from the same state
  without the prefix (the session's compile of the next fragment) do the same thing to the
  tables and the constant pool, return the same result, and append the same bytes — for every
  construct that, outside function literals, neither emits a jump nor patches an operand.
-/
namespace UgoVerif.Compile
open UgoVerif UgoVerif.Go UgoVerif.Ast

/-- the state `s` with `pre` in front of its instruction stream (and some other source map) -/
@[reducible] def withPre (pre : Array UInt8) (M : List (Nat × Nat)) (s : CState) : CState :=
  { s with insts := pre ++ s.insts, sourceMap := M }

/-- outcomes of the two runs: the same result; on normal termination the final state of the run
    with the prefix is the other final state with the prefix in front; after an error tables and
    constants agree (inside a function literal the stream is the function's in both runs) -/
def EquiOut {α} (pre : Array UInt8) (o o' : Except CErr α × CState) : Prop :=
  match o, o' with
  | (.ok a, t), (.ok a', t') => a' = a ∧ ∃ M', t' = withPre pre M' t
  | (.error e, t), (.error e', t') => e' = e ∧ t'.tables = t.tables ∧ t'.constants = t.constants
  | _, _ => False

/-- `Equi m`: `m` is insensitive to a prefix in front of the instruction stream -/
def Equi {α} (m : CM α) : Prop :=
  ∀ (pre : Array UInt8) (M : List (Nat × Nat)) (s : CState), EquiOut pre (runCM m s) (runCM m (withPre pre M s))

theorem Equi.pure {α} (a : α) : Equi (Pure.pure a : CM α) := fun _ M _ => ⟨rfl, M, rfl⟩
theorem Equi.throw {α} (e : CErr) : Equi (throw e : CM α) := fun _ _ _ => ⟨rfl, rfl, rfl⟩
theorem Equi.cerr {α} (pos : Pos) (msg : String) : Equi (Compile.cerr pos msg : CM α) := Equi.throw _
theorem Equi.cpanic {α} (msg : String) : Equi (Compile.cpanic msg : CM α) := Equi.throw _
theorem Equi.cunsupported {α} (msg : String) : Equi (Compile.cunsupported msg : CM α) := Equi.throw _

theorem Equi.bind {α β} {m : CM α} {f : α → CM β} (hm : Equi m) (hf : ∀ a, Equi (f a)) : Equi (m >>= f) := by
  intro pre M s
  have h1 := hm pre M s
  rw [runCM_bind, runCM_bind]
  unfold EquiOut at h1
  cases hr : runCM m s with
  | mk r s1 =>
    cases hr' : runCM m (withPre pre M s) with
    | mk r' s1' =>
      rw [hr, hr'] at h1
      cases r with
      | ok a =>
        cases r' with
        | ok a' =>
          obtain ⟨rfl, M1, rfl⟩ := h1
          exact hf a' pre M1 s1
        | error e' => exact h1.elim
      | error e =>
        cases r' with
        | ok a' => exact h1.elim
        | error e' => exact h1

/-- `let s ← get; f s` where `f` looks only at fields other than the stream and the source map -/
theorem Equi.get_bind {β} {f : CState → CM β} (h2 : ∀ s, Equi (f s))
    (h1 : ∀ pre M s, f (withPre pre M s) = f s := by intros; rfl) :
    Equi (MonadState.get >>= f) := by
  intro pre M s
  rw [runCM_bind, runCM_bind, runCM_get, runCM_get]
  simp only [h1]
  exact h2 s pre M s

theorem Equi.modify {g : CState → CState} (hg : ∀ pre M s, g (withPre pre M s) = withPre pre M (g s) := by intros; rfl) :
    Equi (modify g : CM Unit) := by
  intro pre M s
  rw [runCM_modify, runCM_modify, hg]
  exact ⟨rfl, M, rfl⟩

theorem equi_addConstant (k : CVal) : Equi (addConstant k) := by
  intro pre M s
  unfold addConstant
  simp only [runCM_bind, runCM_get, withPre]
  split
  · exact ⟨rfl, M, rfl⟩
  · exact ⟨rfl, M, rfl⟩

theorem equi_addFnConstant (f : CFn) : Equi (addFnConstant f) := by
  intro pre M s
  unfold addFnConstant
  simp only [runCM_bind, runCM_get, withPre]
  split
  · exact ⟨rfl, M, rfl⟩
  · exact ⟨rfl, M, rfl⟩

theorem equi_emit_ (pos : Pos) (op : Nat) (args : List Int) : Equi (emit_ pos op args) := by
  intro pre M s
  unfold emit_ emit
  split
  · exact ⟨rfl, rfl, rfl⟩
  · split
    · split <;> exact ⟨rfl, rfl, rfl⟩
    · simp only [runCM_bind, runCM_get, runCM_set, runCM_pure, withPre]
      exact ⟨rfl, _, by simp [Array.append_assoc]; rfl⟩

theorem equi_resolve (name : String) : Equi (resolve name) := by
  intro pre M s
  unfold resolve
  simp only [runCM_bind, runCM_get, withPre]
  exact ⟨rfl, M, rfl⟩

syntax "equi_leaf" : tactic
macro_rules | `(tactic| equi_leaf) => `(tactic| first
  | with_reducible assumption
  | with_reducible exact Equi.pure _ | with_reducible exact Equi.throw _
  | with_reducible exact Equi.cerr _ _ | with_reducible exact Equi.cpanic _ | with_reducible exact Equi.cunsupported _
  | with_reducible exact equi_addConstant _ | with_reducible exact equi_addFnConstant _
  | with_reducible exact equi_emit_ _ _ _ | with_reducible exact equi_resolve _
  | (with_reducible exact Equi.modify))

syntax "equi" : tactic
macro_rules | `(tactic| equi) => `(tactic| repeat' (first
  | equi_leaf
  | (with_reducible refine Equi.get_bind (fun _ => ?_))
  | (with_reducible refine Equi.bind ?_ (fun _ => ?_))
  | split))

theorem equi_headTable : Equi headTable := by unfold headTable; equi
macro_rules | `(tactic| equi_leaf) => `(tactic| with_reducible exact equi_headTable)
theorem equi_modTables (g : List Table → List Table) : Equi (modTables g) := by unfold modTables; equi
theorem equi_modHead (f : Table → Table) : Equi (modHead f) := by unfold modHead modTables; equi
macro_rules | `(tactic| equi_leaf) => `(tactic| first
  | with_reducible exact equi_modTables _ | with_reducible exact equi_modHead _)
theorem equi_updateSym (n : String) (f : Symbol → Symbol) : Equi (updateSym n f) := by unfold updateSym; equi
theorem equi_hasAnyConstLit : Equi hasAnyConstLit := by unfold hasAnyConstLit; equi
theorem equi_findSymbolSelf (n : String) : Equi (findSymbolSelf n) := by unfold findSymbolSelf; equi
theorem equi_forkTable (b : Bool) : Equi (forkTable b) := by unfold forkTable; equi
theorem equi_popTable : Equi popTable := by unfold popTable; equi
macro_rules | `(tactic| equi_leaf) => `(tactic| first
  | with_reducible exact equi_updateSym _ _ | with_reducible exact equi_hasAnyConstLit
  | with_reducible exact equi_findSymbolSelf _ | with_reducible exact equi_forkTable _ | with_reducible exact equi_popTable)
theorem equi_defineLocal (name : String) : Equi (defineLocal name) := by unfold defineLocal; equi
theorem equi_defineConstLitSym (name : String) (v : Option CVal) : Equi (defineConstLitSym name v) := by
  unfold defineConstLitSym; equi
theorem equi_emitConstant (pos : Pos) (v : CVal) : Equi (emitConstant pos v) := by unfold emitConstant; equi
theorem equi_emitFnConstant (pos : Pos) (fn : CFn) (n : Nat) : Equi (emitFnConstant pos fn n) := by unfold emitFnConstant; equi
macro_rules | `(tactic| equi_leaf) => `(tactic| first
  | with_reducible exact equi_defineLocal _ | with_reducible exact equi_defineConstLitSym _ _
  | with_reducible exact equi_emitConstant _ _ | with_reducible exact equi_emitFnConstant _ _ _)
theorem equi_emitConstLit (pos : Pos) (v : CVal) : Equi (emitConstLit pos v) := by unfold emitConstLit; equi
macro_rules | `(tactic| equi_leaf) => `(tactic| with_reducible exact equi_emitConstLit _ _)
theorem equi_compileIdent (pos : Pos) (name : String) : Equi (compileIdent pos name) := by unfold compileIdent; equi
theorem equi_compileDefine (pos : Pos) (ident : String) (allow : Bool) (kw : Nat) : Equi (compileDefine pos ident allow kw) := by
  unfold compileDefine; equi
theorem equi_compileAssignSym (pos : Pos) (sym : Symbol) (ident : String) : Equi (compileAssignSym pos sym ident) := by
  unfold compileAssignSym; equi
theorem equi_defineConstLit (name : String) (v : VSum) : Equi (defineConstLit name v) := by unfold defineConstLit; equi
macro_rules | `(tactic| equi_leaf) => `(tactic| first
  | with_reducible exact equi_compileIdent _ _ | with_reducible exact equi_compileDefine _ _ _ _
  | with_reducible exact equi_compileAssignSym _ _ _ | with_reducible exact equi_defineConstLit _ _)

theorem equi_setParamsLoop (pos : Pos) : ∀ ps k, Equi (setParamsLoop pos ps k)
  | [], _ => by unfold setParamsLoop; equi
  | p :: rest, k => by
    have := fun k => equi_setParamsLoop pos rest k
    unfold setParamsLoop; equi
    exact this _
theorem equi_setParams (pos : Pos) (ps : List String) : Equi (setParams pos ps) := by
  have := equi_setParamsLoop pos ps 0
  unfold setParams; equi
theorem equi_declParamVariadic (pos : Pos) : ∀ l, Equi (declParamVariadic pos l)
  | [] => by unfold declParamVariadic; equi
  | (_, _, va) :: r => by
    have := equi_declParamVariadic pos r
    unfold declParamVariadic; equi
theorem equi_declGlobals (pos : Pos) : ∀ l, Equi (declGlobals pos l)
  | [] => by unfold declGlobals; equi
  | (_, name, _) :: r => by
    have := equi_declGlobals pos r
    unfold declGlobals; equi
theorem equi_emitFreePtrs (pos : Pos) : ∀ l, Equi (emitFreePtrs pos l)
  | [] => by unfold emitFreePtrs; equi
  | y :: r => by
    have := equi_emitFreePtrs pos r
    unfold emitFreePtrs; equi
macro_rules | `(tactic| equi_leaf) => `(tactic| first
  | with_reducible exact equi_setParams _ _ | with_reducible exact equi_declParamVariadic _ _
  | with_reducible exact equi_declGlobals _ _ | with_reducible exact equi_emitFreePtrs _ _)

theorem equi_withBlock {body : CM Unit} (hb : Equi body) : Equi (withBlock body) := by unfold withBlock; equi
theorem equi_blockOf {body : List Stmt} {act : CM Unit} (h : Equi act) : Equi (blockOf body act) := by
  unfold blockOf
  split
  · exact Equi.pure _
  · exact equi_withBlock h

theorem equi_compileValueIdent (pos : Pos) (tok : Nat) (name : String) {act : CM Unit} (ha : Equi act) (sum : VSum) :
    Equi (compileValueIdent pos tok name act sum) := by
  unfold compileValueIdent; equi

abbrev LastEqui (last : Option (CM Unit × VSum)) : Prop := ∀ x, last = some x → Equi x.1

theorem equi_lastMatch (pos : Pos) (tok : Nat) (ipos : Pos) (name : String) {last : Option (CM Unit × VSum)}
    (hl : LastEqui last) :
    Equi (match (if tok == tConst then last else none) with
     | some (act, sum) => compileValueIdent pos tok name act sum
     | none => compileValueIdent pos tok name (emit_ ipos OpNull) (.lit .undefined)) := by
  split
  · rename_i act sum h
    refine equi_compileValueIdent pos tok name (hl (act, sum) ?_) sum
    split at h
    · exact h
    · cases h
  · exact equi_compileValueIdent pos tok name (equi_emit_ _ _ _) _

theorem equi_compileIdentsNoValue (pos : Pos) (tok : Nat) {last : Option (CM Unit × VSum)} (hl : LastEqui last) :
    ∀ l : List (Pos × String), Equi (compileIdentsNoValue pos tok last l)
  | [] => by unfold compileIdentsNoValue; equi
  | (ipos, name) :: rest => by
    have h1 := equi_lastMatch pos tok ipos name hl
    have h2 := equi_compileIdentsNoValue pos tok hl rest
    unfold compileIdentsNoValue
    exact Equi.bind h1 fun _ => h2

theorem equi_compileAssign (pos : Pos) (lhs : List Expr) (nrhs : Nat) {rhsAct lhs0Act defAssign0 : CM Unit}
    {destruct : Int → CM Unit} (h1 : Equi rhsAct) (h2 : Equi lhs0Act) (h3 : Equi defAssign0) (h4 : ∀ i, Equi (destruct i))
    (op : Nat) : Equi (compileAssign pos lhs nrhs rhsAct lhs0Act defAssign0 destruct op) := by
  unfold compileAssign
  equi
  exact h4 _

theorem runCM_leaveFn_nil (outer : CState) {s : CState} (h : s.tables = []) :
    ∃ e, runCM (leaveFn outer) s = (.error e, s) := by
  unfold leaveFn popTable headTable
  simp only [runCM_bind, runCM_get, h]
  exact ⟨_, rfl⟩

/-- two computations that start with the same action in the same state -/
theorem equiOut_same_start {α β} {pre : Array UInt8} {m : CM α} {k k' : α → CM β} (e : CState)
    (h : ∀ a s1, EquiOut pre (runCM (k a) s1) (runCM (k' a) s1)) :
    EquiOut pre (runCM (m >>= k) e) (runCM (m >>= k') e) := by
  rw [runCM_bind, runCM_bind]
  cases hr : runCM m e with
  | mk r s1 =>
    cases r with
    | error e' => exact ⟨rfl, rfl, rfl⟩
    | ok a => exact h a s1

/-- a function literal: its body is compiled from a fresh stream in both runs, so ANY body will do -/
theorem equi_withFn (pos : Pos) (variadic : Bool) (params : List String) (body : CM Unit) :
    Equi (withFn pos variadic params body) := by
  intro pre M s2
  unfold withFn
  rw [runCM_bind, runCM_bind, runCM_enterFn, runCM_enterFn]
  simp only
  -- both runs continue from the same state; only the saved outer state differs
  generalize ({ tables := s2.tables, constants := s2.constants, variadic := variadic, builtins := s2.builtins } : CState) = e2
  apply equiOut_same_start; intro _ s3
  apply equiOut_same_start; intro _ s3'
  apply equiOut_same_start; intro _ s3''
  apply equiOut_same_start; intro fn s4
  rw [runCM_bind, runCM_bind]
  cases ht : s4.tables with
  | nil =>
    obtain ⟨e1, h1⟩ := runCM_leaveFn_nil s2 ht
    obtain ⟨e2', h2⟩ := runCM_leaveFn_nil (withPre pre M s2) ht
    rw [h1, h2]
    have : e2' = e1 := by
      have a1 := h1; have a2 := h2
      unfold leaveFn popTable headTable at a1 a2
      simp only [runCM_bind, runCM_get, ht] at a1 a2
      injection a1 with a1; injection a2 with a2
      injection a1 with a1; injection a2 with a2
      exact a2.symm.trans a1
    exact ⟨this, rfl, rfl⟩
  | cons t r =>
    rw [runCM_leaveFn s2 ht, runCM_leaveFn (withPre pre M s2) ht]
    simp only [runCM_pure]
    exact ⟨rfl, M, rfl⟩

end UgoVerif.Compile
