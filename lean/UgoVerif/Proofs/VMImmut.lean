import UgoVerif.Proofs.C07Calc
import Lean.Elab.Tactic
/-
  `bytecode_immutable`, model half: no action of the VM model assigns the fields that
  make up the shared Bytecode (`codes`, `consts`, `mainFn`, `numModules`).
  Proved once for every primitive, every opcode function, `step`, `loopF`, `handlePanic`
  and `runFrom` by the invariant calculus `Keeps`.
-/
namespace UgoVerif.VM
open UgoVerif UgoVerif.Go

/-- the state carries bytecode `b` -/
@[reducible] def HasBC (codes : Array Code) (consts : Array V) (mainFn : Addr) (nm : Nat) (s : State) : Prop :=
  s.codes = codes ∧ s.consts = consts ∧ s.mainFn = mainFn ∧ s.numModules = nm

/-- closes the goal with a local hypothesis `∀ …, Keeps P (f …)` (join points, induction hypotheses) -/
elab "keeps_hyp" : tactic => do
  let g ← Lean.Elab.Tactic.getMainGoal
  g.withContext do
    for d in (← Lean.getLCtx) do
      if d.isImplementationDetail then continue
      let ok ← Lean.commitWhen do
        try
          let gs ← Lean.Meta.withReducible (g.apply d.toExpr)
          pure gs.isEmpty
        catch _ => pure false
      if ok then
        Lean.Elab.Tactic.replaceMainGoal []
        return
    throwError "keeps_hyp: no hypothesis applies"

syntax "keeps_prim" : tactic
macro_rules | `(tactic| keeps_prim) => `(tactic| exact Keeps.pure _)
macro_rules | `(tactic| keeps_prim) => `(tactic| exact Keeps.panic _)
macro_rules | `(tactic| keeps_prim) => `(tactic| exact Keeps.unsupported _)
macro_rules | `(tactic| keeps_prim) => `(tactic| exact Keeps.throw _)
macro_rules | `(tactic| keeps_prim) => `(tactic| exact Keeps.getS)
macro_rules | `(tactic| keeps_prim) => `(tactic| exact Keeps.get)
macro_rules | `(tactic| keeps_prim) => `(tactic| exact Keeps.modS (fun _ h => h))
macro_rules | `(tactic| keeps_prim) => `(tactic| exact Keeps.set' (by assumption))
macro_rules | `(tactic| keeps_prim) => `(tactic| keeps_hyp)

/-- structural decomposition of a `do` block.  Join points and local functions
    (`have jp := fun … => …; body`) are proved once and then abstracted, so that their
    bodies are not duplicated at every call site. -/
syntax "keeps" : tactic
set_option hygiene false in
macro_rules | `(tactic| keeps) => `(tactic|
  repeat (first
    | with_reducible keeps_prim
    | apply Keeps.bind
    | apply Keeps.ite
    | apply Keeps.forIn_range
    | apply Keeps.forIn_list
    | ((first | lift_lets | skip); intro jp__;
       first
       | (have hjp__ : Keeps (HasBC codes consts mainFn nm) jp__ := by
            (dsimp only [jp__]; keeps)
          clear_value jp__)
       | (have hjp__ : ∀ a__, Keeps (HasBC codes consts mainFn nm) (jp__ a__) := by
            (intro a__; dsimp only [jp__]; keeps)
          clear_value jp__)
       | (have hjp__ : ∀ a__ b__, Keeps (HasBC codes consts mainFn nm) (jp__ a__ b__) := by
            (intro a__ b__; dsimp only [jp__]; keeps)
          clear_value jp__)
       | (have hjp__ : ∀ a__ b__ c__, Keeps (HasBC codes consts mainFn nm) (jp__ a__ b__ c__) := by
            (intro a__ b__ c__; dsimp only [jp__]; keeps)
          clear_value jp__)
       | clear_value jp__)
    | intro _
    | split
    | dsimp only))

set_option maxHeartbeats 1600000
section
variable {codes : Array Code} {consts : Array V} {mainFn : Addr} {nm : Nat}
local notation "P" => HasBC codes consts mainFn nm

theorem keeps_stackGet (i : Int) : Keeps P (stackGet i) := by unfold stackGet; keeps
macro_rules | `(tactic| keeps_prim) => `(tactic| exact keeps_stackGet _)
theorem keeps_stackSet (i : Int) (v : V) : Keeps P (stackSet i v) := by unfold stackSet; keeps
macro_rules | `(tactic| keeps_prim) => `(tactic| exact keeps_stackSet _ _)
theorem keeps_getSp : Keeps P getSp := by unfold getSp; keeps
macro_rules | `(tactic| keeps_prim) => `(tactic| exact keeps_getSp)
theorem keeps_setSp (v : Int) : Keeps P (setSp v) := by unfold setSp; keeps
macro_rules | `(tactic| keeps_prim) => `(tactic| exact keeps_setSp _)
theorem keeps_getIp : Keeps P getIp := by unfold getIp; keeps
macro_rules | `(tactic| keeps_prim) => `(tactic| exact keeps_getIp)
theorem keeps_setIp (v : Int) : Keeps P (setIp v) := by unfold setIp; keeps
macro_rules | `(tactic| keeps_prim) => `(tactic| exact keeps_setIp _)
theorem keeps_curFrame : Keeps P curFrame := by unfold curFrame; keeps
macro_rules | `(tactic| keeps_prim) => `(tactic| exact keeps_curFrame)
theorem keeps_setCurFrame (f : Frame → Frame) : Keeps P (setCurFrame f) := by unfold setCurFrame; keeps
macro_rules | `(tactic| keeps_prim) => `(tactic| exact keeps_setCurFrame _)
theorem keeps_heapGet (a : Addr) : Keeps P (heapGet a) := by unfold heapGet; keeps
macro_rules | `(tactic| keeps_prim) => `(tactic| exact keeps_heapGet _)
theorem keeps_heapSet (a : Addr) (c : Cell) : Keeps P (heapSet a c) := by unfold heapSet; keeps
macro_rules | `(tactic| keeps_prim) => `(tactic| exact keeps_heapSet _ _)
theorem keeps_heapUpd (a : Addr) (c : Cell) : Keeps P (heapUpd a c) := by unfold heapUpd; keeps
macro_rules | `(tactic| keeps_prim) => `(tactic| exact keeps_heapUpd _ _)
theorem keeps_boxSet (a : Addr) (v : V) : Keeps P (boxSet a v) := by unfold boxSet; keeps
macro_rules | `(tactic| keeps_prim) => `(tactic| exact keeps_boxSet _ _)
theorem keeps_alloc (c : Cell) : Keeps P (alloc c) := by
  apply Keeps.intro'; intro s h; exact h
macro_rules | `(tactic| keeps_prim) => `(tactic| exact keeps_alloc _)
theorem keeps_noteTrace (op : Nat) : Keeps P (noteTrace op) := by
  apply Keeps.intro'; intro s h
  simp only [noteTrace, exec_bind, exec_getS]
  split <;> exact h
macro_rules | `(tactic| keeps_prim) => `(tactic| exact keeps_noteTrace _)
theorem keeps_copyV (v : V) : Keeps P (copyV v) := by
  apply Keeps.intro'; intro s h
  simp only [copyV, exec_bind, exec_getS]
  split
  · exact h
  · exact h
macro_rules | `(tactic| keeps_prim) => `(tactic| exact keeps_copyV _)

theorem keeps_curCode  : Keeps P (curCode ) := by unfold curCode; keeps
macro_rules | `(tactic| keeps_prim) => `(tactic| exact keeps_curCode )
theorem keeps_instAt (i : Int) : Keeps P (instAt i) := by unfold instAt; keeps
macro_rules | `(tactic| keeps_prim) => `(tactic| exact keeps_instAt _)
theorem keeps_opnd1 (k : Int) : Keeps P (opnd1 k) := by unfold opnd1; keeps
macro_rules | `(tactic| keeps_prim) => `(tactic| exact keeps_opnd1 _)
theorem keeps_opnd2 (k : Int) : Keeps P (opnd2 k) := by unfold opnd2; keeps
macro_rules | `(tactic| keeps_prim) => `(tactic| exact keeps_opnd2 _)
theorem keeps_opnd4 (k : Int) : Keeps P (opnd4 k) := by unfold opnd4; keeps
macro_rules | `(tactic| keeps_prim) => `(tactic| exact keeps_opnd4 _)
theorem keeps_constAt (i : Nat) : Keeps P (constAt i) := by unfold constAt; keeps
macro_rules | `(tactic| keeps_prim) => `(tactic| exact keeps_constAt _)
theorem keeps_arrElems (a : Addr) (off len : Nat) : Keeps P (arrElems a off len) := by unfold arrElems; keeps
macro_rules | `(tactic| keeps_prim) => `(tactic| exact keeps_arrElems _ _ _)
theorem keeps_mapEntries (a : Addr) : Keeps P (mapEntries a) := by unfold mapEntries; keeps
macro_rules | `(tactic| keeps_prim) => `(tactic| exact keeps_mapEntries _)
theorem keeps_vString (v : V) : Keeps P (vString v) := by unfold vString; keeps
macro_rules | `(tactic| keeps_prim) => `(tactic| exact keeps_vString _)
theorem keeps_isFalsy (v : V) : Keeps P (isFalsy v) := by unfold isFalsy; keeps
macro_rules | `(tactic| keeps_prim) => `(tactic| exact keeps_isFalsy _)
theorem keeps_vEqual (F : FloatOps) (l r : V) : Keeps P (vEqual F l r) := by unfold vEqual; keeps
macro_rules | `(tactic| keeps_prim) => `(tactic| exact keeps_vEqual _ _ _)
theorem keeps_vBinaryOp (F : FloatOps) (tok : Tok) (l r : V) : Keeps P (vBinaryOp F tok l r) := by unfold vBinaryOp; keeps
macro_rules | `(tactic| keeps_prim) => `(tactic| exact keeps_vBinaryOp _ _ _ _)
theorem keeps_vUnary (F : FloatOps) (tok : Tok) (r : V) : Keeps P (vUnary F tok r) := by unfold vUnary; keeps
macro_rules | `(tactic| keeps_prim) => `(tactic| exact keeps_vUnary _ _ _)
theorem keeps_vIndexGet (t i : V) : Keeps P (vIndexGet t i) := by unfold vIndexGet; keeps
macro_rules | `(tactic| keeps_prim) => `(tactic| exact keeps_vIndexGet _ _)
theorem keeps_vIndexSet (t i v : V) : Keeps P (vIndexSet t i v) := by unfold vIndexSet; keeps
macro_rules | `(tactic| keeps_prim) => `(tactic| exact keeps_vIndexSet _ _ _)
theorem keeps_mkErr (n m : String) (c : Option Addr) : Keeps P (mkErr n m c) := by unfold mkErr; keeps
macro_rules | `(tactic| keeps_prim) => `(tactic| exact keeps_mkErr _ _ _)
theorem keeps_rtErrOfOpErr (e : OpErr) : Keeps P (rtErrOfOpErr e) := by unfold rtErrOfOpErr; keeps
macro_rules | `(tactic| keeps_prim) => `(tactic| exact keeps_rtErrOfOpErr _)
theorem keeps_clearDown (hi lo : Int) : Keeps P (clearDown hi lo) := by unfold clearDown; keeps
macro_rules | `(tactic| keeps_prim) => `(tactic| exact keeps_clearDown _ _)
theorem keeps_searchFrames (n : Nat) : Keeps P (searchFrames n) := by
  induction n with
  | zero => unfold searchFrames; keeps
  | succ n ih => unfold searchFrames; keeps
macro_rules | `(tactic| keeps_prim) => `(tactic| exact keeps_searchFrames _)
theorem keeps_pushV (v : V) : Keeps P (pushV v) := by unfold pushV; keeps
macro_rules | `(tactic| keeps_prim) => `(tactic| exact keeps_pushV _)
theorem keeps_bumpIp (n : Int) : Keeps P (bumpIp n) := by unfold bumpIp; keeps
macro_rules | `(tactic| keeps_prim) => `(tactic| exact keeps_bumpIp _)
theorem keeps_jumpTarget  : Keeps P (jumpTarget ) := by unfold jumpTarget; keeps
macro_rules | `(tactic| keeps_prim) => `(tactic| exact keeps_jumpTarget )
theorem keeps_clearCurrentFrame  : Keeps P (clearCurrentFrame ) := by unfold clearCurrentFrame; keeps
macro_rules | `(tactic| keeps_prim) => `(tactic| exact keeps_clearCurrentFrame )
theorem keeps_fnCell (a : Addr) : Keeps P (fnCell a) := by unfold fnCell; keeps
macro_rules | `(tactic| keeps_prim) => `(tactic| exact keeps_fnCell _)
theorem keeps_stackSlice (lo hi : Int) : Keeps P (stackSlice lo hi) := by unfold stackSlice; keeps
macro_rules | `(tactic| keeps_prim) => `(tactic| exact keeps_stackSlice _ _)
theorem keeps_newArray (xs : List V) : Keeps P (newArray xs) := by unfold newArray; keeps
macro_rules | `(tactic| keeps_prim) => `(tactic| exact keeps_newArray _)
theorem keeps_copyToStack (a : Int) (xs : List V) : Keeps P (copyToStack a xs) := by unfold copyToStack; keeps
macro_rules | `(tactic| keeps_prim) => `(tactic| exact keeps_copyToStack _ _)
theorem keeps_throwF_handle (fuel : Nat) (h : ∀ e, Keeps P (throwF fuel e)) (err : Addr) :
    Keeps P (throwF.handle fuel err) := by
  have h' := h err
  unfold throwF.handle; keeps
theorem keeps_throwF (fuel : Nat) : ∀ err, Keeps P (throwF fuel err) := by
  induction fuel with
  | zero => intro err; unfold throwF; keeps
  | succ n ih =>
    intro err
    have hh := keeps_throwF_handle (codes := codes) (consts := consts) (mainFn := mainFn) (nm := nm) n ih err
    unfold throwF; keeps
macro_rules | `(tactic| keeps_prim) => `(tactic| exact keeps_throwF _ _)
theorem keeps_throwFuel : Keeps P throwFuel := by unfold throwFuel; keeps
macro_rules | `(tactic| keeps_prim) => `(tactic| exact keeps_throwFuel)
theorem keeps_throwGenErr (e : OpErr) : Keeps P (throwGenErr e) := by unfold throwGenErr; keeps
macro_rules | `(tactic| keeps_prim) => `(tactic| exact keeps_throwGenErr _)
theorem keeps_failWith (e : OpErr) : Keeps P (failWith e) := by unfold failWith; keeps
macro_rules | `(tactic| keeps_prim) => `(tactic| exact keeps_failWith _)
theorem keeps_fillUndefined (lo : Int) (n : Nat) : Keeps P (fillUndefined lo n) := by unfold fillUndefined; keeps
macro_rules | `(tactic| keeps_prim) => `(tactic| exact keeps_fillUndefined _ _)
theorem keeps_copySlots (d : Int) (xs : List V) : Keeps P (copySlots d xs) := by unfold copySlots; keeps
macro_rules | `(tactic| keeps_prim) => `(tactic| exact keeps_copySlots _ _)
theorem keeps_enterFrame (fi : Nat) (fa : Addr) (fr : Option (List Addr)) (bp : Int) : Keeps P (enterFrame fi fa fr bp) := by unfold enterFrame; keeps
macro_rules | `(tactic| keeps_prim) => `(tactic| exact keeps_enterFrame _ _ _ _)
theorem keeps_popArgs (n : Nat) : Keeps P (popArgs n) := by unfold popArgs; keeps
macro_rules | `(tactic| keeps_prim) => `(tactic| exact keeps_popArgs _)
theorem keeps_bindArgs (code : Code) (bp na fl : Int) : Keeps P (bindArgs code bp na fl) := by unfold bindArgs; keeps
macro_rules | `(tactic| keeps_prim) => `(tactic| exact keeps_bindArgs _ _ _ _)
theorem keeps_callCompiled (fa : Addr) (na fl : Int) : Keeps P (callCompiled fa na fl) := by unfold callCompiled; keeps
macro_rules | `(tactic| keeps_prim) => `(tactic| exact keeps_callCompiled _ _ _)
theorem keeps_callBuiltin (i : Nat) (args : List V) : Keeps P (callBuiltin i args) := by unfold callBuiltin; keeps
macro_rules | `(tactic| keeps_prim) => `(tactic| exact keeps_callBuiltin _ _)
theorem keeps_callObject (c : V) (na fl : Int) : Keeps P (callObject c na fl) := by unfold callObject; keeps
macro_rules | `(tactic| keeps_prim) => `(tactic| exact keeps_callObject _ _ _)
theorem keeps_callAny (c : V) (na fl : Int) : Keeps P (callAny c na fl) := by unfold callAny; keeps
macro_rules | `(tactic| keeps_prim) => `(tactic| exact keeps_callAny _ _ _)
theorem keeps_findFinally (fuel : Nat) : ∀ upto, Keeps P (findFinally fuel upto) := by
  induction fuel with
  | zero => intro u; unfold findFinally; keeps
  | succ n ih => intro u; have ih' := ih u; unfold findFinally; keeps
macro_rules | `(tactic| keeps_prim) => `(tactic| exact keeps_findFinally _ _)
theorem keeps_execConstant  : Keeps P (execConstant ) := by unfold execConstant; keeps
macro_rules | `(tactic| keeps_prim) => `(tactic| exact keeps_execConstant )
theorem keeps_execGetLocal  : Keeps P (execGetLocal ) := by unfold execGetLocal; keeps
macro_rules | `(tactic| keeps_prim) => `(tactic| exact keeps_execGetLocal )
theorem keeps_execSetLocal  : Keeps P (execSetLocal ) := by unfold execSetLocal; keeps
macro_rules | `(tactic| keeps_prim) => `(tactic| exact keeps_execSetLocal )
theorem keeps_execAndJump  : Keeps P (execAndJump ) := by unfold execAndJump; keeps
macro_rules | `(tactic| keeps_prim) => `(tactic| exact keeps_execAndJump )
theorem keeps_execOrJump  : Keeps P (execOrJump ) := by unfold execOrJump; keeps
macro_rules | `(tactic| keeps_prim) => `(tactic| exact keeps_execOrJump )
theorem keeps_execTrue  : Keeps P (execTrue ) := by unfold execTrue; keeps
macro_rules | `(tactic| keeps_prim) => `(tactic| exact keeps_execTrue )
theorem keeps_execFalse  : Keeps P (execFalse ) := by unfold execFalse; keeps
macro_rules | `(tactic| keeps_prim) => `(tactic| exact keeps_execFalse )
theorem keeps_execCall  : Keeps P (execCall ) := by unfold execCall; keeps
macro_rules | `(tactic| keeps_prim) => `(tactic| exact keeps_execCall )
theorem keeps_execCallName  : Keeps P (execCallName ) := by unfold execCallName; keeps
macro_rules | `(tactic| keeps_prim) => `(tactic| exact keeps_execCallName )
theorem keeps_execReturn  : Keeps P (execReturn ) := by unfold execReturn; keeps
macro_rules | `(tactic| keeps_prim) => `(tactic| exact keeps_execReturn )
theorem keeps_execGetBuiltin  : Keeps P (execGetBuiltin ) := by unfold execGetBuiltin; keeps
macro_rules | `(tactic| keeps_prim) => `(tactic| exact keeps_execGetBuiltin )
theorem keeps_execClosure  : Keeps P (execClosure ) := by unfold execClosure; keeps
macro_rules | `(tactic| keeps_prim) => `(tactic| exact keeps_execClosure )
theorem keeps_execJump  : Keeps P (execJump ) := by unfold execJump; keeps
macro_rules | `(tactic| keeps_prim) => `(tactic| exact keeps_execJump )
theorem keeps_execJumpFalsy  : Keeps P (execJumpFalsy ) := by unfold execJumpFalsy; keeps
macro_rules | `(tactic| keeps_prim) => `(tactic| exact keeps_execJumpFalsy )
theorem keeps_execGetGlobal  : Keeps P (execGetGlobal ) := by unfold execGetGlobal; keeps
macro_rules | `(tactic| keeps_prim) => `(tactic| exact keeps_execGetGlobal )
theorem keeps_execSetGlobal  : Keeps P (execSetGlobal ) := by unfold execSetGlobal; keeps
macro_rules | `(tactic| keeps_prim) => `(tactic| exact keeps_execSetGlobal )
theorem keeps_execArray  : Keeps P (execArray ) := by unfold execArray; keeps
macro_rules | `(tactic| keeps_prim) => `(tactic| exact keeps_execArray )
theorem keeps_execMap  : Keeps P (execMap ) := by unfold execMap; keeps
macro_rules | `(tactic| keeps_prim) => `(tactic| exact keeps_execMap )
theorem keeps_execGetIndex  : Keeps P (execGetIndex ) := by unfold execGetIndex; keeps
macro_rules | `(tactic| keeps_prim) => `(tactic| exact keeps_execGetIndex )
theorem keeps_execSetIndex  : Keeps P (execSetIndex ) := by unfold execSetIndex; keeps
macro_rules | `(tactic| keeps_prim) => `(tactic| exact keeps_execSetIndex )
theorem keeps_execSliceIndex  : Keeps P (execSliceIndex ) := by unfold execSliceIndex; keeps
macro_rules | `(tactic| keeps_prim) => `(tactic| exact keeps_execSliceIndex )
theorem keeps_execGetFree  : Keeps P (execGetFree ) := by unfold execGetFree; keeps
macro_rules | `(tactic| keeps_prim) => `(tactic| exact keeps_execGetFree )
theorem keeps_execSetFree  : Keeps P (execSetFree ) := by unfold execSetFree; keeps
macro_rules | `(tactic| keeps_prim) => `(tactic| exact keeps_execSetFree )
theorem keeps_execGetLocalPtr  : Keeps P (execGetLocalPtr ) := by unfold execGetLocalPtr; keeps
macro_rules | `(tactic| keeps_prim) => `(tactic| exact keeps_execGetLocalPtr )
theorem keeps_execGetFreePtr  : Keeps P (execGetFreePtr ) := by unfold execGetFreePtr; keeps
macro_rules | `(tactic| keeps_prim) => `(tactic| exact keeps_execGetFreePtr )
theorem keeps_execDefineLocal  : Keeps P (execDefineLocal ) := by unfold execDefineLocal; keeps
macro_rules | `(tactic| keeps_prim) => `(tactic| exact keeps_execDefineLocal )
theorem keeps_execNull  : Keeps P (execNull ) := by unfold execNull; keeps
macro_rules | `(tactic| keeps_prim) => `(tactic| exact keeps_execNull )
theorem keeps_execPop  : Keeps P (execPop ) := by unfold execPop; keeps
macro_rules | `(tactic| keeps_prim) => `(tactic| exact keeps_execPop )
theorem keeps_execIterInit  : Keeps P (execIterInit ) := by unfold execIterInit; keeps
macro_rules | `(tactic| keeps_prim) => `(tactic| exact keeps_execIterInit )
theorem keeps_execLoadModule  : Keeps P (execLoadModule ) := by unfold execLoadModule; keeps
macro_rules | `(tactic| keeps_prim) => `(tactic| exact keeps_execLoadModule )
theorem keeps_execStoreModule  : Keeps P (execStoreModule ) := by unfold execStoreModule; keeps
macro_rules | `(tactic| keeps_prim) => `(tactic| exact keeps_execStoreModule )
theorem keeps_execSetupTry  : Keeps P (execSetupTry ) := by unfold execSetupTry; keeps
macro_rules | `(tactic| keeps_prim) => `(tactic| exact keeps_execSetupTry )
theorem keeps_execSetupCatch  : Keeps P (execSetupCatch ) := by unfold execSetupCatch; keeps
macro_rules | `(tactic| keeps_prim) => `(tactic| exact keeps_execSetupCatch )
theorem keeps_execSetupFinally  : Keeps P (execSetupFinally ) := by unfold execSetupFinally; keeps
macro_rules | `(tactic| keeps_prim) => `(tactic| exact keeps_execSetupFinally )
theorem keeps_execThrow  : Keeps P (execThrow ) := by unfold execThrow; keeps
macro_rules | `(tactic| keeps_prim) => `(tactic| exact keeps_execThrow )
theorem keeps_execFinalizer  : Keeps P (execFinalizer ) := by unfold execFinalizer; keeps
macro_rules | `(tactic| keeps_prim) => `(tactic| exact keeps_execFinalizer )
theorem keeps_execNoOp  : Keeps P (execNoOp ) := by unfold execNoOp; keeps
macro_rules | `(tactic| keeps_prim) => `(tactic| exact keeps_execNoOp )
theorem keeps_execBinaryOp (F : FloatOps) : Keeps P (execBinaryOp F) := by unfold execBinaryOp; keeps
macro_rules | `(tactic| keeps_prim) => `(tactic| exact keeps_execBinaryOp _)
theorem keeps_execUnary (F : FloatOps) : Keeps P (execUnary F) := by unfold execUnary; keeps
macro_rules | `(tactic| keeps_prim) => `(tactic| exact keeps_execUnary _)
theorem keeps_execEqual (F : FloatOps) (op : Nat) : Keeps P (execEqual F op) := by unfold execEqual; keeps
macro_rules | `(tactic| keeps_prim) => `(tactic| exact keeps_execEqual _ _)
theorem keeps_execIterNext (op : Nat) : Keeps P (execIterNext op) := by unfold execIterNext; keeps
macro_rules | `(tactic| keeps_prim) => `(tactic| exact keeps_execIterNext _)
theorem keeps_execUnknown (op : Nat) : Keeps P (execUnknown op) := by unfold execUnknown; keeps
macro_rules | `(tactic| keeps_prim) => `(tactic| exact keeps_execUnknown _)
theorem keeps_dispatch (F : FloatOps) (op : Nat) : Keeps P (dispatch F op) := by unfold dispatch; keeps
macro_rules | `(tactic| keeps_prim) => `(tactic| exact keeps_dispatch _ _)
theorem keeps_step (F : FloatOps) : Keeps P (step F) := by unfold step; keeps
macro_rules | `(tactic| keeps_prim) => `(tactic| exact keeps_step _)
theorem keeps_setLocal (nl : Nat) (i : Int) (v : V) : Keeps P (setLocal nl i v) := by unfold setLocal; keeps
macro_rules | `(tactic| keeps_prim) => `(tactic| exact keeps_setLocal _ _ _)
theorem keeps_copyLocals (nl : Nat) (xs : List V) : Keeps P (copyLocals nl xs) := by unfold copyLocals; keeps
macro_rules | `(tactic| keeps_prim) => `(tactic| exact keeps_copyLocals _ _)
theorem keeps_resultValue  : Keeps P (resultValue ) := by unfold resultValue; keeps
macro_rules | `(tactic| keeps_prim) => `(tactic| exact keeps_resultValue )
theorem keeps_initLocals (args : List V) : Keeps P (initLocals args) := by unfold initLocals; keeps
macro_rules | `(tactic| keeps_prim) => `(tactic| exact keeps_initLocals _)
theorem keeps_initCurrentFrame  : Keeps P (initCurrentFrame ) := by unfold initCurrentFrame; keeps
macro_rules | `(tactic| keeps_prim) => `(tactic| exact keeps_initCurrentFrame )
theorem keeps_prologue (g : V) (args : List V) : Keeps P (prologue g args) := by unfold prologue; keeps
macro_rules | `(tactic| keeps_prim) => `(tactic| exact keeps_prologue _ _)
theorem keeps_handlePanic (m : String) : Keeps P (handlePanic m) := by unfold handlePanic; keeps
macro_rules | `(tactic| keeps_prim) => `(tactic| exact keeps_handlePanic _)
theorem keeps_loopF (F : FloatOps) (fuel : Nat) : Keeps P (loopF F fuel) := by
  induction fuel with
  | zero => unfold loopF; keeps
  | succ n ih => unfold loopF; keeps

theorem Keeps.of_run {α} {m : M α} (hm : Keeps P m) {s : State} {r : Except Exc α} {s' : State}
    (hs : P s) (h : m.run.run s = (r, s')) : P s' := by
  have := hm.elim s hs
  unfold exec at this
  rw [h] at this
  exact this

theorem finish_keeps (s : State) (h : P s) : P (runFrom.finish s).2 := by
  unfold runFrom.finish
  split
  · exact h
  · split
    · have hm : Keeps P resultValue := keeps_resultValue
      split <;> (rename_i heq; exact hm.of_run h heq)
    · exact h

theorem go_keeps (F : FloatOps) (reruns : Nat) : ∀ (fuel : Nat) (s : State), P s → P (runFrom.go F reruns fuel s).2 := by
  induction reruns with
  | zero => intro fuel s h; unfold runFrom.go; exact h
  | succ n ih =>
    intro fuel s h
    unfold runFrom.go
    split
    · rename_i heq; exact (keeps_loopF F fuel).of_run h heq
    · rename_i heq
      have h1 := (keeps_loopF F fuel).of_run h heq
      split
      rename_i heq2
      exact finish_keeps _ (keeps_clearCurrentFrame.of_run h1 heq2)
    · rename_i heq; exact (keeps_loopF F fuel).of_run h heq
    · rename_i m s1 heq
      have h1 := (keeps_loopF F fuel).of_run h heq
      split
      · split
        · rename_i heq2; exact (keeps_handlePanic m).of_run h1 heq2
        · rename_i heq2; exact (keeps_handlePanic m).of_run h1 heq2
        · rename_i heq2
          have h2 := (keeps_handlePanic m).of_run h1 heq2
          split
          · exact ih _ _ h2
          · exact finish_keeps _ h2
      · exact h1

/-- `Run` on any prior state leaves the bytecode fields as they were -/
theorem runFrom_keeps (F : FloatOps) (fuel : Nat) (g : V) (args : List V) (s : State) (h : P s) :
    P (runFrom F fuel g args s).2 := by
  unfold runFrom
  split
  · rename_i heq; exact (keeps_prologue g args).of_run h heq
  · rename_i heq; exact (keeps_prologue g args).of_run h heq
  · rename_i heq; exact go_keeps F fuel fuel _ ((keeps_prologue g args).of_run h heq)
end

end UgoVerif.VM
